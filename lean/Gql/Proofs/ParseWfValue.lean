import Gql.Proofs.LexInvNumber
import Gql.Proofs.LexInvString
import Gql.Proofs.ParseWfType
import Gql.Proofs.ValueRoundtrip
import Gql.Proofs.C08LexPaired
import Gql.Proofs.C08ValuePaired
/-!
C08, converse direction for the VALUE / CONST VALUE entry points (`parse_wf`): every tree
`parse_value` / `parse_const_value` returns is the tree of a `Val` that is well formed up to verbatim
surrogates (`Val.wfG (ChOk src)`), and well formed (`Val.wf`) when the source text holds no surrogate
code point.  Uses the inversion of the lexer for NAME (`readNextToken_nameOk`), INT / FLOAT
(`readNumber_isNum`), STRING (`readString_chOk`) and BLOCK_STRING (`readBlockString_chOk`) tokens.
-/
namespace Gql.Text
open Gql

/-- Literal tokens carry a value of their class: number texts, strings of admissible code points,
block-representable block strings. -/
def LitOk (body : List Nat) (t : Token) : Prop :=
  (t.kind = .int → ∃ s, t.value = some s ∧ IsNum false s) ∧
  (t.kind = .float → ∃ s, t.value = some s ∧ IsNum true s) ∧
  (t.kind = .string → ∃ s, t.value = some s ∧ (∀ c ∈ s, ChOk body c) ∧ Pairs.Paired s) ∧
  (t.kind = .blockString → ∃ s, t.value = some s ∧ (∀ c ∈ s, ChOk body c) ∧ BlockRepresentable s ∧
    Pairs.Paired s)

theorem LitOk.of_kind {body : List Nat} {t : Token} (h1 : t.kind ≠ .int) (h2 : t.kind ≠ .float)
    (h3 : t.kind ≠ .string) (h4 : t.kind ≠ .blockString) : LitOk body t :=
  ⟨fun h => absurd h h1, fun h => absurd h h2, fun h => absurd h h3, fun h => absurd h h4⟩

theorem punctKind_ne_int (c : Nat) : punctKind c ≠ some .int := by
  grind (splits := 20) [punctKind]
theorem punctKind_ne_float (c : Nat) : punctKind c ≠ some .float := by
  grind (splits := 20) [punctKind]
theorem punctKind_ne_string (c : Nat) : punctKind c ≠ some .string := by
  grind (splits := 20) [punctKind]
theorem punctKind_ne_blockString (c : Nat) : punctKind c ≠ some .blockString := by
  grind (splits := 20) [punctKind]

theorem Post.and {α : Type} {P Q : α → Prop} {x : LexOut α} (h1 : Post P x) (h2 : Post Q x) :
    Post (fun a => P a ∧ Q a) x := by
  cases x with
  | ok a => exact ⟨h1, h2⟩
  | err e => trivial
  | crash c => exact h1.elim

theorem readNextToken_litOk (body : List Nat) (st : LexState) (pos : Nat) :
    Post (fun r => LitOk body r.1) (readNextToken body st pos) ∨ (readNextToken body st pos).isCrash := by
  by_cases hcr : (readNextToken body st pos).isCrash
  · exact Or.inr hcr
  left
  fun_induction readNextToken body st pos
  · rename_i st pos h ih3 ih2 ih1
    rw [index_ok _ _ h, Out.bind_ok] at hcr ⊢
    have hc0 : charAt body pos = some body[pos] := by simp [charAt, h]
    have hnum := readNumber_isNum body st pos h
    have hstr := readString_chOk body st pos h
    have hblk := readBlockString_chOk body st pos h
    have hstrP := readString_paired body st pos h
    have hblkP := readBlockString_paired body st pos h
    revert hcr
    generalize hcg : body[pos] = c at hc0 hnum hstr hblk hstrP hblkP ⊢
    intro hcr
    refine Post.ite (fun hc => ?_) (fun hn1 => ?_)
    · rw [if_pos hc] at hcr; exact ih3 hcr
    rw [if_neg hn1] at hcr
    refine Post.ite (fun hc => ?_) (fun hn2 => ?_)
    · rw [if_pos hc] at hcr; exact ih2 hcr
    rw [if_neg hn2] at hcr
    refine Post.ite (fun hc => ?_) (fun hn3 => ?_)
    · rw [if_pos hc] at hcr
      refine Post.ite (fun hc' => ?_) (fun hc' => ?_)
      · rw [if_pos hc'] at hcr; exact ih1 hcr
      · rw [if_neg hc'] at hcr; exact ih2 hcr
    rw [if_neg hn3] at hcr
    refine Post.ite (fun _ => ?_) (fun _ => ?_)
    · refine (readComment_post body st pos h).bind ?_
      intro t ht
      exact LitOk.of_kind (by rw [ht.2]; decide) (by rw [ht.2]; decide) (by rw [ht.2]; decide)
        (by rw [ht.2]; decide)
    refine Post.ite (fun hq => ?_) (fun _ => ?_)
    · refine Post.ite (fun htr => ?_) (fun htr => ?_)
      · refine ((hblk hq htr).and (hblkP hq htr)).mono ?_
        intro r hrr
        obtain ⟨hr, hrP⟩ := hrr
        exact ⟨fun hk => (by rw [hr.1] at hk; cases hk), fun hk => (by rw [hr.1] at hk; cases hk),
          fun hk => (by rw [hr.1] at hk; cases hk), fun _ => by
            obtain ⟨sv, hsv, hch, hrep⟩ := hr.2
            exact ⟨sv, hsv, hch, hrep, hrP sv hsv⟩⟩
      · refine ((hstr hq htr).and (hstrP hq htr)).bind ?_
        intro t htt
        obtain ⟨ht, htP⟩ := htt
        exact ⟨fun hk => (by rw [ht.1] at hk; cases hk), fun hk => (by rw [ht.1] at hk; cases hk),
          fun _ => by
            obtain ⟨sv, hsv, hch⟩ := ht.2
            exact ⟨sv, hsv, hch, htP sv hsv⟩, fun hk => (by rw [ht.1] at hk; cases hk)⟩
    cases hk : punctKind c with
    | some k =>
      simp only [post_pure]
      refine LitOk.of_kind ?_ ?_ ?_ ?_ <;> simp only [mkToken] <;> intro hkn <;> subst hkn
      · exact punctKind_ne_int c hk
      · exact punctKind_ne_float c hk
      · exact punctKind_ne_string c hk
      · exact punctKind_ne_blockString c hk
    | none =>
    simp only []
    refine Post.ite (fun _ => ?_) (fun _ => ?_)
    · refine hnum.bind ?_
      intro t ht
      refine ⟨ht.1, ht.2.1, ?_, ?_⟩
      · intro hk; rcases ht.2.2 with h' | h' <;> rw [h'] at hk <;> cases hk
      · intro hk; rcases ht.2.2 with h' | h' <;> rw [h'] at hk <;> cases hk
    refine Post.ite (fun hns => ?_) (fun _ => ?_)
    · refine (readName_post body st pos h).bind ?_
      intro t ht
      exact LitOk.of_kind (by rw [ht.2]; decide) (by rw [ht.2]; decide) (by rw [ht.2]; decide)
        (by rw [ht.2]; decide)
    extract_lets dotErr
    refine Post.ite (fun hc => ?_) (fun _ => ?_)
    · simp only [post_pure]
      exact LitOk.of_kind (by simp [mkToken]) (by simp [mkToken]) (by simp [mkToken]) (by simp [mkToken])
    split
    · refine Post.ite (fun _ => ?_) (fun _ => ?_)
      · refine (show Post (fun _ => True) (dotDigitsLoop body (pos + 1)) from
          (digitsLoop_post body (pos + 1) (by omega)).mono (fun _ _ => trivial)).bind ?_
        intro _ _; simp
      · simp
    · repeat' split
      all_goals simp
  · simp only [post_pure]
    exact LitOk.of_kind (by simp [mkToken]) (by simp [mkToken]) (by simp [mkToken]) (by simp [mkToken])

/-- Every valued token the lexer returns carries a value of its class. -/
def ValOk (body : List Nat) (t : Token) : Prop := NameOk t ∧ LitOk body t

theorem ValOk.of_kind {body : List Nat} {t : Token} (h0 : t.kind ≠ .name) (h1 : t.kind ≠ .int)
    (h2 : t.kind ≠ .float) (h3 : t.kind ≠ .string) (h4 : t.kind ≠ .blockString) : ValOk body t :=
  ⟨NameOk.of_kind h0, LitOk.of_kind h1 h2 h3 h4⟩

theorem readNextToken_valOk (body : List Nat) (st : LexState) (pos : Nat) (t : Token) (st' : LexState)
    (h : readNextToken body st pos = .ok (t, st')) : ValOk body t := by
  constructor
  · rcases readNextToken_nameOk body st pos with h' | h'
    · rw [h] at h'; exact h'
    · rw [h] at h'; simp [Out.isCrash] at h'
  · rcases readNextToken_litOk body st pos with h' | h'
    · rw [h] at h'; exact h'
    · rw [h] at h'; simp [Out.isCrash] at h'

end Gql.Text

namespace Gql.Syntax
open Gql Gql.Text

/-- Every token of the stream carries a value of its class. -/
def VStream (body : List Nat) : Stream → Prop
  | .cons t r => ValOk body t ∧ VStream body r
  | _ => True

theorem vStream_aux (body : List Nat) : ∀ (fuel : Nat) (st : LexState) (pos : Nat),
    VStream body (streamAux body fuel st pos) := by
  intro fuel
  induction fuel with
  | zero => intro st pos; simp [streamAux, VStream]
  | succ fuel ih =>
    intro st pos
    rw [streamAux]
    cases hr : readNextToken body st pos with
    | ok r =>
      obtain ⟨t, st'⟩ := r
      have hn : ValOk body t := readNextToken_valOk body st pos t st' hr
      simp only
      split
      · trivial
      · split
        · exact ih _ _
        · exact ⟨hn, ih _ _⟩
    | err e => trivial
    | crash c => trivial

theorem vStream_streamOf (body : List Nat) : VStream body (streamOf body) := vStream_aux body _ _ _

/-- The parser state holds only tokens with values of their class. -/
def VPS (body : List Nat) (s : PS) : Prop := ValOk body s.cur ∧ VStream body s.rest

theorem bind_ok_inv {α β : Type} {p : P α} {f : α → P β} {s s' : PS} {b : β}
    (h : (p >>= f) s = .ok (b, s')) : ∃ a s1, p s = .ok (a, s1) ∧ f a s1 = .ok (b, s') := by
  rw [bind_eq] at h
  cases hp : p s with
  | ok r => obtain ⟨a, s1⟩ := r; rw [hp] at h; exact ⟨a, s1, rfl, h⟩
  | err e => rw [hp] at h; cases h
  | crash c => rw [hp] at h; cases h

theorem advanceLexer_vinv (body : List Nat) (cfg : Cfg) (s s' : PS) (h : advanceLexer cfg s = .ok ((), s'))
    (hg : VPS body s) : VPS body s' := by
  unfold advanceLexer at h
  split at h
  · cases h; exact hg
  · split at h
    · rename_i t r hrest
      have hgr : ValOk body t ∧ VStream body r := by have := hg.2; rw [hrest] at this; exact this
      split at h
      · cases h; exact ⟨hgr.1, hgr.2⟩
      · simp only at h
        split at h
        · split at h
          · cases h
          · cases h; exact ⟨hgr.1, hgr.2⟩
        · cases h; exact ⟨hgr.1, hgr.2⟩
    · cases h
      exact ⟨ValOk.of_kind (by simp [eofToken]) (by simp [eofToken]) (by simp [eofToken])
        (by simp [eofToken]) (by simp [eofToken]), hg.2⟩
    · cases h
    · cases h

theorem advance_vinv (body : List Nat) (cfg : Cfg) (s s' : PS) (u : Unit) (h : advanceLexer cfg s = .ok (u, s'))
    (hg : VPS body s) : VPS body s' := advanceLexer_vinv body cfg s s' h hg

theorem expectOptionalToken_vinv (body : List Nat) (cfg : Cfg) (k : TokKind) (s s' : PS) (b : Bool)
    (h : expectOptionalToken cfg k s = .ok (b, s')) (hg : VPS body s) :
    VPS body s' ∧ (b = false → s' = s ∧ s.cur.kind ≠ k) := by
  simp only [expectOptionalToken, bind_eq, P.cur] at h
  split at h
  · rw [bind_eq] at h
    cases ha : advanceLexer cfg s with
    | ok r =>
      obtain ⟨u, s1⟩ := r
      rw [ha] at h
      simp only [pure_eq'] at h
      cases h
      exact ⟨advanceLexer_vinv body cfg s _ ha hg, fun hb => by cases hb⟩
    | err e => rw [ha] at h; cases h
    | crash c => rw [ha] at h; cases h
  · rename_i hk
    simp only [pure_eq'] at h
    cases h; exact ⟨hg, fun _ => ⟨rfl, hk⟩⟩

theorem expectToken_vinv (body : List Nat) (cfg : Cfg) (k : TokKind) (s s' : PS) (t : Token)
    (h : expectToken cfg k s = .ok (t, s')) (hg : VPS body s) : VPS body s' ∧ t = s.cur ∧ t.kind = k := by
  simp only [expectToken, bind_eq, P.cur] at h
  split at h
  · rename_i hk
    rw [bind_eq] at h
    cases ha : advanceLexer cfg s with
    | ok r =>
      obtain ⟨u, s1⟩ := r
      rw [ha] at h
      simp only [pure_eq'] at h
      cases h
      exact ⟨advanceLexer_vinv body cfg s _ ha hg, rfl, hk⟩
    | err e => rw [ha] at h; cases h
    | crash c => rw [ha] at h; cases h
  · cases h

theorem parseName_vinv (body : List Nat) (cfg : Cfg) (s s' : PS) (a : Ast) (h : parseName cfg s = .ok (a, s'))
    (hg : VPS body s) : VPS body s' ∧ ∃ n, validName n = true ∧ a = Val.nameNode n := by
  unfold parseName at h
  obtain ⟨t, s1, he, h⟩ := bind_ok_inv h
  simp only [pure_eq'] at h
  cases h
  obtain ⟨hg1, rfl, hk⟩ := expectToken_vinv body cfg .name s _ _ he hg
  obtain ⟨n, hv, hn⟩ := hg.1.1 hk
  exact ⟨hg1, n, hn, by simp [mkNode_name, tokVal, hv, Val.nameNode]⟩

/-- The `while not expect_optional_token(close)` loop keeps the invariants. -/
theorem untilClose_vinv (body : List Nat) (cfg : Cfg) (close : TokKind) (item : P Ast) (R : Ast → Prop)
    (hitem : ∀ s s' a, VPS body s → item s = .ok (a, s') → VPS body s' ∧ R a) :
    ∀ (n : Nat) (acc : List Ast) (s s' : PS) (xs : List Ast), VPS body s → (∀ x ∈ acc, R x) →
      untilClose cfg close item n acc s = .ok (xs, s') → VPS body s' ∧ ∀ x ∈ xs, R x := by
  intro n
  induction n with
  | zero => intro acc s s' xs _ _ h; simp [untilClose, P.crash] at h
  | succ n ih =>
    intro acc s s' xs hg hacc h
    unfold untilClose at h
    obtain ⟨closed, s1, h1, h⟩ := bind_ok_inv h
    have hg1 := (expectOptionalToken_vinv body cfg close s s1 closed h1 hg).1
    cases closed with
    | true =>
      simp only [↓reduceIte, pure_eq'] at h
      cases h
      exact ⟨hg1, hacc⟩
    | false =>
      simp only [Bool.false_eq_true, ↓reduceIte] at h
      obtain ⟨x, s2, h2, h⟩ := bind_ok_inv h
      obtain ⟨hg2, hx⟩ := hitem s1 s2 x hg1 h2
      refine ih (acc ++ [x]) s2 s' xs hg2 ?_ h
      intro y hy
      rw [List.mem_append] at hy
      rcases hy with hy | hy
      · exact hacc y hy
      · simp only [List.mem_singleton] at hy; subst hy; exact hx

theorem parseAny_vinv (body : List Nat) (cfg : Cfg) (n : Nat) (open_ close : TokKind) (item : P Ast)
    (R : Ast → Prop) (hitem : ∀ s s' a, VPS body s → item s = .ok (a, s') → VPS body s' ∧ R a)
    (s s' : PS) (xs : List Ast) (hg : VPS body s) (h : parseAny cfg n open_ item close s = .ok (xs, s')) :
    VPS body s' ∧ ∀ x ∈ xs, R x := by
  unfold parseAny at h
  obtain ⟨t, s1, h1, h⟩ := bind_ok_inv h
  have hg1 := (expectToken_vinv body cfg open_ s s1 t h1 hg).1
  exact untilClose_vinv body cfg close item R hitem n [] s1 s' xs hg1 (by intro x hx; cases hx) h

end Gql.Syntax

namespace Gql.Text
open Gql Gql.Syntax

namespace Val

mutual
  /-- `Val.wf` with the condition on the code points of string values as a parameter. -/
  def wfG (ok : Nat → Prop) (isConst : Bool) : Val → Prop
    | var n => isConst = false ∧ validName n = true
    | int s => IsNum false s
    | float s => IsNum true s
    | str s b => (∀ c ∈ s, ok c) ∧ (b = true → BlockRepresentable s) ∧ Pairs.Paired s
    | bool _ => True
    | null => True
    | enum n => validName n = true ∧ n ≠ S "true" ∧ n ≠ S "false" ∧ n ≠ S "null"
    | list vs => wfGList ok isConst vs
    | obj fs => wfGFields ok isConst fs
  def wfGList (ok : Nat → Prop) (isConst : Bool) : List Val → Prop
    | [] => True
    | v :: vs => wfG ok isConst v ∧ wfGList ok isConst vs
  def wfGFields (ok : Nat → Prop) (isConst : Bool) : List (List Nat × Val) → Prop
    | [] => True
    | (n, v) :: fs => validName n = true ∧ wfG ok isConst v ∧ wfGFields ok isConst fs
end

mutual
  theorem wf_of_wfG (ok : Nat → Prop) (hok : ∀ c, ok c → isScalar c = true) (isConst : Bool) :
      ∀ v : Val, wfG ok isConst v → wf isConst v
    | var n, h => h
    | int s, h => h
    | float s, h => h
    | str s b, h => ⟨fun c hc => hok c (h.1 c hc), h.2.1⟩
    | bool _, _ => trivial
    | null, _ => trivial
    | enum n, h => h
    | list vs, h => by
      simp only [wf]; simp only [wfG] at h
      exact wfList_of_wfG ok hok isConst vs h
    | obj fs, h => by
      simp only [wf]; simp only [wfG] at h
      exact wfFields_of_wfG ok hok isConst fs h
  theorem wfList_of_wfG (ok : Nat → Prop) (hok : ∀ c, ok c → isScalar c = true) (isConst : Bool) :
      ∀ vs : List Val, wfGList ok isConst vs → wfList isConst vs
    | [], _ => trivial
    | v :: vs, h => by
      simp only [wfList]; simp only [wfGList] at h
      exact ⟨wf_of_wfG ok hok isConst v h.1, wfList_of_wfG ok hok isConst vs h.2⟩
  theorem wfFields_of_wfG (ok : Nat → Prop) (hok : ∀ c, ok c → isScalar c = true) (isConst : Bool) :
      ∀ fs : List (List Nat × Val), wfGFields ok isConst fs → wfFields isConst fs
    | [], _ => trivial
    | (n, v) :: fs, h => by
      simp only [wfFields]; simp only [wfGFields] at h
      exact ⟨h.1, wf_of_wfG ok hok isConst v h.2.1, wfFields_of_wfG ok hok isConst fs h.2.2⟩
end

mutual
  /-- What the parser builds is well formed in the sense of the round trip (`Val.wfP`). -/
  theorem wfP_of_wfG (ok : Nat → Prop) (isConst : Bool) : ∀ v : Val, wfG ok isConst v → wfP isConst v
    | var n, h => h
    | int s, h => h
    | float s, h => h
    | str s b, h => ⟨h.2.2, h.2.1⟩
    | bool _, _ => trivial
    | null, _ => trivial
    | enum n, h => h
    | list vs, h => by
      simp only [wfP]; simp only [wfG] at h
      exact wfPList_of_wfG ok isConst vs h
    | obj fs, h => by
      simp only [wfP]; simp only [wfG] at h
      exact wfPFields_of_wfG ok isConst fs h
  theorem wfPList_of_wfG (ok : Nat → Prop) (isConst : Bool) :
      ∀ vs : List Val, wfGList ok isConst vs → wfPList isConst vs
    | [], _ => trivial
    | v :: vs, h => by
      simp only [wfPList]; simp only [wfGList] at h
      exact ⟨wfP_of_wfG ok isConst v h.1, wfPList_of_wfG ok isConst vs h.2⟩
  theorem wfPFields_of_wfG (ok : Nat → Prop) (isConst : Bool) :
      ∀ fs : List (List Nat × Val), wfGFields ok isConst fs → wfPFields isConst fs
    | [], _ => trivial
    | (n, v) :: fs, h => by
      simp only [wfPFields]; simp only [wfGFields] at h
      exact ⟨h.1, wfP_of_wfG ok isConst v h.2.1, wfPFields_of_wfG ok isConst fs h.2.2⟩
end

end Val
end Gql.Text

namespace Gql.Syntax
open Gql Gql.Text

theorem vm_cases (k : TokKind) : valueMethodOf k =
    match k with
    | .dollar => some "variable_value" | .int => some "int" | .float => some "float"
    | .string => some "string_literal" | .blockString => some "string_literal"
    | .name => some "named_values" | .bracketL => some "list" | .braceL => some "object"
    | _ => none := by
  cases k <;> decide

theorem list_of_all_val (ok : Nat → Prop) (c : Bool) : ∀ xs : List Ast,
    (∀ x ∈ xs, ∃ v : Val, Val.wfG ok c v ∧ x = v.toAst) →
    ∃ vs : List Val, Val.wfGList ok c vs ∧ xs = Val.toAstList vs := by
  intro xs
  induction xs with
  | nil => intro _; exact ⟨[], trivial, rfl⟩
  | cons x r ih =>
    intro h
    obtain ⟨v, hv, rfl⟩ := h x (by simp)
    obtain ⟨vs, hvs, rfl⟩ := ih (fun y hy => h y (by simp [hy]))
    exact ⟨v :: vs, by simp only [Val.wfGList]; exact ⟨hv, hvs⟩, by simp [Val.toAstList]⟩

theorem fields_of_all_val (ok : Nat → Prop) (c : Bool) : ∀ xs : List Ast,
    (∀ x ∈ xs, ∃ (n : List Nat) (v : Val), validName n = true ∧ Val.wfG ok c v ∧
      x = .node "ObjectFieldNode" [("name", Val.nameNode n), ("value", v.toAst)]) →
    ∃ fs : List (List Nat × Val), Val.wfGFields ok c fs ∧ xs = Val.toAstFields fs := by
  intro xs
  induction xs with
  | nil => intro _; exact ⟨[], trivial, rfl⟩
  | cons x r ih =>
    intro h
    obtain ⟨n, v, hn, hv, rfl⟩ := h x (by simp)
    obtain ⟨fs, hfs, rfl⟩ := ih (fun y hy => h y (by simp [hy]))
    exact ⟨(n, v) :: fs, by simp only [Val.wfGFields]; exact ⟨hn, hv, hfs⟩, by simp [Val.toAstFields]⟩

/-- **`parse_wf` for values**: whatever `parse_value_literal(is_const)` returns from a state whose
tokens carry values of their class is the tree of a `Val` that is well formed up to verbatim
surrogates. -/
theorem valueLit_vinv (body : List Nat) (cfg : Cfg) (c : Bool) : ∀ (n : Nat) (s s' : PS) (a : Ast),
    VPS body s → valueLit n cfg c s = .ok (a, s') →
    VPS body s' ∧ ∃ v : Val, Val.wfG (ChOk body) c v ∧ a = v.toAst := by
  intro n
  induction n with
  | zero => intro s s' a _ h; simp [valueLit, P.crash] at h
  | succ n ih =>
    intro s s' a hg h
    cases hm : valueMethodOf s.cur.kind with
    | none =>
      simp only [valueLit, bind_eq, P.cur, hm, unexpected, P.fail] at h
      cases h
    | some m =>
      rw [valueLit_dispatch cfg n c s m hm] at h
      rw [vm_cases] at hm
      split at hm
      all_goals first | (cases hm; done) | (simp only [Option.some.injEq] at hm; subst hm)
      · -- variable
        rename_i hk
        rw [dv_var] at h
        unfold parseVariableValue at h
        cases c with
        | true =>
          simp only [↓reduceIte] at h
          obtain ⟨vt, s1, h1, h⟩ := bind_ok_inv h
          simp only [bind_eq, P.cur, unexpected, P.fail] at h
          split at h <;> cases h
        | false =>
          simp only [Bool.false_eq_true, ↓reduceIte] at h
          unfold parseVariable at h
          obtain ⟨t, s1, h1, h⟩ := bind_ok_inv h
          obtain ⟨nm, s2, h2, h⟩ := bind_ok_inv h
          simp only [pure_eq'] at h
          cases h
          have hg1 := (expectToken_vinv body cfg .dollar s _ t h1 hg).1
          obtain ⟨hg2, n', hv, rfl⟩ := parseName_vinv body cfg _ _ nm h2 hg1
          exact ⟨hg2, .var n', ⟨rfl, hv⟩, by simp [mk_var, Val.toAst]⟩
      · -- int
        rename_i hk
        rw [dv_int] at h
        unfold parseNumber at h
        simp only [bind_eq, P.cur] at h
        obtain ⟨u, s1, h1, h⟩ := bind_ok_inv (p := advanceLexer cfg) (f := fun _ => pure _) h
        simp only [pure_eq'] at h
        cases h
        obtain ⟨sv, hsv, hnum⟩ := hg.1.2.1 hk
        exact ⟨advance_vinv body cfg s _ u h1 hg, .int sv, hnum, by simp [mk_int, tokValOrEmpty, hsv, Val.toAst]⟩
      · -- float
        rename_i hk
        rw [dv_float] at h
        unfold parseNumber at h
        simp only [bind_eq, P.cur] at h
        obtain ⟨u, s1, h1, h⟩ := bind_ok_inv (p := advanceLexer cfg) (f := fun _ => pure _) h
        simp only [pure_eq'] at h
        cases h
        obtain ⟨sv, hsv, hnum⟩ := hg.1.2.2.1 hk
        exact ⟨advance_vinv body cfg s _ u h1 hg, .float sv, hnum,
          by simp [mk_float, tokValOrEmpty, hsv, Val.toAst]⟩
      · -- string
        rename_i hk
        rw [dv_string] at h
        unfold parseStringLiteral at h
        simp only [bind_eq, P.cur] at h
        obtain ⟨u, s1, h1, h⟩ := bind_ok_inv (p := advanceLexer cfg) (f := fun _ => pure _) h
        simp only [pure_eq'] at h
        cases h
        obtain ⟨sv, hsv, hch, hpr⟩ := hg.1.2.2.2.1 hk
        exact ⟨advance_vinv body cfg s _ u h1 hg, .str sv false, ⟨hch, (fun hb => by cases hb), hpr⟩,
          by simp [mk_str, tokValOrEmpty, hsv, Val.toAst, hk]⟩
      · -- block string
        rename_i hk
        rw [dv_string] at h
        unfold parseStringLiteral at h
        simp only [bind_eq, P.cur] at h
        obtain ⟨u, s1, h1, h⟩ := bind_ok_inv (p := advanceLexer cfg) (f := fun _ => pure _) h
        simp only [pure_eq'] at h
        cases h
        obtain ⟨sv, hsv, hch, hrep, hpr⟩ := hg.1.2.2.2.2 hk
        exact ⟨advance_vinv body cfg s _ u h1 hg, .str sv true, ⟨hch, (fun _ => hrep), hpr⟩,
          by simp [mk_str, tokValOrEmpty, hsv, Val.toAst, hk]⟩
      · -- named values
        rename_i hk
        rw [dv_named] at h
        unfold parseNamedValues at h
        simp only [bind_eq, P.cur] at h
        obtain ⟨nv, hnv, hval⟩ := hg.1.1 hk
        cases ha : advanceLexer cfg s with
        | err e => rw [ha] at h; cases h
        | crash e => rw [ha] at h; cases h
        | ok r =>
          obtain ⟨u, s1⟩ := r
          rw [ha] at h
          simp only at h
          have hg1 := advance_vinv body cfg s _ u ha hg
          by_cases h1 : nv = S "true"
          · rw [(valueIs_iff hnv "true").mpr h1] at h
            simp only [↓reduceIte, pure_eq'] at h
            cases h
            exact ⟨hg1, .bool true, trivial, by simp [mk_bool, Val.toAst]⟩
          · rw [valueIs_false hnv "true" h1] at h
            by_cases h2 : nv = S "false"
            · rw [(valueIs_iff hnv "false").mpr h2] at h
              simp only [Bool.false_eq_true, ↓reduceIte, pure_eq'] at h
              cases h
              exact ⟨hg1, .bool false, trivial, by simp [mk_bool, Val.toAst]⟩
            · rw [valueIs_false hnv "false" h2] at h
              by_cases h3 : nv = S "null"
              · rw [(valueIs_iff hnv "null").mpr h3] at h
                simp only [Bool.false_eq_true, ↓reduceIte, pure_eq'] at h
                cases h
                exact ⟨hg1, .null, trivial, by simp [mk_null, Val.toAst]⟩
              · rw [valueIs_false hnv "null" h3] at h
                simp only [Bool.false_eq_true, ↓reduceIte, pure_eq'] at h
                cases h
                exact ⟨hg1, .enum nv, ⟨hval, h1, h2, h3⟩, by simp [mk_enum, tokValOrEmpty, hnv, Val.toAst]⟩
      · -- list
        rw [dv_list] at h
        obtain ⟨xs, s1, h1, h⟩ := bind_ok_inv h
        simp only [pure_eq'] at h
        cases h
        obtain ⟨hg1, hall⟩ := parseAny_vinv body cfg n .bracketL .bracketR (valueLit n cfg c)
          (fun x => ∃ v : Val, Val.wfG (ChOk body) c v ∧ x = v.toAst) (fun s s' a hs hh => ih s s' a hs hh)
          s _ xs hg h1
        obtain ⟨vs, hvs, rfl⟩ := list_of_all_val _ c xs hall
        exact ⟨hg1, .list vs, by simp only [Val.wfG]; exact hvs, by simp [mk_list, Val.toAst]⟩
      · -- object
        rw [dv_object] at h
        obtain ⟨xs, s1, h1, h⟩ := bind_ok_inv h
        simp only [pure_eq'] at h
        cases h
        have hitem : ∀ s s' a, VPS body s → parseObjectField cfg (valueLit n cfg c) s = .ok (a, s') →
            VPS body s' ∧ ∃ (nm : List Nat) (v : Val), validName nm = true ∧ Val.wfG (ChOk body) c v ∧
              a = .node "ObjectFieldNode" [("name", Val.nameNode nm), ("value", v.toAst)] := by
          intro s s' a hs hh
          unfold parseObjectField at hh
          obtain ⟨nmA, t1, e1, hh⟩ := bind_ok_inv hh
          obtain ⟨ct, t2, e2, hh⟩ := bind_ok_inv hh
          obtain ⟨va, t3, e3, hh⟩ := bind_ok_inv hh
          simp only [pure_eq'] at hh
          cases hh
          obtain ⟨q1, nm, hnm, rfl⟩ := parseName_vinv body cfg s t1 nmA e1 hs
          have q2 := (expectToken_vinv body cfg .colon t1 t2 ct e2 q1).1
          obtain ⟨q3, v, hv, rfl⟩ := ih t2 s' va q2 e3
          exact ⟨q3, nm, v, hnm, hv, by simp [mk_field]⟩
        obtain ⟨hg1, hall⟩ := parseAny_vinv body cfg n .braceL .braceR _ _ hitem s _ xs hg h1
        obtain ⟨fs, hfs, rfl⟩ := fields_of_all_val _ c xs hall
        exact ⟨hg1, .obj fs, by simp only [Val.wfG]; exact hfs, by simp [mk_obj, Val.toAst]⟩

/-- **`parse_wf` for the VALUE / CONST VALUE entry points**, any source text, any flags, any
`max_tokens`: the tree returned is the tree of a `Val` whose names, number texts and block strings
are well formed and whose string values hold only scalar values and surrogates standing verbatim
in the source text. -/
theorem parseSource_value_wfG (cfg : Cfg) (c : Bool) (src : List Nat) (d : Ast)
    (h : parseSource (if c then .constValue else .value) cfg src = .ok d) :
    ∃ v : Val, Val.wfG (ChOk src) c v ∧ d = v.toAst := by
  have hg0 : VPS src (initState (streamOf src)) :=
    ⟨ValOk.of_kind (by simp [initState, sofToken]) (by simp [initState, sofToken])
      (by simp [initState, sofToken]) (by simp [initState, sofToken]) (by simp [initState, sofToken]),
      vStream_streamOf src⟩
  have key : ∀ fuel (r : Ast × PS), (do
        let _ ← expectToken cfg .sof
        let v ← valueLit fuel cfg c
        let _ ← expectToken cfg .eof
        pure v : P Ast) (initState (streamOf src)) = .ok r →
      ∃ v : Val, Val.wfG (ChOk src) c v ∧ r.1 = v.toAst := by
    intro fuel r hr
    obtain ⟨a, s'⟩ := r
    obtain ⟨t1, s1, h1, hr⟩ := bind_ok_inv hr
    obtain ⟨v, s2, h2, hr⟩ := bind_ok_inv hr
    obtain ⟨t3, s3, h3, hr⟩ := bind_ok_inv hr
    simp only [pure_eq'] at hr
    cases hr
    have hg1 := (expectToken_vinv src cfg .sof _ _ t1 h1 hg0).1
    exact (valueLit_vinv src cfg c fuel _ _ _ hg1 h2).2
  unfold parseSource parseStream parseStreamWith at h
  cases c with
  | true =>
    simp only [↓reduceIte, show (Entry.constValue = Entry.schemaCoordinate) = False by simp, runEntry] at h
    generalize parseFuel (streamOf src) = fuel at h
    split at h
    · rename_i a s' hr
      cases h
      exact key fuel _ hr
    · cases h
    · cases h
  | false =>
    simp only [Bool.false_eq_true, ↓reduceIte, show (Entry.value = Entry.schemaCoordinate) = False by simp,
      runEntry] at h
    generalize parseFuel (streamOf src) = fuel at h
    split at h
    · rename_i a s' hr
      cases h
      exact key fuel _ hr
    · cases h
    · cases h

/-- **`parse_wf` for values, source text without surrogates**: the tree is the tree of a
well-formed `Val`. -/
theorem parseSource_value_wf (cfg : Cfg) (c : Bool) (src : List Nat) (hsrc : ∀ x ∈ src, isSurr x = false)
    (d : Ast) (h : parseSource (if c then .constValue else .value) cfg src = .ok d) :
    ∃ v : Val, Val.wf c v ∧ d = v.toAst := by
  obtain ⟨v, hv, rfl⟩ := parseSource_value_wfG cfg c src d h
  exact ⟨v, Val.wf_of_wfG (ChOk src) (fun _ hc => ChOk.isScalar hsrc hc) c v hv, rfl⟩

/-- `parse_wf` for values with no hypothesis on the source text: the tree is that of a `Val.wfP`. -/
theorem parseSource_value_wfP (cfg : Cfg) (c : Bool) (src : List Nat) (d : Ast)
    (h : parseSource (if c then .constValue else .value) cfg src = .ok d) :
    ∃ v : Val, Val.wfP c v ∧ d = v.toAst := by
  obtain ⟨v, hv, rfl⟩ := parseSource_value_wfG cfg c src d h
  exact ⟨v, Val.wfP_of_wfG (ChOk src) c v hv, rfl⟩

end Gql.Syntax
