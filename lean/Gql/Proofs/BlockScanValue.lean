import Gql.Proofs.BlockEscape
/-!
Reading the text `escapeTQ v ++ after ++ '"""'` with the lexer's block string loop: the raw
lines it collects are the lines of `v` (plus an empty last line when `after` is a line feed).
-/
namespace Gql.Text

/-- The token of a `(token, state)` result. -/
def tokOf (x : LexOut (Token × LexState)) : LexOut Token := x >>= fun p => pure p.1

@[simp] theorem tokOf_ok (t : Token) (s : LexState) : tokOf (.ok (t, s)) = .ok t := rfl

/-- Lines of `v` (split at LF) when the current line already holds `cur`. -/
def linesFrom (cur : List Nat) : List Nat → List (List Nat)
  | [] => [cur]
  | c :: r => if c = 10 then cur :: linesFrom [] r else linesFrom (cur ++ [c]) r

/-- Scalar values only and no carriage return. -/
def GoodVal (v : List Nat) : Prop := ∀ c ∈ v, isScalar c = true ∧ c ≠ 13

def afterLines (after : List Nat) : List (List Nat) := after.map (fun _ => [])

theorem linesFrom_qqq (cur r : List Nat) :
    linesFrom cur (34 :: 34 :: 34 :: r) = linesFrom (cur ++ [34, 34, 34]) r := by
  simp [linesFrom]

theorem getElem?_pre (pre l : List Nat) (i : Nat) : (pre ++ l)[pre.length + i]? = l[i]? := by
  simp [List.getElem?_append_right]

theorem getElem?_pre0 (pre l : List Nat) : (pre ++ l)[pre.length]? = l[0]? := by
  simpa using getElem?_pre pre l 0

theorem getElem?_pre_cons (pre : List Nat) (c : Nat) (X : List Nat) (i : Nat) :
    (pre ++ c :: X)[pre.length + 1 + i]? = X[i]? := by
  rw [Nat.add_assoc, getElem?_pre, Nat.add_comm 1 i]
  simp

theorem escapeTQ_cons_nt {c : Nat} {r : List Nat} (h : ¬ ∃ r', c = 34 ∧ r = 34 :: 34 :: r') :
    escapeTQ (c :: r) = c :: escapeTQ r := by
  rw [escapeTQ]
  all_goals (intros; simp_all)

theorem endsOpen_cons_nt {c : Nat} {r : List Nat} (h : ¬ ∃ r', c = 34 ∧ r = 34 :: 34 :: r')
    (hr : r ≠ []) : endsOpen (c :: r) = endsOpen r := by
  rw [endsOpen]
  all_goals (intros; simp_all)

theorem endsOpen_single (c : Nat) : endsOpen [c] = (c = 34 || c = 92) := by
  rw [endsOpen]
  all_goals (intros; simp_all)

/-- The value of the block string token read from `pre.length` on. -/
def blockTok (st : LexState) (start stop : Nat) (lines : List (List Nat)) : Token :=
  mkToken st .blockString start stop (some (joinLines (dedentBlockStringLines lines)))

theorem scan_value (st : LexState) (start : Nat) (rest after : List Nat)
    (hafter : after = [] ∨ after = [10]) :
    ∀ (n : Nat) (v : List Nat), v.length ≤ n → ∀ (pre : List Nat) (cs ls : Nat) (cl : List Nat)
      (bl : List (List Nat)), cs ≤ pre.length → GoodVal v → (endsOpen v = true → after = [10]) →
      tokOf (readBlockStringLoop (pre ++ (escapeTQ v ++ (after ++ 34 :: 34 :: 34 :: rest))) st start
          pre.length cs ls cl bl) =
        .ok (blockTok st start (pre.length + (escapeTQ v).length + after.length + 3)
            (bl ++ linesFrom
              (cl ++ slice (pre ++ (escapeTQ v ++ (after ++ 34 :: 34 :: 34 :: rest))) cs pre.length) v
              ++ afterLines after)) := by
  intro n
  induction n with
  | zero =>
    intro v hv pre cs ls cl bl hcs _ _
    have : v = [] := List.eq_nil_of_length_eq_zero (by omega)
    subst this
    rcases hafter with h | h <;> subst h
    · simp only [escapeTQ_nil, List.nil_append, List.length_nil, Nat.add_zero, linesFrom, afterLines,
        List.map_nil, List.append_nil]
      rw [blk_close _ st start pre.length cs ls cl bl ((getElem?_pre0 pre _).trans rfl)
        ((getElem?_pre pre _ 1).trans rfl) ((getElem?_pre pre _ 2).trans rfl)]
      rfl
    · simp only [escapeTQ_nil, List.nil_append, List.length_nil, Nat.add_zero, linesFrom, afterLines,
        List.map_cons, List.map_nil, List.length_cons]
      rw [blk_lf _ st start pre.length cs ls cl bl ((getElem?_pre0 pre _).trans rfl)]
      rw [blk_close _ st start (pre.length + 1) (pre.length + 1) (pre.length + 1) [] _
        ((getElem?_pre pre _ 1).trans rfl) ((getElem?_pre pre _ 2).trans rfl)
        ((getElem?_pre pre _ 3).trans rfl)]
      simp [slice_self, blockTok]
  | succ n ih =>
    intro v hv pre cs ls cl bl hcs hgood hopen
    rcases v with _ | ⟨c, r⟩
    · exact ih [] (by simp) pre cs ls cl bl hcs hgood hopen
    by_cases htq : ∃ r', c = 34 ∧ r = 34 :: 34 :: r'
    · obtain ⟨r, hc, hr⟩ := htq
      subst hc hr
      have hb : pre ++ (escapeTQ (34 :: 34 :: 34 :: r) ++ (after ++ 34 :: 34 :: 34 :: rest)) =
          pre ++ (92 :: 34 :: 34 :: 34 :: (escapeTQ r ++ (after ++ 34 :: 34 :: 34 :: rest))) := by
        simp [escapeTQ_qqq]
      have hb2 : pre ++ (92 :: 34 :: 34 :: 34 :: (escapeTQ r ++ (after ++ 34 :: 34 :: 34 :: rest))) =
          (pre ++ [92, 34, 34, 34]) ++ (escapeTQ r ++ (after ++ 34 :: 34 :: 34 :: rest)) := by simp
      have hgood' : GoodVal r := fun c hc => hgood c (by simp [hc])
      have hopen' : endsOpen r = true → after = [10] := by
        intro h; apply hopen; rw [endsOpen]; exact h
      have hlen : (pre ++ [92, 34, 34, 34]).length = pre.length + 4 := by simp
      have h := ih r (by simp at hv; omega) (pre ++ [92, 34, 34, 34]) (pre.length + 1) ls
        (cl ++ slice ((pre ++ [92, 34, 34, 34]) ++ (escapeTQ r ++ (after ++ 34 :: 34 :: 34 :: rest))) cs pre.length)
        bl (by simp) hgood' hopen'
      rw [hlen] at h
      rw [hb, blk_esc _ st start pre.length cs ls cl bl ((getElem?_pre0 pre _).trans rfl)
        ((getElem?_pre pre _ 1).trans rfl) ((getElem?_pre pre _ 2).trans rfl)
        ((getElem?_pre pre _ 3).trans rfl)]
      have hs : slice (pre ++ (92 :: 34 :: 34 :: 34 :: (escapeTQ r ++ (after ++ 34 :: 34 :: 34 :: rest))))
          (pre.length + 1) (pre.length + 1 + 3) = [34, 34, 34] :=
        slice_three _ (pre.length + 1) 34 34 34 ((getElem?_pre pre _ 1).trans rfl)
          ((getElem?_pre pre _ 2).trans rfl) ((getElem?_pre pre _ 3).trans rfl)
      rw [hb2] at hs ⊢
      rw [h, hs, linesFrom_qqq]
      simp only [escapeTQ_qqq, List.length_cons, List.append_assoc]
      congr 2
      omega
    · -- an ordinary character
      have hgood' : GoodVal r := fun d hd => hgood d (by simp [hd])
      have hcg := hgood c (by simp)
      have hb : pre ++ (escapeTQ (c :: r) ++ (after ++ 34 :: 34 :: 34 :: rest)) =
          pre ++ (c :: (escapeTQ r ++ (after ++ 34 :: 34 :: 34 :: rest))) := by
        simp [escapeTQ_cons_nt htq]
      have hb2 : pre ++ (c :: (escapeTQ r ++ (after ++ 34 :: 34 :: 34 :: rest))) =
          (pre ++ [c]) ++ (escapeTQ r ++ (after ++ 34 :: 34 :: 34 :: rest)) := by simp
      have hlen : (pre ++ [c]).length = pre.length + 1 := by simp
      have hopen' : endsOpen r = true → after = [10] := by
        intro h
        apply hopen
        by_cases hr : r = []
        · subst hr; simp [endsOpen] at h
        · rw [endsOpen_cons_nt htq hr]; exact h
      have hget0 : (pre ++ (c :: (escapeTQ r ++ (after ++ 34 :: 34 :: 34 :: rest))))[pre.length]? = some c :=
        (getElem?_pre0 pre _).trans rfl
      by_cases h10 : c = 10
      · subst h10
        have h := ih r (by simp at hv; omega) (pre ++ [10]) (pre.length + 1) (pre.length + 1) []
          (bl ++ [cl ++ slice (pre ++ (10 :: (escapeTQ r ++ (after ++ 34 :: 34 :: 34 :: rest)))) cs pre.length])
          (by simp) hgood' hopen'
        rw [hlen] at h
        rw [hb, blk_lf _ st start pre.length cs ls cl bl hget0]
        rw [hb2] at h ⊢
        rw [h, slice_self]
        simp [linesFrom, escapeTQ_cons_nt htq, Nat.add_assoc, Nat.add_comm 1]
      · have hT : (after ++ 34 :: 34 :: 34 :: rest)[0]? = some 34 → after = [] := by
          intro h
          rcases hafter with ha | ha <;> subst ha
          · rfl
          · simp at h
        have hq : c = 34 → ¬ ((pre ++ (c :: (escapeTQ r ++ (after ++ 34 :: 34 :: 34 :: rest))))[pre.length + 1]? = some 34 ∧
            (pre ++ (c :: (escapeTQ r ++ (after ++ 34 :: 34 :: 34 :: rest))))[pre.length + 2]? = some 34) := by
          intro hc
          subst hc
          have e0 := getElem?_pre_cons pre 34 (escapeTQ r ++ (after ++ 34 :: 34 :: 34 :: rest)) 0
          have e1 := getElem?_pre_cons pre 34 (escapeTQ r ++ (after ++ 34 :: 34 :: 34 :: rest)) 1
          simp only [Nat.add_zero] at e0
          rw [e0, show pre.length + 2 = pre.length + 1 + 1 by omega, e1]
          apply look2
          · intro r' hr'
            exact htq ⟨r', rfl, hr'⟩
          · intro ho hq
            have := hopen ho
            have := hT hq
            simp_all
        have hbs : c = 92 → ¬ ((pre ++ (c :: (escapeTQ r ++ (after ++ 34 :: 34 :: 34 :: rest))))[pre.length + 1]? = some 34 ∧
            (pre ++ (c :: (escapeTQ r ++ (after ++ 34 :: 34 :: 34 :: rest))))[pre.length + 2]? = some 34 ∧
            (pre ++ (c :: (escapeTQ r ++ (after ++ 34 :: 34 :: 34 :: rest))))[pre.length + 3]? = some 34) := by
          intro hc
          subst hc
          have e0 := getElem?_pre_cons pre 92 (escapeTQ r ++ (after ++ 34 :: 34 :: 34 :: rest)) 0
          have e1 := getElem?_pre_cons pre 92 (escapeTQ r ++ (after ++ 34 :: 34 :: 34 :: rest)) 1
          have e2 := getElem?_pre_cons pre 92 (escapeTQ r ++ (after ++ 34 :: 34 :: 34 :: rest)) 2
          simp only [Nat.add_zero] at e0
          rw [e0, show pre.length + 2 = pre.length + 1 + 1 by omega, e1,
            show pre.length + 3 = pre.length + 1 + 2 by omega, e2]
          apply look3
          intro ho hq
          have := hopen ho
          have := hT hq
          simp_all
        have h := ih r (by simp at hv; omega) (pre ++ [c]) cs ls cl bl (by simp; omega) hgood' hopen'
        rw [hlen] at h
        rw [hb, blk_plain _ st start pre.length cs ls c cl bl hget0 hcg.1 h10 hcg.2 hq hbs]
        have hsl := slice_snoc (pre ++ (c :: (escapeTQ r ++ (after ++ 34 :: 34 :: 34 :: rest)))) cs pre.length c
          hcs hget0
        rw [hb2] at hsl ⊢
        rw [h, hsl]
        simp [linesFrom, h10, escapeTQ_cons_nt htq, Nat.add_assoc, Nat.add_comm 1]

end Gql.Text
