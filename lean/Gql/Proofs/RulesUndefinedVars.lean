import Gql.Proofs.RulesUnusedFrags
/-!
C12 — NoUndefinedVariables: the run of the rule as a pure function over the annotated tree, and the traversal lemma.
-/
namespace Gql.Validation.Rules
open Gql.Validation
variable {τ : Type}

/-- names of the variable definitions in the subtree of `n` -/
def definedVars (n : ATree) : List String :=
  (n.nodes.filter (fun d => d.kind == "variable_definition")).filterMap
    (fun vd => (vd.kid "variable").bind (·.nameValue))

/-- `self.defined_variable_names.add(name)` (insertion-ordered) -/
def addVar (d : List String) (v : String) : List String := if d.contains v then d else d ++ [v]

/-- what `leave_operation_definition` reports for the operation `n` when `d` are the defined names -/
def nuvLeave (doc n : ATree) (d : List String) : List RErr :=
  (getRecUsages doc n).filterMap (fun u =>
    if u.fragVar then none
    else match u.name with
      | some v => if d.contains v then none else some ⟨"NoUndefinedVariablesRule", v, [u.node.id, n.id]⟩
      | none => some (RErr.crash "NoUndefinedVariablesRule"))

mutual
  /-- the run of NoUndefinedVariables over a subtree: resulting `defined`, and the reports in order -/
  def runT (doc : ATree) : List String → ATree → List String × List RErr
    | d, .node i f v cs =>
      if i.kind == "operation_definition" then
        ((runL doc [] cs).1, (runL doc [] cs).2 ++ nuvLeave doc (.node i f v cs) (runL doc [] cs).1)
      else if i.kind == "variable_definition" then
        match ((ATree.node i f v cs).kid "variable").bind (·.nameValue) with
        | some x => runL doc (addVar d x) cs
        | none => ((runL doc d cs).1, RErr.crash "NoUndefinedVariablesRule" :: (runL doc d cs).2)
      else runL doc d cs
  def runL (doc : ATree) : List String → List ATree → List String × List RErr
    | d, [] => (d, [])
    | d, t :: ts => ((runL doc (runT doc d t).1 ts).1, (runT doc d t).2 ++ (runL doc (runT doc d t).1 ts).2)
end

theorem nuv_enter_op (doc n : ATree) (s : RS) (ti : TI τ) (hfind : doc.find n.info.id = some n)
    (hk : (n.info.kind == "operation_definition") = true) :
    (noUndefinedVariables (τ := τ) doc).step s .enter n.info ti = (Action.idle, { s with defined := [] }, []) := by
  simp only [noUndefinedVariables, withNode, hfind, hk, if_true]

theorem nuv_enter_vd (doc n : ATree) (s : RS) (ti : TI τ) (hfind : doc.find n.info.id = some n)
    (hk : (n.info.kind == "operation_definition") = false) :
    (noUndefinedVariables (τ := τ) doc).step s .enter n.info ti =
      match (n.kid "variable").bind (·.nameValue) with
      | some x => (Action.idle, { s with defined := addVar s.defined x }, [])
      | none => (Action.idle, s, [RErr.crash "NoUndefinedVariablesRule"]) := by
  simp only [noUndefinedVariables, withNode, hfind, hk, addVar]
  rfl

theorem nuv_leave (doc n : ATree) (s : RS) (ti : TI τ) (hfind : doc.find n.info.id = some n) :
    (noUndefinedVariables (τ := τ) doc).step s .leave n.info ti = (Action.idle, s, nuvLeave doc n s.defined) := by
  simp only [noUndefinedVariables, withNode, hfind, nuvLeave]
  rfl

theorem nuv_trav (doc : ATree) (D : Driver τ) :
    (∀ t : ATree, (∀ n ∈ t.nodes, doc.find n.info.id = some n) →
      ∀ (ti : TI τ) (m : Member τ RS RErr), m.rule = noUndefinedVariables doc → m.skipping = .none →
        (Member.trav D ti m t.erase).rule = noUndefinedVariables doc ∧ (Member.trav D ti m t.erase).skipping = .none ∧
        (Member.trav D ti m t.erase).st = { m.st with defined := (runT doc m.st.defined t).1 } ∧
        (Member.trav D ti m t.erase).errs = m.errs ++ (runT doc m.st.defined t).2) ∧
    (∀ ts : List ATree, (∀ n ∈ ATree.nodesList ts, doc.find n.info.id = some n) →
      ∀ (ti : TI τ) (m : Member τ RS RErr), m.rule = noUndefinedVariables doc → m.skipping = .none →
        (Member.travList D ti m (ATree.eraseList ts)).rule = noUndefinedVariables doc ∧
        (Member.travList D ti m (ATree.eraseList ts)).skipping = .none ∧
        (Member.travList D ti m (ATree.eraseList ts)).st = { m.st with defined := (runL doc m.st.defined ts).1 } ∧
        (Member.travList D ti m (ATree.eraseList ts)).errs = m.errs ++ (runL doc m.st.defined ts).2) := by
  apply ATree.induct
  · intro i f v cs ih hfind ti m hr hs
    simp only [ATree.nodes, List.mem_cons, forall_eq_or_imp] at hfind
    rw [ATree.erase, Member.trav, runT]
    have hfi : doc.find i.id = some (.node i f v cs) := hfind.1
    by_cases hop : (i.kind == "operation_definition") = true
    · -- operation_definition: reset, children, report
      have hE : m.rule.hEnter i.kind = true := by rw [hr]; simp [noUndefinedVariables, hop]
      have hst := nuv_enter_op (τ := τ) doc (.node i f v cs) m.st (D.enter ti i) hfi hop
      simp only [ATree.info] at hst
      have hm1 : (Member.enter (D.enter ti i) i m).1 =
          { m with st := { m.st with defined := [] }, skipping := .none,
                   calls := m.calls ++ [⟨.enter, i, D.enter ti i⟩], errs := m.errs ++ [] } := by
        unfold Member.enter
        rw [hE, hr, hst]
        simp [hs, Member.skipOf]
      rw [hm1]
      obtain ⟨c1, c2, c3, c4⟩ := ih hfind.2 (D.enter ti i)
        { m with st := { m.st with defined := [] }, skipping := .none,
                 calls := m.calls ++ [⟨.enter, i, D.enter ti i⟩], errs := m.errs ++ [] } hr rfl
      simp only at c3 c4
      generalize Member.travList D (D.enter ti i)
        { m with st := { m.st with defined := [] }, skipping := .none,
                 calls := m.calls ++ [⟨.enter, i, D.enter ti i⟩], errs := m.errs ++ [] } (ATree.eraseList cs) = M
        at c1 c2 c3 c4 ⊢
      have hL : M.rule.hLeave i.kind = true := by rw [c1]; simp [noUndefinedVariables, hop]
      have hlv := nuv_leave (τ := τ) doc (.node i f v cs) M.st
        (tiTravList D (D.enter ti i) (ATree.eraseList cs)) hfi
      simp only [ATree.info] at hlv
      simp only [hop, if_true]
      unfold Member.leave
      simp only [c2, hL, if_true]
      rw [c1, hlv]
      simp only [c3, c4]
      refine ⟨trivial, by simp, trivial, by simp [List.append_assoc]⟩
    · have hop' : (i.kind == "operation_definition") = false := by simpa using hop
      have hL : ∀ M : Member τ RS RErr, M.rule = noUndefinedVariables doc → M.rule.hLeave i.kind = false := by
        intro M hM; rw [hM]; simp only [noUndefinedVariables]; exact hop'
      simp only [hop', Bool.false_eq_true, if_false]
      by_cases hvd : (i.kind == "variable_definition") = true
      · have hE : m.rule.hEnter i.kind = true := by rw [hr]; simp [noUndefinedVariables, hvd]
        have hst := nuv_enter_vd (τ := τ) doc (.node i f v cs) m.st (D.enter ti i) hfi hop'
        simp only [ATree.info] at hst
        simp only [hvd, if_true]
        cases hx : ((ATree.node i f v cs).kid "variable").bind (·.nameValue) with
        | some x =>
          rw [hx] at hst
          simp only at hst
          have hm1 : (Member.enter (D.enter ti i) i m).1 =
              { m with st := { m.st with defined := addVar m.st.defined x }, skipping := .none,
                       calls := m.calls ++ [⟨.enter, i, D.enter ti i⟩], errs := m.errs ++ [] } := by
            unfold Member.enter
            rw [hE, hr, hst]
            simp [hs, Member.skipOf]
          rw [hm1]
          obtain ⟨c1, c2, c3, c4⟩ := ih hfind.2 (D.enter ti i)
            { m with st := { m.st with defined := addVar m.st.defined x }, skipping := .none,
                     calls := m.calls ++ [⟨.enter, i, D.enter ti i⟩], errs := m.errs ++ [] } hr rfl
          simp only at c3 c4
          rw [Member.leave_unhandled' _ i _ c2 (hL _ c1)]
          refine ⟨c1, c2, by rw [c3], by rw [c4]; simp⟩
        | none =>
          rw [hx] at hst
          simp only at hst
          have hm1 : (Member.enter (D.enter ti i) i m).1 =
              { m with skipping := .none,
                       calls := m.calls ++ [⟨.enter, i, D.enter ti i⟩],
                       errs := m.errs ++ [RErr.crash "NoUndefinedVariablesRule"] } := by
            unfold Member.enter
            rw [hE, hr, hst]
            simp [hs, Member.skipOf]
          rw [hm1]
          obtain ⟨c1, c2, c3, c4⟩ := ih hfind.2 (D.enter ti i)
            { m with skipping := .none,
                     calls := m.calls ++ [⟨.enter, i, D.enter ti i⟩],
                     errs := m.errs ++ [RErr.crash "NoUndefinedVariablesRule"] } hr rfl
          simp only at c3 c4
          rw [Member.leave_unhandled' _ i _ c2 (hL _ c1)]
          refine ⟨c1, c2, by rw [c3], by rw [c4]; simp⟩
      · have hvd' : (i.kind == "variable_definition") = false := by simpa using hvd
        have hE : m.rule.hEnter i.kind = false := by rw [hr]; simp [noUndefinedVariables, hop', hvd']
        have hm1 : Member.enter (D.enter ti i) i m = (m, []) := by
          unfold Member.enter
          simp [hE]
        rw [hm1]
        simp only [hvd', Bool.false_eq_true, if_false]
        obtain ⟨c1, c2, c3, c4⟩ := ih hfind.2 (D.enter ti i) m hr hs
        rw [Member.leave_unhandled' _ i _ c2 (hL _ c1)]
        exact ⟨c1, c2, c3, c4⟩
  · intro _ ti m hr hs
    simp [ATree.eraseList, Member.travList, runL, hr, hs]
  · intro t ts iht ihts hfind ti m hr hs
    simp only [ATree.nodesList, List.mem_append] at hfind
    rw [ATree.eraseList, Member.travList, runL]
    obtain ⟨a1, a2, a3, a4⟩ := iht (fun n hn => hfind n (Or.inl hn)) ti m hr hs
    obtain ⟨b1, b2, b3, b4⟩ := ihts (fun n hn => hfind n (Or.inr hn)) (tiTrav D ti t.erase) _ a1 a2
    refine ⟨b1, b2, ?_, ?_⟩
    · rw [b3, a3]
    · rw [b4, a4, a3]; simp [List.append_assoc]

/-- names of the variable definitions among `ns` -/
def dv (ns : List ATree) : List String :=
  (ns.filter (fun d => d.kind == "variable_definition")).filterMap (fun vd => (vd.kid "variable").bind (·.nameValue))

theorem dv_append (a b : List ATree) : dv (a ++ b) = dv a ++ dv b := by
  simp [dv, List.filter_append, List.filterMap_append]

theorem mem_addVar (d : List String) (x v : String) : v ∈ addVar d x ↔ v ∈ d ∨ v = x := by
  unfold addVar
  split
  · rename_i h
    rw [List.contains_iff_mem] at h
    constructor
    · intro hv; exact Or.inl hv
    · rintro (hv | rfl)
      · exact hv
      · exact h
  · simp

def vdOk (ns : List ATree) : Prop :=
  ∀ vd ∈ ns, vd.kind = "variable_definition" → ((vd.kid "variable").bind (·.nameValue)).isSome = true

theorem runT_noop (doc : ATree) :
    (∀ t : ATree, (∀ n ∈ t.nodes, n.kind ≠ "operation_definition") → ∀ d,
      (∀ v, v ∈ (runT doc d t).1 ↔ v ∈ d ∨ v ∈ dv t.nodes) ∧ ((runT doc d t).2 = [] ↔ vdOk t.nodes)) ∧
    (∀ ts : List ATree, (∀ n ∈ ATree.nodesList ts, n.kind ≠ "operation_definition") → ∀ d,
      (∀ v, v ∈ (runL doc d ts).1 ↔ v ∈ d ∨ v ∈ dv (ATree.nodesList ts)) ∧
      ((runL doc d ts).2 = [] ↔ vdOk (ATree.nodesList ts))) := by
  apply ATree.induct
  · intro i f v cs ih hno d
    simp only [ATree.nodes, List.mem_cons, forall_eq_or_imp] at hno
    have hop' : (i.kind == "operation_definition") = false := by
      have := hno.1
      simpa [ATree.kind, ATree.info] using this
    rw [runT]
    simp only [hop', Bool.false_eq_true, if_false, ATree.nodes]
    by_cases hvd : (i.kind == "variable_definition") = true
    · have hk : (ATree.node i f v cs).kind = "variable_definition" := by simpa [ATree.kind, ATree.info] using hvd
      simp only [hvd, if_true]
      cases hx : ((ATree.node i f v cs).kid "variable").bind (·.nameValue) with
      | some x =>
        obtain ⟨h1, h2⟩ := ih hno.2 (addVar d x)
        have hdv : dv (ATree.node i f v cs :: ATree.nodesList cs) = x :: dv (ATree.nodesList cs) := by
          simp [dv, hk, hx]
        constructor
        · intro w
          rw [h1 w, mem_addVar, hdv]
          simp only [List.mem_cons]
          constructor
          · rintro ((h | h) | h)
            · exact Or.inl h
            · exact Or.inr (Or.inl h)
            · exact Or.inr (Or.inr h)
          · rintro (h | h | h)
            · exact Or.inl (Or.inl h)
            · exact Or.inl (Or.inr h)
            · exact Or.inr h
        · rw [h2]
          simp only [vdOk, List.mem_cons, forall_eq_or_imp, hx]
          simp
      | none =>
        obtain ⟨h1, h2⟩ := ih hno.2 d
        have hdv : dv (ATree.node i f v cs :: ATree.nodesList cs) = dv (ATree.nodesList cs) := by
          simp [dv, hk, hx]
        constructor
        · intro w
          rw [h1 w, hdv]
        · simp only [vdOk, List.mem_cons, forall_eq_or_imp, hx]
          simp [hk]
    · have hvd' : (i.kind == "variable_definition") = false := by simpa using hvd
      have hk : ¬ (ATree.node i f v cs).kind = "variable_definition" := by simpa [ATree.kind, ATree.info] using hvd
      simp only [hvd', Bool.false_eq_true, if_false]
      obtain ⟨h1, h2⟩ := ih hno.2 d
      have hdv : dv (ATree.node i f v cs :: ATree.nodesList cs) = dv (ATree.nodesList cs) := by
        simp [dv, hk]
      constructor
      · intro w
        rw [h1 w, hdv]
      · rw [h2]
        simp only [vdOk, List.mem_cons, forall_eq_or_imp]
        simp [hk]
  · intro _ d
    simp [runL, ATree.nodesList, dv, vdOk]
  · intro t ts iht ihts hno d
    simp only [ATree.nodesList, List.mem_append] at hno
    obtain ⟨a1, a2⟩ := iht (fun n hn => hno n (Or.inl hn)) d
    obtain ⟨b1, b2⟩ := ihts (fun n hn => hno n (Or.inr hn)) (runT doc d t).1
    rw [runL]
    simp only [ATree.nodesList, dv_append, List.mem_append, List.append_eq_nil_iff]
    constructor
    · intro w
      rw [b1 w, a1 w, or_assoc]
    · rw [a2, b2]
      simp only [vdOk, List.mem_append]
      constructor
      · rintro ⟨h1, h2⟩ vd (h | h)
        · exact h1 vd h
        · exact h2 vd h
      · intro h
        exact ⟨fun vd hv => h vd (Or.inl hv), fun vd hv => h vd (Or.inr hv)⟩

theorem nuvLeave_nil_iff (doc n : ATree) (D : List String) :
    nuvLeave doc n D = [] ↔
      ∀ u ∈ getRecUsages doc n, u.fragVar = false → ∃ v, u.name = some v ∧ v ∈ D := by
  unfold nuvLeave
  rw [List.filterMap_eq_nil_iff]
  apply forall_congr'
  intro u
  apply imp_congr_right
  intro _
  cases hf : u.fragVar with
  | true => simp
  | false =>
    cases hn : u.name with
    | none => simp
    | some x =>
      by_cases hc : D.contains x = true
      · have hmem := hc
        rw [List.contains_iff_mem] at hmem
        simp [hmem]
      · have hmem := hc
        rw [List.contains_iff_mem] at hmem
        simp [hmem]

def opOk (doc : ATree) (ns : List ATree) : Prop :=
  ∀ n ∈ ns, n.kind = "operation_definition" →
    ∀ u ∈ getRecUsages doc n, u.fragVar = false → ∃ v, u.name = some v ∧ v ∈ definedVars n

def noNest (ns : List ATree) : Prop :=
  ∀ n ∈ ns, n.kind = "operation_definition" →
    ∀ m ∈ ATree.nodesList n.children, m.kind ≠ "operation_definition"

theorem vdOk_cons (n : ATree) (ns : List ATree) :
    vdOk (n :: ns) ↔ (n.kind = "variable_definition" → ((n.kid "variable").bind (·.nameValue)).isSome = true) ∧ vdOk ns := by
  simp [vdOk]

theorem opOk_cons (doc n : ATree) (ns : List ATree) :
    opOk doc (n :: ns) ↔ (n.kind = "operation_definition" →
      ∀ u ∈ getRecUsages doc n, u.fragVar = false → ∃ v, u.name = some v ∧ v ∈ definedVars n) ∧ opOk doc ns := by
  simp [opOk]

theorem vdOk_append (a b : List ATree) : vdOk (a ++ b) ↔ vdOk a ∧ vdOk b := by
  simp only [vdOk, List.mem_append]
  constructor
  · intro h
    exact ⟨fun vd hv => h vd (Or.inl hv), fun vd hv => h vd (Or.inr hv)⟩
  · rintro ⟨h1, h2⟩ vd (h | h)
    · exact h1 vd h
    · exact h2 vd h

theorem opOk_append (doc : ATree) (a b : List ATree) : opOk doc (a ++ b) ↔ opOk doc a ∧ opOk doc b := by
  simp only [opOk, List.mem_append]
  constructor
  · intro h
    exact ⟨fun vd hv => h vd (Or.inl hv), fun vd hv => h vd (Or.inr hv)⟩
  · rintro ⟨h1, h2⟩ vd (h | h)
    · exact h1 vd h
    · exact h2 vd h

theorem runT_errs (doc : ATree) :
    (∀ t : ATree, noNest t.nodes → ∀ d, (runT doc d t).2 = [] ↔ vdOk t.nodes ∧ opOk doc t.nodes) ∧
    (∀ ts : List ATree, noNest (ATree.nodesList ts) → ∀ d,
      (runL doc d ts).2 = [] ↔ vdOk (ATree.nodesList ts) ∧ opOk doc (ATree.nodesList ts)) := by
  apply ATree.induct
  · intro i f v cs ih hno d
    have hno2 : noNest (ATree.nodesList cs) := by
      intro n hn
      exact hno n (by simp only [ATree.nodes]; exact List.mem_cons_of_mem _ hn)
    rw [runT]
    simp only [ATree.nodes]
    rw [vdOk_cons, opOk_cons]
    by_cases hop : (i.kind == "operation_definition") = true
    · have hk : (ATree.node i f v cs).kind = "operation_definition" := by simpa [ATree.kind, ATree.info] using hop
      have hnk : ¬ (ATree.node i f v cs).kind = "variable_definition" := by rw [hk]; decide
      have hcs : ∀ n ∈ ATree.nodesList cs, n.kind ≠ "operation_definition" := by
        have := hno (.node i f v cs) (by simp [ATree.nodes]) hk
        simpa [ATree.children] using this
      obtain ⟨h1, h2⟩ := (runT_noop doc).2 cs hcs []
      have hdv : definedVars (ATree.node i f v cs) = dv (ATree.nodesList cs) := by
        show dv (ATree.node i f v cs).nodes = _
        simp [dv, ATree.nodes, hnk]
      have hopk : opOk doc (ATree.nodesList cs) := by
        intro n hn hkn
        exact absurd hkn (hcs n hn)
      simp only [hop, if_true, List.append_eq_nil_iff]
      rw [h2, nuvLeave_nil_iff, hdv]
      constructor
      · rintro ⟨g1, g2⟩
        refine ⟨⟨fun h => absurd h hnk, g1⟩, ⟨fun _ u hu hf => ?_, hopk⟩⟩
        obtain ⟨w, hw1, hw2⟩ := g2 u hu hf
        refine ⟨w, hw1, ?_⟩
        rcases (h1 w).1 hw2 with h | h
        · simp at h
        · exact h
      · rintro ⟨⟨_, g1⟩, ⟨g2, _⟩⟩
        refine ⟨g1, fun u hu hf => ?_⟩
        obtain ⟨w, hw1, hw2⟩ := g2 hk u hu hf
        exact ⟨w, hw1, (h1 w).2 (Or.inr hw2)⟩
    · have hop' : (i.kind == "operation_definition") = false := by simpa using hop
      have hk : ¬ (ATree.node i f v cs).kind = "operation_definition" := by simpa [ATree.kind, ATree.info] using hop
      simp only [hop', Bool.false_eq_true, if_false]
      by_cases hvd : (i.kind == "variable_definition") = true
      · have hkv : (ATree.node i f v cs).kind = "variable_definition" := by simpa [ATree.kind, ATree.info] using hvd
        simp only [hvd, if_true]
        cases hx : ((ATree.node i f v cs).kid "variable").bind (·.nameValue) with
        | some x =>
          simp only
          rw [ih hno2 (addVar d x)]
          simp [hk]
        | none =>
          simp [hkv]
      · have hvd' : (i.kind == "variable_definition") = false := by simpa using hvd
        have hkv : ¬ (ATree.node i f v cs).kind = "variable_definition" := by simpa [ATree.kind, ATree.info] using hvd
        simp only [hvd', Bool.false_eq_true, if_false]
        rw [ih hno2 d]
        simp [hk, hkv]
  · intro _ d
    simp [runL, ATree.nodesList, vdOk, opOk]
  · intro t ts iht ihts hno d
    have hnoa : noNest t.nodes := fun n hn => hno n (by simp only [ATree.nodesList, List.mem_append]; exact Or.inl hn)
    have hnob : noNest (ATree.nodesList ts) :=
      fun n hn => hno n (by simp only [ATree.nodesList, List.mem_append]; exact Or.inr hn)
    rw [runL]
    simp only [ATree.nodesList, List.append_eq_nil_iff]
    rw [vdOk_append, opOk_append, iht hnoa d, ihts hnob (runT doc d t).1]
    constructor
    · rintro ⟨⟨a, b⟩, c, e⟩
      exact ⟨⟨a, c⟩, b, e⟩
    · rintro ⟨⟨a, c⟩, b, e⟩
      exact ⟨⟨a, b⟩, c, e⟩

/-- NoUndefinedVariables reports nothing iff every variable definition has a name and every non-fragment-variable
usage reachable from an operation names a variable defined in that operation. -/
theorem noUndefinedVariables_iff_getters (tbl : TITable) (L : Lookups τ) (doc : ATree) (hu : doc.uniqueIds)
    (hno : ∀ n ∈ doc.nodes, n.kind = "operation_definition" →
      ∀ m ∈ ATree.nodesList n.children, m.kind ≠ "operation_definition") :
    validate tbl L none [(noUndefinedVariables doc, RS.init)] doc.erase = [] ↔
      (∀ vd ∈ doc.nodes, vd.kind = "variable_definition" →
        ((vd.kid "variable").bind (·.nameValue)).isSome = true) ∧
      ∀ n ∈ doc.nodes, n.kind = "operation_definition" →
        ∀ u ∈ getRecUsages doc n, u.fragVar = false → ∃ v, u.name = some v ∧ v ∈ definedVars n := by
  rw [validate_single_eq, List.map_eq_nil_iff]
  have hfind : ∀ n ∈ doc.nodes, doc.find n.info.id = some n := fun n hn => ATree.find_of_mem.1 doc hu n hn
  obtain ⟨_, _, _, c4⟩ := (nuv_trav doc (realDriver tbl L)).1 doc hfind TI.init
    (Member.start (noUndefinedVariables (τ := τ) doc) RS.init) rfl rfl
  rw [c4]
  simp only [Member.start, List.nil_append]
  exact (runT_errs doc).1 doc hno _

end Gql.Validation.Rules
