import Gql.Proofs.ExecDefs3
import Gql.Proofs.ExecPrint2
/-!
C08, stage 3: the printer model (`printAst`) on the parser's tree of a document of executable and
type-system definitions is the typed printer `Exec.printGDoc`.
-/
namespace Gql.Text
open Gql Gql.Syntax

theorem prList_map {α : Type} (w : Widths) (f : α → Ast) (g : α → List Nat) (xs : List α)
    (h : ∀ a ∈ xs, pr w (f a) = .ok (.text (g a))) : prList w (xs.map f) = .ok (xs.map g) := by
  induction xs with
  | nil => simp [prList]
  | cons a r ih => simp [prList, h a (by simp), ih (fun b hb => h b (by simp [hb]))]

theorem pr_list_map {α : Type} (w : Widths) (f : α → Ast) (g : α → List Nat) (xs : List α)
    (h : ∀ a ∈ xs, pr w (f a) = .ok (.text (g a))) : pr w (.list (xs.map f)) = .ok (.texts (xs.map g)) := by
  simp [pr, prList_map w f g xs h]

theorem pr_optL_map {α : Type} (w : Widths) (f : α → Ast) (g : α → List Nat) (xs : List α)
    (h : ∀ a ∈ xs, pr w (f a) = .ok (.text (g a))) :
    pr w (optL (xs.map f)) = .ok (if xs = [] then .none else .texts (xs.map g)) := by
  cases xs with
  | nil => simp [optL, pr]
  | cons a r =>
    have := prList_map w f g (a :: r) h
    simp only [List.map_cons] at this
    simp [optL, pr, this]

theorem prNameNode (w : Widths) (n : List Nat) : pr w (Val.nameNode n) = .ok (.text n) := by
  simp [Val.nameNode, pr, prFields, leave, baseClass, reqRaw, fld]

theorem prNamedType (w : Widths) (n : List Nat) : pr w (namedType n) = .ok (.text n) := by
  simp [namedType, pr, prFields, leave, baseClass, reqRaw, reqText, fld, Val.nameNode]

theorem prIvd (w : Widths) (vd : VarDef) : pr w (Exec.ivdAst vd) = .ok (.text (Exec.printIvd w vd)) := by
  obtain ⟨desc, name, ty, dflt, dirs⟩ := vd
  have h1 := prDesc w desc
  have h2 := prTy w ty
  have h3 := prDflt w dflt
  have h4 := pr_dirsAst w dirs
  have h5 := prNameNode w name
  simp only [Exec.ivdAst, pr, prFields, h1, h2, h3, h4, h5, Out.bind_ok, Out.pure_eq]
  cases desc <;> cases dflt <;> by_cases hds : dirs = [] <;>
    simp [leave, baseClass, reqText, optText, optTexts, fld, hds,
      Exec.printIvd, Exec.descPre, Exec.printDirs, Exec.descText, Exec.dfltText]

theorem prFd (w : Widths) (f : FDef) : pr w (Exec.fdAst f) = .ok (.text (Exec.printFd w f)) := by
  obtain ⟨desc, name, args, ty, dirs⟩ := f
  have h1 := prDesc w desc
  have h2 := prTy w ty
  have h3 := pr_optL_map w Exec.ivdAst (Exec.printIvd w) args (fun a _ => prIvd w a)
  have h4 := pr_dirsAst w dirs
  have h5 := prNameNode w name
  simp only [Exec.fdAst, pr, prFields, h1, h2, h3, h4, h5, Out.bind_ok, Out.pure_eq]
  cases desc <;> by_cases ha : args = [] <;> by_cases hds : dirs = [] <;>
    simp [leave, baseClass, reqText, optText, optTexts, fld, hds, ha,
      Exec.printFd, Exec.descPre, Exec.printDirs, Exec.descText]

theorem prEv (w : Widths) (e : EVDef) : pr w (Exec.evAst e) = .ok (.text (Exec.printEv w e)) := by
  obtain ⟨desc, name, dirs⟩ := e
  have h1 := prDesc w desc
  have h4 := pr_dirsAst w dirs
  have h5 := prNameNode w name
  simp only [Exec.evAst, pr, prFields, h1, h4, h5, Out.bind_ok, Out.pure_eq]
  cases desc <;> by_cases hds : dirs = [] <;>
    simp [leave, baseClass, reqText, optText, optTexts, fld, hds,
      Exec.printEv, Exec.descPre, Exec.printDirs, Exec.descText]

theorem prOt (w : Widths) (ot : List Nat × List Nat) : pr w (Exec.otAst ot) = .ok (.text (Exec.printOt ot)) := by
  have h := prNamedType w ot.2
  simp only [Exec.otAst, pr, prFields, h, Out.bind_ok, Out.pure_eq]
  simp [leave, baseClass, reqText, reqRaw, fld, Exec.printOt]


set_option maxHeartbeats 1000000 in
theorem prTDef_object (w : Widths) (dd : Bool) (iface : Bool) (desc : Desc) (n : List Nat) (ifs : List (List Nat))
    (ds : List Dir) (fs : List FDef) :
    pr w (Exec.tdefAst dd (.object iface desc n ifs ds fs)) =
      .ok (.text (Exec.printTDef w (.object iface desc n ifs ds fs))) := by
  have h1 := prDesc w desc
  have h4 := pr_dirsAst w ds
  have h5 := prNameNode w n
  have h6 := pr_optL_map w namedType id ifs (fun a _ => prNamedType w a)
  have h7 := pr_optL_map w Exec.fdAst (Exec.printFd w) fs (fun a _ => prFd w a)
  simp only [Exec.tdefAst, pr, prFields, h1, h4, h5, h6, h7, Out.bind_ok, Out.pure_eq]
  cases iface <;> cases desc <;> by_cases hds : ds = [] <;> by_cases hi : ifs = [] <;> by_cases hf : fs = [] <;>
    simp [leave, baseClass, reqText, optText, optTexts, fld, hds, hi, hf, Exec.printTDef, Exec.descPre,
      Exec.printDirs, Exec.descText, Exec.objCls, Exec.objKw]

end Gql.Text
