import Gql.Proofs.Antichain
/-!
Every root group has its node (`RootsHaveNodes`): the scheduler deletes the node of a root
only together with removing it from the roots.  With `Anti` this makes the roots an antichain.
-/
namespace Gql.Async
open Gql.Spec.Protocol

def NodesKept (q q' : WQ) : Prop := ∀ k, hasNode q k → hasNode q' k

theorem NodesKept.refl (q : WQ) : NodesKept q q := fun _ h => h
theorem NodesKept.trans {a b c : WQ} (h1 : NodesKept a b) (h2 : NodesKept b c) : NodesKept a c :=
  fun k h => h2 k (h1 k h)

theorem nodesKept_of_eq {q q' : WQ} (h : q'.groupNodes = q.groupNodes) : NodesKept q q' :=
  fun k ⟨n, hn⟩ => ⟨n, h ▸ hn⟩

theorem nodesKept_aset (q : WQ) (g : Nat) (n : GroupNode) :
    NodesKept q { q with groupNodes := aset q.groupNodes g n } := by
  intro k ⟨m, hm⟩
  by_cases e : g = k
  · subst e; exact ⟨n, alookup_aset_self _ _ _⟩
  · exact ⟨m, by simp only; rw [alookup_aset_ne _ _ _ _ e]; exact hm⟩

theorem foldl_kept {α : Type} (f : WQ → α → WQ) (l : List α) (q : WQ)
    (h : ∀ q a, NodesKept q (f q a)) : NodesKept q (l.foldl f q) := by
  induction l generalizing q with
  | nil => exact NodesKept.refl q
  | cons a l ih => exact (h q a).trans (ih _)

theorem push_kept (q : WQ) (ev : GraphEvent) : NodesKept q (push q ev) := by
  unfold push; split
  · exact NodesKept.refl q
  · exact nodesKept_of_eq rfl

theorem startTask_kept (σ : Static) (q : WQ) (t : Nat) : NodesKept q (startTask σ q t) := by
  unfold startTask
  split
  · exact NodesKept.refl q
  · have h1 : NodesKept q ({ q with taskNodes := aset q.taskNodes t {}, started := q.started ++ [t] } : WQ) :=
      nodesKept_of_eq rfl
    simp only
    split
    · exact h1.trans (push_kept _ _)
    · exact h1.trans (push_kept _ _)
    · exact h1
    · exact h1.trans (nodesKept_of_eq rfl)
    · exact h1.trans (nodesKept_of_eq rfl)

theorem startGroup_kept (σ : Static) (q : WQ) (g : Nat) : NodesKept q (startGroup σ q g) := by
  unfold startGroup
  split
  · exact foldl_kept _ _ _ (startTask_kept σ)
  · exact NodesKept.refl q

theorem startNewWork_kept (σ : Static) (q : WQ) (ngs nss : List Nat) :
    NodesKept q (startNewWork σ q ngs nss) := by
  unfold startNewWork
  simp only
  have h1 : ∀ (l : List Nat) (q : WQ), NodesKept q
      (l.foldl (fun q g => startGroup σ { q with rootGroups := oinsert q.rootGroups g } g) q) := by
    intro l
    induction l with
    | nil => intro q; exact NodesKept.refl q
    | cons g l ih =>
      intro q
      simp only [List.foldl_cons]
      have a : NodesKept q ({ q with rootGroups := oinsert q.rootGroups g } : WQ) := nodesKept_of_eq rfl
      exact (a.trans (startGroup_kept σ _ g)).trans (ih _)
  have h2 : ∀ (l : List Nat) (q : WQ), NodesKept q
      (l.foldl (fun q s => startStream { q with rootStreams := oinsert q.rootStreams s } s) q) := by
    intro l
    induction l with
    | nil => intro q; exact NodesKept.refl q
    | cons s l ih =>
      intro q
      simp only [List.foldl_cons]
      have a : NodesKept q (startStream { q with rootStreams := oinsert q.rootStreams s } s) :=
        nodesKept_of_eq rfl
      exact a.trans (ih _)
  exact (h1 ngs q).trans (h2 nss _)

theorem attachGroup_kept (σ : Static) (hpt : Bool) (g : Nat) (r : WQ × List Nat) :
    NodesKept r.1 (attachGroup σ hpt g r).1 := by
  unfold attachGroup
  simp only
  have h1 := nodesKept_aset r.1 g {}
  split
  · split <;> exact h1
  · split
    · exact h1.trans (nodesKept_aset _ _ _)
    · exact h1

theorem attachSeq_kept (σ : Static) (hpt : Bool) (S : List Nat) (r : WQ × List Nat) :
    NodesKept r.1 (attachSeq σ hpt S r).1 := by
  induction S generalizing r with
  | nil => exact NodesKept.refl _
  | cons g S ih =>
    have : attachSeq σ hpt (g :: S) r = attachSeq σ hpt S (attachGroup σ hpt g r) := rfl
    rw [this]; exact (attachGroup_kept σ hpt g r).trans (ih _)

theorem addTaskStep_kept (σ : Static) (t : Nat) (q : WQ) (g : Nat) : NodesKept q (addTaskStep σ t q g) := by
  unfold addTaskStep
  split
  · simp only
    split
    · exact (nodesKept_aset q g _).trans (startTask_kept σ _ t)
    · exact nodesKept_aset q g _
  · exact NodesKept.refl q

theorem addTask_kept (σ : Static) (q : WQ) (t : Nat) : NodesKept q (addTask σ q t) :=
  foldl_kept _ _ _ (addTaskStep_kept σ t)

theorem addStreams_kept (q : WQ) (ss : List Nat) (pt : Option Nat) :
    NodesKept q (addStreams q ss pt).1 := by
  unfold addStreams
  cases pt with
  | none => exact NodesKept.refl q
  | some t =>
    simp only
    cases alookup q.taskNodes t with
    | none => exact NodesKept.refl q
    | some tn => exact nodesKept_of_eq rfl

theorem integrateWork_kept (σ : Static) (q : WQ) (wo : Option Work) (pt : Option Nat) :
    NodesKept q (integrateWork σ q wo pt).1 := by
  unfold integrateWork
  split
  · exact NodesKept.refl q
  · rename_i w
    simp only
    have h1 : NodesKept q (if w.groups.isEmpty then (q, ([] : List Nat))
        else addGroups σ q w.groups pt.isSome).1 := by
      split
      · exact NodesKept.refl q
      · obtain ⟨S, hS, _, _⟩ := addGroups_seq σ q w.groups pt.isSome
        rw [hS]; exact attachSeq_kept σ _ S (q, [])
    have h2 := h1.trans (foldl_kept (addTask σ) w.tasks _ (addTask_kept σ))
    split
    · exact h2
    · exact h2.trans (addStreams_kept _ _ _)

theorem setTaskValue_kept (q : WQ) (t : Nat) (v : GVal) : NodesKept q (setTaskValue q t v) := by
  unfold setTaskValue; split
  · exact nodesKept_of_eq rfl
  · exact NodesKept.refl q

theorem removeTask_kept (σ : Static) (q : WQ) (t : Nat) : NodesKept q (removeTask σ q t) := by
  unfold removeTask
  simp only
  have key : ∀ (gs : List Nat) (gn : List (Nat × GroupNode)) (k : Nat),
      (∃ n, alookup gn k = some n) →
      ∃ n, alookup (gs.foldl (fun gn g =>
        match alookup gn g with
        | some n => aset gn g { n with tasks := oerase n.tasks t }
        | none => gn) gn) k = some n := by
    intro gs
    induction gs with
    | nil => intro gn k h; exact h
    | cons g gs ih =>
      intro gn k ⟨n, hn⟩
      simp only [List.foldl_cons]
      apply ih
      cases hg : alookup gn g with
      | none => exact ⟨n, hn⟩
      | some ng =>
        simp only
        by_cases e : g = k
        · subst e; exact ⟨_, alookup_aset_self _ _ _⟩
        · exact ⟨n, by rw [alookup_aset_ne _ _ _ _ e]; exact hn⟩
  intro k hk
  exact key (σ.tgroups t) q.groupNodes k hk

theorem dropOrphanTask_kept (σ : Static) (q : WQ) (t : Nat) : NodesKept q (dropOrphanTask σ q t) := by
  unfold dropOrphanTask; split
  · exact removeTask_kept σ q t
  · exact NodesKept.refl q

theorem collectTask_kept (σ : Static) (acc : WQ × List GVal × List Nat) (t : Nat) :
    NodesKept acc.1 (collectTask σ acc t).1 := by
  unfold collectTask; split
  · exact removeTask_kept σ _ t
  · exact NodesKept.refl _

theorem collect_kept (σ : Static) (ts : List Nat) (acc : WQ × List GVal × List Nat) :
    NodesKept acc.1 (ts.foldl (collectTask σ) acc).1 := by
  induction ts generalizing acc with
  | nil => exact NodesKept.refl _
  | cons t ts ih => exact (collectTask_kept σ acc t).trans (ih _)

/-- `_remove_group` deletes only the group itself and listed children. -/
theorem removeGroup_del (σ : Static) (fuel : Nat) : ∀ (q : WQ) (g : Nat) (n : GroupNode),
    alookup q.groupNodes g = some n → ∀ k, hasNode q k → ¬ hasNode (removeGroup σ fuel q g n) k →
    k = g ∨ ∃ p, hasChild q p k := by
  induction fuel with
  | zero => intro q g n _ k h1 h2; exact absurd h1 h2
  | succ f ih =>
    intro q g n hn k h1 h2
    by_cases hkg : k = g
    · exact Or.inl hkg
    · right
      unfold removeGroup at h2
      simp only at h2
      have hq1 : hasNode ({ q with groupNodes := aerase q.groupNodes g } : WQ) k := by
        obtain ⟨m, hm⟩ := h1
        exact ⟨m, by simp only; rw [alookup_aerase_ne _ _ _ (fun e => hkg e.symm)]; exact hm⟩
      have hq2 := foldl_kept (dropOrphanTask σ) n.tasks _ (dropOrphanTask_kept σ) k hq1
      have sub2 : SubGraph q (n.tasks.foldl (dropOrphanTask σ) { q with groupNodes := aerase q.groupNodes g }) :=
        (subGraph_erase q g).trans (foldl_sub _ n.tasks _ (dropOrphanTask_sub σ))
      -- the fold over the children
      have key : ∀ (cs : List Nat) (q2 : WQ), SubGraph q q2 → (∀ c ∈ cs, c ∈ n.children) → hasNode q2 k →
          ¬ hasNode (cs.foldl (fun q c =>
            match alookup q.groupNodes c with
            | some cn => removeGroup σ f q c cn
            | none => q) q2) k → ∃ p, hasChild q p k := by
        intro cs
        induction cs with
        | nil => intro q2 _ _ h3 h4; exact absurd h3 h4
        | cons c cs ihc =>
          intro q2 s2 hcs h3 h4
          simp only [List.foldl_cons] at h4
          cases hc : alookup q2.groupNodes c with
          | none =>
            simp only [hc] at h4
            exact ihc q2 s2 (fun x hx => hcs x (List.mem_cons_of_mem _ hx)) h3 h4
          | some cn =>
            simp only [hc] at h4
            by_cases hmid : hasNode (removeGroup σ f q2 c cn) k
            · exact ihc _ (s2.trans (removeGroup_sub σ f q2 c cn))
                (fun x hx => hcs x (List.mem_cons_of_mem _ hx)) hmid h4
            · rcases ih q2 c cn hc k h3 hmid with h5 | ⟨p, h5⟩
              · exact ⟨g, n, hn, h5 ▸ hcs c (by simp)⟩
              · exact ⟨p, s2.hasChild h5⟩
      exact key n.children _ sub2 (fun c hc => hc) hq2 h2

/-- Every root group has its node. -/
def RootsHaveNodes (q : WQ) : Prop := ∀ r ∈ q.rootGroups, hasNode q r

theorem RootsHaveNodes.kept {q q' : WQ} (h : RootsHaveNodes q) (k : NodesKept q q')
    (hr : ∀ x, x ∈ q'.rootGroups → x ∈ q.rootGroups) : RootsHaveNodes q' :=
  fun r hr' => k r (h r (hr r hr'))

end Gql.Async

namespace Gql.Async
open Gql.Spec.Protocol

/-- The node half of the loop invariant of `_task_success`. -/
def SuccNodes (acc : WQ × List WQEvent × List Nat × List Nat) : Prop :=
  RootsHaveNodes acc.1 ∧ ∀ x ∈ acc.2.2.1, hasNode acc.1 x

theorem successStep_nodes (σ : Static) (e : EnvSt) (D : List Node)
    (acc : WQ × List WQEvent × List Nat × List Nat) (g : Nat)
    (h : SuccAll σ e D acc) (hn : SuccNodes acc) : SuccNodes (successStep σ acc g) := by
  unfold successStep
  cases hl : alookup acc.1.groupNodes g with
  | none => simpa [hl] using hn
  | some n =>
    simp only [hl]
    have sh0 : Shrink acc.1 ({ acc.1 with groupNodes := aset acc.1.groupNodes g { n with pending := n.pending - 1 } } : WQ) :=
      ⟨subGraph_aset acc.1 g n _ hl rfl, tsub_of_eq rfl⟩
    have fr0 : RootFrame acc.1 ({ acc.1 with groupNodes := aset acc.1.groupNodes g { n with pending := n.pending - 1 } } : WQ) :=
      ⟨rfl, rfl, rfl, rfl⟩
    have k0 := nodesKept_aset acc.1 g { n with pending := n.pending - 1 }
    have g0 : Good σ e ({ acc.1 with groupNodes := aset acc.1.groupNodes g { n with pending := n.pending - 1 } } : WQ) :=
      h.good.frame sh0 fr0
    split
    · have fo := finishGroupSuccess_out σ e _ g { n with pending := n.pending - 1 } g0
        (by simp only; exact alookup_aset_self _ _ _)
      refine ⟨?_, ?_⟩
      · intro r hr
        rw [fo.rg, mem_oerase] at hr
        have hr0 : hasNode acc.1 r := hn.1 r hr.1
        apply Classical.byContradiction
        intro hno
        rcases fo.del r (k0 r hr0) hno with h1 | ⟨p, hp⟩
        · exact hr.2 h1
        · exact g0.forest.notRoot p r hp hr.1
      · intro x hx
        simp only at hx
        rcases List.mem_append.mp hx with hx | hx
        · apply Classical.byContradiction
          intro hno
          obtain ⟨⟨p0, e0, l0⟩, r0, _⟩ := h.gpend x hx
          rcases fo.del x (k0 x (hn.2 x hx)) hno with h1 | ⟨p, hp⟩
          · -- `x = g` would make `x` a root
            subst h1
            rename_i hfin
            exact r0 hfin.1
          · have := g0.forest.parent p x hp
            rw [e0] at this; cases this
            obtain ⟨m, hm, _⟩ := sh0.sub.hasChild hp
            rw [l0] at hm; cases hm
        · exact fo.gkept x hx
    · exact ⟨fun r hr => k0 r (hn.1 r hr), fun x hx => k0 x (hn.2 x hx)⟩

theorem taskSuccess_nodes (σ : Static) (e : EnvSt) (q : WQ) (t : Nat) (r : TResult) (D : List Node)
    (g : Good σ e q) (hw : ∀ w, r.work = some w → WorkOk σ e q w)
    (hD : ∀ n ∈ D, isRoot q n) (hn : RootsHaveNodes q) : RootsHaveNodes (taskSuccess σ q t r).1 := by
  unfold taskSuccess
  simp only
  have fr1 := setTaskValue_frame q t r.value
  have g1 : Good σ e (setTaskValue q t r.value) := g.frame (setTaskValue_shrink q t r.value) fr1
  have f12 : RootFrame q (integrateWork σ (setTaskValue q t r.value) r.work (some t)).1 :=
    fr1.trans (integrateWork_frame σ _ _ _)
  have k12 : NodesKept q (integrateWork σ (setTaskValue q t r.value) r.work (some t)).1 :=
    (setTaskValue_kept q t r.value).trans (integrateWork_kept σ _ _ _)
  have g2 : Good σ (e.intro r.work) (integrateWork σ (setTaskValue q t r.value) r.work (some t)).1 := by
    cases hwk : r.work with
    | none => rw [integrateWork_none]; exact g1
    | some w =>
      have ok := hw w hwk
      exact (integrateWork_good σ e _ w (some t) g1
        ⟨ok.gnodup, ok.snodup, ok.gfresh, ok.sfresh, ok.noself, ok.plt⟩).1
  have h0 : SuccAll σ (e.intro r.work) D
      ((integrateWork σ (setTaskValue q t r.value) r.work (some t)).1, [], [], []) := by
    refine ⟨g2, ?_, trivial, List.nodup_nil, by simp, List.nodup_nil, by simp⟩
    intro n hn'
    exact Or.inl ((isRoot_of_frame f12 n).mpr (hD n hn'))
  have hfold := foldl_inv
    (fun acc => SuccAll σ (e.intro r.work) D acc ∧ SuccNodes acc) (successStep σ) (σ.tgroups t) _
    ⟨h0, hn.kept k12 (fun x hx => f12.rg ▸ hx), by simp⟩
    (fun acc x ha => ⟨successStep_all σ (e.intro r.work) D acc x ha.1,
      successStep_nodes σ (e.intro r.work) D acc x ha.1 ha.2⟩)
  intro x hx
  rw [(startNewWork_roots σ _ _ _).1, mem_foldl_oinsert] at hx
  apply startNewWork_kept
  rcases hx with hx | hx
  · exact hfold.2.1 x hx
  · exact hfold.2.2 x hx

theorem failureStep_nodes (σ : Static) (e : EnvSt) (acc : WQ × List WQEvent) (g : Nat)
    (h : Good σ e acc.1) (hn : RootsHaveNodes acc.1) : RootsHaveNodes (failureStep σ acc g).1 := by
  unfold failureStep
  cases hl : alookup acc.1.groupNodes g with
  | none => simpa [hl] using hn
  | some n =>
    simp only [hl]
    unfold finishGroupFailure
    simp only
    have fr := removeGroup_frame σ (acc.1.groupNodes.length + 1) acc.1 g n
    intro r hr
    simp only [mem_oerase] at hr
    rw [fr.rg] at hr
    apply Classical.byContradiction
    intro hno
    rcases removeGroup_del σ _ acc.1 g n hl r (hn r hr.1) (fun ⟨m, hm⟩ => hno ⟨m, hm⟩) with h1 | ⟨p, hp⟩
    · exact hr.2 h1
    · exact h.forest.notRoot p r hp hr.1

theorem taskFailure_nodes (σ : Static) (e : EnvSt) (q : WQ) (t : Nat) (g : Good σ e q)
    (hn : RootsHaveNodes q) : RootsHaveNodes (taskFailure σ q t).1 := by
  unfold taskFailure
  have g0 : Good σ e ({ q with taskNodes := aerase q.taskNodes t } : WQ) := by
    refine g.shrink ⟨subGraph_of_eq rfl, ?_⟩ (fun x hx => hx) (fun x hx => hx)
    intro x tn' hx
    by_cases ex : t = x
    · subst ex; simp only at hx; rw [alookup_aerase_self] at hx; cases hx
    · simp only at hx; rw [alookup_aerase_ne _ _ _ ex] at hx; exact Or.inr ⟨tn', hx, rfl⟩
  have h := foldl_inv (fun acc : WQ × List WQEvent =>
      (Good σ e acc.1 ∧ ∀ ev ∈ acc.2, evNew ev = []) ∧ RootsHaveNodes acc.1)
    (failureStep σ) (σ.tgroups t) (({ q with taskNodes := aerase q.taskNodes t } : WQ), [])
    ⟨⟨g0, by simp⟩, hn.kept (nodesKept_of_eq rfl) (fun x hx => hx)⟩
    (fun acc x ha => ⟨failureStep_good σ e acc x ha.1, failureStep_nodes σ e acc x ha.1.1 ha.2⟩)
  exact h.2

theorem itemStep_nodes (σ : Static) (q0 : WQ) (e : EnvSt) (acc : WQ × List IVal × List Nat × List Nat)
    (it : IResult) (h : ItemAll σ q0 e acc) (hw : ∀ w, it.work = some w → WorkOk σ e acc.1 w)
    (hn : RootsHaveNodes acc.1) : RootsHaveNodes (itemStep σ acc it).1 := by
  cases hwk : it.work with
  | none => rw [itemStep_none σ acc it hwk]; exact hn
  | some w =>
    have ok := hw w hwk
    obtain ⟨gi, fi, ni, mi, si, sni⟩ := integrateWork_good σ e acc.1 w none h.good ok
    have ki := integrateWork_kept σ acc.1 (some w) none
    have hdet : ∀ x ∈ (integrateWork σ acc.1 (some w) none).2.1,
        Detached (integrateWork σ acc.1 (some w) none).1 x := by
      intro x hx p hc
      have := gi.forest.parent p x hc
      rw [(mi x hx).2] at this; cases this
    obtain ⟨new, en, po⟩ := prune_spec σ _ (integrateWork σ acc.1 (some w) none).2.1
      (integrateWork σ acc.1 (some w) none).1 [] gi.forest.treeLike ni hdet
    have hnew : (pruneEmpty (integrateWork σ acc.1 (some w) none).1
        (integrateWork σ acc.1 (some w) none).2.1).2 = new := by simpa [pruneEmpty] using en
    have frp := pruneEmpty_frame (integrateWork σ acc.1 (some w) none).1
      (integrateWork σ acc.1 (some w) none).2.1
    unfold itemStep
    simp only [hwk]
    rw [hnew]
    intro x hx
    rw [(startNewWork_roots σ _ _ _).1, mem_foldl_oinsert] at hx
    apply startNewWork_kept
    rcases hx with hx | hx
    · rw [frp.rg, fi.rg] at hx
      apply Classical.byContradiction
      intro hno
      rcases po.del x (ki x (hn x hx)) (fun ⟨m, hm⟩ => hno ⟨m, hm⟩) with h1 | ⟨p, hp, _⟩
      · exact ok.gfresh x (mi x h1).1 (h.good.known.roots x hx)
      · exact gi.forest.notRoot p x hp (fi.rg ▸ hx)
    · obtain ⟨m, hm⟩ := po.kept x hx
      exact ⟨m, hm⟩

theorem items_nodes (σ : Static) (q0 qe : WQ) (items : List IResult) :
    ∀ (e : EnvSt) (n0 : Nat) (acc : WQ × List IVal × List Nat × List Nat) (e1 : EnvSt) (n1 : Nat),
      ItemAll σ q0 e acc → RootsHaveNodes acc.1 → itemsOk σ qe e n0 items = some (e1, n1) →
      RootsHaveNodes (items.foldl (itemStep σ) acc).1 := by
  induction items with
  | nil => intro e n0 acc e1 n1 _ hn _; exact hn
  | cons it items ih =>
    intro e n0 acc e1 n1 h hn hi
    unfold itemsOk at hi
    by_cases hc : (idxMatches it.value.idx n0 && workOptOk σ e qe none it.work) = true
    · rw [if_pos hc] at hi
      simp only [List.foldl_cons]
      simp only [Bool.and_eq_true] at hc
      have hwork : ∀ w, it.work = some w → WorkOk σ e acc.1 w := by
        intro w hw
        have := hc.2
        rw [hw] at this
        have ok := workOk_of σ e qe none w this
        exact ⟨ok.gnodup, ok.snodup, ok.gfresh, ok.sfresh, ok.noself, ok.plt⟩
      exact ih (e.intro it.work) (n0 + 1) _ e1 n1 (itemStep_all σ q0 e acc it h hwork)
        (itemStep_nodes σ q0 e acc it h hwork hn) hi
    · rw [if_neg hc] at hi; cases hi

theorem handle_nodes (σ : Static) (e : EnvSt) (q : WQ) (ev : GraphEvent) (e' : EnvSt) (D : List Node)
    (g : Good σ e q) (hn : RootsHaveNodes q) (hD : ∀ n ∈ D, isRoot q n)
    (hok : eventOk σ e q ev = some e') : RootsHaveNodes (handleGraphEvent σ q ev).1 := by
  cases ev with
  | taskSuccess t r =>
    simp only [eventOk] at hok
    split at hok
    · rename_i hc
      simp only [Bool.and_eq_true] at hc
      exact taskSuccess_nodes σ e q t r D g (workOptOk_of σ e q (some t) r.work hc.2) hD hn
    · cases hok
  | taskFailure t => exact taskFailure_nodes σ e q t g hn
  | streamItems s items st =>
    simp only [eventOk] at hok
    split at hok
    · cases hi : itemsOk σ q e ((alookup e.streamNext s).getD 0) items with
      | none => simp [hi] at hok
      | some r =>
        obtain ⟨e1, n1⟩ := r
        have hroot0 : ItemInv q (q, [], [], []) := by
          intro n hn'
          rcases hn' with hn' | hn'
          · exact hn'
          · simp [nodesOf] at hn'
        have h0 : ItemAll σ q e (q, [], [], []) :=
          ⟨g, hroot0, List.nodup_nil, by simp, List.nodup_nil, by simp⟩
        have := items_nodes σ q q items e _ (q, [], [], []) e1 n1 h0 hn hi
        simp only [handleGraphEvent, streamItems]
        split
        · exact this.kept (nodesKept_of_eq rfl) (fun x hx => hx)
        · exact this
    · cases hok
  | streamSuccess s =>
    simp only [handleGraphEvent]
    split
    · exact hn.kept (nodesKept_of_eq rfl) (fun x hx => hx)
    · exact hn
  | streamFailure s => exact hn.kept (nodesKept_of_eq rfl) (fun x hx => hx)
  | stop => exact hn

/-- The run invariant behind P5, complete. -/
def P5Inv (σ : Static) (D0 : List Node) (e : EnvSt) (q : WQ) (E : List WQEvent) : Prop :=
  AntiInv σ D0 e q E ∧ RootsHaveNodes q

theorem p5Inv_run (σ : Static) (D0 : List Node) : RunInv σ (P5Inv σ D0) where
  handle := by
    intro e q ev e' E ⟨h, hn⟩ hst hok
    exact ⟨(antiInv_run σ D0).handle e q ev e' E h hst hok,
      handle_nodes σ e q ev e' (domSteps D0 E) h.1.1 hn h.1.2.1.2.2 hok⟩
  chan := by
    intro e q E cc ⟨h, hn⟩
    exact ⟨(antiInv_run σ D0).chan e q E cc h, hn.kept (nodesKept_of_eq rfl) (fun x hx => hx)⟩
  defer := by
    intro e q E d ⟨h, hn⟩
    exact ⟨(antiInv_run σ D0).defer e q E d h, hn.kept (nodesKept_of_eq rfl) (fun x hx => hx)⟩
  term := by
    intro e q E ⟨h, hn⟩ hg hs
    exact ⟨(antiInv_run σ D0).term e q E h hg hs, hn.kept (nodesKept_of_eq rfl) (fun x hx => hx)⟩

end Gql.Async

namespace Gql.Async
open Gql.Spec.Protocol

theorem startRoots_kept (σ : Static) (q : WQ) : NodesKept q (startRoots σ q) := by
  unfold startRoots
  simp only
  have h1 : NodesKept q (q.rootGroups.foldl (startGroup σ) q) := foldl_kept _ _ _ (startGroup_kept σ)
  have h2 : ∀ (l : List Nat) (q' : WQ), NodesKept q' (l.foldl startStream q') := by
    intro l
    induction l with
    | nil => intro q'; exact NodesKept.refl q'
    | cons s l ih =>
      intro q'
      simp only [List.foldl_cons]
      have a : NodesKept q' (startStream q' s) := nodesKept_of_eq rfl
      exact a.trans (ih _)
  exact h1.trans (h2 _ _)

theorem closed_empty (σ : Static) : Closed σ {} := by
  intro g hg; simp at hg

/-- The started queue: `Closed`, the antichain invariant and `RootsHaveNodes`. -/
theorem init_p5 (σ : Static) (work : Option Work) (hw : workOptOk σ {} {} none work = true) :
    Closed σ (({} : EnvSt).intro work) ∧ Anti σ (startRoots σ (init σ work).1) ∧
    RootsHaveNodes (startRoots σ (init σ work).1) := by
  cases work with
  | none =>
    have h1 : init σ none = ({}, [], []) := rfl
    have h2 : startRoots σ ({} : WQ) = {} := rfl
    rw [h1, h2]
    exact ⟨closed_empty σ, fun r hr => by simp at hr, fun r hr => by simp at hr⟩
  | some w =>
    have ok := workOk_of σ {} {} none w hw
    have c' : Closed σ (({} : EnvSt).intro (some w)) := by
      apply closed_intro σ {} w (closed_empty σ) ok
      intro g hg p hp
      exact workOk_parent σ {} {} none w hw g hg p hp
    obtain ⟨gi, fi, ni, mi, si, sni⟩ := integrateWork_good σ {} {} w none (good_empty σ {}) ok
    have hdet : ∀ x ∈ (integrateWork σ {} (some w) none).2.1,
        Detached (integrateWork σ {} (some w) none).1 x := by
      intro x hx p hc
      have := gi.forest.parent p x hc
      rw [(mi x hx).2] at this; cases this
    obtain ⟨new, en, po⟩ := prune_spec σ _ (integrateWork σ {} (some w) none).2.1
      (integrateWork σ {} (some w) none).1 [] gi.forest.treeLike ni hdet
    have hnew : (pruneEmpty (integrateWork σ {} (some w) none).1
        (integrateWork σ {} (some w) none).2.1).2 = new := by simpa [pruneEmpty] using en
    have shp : Shrink (integrateWork σ {} (some w) none).1
        (pruneEmpty (integrateWork σ {} (some w) none).1 (integrateWork σ {} (some w) none).2.1).1 :=
      prune_shrink _ _ ((integrateWork σ {} (some w) none).1, [])
    have key := prune_anc σ _ _ _ new po gi.forest.treeLike shp.sub
      (hasChild_lt σ _ _ gi c')
      (by intro y hy b hb
          obtain ⟨p, e1, _⟩ := hb.inv
          rw [(mi y hy).2] at e1; cases e1)
    have hinit : init σ (some w) =
        (({ (pruneEmpty (integrateWork σ {} (some w) none).1 (integrateWork σ {} (some w) none).2.1).1 with
            rootGroups := (pruneEmpty (integrateWork σ {} (some w) none).1
              (integrateWork σ {} (some w) none).2.1).2.foldl oinsert [],
            rootStreams := (integrateWork σ {} (some w) none).2.2.foldl oinsert [] } : WQ),
          (pruneEmpty (integrateWork σ {} (some w) none).1 (integrateWork σ {} (some w) none).2.1).2,
          (integrateWork σ {} (some w) none).2.2) := rfl
    rw [hinit, hnew]
    have sh : Shrink (pruneEmpty (integrateWork σ {} (some w) none).1
        (integrateWork σ {} (some w) none).2.1).1
        (startRoots σ ({ (pruneEmpty (integrateWork σ {} (some w) none).1
          (integrateWork σ {} (some w) none).2.1).1 with
            rootGroups := new.foldl oinsert [],
            rootStreams := (integrateWork σ {} (some w) none).2.2.foldl oinsert [] } : WQ)) := by
      have a : Shrink (pruneEmpty (integrateWork σ {} (some w) none).1
          (integrateWork σ {} (some w) none).2.1).1
          ({ (pruneEmpty (integrateWork σ {} (some w) none).1
            (integrateWork σ {} (some w) none).2.1).1 with
              rootGroups := new.foldl oinsert [],
              rootStreams := (integrateWork σ {} (some w) none).2.2.foldl oinsert [] } : WQ) :=
        shrink_of_eq rfl rfl
      exact a.trans (startRoots_shrink σ _)
    have hroots : ∀ x, x ∈ (startRoots σ ({ (pruneEmpty (integrateWork σ {} (some w) none).1
          (integrateWork σ {} (some w) none).2.1).1 with
            rootGroups := new.foldl oinsert [],
            rootStreams := (integrateWork σ {} (some w) none).2.2.foldl oinsert [] } : WQ)).rootGroups →
        x ∈ new := by
      intro x hx
      have := (isRoot_startRoots σ _ (.group x)).mp hx
      simp only [isRoot, mem_foldl_oinsert] at this
      rcases this with h | h
      · simp at h
      · exact h
    refine ⟨c', ?_, ?_⟩
    · intro r hr
      exact (key r (Or.inl (hroots r hr))).sub sh.sub
    · intro r hr
      have k1 : NodesKept (pruneEmpty (integrateWork σ {} (some w) none).1
          (integrateWork σ {} (some w) none).2.1).1
          ({ (pruneEmpty (integrateWork σ {} (some w) none).1
            (integrateWork σ {} (some w) none).2.1).1 with
              rootGroups := new.foldl oinsert [],
              rootStreams := (integrateWork σ {} (some w) none).2.2.foldl oinsert [] } : WQ) :=
        nodesKept_of_eq rfl
      apply (k1.trans (startRoots_kept σ _)) r
      obtain ⟨m, hm⟩ := po.kept r (hroots r hr)
      exact ⟨m, hm⟩

/-- At the end of every well-formed history: no proper ancestor of a root group has a node, and
every root group has its node. -/
theorem p5_final (σ : Static) (fuel : Nat) (work : Option Work) (h : List Tick)
    (hok : envOk σ fuel work h = true) :
    Anti σ (wqRun σ fuel (wqStart σ fuel work) h).1 ∧
    RootsHaveNodes (wqRun σ fuel (wqStart σ fuel work) h).1 := by
  have hw : workOptOk σ {} {} none work = true := by
    unfold envOk at hok
    simp only [Bool.and_eq_true] at hok
    exact hok.1
  obtain ⟨g0, _⟩ := init_good σ work hw
  obtain ⟨c0, a0, n0⟩ := init_p5 σ work hw
  have := (p5Inv_run σ (nodesOf (init σ work).2.1 (init σ work).2.2)).envOk fuel work h ?_ hok
  · obtain ⟨e, ⟨_, _, a⟩, hn⟩ := this
    exact ⟨a, hn⟩
  · obtain ⟨hp, hst, hr⟩ := init_facts σ work
    obtain ⟨sp, sst⟩ := startRoots_pumps σ (init σ work).1
    refine ⟨⟨⟨g0, ⟨?_, ?_, ?_⟩, trivial⟩, c0, a0⟩, n0⟩
    · intro s hs
      rw [sp, hp, List.nil_append] at hs
      exact Or.inl ((isRoot_startRoots σ _ (.stream s)).mpr hs)
    · intro hs; rw [sst, hst] at hs; cases hs
    · intro n hn'
      exact (isRoot_startRoots σ _ n).mpr (hr n hn')

end Gql.Async
