import Gql.Proofs.RulesUniqueFrags
import Gql.Proofs.RulesLone
/-!
C12 — `rule_iff_spec` for NoUnusedFragments: a rule that collects the definitions (SKIP at each of them) and reports
when it leaves the document node.
-/
namespace Gql.Validation.Rules
open Gql.Validation
variable {τ : Type}

/-- the state of NoUnusedFragments after it has entered the definitions `ns` (in order) -/
def nufSt (s : RS) (ns : List ATree) : RS :=
  { s with ops := s.ops ++ ns.filter (fun n => n.kind == "operation_definition"),
           frags := s.frags ++ ns.filter (fun n => n.kind == "fragment_definition") }

theorem nufSt_nil (s : RS) : nufSt s [] = s := by
  simp [nufSt]

theorem nufSt_append (s : RS) (a b : List ATree) : nufSt s (a ++ b) = nufSt (nufSt s a) b := by
  simp [nufSt, List.filter_append, List.append_assoc]

theorem nuf_step (doc n : ATree) (s : RS) (ti : TI τ) (hfind : doc.find n.info.id = some n) (hd : isDef n.info.kind = true) :
    (noUnusedFragments (τ := τ) doc).step s .enter n.info ti = (Action.skip, nufSt s [n], []) := by
  simp only [noUnusedFragments, withNode, hfind, nufSt, ATree.kind]
  by_cases hop : (n.info.kind == "operation_definition") = true
  · have hne : (n.info.kind == "fragment_definition") = false := by
      have : n.info.kind = "operation_definition" := by simpa using hop
      rw [this]; decide
    simp [hop, hne]
  · have hfr : (n.info.kind == "fragment_definition") = true := by
      simp only [isDef, Bool.or_eq_true] at hd
      rcases hd with h | h
      · exact absurd h hop
      · exact h
    have hop' : (n.info.kind == "operation_definition") = false := by simpa using hop
    simp [hop', hfr]

theorem nuf_trav (doc : ATree) (D : Driver τ) :
    (∀ t : ATree, (∀ n ∈ t.nodes, doc.find n.info.id = some n ∧ n.kind ≠ "document") → t.ids.Nodup →
      ∀ (ti : TI τ) (m : Member τ RS RErr), m.rule = noUnusedFragments doc → m.skipping = .none →
        (Member.trav D ti m t.erase).rule = noUnusedFragments doc ∧ (Member.trav D ti m t.erase).skipping = .none ∧
        (Member.trav D ti m t.erase).st = nufSt m.st (outer t) ∧
        (Member.trav D ti m t.erase).errs = m.errs) ∧
    (∀ ts : List ATree, (∀ n ∈ ATree.nodesList ts, doc.find n.info.id = some n ∧ n.kind ≠ "document") →
      (ATree.idsList ts).Nodup →
      ∀ (ti : TI τ) (m : Member τ RS RErr), m.rule = noUnusedFragments doc → m.skipping = .none →
        (Member.travList D ti m (ATree.eraseList ts)).rule = noUnusedFragments doc ∧
        (Member.travList D ti m (ATree.eraseList ts)).skipping = .none ∧
        (Member.travList D ti m (ATree.eraseList ts)).st = nufSt m.st (outerList ts) ∧
        (Member.travList D ti m (ATree.eraseList ts)).errs = m.errs) := by
  apply ATree.induct
  · intro i f v cs ih hfind hnd ti m hr hs
    simp only [ATree.ids, List.nodup_cons] at hnd
    simp only [ATree.nodes, List.mem_cons, forall_eq_or_imp] at hfind
    rw [ATree.erase, Member.trav, outer]
    have hE : m.rule.hEnter i.kind = isDef i.kind := by rw [hr]; rfl
    have hL : ∀ k, (noUnusedFragments (τ := τ) doc).hLeave k = (k == "document") := by intro k; rfl
    by_cases hd : isDef i.kind = true
    · -- the rule handles the node and answers SKIP
      have hst := nuf_step (τ := τ) doc (.node i f v cs) m.st (D.enter ti i) hfind.1.1 hd
      simp only [ATree.info] at hst
      have hnot : i ∉ Tree.infosList (ATree.eraseList cs) := by
        intro hmem
        rw [ATree.infos_erase.2] at hmem
        obtain ⟨n, hn, hni⟩ := List.mem_map.mp hmem
        have := ATree.id_mem_ids.2 cs n hn
        rw [ATree.id, hni] at this
        exact hnd.1 this
      have hm1 : Member.enter (D.enter ti i) i m =
          ({ m with st := nufSt m.st [.node i f v cs], skipping := .node i,
                    calls := m.calls ++ [⟨.enter, i, D.enter ti i⟩], errs := m.errs ++ [] }, []) := by
        unfold Member.enter
        rw [hE, hd, hr, hst]
        simp [hs, Member.skipOf]
      rw [hm1]
      simp only
      rw [(Member.trav_skipping D i).2 _ _ _ rfl hnot]
      simp only [hd, if_true, List.append_nil]
      simp [Member.leave, hr]
    · have hd' : isDef i.kind = false := by simpa using hd
      have hm1 : Member.enter (D.enter ti i) i m = (m, []) := by
        unfold Member.enter
        simp [hE, hd']
      rw [hm1]
      simp only [hd', Bool.false_eq_true, if_false]
      obtain ⟨c1, c2, c3, c4⟩ := ih (fun n hn => hfind.2 n hn) hnd.2 (D.enter ti i) m hr hs
      have hkd : (i.kind == "document") = false := by
        have := hfind.1.2
        simpa [ATree.kind, ATree.info] using this
      have hl := Member.leave_unhandled' (tiTravList D (D.enter ti i) (ATree.eraseList cs)) i _ c2
        (by rw [c1, hL]; exact hkd)
      rw [hl]
      exact ⟨c1, c2, c3, c4⟩
  · intro _ _ ti m hr hs
    simp [ATree.eraseList, Member.travList, outerList, nufSt_nil, hr, hs]
  · intro t ts iht ihts hfind hnd ti m hr hs
    simp only [ATree.idsList, List.nodup_append] at hnd
    simp only [ATree.nodesList, List.mem_append] at hfind
    rw [ATree.eraseList, Member.travList, outerList, nufSt_append]
    obtain ⟨a1, a2, a3, a4⟩ := iht (fun n hn => hfind n (Or.inl hn)) hnd.1 ti m hr hs
    obtain ⟨b1, b2, b3, b4⟩ := ihts (fun n hn => hfind n (Or.inr hn)) hnd.2.1 (tiTrav D ti t.erase) _ a1 a2
    refine ⟨b1, b2, ?_, ?_⟩
    · rw [b3, a3]
    · rw [b4, a4]

theorem noUnusedFragments_iff_getters (tbl : TITable) (L : Lookups τ) (doc : ATree) (hk : doc.kind = "document")
    (hu : doc.uniqueIds) (hnd : ∀ n ∈ ATree.nodesList doc.children, n.kind ≠ "document") :
    validate tbl L none [(noUnusedFragments doc, RS.init)] doc.erase = [] ↔
      ∀ fd ∈ (outer doc).filter (fun n => n.kind == "fragment_definition"),
        ∃ nm, fd.nameValue = some nm ∧
          nm ∈ usedFragmentNames doc ((outer doc).filter (fun n => n.kind == "operation_definition")) := by
  rw [validate_single_eq, List.map_eq_nil_iff]
  obtain ⟨i, f, v, cs⟩ := doc
  have hk' : i.kind = "document" := by simpa [ATree.kind, ATree.info] using hk
  simp only [ATree.children] at hnd
  generalize hdoc : ATree.node i f v cs = doc at *
  have herase : doc.erase = .node i (ATree.eraseList cs) := by rw [← hdoc, ATree.erase]
  have hnodes : doc.nodes = doc :: ATree.nodesList cs := by rw [← hdoc, ATree.nodes]
  have hids : doc.ids = i.id :: ATree.idsList cs := by rw [← hdoc, ATree.ids]
  have hroot : doc.find i.id = some doc := by rw [← hdoc]; simp [ATree.find]
  have houter : outer doc = outerList cs := by rw [← hdoc, outer]; simp [isDef, hk']
  rw [herase, Member.trav]
  let D := realDriver tbl L
  have hE : (noUnusedFragments (τ := τ) doc).hEnter i.kind = false := by simp [noUnusedFragments, hk']
  have hL : (noUnusedFragments (τ := τ) doc).hLeave i.kind = true := by simp [noUnusedFragments, hk']
  have hm1 : Member.enter (D.enter TI.init i) i (Member.start (noUnusedFragments (τ := τ) doc) RS.init) =
      (Member.start (noUnusedFragments (τ := τ) doc) RS.init, []) := by
    unfold Member.enter
    simp [Member.start, hE]
  have hfind : ∀ n ∈ ATree.nodesList cs, doc.find n.info.id = some n ∧ n.kind ≠ "document" := by
    intro n hn
    exact ⟨ATree.find_of_mem.1 doc hu n (by rw [hnodes]; exact List.mem_cons_of_mem _ hn), hnd n hn⟩
  have hcs : (ATree.idsList cs).Nodup := by
    have : doc.ids.Nodup := hu
    rw [hids, List.nodup_cons] at this
    exact this.2
  show (Member.leave _ i (Member.travList D (D.enter TI.init i)
    (Member.enter (D.enter TI.init i) i (Member.start (noUnusedFragments (τ := τ) doc) RS.init)).1 (ATree.eraseList cs))).1.errs = [] ↔ _
  rw [hm1]
  obtain ⟨c1, c2, c3, c4⟩ := (nuf_trav doc D).2 cs hfind hcs (D.enter TI.init i)
    (Member.start (noUnusedFragments (τ := τ) doc) RS.init) rfl rfl
  generalize Member.travList D (D.enter TI.init i) (Member.start (noUnusedFragments (τ := τ) doc) RS.init)
    (ATree.eraseList cs) = M at c1 c2 c3 c4 ⊢
  have hstep : ∀ ti : TI τ, ((noUnusedFragments (τ := τ) doc).step M.st .leave i ti).2.2 =
      M.st.frags.filterMap (fun fd =>
        match fd.nameValue with
        | some nm => if (usedFragmentNames doc M.st.ops).contains nm then none
                     else some ⟨"NoUnusedFragmentsRule", nm, [fd.id]⟩
        | none => some (RErr.crash "NoUnusedFragmentsRule")) := by
    intro ti
    simp only [noUnusedFragments, withNode, hroot]
    rfl
  have hle : (Member.leave (tiTravList D (D.enter TI.init i) (ATree.eraseList cs)) i M).1.errs =
      M.errs ++ ((noUnusedFragments (τ := τ) doc).step M.st .leave i
        (tiTravList D (D.enter TI.init i) (ATree.eraseList cs))).2.2 := by
    unfold Member.leave
    simp [c2, c1, hL]
  rw [hle, hstep, c4, c3]
  simp only [Member.start, List.nil_append, nufSt, RS.init, houter]
  rw [List.filterMap_eq_nil_iff]
  apply forall_congr'
  intro fd
  apply imp_congr_right
  intro _
  cases hnm : fd.nameValue with
  | none => simp
  | some nm =>
    by_cases hc : (usedFragmentNames doc
        (List.filter (fun n => n.kind == "operation_definition") (outerList cs))).contains nm = true
    · have hmem := hc
      rw [List.contains_iff_mem] at hmem
      simp [hmem]
    · have hmem := hc
      rw [List.contains_iff_mem] at hmem
      simp [hmem]

end Gql.Validation.Rules
