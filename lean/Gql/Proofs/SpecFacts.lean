/-
C02 — facts about the specification's algorithm used by the corollaries of the refinement:
every logged resolver call carries CoerceArgumentValues of its field definition, a propagating
null always has a recorded error.
-/
import Gql.Exec.SpecExec

namespace Gql.Exec.Refine
open Gql.Exec

/-- the call is an invocation of a field of its parent type with exactly the coerced arguments
CoerceArgumentValues prescribes for some field node of that name -/
def CallOk (scx : Spec.Ctx) (c : Call) : Prop :=
  ∃ (fdef : FieldDef) (node : FieldNode), scx.schema.getField c.parent c.field = some fdef ∧
    node.name = c.field ∧ Spec.coerceArgumentValues scx node.args fdef.args [] = some c.args

structure Good (scx : Spec.Ctx) (pos : List PSeg) {α : Type} (r : Spec.R α) : Prop where
  calls : ∀ c ∈ r.log, CallOk scx c
  nonempty : r.out = none → r.errs ≠ []

theorem Good.pure {scx : Spec.Ctx} {pos : List PSeg} {α : Type} (a : α) :
    Good scx pos (Spec.R.pure a) :=
  ⟨by simp [Spec.R.pure], by simp [Spec.R.pure]⟩

theorem Good.fail {scx : Spec.Ctx} {pos : List PSeg} {α : Type} (k : ErrKind) :
    Good scx pos (Spec.R.fail pos k : Spec.R α) :=
  ⟨by simp [Spec.R.fail], by simp [Spec.R.fail]⟩

theorem Good.absorb {scx : Spec.Ctx} {pos : List PSeg} {r : Spec.R Json} (t : TypeRef)
    (h : Good scx pos r) : Good scx pos (Spec.absorb t r) := by
  unfold Spec.absorb
  cases hr : r.out with
  | some j => simpa [hr] using h
  | none =>
    simp only
    split
    · exact h
    · exact ⟨h.calls, by simp⟩

theorem Good.weaken {scx : Spec.Ctx} {pos : List PSeg} {seg : PSeg} {α : Type} {r : Spec.R α}
    (h : Good scx (pos ++ [seg]) r) : Good scx pos r :=
  ⟨h.calls, h.nonempty⟩

theorem Good.mapOut {scx : Spec.Ctx} {pos : List PSeg} {α β : Type} {r : Spec.R α} (f : α → β)
    (h : Good scx pos r) : Good scx pos ({ out := r.out.map f, errs := r.errs, log := r.log } : Spec.R β) :=
  ⟨h.calls, by simpa using h.nonempty⟩

def ChildGood (scx : Spec.Ctx) (child : Spec.Child) : Prop :=
  ∀ name args t fields pos, Good scx pos (child name args t fields pos)

theorem coerceResult_good (scx : Spec.Ctx) (pos : List PSeg) (n : Name) (l : PyLeaf) :
    Good scx pos (Spec.coerceResult scx pos n l) := by
  unfold Spec.coerceResult
  cases scx.ops.serialize scx.schema n l with
  | none => exact Good.fail _
  | some j => cases j <;> first | exact Good.fail _ | exact Good.pure _

theorem completeNull_good (scx : Spec.Ctx) (pos : List PSeg) (t : TypeRef) :
    Good scx pos (Spec.completeNull t pos) := by
  unfold Spec.completeNull
  split
  · exact Good.fail _
  · exact Good.pure _

theorem executeField_good (scx : Spec.Ctx) (objectType : Name) (child : Spec.Child)
    (hch : ChildGood scx child) (pos : List PSeg) (fields : List FieldNode) :
    Good scx pos (Spec.executeField scx objectType child pos fields) := by
  unfold Spec.executeField
  cases fields with
  | nil => exact Good.pure none
  | cons field rest =>
    simp only
    split
    · exact Good.mapOut some (Good.absorb _ (coerceResult_good scx pos _ _))
    · cases hf : scx.schema.getField objectType field.name with
      | none => exact Good.pure none
      | some fd =>
        simp only
        apply Good.mapOut some
        apply Good.absorb
        cases hc : Spec.coerceArgumentValues scx field.args fd.args [] with
        | none => exact Good.fail _
        | some args =>
          simp only
          have hg := hch field.name args fd.type (field :: rest) pos
          refine ⟨?_, hg.nonempty⟩
          intro c hc'
          simp only [List.mem_cons] at hc'
          rcases hc' with rfl | hc'
          · exact ⟨fd, field, hf, rfl, hc⟩
          · exact hg.calls c hc'

theorem executeGroups_good (scx : Spec.Ctx) (objectType : Name) (child : Spec.Child)
    (hch : ChildGood scx child) (pos : List PSeg) :
    ∀ groups : Spec.Groups, Good scx pos (Spec.executeGroups scx objectType child pos groups)
  | [] => Good.pure []
  | (k, fields) :: rest => by
    unfold Spec.executeGroups
    have h1 := (executeField_good scx objectType child hch (pos ++ [.key k]) fields).weaken
    cases hout : (Spec.executeField scx objectType child (pos ++ [.key k]) fields).out with
    | none =>
      simp only [hout]
      exact ⟨h1.calls, fun _ => h1.nonempty hout⟩
    | some v =>
      simp only [hout]
      have h2 := executeGroups_good scx objectType child hch pos rest
      refine ⟨?_, ?_⟩
      · intro c hc
        rcases List.mem_append.1 hc with hc | hc
        · exact h1.calls c hc
        · exact h2.calls c hc
      · intro hnone
        have : (Spec.executeGroups scx objectType child pos rest).out = none := by
          simpa using hnone
        have := h2.nonempty this
        simp [this]

theorem executeSelectionSet_good (scx : Spec.Ctx) (objectType : Name) (sels : List Selection)
    (pos : List PSeg) (child : Spec.Child) (hch : ChildGood scx child) :
    Good scx pos (Spec.executeSelectionSet scx objectType sels pos child) := by
  unfold Spec.executeSelectionSet
  cases Spec.collectFields scx objectType sels with
  | crash c => exact Good.fail _
  | err k => exact Good.fail _
  | ok groups => exact Good.mapOut Json.obj (executeGroups_good scx objectType child hch pos groups)

theorem completeNamed_good (scx : Spec.Ctx) (t : TypeRef) (fields : List FieldNode)
    (pos : List PSeg) (leaf? : Option PyLeaf) (tn : TN) (child : Spec.Child)
    (hch : ChildGood scx child) : Good scx pos (Spec.completeNamed scx t fields pos leaf? tn child) := by
  unfold Spec.completeNamed
  cases t with
  | list t' nn => exact Good.fail _
  | named n nn =>
    simp only
    cases scx.schema.kind n with
    | leaf =>
      cases leaf? with
      | none => exact Good.fail _
      | some l => exact coerceResult_good scx pos n l
    | object => exact executeSelectionSet_good scx n _ pos child hch
    | abstract =>
      simp only
      cases Spec.resolveAbstractType scx.schema n tn with
      | error k => exact Good.fail _
      | ok rt => exact executeSelectionSet_good scx rt _ pos child hch
    | input => exact Good.fail _
    | unknown => exact Good.fail _

theorem nullChild_good (scx : Spec.Ctx) : ChildGood scx Spec.nullChild :=
  fun _ _ t _ pos => completeNull_good scx pos t

mutual
theorem completeValue_good (scx : Spec.Ctx) : (d : RVal) → ∀ (t : TypeRef) (fields : List FieldNode)
    (pos : List PSeg), Good scx pos (Spec.completeValue scx t fields pos d)
  | .raise tag none, t, fields, pos => by unfold Spec.completeValue; exact Good.fail _
  | .raise tag (some p), t, fields, pos => by
    unfold Spec.completeValue
    exact ⟨by simp, by simp⟩
  | .null, t, fields, pos => by unfold Spec.completeValue; exact completeNull_good scx pos t
  | .leaf l, t, fields, pos => by
    unfold Spec.completeValue
    exact completeNamed_good scx t fields pos _ _ _ (nullChild_good scx)
  | .obj tn f, t, fields, pos => by
    unfold Spec.completeValue
    exact completeNamed_good scx t fields pos _ _ _
      (fun name args t' fields' pos' => completeValue_good scx (f name args) t' fields' pos')
  | .list items, t, fields, pos => by
    unfold Spec.completeValue
    cases t with
    | named n nn => exact completeNamed_good scx _ fields pos _ _ _ (nullChild_good scx)
    | list t' nn => exact Good.mapOut Json.list (completeItems_good scx items t' fields pos 0)

theorem completeItems_good (scx : Spec.Ctx) : (items : List RVal) → ∀ (t : TypeRef)
    (fields : List FieldNode) (pos : List PSeg) (i : Nat),
    Good scx pos (Spec.completeItems scx t fields pos i items)
  | [], t, fields, pos, i => by unfold Spec.completeItems; exact Good.pure []
  | x :: xs, t, fields, pos, i => by
    unfold Spec.completeItems
    have h1 := (Good.absorb t (completeValue_good scx x t fields (pos ++ [.idx i]))).weaken
    simp only
    cases hout : (Spec.absorb t (Spec.completeValue scx t fields (pos ++ [.idx i]) x)).out with
    | none =>
      simp only [hout]
      exact ⟨h1.calls, fun _ => h1.nonempty hout⟩
    | some j =>
      simp only [hout]
      have h2 := completeItems_good scx xs t fields pos (i + 1)
      refine ⟨?_, ?_⟩
      · intro c hc
        rcases List.mem_append.1 hc with hc | hc
        · exact h1.calls c hc
        · exact h2.calls c hc
      · intro hnone
        have : (Spec.completeItems scx t fields pos (i + 1) xs).out = none := by simpa using hnone
        have := h2.nonempty this
        simp [this]
end

theorem childOf_good (scx : Spec.Ctx) (v : RVal) : ChildGood scx (Spec.childOf scx v) :=
  fun name args t fields pos => completeValue_good scx (v.child name args) t fields pos

end Gql.Exec.Refine
