import Gql.Proofs.SchemaText4
/-!
C17, text level, part 5: the composed statements (lexing, parsing) used by `Gql/Props/C17.lean`.
-/
namespace Gql.Types.PrintSchema
open Gql Gql.Text Gql.Syntax Gql.Generated

/-- The translated definitions of the schema are well formed in C08's sense (`Exec.gdefsWf`). -/
def TextWF (fa dd : Bool) (s : Schema) : Prop := Exec.gdefsWf fa dd (defsToGDefs (schemaToDefs s))

theorem textWF_tdefs {fa dd : Bool} {s : Schema} (h : TextWF fa dd s) :
    ∀ td ∈ schemaTDefs s, Exec.tdefWf dd td := by
  intro td htd
  unfold TextWF at h
  rw [defsToGDefs_schemaToDefs] at h
  exact h (.t td) (List.mem_map.mpr ⟨td, htd, rfl⟩)

theorem textWF_of_tdefs {fa dd : Bool} {s : Schema} (h : ∀ td ∈ schemaTDefs s, Exec.tdefWf dd td) :
    TextWF fa dd s := by
  unfold TextWF
  rw [defsToGDefs_schemaToDefs]
  intro d hd
  obtain ⟨td, htd, rfl⟩ := List.mem_map.mp hd
  exact h td htd

theorem wf_types_ne_nil (s : Schema) (h : WFSchema s = true) : s.types ≠ [] := by
  intro h0
  simp only [WFSchema, Bool.and_eq_true] at h
  obtain ⟨⟨⟨⟨_, hq⟩, hr⟩, _⟩, _⟩ := h
  cases hqq : s.query with
  | none => simp [hqq] at hq
  | some n => simp [hqq, rootOk, Schema.hasType, Schema.typeNames, h0] at hr

theorem gdefs_ne_nil (s : Schema) (h : WFSchema s = true) : defsToGDefs (schemaToDefs s) ≠ [] := by
  rw [defsToGDefs_schemaToDefs]
  have := wf_types_ne_nil s h
  intro h0
  simp [schemaTDefs] at h0
  exact this h0.2.2

theorem text_lexes (w : Widths) (hw : 4 ≤ w.object)
    (hT : tableOK Generated.escapeTable = true) (hC : tableComplete Generated.escapeTable = true)
    (fa dd : Bool) (s : Schema) (h : TextWF fa dd s) :
    Lexes true (printSchemaText w s) (Exec.gdefsKvs true (defsToGDefs (schemaToDefs s))) := by
  rw [defsToGDefs_schemaToDefs]
  exact lexes_printSchemaText w hw hT hC dd s (textWF_tdefs h)

theorem text_parse (w : Widths) (hw : 4 ≤ w.object)
    (hT : tableOK Generated.escapeTable = true) (hC : tableComplete Generated.escapeTable = true)
    (cfg : Cfg) (hm : cfg.maxTokens = none) (s : Schema) (hs : WFSchema s = true)
    (h : TextWF cfg.fragArgs cfg.dirOnDir s) :
    parseSource .document cfg (printSchemaText w s) =
      .ok (Exec.gdocAst cfg.fragArgs cfg.dirOnDir (defsToGDefs (schemaToDefs s))) :=
  parseSource_of_lexes_gdoc cfg hm _ _ (gdefs_ne_nil s hs) h (text_lexes w hw hT hC _ _ s h)

end Gql.Types.PrintSchema
