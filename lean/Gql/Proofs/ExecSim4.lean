/-
C02 — simulation of `execute_fields` over a grouped field set, and of the memoised
`collect_subfields` + `complete_object_value`.
-/
import Gql.Proofs.ExecSim3

namespace Gql.Exec.Refine
open Gql.Exec Gql.Exec.Impl

variable (cx : Ctx) (hops : OpsOk cx.ops)

/-- outcome of a computation producing `α` against a specification result (like `Sim`, for a
given start state) -/
def Outcome (cx : Ctx) (path : IPath) {α : Type} (res : Out Exn α × EState) (st : EState)
    (r : Spec.R α) : Prop :=
  ∃ st', match r.out with
  | some a => res = (.ok a, st') ∧ Post cx st st' path true r.errs r.log
  | none => ∃ e es, res = (.err (.located e), st') ∧ r.errs = es ++ [e] ∧
      Post cx st st' path true es r.log

include hops in
theorem executeFields_sim (parent : Name) (ichild : Child) (schild : Spec.Child)
    (hch : ChildRel cx ichild schild) (path : IPath) :
    ∀ (groups : Groups) (st : EState), MemoInv cx st → DInv cx st.dmemo →
      (∀ p ∈ groups, PosInv st.positions (.key p.1 parent :: path)) →
      GroupsOk st.heap groups → (groups.map (·.1)).Nodup →
      Outcome cx path (executeFields cx parent ichild path groups st) st
        (Spec.executeGroups (toSpec cx) parent schild (asList path) (nodes groups)) := by
  intro groups
  induction groups with
  | nil =>
    intro st hm hd _ _ _
    exact ⟨st, rfl, Post.refl hm hd⟩
  | cons hd tl ih =>
    obtain ⟨key, fds⟩ := hd
    intro st hm hdm hpos hok hnd
    have hcp : Inv cx st (.key key parent :: path) := ⟨hm, hdm, hpos (key, fds) (List.mem_cons_self ..)⟩
    have hfds : FdsOk st.heap fds := hok (key, fds) (List.mem_cons_self ..)
    obtain ⟨st1, h1⟩ := executeField_sim cx hops parent ichild schild hch (.key key parent :: path) fds
      st hcp hfds
    have hpath : asList (ISeg.key key parent :: path) = asList path ++ [PSeg.key key] := asList_cons _ _
    rw [hpath] at h1
    simp only [nodes, List.map_cons, Spec.executeGroups, executeFields]
    cases hout : (Spec.executeField (toSpec cx) parent schild (asList path ++ [PSeg.key key])
        (fds.map (·.node))).out with
    | none =>
      simp only [hout] at h1
      obtain ⟨exn, es, he, herrs, hp, hloc⟩ := h1
      obtain ⟨e, rfl⟩ := hloc trivial
      refine ⟨st1, ?_⟩
      simp only
      refine ⟨e, es, by simp [M.bind, he], ?_, hp.lift⟩
      rw [herrs]; rfl
    | some v =>
      simp only [hout] at h1
      obtain ⟨he, hp⟩ := h1
      obtain ⟨ps, hps, hq⟩ := hp.positions
      have hnd' : (tl.map (·.1)).Nodup := by
        simp only [List.map_cons, List.nodup_cons] at hnd; exact hnd.2
      have hkey : ∀ p ∈ tl, p.1 ≠ key := by
        intro p hp' heq
        simp only [List.map_cons, List.nodup_cons] at hnd
        exact hnd.1 (heq ▸ List.mem_map_of_mem hp')
      have hpos1 : ∀ p ∈ tl, PosInv st1.positions (.key p.1 parent :: path) := by
        intro p hp' o ho
        rw [hps] at ho
        rcases List.mem_append.1 ho with ho | ho
        · exact hpos p (List.mem_cons_of_mem _ hp') o ho
        · obtain ⟨q, rfl, hsuf, _⟩ := hq o ho
          have hne : ISeg.key key parent ≠ ISeg.key p.1 parent := by
            intro h; cases h; exact hkey p hp' rfl
          exact ⟨q, rfl, incomparable_sibling hne hsuf⟩
      obtain ⟨ext, hext⟩ := hp.heap
      have hok1 : GroupsOk st1.heap tl := by
        rw [hext]
        exact GroupsOk.mono (fun p hp' => hok p (List.mem_cons_of_mem _ hp')) ext
      obtain ⟨st2, h2⟩ := ih st1 hp.memo hp.dmemo hpos1 hok1 hnd'
      simp only [nodes] at h2
      refine ⟨st2, ?_⟩
      cases hout2 : (Spec.executeGroups (toSpec cx) parent schild (asList path)
          (List.map (fun p => (p.fst, List.map (fun x => x.node) p.snd)) tl)).out with
      | none =>
        simp only [hout2] at h2
        obtain ⟨exn, es, he2, herrs2, hp2⟩ := h2
        simp only [Option.map_none]
        refine ⟨exn, _ ++ es, by simp [M.bind, he, he2], ?_, hp.lift.trans hp2⟩
        rw [herrs2, List.append_assoc]
      | some kvs =>
        simp only [hout2] at h2
        obtain ⟨he2, hp2⟩ := h2
        simp only [Option.map_some]
        refine ⟨?_, hp.lift.trans hp2⟩
        cases v <;> simp [M.bind, M.pure, he, he2]

end Gql.Exec.Refine
