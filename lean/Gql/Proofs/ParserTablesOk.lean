import Gql.Syntax.Parser
/-
T1 obligations on the tables regenerated from parser.py / ast.py (`Gql/Generated/ParserTables.lean`):
finite facts, decided by the kernel.  Re-elaborated whenever a table changes.
-/
namespace Gql.Syntax
open Gql.Generated.ParserTables

theorem getattrPrefixes_ok : getattrPrefixes = ["parse_"] := by decide

theorem definitionTables_ok :
    ∀ m ∈ (typeSystemDefinitionMethods ++ executableDefinitionMethods ++ otherDefinitionMethods).map (·.2),
      ("parse_" ++ m) ∈ parserMethods ∧ m ∈ knownDefinitionMethods := by
  decide +kernel

theorem extensionTable_ok :
    ∀ m ∈ typeExtensionMethods.map (·.2), ("parse_" ++ m) ∈ parserMethods ∧ m ∈ knownExtensionMethods := by
  decide +kernel

theorem valueTable_ok :
    ∀ m ∈ valueLiteralMethods.map (·.2), ("parse_" ++ m) ∈ parserMethods ∧ m ∈ knownValueMethods := by
  decide +kernel

theorem ctorCalls_ok : nodeCtorCalls.all ctorCallOk = true := by
  decide +kernel

end Gql.Syntax
