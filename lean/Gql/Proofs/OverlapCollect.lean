import Gql.Proofs.OverlapGroup
/-! C14, named fragments: `collect_fields_and_fragment_spreads` in general — the field map is the
flat field list grouped by response name, the spread list is the list of direct spreads,
de-duplicated by key. -/
namespace Gql.Exec
open Overlap

def spreadsAcc (d : Doc) (acc : List Spread) (names : List String) : List Spread :=
  names.foldl (fun acc n => addSpread acc (mkSpread d n)) acc

def spreadsOf (d : Doc) (names : List String) : List Spread := spreadsAcc d [] names

theorem spreadsAcc_append (d : Doc) (acc : List Spread) (a b : List String) :
    spreadsAcc d acc (a ++ b) = spreadsAcc d (spreadsAcc d acc a) b := by
  simp [spreadsAcc, List.foldl_append]

mutual
theorem collectSel_gen (s : Schema) (d : Doc) : ∀ (x : Sel) (p : Option String)
    (m : List (String × List FieldEntry)) (sps : List Spread),
      collectSel s d p x (m, sps) =
        (grp m ((x.flat s p).map (toEntry s)), spreadsAcc d sps x.directSpreads)
  | .field id al name args st hasSub subId sub, p, m, sps => by
    simp [collectSel, Sel.flat, Sel.directSpreads, grp, toEntry, mkFieldNode, rnE, spreadsAcc]
  | .inline tc _ sels, p, m, sps => by
    cases tc <;> simp only [collectSel, Sel.flat, Sel.directSpreads] <;>
      exact collectSels_gen s d sels _ m sps
  | .spread n, p, m, sps => by
    simp [collectSel, Sel.flat, Sel.directSpreads, grp, spreadsAcc]
theorem collectSels_gen (s : Schema) (d : Doc) : ∀ (xs : List Sel) (p : Option String)
    (m : List (String × List FieldEntry)) (sps : List Spread),
      collectSels s d p xs (m, sps) =
        (grp m ((selsFlat s p xs).map (toEntry s)), spreadsAcc d sps (selsDirectSpreads xs))
  | [], p, m, sps => by simp [collectSels, selsFlat, selsDirectSpreads, grp, spreadsAcc]
  | x :: xs, p, m, sps => by
    simp only [collectSels, selsFlat, selsDirectSpreads, List.map_append, grp_append,
      spreadsAcc_append]
    rw [collectSel_gen s d x p m sps, collectSels_gen s d xs p _ _]
end

theorem computeFields_gen (s : Schema) (d : Doc) (p : Option String) (ss : SelSet) :
    computeFields s d p ss =
      (⟨ss.id, grp [] ((selsFlat s p ss.sels).map (toEntry s))⟩,
        spreadsOf d (selsDirectSpreads ss.sels)) := by
  simp [computeFields, collectSels_gen s d ss.sels p [] [], spreadsOf]

/-! ### the spread list -/

theorem mem_spreadsAcc {d : Doc} {names : List String} : ∀ {acc : List Spread} {sp : Spread},
    sp ∈ spreadsAcc d acc names → sp ∈ acc ∨ ∃ n ∈ names, sp = mkSpread d n := by
  induction names with
  | nil => intro acc sp h; exact Or.inl h
  | cons n ns ih =>
    intro acc sp h
    simp only [spreadsAcc, List.foldl_cons] at h ih
    rcases ih h with h1 | ⟨n', hn', e⟩
    · rcases addSpread_mem h1 with h2 | h2
      · exact Or.inl h2
      · exact Or.inr ⟨n, List.mem_cons_self, h2⟩
    · exact Or.inr ⟨n', List.mem_cons_of_mem _ hn', e⟩

theorem mem_spreadsOf {d : Doc} {names : List String} {sp : Spread}
    (h : sp ∈ spreadsOf d names) : ∃ n ∈ names, sp = mkSpread d n := by
  rcases mem_spreadsAcc h with h | h
  · cases h
  · exact h

theorem addSpread_key {sps : List Spread} {sp : Spread} :
    ∃ x ∈ addSpread sps sp, x.key = sp.key := by
  simp only [addSpread]
  split
  · rename_i h
    obtain ⟨x, hx, hk⟩ := List.any_eq_true.1 h
    exact ⟨x, hx, by simpa using hk⟩
  · exact ⟨sp, by simp, rfl⟩

theorem addSpread_sub {sps : List Spread} {sp x : Spread} (h : x ∈ sps) : x ∈ addSpread sps sp := by
  simp only [addSpread]
  split
  · exact h
  · exact List.mem_append_left _ h

theorem spreadsAcc_sub {d : Doc} {names : List String} : ∀ {acc : List Spread} {x : Spread},
    x ∈ acc → x ∈ spreadsAcc d acc names := by
  induction names with
  | nil => intro acc x h; exact h
  | cons n ns ih =>
    intro acc x h
    simp only [spreadsAcc, List.foldl_cons] at ih ⊢
    exact ih (addSpread_sub h)

theorem spreadsAcc_key {d : Doc} {names : List String} : ∀ {acc : List Spread} {n : String},
    n ∈ names → ∃ x ∈ spreadsAcc d acc names, x.key = (mkSpread d n).key := by
  induction names with
  | nil => intro acc n h; cases h
  | cons n0 ns ih =>
    intro acc n h
    simp only [spreadsAcc, List.foldl_cons] at ih ⊢
    rcases List.mem_cons.1 h with rfl | h
    · obtain ⟨x, hx, hk⟩ := addSpread_key (sps := acc) (sp := mkSpread d n)
      exact ⟨x, spreadsAcc_sub hx, hk⟩
    · exact ih h

/-- different spread names have different conflict keys (GraphQL names contain no parentheses) -/
def KeysInj (d : Doc) : Prop :=
  ∀ n1 ∈ d.spreadNames, ∀ n2 ∈ d.spreadNames, (mkSpread d n1).key = (mkSpread d n2).key → n1 = n2

theorem mem_spreadsOf_of_name {d : Doc} (hk : KeysInj d) {names : List String}
    (hsub : names ⊆ d.spreadNames) {n : String} (hn : n ∈ names) :
    mkSpread d n ∈ spreadsOf d names := by
  obtain ⟨x, hx, hkey⟩ := spreadsAcc_key (d := d) (acc := []) hn
  obtain ⟨n', hn', e⟩ := mem_spreadsOf hx
  have : n' = n := hk n' (hsub hn') n (hsub hn) (by rw [← e]; exact hkey)
  rw [this] at e
  rw [← e]
  exact hx

end Gql.Exec
