/-
C02 — errors account for the nulled positions: for every error of the specification's response
that carries a path, the longest prefix of the path that is present in `data` holds `null`.
(Stated for data graphs whose raising resolvers do not bring their own path: an error that
already carries a path is reported under that path, which need not be a response position.)
-/
import Gql.Proofs.SpecKeys

namespace Gql.Exec.Refine
open Gql.Exec

/-- the value at a response path -/
def Json.at? : Json → List PSeg → Option Json
  | j, [] => some j
  | .obj kvs, .key k :: rest =>
    match kvs.lookup k with
    | some v => Json.at? v rest
    | none => none
  | .list xs, .idx i :: rest =>
    match xs[i]? with
    | some v => Json.at? v rest
    | none => none
  | _, _ => none

mutual
/-- no resolver raises an error that already carries a path -/
def NoOwnPath : RVal → Prop
  | .raise _ p => p = none
  | .list items => NoOwnPathL items
  | .obj _ f => ∀ name args, NoOwnPath (f name args)
  | _ => True
def NoOwnPathL : List RVal → Prop
  | [] => True
  | x :: xs => NoOwnPath x ∧ NoOwnPathL xs
end

/-- the longest prefix of `p` present in `j` holds `null` -/
def Acc (j : Json) (p : List PSeg) : Prop :=
  ∃ q, q <+: p ∧ Json.at? j q = some .null ∧
    ∀ q', q' <+: p → q.length < q'.length → Json.at? j q' = none

theorem at_nil (j : Json) : Json.at? j [] = some j := by cases j <;> rfl

theorem at_null_cons (a : PSeg) (r : List PSeg) : Json.at? .null (a :: r) = none := by
  cases a <;> rfl

theorem at_obj_key (kvs : List (Name × Json)) (k : Name) (r : List PSeg) :
    Json.at? (.obj kvs) (.key k :: r) = match kvs.lookup k with
      | some v => Json.at? v r
      | none => none := rfl

theorem at_list_idx (xs : List Json) (i : Nat) (r : List PSeg) :
    Json.at? (.list xs) (.idx i :: r) = match xs[i]? with
      | some v => Json.at? v r
      | none => none := rfl

theorem acc_null (p : List PSeg) : Acc .null p := by
  refine ⟨[], List.nil_prefix, at_nil _, ?_⟩
  intro q' _ hl
  cases q' with
  | nil => simp at hl
  | cons a r => exact at_null_cons a r

theorem prefix_cons_cases {a : PSeg} {p q' : List PSeg} (h : q' <+: a :: p) :
    q' = [] ∨ ∃ q0, q' = a :: q0 ∧ q0 <+: p := by
  cases q' with
  | nil => exact Or.inl rfl
  | cons b r =>
    right
    obtain ⟨t, ht⟩ := h
    simp only [List.cons_append, List.cons.injEq] at ht
    exact ⟨r, by rw [ht.1], ⟨t, ht.2⟩⟩

theorem acc_obj {kvs : List (Name × Json)} {k : Name} {j : Json} {p : List PSeg}
    (hl : kvs.lookup k = some j) (h : Acc j p) : Acc (.obj kvs) (.key k :: p) := by
  obtain ⟨q, hq, hat, hmax⟩ := h
  refine ⟨.key k :: q, ?_, ?_, ?_⟩
  · obtain ⟨t, rfl⟩ := hq; exact ⟨t, rfl⟩
  · rw [at_obj_key, hl]; exact hat
  · intro q' hq' hlen
    rcases prefix_cons_cases hq' with rfl | ⟨q0, rfl, hq0⟩
    · simp at hlen
    · rw [at_obj_key, hl]
      exact hmax q0 hq0 (by simpa using hlen)

theorem acc_list {js : List Json} {n : Nat} {j : Json} {p : List PSeg}
    (hl : js[n]? = some j) (h : Acc j p) : Acc (.list js) (.idx n :: p) := by
  obtain ⟨q, hq, hat, hmax⟩ := h
  refine ⟨.idx n :: q, ?_, ?_, ?_⟩
  · obtain ⟨t, rfl⟩ := hq; exact ⟨t, rfl⟩
  · rw [at_list_idx, hl]; exact hat
  · intro q' hq' hlen
    rcases prefix_cons_cases hq' with rfl | ⟨q0, rfl, hq0⟩
    · simp at hlen
    · rw [at_list_idx, hl]
      exact hmax q0 hq0 (by simpa using hlen)

/-- errors of a computation at `pos`: located at or below `pos`, and accounted for in its value -/
structure Acct (pos : List PSeg) (r : Spec.R Json) : Prop where
  located : ∀ e ∈ r.errs, ∃ p', e.path = some (pos ++ p')
  acc : ∀ j, r.out = some j → ∀ e ∈ r.errs, ∀ p', e.path = some (pos ++ p') → Acc j p'

theorem Acct.pure (pos : List PSeg) (j : Json) : Acct pos (Spec.R.pure j) :=
  ⟨by simp [Spec.R.pure], by simp [Spec.R.pure]⟩

theorem Acct.fail (pos : List PSeg) (k : ErrKind) : Acct pos (Spec.R.fail pos k) :=
  ⟨by intro e he; simp only [Spec.R.fail, List.mem_singleton] at he; subst he; exact ⟨[], by simp⟩,
   by simp [Spec.R.fail]⟩

theorem Acct.absorb {pos : List PSeg} {r : Spec.R Json} (t : TypeRef) (h : Acct pos r) :
    Acct pos (Spec.absorb t r) := by
  unfold Spec.absorb
  cases hr : r.out with
  | some j => simpa [hr] using h
  | none =>
    simp only
    split
    · exact h
    · refine ⟨h.located, ?_⟩
      intro j hj e _ p' _
      simp only [Option.some.injEq] at hj
      subst hj
      exact acc_null p'

theorem coerceResult_acct (cx : Spec.Ctx) (pos : List PSeg) (n : Name) (l : PyLeaf) :
    Acct pos (Spec.coerceResult cx pos n l) := by
  unfold Spec.coerceResult
  cases cx.ops.serialize cx.schema n l with
  | none => exact Acct.fail _ _
  | some j => cases j <;> first | exact Acct.fail _ _ | exact Acct.pure _ _

theorem completeNull_acct (t : TypeRef) (pos : List PSeg) : Acct pos (Spec.completeNull t pos) := by
  unfold Spec.completeNull
  split
  · exact Acct.fail _ _
  · exact Acct.pure _ _

def ChildAcct (child : Spec.Child) : Prop :=
  ∀ name args t fields pos, Acct pos (child name args t fields pos)

/-- `executeField`: located; accounted for in the value; no errors when the field is undefined -/
structure AcctF (pos : List PSeg) (r : Spec.R (Option Json)) : Prop where
  located : ∀ e ∈ r.errs, ∃ p', e.path = some (pos ++ p')
  acc : ∀ j, r.out = some (some j) → ∀ e ∈ r.errs, ∀ p', e.path = some (pos ++ p') → Acc j p'
  skipped : r.out = some none → r.errs = []

theorem AcctF.ofAcct {pos : List PSeg} {r : Spec.R Json} (h : Acct pos r) :
    AcctF pos { out := r.out.map some, errs := r.errs, log := r.log } :=
  ⟨h.located, by intro j hj; simp only [Option.map_eq_some_iff, Option.some.injEq] at hj
                 obtain ⟨a, ha, rfl⟩ := hj; exact h.acc a ha,
   by intro hn; simp only [Option.map_eq_some_iff] at hn; obtain ⟨a, _, ha⟩ := hn; cases ha⟩

theorem executeField_acct (cx : Spec.Ctx) (objectType : Name) (child : Spec.Child)
    (hch : ChildAcct child) (pos : List PSeg) (fields : List FieldNode) :
    AcctF pos (Spec.executeField cx objectType child pos fields) := by
  unfold Spec.executeField
  cases fields with
  | nil => exact ⟨by simp, by simp, by simp⟩
  | cons field rest =>
    simp only
    split
    · exact AcctF.ofAcct ((coerceResult_acct cx pos _ _).absorb _)
    · cases cx.schema.getField objectType field.name with
      | none => exact ⟨by simp, by simp, by simp⟩
      | some fd =>
        simp only
        apply AcctF.ofAcct
        apply Acct.absorb
        cases Spec.coerceArgumentValues cx field.args fd.args [] with
        | none => exact Acct.fail _ _
        | some a =>
          have hc := hch field.name a fd.type (field :: rest) pos
          exact ⟨hc.located, hc.acc⟩

theorem lookup_cons_ne {k k' : Name} {j : Json} {kvs : List (Name × Json)} (h : k' ≠ k) :
    ((k, j) :: kvs).lookup k' = kvs.lookup k' := by
  have : (k' == k) = false := by simpa using h
  simp [List.lookup, this]

/-- `executeGroups` over groups with distinct keys -/
theorem executeGroups_acct (cx : Spec.Ctx) (objectType : Name) (child : Spec.Child)
    (hch : ChildAcct child) (pos : List PSeg) :
    ∀ groups : Spec.Groups, (keys groups).Nodup →
      (∀ e ∈ (Spec.executeGroups cx objectType child pos groups).errs,
        ∃ p', e.path = some (pos ++ p')) ∧
      ∀ kvs, (Spec.executeGroups cx objectType child pos groups).out = some kvs →
        (∀ k ∈ kvs.map (·.1), k ∈ keys groups) ∧
        ∀ e ∈ (Spec.executeGroups cx objectType child pos groups).errs,
          ∃ k p'' j, e.path = some (pos ++ PSeg.key k :: p'') ∧ kvs.lookup k = some j ∧ Acc j p''
  | [], _ => by simp [Spec.executeGroups, Spec.R.pure]
  | (k, fields) :: rest, hnd => by
    have h1 := executeField_acct cx objectType child hch (pos ++ [.key k]) fields
    simp only [keys, List.map_cons, List.nodup_cons] at hnd
    have ih := executeGroups_acct cx objectType child hch pos rest hnd.2
    have hloc1 : ∀ e ∈ (Spec.executeField cx objectType child (pos ++ [.key k]) fields).errs,
        ∃ p', e.path = some (pos ++ p') := by
      intro e he
      obtain ⟨p', hp'⟩ := h1.located e he
      exact ⟨.key k :: p', by rw [hp']; simp⟩
    unfold Spec.executeGroups
    simp only
    cases hout : (Spec.executeField cx objectType child (pos ++ [.key k]) fields).out with
    | none => exact ⟨hloc1, by simp⟩
    | some v =>
      simp only
      refine ⟨?_, ?_⟩
      · intro e he
        rcases List.mem_append.1 he with he | he
        · exact hloc1 e he
        · exact ih.1 e he
      · intro kvs hk
        simp only [Option.map_eq_some_iff] at hk
        obtain ⟨kvs', hk', rfl⟩ := hk
        obtain ⟨ihk, ihe⟩ := ih.2 kvs' hk'
        cases v with
        | none =>
          have hnoerr := h1.skipped hout
          simp only [keys, List.map_cons]
          refine ⟨fun k' hk'' => List.mem_cons_of_mem _ (ihk k' hk''), ?_⟩
          intro e he
          rw [hnoerr] at he
          simp only [List.nil_append] at he
          exact ihe e he
        | some j =>
          simp only [keys, List.map_cons]
          refine ⟨?_, ?_⟩
          · intro k' hk''
            simp only [List.mem_cons] at hk''
            rcases hk'' with rfl | hk''
            · exact List.mem_cons_self ..
            · exact List.mem_cons_of_mem _ (ihk k' hk'')
          · intro e he
            rcases List.mem_append.1 he with he | he
            · obtain ⟨p', hp'⟩ := h1.located e he
              refine ⟨k, p', j, by rw [hp']; simp, by simp [List.lookup], h1.acc j hout e he p' hp'⟩
            · obtain ⟨k', p'', j', hp, hl, hacc⟩ := ihe e he
              have hne : k' ≠ k := by
                intro heq
                subst heq
                have : k' ∈ kvs'.map (·.1) := by
                  clear hp hacc ihe ihk hk'
                  induction kvs' with
                  | nil => simp [List.lookup] at hl
                  | cons hd t iht =>
                    obtain ⟨a, b⟩ := hd
                    simp only [List.lookup] at hl
                    split at hl
                    · rename_i heq'; simp at heq'; simp [heq']
                    · simp only [List.map_cons, List.mem_cons]; exact Or.inr (iht hl)
                exact hnd.1 (ihk k' this)
              exact ⟨k', p'', j', hp, by rw [lookup_cons_ne hne]; exact hl, hacc⟩

end Gql.Exec.Refine

namespace Gql.Exec.Refine
open Gql.Exec

theorem executeSelectionSet_acct (cx : Spec.Ctx) (objectType : Name) (sels : List Selection)
    (pos : List PSeg) (child : Spec.Child) (hch : ChildAcct child) :
    Acct pos (Spec.executeSelectionSet cx objectType sels pos child) := by
  unfold Spec.executeSelectionSet
  cases hc : Spec.collectFields cx objectType sels with
  | crash c => exact Acct.fail _ _
  | err k => exact Acct.fail _ _
  | ok groups =>
    have h := executeGroups_acct cx objectType child hch pos groups (collectFields_nodup cx _ _ _ hc)
    refine ⟨h.1, ?_⟩
    intro j hj e he p' hp'
    simp only [Option.map_eq_some_iff] at hj
    obtain ⟨kvs, hk, rfl⟩ := hj
    obtain ⟨k, p'', j', hp, hl, hacc⟩ := (h.2 kvs hk).2 e he
    rw [hp'] at hp
    have := List.append_cancel_left (Option.some.inj hp)
    subst this
    exact acc_obj hl hacc

theorem completeNamed_acct (cx : Spec.Ctx) (t : TypeRef) (fields : List FieldNode)
    (pos : List PSeg) (leaf? : Option PyLeaf) (tn : TN) (child : Spec.Child) (hch : ChildAcct child) :
    Acct pos (Spec.completeNamed cx t fields pos leaf? tn child) := by
  unfold Spec.completeNamed
  cases t with
  | list t' nn => exact Acct.fail _ _
  | named n nn =>
    simp only
    cases cx.schema.kind n with
    | leaf =>
      cases leaf? with
      | none => exact Acct.fail _ _
      | some l => exact coerceResult_acct cx pos n l
    | object => exact executeSelectionSet_acct cx n _ pos child hch
    | abstract =>
      simp only
      cases Spec.resolveAbstractType cx.schema n tn with
      | error k => exact Acct.fail _ _
      | ok rt => exact executeSelectionSet_acct cx rt _ pos child hch
    | input => exact Acct.fail _ _
    | unknown => exact Acct.fail _ _

theorem nullChild_acct : ChildAcct Spec.nullChild :=
  fun _ _ t _ pos => completeNull_acct t pos

mutual
theorem completeValue_acct (cx : Spec.Ctx) : (d : RVal) → NoOwnPath d → ∀ (t : TypeRef)
    (fields : List FieldNode) (pos : List PSeg), Acct pos (Spec.completeValue cx t fields pos d)
  | .raise tag none, _, t, fields, pos => by unfold Spec.completeValue; exact Acct.fail _ _
  | .raise tag (some p), h, t, fields, pos => by simp [NoOwnPath] at h
  | .null, _, t, fields, pos => by unfold Spec.completeValue; exact completeNull_acct t pos
  | .leaf l, _, t, fields, pos => by
    unfold Spec.completeValue
    exact completeNamed_acct cx t fields pos _ _ _ nullChild_acct
  | .obj tn f, h, t, fields, pos => by
    unfold Spec.completeValue
    simp only [NoOwnPath] at h
    exact completeNamed_acct cx t fields pos _ _ _
      (fun name args t' fields' pos' => completeValue_acct cx (f name args) (h name args) t' fields' pos')
  | .list items, h, t, fields, pos => by
    unfold Spec.completeValue
    simp only [NoOwnPath] at h
    cases t with
    | named n nn => exact completeNamed_acct cx _ fields pos _ _ _ nullChild_acct
    | list t' nn =>
      have hi := completeItems_acct cx items h t' fields pos 0
      refine ⟨hi.1, ?_⟩
      intro j hj e he p' hp'
      simp only [Option.map_eq_some_iff] at hj
      obtain ⟨js, hk, rfl⟩ := hj
      obtain ⟨n, p'', j', hp, hl, hacc⟩ := hi.2 js hk e he
      rw [hp'] at hp
      have := List.append_cancel_left (Option.some.inj hp)
      subst this
      simp only [Nat.zero_add]
      exact acc_list hl hacc

theorem completeItems_acct (cx : Spec.Ctx) : (items : List RVal) → NoOwnPathL items →
    ∀ (t : TypeRef) (fields : List FieldNode) (pos : List PSeg) (i : Nat),
    (∀ e ∈ (Spec.completeItems cx t fields pos i items).errs, ∃ p', e.path = some (pos ++ p')) ∧
    ∀ js, (Spec.completeItems cx t fields pos i items).out = some js →
      ∀ e ∈ (Spec.completeItems cx t fields pos i items).errs,
        ∃ n p'' j, e.path = some (pos ++ PSeg.idx (i + n) :: p'') ∧ js[n]? = some j ∧ Acc j p''
  | [], _, t, fields, pos, i => by unfold Spec.completeItems; simp [Spec.R.pure]
  | x :: xs, h, t, fields, pos, i => by
    simp only [NoOwnPathL] at h
    have h1 := (completeValue_acct cx x h.1 t fields (pos ++ [.idx i])).absorb t
    have ih := completeItems_acct cx xs h.2 t fields pos (i + 1)
    have hloc1 : ∀ e ∈ (Spec.absorb t (Spec.completeValue cx t fields (pos ++ [.idx i]) x)).errs,
        ∃ p', e.path = some (pos ++ p') := by
      intro e he
      obtain ⟨p', hp'⟩ := h1.located e he
      exact ⟨.idx i :: p', by rw [hp']; simp⟩
    unfold Spec.completeItems
    simp only
    cases hout : (Spec.absorb t (Spec.completeValue cx t fields (pos ++ [.idx i]) x)).out with
    | none => exact ⟨hloc1, by simp⟩
    | some j =>
      simp only
      refine ⟨?_, ?_⟩
      · intro e he
        rcases List.mem_append.1 he with he | he
        · exact hloc1 e he
        · exact ih.1 e he
      · intro js hk
        simp only [Option.map_eq_some_iff] at hk
        obtain ⟨js', hk', rfl⟩ := hk
        intro e he
        rcases List.mem_append.1 he with he | he
        · obtain ⟨p', hp'⟩ := h1.located e he
          exact ⟨0, p', j, by rw [hp']; simp, by simp, h1.acc j hout e he p' hp'⟩
        · obtain ⟨n, p'', j', hp, hl, hacc⟩ := ih.2 js' hk' e he
          have harith : i + 1 + n = i + (n + 1) := by omega
          exact ⟨n + 1, p'', j', by rw [hp, harith], by simpa using hl, hacc⟩
end

/-- request level -/
theorem executeRequest_accounts (ops : Ops) (s : Schema) (doc : Doc) (opName : Option Name)
    (vars : Vars) (root : RVal) (hroot : NoOwnPath root) :
    ∀ e ∈ (Spec.executeRequest ops s doc opName vars root).errors, ∀ p, e.path = some p →
      Acc (Spec.executeRequest ops s doc opName vars root).data p := by
  have hchild : ChildAcct (Spec.childOf { ops := ops, schema := s, doc := doc, vars := vars } root) := by
    intro name args t fields pos
    refine completeValue_acct _ (root.child name args) ?_ t fields pos
    cases root with
    | obj tn f => simp only [NoOwnPath] at hroot; exact hroot name args
    | _ => simp [RVal.child, NoOwnPath]
  unfold Spec.executeRequest
  cases Spec.getOperation doc.ops opName with
  | none => intro e he p hp; simp only [List.mem_singleton] at he; subst he; cases hp
  | some op =>
    simp only
    cases Spec.rootType s op.kind with
    | none => intro e he p hp; simp only [List.mem_singleton] at he; subst he; cases hp
    | some rt =>
      simp only
      cases hc : Spec.collectFields { ops := ops, schema := s, doc := doc, vars := vars } rt op.sels with
      | crash c => intro e he p hp; simp only [List.mem_singleton] at he; subst he; cases hp
      | err k => intro e he p hp; simp only [List.mem_singleton] at he; subst he; cases hp
      | ok groups =>
        simp only
        have h := executeGroups_acct { ops := ops, schema := s, doc := doc, vars := vars } rt _ hchild []
          groups (collectFields_nodup _ _ _ _ hc)
        intro e he p hp
        cases hout : (Spec.executeGroups { ops := ops, schema := s, doc := doc, vars := vars } rt
            (Spec.childOf { ops := ops, schema := s, doc := doc, vars := vars } root) [] groups).out with
        | none => exact acc_null p
        | some kvs =>
          simp only
          obtain ⟨k, p'', j, hp', hl, hacc⟩ := (h.2 kvs hout).2 e he
          rw [hp] at hp'
          simp only [List.nil_append, Option.some.injEq] at hp'
          subst hp'
          exact acc_obj hl hacc

end Gql.Exec.Refine
