import Gql.Proofs.IncExec
import Gql.Proofs.ExecSim6
/-!
C04 §6, the step `c.ref = the specification's response` for the class of documents whose
operations select **fields only** (no inline fragment, no fragment spread anywhere below an
operation; fragment definitions may exist but cannot be reached).  In this class `@defer` cannot
occur, the plan of every object has no new grouped field set, and the recursion of `incCut`
(collect → plan → execute_fields → complete_value) is shown, step by step, to compute the
specification's ExecuteSelectionSet / ExecuteField / CompleteValue.
-/
namespace Gql.Async.IncExec
open Gql.Exec Gql.Async
open Gql.Exec.Refine (OpsOk dirOut)

/-! ### the document class -/

mutual
/-- a field selection all of whose sub-selections (recursively) are field selections -/
def fieldsOnlySel : Selection → Bool
  | .field _ _ _ _ sels => fieldsOnlySels sels
  | .inline _ _ _ => false
  | .spread _ _ => false
def fieldsOnlySels : List Selection → Bool
  | [] => true
  | x :: rest => fieldsOnlySel x && fieldsOnlySels rest
end

/-- every operation of the document selects fields only -/
def fieldsOnlyDoc (d : Doc) : Bool := d.ops.all (fun op => fieldsOnlySels op.sels)

mutual
theorem stripSel_id : ∀ s : Selection, fieldsOnlySel s = true → stripSel s = s
  | .field a n args dirs sels, h => by
    simp only [fieldsOnlySel] at h
    simp only [stripSel, stripSels_id sels h]
  | .inline _ _ _, h => by simp [fieldsOnlySel] at h
  | .spread _ _, h => by simp [fieldsOnlySel] at h
theorem stripSels_id : ∀ l : List Selection, fieldsOnlySels l = true → stripSels l = l
  | [], _ => rfl
  | x :: rest, h => by
    simp only [fieldsOnlySels, Bool.and_eq_true] at h
    simp only [stripSels, stripSel_id x h.1, stripSels_id rest h.2]
end

/-! ### the specification's context: only `ops`, `schema`, `vars` matter here -/

structure Agree (cx : Impl.Ctx) (scx : Spec.Ctx) : Prop where
  ops : scx.ops = cx.ops
  schema : scx.schema = cx.schema
  vars : scx.vars = cx.vars

theorem coerce_ctx (c1 c2 : Spec.Ctx) (h1 : c1.ops = c2.ops) (h2 : c1.schema = c2.schema)
    (h3 : c1.vars = c2.vars) (args : List (Name × Value)) :
    ∀ (defs : List ArgDef) (acc : ArgMap),
      Spec.coerceArgumentValues c1 args defs acc = Spec.coerceArgumentValues c2 args defs acc
  | [], acc => by simp [Spec.coerceArgumentValues]
  | a :: rest, acc => by
    simp only [Spec.coerceArgumentValues, h1, h2, h3, coerce_ctx c1 c2 h1 h2 h3 args rest]

theorem included_ctx (c1 c2 : Spec.Ctx) (h1 : c1.ops = c2.ops) (h2 : c1.schema = c2.schema)
    (h3 : c1.vars = c2.vars) (dirs : List Directive) :
    Spec.included c1 dirs = Spec.included c2 dirs := by
  unfold Spec.included Spec.directiveIf
  simp only [coerce_ctx c1 c2 h1 h2 h3]

theorem shouldInclude_agree {cx : Impl.Ctx} {scx : Spec.Ctx} (ha : Agree cx scx)
    (hops : OpsOk cx.ops) (dirs : List Directive) :
    Impl.shouldInclude cx dirs = dirOut (Spec.included scx dirs) := by
  rw [Refine.shouldInclude_eq cx hops]
  congr 1
  exact included_ctx _ _ ha.ops.symm ha.schema.symm ha.vars.symm dirs

theorem coerce_agree {cx : Impl.Ctx} {scx : Spec.Ctx} (ha : Agree cx scx)
    (args : List (Name × Value)) (defs : List ArgDef) (acc : ArgMap) :
    Spec.coerceArgumentValues scx args defs acc =
      Spec.coerceArgumentValues (specCtx cx) args defs acc :=
  coerce_ctx _ _ ha.ops ha.schema ha.vars args defs acc

/-! ### collection -/

def nodes (fds : List FD) : List FieldNode := fds.map FD.node

def toGroups (g : GFS) : Spec.Groups := g.map (fun e => (e.1, nodes e.2))

/-- field details of the class `P`: not deferred, sub-selections in the class -/
def FOfds (P : List Selection → Prop) (fds : List FD) : Prop :=
  ∀ fd ∈ fds, fd.du = none ∧ P fd.node.sels

def FOg (P : List Selection → Prop) (g : GFS) : Prop := ∀ e ∈ g, FOfds P e.2

/-- the class of the first stage: fields only -/
def PFO (sels : List Selection) : Prop := fieldsOnlySels sels = true

theorem toGroups_addField (g : GFS) (k : Name) (fd : FD) :
    toGroups (addField g k fd) = Spec.appendGroup (toGroups g) k [fd.node] := by
  induction g with
  | nil => simp [addField, toGroups, nodes, Spec.appendGroup]
  | cons x rest ih =>
    obtain ⟨k', fds⟩ := x
    by_cases h : k' = k
    · subst h
      simp [addField, toGroups, nodes, Spec.appendGroup]
    · have ih' := ih
      simp only [toGroups, nodes] at ih'
      simp [addField, toGroups, nodes, Spec.appendGroup, h, ih']

theorem FOg_addField {P : List Selection → Prop} (g : GFS) (k : Name) (fd : FD) (hg : FOg P g)
    (hfd : fd.du = none ∧ P fd.node.sels) : FOg P (addField g k fd) := by
  induction g with
  | nil =>
    intro e he
    simp only [addField, List.mem_singleton] at he
    subst he
    intro x hx
    simp only [List.mem_singleton] at hx
    subst hx; exact hfd
  | cons x rest ih =>
    obtain ⟨k', fds⟩ := x
    have hrest : FOg P rest := fun e he => hg e (List.mem_cons_of_mem _ he)
    have hx : FOfds P fds := hg (k', fds) List.mem_cons_self
    by_cases h : k' = k
    · subst h
      intro e he
      simp only [addField, if_true, List.mem_cons] at he
      rcases he with he | he
      · subst he
        intro y hy
        simp only [List.mem_append, List.mem_singleton] at hy
        rcases hy with hy | hy
        · exact hx y hy
        · subst hy; exact hfd
      · exact hrest e he
    · intro e he
      simp only [addField, h, if_false, List.mem_cons] at he
      rcases he with he | he
      · subst he; exact hx
      · exact ih hrest e he

theorem collectSels_fo {cx : Impl.Ctx} {scx : Spec.Ctx} (ha : Agree cx scx) (hops : OpsOk cx.ops)
    (rt : Name) (recur : Option Nat → List Selection → CState → Option CState)
    (srecur : List Selection → List Name → Out ErrKind (Spec.Groups × List Name)) :
    ∀ (sels : List Selection) (st st' : CState), fieldsOnlySels sels = true →
      collectSels cx rt recur none sels st = some st' →
      st'.newUsages = st.newUsages ∧ (FOg PFO st.grouped → FOg PFO st'.grouped) ∧
      ∀ visited, Spec.collectLoop scx rt srecur sels (toGroups st.grouped) visited =
        .ok (toGroups st'.grouped, visited)
  | [], st, st', _, h => by
    simp only [collectSels, Option.some.injEq] at h
    subst h
    exact ⟨rfl, id, fun v => by simp [Spec.collectLoop]⟩
  | .field a n args dirs subs :: rest, st, st', hf, h => by
    simp only [fieldsOnlySels, fieldsOnlySel, Bool.and_eq_true] at hf
    rw [collectSels, collectSel, shouldInclude_agree ha hops] at h
    cases hinc : Spec.included scx dirs with
    | none => simp [hinc, dirOut] at h
    | some b =>
      cases b with
      | false =>
        simp only [hinc, dirOut] at h
        obtain ⟨h1, h2, h3⟩ := collectSels_fo ha hops rt recur srecur rest st st' hf.2 h
        refine ⟨h1, h2, fun v => ?_⟩
        rw [Spec.collectLoop, Spec.collectOne]
        simp only [hinc]
        exact h3 v
      | true =>
        simp only [hinc, dirOut] at h
        obtain ⟨h1, h2, h3⟩ := collectSels_fo ha hops rt recur srecur rest _ st' hf.2 h
        refine ⟨h1, fun hn => h2 (FOg_addField _ _ _ hn ⟨rfl, hf.1⟩), fun v => ?_⟩
        rw [Spec.collectLoop, Spec.collectOne]
        simp only [hinc]
        have h4 := h3 v
        simp only [toGroups_addField] at h4
        exact h4
  | .inline _ _ _ :: rest, _, _, hf, _ => by simp [fieldsOnlySels, fieldsOnlySel] at hf
  | .spread _ _ :: rest, _, _, hf, _ => by simp [fieldsOnlySels, fieldsOnlySel] at hf

theorem collectLoop_append (scx : Spec.Ctx) (rt : Name)
    (srecur : List Selection → List Name → Out ErrKind (Spec.Groups × List Name)) :
    ∀ (a b : List Selection) (g : Spec.Groups) (v : List Name) (g1 : Spec.Groups) (v1 : List Name),
      Spec.collectLoop scx rt srecur a g v = .ok (g1, v1) →
      Spec.collectLoop scx rt srecur (a ++ b) g v = Spec.collectLoop scx rt srecur b g1 v1
  | [], b, g, v, g1, v1, h => by
    simp only [Spec.collectLoop, Out.ok.injEq, Prod.mk.injEq] at h
    obtain ⟨rfl, rfl⟩ := h
    rfl
  | x :: a, b, g, v, g1, v1, h => by
    rw [Spec.collectLoop] at h
    rw [List.cons_append, Spec.collectLoop]
    cases hx : Spec.collectOne scx rt srecur x g v with
    | ok p =>
      obtain ⟨g', v'⟩ := p
      simp only [hx] at h ⊢
      exact collectLoop_append scx rt srecur a b _ _ _ _ h
    | err e => simp [hx] at h
    | crash c => simp [hx] at h

theorem fuelOf_succ (d : Doc) : fuelOf d = (2 * d.frags.length + 1) + 1 := rfl

theorem collectSubLoop_fo {cx : Impl.Ctx} {scx : Spec.Ctx} (ha : Agree cx scx) (hops : OpsOk cx.ops)
    (rt : Name) (srecur : List Selection → List Name → Out ErrKind (Spec.Groups × List Name)) :
    ∀ (fds : List FD) (st st' : CState), FOfds PFO fds →
      collectSubLoop cx rt fds st = some st' →
      st'.newUsages = st.newUsages ∧ (FOg PFO st.grouped → FOg PFO st'.grouped) ∧
      ∀ visited, Spec.collectLoop scx rt srecur (Spec.mergeSelectionSets (nodes fds))
        (toGroups st.grouped) visited = .ok (toGroups st'.grouped, visited)
  | [], st, st', _, h => by
    simp only [collectSubLoop, Option.some.injEq] at h
    subst h
    exact ⟨rfl, id, fun v => by simp [Spec.mergeSelectionSets, nodes, Spec.collectLoop]⟩
  | fd :: rest, st, st', hfo, h => by
    rw [collectSubLoop] at h
    have hfd := hfo fd List.mem_cons_self
    have hrest : FOfds PFO rest := fun x hx => hfo x (List.mem_cons_of_mem _ hx)
    cases hs : collectFuel cx rt (fuelOf cx.doc) fd.du fd.node.sels st with
    | none => simp [hs] at h
    | some st1 =>
      simp only [hs] at h
      rw [fuelOf_succ, collectFuel, hfd.1] at hs
      obtain ⟨a1, a2, a3⟩ := collectSels_fo ha hops rt _ srecur _ _ _ hfd.2 hs
      obtain ⟨b1, b2, b3⟩ := collectSubLoop_fo ha hops rt srecur rest st1 st' hrest h
      refine ⟨b1.trans a1, fun hg => b2 (a2 hg), fun v => ?_⟩
      have : Spec.mergeSelectionSets (nodes (fd :: rest)) =
          fd.node.sels ++ Spec.mergeSelectionSets (nodes rest) := by
        simp [Spec.mergeSelectionSets, nodes]
      rw [this, collectLoop_append scx rt srecur _ _ _ _ _ _ (a3 v)]
      exact b3 v

/-! ### the plan of a grouped field set without defer usages -/

theorem filtered_nodu (p : Nat → Option Nat) (f : Nat) (fdl : Plan.FieldDetailsList)
    (h : ∀ fd ∈ fdl, fd.deferUsage = none) : Plan.getFilteredDeferUsageSet p f fdl = [] := by
  cases fdl with
  | nil => simp [Plan.getFilteredDeferUsageSet, Plan.collectUsages, Plan.pruneChildren]
  | cons a rest =>
    have := h a List.mem_cons_self
    simp [Plan.getFilteredDeferUsageSet, Plan.collectUsages, this]

theorem plan_foldl_nodu (p : Nat → Option Nat) (f : Nat) :
    ∀ (l acc : Plan.GroupedFieldSet Name),
      (∀ e ∈ l, ∀ fd ∈ e.2, fd.deferUsage = none) → ((acc ++ l).map Prod.fst).Nodup →
      l.foldl (Plan.planStep p f []) { groupedFieldSet := acc, newGroupedFieldSets := [] } =
        { groupedFieldSet := acc ++ l, newGroupedFieldSets := [] }
  | [], acc, _, _ => by simp
  | e :: l, acc, h, hn => by
    rw [List.foldl_cons]
    have hf := filtered_nodu p f e.2 (h e List.mem_cons_self)
    have hk : e.1 ∉ acc.map Prod.fst := by
      intro hmem
      rw [List.map_append, List.nodup_append] at hn
      exact hn.2.2 _ hmem _ (by simp) rfl
    have hstep : Plan.planStep p f [] { groupedFieldSet := acc, newGroupedFieldSets := [] } e =
        { groupedFieldSet := acc ++ [e], newGroupedFieldSets := [] } := by
      simp [Plan.planStep, hf, Plan.setEq, Plan.dictSet_fresh _ _ _ hk]
    rw [hstep, plan_foldl_nodu p f l (acc ++ [e]) (fun e' he' => h e' (List.mem_cons_of_mem _ he'))
      (by simpa using hn)]
    simp

theorem plan_nodu (p : Nat → Option Nat) (f : Nat) (g : GFS) (hg : (g.map Prod.fst).Nodup)
    {P : List Selection → Prop} (hfo : FOg P g) :
    Plan.buildExecutionPlan p f (toPlan g) [] =
      { groupedFieldSet := toPlan g, newGroupedFieldSets := [] } := by
  have hkeys : (toPlan g).map Prod.fst = g.map Prod.fst := by
    simp [toPlan, List.map_map, Function.comp_def]
  unfold Plan.buildExecutionPlan
  rw [plan_foldl_nodu p f (toPlan g) []]
  · simp
  · intro e he fd hfd
    simp only [toPlan, List.mem_map] at he
    obtain ⟨e0, he0, rfl⟩ := he
    simp only [List.mem_map] at hfd
    obtain ⟨fd0, hfd0, rfl⟩ := hfd
    exact (hfo e0 he0 fd0 hfd0).1
  · simpa [hkeys] using hg

/-! ### execution -/

/-- what the executors need from collection, for the class `P` of selection sets: collecting the
sub-selections of not deferred field details of the class creates no defer usage, stays in the
class and gives the specification's CollectFields of the merged selection sets -/
structure CollectOK (cx : Impl.Ctx) (scx : Spec.Ctx) (P : List Selection → Prop) : Prop where
  sub : ∀ (rt : Name) (fds : List FD) (st : CState), cx.schema.kind rt = .object → FOfds P fds →
    collectSubfields cx rt fds 0 = some st →
    st.newUsages = [] ∧ FOg P st.grouped ∧
    Spec.collectFields scx rt (Spec.mergeSelectionSets (nodes fds)) = .ok (toGroups st.grouped)

variable {P : List Selection → Prop}


/-- the specification side answered with a value and raised nothing -/
def Ok {α : Type} (r : Spec.R α) (a : α) : Prop := r.out = some a ∧ r.errs = []

def RelO : Option Cut → Option Json → Prop
  | none, none => True
  | some c, some j => toJ j = some c.ref
  | _, _ => False

def ChildSim (P : List Selection → Prop) (child : Child) (schild : Spec.Child) : Prop :=
  ∀ name args t fds c pos, FOfds P fds → child name args t fds [] [] = some c →
    ∃ j, Ok (schild name args t (nodes fds) pos) j ∧ toJ j = some c.ref

theorem leafCut_ref {j : Json} {c : Cut} (h : leafCut j = some c) : toJ j = some c.ref := by
  unfold leafCut at h
  split at h
  · rename_i j' hj
    split at h
    · simp only [Option.some.injEq] at h
      subst h
      simpa [Cut.ref] using hj
    · cases h
  · cases h

theorem serialize_some {α : Type} (r : Option Json) (f : Json → Option α) (x : α)
    (h : (match r with
      | some .null => none
      | some j => f j
      | none => none) = some x) : ∃ j, r = some j ∧ j ≠ .null ∧ f j = some x := by
  split at h
  · cases h
  · rename_i j hne
    exact ⟨j, rfl, fun e => hne (by rw [e]), h⟩
  · cases h

theorem coerceResult_ok (scx : Spec.Ctx) (pos : List PSeg) (n : Name) (l : PyLeaf) (j : Json)
    (hs : scx.ops.serialize scx.schema n l = some j) (hj : j ≠ .null) :
    Spec.coerceResult scx pos n l = Spec.R.pure j := by
  unfold Spec.coerceResult
  rw [hs]
  cases j <;> simp_all

theorem absorb_ok (t : TypeRef) (r : Spec.R Json) (j : Json) (h : r.out = some j) :
    Spec.absorb t r = r := by
  simp [Spec.absorb, h]

theorem executeField_sim {cx : Impl.Ctx} {scx : Spec.Ctx} (ha : Agree cx scx) {parent : Name}
    {child : Child} {schild : Spec.Child} (hc : ChildSim P child schild) {fds : List FD}
    (hfo : FOfds P fds) {oc : Option Cut} (pos : List PSeg)
    (h : executeField cx parent child [] [] fds = some oc) :
    ∃ oj, Ok (Spec.executeField scx parent schild pos (nodes fds)) oj ∧ RelO oc oj := by
  cases fds with
  | nil => simp [executeField] at h
  | cons fd0 rest =>
    simp only [executeField] at h
    simp only [nodes, List.map_cons, Spec.executeField]
    cases hn : (fd0.node.name == "__typename") with
    | true =>
      simp only [hn, if_true] at h ⊢
      obtain ⟨j, hj, hne, hl⟩ := serialize_some _ _ _ h
      obtain ⟨c, hlc, rfl⟩ := Option.map_eq_some_iff.mp hl
      have hco := coerceResult_ok scx pos "String" (.str (parent.toList.map Char.toNat)) j
        (by rw [ha.ops, ha.schema]; exact hj) hne
      rw [hco, absorb_ok _ _ j rfl]
      exact ⟨some j, ⟨rfl, rfl⟩, leafCut_ref hlc⟩
    | false =>
      simp only [hn, Bool.false_eq_true, if_false] at h ⊢
      rw [ha.schema]
      cases hgf : cx.schema.getField parent fd0.node.name with
      | none =>
        simp only [hgf, Option.some.injEq] at h
        subst h
        exact ⟨none, ⟨rfl, rfl⟩, trivial⟩
      | some fdef =>
        simp only [hgf] at h ⊢
        rw [coerce_agree ha]
        cases hco : Spec.coerceArgumentValues (specCtx cx) fd0.node.args fdef.args [] with
        | none => simp [hco] at h
        | some args =>
          simp only [hco] at h ⊢
          obtain ⟨c, hch, rfl⟩ := Option.map_eq_some_iff.mp h
          obtain ⟨j, ⟨hj1, hj2⟩, hj3⟩ := hc fd0.node.name args fdef.type (fd0 :: rest) c pos hfo hch
          simp only [nodes, List.map_cons] at hj1 hj2
          rw [absorb_ok _ _ j (by simpa using hj1)]
          exact ⟨some j, ⟨by simp [hj1], by simp [hj2]⟩, hj3⟩

theorem gfsGet_of_mem : ∀ (g : GFS) (k : Name) (fds : List FD), (g.map Prod.fst).Nodup →
    (k, fds) ∈ g → gfsGet k g = some fds
  | [], _, _, _, h => by cases h
  | (k', fds') :: rest, k, fds, hn, h => by
    simp only [List.map_cons, List.nodup_cons] at hn
    simp only [List.mem_cons, Prod.mk.injEq] at h
    rcases h with ⟨rfl, rfl⟩ | h
    · simp [gfsGet]
    · have hne : k' ≠ k := by
        intro e
        subst e
        exact hn.1 (List.mem_map.mpr ⟨(k', fds), h, rfl⟩)
      simp only [gfsGet, hne, if_false]
      exact gfsGet_of_mem rest k fds hn.2 h

theorem executeKeys_sim {cx : Impl.Ctx} {scx : Spec.Ctx} (ha : Agree cx scx) {parent : Name}
    {child : Child} {schild : Spec.Child} (hc : ChildSim P child schild) {g : GFS}
    (hg : (g.map Prod.fst).Nodup) (hfo : FOg P g) (pos : List PSeg) :
    ∀ (g' : GFS) (fs : List (List Nat × Cut)), (∀ e ∈ g', e ∈ g) →
      executeKeys cx parent child [] [] g (g'.map Prod.fst) = some fs →
      ∃ kvs, Ok (Spec.executeGroups scx parent schild pos (toGroups g')) kvs ∧
        toJFields kvs = some (refFields fs)
  | [], fs, _, h => by
    simp only [List.map_nil, executeKeys, Option.some.injEq] at h
    subst h
    exact ⟨[], ⟨rfl, rfl⟩, rfl⟩
  | (k, fds) :: g'', fs, hsub, h => by
    have hmem : (k, fds) ∈ g := hsub _ List.mem_cons_self
    have hsub' : ∀ e ∈ g'', e ∈ g := fun e he => hsub e (List.mem_cons_of_mem _ he)
    simp only [List.map_cons, executeKeys, gfsGet_of_mem g k fds hg hmem] at h
    simp only [toGroups, List.map_cons, Spec.executeGroups]
    split at h
    · rename_i c cs hf hr
      simp only [Option.some.injEq] at h
      subst h
      obtain ⟨oj, ⟨o1, o2⟩, o3⟩ := executeField_sim ha hc (hfo _ hmem) (pos ++ [.key k]) hf
      obtain ⟨kvs, ⟨k1, k2⟩, k3⟩ := executeKeys_sim ha hc hg hfo pos g'' cs hsub' hr
      simp only [toGroups] at k1 k2
      cases oj with
      | none => simp [RelO] at o3
      | some j =>
        simp only [RelO] at o3
        refine ⟨(k, j) :: kvs, ⟨by simp [o1, k1], by simp [o1, o2, k2]⟩, ?_⟩
        simp [toJFields, o3, k3, refFields]
    · rename_i cs hf hr
      simp only [Option.some.injEq] at h
      subst h
      obtain ⟨oj, ⟨o1, o2⟩, o3⟩ := executeField_sim ha hc (hfo _ hmem) (pos ++ [.key k]) hf
      obtain ⟨kvs, ⟨k1, k2⟩, k3⟩ := executeKeys_sim ha hc hg hfo pos g'' _ hsub' hr
      simp only [toGroups] at k1 k2
      cases oj with
      | some j => simp [RelO] at o3
      | none =>
        exact ⟨kvs, ⟨by simp [o1, k1], by simp [o1, o2, k2]⟩, k3⟩
    · cases h

theorem executePlan_sim {cx : Impl.Ctx} {scx : Spec.Ctx} (ha : Agree cx scx) {parent : Name}
    {child : Child} {schild : Spec.Child} (hc : ChildSim P child schild) {st : CState}
    (hnew : st.newUsages = []) (hg : Good st) (hfo : FOg P st.grouped) (pos : List PSeg) {c : Cut}
    (h : executePlan cx parent child [] [] st = some c) :
    ∃ kvs, Ok (Spec.executeGroups scx parent schild pos (toGroups st.grouped)) kvs ∧
      toJ (.obj kvs) = some c.ref := by
  have hkeys : (toPlan st.grouped).map Prod.fst = st.grouped.map Prod.fst := by
    simp [toPlan, List.map_map, Function.comp_def]
  unfold executePlan at h
  simp only [hnew, List.append_nil, plan_nodu _ _ _ hg hfo, hkeys, executeSets] at h
  split at h
  · rename_i now later hn hl
    simp only [Option.some.injEq] at h hl
    subst h; subst hl
    obtain ⟨kvs, hk, hj⟩ := executeKeys_sim ha hc hg hfo pos st.grouped now (fun _ he => he) hn
    refine ⟨kvs, hk, ?_⟩
    simp [toJ, hj, Cut.ref, refGroups]
  · cases h

theorem completeObject_sim {cx : Impl.Ctx} {scx : Spec.Ctx} (ha : Agree cx scx)
    (hcol : CollectOK cx scx P) {rt : Name} (hrt : cx.schema.kind rt = .object) {fds : List FD}
    (hfo : FOfds P fds) {child : Child}
    {schild : Spec.Child} (hc : ChildSim P child schild) (pos : List PSeg) {c : Cut}
    (h : completeObject cx rt fds [] [] child = some c) :
    ∃ j, Ok (Spec.executeSelectionSet scx rt (Spec.mergeSelectionSets (nodes fds)) pos schild) j ∧
      toJ j = some c.ref := by
  unfold completeObject at h
  split at h
  · cases h
  · rename_i st hs
    have hgood := collectSubfields_good hs
    simp only [List.length_nil] at hs
    obtain ⟨a1, a2, hcf⟩ := hcol.sub rt fds st hrt hfo hs
    obtain ⟨kvs, ⟨k1, k2⟩, k3⟩ := executePlan_sim ha hc a1 hgood a2 pos h
    refine ⟨.obj kvs, ⟨?_, ?_⟩, k3⟩
    · simp [Spec.executeSelectionSet, hcf, k1]
    · simp [Spec.executeSelectionSet, hcf, k2]

theorem completeNull_sim {t : TypeRef} {c : Cut} (pos : List PSeg) (h : completeNull t = some c) :
    ∃ j, Ok (Spec.completeNull t pos) j ∧ toJ j = some c.ref := by
  unfold completeNull at h
  split at h
  · cases h
  · rename_i hnn
    simp only [Option.some.injEq] at h
    subst h
    exact ⟨.null, by simp [Spec.completeNull, hnn, Ok, Spec.R.pure], by simp [toJ, Cut.ref]⟩

theorem nullChild_sim {P : List Selection → Prop} : ChildSim P nullChild Spec.nullChild :=
  fun _ _ _ _ _ pos _ h => completeNull_sim pos h

theorem completeNamed_sim {cx : Impl.Ctx} {scx : Spec.Ctx} (ha : Agree cx scx)
    (hcol : CollectOK cx scx P) {t : TypeRef} {fds : List FD} (hfo : FOfds P fds) {leaf? : Option PyLeaf}
    {tn : TN} {child : Child} {schild : Spec.Child} (hc : ChildSim P child schild) (pos : List PSeg)
    {c : Cut} (h : completeNamed cx t fds [] [] leaf? tn child = some c) :
    ∃ j, Ok (Spec.completeNamed scx t (nodes fds) pos leaf? tn schild) j ∧ toJ j = some c.ref := by
  unfold completeNamed at h
  unfold Spec.completeNamed
  split at h
  · cases h
  · rename_i n nn
    simp only [ha.schema]
    split at h
    · rename_i hk
      simp only [hk]
      split at h
      · rename_i l
        obtain ⟨j, hj, hne, hl⟩ := serialize_some _ _ _ h
        show ∃ j, Ok (Spec.coerceResult scx pos n l) j ∧ toJ j = some c.ref
        rw [coerceResult_ok scx pos n l j (by rw [ha.ops, ha.schema]; exact hj) hne]
        exact ⟨j, ⟨rfl, rfl⟩, leafCut_ref hl⟩
      · cases h
    · rename_i hk
      simp only [hk]
      rw [← Refine.ensureValid_eq]
      split at h
      · rename_i rt hrt
        simp only [hrt]
        exact completeObject_sim ha hcol (Refine.ensureValid_object hrt) hfo hc pos h
      · cases h
    · rename_i hk
      simp only [hk]
      exact completeObject_sim ha hcol hk hfo hc pos h
    · cases h

mutual
theorem completeValue_sim {cx : Impl.Ctx} {scx : Spec.Ctx} (ha : Agree cx scx)
    (hcol : CollectOK cx scx P) :
    ∀ (t : TypeRef) (fds : List FD) (v : RVal) (c : Cut) (pos : List PSeg), FOfds P fds →
      completeValue cx t fds [] [] v = some c →
      ∃ j, Ok (Spec.completeValue scx t (nodes fds) pos v) j ∧ toJ j = some c.ref
  | t, fds, .raise _ _, c, pos, _, h => by simp [completeValue] at h
  | t, fds, .null, c, pos, _, h => by
    rw [completeValue] at h
    rw [Spec.completeValue]
    exact completeNull_sim pos h
  | t, fds, .leaf l, c, pos, hfo, h => by
    rw [completeValue] at h
    rw [Spec.completeValue]
    exact completeNamed_sim ha hcol hfo nullChild_sim pos h
  | t, fds, .list items, c, pos, hfo, h => by
    unfold completeValue at h
    unfold Spec.completeValue
    split at h
    · rename_i t' nn
      split at h
      · rename_i cs hcs
        simp only [Option.some.injEq] at h
        subst h
        obtain ⟨js, ⟨j1, j2⟩, j3⟩ := completeItems_sim ha hcol t' fds items cs pos 0 hfo hcs
        refine ⟨.list js, ⟨by simp [j1], by simp [j2]⟩, ?_⟩
        simp [toJ, j3, Cut.ref, refBatches]
      · cases h
    · exact completeNamed_sim ha hcol hfo nullChild_sim pos h
  | t, fds, .obj tn f, c, pos, hfo, h => by
    rw [completeValue] at h
    rw [Spec.completeValue]
    refine completeNamed_sim ha hcol hfo ?_ pos h
    intro name args t' fds' c' pos' hfo' hc'
    exact completeValue_sim ha hcol t' fds' (f name args) c' pos' hfo' hc'

theorem completeItems_sim {cx : Impl.Ctx} {scx : Spec.Ctx} (ha : Agree cx scx)
    (hcol : CollectOK cx scx P) :
    ∀ (t : TypeRef) (fds : List FD) (items : List RVal) (cs : List Cut) (pos : List PSeg) (i : Nat),
      FOfds P fds → completeItems cx t fds [] [] items = some cs →
      ∃ js, Ok (Spec.completeItems scx t (nodes fds) pos i items) js ∧
        toJList js = some (refItems cs)
  | t, fds, [], cs, pos, i, _, h => by
    simp only [completeItems, Option.some.injEq] at h
    subst h
    exact ⟨[], by simp [Spec.completeItems, Ok, Spec.R.pure], rfl⟩
  | t, fds, x :: xs, cs, pos, i, hfo, h => by
    rw [completeItems] at h
    split at h
    · rename_i c cs' hx hxs
      simp only [Option.some.injEq] at h
      subst h
      obtain ⟨j, ⟨j1, j2⟩, j3⟩ := completeValue_sim ha hcol t fds x c (pos ++ [.idx i]) hfo hx
      obtain ⟨js, ⟨s1, s2⟩, s3⟩ := completeItems_sim ha hcol t fds xs cs' pos (i + 1) hfo hxs
      rw [Spec.completeItems]
      simp only [absorb_ok _ _ j j1, j1]
      refine ⟨j :: js, ⟨by simp [s1], by simp [j2, s2]⟩, ?_⟩
      simp [toJList, j3, s3, refItems]
    · cases h
end

theorem childOf_sim {cx : Impl.Ctx} {scx : Spec.Ctx} (ha : Agree cx scx) (hcol : CollectOK cx scx P)
    (src : RVal) : ChildSim P (childOf cx src) (Spec.childOf scx src) :=
  fun _ _ t fds c pos hfo h => completeValue_sim ha hcol t fds _ c pos hfo h

/-- the fields-only class satisfies `CollectOK` (for any document on the specification side) -/
theorem collectOK_fo {cx : Impl.Ctx} {scx : Spec.Ctx} (ha : Agree cx scx) (hops : OpsOk cx.ops) :
    CollectOK cx scx PFO where
  sub := by
    intro rt fds st _ hfo hs
    simp only [collectSubfields] at hs
    obtain ⟨a1, a2, a3⟩ := collectSubLoop_fo ha hops rt
      (Spec.collectFieldsFuel scx rt scx.doc.frags.length) fds _ _ hfo hs
    refine ⟨a1.trans rfl, a2 (fun e he => by simp [initC] at he), ?_⟩
    unfold Spec.collectFields
    rw [show Spec.fuelOf scx.doc = scx.doc.frags.length + 1 from rfl, Spec.collectFieldsFuel]
    have := a3 []
    simp only [initC, toGroups, List.map_nil] at this
    simp only [this, toGroups]

/-! ### the request -/

theorem getOperation_map (ops : List Operation) (f : Operation → Operation)
    (hf : ∀ op, (f op).name = op.name) (n : Option Name) :
    Spec.getOperation (ops.map f) n = (Impl.selectOp ops n).map f := by
  cases n with
  | none =>
    cases ops with
    | nil => rfl
    | cons a r => cases r <;> rfl
  | some n =>
    simp only [Spec.getOperation, Impl.selectOp, ← List.map_reverse, List.find?_map]
    simp [Function.comp_def, hf]

theorem selectOp_mem {ops : List Operation} {n : Option Name} {op : Operation}
    (h : Impl.selectOp ops n = some op) : op ∈ ops := by
  cases n with
  | none =>
    cases ops with
    | nil => simp [Impl.selectOp] at h
    | cons a r =>
      cases r with
      | nil => simp only [Impl.selectOp, Option.some.injEq] at h; subst h; simp
      | cons _ _ => simp [Impl.selectOp] at h
  | some n =>
    simp only [Impl.selectOp] at h
    exact List.mem_reverse.mp (List.mem_of_find?_eq_some h)

theorem collectFields_of_loop (scx : Spec.Ctx) (rt : Name) (sels : List Selection) (g : Spec.Groups)
    (h : Spec.collectLoop scx rt (Spec.collectFieldsFuel scx rt scx.doc.frags.length) sels [] [] =
      .ok (g, [])) : Spec.collectFields scx rt sels = .ok g := by
  unfold Spec.collectFields
  rw [show Spec.fuelOf scx.doc = scx.doc.frags.length + 1 from rfl, Spec.collectFieldsFuel]
  simp only [h]

/-- The request level, for any class `P` with `CollectOK` whose root collection is also known to
give the specification's CollectFields. -/
theorem incCut_ref_gen {ops : Ops} {s : Schema} {doc : Doc} {opName : Option Name} {vars : Vars}
    {root : RVal} {c : Cut} {P : List Selection → Prop}
    (hcol : CollectOK { ops := ops, schema := s, doc := doc, vars := vars }
      { ops := ops, schema := s, doc := stripDefer doc, vars := vars } P)
    (hrootc : ∀ op rt st, Impl.selectOp doc.ops opName = some op → Impl.rootType s op.kind = some rt →
      collectRoot { ops := ops, schema := s, doc := doc, vars := vars } rt op.sels = some st →
      st.newUsages = [] ∧ FOg P st.grouped ∧
      Spec.collectFields { ops := ops, schema := s, doc := stripDefer doc, vars := vars } rt
        (stripSels op.sels) = .ok (toGroups st.grouped))
    (h : incCut ops s doc opName vars root = some c) :
    (Spec.executeRequest ops s (stripDefer doc) opName vars root).errors = [] ∧
    toJ (Spec.executeRequest ops s (stripDefer doc) opName vars root).data = some c.ref := by
  unfold incCut at h
  simp only at h
  split at h
  · cases h
  · rename_i op hop
    split at h
    · cases h
    · rename_i rt hrt
      split at h
      · cases h
      · rename_i st hs
        have hsel : Spec.getOperation (stripDefer doc).ops opName =
            some { op with sels := stripSels op.sels } := by
          simp only [stripDefer]
          rw [getOperation_map doc.ops (fun op => { op with sels := stripSels op.sels })
            (fun _ => rfl) opName, hop]
          rfl
        have hroot : Spec.rootType s op.kind = some rt := hrt
        have ha : Agree { ops := ops, schema := s, doc := doc, vars := vars }
            { ops := ops, schema := s, doc := stripDefer doc, vars := vars } := ⟨rfl, rfl, rfl⟩
        have hgood := collectRoot_good hs
        obtain ⟨a1, a2, hcf⟩ := hrootc op rt st hop hrt hs
        obtain ⟨kvs, ⟨k1, k2⟩, k3⟩ := executePlan_sim ha (childOf_sim ha hcol root) a1
          hgood a2 [] h
        unfold Spec.executeRequest
        simp only [hsel, hroot, hcf, k1, k2]
        exact ⟨trivial, k3⟩

/-- For a document whose operations select fields only: the tree `c.ref` of the cut the
incremental executor model produces is, as a JSON value, the `data` of the specification's
response to the document with `@defer` disabled, and that response has no errors. -/
theorem incCut_ref_fo {ops : Ops} {s : Schema} {doc : Doc} {opName : Option Name} {vars : Vars}
    {root : RVal} {c : Cut} (hops : OpsOk ops) (hfo : fieldsOnlyDoc doc = true)
    (h : incCut ops s doc opName vars root = some c) :
    (Spec.executeRequest ops s (stripDefer doc) opName vars root).errors = [] ∧
    toJ (Spec.executeRequest ops s (stripDefer doc) opName vars root).data = some c.ref := by
  unfold incCut at h
  simp only at h
  split at h
  · cases h
  · rename_i op hop
    split at h
    · cases h
    · rename_i rt hrt
      split at h
      · cases h
      · rename_i st hs
        have hopfo : fieldsOnlySels op.sels = true := by
          have := selectOp_mem hop
          simp only [fieldsOnlyDoc, List.all_eq_true] at hfo
          exact hfo op this
        have hsel : Spec.getOperation (stripDefer doc).ops opName = some op := by
          simp only [stripDefer]
          rw [getOperation_map doc.ops (fun op => { op with sels := stripSels op.sels })
            (fun _ => rfl) opName, hop]
          simp only [Option.map_some, stripSels_id _ hopfo]
        have hroot : Spec.rootType s op.kind = some rt := hrt
        have ha : Agree { ops := ops, schema := s, doc := doc, vars := vars }
            { ops := ops, schema := s, doc := stripDefer doc, vars := vars } := ⟨rfl, rfl, rfl⟩
        have hgood := collectRoot_good hs
        simp only [collectRoot] at hs
        rw [fuelOf_succ, collectFuel] at hs
        obtain ⟨a1, a2, a3⟩ := collectSels_fo ha hops rt _
          (Spec.collectFieldsFuel { ops := ops, schema := s, doc := stripDefer doc, vars := vars } rt
            (stripDefer doc).frags.length) _ _ _ hopfo hs
        have hcf := collectFields_of_loop
          { ops := ops, schema := s, doc := stripDefer doc, vars := vars } rt op.sels
          (toGroups st.grouped) (by simpa [initC, toGroups] using a3 [])
        obtain ⟨kvs, ⟨k1, k2⟩, k3⟩ := executePlan_sim ha (childOf_sim ha (collectOK_fo ha hops) root) (a1.trans rfl)
          hgood (a2 (fun e he => by simp [initC] at he)) [] h
        unfold Spec.executeRequest
        simp only [hsel, hroot, hcf, k1, k2]
        exact ⟨trivial, k3⟩

end Gql.Async.IncExec
