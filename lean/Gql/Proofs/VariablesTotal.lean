import Gql.Proofs.CoerceLiteralMain
/-
`get_variable_values` returns errors, or a value for every provided / defaulted variable (C15).
-/
namespace Gql.Values
open Gql

/-- what the parser and `UniqueInputFieldNamesRule` guarantee about a default value literal -/
def VarDef.DefaultOK (d : VarDef) : Prop := ∀ dl, d.default = some dl → dl.isConst = true ∧ dl.Unique

def InputsWF (inputs : List (List Nat × PyVal)) : Prop := ∀ k v, (k, v) ∈ inputs → v.WF

def keys (kvs : List (List Nat × PyVal)) : List (List Nat) := kvs.map (·.1)

theorem dictGet_of_key {kvs : List (List Nat × PyVal)} {k : List Nat} (h : k ∈ keys kvs) :
    ∃ v, PyVal.dictGet kvs k = some v := by
  induction kvs with
  | nil => simp [keys] at h
  | cons hd tl ih =>
    obtain ⟨k0, v0⟩ := hd
    unfold PyVal.dictGet
    by_cases hk : k0 = k
    · exact ⟨v0, by simp [hk]⟩
    · simp only [keys, List.map_cons, List.mem_cons] at h
      rcases h with h | h
      · exact absurd h.symm hk
      · obtain ⟨v, hv⟩ := ih h
        exact ⟨v, by simp [hk, hv]⟩

section
variable (c : PyConv) (D : Field → R) (tm : TypeMap)

/-- one variable: never raises; errors only grow; a provided or defaulted variable gets a
coerced value or at least one new error -/
theorem coerceVariable_step (hW : TmWF D tm) (inputs : List (List Nat × PyVal)) (hin : InputsWF inputs)
    (d : VarDef) (hd : d.DefaultOK) (st : VarState) :
    ∃ st', coerceVariable c D tm inputs d st = .ok st' ∧
      st.errors.length ≤ st'.errors.length ∧
      (∀ k ∈ keys st.coerced, k ∈ keys st'.coerced) ∧
      ((dictGetDefined inputs d.name ≠ none ∨ d.default ≠ none) →
        st.errors.length < st'.errors.length ∨ d.name ∈ keys st'.coerced) := by
  unfold coerceVariable
  cases ht : d.type with
  | none =>
    exact ⟨_, rfl, by simp, fun k hk => hk, fun _ => Or.inl (by simp)⟩
  | some t =>
    simp only
    cases hg : dictGetDefined inputs d.name with
    | none =>
      simp only
      cases hdl : d.default with
      | some dl =>
        simp only
        obtain ⟨hc, hu⟩ := hd dl hdl
        have hav : dl.asVar = none := by
          cases h : dl.asVar with
          | none => rfl
          | some x => rw [Lit.not_const_of_var h] at hc; cases hc
        obtain ⟨cv, hcv, _⟩ := coerce_validate_literal_full c D tm hW none dl t [] (fun _ => hc) hu
          (VarOK_of_not_var hav)
        unfold useVarDefault
        rw [hcv]
        by_cases hund : cv = .undefined
        · subst hund
          refine ⟨_, rfl, by simp, fun k hk => hk, fun _ => Or.inl ?_⟩
          simp only [List.length_append, List.length_map]
          split <;> simp_all
          rename_i hne
          exact List.length_pos_iff.2 (by simpa using hne)
        · refine ⟨{ st with sources := st.sources ++ [(d.name, VarSource.mk t (some dl) .undefined)],
                            coerced := st.coerced ++ [(d.name, cv)] }, ?_, by simp, ?_, fun _ => Or.inr ?_⟩
          · cases cv <;> simp_all
          · intro k hk; simp only [keys, List.map_append, List.mem_append]; exact Or.inl hk
          · simp [keys]
      | none =>
        simp only
        by_cases hnn : t.isNonNull = true
        · simp only [hnn, Bool.not_true, Bool.false_eq_true, ↓reduceIte]
          exact ⟨_, rfl, by simp, fun k hk => hk, fun h => by simp at h⟩
        · simp only [hnn, Bool.not_false, ↓reduceIte]
          exact ⟨_, rfl, by simp, fun k hk => hk, fun h => by simp at h⟩
    | some value =>
      simp only
      have hwf : value.WF := hin d.name value (dictGetDefined_mem hg).1
      obtain ⟨cv, hcv, hiff⟩ := coerce_validate_value_full c D tm hW value t [] hwf
      rw [hcv]
      by_cases hund : cv = .undefined
      · subst hund
        refine ⟨_, rfl, by simp, fun k hk => hk, fun _ => Or.inl ?_⟩
        have hne : validateInputValue c tm value t ≠ [] := by
          unfold validateInputValue
          intro h
          exact (hiff.1 h) rfl
        simp only [List.length_append, List.length_map]
        have : 0 < (validateInputValue c tm value t).length := List.length_pos_iff.2 hne
        omega
      · refine ⟨{ st with sources := st.sources ++ [(d.name, VarSource.mk t d.default value)],
                          coerced := st.coerced ++ [(d.name, cv)] }, ?_, by simp, ?_, fun _ => Or.inr ?_⟩
        · cases cv <;> simp_all
        · intro k hk; simp only [keys, List.map_append, List.mem_append]; exact Or.inl hk
        · simp [keys]

theorem coerceVariables_total (hW : TmWF D tm) (inputs : List (List Nat × PyVal)) (hin : InputsWF inputs)
    (defs : List VarDef) (hd : ∀ d ∈ defs, d.DefaultOK) (st : VarState) :
    ∃ st', coerceVariables c D tm inputs defs st = .ok st' ∧
      st.errors.length ≤ st'.errors.length ∧
      (∀ k ∈ keys st.coerced, k ∈ keys st'.coerced) ∧
      (st'.errors.length = st.errors.length →
        ∀ d ∈ defs, (dictGetDefined inputs d.name ≠ none ∨ d.default ≠ none) → d.name ∈ keys st'.coerced) := by
  induction defs generalizing st with
  | nil => exact ⟨st, rfl, Nat.le_refl _, fun k hk => hk, fun _ d hd' => by simp at hd'⟩
  | cons d ds ih =>
    obtain ⟨st1, h1, hle1, hk1, hp1⟩ := coerceVariable_step c D tm hW inputs hin d (hd d (by simp)) st
    obtain ⟨st2, h2, hle2, hk2, hp2⟩ := ih (fun d' hd' => hd d' (by simp [hd'])) st1
    refine ⟨st2, by simp [coerceVariables, h1, h2], Nat.le_trans hle1 hle2, fun k hk => hk2 k (hk1 k hk), ?_⟩
    intro heq d' hd' hprov
    have e1 : st1.errors.length = st.errors.length := by omega
    have e2 : st2.errors.length = st1.errors.length := by omega
    simp only [List.mem_cons] at hd'
    rcases hd' with rfl | hd'
    · rcases hp1 hprov with h | h
      · omega
      · exact hk2 _ h
    · exact hp2 e2 d' hd' hprov

/-- `get_variable_values` never raises and returns a non-empty error list, or variable values
containing every variable that was provided or has a default. -/
theorem getVariableValues_total (hW : TmWF D tm) (defs : List VarDef) (inputs : List (List Nat × PyVal))
    (hin : InputsWF inputs) (hd : ∀ d ∈ defs, d.DefaultOK) :
    (∃ errs, getVariableValues c D tm defs inputs = .ok (.inl errs) ∧ errs ≠ []) ∨
    (∃ vv, getVariableValues c D tm defs inputs = .ok (.inr vv) ∧
      ∀ d ∈ defs, (dictGetDefined inputs d.name ≠ none ∨ d.default ≠ none) →
        ∃ cv, PyVal.dictGet vv.coerced d.name = some cv) := by
  obtain ⟨st, hst, _, _, hp⟩ := coerceVariables_total c D tm hW inputs hin defs hd {}
  unfold getVariableValues
  rw [hst]
  by_cases he : st.errors.isEmpty = true
  · right
    refine ⟨⟨st.sources, st.coerced⟩, by simp [he], ?_⟩
    intro d hd' hprov
    have : st.errors.length = ({} : VarState).errors.length := by
      have := List.isEmpty_iff.1 he
      simp [this]
    exact dictGet_of_key (hp this d hd' hprov)
  · left
    refine ⟨st.errors, by simp [he], ?_⟩
    intro h; rw [h] at he; simp at he

end
end Gql.Values
