import Gql.Proofs.SpecLex
import Gql.Proofs.LexerBlock
/-!
# Locality of the grammar's recognisers

A match of length `n` at the head of `t ++ x` with `n = |t|` is still the match at the head of
`t ++ y` whenever `y` starts with a code point that is *compatible* with the token (cannot
extend it): the lemma behind prefix stability of `ignored_invariance` and behind `strip_tokens`.
-/
open Gql Gql.Text
namespace Gql.Spec.Lex

/-- The first code point of `y`, if any, satisfies `P`. -/
def HeadAll (P : Nat → Prop) : List Nat → Prop
  | [] => True
  | c :: _ => P c

theorem headAll_cons {P : Nat → Prop} {c : Nat} {r : List Nat} (h : HeadAll P (c :: r)) : P c := h

theorem digitsLen_append (u x y : List Nat) (h : digitsLen (u ++ x) ≤ u.length)
    (hy : HeadAll (fun c => ¬ Digit c) y) : digitsLen (u ++ y) = digitsLen (u ++ x) := by
  induction u with
  | nil =>
    simp only [List.nil_append, List.length_nil] at h ⊢
    cases y with
    | nil => simp [digitsLen]; omega
    | cons c r => simp only [digitsLen]; rw [if_neg (headAll_cons hy)]; omega
  | cons a u ih =>
    simp only [List.cons_append, digitsLen, List.length_cons] at h ⊢
    by_cases ha : Digit a
    · simp only [if_pos ha] at h ⊢; rw [ih (by omega)]
    · simp only [if_neg ha]

theorem nameContinueLen_append (u x y : List Nat) (h : nameContinueLen (u ++ x) ≤ u.length)
    (hy : HeadAll (fun c => ¬ NameContinue c) y) : nameContinueLen (u ++ y) = nameContinueLen (u ++ x) := by
  induction u with
  | nil =>
    simp only [List.nil_append, List.length_nil] at h ⊢
    cases y with
    | nil => simp [nameContinueLen]; omega
    | cons c r => simp only [nameContinueLen]; rw [if_neg (headAll_cons hy)]; omega
  | cons a u ih =>
    simp only [List.cons_append, nameContinueLen, List.length_cons] at h ⊢
    by_cases ha : NameContinue a
    · simp only [if_pos ha] at h ⊢; rw [ih (by omega)]
    · simp only [if_neg ha]

/-- `hexDigitsLen` when the run ends strictly inside `u`. -/
theorem hexDigitsLen_append (u x y : List Nat) (h : hexDigitsLen (u ++ x) < u.length) :
    hexDigitsLen (u ++ y) = hexDigitsLen (u ++ x) := by
  induction u with
  | nil => simp at h
  | cons a u ih =>
    simp only [List.cons_append, hexDigitsLen, List.length_cons] at h ⊢
    by_cases ha : HexDigit a
    · simp only [if_pos ha] at h ⊢; rw [ih (by omega)]
    · simp only [if_neg ha]

theorem commentCharsLen_cons (a : Nat) (r : List Nat) :
    commentCharsLen (a :: r) =
      if LineTerm a then 0
      else if Scalar a then commentCharsLen r + 1
      else match r with
        | d :: rest' => if LeadSurrogate a ∧ TrailSurrogate d then commentCharsLen rest' + 2 else 0
        | [] => 0 := by
  rw [commentCharsLen.eq_def]
  all_goals rfl

theorem lineTerm_not_trail {c : Nat} (h : LineTerm c) : ¬ TrailSurrogate c := by
  unfold LineTerm at h; unfold TrailSurrogate; omega

theorem commentCharsLen_append : ∀ (u x y : List Nat), commentCharsLen (u ++ x) ≤ u.length →
    HeadAll LineTerm y → commentCharsLen (u ++ y) = commentCharsLen (u ++ x)
  | [], x, y, h, hy => by
    simp only [List.nil_append, List.length_nil] at h ⊢
    cases y with
    | nil => simp [commentCharsLen]; omega
    | cons c r => rw [commentCharsLen_cons, if_pos (headAll_cons hy)]; omega
  | [a], x, y, h, hy => by
    simp only [List.cons_append, List.nil_append, List.length_cons, List.length_nil] at h ⊢
    rw [commentCharsLen_cons] at h ⊢
    rw [commentCharsLen_cons a x]
    by_cases hlt : LineTerm a
    · simp only [if_pos hlt]
    · simp only [if_neg hlt] at h ⊢
      by_cases hs : Scalar a
      · simp only [if_pos hs] at h ⊢
        have := commentCharsLen_append [] x y (by simpa using (by omega : commentCharsLen x ≤ 0)) hy
        simpa using this
      · simp only [if_neg hs] at h ⊢
        have hx : (match x with
            | d :: rest' => if LeadSurrogate a ∧ TrailSurrogate d then commentCharsLen rest' + 2 else 0
            | [] => 0) = 0 := by
          cases x with
          | nil => rfl
          | cons d r =>
            simp only [] at h ⊢
            by_cases hp : LeadSurrogate a ∧ TrailSurrogate d
            · rw [if_pos hp] at h; omega
            · rw [if_neg hp]
        rw [hx]
        cases y with
        | nil => rfl
        | cons d r =>
          simp only []
          rw [if_neg]; intro hp; exact lineTerm_not_trail (headAll_cons hy) hp.2
  | a :: d :: u, x, y, h, hy => by
    simp only [List.cons_append, List.length_cons] at h ⊢
    rw [commentCharsLen_cons] at h ⊢
    rw [commentCharsLen_cons a (d :: (u ++ x))]
    by_cases hlt : LineTerm a
    · simp only [if_pos hlt]
    · simp only [if_neg hlt] at h ⊢
      by_cases hs : Scalar a
      · simp only [if_pos hs] at h ⊢
        have := commentCharsLen_append (d :: u) x y (by simp only [List.cons_append, List.length_cons]; omega) hy
        simp only [List.cons_append] at this
        rw [this]
      · simp only [if_neg hs] at h ⊢
        by_cases hp : LeadSurrogate a ∧ TrailSurrogate d
        · simp only [if_pos hp] at h ⊢
          rw [commentCharsLen_append u x y (by omega) hy]
        · simp only [if_neg hp]

/-- `y` may follow the token text `t` without changing how `t` is lexed. -/
def Compat (t y : List Nat) : Prop :=
  match t with
  | [] => True
  | c :: _ => HeadAll (fun d => (NameStart c → ¬ NameContinue d) ∧
      ((Digit c ∨ c = 45) → ¬ Digit d ∧ d ≠ 46 ∧ ¬ NameStart d) ∧
      (c = 34 → t.length = 2 → d ≠ 34)) y

theorem match_eq {m : Match} {k : Kind} {n : Nat} {v : Option (List Nat)} (h : some m = some (Match.mk k n v)) :
    m.len = n := by cases h; rfl

/-! ### Name -/

theorem name?_stable (c : Nat) (t' x y : List Nat) (m : Match) (hc : NameStart c)
    (h : name? (c :: t' ++ x) = some m) (hl : m.len = (c :: t').length)
    (hy : HeadAll (fun d => ¬ NameContinue d) y) : name? (c :: t' ++ y) = some m := by
  simp only [List.cons_append, name?] at h ⊢
  rw [if_pos hc] at h ⊢
  simp only [Option.some.injEq] at h
  subst h
  simp only [List.length_cons] at hl
  have hn := nameContinueLen_append t' x y (by omega) hy
  simp only [Option.some.injEq, Match.mk.injEq, true_and]
  rw [hn]
  refine ⟨rfl, ?_⟩
  have e : 1 + nameContinueLen (t' ++ x) = (c :: t').length := by simp only [List.length_cons]; omega
  rw [e]
  have h1 : (c :: (t' ++ y)).take (c :: t').length = c :: t' := by
    rw [← List.cons_append, List.take_left']; rfl
  have h2 : (c :: (t' ++ x)).take (c :: t').length = c :: t' := by
    rw [← List.cons_append, List.take_left']; rfl
  rw [h1, h2]

theorem name?_compat (c : Nat) (t' x : List Nat) (m : Match) (hc : NameStart c)
    (h : name? (c :: t' ++ x) = some m) (hl : m.len = (c :: t').length) :
    HeadAll (fun d => ¬ NameContinue d) x := by
  simp only [List.cons_append, name?] at h
  rw [if_pos hc] at h
  simp only [Option.some.injEq] at h
  subst h
  simp only [List.length_cons] at hl
  have hl' : nameContinueLen (t' ++ x) = t'.length := by omega
  clear hl
  induction t' with
  | nil =>
    simp only [List.nil_append, List.length_nil] at hl'
    cases x with
    | nil => trivial
    | cons d r =>
      simp only [nameContinueLen] at hl'
      show ¬ NameContinue d
      intro hd; rw [if_pos hd] at hl'; omega
  | cons a u ih =>
    simp only [List.cons_append, nameContinueLen, List.length_cons] at hl'
    by_cases ha : NameContinue a
    · rw [if_pos ha] at hl'; exact ih (by omega)
    · rw [if_neg ha] at hl'; omega

/-! ### Numbers -/

/-- What may follow a number. -/
def NumTerm (d : Nat) : Prop := ¬ Digit d ∧ d ≠ 46 ∧ ¬ NameStart d

theorem headAll_mono {P Q : Nat → Prop} {y : List Nat} (h : HeadAll P y) (hpq : ∀ d, P d → Q d) :
    HeadAll Q y := by
  cases y with
  | nil => trivial
  | cons c r => exact hpq c h

theorem digits1?_append (u x y : List Nat) (j : Nat) (h : digits1? (u ++ x) = some j) (hj : j ≤ u.length)
    (hy : HeadAll (fun d => ¬ Digit d) y) : digits1? (u ++ y) = some j := by
  unfold digits1? at h ⊢
  split at h
  · simp at h
  · simp only [Option.some.injEq] at h
    rw [digitsLen_append u x y (by omega) hy]
    rename_i h0
    rw [if_neg h0, h]

theorem unsignedIntegerPart?_append (u x y : List Nat) (j : Nat)
    (h : unsignedIntegerPart? (u ++ x) = some j) (hj : j ≤ u.length)
    (hy : HeadAll (fun d => ¬ Digit d) y) : unsignedIntegerPart? (u ++ y) = some j := by
  cases u with
  | nil =>
    simp only [List.nil_append, List.length_nil] at h hj
    cases x with
    | nil => simp [unsignedIntegerPart?] at h
    | cons a r =>
      simp only [unsignedIntegerPart?] at h
      split at h
      · simp at h; omega
      · split at h
        · simp at h; omega
        · simp at h
  | cons a u' =>
    simp only [List.cons_append, unsignedIntegerPart?, List.length_cons] at h hj ⊢
    by_cases h48 : a = 48
    · simp only [if_pos h48] at h ⊢; exact h
    · simp only [if_neg h48] at h ⊢
      by_cases hnz : NonZeroDigit a
      · simp only [if_pos hnz, Option.some.injEq] at h ⊢
        rw [digitsLen_append u' x y (by omega) hy]; exact h
      · simp only [if_neg hnz] at h; simp at h

theorem integerPart?_append (u x y : List Nat) (j : Nat)
    (h : integerPart? (u ++ x) = some j) (hj : j ≤ u.length)
    (hy : HeadAll (fun d => ¬ Digit d) y) : integerPart? (u ++ y) = some j := by
  cases u with
  | nil =>
    simp only [List.nil_append, List.length_nil] at h hj
    have hj0 : j = 0 := by omega
    subst hj0
    cases x with
    | nil => simp [integerPart?] at h
    | cons a r =>
      simp only [integerPart?] at h
      split at h
      · cases hu : unsignedIntegerPart? r with
        | none => rw [hu] at h; simp at h
        | some k => rw [hu] at h; simp at h
      · have := unsignedIntegerPart?_append [] (a :: r) y 0 (by simpa using h) (by simp) hy
        simp only [List.nil_append] at this
        cases y with
        | nil => simp [unsignedIntegerPart?] at this
        | cons b r' =>
          simp only [unsignedIntegerPart?] at this
          split at this
          · simp at this
          · split at this <;> simp at this
  | cons a u' =>
    simp only [List.cons_append, integerPart?, List.length_cons] at h hj ⊢
    by_cases h45 : a = 45
    · simp only [if_pos h45] at h ⊢
      cases hu : unsignedIntegerPart? (u' ++ x) with
      | none => rw [hu] at h; simp at h
      | some k =>
        rw [hu] at h
        simp only [Option.map_some, Option.some.injEq] at h
        rw [unsignedIntegerPart?_append u' x y k hu (by omega) hy]
        simp [h]
    · simp only [if_neg h45] at h ⊢
      have := unsignedIntegerPart?_append (a :: u') x y j (by simpa using h) (by simpa using hj) hy
      simpa using this

theorem fractionalPart?_append (u x y : List Nat) (j : Nat)
    (h : fractionalPart? (u ++ x) = some j) (hj : j ≤ u.length)
    (hy : HeadAll (fun d => ¬ Digit d) y) : fractionalPart? (u ++ y) = some j := by
  cases u with
  | nil =>
    simp only [List.nil_append, List.length_nil] at h hj
    have hj0 : j = 0 := by omega
    subst hj0
    cases x with
    | nil => simp [fractionalPart?] at h
    | cons a r =>
      simp only [fractionalPart?] at h
      split at h
      · cases hd : digits1? r with
        | none => rw [hd] at h; simp at h
        | some k => rw [hd] at h; simp at h
      · simp at h
  | cons a u' =>
    simp only [List.cons_append, fractionalPart?, List.length_cons] at h hj ⊢
    by_cases h46 : a = 46
    · simp only [if_pos h46] at h ⊢
      cases hd : digits1? (u' ++ x) with
      | none => rw [hd] at h; simp at h
      | some k =>
        rw [hd] at h
        simp only [Option.map_some, Option.some.injEq] at h
        rw [digits1?_append u' x y k hd (by omega) hy]
        simp [h]
    · simp only [if_neg h46] at h; simp at h

theorem exponentPart?_append (u x y : List Nat) (j : Nat)
    (h : exponentPart? (u ++ x) = some j) (hj : j ≤ u.length)
    (hy : HeadAll (fun d => ¬ Digit d) y) : exponentPart? (u ++ y) = some j := by
  -- an exponent part has at least two code points
  have hge : ∀ s k, exponentPart? s = some k → 2 ≤ k := by
    intro s k hk
    cases s with
    | nil => simp [exponentPart?] at hk
    | cons e r =>
      simp only [exponentPart?] at hk
      split at hk
      · cases r with
        | nil => simp at hk
        | cons c r' =>
          simp only [] at hk
          split at hk
          · cases hd : digits1? r' with
            | none => rw [hd] at hk; simp at hk
            | some d => rw [hd] at hk; simp at hk; omega
          · cases hd : digits1? (c :: r') with
            | none => rw [hd] at hk; simp at hk
            | some d =>
              rw [hd] at hk; simp at hk
              have : 0 < d := by
                unfold digits1? at hd; split at hd <;> simp at hd; omega
              omega
      · simp at hk
  have h2 := hge _ _ h
  match u, hj with
  | e :: c :: u'', hj =>
    simp only [List.cons_append, exponentPart?, List.length_cons] at h hj ⊢
    by_cases he : e = 69 ∨ e = 101
    · simp only [if_pos he] at h ⊢
      by_cases hs : c = 43 ∨ c = 45
      · simp only [if_pos hs] at h ⊢
        cases hd : digits1? (u'' ++ x) with
        | none => rw [hd] at h; simp at h
        | some k =>
          rw [hd] at h
          simp only [Option.map_some, Option.some.injEq] at h
          rw [digits1?_append u'' x y k hd (by omega) hy]
          simp [h]
      · simp only [if_neg hs] at h ⊢
        cases hd : digits1? (c :: (u'' ++ x)) with
        | none => rw [hd] at h; simp at h
        | some k =>
          rw [hd] at h
          simp only [Option.map_some, Option.some.injEq] at h
          have := digits1?_append (c :: u'') x y k (by simpa using hd) (by simp; omega) hy
          simp only [List.cons_append] at this
          rw [this]; simp [h]
    · simp only [if_neg he] at h; simp at h
  | [e], hj => simp at hj; omega
  | [], hj => simp at hj; omega

theorem mem_expCandidates (z : List Nat) (j : Nat) (fl' fl : Bool) (n : Nat) :
    (fl, n) ∈ expCandidates z j fl' ↔
      (numberLookaheadOk z = true ∧ fl = fl' ∧ n = j) ∨
      (∃ e, exponentPart? z = some e ∧ numberLookaheadOk (z.drop e) = true ∧ fl = true ∧ n = j + e) := by
  unfold expCandidates
  rw [List.mem_append]
  constructor
  · rintro (h | h)
    · left
      split at h
      · rename_i hl; simp at h; exact ⟨hl, h.1, h.2⟩
      · simp at h
    · right
      cases he : exponentPart? z with
      | none => rw [he] at h; simp at h
      | some e =>
        rw [he] at h; simp only [] at h
        split at h
        · rename_i hl; simp at h; exact ⟨e, rfl, hl, h.1, h.2⟩
        · simp at h
  · rintro (⟨hl, h1, h2⟩ | ⟨e, he, hl, h1, h2⟩)
    · left; rw [if_pos hl]; simp [h1, h2]
    · right; rw [he]; simp only []; rw [if_pos hl]; simp [h1, h2]

theorem numberLookaheadOk_of (y : List Nat) (h : HeadAll NumTerm y) : numberLookaheadOk y = true := by
  cases y with
  | nil => rfl
  | cons c r =>
    have hc : NumTerm c := h
    simp [numberLookaheadOk, hc.1, hc.2.1, hc.2.2]

theorem headAll_of_lookahead (y : List Nat) (h : numberLookaheadOk y = true) : HeadAll NumTerm y := by
  cases y with
  | nil => trivial
  | cons c r =>
    simp [numberLookaheadOk] at h
    exact ⟨h.1, h.2.1, h.2.2⟩

/-- Transfer of a candidate of `expCandidates` ending exactly at the end of `w`. -/
theorem expCandidates_append (w x y : List Nat) (j : Nat) (fl' fl : Bool)
    (h : (fl, j + w.length) ∈ expCandidates (w ++ x) j fl') (hy : HeadAll NumTerm y) :
    (fl, j + w.length) ∈ expCandidates (w ++ y) j fl' := by
  rw [mem_expCandidates] at h ⊢
  have hyd : HeadAll (fun d => ¬ Digit d) y := headAll_mono hy (fun d hd => hd.1)
  rcases h with ⟨hl, h1, h2⟩ | ⟨e, he, hl, h1, h2⟩
  · left
    have : w = [] := by
      have : w.length = 0 := by omega
      exact List.eq_nil_of_length_eq_zero this
    subst this
    exact ⟨numberLookaheadOk_of y hy, h1, h2⟩
  · right
    have hew : e = w.length := by omega
    refine ⟨e, exponentPart?_append w x y e he (by omega) hyd, ?_, h1, h2⟩
    rw [hew, List.drop_left']; exact numberLookaheadOk_of y hy; rfl

theorem mem_numberCandidates (s : List Nat) (fl : Bool) (n : Nat) :
    (fl, n) ∈ numberCandidates s ↔
      ∃ i, integerPart? s = some i ∧
        ((fl, n) ∈ expCandidates (s.drop i) i false ∨
         ∃ f, fractionalPart? (s.drop i) = some f ∧ (fl, n) ∈ expCandidates (s.drop (i + f)) (i + f) true) := by
  unfold numberCandidates
  cases hi : integerPart? s with
  | none => simp
  | some i =>
    simp only [List.mem_append, Option.some.injEq, exists_eq_left']
    cases hf : fractionalPart? (s.drop i) with
    | none => simp
    | some f => simp

/-- A candidate that ends exactly at the end of `t` is still a candidate when the continuation
is replaced by one that cannot extend a number. -/
theorem numberCandidates_append (t x y : List Nat) (fl : Bool)
    (h : (fl, t.length) ∈ numberCandidates (t ++ x)) (hy : HeadAll NumTerm y) :
    (fl, t.length) ∈ numberCandidates (t ++ y) := by
  rw [mem_numberCandidates] at h ⊢
  have hyd : HeadAll (fun d => ¬ Digit d) y := headAll_mono hy (fun d hd => hd.1)
  obtain ⟨i, hi, hc⟩ := h
  -- lengths: every candidate built on `i` has length at least `i`
  have hlen : ∀ z j fl' fl n, (fl, n) ∈ expCandidates z j fl' → j ≤ n := by
    intro z j fl' fl n hm
    rw [mem_expCandidates] at hm
    rcases hm with ⟨_, _, h2⟩ | ⟨e, _, _, _, h2⟩ <;> omega
  rcases hc with hc | ⟨f, hf, hc⟩
  · have hin : i ≤ t.length := hlen _ _ _ _ _ hc
    refine ⟨i, integerPart?_append t x y i hi hin hyd, Or.inl ?_⟩
    rw [List.drop_append_of_le_length hin] at hc ⊢
    have e : t.length = i + (t.drop i).length := by simp; omega
    rw [e] at hc ⊢
    exact expCandidates_append _ x y i false fl hc hy
  · have hin : i + f ≤ t.length := hlen _ _ _ _ _ hc
    have hi' : i ≤ t.length := by omega
    refine ⟨i, integerPart?_append t x y i hi hi' hyd, Or.inr ⟨f, ?_, ?_⟩⟩
    · rw [List.drop_append_of_le_length hi'] at hf ⊢
      exact fractionalPart?_append _ x y f hf (by simp; omega) hyd
    · rw [List.drop_append_of_le_length hin] at hc ⊢
      have e : t.length = (i + f) + (t.drop (i + f)).length := by simp; omega
      rw [e] at hc ⊢
      exact expCandidates_append _ x y (i + f) true fl hc hy

/-- Every candidate carries its lookahead restriction. -/
theorem numberCandidates_lookahead (s : List Nat) (fl : Bool) (n : Nat)
    (h : (fl, n) ∈ numberCandidates s) : numberLookaheadOk (s.drop n) = true := by
  rw [mem_numberCandidates] at h
  obtain ⟨i, _, hc⟩ := h
  rcases hc with hc | ⟨f, _, hc⟩
  · rw [mem_expCandidates] at hc
    rcases hc with ⟨hl, _, h2⟩ | ⟨e, _, hl, _, h2⟩
    · rw [h2]; exact hl
    · rw [h2, ← List.drop_drop]; exact hl
  · rw [mem_expCandidates] at hc
    rcases hc with ⟨hl, _, h2⟩ | ⟨e, _, hl, _, h2⟩
    · rw [h2]; exact hl
    · rw [h2, ← List.drop_drop]; exact hl

/-- The candidate list never has more than one element (from the lexer model: `read_number`
returns exactly one token or fails). -/
theorem numberCandidates_single (s : List Nat) :
    numberCandidates s = [] ∨ ∃ c, numberCandidates s = [c] := by
  cases s with
  | nil => left; rfl
  | cons a r =>
    have := Gql.Text.readNumber_agree (a :: r) {} 0 (by simp)
    simp only [List.drop_zero] at this
    cases hr : Gql.Text.readNumber (a :: r) {} 0 (a :: r)[0] with
    | ok t =>
      rw [hr] at this
      obtain ⟨fl, n, hc, _, _⟩ := this
      exact Or.inr ⟨_, hc⟩
    | err e => rw [hr] at this; exact Or.inl this
    | crash c => rw [hr] at this; exact this.elim

theorem number?_some (s : List Nat) (m : Match) (h : number? s = some m) :
    ∃ fl, numberCandidates s = [(fl, m.len)] ∧
      m = ⟨if fl then .float else .int, m.len, some (s.take m.len)⟩ := by
  unfold number? at h
  rcases numberCandidates_single s with hc | ⟨⟨fl, n⟩, hc⟩
  · rw [hc] at h; simp [longest] at h
  · rw [hc] at h
    simp only [longest] at h
    simp only [Option.some.injEq] at h
    subst h
    exact ⟨fl, hc, rfl⟩

theorem number?_stable (t x y : List Nat) (m : Match) (h : number? (t ++ x) = some m)
    (hl : m.len = t.length) (hy : HeadAll NumTerm y) : number? (t ++ y) = some m := by
  obtain ⟨fl, hc, hm⟩ := number?_some _ m h
  have hmem : (fl, t.length) ∈ numberCandidates (t ++ x) := by rw [hc, hl]; simp
  have hmem' := numberCandidates_append t x y fl hmem hy
  have hc' : numberCandidates (t ++ y) = [(fl, t.length)] := by
    rcases numberCandidates_single (t ++ y) with h0 | ⟨c, h1⟩
    · rw [h0] at hmem'; simp at hmem'
    · rw [h1] at hmem' ⊢; simp at hmem'; rw [hmem']
  unfold number?
  rw [hc']
  simp only [longest]
  rw [hm, hl]
  simp only [List.take_left']

theorem number?_compat (t x : List Nat) (m : Match) (h : number? (t ++ x) = some m)
    (hl : m.len = t.length) : HeadAll NumTerm x := by
  obtain ⟨fl, hc, _⟩ := number?_some _ m h
  have hmem : (fl, t.length) ∈ numberCandidates (t ++ x) := by rw [hc, hl]; simp
  have := numberCandidates_lookahead _ _ _ hmem
  rw [List.drop_left'] at this
  · exact headAll_of_lookahead x this
  · rfl

/-! ### Strings -/

theorem take_app (u x : List Nat) (j : Nat) (h : j ≤ u.length) : (u ++ x).take j = u.take j :=
  List.take_append_of_le_length h

theorem drop_app (u x : List Nat) (j : Nat) (h : j ≤ u.length) : (u ++ x).drop j = u.drop j ++ x :=
  List.drop_append_of_le_length h

theorem hex4?_take (s : List Nat) : hex4? s = hex4? (s.take 4) := by
  match s with
  | [] | [_] | [_, _] | [_, _, _] => rfl
  | a :: b :: c :: d :: r => simp [hex4?]

theorem hex4?_append (u x y : List Nat) (h : 4 ≤ u.length) : hex4? (u ++ x) = hex4? (u ++ y) := by
  rw [hex4?_take (u ++ x), hex4?_take (u ++ y), take_app _ _ _ h, take_app _ _ _ h]

theorem escapedUnicodeFixed?_append (u x y : List Nat) (k : Nat) (v : List Nat)
    (h : escapedUnicodeFixed? (u ++ x) = some (k, v)) (hk : k ≤ u.length + 2) :
    escapedUnicodeFixed? (u ++ y) = some (k, v) := by
  unfold escapedUnicodeFixed? at h ⊢
  cases hc : hex4? (u ++ x) with
  | none => rw [hc] at h; simp at h
  | some code =>
    rw [hc] at h
    simp only [] at h
    by_cases hs : Scalar code
    · rw [if_pos hs] at h
      simp only [Option.some.injEq, Prod.mk.injEq] at h
      have h4 : 4 ≤ u.length := by omega
      rw [← hex4?_append u x y h4, hc]
      simp only []
      rw [if_pos hs]; simp [h]
    · rw [if_neg hs] at h
      split at h
      · rename_i hl
        cases ht : hex4? ((u ++ x).drop 6) with
        | none => rw [ht] at h; simp at h
        | some trail =>
          rw [ht] at h
          simp only [] at h
          split at h
          · rename_i htr
            simp only [Option.some.injEq, Prod.mk.injEq] at h
            have h10 : 10 ≤ u.length := by omega
            rw [← hex4?_append u x y (by omega), hc]
            simp only []
            rw [if_neg hs]
            have e1 : ((u ++ y).drop 4).take 2 = ((u ++ x).drop 4).take 2 := by
              rw [drop_app _ _ _ (by omega), drop_app _ _ _ (by omega),
                take_app _ _ _ (by simp; omega), take_app _ _ _ (by simp; omega)]
            have e2 : hex4? ((u ++ y).drop 6) = hex4? ((u ++ x).drop 6) := by
              rw [drop_app _ _ _ (by omega), drop_app _ _ _ (by omega)]
              exact hex4?_append _ y x (by simp; omega)
            rw [e1, if_pos hl, e2, ht]
            simp only []
            rw [if_pos htr]; simp [h]
          · simp at h
      · simp at h

theorem escapedUnicodeBraced?_append (u x y : List Nat) (k : Nat) (v : List Nat)
    (h : escapedUnicodeBraced? (u ++ x) = some (k, v)) (hk : k ≤ u.length + 3) :
    escapedUnicodeBraced? (u ++ y) = some (k, v) := by
  unfold escapedUnicodeBraced? at h ⊢
  simp only [] at h ⊢
  split at h
  · rename_i hc
    simp only [Option.some.injEq, Prod.mk.injEq] at h
    have hn : hexDigitsLen (u ++ x) < u.length := by omega
    have e := hexDigitsLen_append u x y hn
    rw [e]
    have e1 : ((u ++ y).drop (hexDigitsLen (u ++ x))).head? = ((u ++ x).drop (hexDigitsLen (u ++ x))).head? := by
      rw [drop_app _ _ _ (by omega), drop_app _ _ _ (by omega)]
      have : u.drop (hexDigitsLen (u ++ x)) ≠ [] := by
        intro hh
        have := congrArg List.length hh
        simp at this; omega
      cases hd : u.drop (hexDigitsLen (u ++ x)) with
      | nil => exact absurd hd this
      | cons a r => rfl
    have e2 : (u ++ y).take (hexDigitsLen (u ++ x)) = (u ++ x).take (hexDigitsLen (u ++ x)) := by
      rw [take_app _ _ _ (by omega), take_app _ _ _ (by omega)]
    rw [e1, e2, if_pos hc]
    simp [h]
  · simp at h

theorem sourceCharLen_append (u x y : List Nat) (k : Nat) (h : sourceCharLen (u ++ x) = some k)
    (hk : k ≤ u.length) : sourceCharLen (u ++ y) = some k := by
  match u, hk with
  | [], hk =>
    simp only [List.length_nil] at hk
    have : k = 0 := by omega
    subst this
    cases x with
    | nil => simp [sourceCharLen] at h
    | cons a r =>
      simp only [List.nil_append, sourceCharLen] at h
      split at h
      · simp at h
      · cases r with
        | nil => simp at h
        | cons d r' => simp only [] at h; split at h <;> simp at h
  | [a], hk =>
    simp only [List.cons_append, List.nil_append, sourceCharLen, List.length_cons, List.length_nil] at h hk ⊢
    by_cases hs : Scalar a
    · simp only [if_pos hs] at h ⊢; exact h
    · simp only [if_neg hs] at h
      cases x with
      | nil => simp at h
      | cons d r => simp only [] at h; split at h <;> simp at h; omega
  | a :: d :: u', hk =>
    simp only [List.cons_append, sourceCharLen] at h ⊢
    exact h

theorem stringCharacter?_append (u x y : List Nat) (k : Nat) (v : List Nat)
    (h : stringCharacter? (u ++ x) = some (k, v)) (hk : k ≤ u.length) :
    stringCharacter? (u ++ y) = some (k, v) := by
  have hpos := Gql.Text.stringCharacter?_pos h
  match u, hk with
  | [], hk => simp at hk; omega
  | c :: u', hk =>
    simp only [List.cons_append, stringCharacter?, List.length_cons] at h hk ⊢
    by_cases h92 : c = 92
    · simp only [if_pos h92] at h ⊢
      match u', hk with
      | [], hk =>
        -- an escape has at least two code points
        simp only [List.nil_append, List.length_nil] at h hk
        have hk1 : k = 1 := by omega
        subst hk1
        cases x with
        | nil => simp at h
        | cons d r =>
          simp only [] at h
          split at h
          · split at h
            · have := Gql.Text.escapedUnicodeBraced?_pos h
              unfold escapedUnicodeBraced? at h
              simp only [] at h
              split at h <;> simp at h
            · unfold escapedUnicodeFixed? at h
              repeat' split at h
              all_goals simp at h
          · split at h <;> simp at h
      | d :: u1, hk =>
        simp only [List.cons_append, List.length_cons] at h hk ⊢
        by_cases h117 : d = 117
        · simp only [if_pos h117] at h ⊢
          by_cases h123 : (u1 ++ x).head? = some 123
          · rw [if_pos h123] at h
            match u1, hk, h123 with
            | [], hk, h123 =>
              -- a braced escape has at least five code points
              simp only [List.nil_append, List.length_nil] at h hk
              unfold escapedUnicodeBraced? at h
              simp only [] at h
              split at h
              · simp at h; omega
              · simp at h
            | b :: u2, hk, h123 =>
              have hb : b = 123 := by simpa using h123
              subst hb
              simp only [List.cons_append, List.tail_cons, List.length_cons] at h hk
              have hg : ((123 :: u2) ++ y).head? = some 123 := rfl
              rw [if_pos hg]
              simp only [List.cons_append, List.tail_cons]
              exact escapedUnicodeBraced?_append u2 x y k v h (by omega)
          · rw [if_neg h123] at h
            have hk6 : 6 ≤ k := by
              unfold escapedUnicodeFixed? at h
              repeat' split at h
              all_goals (simp at h; try omega)
            have h123' : ¬ (u1 ++ y).head? = some 123 := by
              match u1, hk with
              | [], hk => simp at hk; omega
              | b :: u2, _ => simpa using h123
            rw [if_neg h123']
            exact escapedUnicodeFixed?_append u1 x y k v h (by omega)
        · simp only [if_neg h117] at h ⊢
          exact h
    · simp only [if_neg h92] at h ⊢
      by_cases hq : c = 34 ∨ LineTerm c
      · simp only [if_pos hq] at h; simp at h
      · simp only [if_neg hq] at h ⊢
        cases hs : sourceCharLen (c :: (u' ++ x)) with
        | none => rw [hs] at h; simp at h
        | some n =>
          rw [hs] at h
          simp only [Option.some.injEq, Prod.mk.injEq] at h
          have hn : n = k := h.1
          have := sourceCharLen_append (c :: u') x y n (by simpa using hs) (by simp; omega)
          simp only [List.cons_append] at this
          rw [this]
          simp only [Option.some.injEq, Prod.mk.injEq]
          refine ⟨hn, ?_⟩
          rw [← h.2, ← List.cons_append, ← List.cons_append, take_app _ _ _ (by simp; omega),
            take_app _ _ _ (by simp; omega)]

theorem stringRest_append : ∀ (f : Nat) (u x y : List Nat) (n : Nat) (v : List Nat),
    stringRest f (u ++ x) = some (n, v) → n ≤ u.length → ∀ f', n ≤ f' →
    stringRest f' (u ++ y) = some (n, v) := by
  intro f
  induction f with
  | zero =>
    intro u x y n v h hn f' hf'
    by_cases hq : (u ++ x).head? = some 34
    · cases hux : u ++ x with
      | nil => rw [hux] at hq; simp at hq
      | cons a r =>
        rw [hux] at hq h
        have : a = 34 := by simpa using hq
        subst this
        rw [Gql.Text.stringRest_quote] at h
        simp only [Option.some.injEq, Prod.mk.injEq] at h
        obtain ⟨rfl, rfl⟩ := h
        match u, hn, hux with
        | b :: u', _, hux =>
          have : b = 34 := by simp at hux; exact hux.1
          subst this
          exact Gql.Text.stringRest_quote f' _
    · rw [Gql.Text.stringRest_zero _ hq] at h; simp at h
  | succ f0 ih =>
    intro u x y n v h hn f' hf'
    by_cases hq : (u ++ x).head? = some 34
    · cases hux : u ++ x with
      | nil => rw [hux] at hq; simp at hq
      | cons a r =>
        rw [hux] at hq h
        have : a = 34 := by simpa using hq
        subst this
        rw [Gql.Text.stringRest_quote] at h
        simp only [Option.some.injEq, Prod.mk.injEq] at h
        obtain ⟨rfl, rfl⟩ := h
        match u, hn, hux with
        | b :: u', _, hux =>
          have : b = 34 := by simp at hux; exact hux.1
          subst this
          exact Gql.Text.stringRest_quote f' _
    · rw [Gql.Text.stringRest_succ' _ _ hq] at h
      cases hsc : stringCharacter? (u ++ x) with
      | none => rw [hsc] at h; simp at h
      | some kw =>
        obtain ⟨k, w⟩ := kw
        rw [hsc] at h
        simp only [] at h
        cases hr : stringRest f0 ((u ++ x).drop k) with
        | none => rw [hr] at h; simp [Gql.Text.consRest] at h
        | some mw =>
          obtain ⟨m, w2⟩ := mw
          rw [hr] at h
          simp only [Gql.Text.consRest, Option.some.injEq, Prod.mk.injEq] at h
          obtain ⟨hnk, hv⟩ := h
          have hk : k ≤ u.length := by omega
          have hkpos := Gql.Text.stringCharacter?_pos hsc
          have hsc' := stringCharacter?_append u x y k w hsc hk
          rw [drop_app _ _ _ hk] at hr
          have hu : u ≠ [] := by intro hu; subst hu; simp at hk; omega
          have hq' : (u ++ y).head? ≠ some 34 := by
            match u, hu with
            | b :: u', _ => simpa using hq
          obtain ⟨f'', rfl⟩ : ∃ f'', f' = f'' + 1 := ⟨f' - 1, by omega⟩
          rw [Gql.Text.stringRest_succ' _ _ hq', hsc']
          simp only []
          rw [drop_app _ _ _ hk, ih (u.drop k) x y m w2 hr (by simp; omega) f'' (by omega)]
          simp [Gql.Text.consRest, hnk, hv]

theorem stringRest_ge2 (f : Nat) (s : List Nat) (n : Nat) (v : List Nat) (h : stringRest f s = some (n, v))
    (hq : s.head? ≠ some 34) : 2 ≤ n := by
  cases f with
  | zero => rw [Gql.Text.stringRest_zero _ hq] at h; simp at h
  | succ f0 =>
    rw [Gql.Text.stringRest_succ' _ _ hq] at h
    cases hsc : stringCharacter? s with
    | none => rw [hsc] at h; simp at h
    | some kw =>
      obtain ⟨k, w⟩ := kw
      rw [hsc] at h; simp only [] at h
      cases hr : stringRest f0 (s.drop k) with
      | none => rw [hr] at h; simp [Gql.Text.consRest] at h
      | some mw =>
        obtain ⟨m, w2⟩ := mw
        rw [hr] at h
        simp only [Gql.Text.consRest, Option.some.injEq, Prod.mk.injEq] at h
        have := Gql.Text.stringCharacter?_pos hsc
        have hm : 1 ≤ m := by
          cases f0 with
          | zero =>
            by_cases hq2 : (s.drop k).head? = some 34
            · cases hd : s.drop k with
              | nil => rw [hd] at hq2; simp at hq2
              | cons a r =>
                rw [hd] at hr hq2
                have : a = 34 := by simpa using hq2
                subst this
                rw [Gql.Text.stringRest_quote] at hr; simp at hr; omega
            · rw [Gql.Text.stringRest_zero _ hq2] at hr; simp at hr
          | succ f1 =>
            by_cases hq2 : (s.drop k).head? = some 34
            · cases hd : s.drop k with
              | nil => rw [hd] at hq2; simp at hq2
              | cons a r =>
                rw [hd] at hr hq2
                have : a = 34 := by simpa using hq2
                subst this
                rw [Gql.Text.stringRest_quote] at hr; simp at hr; omega
            · rw [Gql.Text.stringRest_succ' _ _ hq2] at hr
              cases hsc2 : stringCharacter? (s.drop k) with
              | none => rw [hsc2] at hr; simp at hr
              | some kw2 =>
                obtain ⟨k2, w3⟩ := kw2
                rw [hsc2] at hr; simp only [] at hr
                have := Gql.Text.stringCharacter?_pos hsc2
                cases hr2 : stringRest f1 ((s.drop k).drop k2) with
                | none => rw [hr2] at hr; simp [Gql.Text.consRest] at hr
                | some mw2 =>
                  rw [hr2] at hr
                  simp only [Gql.Text.consRest, Option.some.injEq, Prod.mk.injEq] at hr
                  omega
        omega

/-- `string?` on a text that starts with a quote, in terms of `stringRest`. -/
theorem string?_quote (r : List Nat) :
    string? (34 :: r) = if r.take 2 = [34, 34] then none else
      match stringRest r.length r with
      | some (n, v) => some ⟨.string, n + 1, some v⟩
      | none => none := by
  by_cases h : r.take 2 = [34, 34]
  · rw [if_pos h]
    match r, h with
    | a :: b :: r', h =>
      simp at h; obtain ⟨rfl, rfl⟩ := h; rfl
  · rw [if_neg h]; exact Gql.Text.string?_not_triple r h

theorem string?_stable (t' x y : List Nat) (m : Match) (h : string? (34 :: t' ++ x) = some m)
    (hl : m.len = (34 :: t').length)
    (hy : t'.length = 1 → HeadAll (fun d => d ≠ 34) y) : string? (34 :: t' ++ y) = some m := by
  simp only [List.cons_append] at h ⊢
  rw [string?_quote] at h ⊢
  by_cases htr : (t' ++ x).take 2 = [34, 34]
  · rw [if_pos htr] at h; simp at h
  · rw [if_neg htr] at h
    cases hsr : stringRest (t' ++ x).length (t' ++ x) with
    | none => rw [hsr] at h; simp at h
    | some nv =>
      obtain ⟨n, v⟩ := nv
      rw [hsr] at h
      simp only [Option.some.injEq] at h
      subst h
      simp only [List.length_cons] at hl
      have hn : n = t'.length := by omega
      have hsr' := stringRest_append _ t' x y n v hsr (by omega) (t' ++ y).length (by simp; omega)
      have htr' : ¬ (t' ++ y).take 2 = [34, 34] := by
        by_cases h2 : 2 ≤ t'.length
        · rw [take_app _ _ _ h2]; rw [take_app _ _ _ h2] at htr; exact htr
        · -- the empty string `""`: the closing quote is all of `t'`
          have hq : (t' ++ x).head? = some 34 := by
            by_cases hq : (t' ++ x).head? = some 34
            · exact hq
            · have := stringRest_ge2 _ _ n v hsr hq
              omega
          match t', hn, hq with
          | [], hn, _ =>
            simp at hn; subst hn
            by_cases hq0 : x.head? = some 34
            · cases x with
              | nil => simp at hq0
              | cons a r =>
                have : a = 34 := by simpa using hq0
                subst this
                rw [List.nil_append, Gql.Text.stringRest_quote] at hsr; simp at hsr
            · have := stringRest_ge2 _ _ 0 v (by simpa using hsr) hq0; omega
          | [a], hn, hq =>
            have ha : a = 34 := by simpa using hq
            subst ha
            have hy' := hy rfl
            cases y with
            | nil => simp
            | cons d r => simp; exact hy'
          | a :: b :: r, _, _ => simp at h2
      rw [if_neg htr', hsr']

theorem string?_compat (t' x : List Nat) (m : Match) (h : string? (34 :: t' ++ x) = some m)
    (hl : m.len = (34 :: t').length) : t'.length = 1 → HeadAll (fun d => d ≠ 34) x := by
  intro h1
  simp only [List.cons_append] at h
  rw [string?_quote] at h
  by_cases htr : (t' ++ x).take 2 = [34, 34]
  · rw [if_pos htr] at h; simp at h
  · rw [if_neg htr] at h
    cases hsr : stringRest (t' ++ x).length (t' ++ x) with
    | none => rw [hsr] at h; simp at h
    | some nv =>
      obtain ⟨n, v⟩ := nv
      rw [hsr] at h
      simp only [Option.some.injEq] at h
      subst h
      simp only [List.length_cons] at hl
      match t', h1 with
      | [a], _ =>
        have hq : ([a] ++ x).head? = some 34 := by
          by_cases hq : ([a] ++ x).head? = some 34
          · exact hq
          · have := stringRest_ge2 _ _ n v hsr hq
            simp at hl; omega
        have ha : a = 34 := by simpa using hq
        subst ha
        cases x with
        | nil => trivial
        | cons d r =>
          show d ≠ 34
          intro hd; subst hd; simp at htr

/-! ### Block strings -/

theorem sourceCharLen_pos {s : List Nat} {k : Nat} (h : sourceCharLen s = some k) : 1 ≤ k ∧ k ≤ 2 := by
  unfold sourceCharLen at h
  repeat' split at h
  all_goals (simp at h; try omega)

theorem blockRest_ge3 : ∀ (f : Nat) (s : List Nat) (n : Nat) (raw : List Nat),
    blockRest f s = some (n, raw) → 3 ≤ n := by
  intro f
  induction f with
  | zero => intro s n raw h; simp [blockRest] at h
  | succ f0 ih =>
    intro s n raw h
    rw [Gql.Text.blockRest_succ] at h
    split at h
    · simp at h; omega
    · split at h
      · cases hr : blockRest f0 (s.drop 4) with
        | none => rw [hr] at h; simp [Gql.Text.consB] at h
        | some mw =>
          obtain ⟨m, w⟩ := mw
          rw [hr] at h; simp [Gql.Text.consB] at h
          have := ih _ _ _ hr; omega
      · cases hk : sourceCharLen s with
        | none => rw [hk] at h; simp at h
        | some k =>
          rw [hk] at h; simp only [] at h
          cases hr : blockRest f0 (s.drop k) with
          | none => rw [hr] at h; simp [Gql.Text.consB] at h
          | some mw =>
            obtain ⟨m, w⟩ := mw
            rw [hr] at h; simp [Gql.Text.consB] at h
            have := ih _ _ _ hr; omega

theorem blockRest_append : ∀ (f : Nat) (u x y : List Nat) (n : Nat) (raw : List Nat),
    blockRest f (u ++ x) = some (n, raw) → n ≤ u.length → ∀ f', n ≤ f' →
    blockRest f' (u ++ y) = some (n, raw) := by
  intro f
  induction f with
  | zero => intro u x y n raw h; simp [blockRest] at h
  | succ f0 ih =>
    intro u x y n raw h hn f' hf'
    have hn3 := blockRest_ge3 _ _ _ _ h
    obtain ⟨f'', rfl⟩ : ∃ f'', f' = f'' + 1 := ⟨f' - 1, by omega⟩
    rw [Gql.Text.blockRest_succ] at h ⊢
    have e3 : (u ++ y).take 3 = (u ++ x).take 3 := by
      rw [take_app _ _ _ (by omega), take_app _ _ _ (by omega)]
    by_cases h3 : (u ++ x).take 3 = [34, 34, 34]
    · rw [if_pos h3] at h; rw [e3, if_pos h3]; exact h
    · rw [if_neg h3] at h; rw [e3, if_neg h3]
      by_cases h4 : (u ++ x).take 4 = [92, 34, 34, 34]
      · rw [if_pos h4] at h
        cases hr : blockRest f0 ((u ++ x).drop 4) with
        | none => rw [hr] at h; simp [Gql.Text.consB] at h
        | some mw =>
          obtain ⟨m, w⟩ := mw
          rw [hr] at h
          simp only [Gql.Text.consB, Option.some.injEq, Prod.mk.injEq] at h
          have h4u : 4 ≤ u.length := by omega
          have e4 : (u ++ y).take 4 = (u ++ x).take 4 := by
            rw [take_app _ _ _ h4u, take_app _ _ _ h4u]
          rw [e4, if_pos h4]
          rw [drop_app _ _ _ h4u] at hr
          rw [drop_app _ _ _ h4u, ih (u.drop 4) x y m w hr (by simp; omega) f'' (by omega)]
          simp [Gql.Text.consB, h]
      · rw [if_neg h4] at h
        cases hk : sourceCharLen (u ++ x) with
        | none => rw [hk] at h; simp at h
        | some k =>
          rw [hk] at h; simp only [] at h
          obtain ⟨hk1, hk2⟩ := sourceCharLen_pos hk
          cases hr : blockRest f0 ((u ++ x).drop k) with
          | none => rw [hr] at h; simp [Gql.Text.consB] at h
          | some mw =>
            obtain ⟨m, w⟩ := mw
            rw [hr] at h
            simp only [Gql.Text.consB, Option.some.injEq, Prod.mk.injEq] at h
            have hm3 := blockRest_ge3 _ _ _ _ hr
            have h4u : 4 ≤ u.length := by omega
            have e4 : (u ++ y).take 4 = (u ++ x).take 4 := by
              rw [take_app _ _ _ h4u, take_app _ _ _ h4u]
            rw [e4, if_neg h4]
            have hku : k ≤ u.length := by omega
            rw [sourceCharLen_append u x y k hk hku]
            simp only []
            rw [drop_app _ _ _ hku] at hr
            rw [drop_app _ _ _ hku, ih (u.drop k) x y m w hr (by simp; omega) f'' (by omega)]
            rw [take_app _ _ _ hku]
            rw [take_app _ _ _ hku] at h
            simp [Gql.Text.consB, h]

theorem blockString?_triple (r : List Nat) :
    blockString? (34 :: 34 :: 34 :: r) =
      match blockRest r.length r with
      | some (n, raw) => some ⟨.blockString, n + 3, some (blockStringValue raw)⟩
      | none => none := rfl

theorem blockString?_stable (t' x y : List Nat) (m : Match)
    (h : blockString? (34 :: 34 :: 34 :: t' ++ x) = some m)
    (hl : m.len = (34 :: 34 :: 34 :: t').length) :
    blockString? (34 :: 34 :: 34 :: t' ++ y) = some m := by
  simp only [List.cons_append] at h ⊢
  rw [blockString?_triple] at h ⊢
  cases hb : blockRest (t' ++ x).length (t' ++ x) with
  | none => rw [hb] at h; simp at h
  | some nraw =>
    obtain ⟨n, raw⟩ := nraw
    rw [hb] at h
    simp only [Option.some.injEq] at h
    subst h
    simp only [List.length_cons] at hl
    rw [blockRest_append _ t' x y n raw hb (by omega) (t' ++ y).length (by simp; omega)]

theorem headAll_of_forall {P : Nat → Prop} (y : List Nat) (h : ∀ d, P d) : HeadAll P y := by
  cases y with
  | nil => trivial
  | cons c r => exact h c

/-- Stability and compatibility of the longest-match token, together. -/
theorem lexToken?_stable_compat (t x : List Nat) (m : Match) (h : lexToken? (t ++ x) = some m)
    (hl : m.len = t.length) (hpos : 0 < m.len) :
    Compat t x ∧ ∀ y, Compat t y → lexToken? (t ++ y) = some m := by
  match t, hl with
  | [], hl => simp at hl; omega
  | c :: t', hl =>
    simp only [List.cons_append] at h ⊢
    cases hk : punctKind c with
    | some k =>
      rw [Gql.Text.lexToken?_punct c _ k hk] at h
      have hm : m = ⟨Gql.Text.kindOf k, 1, none⟩ := (Option.some.inj h).symm
      have hc : ¬ NameStart c ∧ ¬ Digit c ∧ c ≠ 45 ∧ c ≠ 34 := by
        unfold NameStart Letter Digit
        rcases Gql.Text.punctKind_cases hk with ⟨rfl, _⟩ | ⟨rfl, _⟩ | ⟨rfl, _⟩ | ⟨rfl, _⟩ | ⟨rfl, _⟩ | ⟨rfl, _⟩ |
          ⟨rfl, _⟩ | ⟨rfl, _⟩ | ⟨rfl, _⟩ | ⟨rfl, _⟩ | ⟨rfl, _⟩ | ⟨rfl, _⟩ | ⟨rfl, _⟩ <;> omega
      have ht' : t' = [] := by
        have h1 : (1 : Nat) = (c :: t').length := by rw [hm] at hl; exact hl
        simp only [List.length_cons] at h1
        exact List.eq_nil_of_length_eq_zero (by omega)
      subst ht'
      refine ⟨?_, fun y _ => ?_⟩
      · exact headAll_of_forall _ (fun d => ⟨fun h => absurd h hc.1, fun h => by
          rcases h with h | h
          · exact absurd h hc.2.1
          · exact absurd h hc.2.2.1, fun h => absurd h hc.2.2.2⟩)
      · rw [List.nil_append, Gql.Text.lexToken?_punct c y k hk, hm]
    | none =>
      by_cases hnum : Digit c ∨ c = 45
      · rw [Gql.Text.lexToken?_number c _ hnum] at h
        have hns : ¬ NameStart c := by
          unfold Digit at hnum; unfold NameStart Letter; omega
        have h34 : c ≠ 34 := by unfold Digit at hnum; omega
        have hx := number?_compat (c :: t') x m (by simpa using h) hl
        refine ⟨?_, fun y hy => ?_⟩
        · exact headAll_mono hx (fun d hd => ⟨fun h => absurd h hns, fun _ => hd, fun h => absurd h h34⟩)
        · rw [Gql.Text.lexToken?_number c _ hnum]
          have hy' : HeadAll NumTerm y := headAll_mono hy (fun d hd => hd.2.1 hnum)
          have := number?_stable (c :: t') x y m (by simpa using h) hl hy'
          simpa using this
      by_cases hname : NameStart c
      · rw [Gql.Text.lexToken?_name c _ hname] at h
        have h34 : c ≠ 34 := by unfold NameStart Letter at hname; omega
        have hx := name?_compat c t' x m hname (by simpa using h) hl
        refine ⟨?_, fun y hy => ?_⟩
        · exact headAll_mono hx (fun d hd => ⟨fun _ => hd, fun h => absurd h hnum, fun h => absurd h h34⟩)
        · rw [Gql.Text.lexToken?_name c _ hname]
          have hy' : HeadAll (fun d => ¬ NameContinue d) y := headAll_mono hy (fun d hd => hd.1 hname)
          have := name?_stable c t' x y m hname (by simpa using h) hl hy'
          simpa using this
      by_cases hdot : c = 46
      · subst hdot
        rw [Gql.Text.lexToken?_dot, Gql.Text.punctuator?_dot] at h
        by_cases hsp : (t' ++ x).take 2 = [46, 46]
        · rw [if_pos hsp] at h
          have hm : m = ⟨.spread, 3, none⟩ := (Option.some.inj h).symm
          have hlen : t'.length = 2 := by rw [hm] at hl; simp at hl; omega
          refine ⟨headAll_of_forall _ (fun d => ⟨fun h => absurd h hname, fun h => absurd h hnum,
            fun h => by omega⟩), fun y _ => ?_⟩
          rw [Gql.Text.lexToken?_dot, Gql.Text.punctuator?_dot]
          rw [take_app _ _ _ (by omega)] at hsp
          rw [take_app _ _ _ (by omega), if_pos hsp, hm]
        · rw [if_neg hsp] at h; simp at h
      by_cases hq : c = 34
      · subst hq
        rw [Gql.Text.lexToken?_quote] at h
        by_cases htr : (t' ++ x).take 2 = [34, 34]
        · -- block string
          have hs : string? (34 :: (t' ++ x)) = none := by rw [string?_quote, if_pos htr]
          rw [hs, Gql.Text.longer_none_left] at h
          match t', htr, hl, h with
          | a :: b :: t'', htr, hl, h =>
            have hab : a = 34 ∧ b = 34 := by simpa using htr
            obtain ⟨rfl, rfl⟩ := hab
            refine ⟨headAll_of_forall _ (fun d => ⟨fun h => absurd h hname, fun h => absurd h hnum,
              fun _ h2 => by simp at h2⟩), fun y _ => ?_⟩
            rw [Gql.Text.lexToken?_quote]
            have hs' : string? (34 :: (34 :: 34 :: t'' ++ y)) = none := by
              rw [string?_quote, if_pos (by simp)]
            rw [hs', Gql.Text.longer_none_left]
            exact blockString?_stable t'' x y m (by simpa using h) (by simpa using hl)
          | [a], htr, hl, h =>
            -- `"` `a` then x: a block string has at least six code points
            exfalso
            cases x with
            | nil => simp at htr
            | cons b r =>
              have hab : a = 34 ∧ b = 34 := by simpa using htr
              obtain ⟨rfl, rfl⟩ := hab
              rw [show (34 :: ([34] ++ 34 :: r)) = 34 :: 34 :: 34 :: r from rfl, blockString?_triple] at h
              cases hb : blockRest r.length r with
              | none => rw [hb] at h; simp at h
              | some nraw =>
                rw [hb] at h; simp only [Option.some.injEq] at h
                have := blockRest_ge3 _ _ _ _ hb
                rw [← h] at hl; simp at hl; try omega
          | [], htr, hl, h =>
            exfalso
            match x, htr, h with
            | a :: b :: r, htr, h =>
              have hab : a = 34 ∧ b = 34 := by simpa using htr
              obtain ⟨rfl, rfl⟩ := hab
              rw [show (34 :: ([] ++ 34 :: 34 :: r)) = 34 :: 34 :: 34 :: r from rfl, blockString?_triple] at h
              cases hb : blockRest r.length r with
              | none => rw [hb] at h; simp at h
              | some nraw =>
                rw [hb] at h; simp only [Option.some.injEq] at h
                rw [← h] at hl; simp at hl
        · -- quoted string
          have hb : blockString? (34 :: (t' ++ x)) = none := Gql.Text.blockString?_not_triple _ htr
          rw [hb, Gql.Text.longer_none_right] at h
          have hx := string?_compat t' x m (by simpa using h) hl
          refine ⟨?_, fun y hy => ?_⟩
          · cases x with
            | nil => trivial
            | cons d r =>
              refine ⟨fun h => absurd h hname, fun h => absurd h hnum, fun _ h2 => ?_⟩
              simp at h2
              exact hx h2
          · have hy' : t'.length = 1 → HeadAll (fun d => d ≠ 34) y := by
              intro h1
              exact headAll_mono hy (fun d hd => hd.2.2 rfl (by simp [h1]))
            have hst := string?_stable t' x y m (by simpa using h) hl hy'
            simp only [List.cons_append] at hst
            have hst' := hst
            rw [string?_quote] at hst'
            by_cases htr' : (t' ++ y).take 2 = [34, 34]
            · rw [if_pos htr'] at hst'; simp at hst'
            · rw [Gql.Text.lexToken?_quote, Gql.Text.blockString?_not_triple _ htr',
                Gql.Text.longer_none_right]
              exact hst
      · -- no token starts with `c`
        have hnp : ¬ Gql.Text.PunctStart c := by
          rcases Gql.Text.punctKind_none hk with hp | hp
          · exact hp
          · exact absurd hp hdot
        have hnd : ¬ Digit c := fun hd => hnum (Or.inl hd)
        have h45 : c ≠ 45 := fun h45 => hnum (Or.inr h45)
        rw [Gql.Text.lexToken?_none c _ hnp hname hnd h45 hq] at h
        simp at h

/-! ### Ignored items -/

/-- First code points of the Ignored items. -/
def IgnoredStart (c : Nat) : Prop := c = 0xFEFF ∨ c = 9 ∨ c = 32 ∨ c = 10 ∨ c = 13 ∨ c = 44 ∨ c = 35

theorem ignoredLen_some_start {c : Nat} {r : List Nat} {n : Nat} (h : ignoredLen (c :: r) = some n) :
    IgnoredStart c := by
  unfold IgnoredStart
  by_cases h1 : c = 0xFEFF; · omega
  by_cases h2 : c = 9; · omega
  by_cases h3 : c = 32; · omega
  by_cases h4 : c = 10; · omega
  by_cases h5 : c = 13; · omega
  by_cases h6 : c = 44; · omega
  by_cases h7 : c = 35; · omega
  exfalso
  unfold ignoredLen at h
  split at h <;> simp_all

theorem ignoredLen_start_some {c : Nat} (r : List Nat) (h : IgnoredStart c) : ∃ n, ignoredLen (c :: r) = some n := by
  unfold IgnoredStart at h
  rcases h with rfl | rfl | rfl | rfl | rfl | rfl | rfl
  · exact ⟨1, rfl⟩
  · exact ⟨1, rfl⟩
  · exact ⟨1, rfl⟩
  · exact ⟨1, rfl⟩
  · cases r with
    | nil => exact ⟨1, rfl⟩
    | cons d r' =>
      by_cases hd : d = 10
      · subst hd; exact ⟨2, rfl⟩
      · refine ⟨1, ?_⟩
        unfold ignoredLen
        split <;> simp_all
  · exact ⟨1, rfl⟩
  · exact ⟨_, rfl⟩

/-- An Ignored item of length `|t|` at the head of `t ++ x` is the same item at the head of
`t ++ y` when `y` cannot extend it: after a comment a line terminator (or the end), after a lone
carriage return anything but a line feed. -/
theorem ignoredLen_stable (t x y : List Nat) (h : ignoredLen (t ++ x) = some t.length)
    (hc : t.head? = some 35 → HeadAll LineTerm y) (hcr : t = [13] → HeadAll (fun d => d ≠ 10) y) :
    ignoredLen (t ++ y) = some t.length := by
  match t, h with
  | [], h =>
    obtain ⟨h0, _⟩ := Gql.Text.ignoredLen_le h
    simp at h0
  | c :: t', h =>
    simp only [List.cons_append] at h ⊢
    have hs := ignoredLen_some_start h
    unfold IgnoredStart at hs
    have one : ∀ (r : List Nat), c ≠ 13 → c ≠ 35 → ignoredLen (c :: r) = some 1 := by
      intro r h13 h35
      rcases hs with rfl | rfl | rfl | rfl | rfl | rfl | rfl <;> first | rfl | omega
    by_cases h35 : c = 35
    · subst h35
      have hy := hc rfl
      show some (1 + commentCharsLen (t' ++ y)) = _
      have h' : some (1 + commentCharsLen (t' ++ x)) = some (35 :: t').length := h
      simp only [List.length_cons, Option.some.injEq] at h' ⊢
      rw [commentCharsLen_append t' x y (by omega) hy]; exact h'
    by_cases h13 : c = 13
    · subst h13
      match t', h with
      | [], h =>
        have hy := hcr rfl
        cases y with
        | nil => rfl
        | cons d r =>
          have hd : d ≠ 10 := hy
          show ignoredLen (13 :: d :: r) = some 1
          unfold ignoredLen
          split <;> simp_all
      | [d], h =>
        simp only [List.cons_append, List.nil_append, List.length_cons, List.length_nil] at h ⊢
        by_cases hd : d = 10
        · subst hd; rfl
        · exfalso
          have : ignoredLen (13 :: d :: x) = some 1 := by
            unfold ignoredLen
            split <;> simp_all
          rw [this] at h; simp at h
      | d :: e :: t'', h =>
        exfalso
        simp only [List.cons_append, List.length_cons] at h
        have := Gql.Text.ignoredLen_le h
        by_cases hd : d = 10
        · subst hd
          have : ignoredLen (13 :: 10 :: (e :: (t'' ++ x))) = some 2 := rfl
          rw [this] at h; simp at h
        · have : ignoredLen (13 :: d :: (e :: (t'' ++ x))) = some 1 := by
            unfold ignoredLen
            split <;> simp_all
          rw [this] at h; simp at h
    · rw [one _ h13 h35] at h ⊢
      exact h
end Gql.Spec.Lex
