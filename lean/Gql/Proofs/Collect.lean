import Gql.Async.CollectDefer
/-!
`collect_defer_same_keys`: collecting with live `@defer` yields the same response keys and, per
key, the same set of field nodes as collecting with the directives disabled.

Both are instances of one statement (`collect_spec`): from an empty visited map, the collected
`(key, node)` pairs are exactly `allFields` — the included field nodes of the fully unfolded
selection tree — whatever the defer annotations are.
-/
namespace Gql.Async.Collect

/-! ### what is collected -/

/-- `(k, n)` is collected: node `n` occurs in the field-details list of response key `k` -/
def Has (g : List (Nat × List FD)) (k n : Nat) : Prop :=
  ∃ fds, (k, fds) ∈ g ∧ ∃ fd ∈ fds, fd.node = n

theorem has_addField (k : Nat) (fd : FD) (g : List (Nat × List FD)) (k' n : Nat) :
    Has (addField k fd g) k' n ↔ Has g k' n ∨ (k' = k ∧ n = fd.node) := by
  induction g with
  | nil =>
    simp only [addField, Has, List.mem_singleton, Prod.mk.injEq, List.not_mem_nil, false_and,
      exists_false, false_or]
    constructor
    · rintro ⟨fds, ⟨rfl, rfl⟩, fd', hfd', rfl⟩
      simp only [List.mem_singleton] at hfd'
      subst hfd'
      exact ⟨rfl, rfl⟩
    · rintro ⟨rfl, rfl⟩
      exact ⟨[fd], ⟨rfl, rfl⟩, fd, by simp, rfl⟩
  | cons x rest ih =>
    obtain ⟨k0, fds0⟩ := x
    by_cases hk : k0 = k
    · subst hk
      simp only [addField, if_true]
      constructor
      · rintro ⟨fds, hmem, fd', hfd', rfl⟩
        rcases List.mem_cons.mp hmem with heq | hin
        · cases heq
          rcases List.mem_append.mp hfd' with h | h
          · exact Or.inl ⟨fds0, by simp, fd', h, rfl⟩
          · simp only [List.mem_singleton] at h
            subst h
            exact Or.inr ⟨rfl, rfl⟩
        · exact Or.inl ⟨fds, by simp [hin], fd', hfd', rfl⟩
      · rintro (⟨fds, hmem, fd', hfd', rfl⟩ | ⟨rfl, rfl⟩)
        · rcases List.mem_cons.mp hmem with heq | hin
          · cases heq
            exact ⟨fds0 ++ [fd], by simp, fd', by simp [hfd'], rfl⟩
          · exact ⟨fds, by simp [hin], fd', hfd', rfl⟩
        · exact ⟨fds0 ++ [fd], by simp, fd, by simp, rfl⟩
    · simp only [addField, hk, if_false]
      constructor
      · rintro ⟨fds, hmem, fd', hfd', rfl⟩
        rcases List.mem_cons.mp hmem with heq | hin
        · cases heq
          exact Or.inl ⟨fds0, by simp, fd', hfd', rfl⟩
        · rcases (ih).mp ⟨fds, hin, fd', hfd', rfl⟩ with h | h
          · obtain ⟨fds2, h2, rest2⟩ := h
            exact Or.inl ⟨fds2, by simp [h2], rest2⟩
          · exact Or.inr h
      · rintro (⟨fds, hmem, fd', hfd', rfl⟩ | h)
        · rcases List.mem_cons.mp hmem with heq | hin
          · cases heq
            exact ⟨fds0, by simp, fd', hfd', rfl⟩
          · obtain ⟨fds2, h2, rest2⟩ := (ih).mpr (Or.inl ⟨fds, hin, fd', hfd', rfl⟩)
            exact ⟨fds2, by simp [h2], rest2⟩
        · obtain ⟨fds2, h2, rest2⟩ := (ih).mpr (Or.inr h)
          exact ⟨fds2, by simp [h2], rest2⟩

theorem visitedGet_set (name m : Nat) (b : Bool) (v : List (Nat × Bool)) :
    visitedGet m (visitedSet name b v) = if m = name then some b else visitedGet m v := by
  induction v with
  | nil =>
    simp only [visitedSet, visitedGet]
    by_cases h : name = m
    · simp [h]
    · have : ¬ m = name := fun e => h e.symm
      simp [h, this]
  | cons x rest ih =>
    obtain ⟨n, b'⟩ := x
    by_cases hn : n = name
    · subst hn
      simp only [visitedSet, if_true, visitedGet]
      by_cases hm : n = m
      · simp [hm]
      · have : ¬ m = n := fun e => hm e.symm
        simp [hm, this]
    · simp only [visitedSet, hn, if_false, visitedGet, ih]
      by_cases hm : n = m
      · subst hm
        simp [hn]
      · simp [hm]

/-! ### the unfolded selection tree -/

mutual
/-- the included field nodes of the fully unfolded tree, as `(key, node)` -/
def fieldsOf : Sel → List (Nat × Nat)
  | .field k n incl => if incl then [(k, n)] else []
  | .inline incl cond _ sels => if incl && cond then allFields sels else []
  | .spread incl cond _ _ body => if incl && cond then allFields body else []
def allFields : List Sel → List (Nat × Nat)
  | [] => []
  | x :: rest => fieldsOf x ++ allFields rest
end

mutual
/-- all fragment names spread anywhere in the tree -/
def namesOf : Sel → List Nat
  | .field _ _ _ => []
  | .inline _ _ _ sels => names sels
  | .spread _ _ name _ body => name :: names body
def names : List Sel → List Nat
  | [] => []
  | x :: rest => namesOf x ++ names rest
end

mutual
/-- every spread of a name carries that fragment's selections -/
def ConsistentSel (table : Nat → List Sel) : Sel → Prop
  | .field _ _ _ => True
  | .inline _ _ _ sels => Consistent table sels
  | .spread _ _ name _ body => body = table name ∧ Consistent table body
def Consistent (table : Nat → List Sel) : List Sel → Prop
  | [] => True
  | x :: rest => ConsistentSel table x ∧ Consistent table rest
end

mutual
/-- no fragment is spread inside its own selections (no fragment cycles) -/
def AcyclicSel : Sel → Prop
  | .field _ _ _ => True
  | .inline _ _ _ sels => Acyclic sels
  | .spread _ _ name _ body => name ∉ names body ∧ Acyclic body
def Acyclic : List Sel → Prop
  | [] => True
  | x :: rest => AcyclicSel x ∧ Acyclic rest
end

/-! ### the invariant -/

/-- fragments that have been visited and are not still being expanded (`X`) are fully collected -/
def Inv (table : Nat → List Sel) (X : List Nat) (s : CState) : Prop :=
  ∀ m, visitedGet m s.visited ≠ none → m ∉ X → ∀ kn ∈ allFields (table m), Has s.grouped kn.1 kn.2

/-- what one step guarantees -/
structure Post (table : Nat → List Sel) (X : List Nat) (fs : List (Nat × Nat)) (s s' : CState) :
    Prop where
  inv : Inv table X s'
  all : ∀ kn ∈ fs, Has s'.grouped kn.1 kn.2
  mono : ∀ k n, Has s.grouped k n → Has s'.grouped k n
  only : ∀ k n, Has s'.grouped k n → Has s.grouped k n ∨ (k, n) ∈ fs
  vis : ∀ m, visitedGet m s.visited ≠ none → visitedGet m s'.visited ≠ none

theorem Post.refl_nil {table : Nat → List Sel} {X : List Nat} {s : CState} (h : Inv table X s) :
    Post table X [] s s :=
  ⟨h, by simp, fun _ _ h => h, fun _ _ h => Or.inl h, fun _ h => h⟩

theorem Post.of_eq {table : Nat → List Sel} {X : List Nat} {fs : List (Nat × Nat)} {s s1 s' : CState}
    (hg : s1.grouped = s.grouped) (hv : s1.visited = s.visited) (h : Post table X fs s1 s') :
    Post table X fs s s' :=
  ⟨h.inv, h.all, fun k n hh => h.mono k n (by rw [hg]; exact hh),
    fun k n hh => by rw [← hg]; exact h.only k n hh, fun m hm => h.vis m (by rw [hv]; exact hm)⟩

mutual
theorem collectSel_post (table : Nat → List Sel) : ∀ (x : Sel) (du : Option Nat) (X : List Nat)
    (s : CState), ConsistentSel table x → AcyclicSel x → (∀ m ∈ namesOf x, m ∉ X) →
    Inv table X s → Post table X (fieldsOf x) s (collectSel du x s)
  | .field k n incl, du, X, s, _, _, _, hinv => by
    cases incl with
    | false => simpa [collectSel, fieldsOf] using Post.refl_nil hinv
    | true =>
      simp only [collectSel, fieldsOf, if_true]
      refine ⟨?_, ?_, ?_, ?_, fun _ h => h⟩
      · intro m hm hx kn hkn
        exact (has_addField _ _ _ _ _).mpr (Or.inl (hinv m hm hx kn hkn))
      · intro kn hkn
        simp only [List.mem_singleton] at hkn
        subst hkn
        exact (has_addField _ _ _ _ _).mpr (Or.inr ⟨rfl, rfl⟩)
      · intro k' n' h
        exact (has_addField _ _ _ _ _).mpr (Or.inl h)
      · intro k' n' h
        rcases (has_addField _ _ _ _ _).mp h with h | ⟨rfl, rfl⟩
        · exact Or.inl h
        · exact Or.inr (by simp)
  | .inline incl cond defer sels, du, X, s, hc, ha, hn, hinv => by
    by_cases hic : (incl && cond) = true
    · simp only [collectSel, fieldsOf, hic, Bool.not_true, Bool.false_eq_true, if_false, if_true]
      cases defer with
      | none => exact collectSels_post table sels du X s hc ha hn hinv
      | some label =>
        have := collectSels_post table sels (some (s.base + s.newUsages.length)) X
          { s with newUsages := s.newUsages ++ [(label, du)] } hc ha hn hinv
        exact Post.of_eq (s1 := { s with newUsages := s.newUsages ++ [(label, du)] }) rfl rfl this
    · have hic' : (incl && cond) = false := by simpa using hic
      simpa [collectSel, fieldsOf, hic'] using Post.refl_nil hinv
  | .spread incl cond name defer body, du, X, s, hc, ha, hn, hinv => by
    have hnameX : name ∉ X := hn name (by simp [namesOf])
    have hbodyX : ∀ m ∈ names body, m ∉ name :: X := by
      intro m hm
      simp only [List.mem_cons, not_or]
      exact ⟨fun e => ha.1 (e ▸ hm), hn m (by simp [namesOf, hm])⟩
    -- visiting the body from a state where `name` is marked visited
    have visit : ∀ (du' : Option Nat) (s1 : CState), s1.grouped = s.grouped →
        (∀ m, visitedGet m s1.visited = if m = name then visitedGet name s1.visited else visitedGet m s.visited) →
        visitedGet name s1.visited ≠ none →
        Post table X (allFields body) s (collectSels du' body s1) := by
      intro du' s1 hg hv hvn
      have hinv1 : Inv table (name :: X) s1 := by
        intro m hm hx kn hkn
        simp only [List.mem_cons, not_or] at hx
        rw [hv m, if_neg hx.1] at hm
        rw [hg]
        exact hinv m hm hx.2 kn hkn
      have hp := collectSels_post table body du' (name :: X) s1 hc.2 ha.2 hbodyX hinv1
      refine ⟨?_, hp.all, ?_, ?_, ?_⟩
      · intro m hm hx kn hkn
        by_cases hmn : m = name
        · subst hmn
          rw [← hc.1] at hkn
          exact hp.all kn hkn
        · exact hp.inv m hm (by simp [hmn, hx]) kn hkn
      · intro k n h; exact hp.mono k n (by rw [hg]; exact h)
      · intro k n h
        rcases hp.only k n h with h | h
        · exact Or.inl (by rw [← hg]; exact h)
        · exact Or.inr h
      · intro m hm
        apply hp.vis
        by_cases hmn : m = name
        · subst hmn; exact hvn
        · rw [hv m, if_neg hmn]; exact hm
    have skip : visitedGet name s.visited ≠ none → Post table X (allFields body) s s := by
      intro hv
      refine ⟨hinv, ?_, fun _ _ h => h, fun _ _ h => Or.inl h, fun _ h => h⟩
      intro kn hkn
      rw [hc.1] at hkn
      exact hinv name hv hnameX kn hkn
    cases incl with
    | false => simpa [collectSel, fieldsOf] using Post.refl_nil hinv
    | true =>
      cases cond with
      | false => simpa [collectSel, fieldsOf] using Post.refl_nil hinv
      | true =>
        simp only [collectSel, fieldsOf, Bool.not_true, Bool.false_eq_true, if_false,
          Bool.and_self, if_true]
        cases defer with
        | none =>
          by_cases hv : visitedGet name s.visited = some false
          · simp only [hv, if_true]
            exact skip (by simp [hv])
          · simp only [hv, if_false]
            exact visit du { s with visited := visitedSet name false s.visited } rfl
              (by intro m; simp only [visitedGet_set]; by_cases h : m = name <;> simp [h])
              (by simp [visitedGet_set])
        | some label =>
          by_cases hv : (visitedGet name s.visited).isSome = true
          · simp only [hv, if_true]
            exact skip (by intro h; simp [h] at hv)
          · simp only [hv, Bool.false_eq_true, if_false]
            exact visit _ { s with visited := visitedSet name true s.visited,
                                   newUsages := s.newUsages ++ [(label, du)] } rfl
              (by intro m; simp only [visitedGet_set]; by_cases h : m = name <;> simp [h])
              (by simp [visitedGet_set])
theorem collectSels_post (table : Nat → List Sel) : ∀ (xs : List Sel) (du : Option Nat)
    (X : List Nat) (s : CState), Consistent table xs → Acyclic xs → (∀ m ∈ names xs, m ∉ X) →
    Inv table X s → Post table X (allFields xs) s (collectSels du xs s)
  | [], du, X, s, _, _, _, hinv => by simpa [collectSels, allFields] using Post.refl_nil hinv
  | x :: rest, du, X, s, hc, ha, hn, hinv => by
    have h1 := collectSel_post table x du X s hc.1 ha.1 (fun m hm => hn m (by simp [names, hm])) hinv
    have h2 := collectSels_post table rest du X (collectSel du x s) hc.2 ha.2
      (fun m hm => hn m (by simp [names, hm])) h1.inv
    simp only [collectSels, allFields]
    refine ⟨h2.inv, ?_, fun k n h => h2.mono k n (h1.mono k n h), ?_, fun m h => h2.vis m (h1.vis m h)⟩
    · intro kn hkn
      rcases List.mem_append.mp hkn with h | h
      · exact h2.mono _ _ (h1.all kn h)
      · exact h2.all kn h
    · intro k n h
      rcases h2.only k n h with h | h
      · rcases h1.only k n h with h | h
        · exact Or.inl h
        · exact Or.inr (List.mem_append.mpr (Or.inl h))
      · exact Or.inr (List.mem_append.mpr (Or.inr h))
end

/-- **What `collect_fields` collects**, for any defer annotations: exactly the included field
nodes of the unfolded selection tree. -/
theorem collect_spec (table : Nat → List Sel) (base : Nat) (sels : List Sel)
    (hc : Consistent table sels) (ha : Acyclic sels) (k n : Nat) :
    Has (collectFields base sels).grouped k n ↔ (k, n) ∈ allFields sels := by
  have hinv : Inv table [] (init base) := by
    intro m hm
    simp [init, visitedGet] at hm
  have hp := collectSels_post table sels none [] (init base) hc ha (by simp) hinv
  constructor
  · intro h
    rcases hp.only k n h with h | h
    · obtain ⟨fds, hmem, _⟩ := h
      simp [init] at hmem
    · exact h
  · intro h
    exact hp.all (k, n) h

/-! ### stripping `@defer` changes neither the tree's fields nor its well-formedness -/

mutual
theorem fieldsOf_strip : ∀ x : Sel, fieldsOf x.strip = fieldsOf x
  | .field _ _ _ => rfl
  | .inline incl cond _ sels => by simp [Sel.strip, fieldsOf, allFields_strip sels]
  | .spread incl cond _ _ body => by simp [Sel.strip, fieldsOf, allFields_strip body]
theorem allFields_strip : ∀ xs : List Sel, allFields (stripSels xs) = allFields xs
  | [] => rfl
  | x :: rest => by simp [stripSels, allFields, fieldsOf_strip x, allFields_strip rest]
end

mutual
theorem namesOf_strip : ∀ x : Sel, namesOf x.strip = namesOf x
  | .field _ _ _ => rfl
  | .inline _ _ _ sels => by simp [Sel.strip, namesOf, names_strip sels]
  | .spread _ _ _ _ body => by simp [Sel.strip, namesOf, names_strip body]
theorem names_strip : ∀ xs : List Sel, names (stripSels xs) = names xs
  | [] => rfl
  | x :: rest => by simp [stripSels, names, namesOf_strip x, names_strip rest]
end

mutual
theorem consistentSel_strip (table : Nat → List Sel) : ∀ x : Sel, ConsistentSel table x →
    ConsistentSel (fun m => stripSels (table m)) x.strip
  | .field _ _ _, _ => trivial
  | .inline _ _ _ sels, h => consistent_strip table sels h
  | .spread _ _ name _ body, h => ⟨by simp [h.1], consistent_strip table body h.2⟩
theorem consistent_strip (table : Nat → List Sel) : ∀ xs : List Sel, Consistent table xs →
    Consistent (fun m => stripSels (table m)) (stripSels xs)
  | [], _ => trivial
  | x :: rest, h => ⟨consistentSel_strip table x h.1, consistent_strip table rest h.2⟩
end

mutual
theorem acyclicSel_strip : ∀ x : Sel, AcyclicSel x → AcyclicSel x.strip
  | .field _ _ _, _ => trivial
  | .inline _ _ _ sels, h => acyclic_strip sels h
  | .spread _ _ name _ body, h => ⟨by rw [names_strip]; exact h.1, acyclic_strip body h.2⟩
theorem acyclic_strip : ∀ xs : List Sel, Acyclic xs → Acyclic (stripSels xs)
  | [], _ => trivial
  | x :: rest, h => ⟨acyclicSel_strip x h.1, acyclic_strip rest h.2⟩
end

/-- **`collect_defer_same_keys`.** -/
theorem collect_same (table : Nat → List Sel) (base base' : Nat) (sels : List Sel)
    (hc : Consistent table sels) (ha : Acyclic sels) (k n : Nat) :
    Has (collectFields base sels).grouped k n ↔ Has (collectFields base' (stripSels sels)).grouped k n := by
  rw [collect_spec table base sels hc ha,
    collect_spec _ base' (stripSels sels) (consistent_strip table sels hc) (acyclic_strip sels ha),
    allFields_strip]

/-! ### `collect_subfields` -/

def allFieldsMany : List (Option Nat × List Sel) → List (Nat × Nat)
  | [] => []
  | (_, sels) :: rest => allFields sels ++ allFieldsMany rest

theorem collectMany_post (table : Nat → List Sel) : ∀ (parts : List (Option Nat × List Sel))
    (s : CState), (∀ p ∈ parts, Consistent table p.2 ∧ Acyclic p.2) → Inv table [] s →
    Post table [] (allFieldsMany parts) s (collectMany parts s)
  | [], s, _, hinv => by simpa [collectMany, allFieldsMany] using Post.refl_nil hinv
  | (du, sels) :: rest, s, h, hinv => by
    have h1 := collectSels_post table sels du [] s (h (du, sels) (by simp)).1 (h (du, sels) (by simp)).2
      (by simp) hinv
    have h2 := collectMany_post table rest (collectSels du sels s)
      (fun p hp => h p (by simp [hp])) h1.inv
    simp only [collectMany, allFieldsMany]
    refine ⟨h2.inv, ?_, fun k n hh => h2.mono k n (h1.mono k n hh), ?_, fun m hh => h2.vis m (h1.vis m hh)⟩
    · intro kn hkn
      rcases List.mem_append.mp hkn with hh | hh
      · exact h2.mono _ _ (h1.all kn hh)
      · exact h2.all kn hh
    · intro k n hh
      rcases h2.only k n hh with hh | hh
      · rcases h1.only k n hh with hh | hh
        · exact Or.inl hh
        · exact Or.inr (List.mem_append.mpr (Or.inl hh))
      · exact Or.inr (List.mem_append.mpr (Or.inr hh))

theorem collectSub_spec (table : Nat → List Sel) (base : Nat) (parts : List (Option Nat × List Sel))
    (h : ∀ p ∈ parts, Consistent table p.2 ∧ Acyclic p.2) (k n : Nat) :
    Has (collectSubfields base parts).grouped k n ↔ (k, n) ∈ allFieldsMany parts := by
  have hinv : Inv table [] (init base) := by
    intro m hm
    simp [init, visitedGet] at hm
  have hp := collectMany_post table parts (init base) h hinv
  constructor
  · intro hh
    rcases hp.only k n hh with hh | hh
    · obtain ⟨fds, hmem, _⟩ := hh
      simp [init] at hmem
    · exact hh
  · intro hh
    exact hp.all (k, n) hh

def stripParts : List (Option Nat × List Sel) → List (Option Nat × List Sel)
  | [] => []
  | (_, sels) :: rest => (none, stripSels sels) :: stripParts rest

theorem allFieldsMany_strip : ∀ parts, allFieldsMany (stripParts parts) = allFieldsMany parts
  | [] => rfl
  | (_, sels) :: rest => by simp [stripParts, allFieldsMany, allFields_strip, allFieldsMany_strip rest]

theorem stripParts_wf (table : Nat → List Sel) : ∀ parts : List (Option Nat × List Sel),
    (∀ p ∈ parts, Consistent table p.2 ∧ Acyclic p.2) →
    ∀ p ∈ stripParts parts, Consistent (fun m => stripSels (table m)) p.2 ∧ Acyclic p.2
  | [], _ => by simp [stripParts]
  | (du, sels) :: rest, h => by
    intro p hp
    simp only [stripParts, List.mem_cons] at hp
    rcases hp with rfl | hp
    · exact ⟨consistent_strip table sels (h (du, sels) (by simp)).1, acyclic_strip sels (h (du, sels) (by simp)).2⟩
    · exact stripParts_wf table rest (fun q hq => h q (by simp [hq])) p hp

theorem collectSub_same (table : Nat → List Sel) (base base' : Nat)
    (parts : List (Option Nat × List Sel)) (h : ∀ p ∈ parts, Consistent table p.2 ∧ Acyclic p.2)
    (k n : Nat) :
    Has (collectSubfields base parts).grouped k n ↔
      Has (collectSubfields base' (stripParts parts)).grouped k n := by
  rw [collectSub_spec table base parts h,
    collectSub_spec _ base' (stripParts parts) (stripParts_wf table parts h), allFieldsMany_strip]

/-! ### shape of the grouped field set: a dict of non-empty lists -/

/-- distinct keys, no empty list -/
def GoodGrouped (g : List (Nat × List FD)) : Prop :=
  (g.map Prod.fst).Nodup ∧ ∀ kv ∈ g, kv.2 ≠ []

theorem addField_keys (k : Nat) (fd : FD) (g : List (Nat × List FD)) :
    (addField k fd g).map Prod.fst = if k ∈ g.map Prod.fst then g.map Prod.fst else g.map Prod.fst ++ [k] := by
  induction g with
  | nil => simp [addField]
  | cons x rest ih =>
    obtain ⟨k0, fds0⟩ := x
    by_cases hk : k0 = k
    · subst hk; simp [addField]
    · have hk' : ¬ k = k0 := fun e => hk e.symm
      simp only [addField, hk, if_false, List.map_cons, ih, List.mem_cons, hk', false_or]
      split <;> simp

theorem good_addField (k : Nat) (fd : FD) (g : List (Nat × List FD)) (h : GoodGrouped g) :
    GoodGrouped (addField k fd g) := by
  refine ⟨?_, ?_⟩
  · rw [addField_keys]
    split
    · exact h.1
    · rename_i hk
      exact List.nodup_append.mpr ⟨h.1, by simp, by
        intro a ha b hb
        simp only [List.mem_singleton] at hb
        subst hb
        exact fun e => hk (e ▸ ha)⟩
  · have hne := h.2
    clear h
    induction g with
    | nil => intro kv hkv; simp only [addField, List.mem_singleton] at hkv; subst hkv; simp
    | cons x rest ih =>
      obtain ⟨k0, fds0⟩ := x
      intro kv hkv
      by_cases hk : k0 = k
      · simp only [addField, hk, if_true, List.mem_cons] at hkv
        rcases hkv with rfl | hin
        · simp
        · exact hne kv (by simp [hin])
      · simp only [addField, hk, if_false, List.mem_cons] at hkv
        rcases hkv with rfl | hin
        · exact hne _ (by simp)
        · exact ih (fun q hq => hne q (by simp [hq])) kv hin

mutual
theorem collectSel_good : ∀ (x : Sel) (du : Option Nat) (s : CState), GoodGrouped s.grouped →
    GoodGrouped (collectSel du x s).grouped
  | .field k n incl, du, s, h => by
    cases incl <;> simp only [collectSel, if_true, Bool.false_eq_true, if_false]
    · exact h
    · exact good_addField _ _ _ h
  | .inline incl cond defer sels, du, s, h => by
    simp only [collectSel]
    split
    · exact h
    · cases defer with
      | none => exact collectSels_good sels du s h
      | some label => exact collectSels_good sels _ _ h
  | .spread incl cond name defer body, du, s, h => by
    simp only [collectSel]
    split
    · exact h
    · split
      · exact h
      · cases defer with
        | none =>
          simp only
          split
          · exact h
          · exact collectSels_good body du _ h
        | some label =>
          simp only
          split
          · exact h
          · exact collectSels_good body _ _ h
theorem collectSels_good : ∀ (xs : List Sel) (du : Option Nat) (s : CState),
    GoodGrouped s.grouped → GoodGrouped (collectSels du xs s).grouped
  | [], _, s, h => by simpa [collectSels] using h
  | x :: rest, du, s, h => by
    simp only [collectSels]
    exact collectSels_good rest du _ (collectSel_good x du s h)
end

theorem collectFields_good (base : Nat) (sels : List Sel) :
    GoodGrouped (collectFields base sels).grouped :=
  collectSels_good sels none (init base) ⟨by simp [init], by simp [init]⟩

theorem mem_keys_iff_has {g : List (Nat × List FD)} (h : GoodGrouped g) (k : Nat) :
    k ∈ g.map Prod.fst ↔ ∃ n, Has g k n := by
  constructor
  · intro hk
    obtain ⟨kv, hkv, rfl⟩ := List.mem_map.mp hk
    obtain ⟨kk, fds⟩ := kv
    cases hf : fds with
    | nil => exact absurd hf (h.2 (kk, fds) hkv)
    | cons fd rest => exact ⟨fd.node, fds, hkv, fd, by simp [hf], rfl⟩
  · rintro ⟨n, fds, hmem, _⟩
    exact List.mem_map.mpr ⟨(k, fds), hmem, rfl⟩

end Gql.Async.Collect
