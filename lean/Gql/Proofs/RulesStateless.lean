import Gql.Proofs.Rules
/-!
C12 — rules without private state that always answer `None` (KnownFragmentNames, UniqueVariableNames,
UniqueArgumentNames, NoUnusedVariables): what `validate([rule])` returns is the concatenation, over the enter/leave
events of the complete traversal, of what the handler reports at that event.
-/
namespace Gql.Validation
variable {τ σ ε : Type}

/-- The handlers never change the private state, always answer `None`, and what they report depends on the
phase and the node only. -/
def Rule.Stateless (r : Rule τ σ ε) (f : Phase → Info → List ε) : Prop :=
  ∀ s ph i ti, r.step s ph i ti = (Action.idle, s, f ph i)

mutual
  /-- reports over the events of a complete traversal -/
  def evErrs (hE hL : String → Bool) (f : Phase → Info → List ε) : Tree → List ε
    | .node i cs => (if hE i.kind then f .enter i else []) ++ evErrsList hE hL f cs ++ (if hL i.kind then f .leave i else [])
  def evErrsList (hE hL : String → Bool) (f : Phase → Info → List ε) : List Tree → List ε
    | [] => []
    | t :: ts => evErrs hE hL f t ++ evErrsList hE hL f ts
end

theorem Member.enter_stateless (ti : TI τ) (i : Info) (m : Member τ σ ε) (f : Phase → Info → List ε)
    (hs : m.skipping = .none) (hf : m.rule.Stateless f) :
    (Member.enter ti i m).1.rule = m.rule ∧ (Member.enter ti i m).1.skipping = .none ∧
    (Member.enter ti i m).1.errs = m.errs ++ (if m.rule.hEnter i.kind then f .enter i else []) := by
  unfold Member.enter
  by_cases h : m.rule.hEnter i.kind = true
  · simp [hs, h, hf _ _ _ _, Member.skipOf]
  · simp [hs, h]

theorem Member.leave_stateless (ti : TI τ) (i : Info) (m : Member τ σ ε) (f : Phase → Info → List ε)
    (hs : m.skipping = .none) (hf : m.rule.Stateless f) :
    (Member.leave ti i m).1.rule = m.rule ∧ (Member.leave ti i m).1.skipping = .none ∧
    (Member.leave ti i m).1.errs = m.errs ++ (if m.rule.hLeave i.kind then f .leave i else []) := by
  unfold Member.leave
  by_cases h : m.rule.hLeave i.kind = true
  · simp [hs, h, hf _ _ _ _]
  · simp [hs, h]

theorem Member.trav_stateless (D : Driver τ) (r : Rule τ σ ε) (f : Phase → Info → List ε) (hf : r.Stateless f) :
    (∀ t (ti : TI τ) (m : Member τ σ ε), m.rule = r → m.skipping = .none →
      (Member.trav D ti m t).rule = r ∧ (Member.trav D ti m t).skipping = .none ∧
      (Member.trav D ti m t).errs = m.errs ++ evErrs r.hEnter r.hLeave f t) ∧
    (∀ ts (ti : TI τ) (m : Member τ σ ε), m.rule = r → m.skipping = .none →
      (Member.travList D ti m ts).rule = r ∧ (Member.travList D ti m ts).skipping = .none ∧
      (Member.travList D ti m ts).errs = m.errs ++ evErrsList r.hEnter r.hLeave f ts) := by
  apply Tree.induct
  · intro i cs ih ti m hr hs
    rw [Member.trav, evErrs]
    have hfm : m.rule.Stateless f := hr ▸ hf
    obtain ⟨e1, e2, e3⟩ := Member.enter_stateless (D.enter ti i) i m f hs hfm
    obtain ⟨c1, c2, c3⟩ := ih (D.enter ti i) (Member.enter (D.enter ti i) i m).1 (e1.trans hr) e2
    have hfc : (Member.travList D (D.enter ti i) (Member.enter (D.enter ti i) i m).1 cs).rule.Stateless f := c1 ▸ hf
    obtain ⟨l1, l2, l3⟩ := Member.leave_stateless (tiTravList D (D.enter ti i) cs) i _ f c2 hfc
    refine ⟨l1.trans c1, l2, ?_⟩
    rw [l3, c3, e3, c1, hr]
    simp [List.append_assoc]
  · intro ti m hr hs
    rw [Member.travList, evErrsList]
    simp [hr, hs]
  · intro t ts iht ihts ti m hr hs
    rw [Member.travList, evErrsList]
    obtain ⟨a1, a2, a3⟩ := iht ti m hr hs
    obtain ⟨b1, b2, b3⟩ := ihts (tiTrav D ti t) (Member.trav D ti m t) a1 a2
    refine ⟨b1, b2, ?_⟩
    rw [b3, a3]
    simp [List.append_assoc]

/-- `validate([rule])` for a stateless rule, in closed form. -/
theorem validate_stateless (tbl : TITable) (L : Lookups τ) (r : Rule τ σ ε) (s0 : σ) (f : Phase → Info → List ε)
    (hf : r.Stateless f) (doc : Tree) :
    validate tbl L none [(r, s0)] doc = (evErrs r.hEnter r.hLeave f doc).map Reported.error := by
  have h1 : validate tbl L none [(r, s0)] doc =
      (errsTrav (realDriver tbl L) TI.init (startMembers [(r, s0)]) doc).map Reported.error := by
    unfold validate validateRun
    rw [run_closed]
    simp [Sink.result]
  rw [h1]
  have h2 := errsTrav_single (realDriver tbl L) TI.init (r, s0) doc
  simp only [startMembers, List.map_cons, List.map_nil]
  rw [← h2]
  have h3 := ((Member.trav_stateless (realDriver tbl L) r f hf).1 doc TI.init (Member.start r s0) rfl rfl).2.2
  rw [h3]
  simp [Member.start]

theorem evErrs_nil_iff (hE hL : String → Bool) (f : Phase → Info → List ε) :
    (∀ t, evErrs hE hL f t = [] ↔
      ∀ i ∈ t.infos, (hE i.kind = true → f .enter i = []) ∧ (hL i.kind = true → f .leave i = [])) ∧
    (∀ ts, evErrsList hE hL f ts = [] ↔
      ∀ i ∈ Tree.infosList ts, (hE i.kind = true → f .enter i = []) ∧ (hL i.kind = true → f .leave i = [])) := by
  apply Tree.induct
  · intro i cs ih
    rw [evErrs]
    simp only [List.append_eq_nil_iff, Tree.infos, List.mem_cons, forall_eq_or_imp, ih]
    constructor
    · rintro ⟨⟨h1, h2⟩, h3⟩
      refine ⟨⟨?_, ?_⟩, h2⟩
      · intro h; simpa [h] using h1
      · intro h; simpa [h] using h3
    · rintro ⟨⟨h1, h3⟩, h2⟩
      refine ⟨⟨?_, h2⟩, ?_⟩
      · by_cases h : hE i.kind = true
        · simp [h, h1 h]
        · simp [h]
      · by_cases h : hL i.kind = true
        · simp [h, h3 h]
        · simp [h]
  · simp [evErrsList, Tree.infosList]
  · intro t ts iht ihts
    rw [evErrsList]
    simp only [List.append_eq_nil_iff, Tree.infosList, List.mem_append, iht, ihts]
    constructor
    · rintro ⟨h1, h2⟩ i (hi | hi)
      · exact h1 i hi
      · exact h2 i hi
    · intro h
      exact ⟨fun i hi => h i (Or.inl hi), fun i hi => h i (Or.inr hi)⟩

end Gql.Validation
