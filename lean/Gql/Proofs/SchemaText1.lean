import Gql.Types.PrintSchemaText
import Gql.Proofs.ExecDoc3
/-!
C17, text level, part 1: the translation of C17's definitions (`Gql.Types.Def`) into C08's typed
document trees (`Gql.Text.GDef`), C08's parser theorem restated for *any* text that lexes to the
document's tokens, and the assembly of a document text from definition texts.
-/
namespace Gql.Types.PrintSchema
open Gql Gql.Text Gql.Syntax Gql.Generated

/-! ## C17 definitions → C08 document trees -/

def toTy : TypeRef → Ty
  | .named n => .named n
  | .list t => .list (toTy t)
  | .nonNull t => .nonNull (toTy t)

mutual
  /-- A chain constructor in value position (not a literal) becomes the enum value with the empty
  name: it prints as the empty text, like `printValue`, and is not well formed for C08. -/
  def toVal : Value → Val
    | .int s => .int s
    | .float s => .float s
    | .str s b => .str s b
    | .bool b => .bool b
    | .null => .null
    | .enum n => .enum n
    | .list items => .list (toValList items)
    | .obj fields => .obj (toValFields fields)
    | .vnil => .enum []
    | .lcons _ _ => .enum []
    | .fcons _ _ _ => .enum []
  def toValList : Value → List Val
    | .lcons v rest => toVal v :: toValList rest
    | _ => []
  def toValFields : Value → List (List Nat × Val)
    | .fcons n v rest => (n, toVal v) :: toValFields rest
    | _ => []
end

mutual
  /-- The cons-chain encoding of a value tree (inverse of `toVal` on well-shaped values). -/
  def ofVal : Val → Value
    | .var n => .enum n
    | .int s => .int s
    | .float s => .float s
    | .str s b => .str s b
    | .bool b => .bool b
    | .null => .null
    | .enum n => .enum n
    | .list vs => .list (ofValList vs)
    | .obj fs => .obj (ofValFields fs)
  def ofValList : List Val → Value
    | [] => .vnil
    | v :: vs => .lcons (ofVal v) (ofValList vs)
  def ofValFields : List (List Nat × Val) → Value
    | [] => .vnil
    | (n, v) :: fs => .fcons n (ofVal v) (ofValFields fs)
end

/-- The value is a proper literal: list items form an `lcons … vnil` chain, object fields an
`fcons … vnil` chain (what `dValue` of the driver and the builders produce). -/
def valueShaped (v : Value) : Bool := ofVal (toVal v) == v

def toDesc (d : Option DescNode) : Desc := d.map (fun n => (n.value, n.block))

def toDir (d : DirApp) : Dir := ⟨d.name, d.args.map (fun p => (p.1, toVal p.2))⟩

def toVarDef (n : IVD) : VarDef := ⟨toDesc n.desc, n.name, toTy n.type, n.default.map toVal, n.dirs.map toDir⟩

def toFDef (n : FD) : FDef := ⟨toDesc n.desc, n.name, n.args.map toVarDef, toTy n.type, n.dirs.map toDir⟩

def toEVDef (n : EVD) : EVDef := ⟨toDesc n.desc, n.name, n.dirs.map toDir⟩

def opName : Op → List Nat
  | .query => S "query"
  | .mutation => S "mutation"
  | .subscription => S "subscription"

def toOts (ops : List (Op × Str)) : List (List Nat × List Nat) := ops.map (fun p => (opName p.1, p.2))

def typeNodeToTDef (desc : Option DescNode) (t : TypeNode) : TDef :=
  match t.body with
  | .scalar => .scalar (toDesc desc) t.name (t.dirs.map toDir)
  | .object is fs => .object false (toDesc desc) t.name is (t.dirs.map toDir) (fs.map toFDef)
  | .interface is fs => .object true (toDesc desc) t.name is (t.dirs.map toDir) (fs.map toFDef)
  | .union ms => .union (toDesc desc) t.name (t.dirs.map toDir) ms
  | .enum vs => .enum (toDesc desc) t.name (t.dirs.map toDir) (vs.map toEVDef)
  | .input fs => .input (toDesc desc) t.name (t.dirs.map toDir) (fs.map toVarDef)

def typeNodeToEDef (t : TypeNode) : EDef :=
  match t.body with
  | .scalar => .scalar t.name (t.dirs.map toDir)
  | .object is fs => .object false t.name is (t.dirs.map toDir) (fs.map toFDef)
  | .interface is fs => .object true t.name is (t.dirs.map toDir) (fs.map toFDef)
  | .union ms => .union t.name (t.dirs.map toDir) ms
  | .enum vs => .enum t.name (t.dirs.map toDir) (vs.map toEVDef)
  | .input fs => .input t.name (t.dirs.map toDir) (fs.map toVarDef)

/-- One definition.  `Def.other` (an executable definition: no content in C17's AST) and
`extend directive` (not among C08's typed trees) have no image. -/
def defToGDef : Def → Option GDef
  | .schemaDef desc dirs ops => some (.t (.schema (toDesc desc) (dirs.map toDir) (toOts ops)))
  | .schemaExt dirs ops => some (.e (.schema (dirs.map toDir) (toOts ops)))
  | .directiveDef desc name args dirs rep locs =>
    some (.t (.directive (toDesc desc) name (args.map toVarDef) (dirs.map toDir) rep locs))
  | .directiveExt _ _ => none
  | .typeDef desc node => some (.t (typeNodeToTDef desc node))
  | .typeExt node => some (.e (typeNodeToEDef node))
  | .other => none

/-- C17 definitions → C08 document trees. -/
def defsToGDefs (defs : List Def) : List GDef := defs.filterMap defToGDef

/-- The type-system definitions (`TDef`) of a schema, in `print_schema`'s order. -/
def schemaDefTDef (s : Schema) : List TDef :=
  (schemaDefOf s).filterMap (fun d => match d with
    | .schemaDef desc dirs ops => some (.schema (toDesc desc) (dirs.map toDir) (toOts ops))
    | _ => none)

def directiveTDef (d : Directive) : TDef :=
  .directive (toDesc (descNode d.desc)) d.name ((d.args.map argToIVD).map toVarDef) ((deprDirs d.depr).map toDir)
    d.repeatable d.locations

def typeTDef (t : TypeDef) : TDef :=
  match typeToDef t with
  | .typeDef desc node => typeNodeToTDef desc node
  | _ => .scalar none [] []

def schemaTDefs (s : Schema) : List TDef :=
  schemaDefTDef s ++ s.directives.map directiveTDef ++ s.types.map typeTDef

theorem typeToDef_gdef (t : TypeDef) : defToGDef (typeToDef t) = some (.t (typeTDef t)) := by
  cases t <;> simp [typeToDef, defToGDef, typeTDef]

theorem defsToGDefs_schemaToDefs (s : Schema) :
    defsToGDefs (schemaToDefs s) = (schemaTDefs s).map GDef.t := by
  unfold defsToGDefs schemaToDefs schemaTDefs
  simp only [List.filterMap_append, List.map_append, List.filterMap_map]
  congr 1
  · congr 1
    · unfold schemaDefTDef schemaDefOf
      split
      · rfl
      · split
        · rfl
        · simp [defToGDef]
    · induction s.directives with
      | nil => rfl
      | cons d r ih => simp [directiveToDef, defToGDef, directiveTDef] at ih ⊢; exact ih
  · induction s.types with
    | nil => rfl
    | cons t r ih => simp [typeToDef_gdef] at ih ⊢; exact ih

/-! ## A document text from definition texts -/

theorem gdefsKvs_t (pb : Bool) (ds : List TDef) :
    Exec.gdefsKvs pb (ds.map GDef.t) = ds.flatMap Exec.tdefKvs := by
  induction ds generalizing pb with
  | nil => rfl
  | cons d r ih => simp [Exec.gdefsKvs, Exec.isShortG, Exec.gdefKvs, ih]

/-- Texts that lex, joined by a non-empty ignorable separator. -/
theorem lexes_joinTexts (ps : List (List Nat × List KV)) (h : ∀ p ∈ ps, Lexes true p.1 p.2)
    (sep : List Nat) (hsep : Ignorable sep) (hne : sep ≠ []) :
    Lexes true (joinWith sep (ps.map (·.1))) (ps.flatMap (·.2)) := by
  induction ps with
  | nil => exact Lexes.nil.weaken true
  | cons a r ih =>
    have hv := h a (by simp)
    have ih' := ih (fun b hb => h b (by simp [hb]))
    cases r with
    | nil => simpa [joinWith] using hv
    | cons b r' =>
      simp only [List.map_cons, joinWith, List.flatMap_cons] at ih' ⊢
      have := Lexes.append_l (Lexes.append_ign hv hsep hne) ih'
      simpa [List.append_assoc] using this

end Gql.Types.PrintSchema

namespace Gql.Syntax
open Gql Gql.Text

/-- C08's document theorem (`parseSource_gdoc_print`) for **any** text that lexes to the document's
tokens, not only the text `print_ast` lays out: the parser sees tokens only. -/
theorem parseSource_of_lexes_gdoc (cfg : Cfg) (hm : cfg.maxTokens = none) (text : List Nat)
    (defs : List GDef) (hdne : defs ≠ []) (hwf : Exec.gdefsWf cfg.fragArgs cfg.dirOnDir defs)
    (hlex : Lexes true text (Exec.gdefsKvs true defs)) :
    parseSource .document cfg text = .ok (Exec.gdocAst cfg.fragArgs cfg.dirOnDir defs) := by
  obtain ⟨tks, e, hall, hkv, hek, hne0⟩ := lexAll_of_lexes hlex
  have hne : NonEof tks := hne0
  have hstream : streamOf text = feed tks (.eof e.start e.line e.column) := by
    rw [streamOf_of_lexAll _ _ hall, toStream_feed tks e hne hek]
  have hlen : tks.length = (Exec.gdefsKvs true defs).length := by rw [← hkv]; simp
  obtain ⟨d, rest, rfl⟩ := List.exists_cons_of_ne_nil hdne
  have hwfd := hwf d (by simp)
  have hwfr : Exec.gdefsWf cfg.fragArgs cfg.dirOnDir rest := fun x hx => hwf x (by simp [hx])
  simp only [Exec.gdefsKvs, Bool.not_true, Bool.and_false, Bool.false_eq_true, ↓reduceIte, List.nil_append] at hkv hlen
  rw [List.map_eq_append_iff] at hkv
  obtain ⟨td, ts', rfl, hkd, hkr⟩ := hkv
  have hfuel : parseFuel (feed (td ++ ts') (.eof e.start e.line e.column)) = (td ++ ts').length + 3 := by
    simp [parseFuel, feed_length]
  have hready : (feed ts' (.eof e.start e.line e.column)).Ready :=
    feed_ready _ _ hne.append_right (by simp [Stream.Ready])
  have hreadyAll : (feed (td ++ ts') (.eof e.start e.line e.column)).Ready :=
    feed_ready _ _ hne (by simp [Stream.Ready])
  simp only [List.length_append] at hlen
  obtain ⟨c0, h0⟩ := advance_PSat cfg hm sofToken (feed (td ++ ts') (.eof e.start e.line e.column)) 0
    (by decide) hreadyAll
  obtain ⟨c1, h1⟩ := parseGDef_ok cfg hm ((td ++ ts').length + 3) d false hwfd (by intro h; cases h) td
    (feed ts' (.eof e.start e.line e.column)) c0
    (by simp only [Bool.false_eq_true, ↓reduceIte, List.nil_append, List.length_append]; omega)
    (by simpa using hkd) hne.append_left hready
    (by intro he; rw [he] at hkr; exact defNext_rest cfg.fragArgs cfg.dirOnDir rest hwfr ts' _ _ _ hkr)
  have hl := gdefsKvs_length_le cfg.fragArgs cfg.dirOnDir rest hwfr (Exec.endsBlock d)
  obtain ⟨c2, h2⟩ := gdefsLoop_ok cfg hm rest hwfr (Exec.endsBlock d) ((td ++ ts').length + 3)
    ((td ++ ts').length + 3) ts' e.start e.line e.column c1 [Exec.gdefAst cfg.fragArgs cfg.dirOnDir d]
    (by simp only [List.length_append]; omega) (by simp only [List.length_append]; omega) hkr hne.append_right
  have hsof : expectToken cfg .sof (initState (feed (td ++ ts') (.eof e.start e.line e.column))) =
      .ok (sofToken, PSat c0 (feed (td ++ ts') (.eof e.start e.line e.column))) := by
    simp only [expectToken, bind_eq, P.cur, initState, sofToken, ↓reduceIte, pure_eq']
    simp only [sofToken] at h0
    rw [h0]
  unfold parseSource parseStream parseStreamWith
  simp only [show (Entry.document = Entry.schemaCoordinate) = False by simp, ↓reduceIte, hstream, runEntry, hfuel]
  rw [feed_append] at hsof ⊢
  simp only [parseDocument, parseMany, bind_eq, hsof, h1, h2, pure_eq', mk_docNode]
  simp [Exec.gdocAst]

end Gql.Syntax
