import Gql.Proofs.OverlapGroup
import Gql.Proofs.OverlapLocal
/-! C14: parent types that differ only where nobody looks.  `TypeInfo` reports `None` for a
non-composite parent, `find_conflict` passes the named return type as it is; the rule's cache keeps
whichever came first.  Both are the same after `compositeOrNone`. -/
namespace Gql.Exec
open Overlap

def PEq (s : Schema) (p q : Option String) : Prop := compositeOrNone s p = compositeOrNone s q

theorem PEq.refl (s : Schema) (p : Option String) : PEq s p p := rfl
theorem PEq.symm {s : Schema} {p q : Option String} (h : PEq s p q) : PEq s q p := Eq.symm h
theorem PEq.trans {s : Schema} {p q r : Option String} (h1 : PEq s p q) (h2 : PEq s q r) :
    PEq s p r := Eq.trans h1 h2

theorem isComposite_none (s : Schema) : s.isComposite none = false := by
  simp [Schema.isComposite, Schema.kindOf]

theorem isComposite_cON (s : Schema) (p : Option String) :
    s.isComposite (compositeOrNone s p) = s.isComposite p := by
  unfold compositeOrNone
  by_cases h : s.isComposite p = true
  · simp [h]
  · have h' : s.isComposite p = false := by simpa using h
    simp [h', isComposite_none]

theorem fieldDef_of_not_composite {s : Schema} {p : Option String}
    (h : s.isComposite p = false) (n : String) : s.fieldDef p n = none := by
  cases p with
  | none => simp [Schema.fieldDef]
  | some t =>
    simp only [Schema.fieldDef]
    cases hg : s.getType t with
    | none => simp
    | some td =>
      simp only [Schema.isComposite, Schema.kindOf, hg, Option.map_some] at h
      cases hk : td.kind <;> simp_all

theorem isObject_of_not_composite {s : Schema} {p : Option String}
    (h : s.isComposite p = false) : s.isObject p = false := by
  cases p with
  | none => simp [Schema.isObject, Schema.kindOf]
  | some t =>
    cases hg : s.getType t with
    | none => simp [Schema.isObject, Schema.kindOf, hg]
    | some td =>
      simp only [Schema.isComposite, Schema.kindOf, hg, Option.map_some] at h
      simp only [Schema.isObject, Schema.kindOf, hg, Option.map_some]
      cases hk : td.kind <;> simp_all

theorem isComposite_of_isObject {s : Schema} {p : Option String} (h : s.isObject p = true) :
    s.isComposite p = true := by
  cases hc : s.isComposite p with
  | true => rfl
  | false => rw [isObject_of_not_composite hc] at h; cases h

theorem fieldDef_cON (s : Schema) (p : Option String) (n : String) :
    s.fieldDef (compositeOrNone s p) n = s.fieldDef p n := by
  unfold compositeOrNone
  by_cases h : s.isComposite p = true
  · simp [h]
  · have h' : s.isComposite p = false := by simpa using h
    rw [fieldDef_of_not_composite h']
    simp [h', Schema.fieldDef]

theorem isObject_cON (s : Schema) (p : Option String) :
    s.isObject (compositeOrNone s p) = s.isObject p := by
  unfold compositeOrNone
  by_cases h : s.isComposite p = true
  · simp [h]
  · have h' : s.isComposite p = false := by simpa using h
    rw [isObject_of_not_composite h']
    simp [h', Schema.isObject, Schema.kindOf]

theorem cON_idem (s : Schema) (p : Option String) : PEq s (compositeOrNone s p) p := by
  unfold PEq
  unfold compositeOrNone
  by_cases h : s.isComposite p = true
  · simp [h]
  · have h' : s.isComposite p = false := by simpa using h
    simp [h', isComposite_none]

theorem PEq.fieldDef {s : Schema} {p q : Option String} (h : PEq s p q) (n : String) :
    s.fieldDef p n = s.fieldDef q n := by
  rw [← fieldDef_cON s p, ← fieldDef_cON s q, h]

theorem PEq.isObject {s : Schema} {p q : Option String} (h : PEq s p q) :
    s.isObject p = s.isObject q := by
  rw [← isObject_cON s p, ← isObject_cON s q, h]

theorem PEq.isComposite {s : Schema} {p q : Option String} (h : PEq s p q) :
    s.isComposite p = s.isComposite q := by
  rw [← isComposite_cON s p, ← isComposite_cON s q, h]

theorem PEq.fieldType {s : Schema} {p q : Option String} (h : PEq s p q) (n : String) :
    Spec.fieldType s p n = Spec.fieldType s q n := by
  simp only [Spec.fieldType, h.fieldDef n, h.isComposite]

/-- equal after normalisation, and both objects: equal -/
theorem PEq.eq_of_isObject {s : Schema} {p q : Option String} (h : PEq s p q)
    (hp : s.isObject p = true) : p = q := by
  have hq : s.isObject q = true := by rw [← h.isObject]; exact hp
  have c1 := isComposite_of_isObject hp
  have c2 := isComposite_of_isObject hq
  unfold PEq compositeOrNone at h
  simpa [c1, c2] using h

/-- the same field node, selected on parents that are equal after normalisation -/
def InstEq (s : Schema) (a a' : Spec.FieldInst) : Prop := a.node = a'.node ∧ PEq s a.parent a'.parent

theorem InstEq.refl (s : Schema) (a : Spec.FieldInst) : InstEq s a a := ⟨rfl, rfl⟩
theorem InstEq.symm {s : Schema} {a b : Spec.FieldInst} (h : InstEq s a b) : InstEq s b a :=
  ⟨h.1.symm, h.2.symm⟩

theorem InstEq.subP {s : Schema} {a a' : Spec.FieldInst} (h : InstEq s a a') :
    subP s a = subP s a' := by
  simp only [Gql.Exec.subP, h.1, h.2.fieldType]

theorem parentsOverlap_instEq {s : Schema} {a a' b b' : Spec.FieldInst} (ha : InstEq s a a')
    (hb : InstEq s b b') : Spec.parentsOverlap s a b = Spec.parentsOverlap s a' b' := by
  simp only [Spec.parentsOverlap, ← ha.2.isObject, ← hb.2.isObject]
  by_cases h1 : s.isObject a.parent = true
  · by_cases h2 : s.isObject b.parent = true
    · have e1 := ha.2.eq_of_isObject h1
      have e2 := hb.2.eq_of_isObject h2
      rw [e1, e2]
    · have : s.isObject b.parent = false := by simpa using h2
      simp [this]
  · have : s.isObject a.parent = false := by simpa using h1
    simp [this]

theorem direct_instEq {s : Schema} {a a' b b' : Spec.FieldInst} (ha : InstEq s a a')
    (hb : InstEq s b b') (full : Bool) :
    Spec.direct s ⟨a, b, full⟩ = Spec.direct s ⟨a', b', full⟩ := by
  simp only [Spec.direct, Spec.typesOf, ha.1, hb.1, ha.2.fieldType, hb.2.fieldType,
    parentsOverlap_instEq ha hb]

theorem deeper_instEq {s : Schema} {a a' b b' : Spec.FieldInst} (ha : InstEq s a a')
    (hb : InstEq s b b') (full : Bool) :
    Spec.deeper s ⟨a, b, full⟩ = Spec.deeper s ⟨a', b', full⟩ := by
  simp only [Spec.deeper, parentsOverlap_instEq ha hb]

/-! ### lists related element by element -/

inductive Rel2 {α β : Type} (R : α → β → Prop) : List α → List β → Prop where
  | nil : Rel2 R [] []
  | cons {a : α} {b : β} {as : List α} {bs : List β} : R a b → Rel2 R as bs → Rel2 R (a :: as) (b :: bs)

theorem Rel2.append {α β : Type} {R : α → β → Prop} {a1 a2 : List α} {b1 b2 : List β}
    (h1 : Rel2 R a1 b1) (h2 : Rel2 R a2 b2) : Rel2 R (a1 ++ a2) (b1 ++ b2) := by
  induction h1 with
  | nil => exact h2
  | cons h _ ih => exact Rel2.cons h ih

theorem Rel2.mem_left {α β : Type} {R : α → β → Prop} {as : List α} {bs : List β}
    (h : Rel2 R as bs) {a : α} (ha : a ∈ as) : ∃ b ∈ bs, R a b := by
  induction h with
  | nil => cases ha
  | cons h _ ih =>
    rcases List.mem_cons.1 ha with rfl | ha
    · exact ⟨_, List.mem_cons_self, h⟩
    · obtain ⟨b, hb, hr⟩ := ih ha
      exact ⟨b, List.mem_cons_of_mem _ hb, hr⟩

theorem Rel2.mem_right {α β : Type} {R : α → β → Prop} {as : List α} {bs : List β}
    (h : Rel2 R as bs) {b : β} (hb : b ∈ bs) : ∃ a ∈ as, R a b := by
  induction h with
  | nil => cases hb
  | cons h _ ih =>
    rcases List.mem_cons.1 hb with rfl | hb
    · exact ⟨_, List.mem_cons_self, h⟩
    · obtain ⟨a, ha, hr⟩ := ih hb
      exact ⟨a, List.mem_cons_of_mem _ ha, hr⟩

theorem Rel2.pairs_left {α β : Type} {R : α → β → Prop} {as : List α} {bs : List β}
    (h : Rel2 R as bs) {p : α × α} (hp : p ∈ Spec.pairsOf as) :
    ∃ q ∈ Spec.pairsOf bs, R p.1 q.1 ∧ R p.2 q.2 := by
  induction h with
  | nil => simp [Spec.pairsOf] at hp
  | @cons a b as bs hab hrest ih =>
    simp only [Spec.pairsOf, List.mem_append, List.mem_map] at hp
    rcases hp with ⟨y, hy, rfl⟩ | hp
    · obtain ⟨y', hy', hr⟩ := hrest.mem_left hy
      exact ⟨(b, y'), by simp [Spec.pairsOf, hy'], hab, hr⟩
    · obtain ⟨q, hq, hr⟩ := ih hp
      exact ⟨q, by simp [Spec.pairsOf, hq], hr⟩

theorem Rel2.pairs_right {α β : Type} {R : α → β → Prop} {as : List α} {bs : List β}
    (h : Rel2 R as bs) {q : β × β} (hq : q ∈ Spec.pairsOf bs) :
    ∃ p ∈ Spec.pairsOf as, R p.1 q.1 ∧ R p.2 q.2 := by
  induction h with
  | nil => simp [Spec.pairsOf] at hq
  | @cons a b as bs hab hrest ih =>
    simp only [Spec.pairsOf, List.mem_append, List.mem_map] at hq
    rcases hq with ⟨y, hy, rfl⟩ | hq
    · obtain ⟨y', hy', hr⟩ := hrest.mem_right hy
      exact ⟨(a, y'), by simp [Spec.pairsOf, hy'], hab, hr⟩
    · obtain ⟨p, hp, hr⟩ := ih hq
      exact ⟨p, by simp [Spec.pairsOf, hp], hr⟩

theorem Rel2.map_left {α β γ : Type} {R : α → β → Prop} {as : List α} {bs : List β}
    (h : Rel2 R as bs) (f : α → γ) : Rel2 (fun c b => ∃ a, c = f a ∧ R a b) (as.map f) bs := by
  induction h with
  | nil => exact Rel2.nil
  | cons h _ ih => exact Rel2.cons ⟨_, rfl, h⟩ ih

mutual
theorem Sel.flat_peq (s : Schema) : ∀ (x : Sel) (p q : Option String), PEq s p q →
    Rel2 (InstEq s) (x.flat s p) (x.flat s q)
  | .field .., p, q, h => by
    simp only [Sel.flat]
    exact Rel2.cons ⟨rfl, h⟩ Rel2.nil
  | .inline tc _ sels, p, q, h => by
    cases tc with
    | none => simp only [Sel.flat]; exact selsFlat_peq s sels p q h
    | some n => simp only [Sel.flat]; exact selsFlat_peq s sels _ _ (PEq.refl _ _)
  | .spread _, p, q, h => by simp only [Sel.flat]; exact Rel2.nil
theorem selsFlat_peq (s : Schema) : ∀ (xs : List Sel) (p q : Option String), PEq s p q →
    Rel2 (InstEq s) (selsFlat s p xs) (selsFlat s q xs)
  | [], p, q, h => by simp only [selsFlat]; exact Rel2.nil
  | x :: xs, p, q, h => by
    simp only [selsFlat]
    exact (Sel.flat_peq s x p q h).append (selsFlat_peq s xs p q h)
end

end Gql.Exec
