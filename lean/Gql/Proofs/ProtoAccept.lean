import Gql.Spec.Protocol

/-!
# Completeness of the protocol validator on well-formed streams (C05)

`StreamOk encl ps` is a declarative, membership-level description of a legal prefix of an
incremental delivery stream (data-free part: `withData = false`).  The theorem
`checkPrefix_of_streamOk` shows that the executable validator `checkPrefix false` accepts
every such stream, i.e. the validator raises no clause on streams that satisfy the declarative
conditions.
-/
namespace Gql.Spec.Protocol

/-- all `pending` entries of a list of payloads -/
def pendEntries (ps : List Payload) : List Pending := ps.flatMap (·.pending)

/-- What one payload `pl` must satisfy, given the payloads `pre` emitted before it. -/
structure PayloadOk (encl : Pending → Pending → Bool) (pre : List Payload) (pl : Payload) : Prop where
  annNodup : (pl.pending.map (·.id)).Nodup
  annFresh : ∀ a ∈ pl.pending, a.id ∉ announcedIds pre ∧ a.id ∉ completedIds pre
  incr : ∀ e ∈ pl.incremental, e.id ∈ announcedIds (pre ++ [pl]) ∧ e.id ∉ completedIds pre
  compNodup : (pl.completed.map (·.id)).Nodup
  comp : ∀ c ∈ pl.completed, c.id ∉ completedIds pre ∧ (c.id ∈ announcedIds (pre ++ [pl]) ∨ c.failed = true)
  nest : ∀ b ∈ pl.pending, ∀ a ∈ pendEntries (pre ++ [pl]),
    a.id ∉ completedIds (pre ++ [pl]) → a.id ≠ b.id → encl a b = false
  last : pl.hasNext = false → ∀ a ∈ pendEntries (pre ++ [pl]), a.id ∈ completedIds (pre ++ [pl])

def StreamOk (encl : Pending → Pending → Bool) (ps : List Payload) : Prop :=
  ∀ pre pl post, ps = pre ++ pl :: post → PayloadOk encl pre pl ∧ (post ≠ [] → pl.hasNext = true)

/-! ## Rewriting facts about the id lists -/

theorem announcedIds_snoc (pre : List Payload) (pl : Payload) :
    announcedIds (pre ++ [pl]) = announcedIds pre ++ pl.pending.map (·.id) := by
  simp [announcedIds]

theorem completedIds_snoc (pre : List Payload) (pl : Payload) :
    completedIds (pre ++ [pl]) = completedIds pre ++ pl.completed.map (·.id) := by
  simp [completedIds]

theorem pendEntries_snoc (pre : List Payload) (pl : Payload) :
    pendEntries (pre ++ [pl]) = pendEntries pre ++ pl.pending := by
  simp [pendEntries]

theorem mem_announcedIds_iff (ps : List Payload) (i : Nat) :
    i ∈ announcedIds ps ↔ ∃ a ∈ pendEntries ps, a.id = i := by
  simp only [announcedIds, pendEntries, List.mem_flatMap, List.mem_map]
  constructor
  · rintro ⟨p, hp, a, ha, rfl⟩; exact ⟨a, ⟨p, hp, ha⟩, rfl⟩
  · rintro ⟨a, ⟨p, hp, ha⟩, rfl⟩; exact ⟨p, hp, a, ha, rfl⟩

/-! ## `findOpen` -/

theorem findOpen_none_iff (ps : List Pending) (i : Nat) :
    findOpen ps i = none ↔ ∀ a ∈ ps, a.id ≠ i := by
  simp [findOpen, List.find?_eq_none]

theorem findOpen_some_mem {ps : List Pending} {i : Nat} {q : Pending}
    (h : findOpen ps i = some q) : q ∈ ps ∧ q.id = i := by
  unfold findOpen at h
  have h1 := List.mem_of_find?_eq_some h
  have h2 := List.find?_some h
  exact ⟨h1, by simpa using h2⟩

theorem findOpen_of_mem {ps : List Pending} {i : Nat} {a : Pending}
    (ha : a ∈ ps) (hi : a.id = i) : ∃ q, findOpen ps i = some q := by
  cases hq : findOpen ps i with
  | some q => exact ⟨q, rfl⟩
  | none => exact absurd hi ((findOpen_none_iff ps i).1 hq a ha)

/-! ## Phase lemmas -/

theorem announce_ok (l : List Pending) : ∀ (st : VState),
    (l.map (·.id)).Nodup → (∀ a ∈ l, a.id ∉ st.announced ∧ a.id ∉ st.used) →
    ∃ st', announce st l = .ok st' ∧ st'.openP = st.openP ++ l ∧
      (∀ i, i ∈ st'.used ↔ i ∈ st.used ∨ i ∈ l.map (·.id)) ∧
      (∀ i, i ∈ st'.announced ↔ i ∈ st.announced ∨ i ∈ l.map (·.id)) ∧
      st'.finished = st.finished := by
  induction l with
  | nil => intro st _ _; exact ⟨st, rfl, by simp, by simp, by simp, rfl⟩
  | cons p r ih =>
    intro st hnd hfr
    have hp := hfr p (by simp)
    simp only [List.map_cons, List.nodup_cons] at hnd
    obtain ⟨st', h, ho, hu, ha, hfin⟩ :=
      ih { st with openP := st.openP ++ [p], used := p.id :: st.used,
                   announced := p.id :: st.announced } hnd.2 (by
        intro a ha
        have h1 := hfr a (by simp [ha])
        have hne : a.id ≠ p.id := by
          intro e; apply hnd.1; rw [← e]; exact List.mem_map_of_mem ha
        simp [h1, hne])
    refine ⟨st', ?_, ?_, ?_, ?_, ?_⟩
    · simp only [announce, hp.1, hp.2, if_false]; exact h
    · simp [ho]
    · intro i; rw [hu]; simp only [List.mem_cons, List.map_cons]; grind
    · intro i; rw [ha]; simp only [List.mem_cons, List.map_cons]; grind
    · exact hfin

theorem applyIncr_ok (st : VState) (l : List Incr)
    (h : ∀ e ∈ l, ∃ a ∈ st.openP, a.id = e.id) : applyIncr false st l = .ok st := by
  induction l with
  | nil => rfl
  | cons e r ih =>
    obtain ⟨a, ha, hae⟩ := h e (by simp)
    obtain ⟨q, hq⟩ := findOpen_of_mem ha hae
    rw [applyIncr, hq]
    simpa using ih (fun e he => h e (by simp [he]))

theorem complete_ok (l : List Completed) : ∀ (st : VState),
    (l.map (·.id)).Nodup →
    (∀ c ∈ l, (∃ a ∈ st.openP, a.id = c.id) ∨ (c.id ∉ st.used ∧ c.failed = true)) →
    ∃ st', complete st l = .ok st' ∧
      (∀ a, a ∈ st'.openP ↔ a ∈ st.openP ∧ a.id ∉ l.map (·.id)) ∧
      (∀ i, i ∈ st.used → i ∈ st'.used) ∧
      (∀ i, i ∈ st'.used → i ∈ st.used ∨ i ∈ l.map (·.id)) ∧
      (∀ c ∈ l, (∃ a ∈ st.openP, a.id = c.id) ∨ c.id ∈ st'.used) ∧
      st'.announced = st.announced ∧ st'.finished = st.finished := by
  induction l with
  | nil => intro st _ _; exact ⟨st, rfl, by simp, by simp, by simp, by simp, rfl, rfl⟩
  | cons c r ih =>
    intro st hnd hc
    simp only [List.map_cons, List.nodup_cons] at hnd
    have hne : ∀ c' ∈ r, c'.id ≠ c.id := by
      intro c' hc' e; apply hnd.1; rw [← e]; exact List.mem_map_of_mem hc'
    cases hq : findOpen st.openP c.id with
    | some q =>
      obtain ⟨hqm, hqi⟩ := findOpen_some_mem hq
      obtain ⟨st', h, ho, hu1, hu2, hcov, han, hfin⟩ :=
        ih { st with openP := st.openP.filter (fun p => p.id != c.id) } hnd.2 (by
          intro c' hc'
          rcases hc c' (by simp [hc']) with ⟨a, ha, hac⟩ | hr
          · left
            refine ⟨a, ?_, hac⟩
            have := hne c' hc'
            simp [ha, hac, this]
          · right; exact hr)
      refine ⟨st', ?_, ?_, hu1, ?_, ?_, han, hfin⟩
      · rw [complete, hq]; exact h
      · intro a; rw [ho]
        simp only [List.mem_filter, bne_iff_ne, ne_eq, List.map_cons, List.mem_cons, not_or]
        grind
      · intro i hi
        rcases hu2 i hi with h1 | h1
        · exact Or.inl h1
        · right; simp [h1]
      · intro c' hc'
        rcases List.mem_cons.1 hc' with rfl | hc'
        · exact Or.inl ⟨q, hqm, hqi⟩
        · rcases hcov c' hc' with ⟨a, ha, hac⟩ | h1
          · exact Or.inl ⟨a, (List.mem_filter.1 ha).1, hac⟩
          · exact Or.inr h1
    | none =>
      have hno := (findOpen_none_iff _ _).1 hq
      have hcr : c.id ∉ st.used ∧ c.failed = true := by
        rcases hc c (by simp) with ⟨a, ha, hac⟩ | hr
        · exact absurd hac (hno a ha)
        · exact hr
      obtain ⟨st', h, ho, hu1, hu2, hcov, han, hfin⟩ :=
        ih { st with used := c.id :: st.used } hnd.2 (by
          intro c' hc'
          rcases hc c' (by simp [hc']) with hl | hr
          · exact Or.inl hl
          · right
            have := hne c' hc'
            simp [hr, this])
      refine ⟨st', ?_, ?_, ?_, ?_, ?_, han, hfin⟩
      · rw [complete, hq]
        simp only [hcr.1, hcr.2, if_false, if_true]
        exact h
      · intro a; rw [ho]
        simp only [List.map_cons, List.mem_cons, not_or]
        constructor
        · rintro ⟨h1, h2⟩; exact ⟨h1, hno a h1, h2⟩
        · rintro ⟨h1, _, h2⟩; exact ⟨h1, h2⟩
      · intro i hi; exact hu1 i (by simp [hi])
      · intro i hi
        rcases hu2 i hi with h1 | h1
        · rcases List.mem_cons.1 h1 with rfl | h1
          · right; simp
          · exact Or.inl h1
        · right; simp [h1]
      · intro c' hc'
        rcases List.mem_cons.1 hc' with rfl | hc'
        · exact Or.inr (hu1 _ (by simp))
        · exact hcov c' hc'

theorem nestingOk_ok (encl : Pending → Pending → Bool) (st : VState) (l : List Pending)
    (h : ∀ b ∈ l, st.openP.any (fun a => a.id != b.id && encl a b) = false) :
    nestingOk encl st l = .ok () := by
  induction l with
  | nil => rfl
  | cons b r ih =>
    rw [nestingOk, h b (by simp)]
    simpa using ih (fun b hb => h b (by simp [hb]))

theorem stepPayload_ok (encl : Pending → Pending → Bool) (st s1 s2 s3 : VState) (p : Payload)
    (hf : st.finished = false)
    (h1 : announce st p.pending = .ok s1)
    (h2 : applyIncr false s1 p.incremental = .ok s2)
    (h3 : complete s2 p.completed = .ok s3)
    (h4 : nestingOk encl s3 p.pending = .ok ())
    (h5 : p.hasNext = false → s3.openP = []) :
    ∃ st', stepPayload false encl st p = .ok st' ∧
      (p.hasNext = true → st' = { s3 with index := s3.index + 1 }) := by
  unfold stepPayload
  simp only [hf, h1, h2, h3, h4, bind, Except.bind, pure, Except.pure, throw, throwThe,
    MonadExceptOf.throw]
  cases hn : p.hasNext
  · simp [h5 hn]
  · simp

/-! ## The invariant -/

/-- State of the validator after the prefix `pre` (membership level). -/
structure VInv (pre : List Payload) (st : VState) : Prop where
  openP : ∀ a, a ∈ st.openP ↔ a ∈ pendEntries pre ∧ a.id ∉ completedIds pre
  used : ∀ i, i ∈ st.used ↔ i ∈ announcedIds pre ∨ i ∈ completedIds pre
  ann : ∀ i, i ∈ st.announced ↔ i ∈ announcedIds pre
  fin : st.finished = false

theorem vinv_init (d : J) : VInv [] { data := d } :=
  ⟨by simp [pendEntries], by simp [announcedIds, completedIds], by simp [announcedIds], rfl⟩

theorem step_ok (encl : Pending → Pending → Bool) (pre : List Payload) (pl : Payload)
    (st : VState) (hI : VInv pre st) (hP : PayloadOk encl pre pl) :
    ∃ st', stepPayload false encl st pl = .ok st' ∧
      (pl.hasNext = true → VInv (pre ++ [pl]) st') := by
  -- phase 1
  obtain ⟨s1, e1, ho1, hu1, ha1, hf1⟩ := announce_ok pl.pending st hP.annNodup (by
    intro a ha
    have := hP.annFresh a ha
    rw [hI.ann, hI.used]
    grind)
  have hann1 : ∀ i, i ∈ announcedIds (pre ++ [pl]) → i ∈ s1.used := by
    intro i hi
    rw [announcedIds_snoc, List.mem_append] at hi
    rw [hu1, hI.used]; grind
  have hopen1 : ∀ a, a ∈ s1.openP → a.id ∈ announcedIds (pre ++ [pl]) := by
    intro a ha
    rw [ho1, List.mem_append, hI.openP] at ha
    rw [mem_announcedIds_iff, pendEntries_snoc]
    exact ⟨a, by rw [List.mem_append]; grind, rfl⟩
  have hopen : ∀ i, i ∈ announcedIds (pre ++ [pl]) → i ∉ completedIds pre →
      ∃ a ∈ s1.openP, a.id = i := by
    intro i hi hc
    obtain ⟨a, ha, rfl⟩ := (mem_announcedIds_iff _ _).1 hi
    rw [pendEntries_snoc, List.mem_append] at ha
    refine ⟨a, ?_, rfl⟩
    rw [ho1, List.mem_append, hI.openP]
    grind
  -- phase 2
  have e2 : applyIncr false s1 pl.incremental = .ok s1 :=
    applyIncr_ok s1 pl.incremental (fun e he => hopen e.id (hP.incr e he).1 (hP.incr e he).2)
  -- phase 3
  obtain ⟨s3, e3, ho3, hu3a, hu3b, hcov, han3, hf3⟩ :=
    complete_ok pl.completed s1 hP.compNodup (by
      intro c hc
      obtain ⟨hc1, hc2⟩ := hP.comp c hc
      by_cases hca : c.id ∈ announcedIds (pre ++ [pl])
      · exact Or.inl (hopen c.id hca hc1)
      · right
        have hf : c.failed = true := by grind
        refine ⟨?_, hf⟩
        rw [announcedIds_snoc, List.mem_append] at hca
        rw [hu1, hI.used]
        grind)
  have hs3 : ∀ a, a ∈ s3.openP ↔
      a ∈ pendEntries (pre ++ [pl]) ∧ a.id ∉ completedIds (pre ++ [pl]) := by
    intro a
    rw [ho3, ho1, List.mem_append, hI.openP, pendEntries_snoc, completedIds_snoc,
      List.mem_append, List.mem_append]
    constructor
    · rintro ⟨h | h, hn⟩
      · exact ⟨Or.inl h.1, fun hh => hh.elim h.2 hn⟩
      · exact ⟨Or.inr h, fun hh => hh.elim (hP.annFresh a h).2 hn⟩
    · rintro ⟨h | h, hn⟩
      · exact ⟨Or.inl ⟨h, fun hh => hn (Or.inl hh)⟩, fun hh => hn (Or.inr hh)⟩
      · exact ⟨Or.inr h, fun hh => hn (Or.inr hh)⟩
  -- phase 4
  have e4 : nestingOk encl s3 pl.pending = .ok () := by
    apply nestingOk_ok
    intro b hb
    rw [List.any_eq_false]
    intro a ha
    obtain ⟨ha1, ha2⟩ := (hs3 a).1 ha
    by_cases hab : a.id = b.id
    · simp [hab]
    · simp [hP.nest b hb a ha1 ha2 hab]
  -- last payload
  have e5 : pl.hasNext = false → s3.openP = [] := by
    intro hn
    rw [List.eq_nil_iff_forall_not_mem]
    intro a ha
    obtain ⟨ha1, ha2⟩ := (hs3 a).1 ha
    exact ha2 (hP.last hn a ha1)
  obtain ⟨st', est, hst'⟩ := stepPayload_ok encl st s1 s1 s3 pl hI.fin e1 e2 e3 e4 e5
  refine ⟨st', est, fun hn => ?_⟩
  rw [hst' hn]
  refine ⟨hs3, ?_, ?_, ?_⟩
  · intro i
    show i ∈ s3.used ↔ _
    constructor
    · intro hi
      rcases hu3b i hi with h | h
      · rw [hu1, hI.used] at h
        rw [announcedIds_snoc, completedIds_snoc, List.mem_append, List.mem_append]
        grind
      · rw [completedIds_snoc, List.mem_append]; grind
    · rintro (h | h)
      · exact hu3a i (hann1 i h)
      · rw [completedIds_snoc, List.mem_append] at h
        rcases h with h | h
        · apply hu3a; rw [hu1, hI.used]; grind
        · obtain ⟨c, hc, rfl⟩ := List.mem_map.1 h
          rcases hcov c hc with ⟨a, ha, hac⟩ | h
          · rw [← hac]; exact hu3a _ (hann1 _ (hopen1 a ha))
          · exact h
  · intro i
    show i ∈ s3.announced ↔ _
    rw [han3, ha1, hI.ann, announcedIds_snoc, List.mem_append]
  · show s3.finished = false
    rw [hf3, hf1, hI.fin]

theorem runPayloads_ok (encl : Pending → Pending → Bool) (ps : List Payload) :
    ∀ (pre : List Payload) (st : VState), VInv pre st → StreamOk encl (pre ++ ps) →
      ∃ st', runPayloads false encl st ps = .ok st' := by
  induction ps with
  | nil => intro pre st _ _; exact ⟨st, rfl⟩
  | cons pl post ih =>
    intro pre st hI hS
    obtain ⟨hP, hN⟩ := hS pre pl post rfl
    obtain ⟨st', est, hst'⟩ := step_ok encl pre pl st hI hP
    rw [runPayloads, est]
    cases hn : pl.hasNext with
    | true =>
      exact ih (pre ++ [pl]) st' (hst' hn) (by simpa using hS)
    | false =>
      have : post = [] := by
        by_cases hp : post = []
        · exact hp
        · rw [hN hp] at hn; cases hn
      subst this
      exact ⟨st', rfl⟩

theorem checkPrefix_of_streamOk (encl : Pending → Pending → Bool) (d : J) (ps : List Payload)
    (h : StreamOk encl ps) : checkPrefix false encl d ps = none := by
  obtain ⟨st', e⟩ := runPayloads_ok encl ps [] { data := d } (vinv_init d) (by simpa using h)
  simp [checkPrefix, e]

/-! ## Complete streams: `check` -/

/-- A payload with `hasNext = false` that is accepted leaves the validator in the finished state. -/
theorem stepPayload_finished (wd : Bool) (encl : Pending → Pending → Bool) (st st' : VState) (p : Payload)
    (h : stepPayload wd encl st p = .ok st') (hn : p.hasNext = false) : st'.finished = true := by
  unfold stepPayload at h
  simp only [bind, Except.bind, pure, Except.pure, throw, throwThe, MonadExceptOf.throw, hn] at h
  split at h
  · cases h
  · split at h
    · cases h
    · split at h
      · cases h
      · split at h
        · cases h
        · split at h
          · cases h
          · simp only [Bool.not_false, if_true] at h
            split at h
            · cases h
            · cases h; rfl

theorem runPayloads_finished (encl : Pending → Pending → Bool) (ps : List Payload) :
    ∀ (pre : List Payload) (st : VState), VInv pre st → StreamOk encl (pre ++ ps) →
      (∃ l, ps.getLast? = some l ∧ l.hasNext = false) →
      ∃ st', runPayloads false encl st ps = .ok st' ∧ st'.finished = true := by
  induction ps with
  | nil => intro pre st _ _ ⟨l, hl, _⟩; simp at hl
  | cons pl post ih =>
    intro pre st hI hS ⟨l, hl, hlf⟩
    obtain ⟨hP, hN⟩ := hS pre pl post rfl
    obtain ⟨st', est, hst'⟩ := step_ok encl pre pl st hI hP
    rw [runPayloads, est]
    cases hn : pl.hasNext with
    | true =>
      have hpost : post ≠ [] := by
        intro hp
        subst hp
        simp at hl
        subst hl
        rw [hn] at hlf; cases hlf
      have hl' : post.getLast? = some l := by
        cases post with
        | nil => exact absurd rfl hpost
        | cons q r => simpa [List.getLast?_cons_cons] using hl
      exact ih (pre ++ [pl]) st' (hst' hn) (by simpa using hS) ⟨l, hl', hlf⟩
    | false =>
      have : post = [] := by
        by_cases hp : post = []
        · exact hp
        · rw [hN hp] at hn; cases hn
      subst this
      exact ⟨st', rfl, stepPayload_finished false encl st st' pl est hn⟩

/-- A stream that satisfies `StreamOk` and ends with `hasNext = false` is accepted by `check` as a
complete stream. -/
theorem check_of_streamOk (encl : Pending → Pending → Bool) (d : J) (ps : List Payload)
    (h : StreamOk encl ps) (hl : ∃ l, ps.getLast? = some l ∧ l.hasNext = false) :
    check false encl d ps = none := by
  obtain ⟨st', e, hf⟩ := runPayloads_finished encl ps [] { data := d } (vinv_init d) (by simpa using h) hl
  simp [check, e, hf]

/-! ## Non-vacuity: a two-payload stream satisfying `StreamOk` -/

example : StreamOk (fun _ _ => false)
    [{ pending := [⟨0, [], none⟩] },
     { incremental := [.defer 0 [] .null], completed := [⟨0, false⟩], hasNext := false }] := by
  intro pre pl post h
  rcases pre with _ | ⟨x, _ | ⟨y, _ | ⟨z, pre⟩⟩⟩
  · simp only [List.nil_append, List.cons.injEq] at h
    obtain ⟨rfl, rfl⟩ := h
    refine ⟨⟨?_, ?_, ?_, ?_, ?_, ?_, ?_⟩, ?_⟩ <;>
      simp [announcedIds, completedIds, pendEntries]
  · simp only [List.cons_append, List.nil_append, List.cons.injEq] at h
    obtain ⟨rfl, rfl, rfl⟩ := h
    refine ⟨⟨?_, ?_, ?_, ?_, ?_, ?_, ?_⟩, ?_⟩ <;>
      simp [announcedIds, completedIds, pendEntries, Incr.id]
  · simp at h
  · simp at h

end Gql.Spec.Protocol
