import Gql.Validation.Rules
/-!
C12 — `group_by` + "report every group with more than one node" reports nothing iff the keys are pairwise distinct.
-/
namespace Gql.Validation.Rules

/-- one round of `group_by`: `result[key].append(item)` -/
def gstep (acc : List (String × List Nat)) (kv : String × Nat) : List (String × List Nat) :=
  if acc.any (fun g => g.1 == kv.1) then acc.map (fun g => if g.1 == kv.1 then (g.1, g.2 ++ [kv.2]) else g)
  else acc ++ [(kv.1, [kv.2])]

theorem groupBy_eq (items : List (String × Nat)) : groupBy items = items.foldl gstep [] := rfl

theorem fold_small (items : List (String × Nat)) : ∀ acc : List (String × List Nat), (∀ g ∈ acc, 1 ≤ g.2.length) →
    ((∀ g ∈ items.foldl gstep acc, g.2.length ≤ 1) ↔
      (∀ g ∈ acc, g.2.length ≤ 1) ∧ (items.map Prod.fst).Nodup ∧ ∀ kv ∈ items, ∀ g ∈ acc, g.1 ≠ kv.1) := by
  induction items with
  | nil => intro acc _; simp
  | cons kv rest ih =>
    intro acc hg
    simp only [List.foldl_cons]
    by_cases hany : acc.any (fun g => g.1 == kv.1) = true
    · obtain ⟨g0, hg0, hk⟩ := List.any_eq_true.mp hany
      have hk' : g0.1 = kv.1 := by simpa using hk
      have hstep : gstep acc kv = acc.map (fun g => if g.1 == kv.1 then (g.1, g.2 ++ [kv.2]) else g) := by
        simp only [gstep, hany, if_true]
      have hgood : ∀ g ∈ gstep acc kv, 1 ≤ g.2.length := by
        rw [hstep]
        intro g hgm
        obtain ⟨g1, hg1, rfl⟩ := List.mem_map.mp hgm
        by_cases h : (g1.1 == kv.1) = true
        · simp [h]
        · simp [h]; exact hg g1 hg1
      rw [ih _ hgood]
      constructor
      · rintro ⟨h1, _, _⟩
        exfalso
        have hm : (g0.1, g0.2 ++ [kv.2]) ∈ gstep acc kv := by
          rw [hstep]
          refine List.mem_map.mpr ⟨g0, hg0, ?_⟩
          simp [hk']
        have a1 : (g0.2 ++ [kv.2]).length ≤ 1 := h1 _ hm
        have a2 : 1 ≤ g0.2.length := hg g0 hg0
        rw [List.length_append] at a1
        simp only [List.length_cons, List.length_nil] at a1
        omega
      · rintro ⟨_, _, h3⟩
        exact absurd hk' (h3 kv (List.mem_cons_self) g0 hg0)
    · have hnone : ∀ g ∈ acc, g.1 ≠ kv.1 := by
        intro g hgm h
        apply hany
        exact List.any_eq_true.mpr ⟨g, hgm, by simpa using h⟩
      have hstep : gstep acc kv = acc ++ [(kv.1, [kv.2])] := by
        simp only [gstep, hany]
        simp
      have hgood : ∀ g ∈ gstep acc kv, 1 ≤ g.2.length := by
        rw [hstep]
        intro g hgm
        rcases List.mem_append.mp hgm with h | h
        · exact hg g h
        · simp at h; subst h; simp
      rw [ih _ hgood, hstep]
      constructor
      · rintro ⟨h1, h2, h3⟩
        refine ⟨fun g hgm => h1 g (List.mem_append_left _ hgm), ?_, ?_⟩
        · simp only [List.map_cons, List.nodup_cons]
          refine ⟨?_, h2⟩
          intro hmem
          obtain ⟨kv', hkv', he⟩ := List.mem_map.mp hmem
          exact h3 kv' hkv' (kv.1, [kv.2]) (List.mem_append_right _ (by simp)) he.symm
        · intro kv' hkv' g hgm
          rcases List.mem_cons.mp hkv' with rfl | hr
          · exact hnone g hgm
          · exact h3 kv' hr g (List.mem_append_left _ hgm)
      · rintro ⟨h1, h2, h3⟩
        simp only [List.map_cons, List.nodup_cons] at h2
        refine ⟨?_, h2.2, ?_⟩
        · intro g hgm
          rcases List.mem_append.mp hgm with h | h
          · exact h1 g h
          · simp at h; subst h; simp
        · intro kv' hkv' g hgm
          rcases List.mem_append.mp hgm with h | h
          · exact h3 kv' (List.mem_cons_of_mem _ hkv') g h
          · simp at h; subst h
            intro he
            exact h2.1 (List.mem_map.mpr ⟨kv', hkv', he.symm⟩)

/-- No duplicate is reported iff the keys are pairwise distinct. -/
theorem dupErrors_nil_iff (rule : String) (items : List (String × Nat)) :
    dupErrors rule items = [] ↔ (items.map Prod.fst).Nodup := by
  unfold dupErrors
  rw [List.filterMap_eq_nil_iff, groupBy_eq]
  have h := fold_small items [] (by simp)
  simp only [List.not_mem_nil, false_imp_iff, implies_true, true_and, and_true] at h
  rw [← h]
  apply forall_congr'; intro g
  apply imp_congr_right; intro _
  by_cases hl : g.2.length > 1
  · simp [hl]
  · simp [hl]; omega

end Gql.Validation.Rules
