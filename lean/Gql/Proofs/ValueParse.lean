import Gql.Proofs.TypeParse
import Gql.Proofs.ValueLex
/-!
The parser model on the tokens of a printed value: `parse_value_literal` rebuilds the tree.
-/
namespace Gql.Syntax
open Gql Gql.Text

theorem vm_dollar : valueMethodOf .dollar = some "variable_value" := by decide
theorem vm_int : valueMethodOf .int = some "int" := by decide
theorem vm_float : valueMethodOf .float = some "float" := by decide
theorem vm_string : valueMethodOf .string = some "string_literal" := by decide
theorem vm_block : valueMethodOf .blockString = some "string_literal" := by decide
theorem vm_name : valueMethodOf .name = some "named_values" := by decide
theorem vm_bracketL : valueMethodOf .bracketL = some "list" := by decide
theorem vm_braceL : valueMethodOf .braceL = some "object" := by decide

theorem mk_var (x : Ast) : mkNode "VariableNode" [("name", x)] = .node "VariableNode" [("name", x)] := rfl
theorem mk_int (x : Ast) : mkNode "IntValueNode" [("value", x)] = .node "IntValueNode" [("value", x)] := rfl
theorem mk_float (x : Ast) : mkNode "FloatValueNode" [("value", x)] = .node "FloatValueNode" [("value", x)] := rfl
theorem mk_str (x y : Ast) : mkNode "StringValueNode" [("value", x), ("block", y)] =
    .node "StringValueNode" [("value", x), ("block", y)] := rfl
theorem mk_bool (x : Ast) : mkNode "BooleanValueNode" [("value", x)] = .node "BooleanValueNode" [("value", x)] := rfl
theorem mk_null : mkNode "NullValueNode" [] = .node "NullValueNode" [] := rfl
theorem mk_enum (x : Ast) : mkNode "EnumValueNode" [("value", x)] = .node "EnumValueNode" [("value", x)] := rfl
theorem mk_list (x : Ast) : mkNode "ListValueNode" [("values", x)] = .node "ListValueNode" [("values", x)] := rfl
theorem mk_obj (x : Ast) : mkNode "ObjectValueNode" [("fields", x)] = .node "ObjectValueNode" [("fields", x)] := rfl
theorem mk_field (x y : Ast) : mkNode "ObjectFieldNode" [("name", x), ("value", y)] =
    .node "ObjectFieldNode" [("name", x), ("value", y)] := rfl

theorem NonEof.tail {t : Token} {ts : List Token} (h : NonEof (t :: ts)) : NonEof ts :=
  fun x hx => h x (by simp [hx])

theorem NonEof.head {t : Token} {ts : List Token} (h : NonEof (t :: ts)) : t.kind ≠ .eof := h t (by simp)

theorem NonEof.append_right {a b : List Token} (h : NonEof (a ++ b)) : NonEof b :=
  fun x hx => h x (by simp [hx])

theorem NonEof.append_left {a b : List Token} (h : NonEof (a ++ b)) : NonEof a :=
  fun x hx => h x (by simp [hx])

/-- `advance_lexer` then continue: the one-token value parsers. -/
theorem advance_cur (cfg : Cfg) (hm : cfg.maxTokens = none) (t : Token) (r : Stream) (c : Nat)
    (ht : t.kind ≠ .eof) (hr : r.Ready) (f : Token → Ast) :
    ∃ c', (do let t ← P.cur
              advanceLexer cfg
              pure (f t) : P Ast) { cur := t, rest := r, count := c } = .ok (f t, PSat c' r) := by
  obtain ⟨c', h⟩ := advance_PSat cfg hm t r c ht hr
  exact ⟨c', by simp only [bind_eq, P.cur, h, pure_eq']⟩

end Gql.Syntax

namespace Gql.Syntax
open Gql Gql.Text

theorem valueLit_dispatch (cfg : Cfg) (n : Nat) (c : Bool) (s : PS) (m : String)
    (h : valueMethodOf s.cur.kind = some m) :
    valueLit (n + 1) cfg c s = dispatchValue cfg n c (valueLit n cfg c) m s := by
  simp only [valueLit, bind_eq, P.cur, h]

theorem dv_list (cfg : Cfg) (n : Nat) (c : Bool) (value : P Ast) :
    dispatchValue cfg n c value "list" = (do
      let vs ← parseAny cfg n .bracketL value .bracketR
      pure (mkNode "ListValueNode" [("values", .list vs)])) := by simp [dispatchValue]
theorem dv_object (cfg : Cfg) (n : Nat) (c : Bool) (value : P Ast) :
    dispatchValue cfg n c value "object" = (do
      let fs ← parseAny cfg n .braceL (parseObjectField cfg value) .braceR
      pure (mkNode "ObjectValueNode" [("fields", .list fs)])) := by simp [dispatchValue]
theorem dv_int (cfg : Cfg) (n : Nat) (c : Bool) (value : P Ast) :
    dispatchValue cfg n c value "int" = parseNumber cfg "IntValueNode" := by simp [dispatchValue]
theorem dv_float (cfg : Cfg) (n : Nat) (c : Bool) (value : P Ast) :
    dispatchValue cfg n c value "float" = parseNumber cfg "FloatValueNode" := by simp [dispatchValue]
theorem dv_string (cfg : Cfg) (n : Nat) (c : Bool) (value : P Ast) :
    dispatchValue cfg n c value "string_literal" = parseStringLiteral cfg := by simp [dispatchValue]
theorem dv_named (cfg : Cfg) (n : Nat) (c : Bool) (value : P Ast) :
    dispatchValue cfg n c value "named_values" = parseNamedValues cfg := by simp [dispatchValue]
theorem dv_var (cfg : Cfg) (n : Nat) (c : Bool) (value : P Ast) :
    dispatchValue cfg n c value "variable_value" = parseVariableValue cfg c := by simp [dispatchValue]

/-- The first token of a value is not a closing bracket. -/
theorem kvs_head (v : Val) : ∃ k ks, v.kvs = k :: ks ∧ k.1 ≠ .bracketR ∧ k.1 ≠ .braceR := by
  cases v with
  | var n => exact ⟨_, _, rfl, by simp, by simp⟩
  | int s => exact ⟨_, _, rfl, by simp, by simp⟩
  | float s => exact ⟨_, _, rfl, by simp, by simp⟩
  | str s b => cases b <;> exact ⟨_, _, rfl, by simp, by simp⟩
  | bool b => exact ⟨_, _, rfl, by simp, by simp⟩
  | null => exact ⟨_, _, rfl, by simp, by simp⟩
  | enum n => exact ⟨_, _, rfl, by simp, by simp⟩
  | list vs => exact ⟨_, _, rfl, by simp, by simp⟩
  | obj fs => exact ⟨_, _, rfl, by simp, by simp⟩

theorem length_le_kvsList (vs : List Val) : vs.length ≤ (Val.kvsList vs).length := by
  induction vs with
  | nil => simp [Val.kvsList]
  | cons v r ih =>
    obtain ⟨k, ks, hk, _⟩ := kvs_head v
    simp [Val.kvsList, hk]; omega

theorem length_le_kvsFields (fs : List (List Nat × Val)) : fs.length ≤ (Val.kvsFields fs).length := by
  induction fs with
  | nil => simp [Val.kvsFields]
  | cons f r ih => obtain ⟨n, v⟩ := f; simp [Val.kvsFields]; omega

end Gql.Syntax

namespace Gql.Syntax
open Gql Gql.Text

theorem tok_of_kv {t : Token} {k : TokKind} {v : Option (List Nat)} (h : t.kv = (k, v)) :
    t.kind = k ∧ t.value = v := ⟨congrArg Prod.fst h, congrArg Prod.snd h⟩

theorem valueIs_iff {t : Token} {n : List Nat} (hv : t.value = some n) (s : String) :
    valueIs t s = true ↔ n = S s := by
  simp [valueIs, hv, strCps, S]

theorem valueIs_false {t : Token} {n : List Nat} (hv : t.value = some n) (s : String) (h : n ≠ S s) :
    valueIs t s = false := by
  cases hx : valueIs t s with
  | false => rfl
  | true => exact absurd ((valueIs_iff hv s).mp hx) h

theorem S_ne : S "false" ≠ S "true" ∧ S "null" ≠ S "true" ∧ S "null" ≠ S "false" := by decide

/-- `parse_named_values` on a NAME token. -/
theorem parseNamedValues_ok (cfg : Cfg) (hm : cfg.maxTokens = none) (t : Token) (n : List Nat) (r : Stream)
    (c : Nat) (hk : t.kind = .name) (hv : t.value = some n) (hr : r.Ready) :
    ∃ c', parseNamedValues cfg { cur := t, rest := r, count := c } =
      .ok ((if n = S "true" then .node "BooleanValueNode" [("value", .bool true)]
            else if n = S "false" then .node "BooleanValueNode" [("value", .bool false)]
            else if n = S "null" then .node "NullValueNode" []
            else .node "EnumValueNode" [("value", .str n)]), PSat c' r) := by
  obtain ⟨c', h⟩ := advance_PSat cfg hm t r c (by rw [hk]; decide) hr
  refine ⟨c', ?_⟩
  simp only [parseNamedValues, bind_eq, P.cur, h]
  by_cases h1 : n = S "true"
  · simp [(valueIs_iff hv "true").mpr h1, h1, pure_eq', mk_bool]
  · rw [valueIs_false hv "true" h1]
    by_cases h2 : n = S "false"
    · simp [(valueIs_iff hv "false").mpr h2, h2, S_ne.1, pure_eq', mk_bool]
    · rw [valueIs_false hv "false" h2]
      by_cases h3 : n = S "null"
      · simp [(valueIs_iff hv "null").mpr h3, h3, S_ne.2.1, S_ne.2.2, pure_eq', mk_null]
      · rw [valueIs_false hv "null" h3]
        simp [h1, h2, h3, pure_eq', mk_enum, tokValOrEmpty, hv]

end Gql.Syntax

namespace Gql.Syntax
open Gql Gql.Text

section
variable (cfg : Cfg) (hm : cfg.maxTokens = none) (c : Bool)
include hm

mutual
  theorem parseV (v : Val) (h : Val.wf c v) (n : Nat) (toks : List Token) (r : Stream) (cnt : Nat)
      (hn : v.kvs.length < n) (hkv : toks.map Token.kv = v.kvs) (hne : NonEof toks) (hr : r.Ready) :
      ∃ c', valueLit n cfg c (PSat cnt (feed toks r)) = .ok (v.toAst, PSat c' r) := by
    obtain ⟨n, rfl⟩ : ∃ n', n = n' + 1 := ⟨n - 1, by omega⟩
    match v, h with
    | .var nm, h =>
      rw [show (Val.var nm).kvs = [(.dollar, none), (.name, some nm)] from rfl] at hkv
      simp only [List.map_eq_cons_iff, List.map_eq_nil_iff] at hkv
      obtain ⟨tD, ts, rfl, hkD, tN, ts2, rfl, hkN, rfl⟩ := hkv
      obtain ⟨hDk, _⟩ := tok_of_kv hkD
      obtain ⟨hNk, hNv⟩ := tok_of_kv hkN
      have hc : c = false := h.1
      subst hc
      have hNne : tN.kind ≠ .eof := by rw [hNk]; decide
      obtain ⟨c1, h1⟩ := expectToken_ok cfg hm .dollar tD (.cons tN r) cnt hDk (by rw [hDk]; decide)
        (by simp [Stream.Ready, hNne])
      obtain ⟨c2, h2⟩ := parseName_ok cfg hm tN nm r c1 hNk hNv hr
      refine ⟨c2, ?_⟩
      rw [valueLit_dispatch cfg n false _ "variable_value" (by simp [feed, hDk, vm_dollar]), dv_var]
      simp only [feed, PSat_cons, parseVariableValue, Bool.false_eq_true, ↓reduceIte, parseVariable,
        bind_eq, h1, h2, pure_eq', mk_var, Val.toAst, Val.nameNode]
    | .int s, _ =>
      rw [show (Val.int s).kvs = [(.int, some s)] from rfl] at hkv
      simp only [List.map_eq_cons_iff, List.map_eq_nil_iff] at hkv
      obtain ⟨t, ts, rfl, hk, rfl⟩ := hkv
      obtain ⟨hk1, hv1⟩ := tok_of_kv hk
      obtain ⟨c1, h1⟩ := advance_cur cfg hm t r cnt (by rw [hk1]; decide) hr
        (fun t => mkNode "IntValueNode" [("value", tokValOrEmpty t)])
      refine ⟨c1, ?_⟩
      rw [valueLit_dispatch cfg n c _ "int" (by simp [feed, hk1, vm_int]), dv_int]
      simp only [feed, PSat_cons, parseNumber]
      rw [h1]
      simp [mk_int, tokValOrEmpty, hv1, Val.toAst]
    | .float s, _ =>
      rw [show (Val.float s).kvs = [(.float, some s)] from rfl] at hkv
      simp only [List.map_eq_cons_iff, List.map_eq_nil_iff] at hkv
      obtain ⟨t, ts, rfl, hk, rfl⟩ := hkv
      obtain ⟨hk1, hv1⟩ := tok_of_kv hk
      obtain ⟨c1, h1⟩ := advance_cur cfg hm t r cnt (by rw [hk1]; decide) hr
        (fun t => mkNode "FloatValueNode" [("value", tokValOrEmpty t)])
      refine ⟨c1, ?_⟩
      rw [valueLit_dispatch cfg n c _ "float" (by simp [feed, hk1, vm_float]), dv_float]
      simp only [feed, PSat_cons, parseNumber]
      rw [h1]
      simp [mk_float, tokValOrEmpty, hv1, Val.toAst]
    | .str s b, _ =>
      rw [show (Val.str s b).kvs = [(if b then .blockString else .string, some s)] from rfl] at hkv
      simp only [List.map_eq_cons_iff, List.map_eq_nil_iff] at hkv
      obtain ⟨t, ts, rfl, hk, rfl⟩ := hkv
      obtain ⟨hk1, hv1⟩ := tok_of_kv hk
      have hne' : t.kind ≠ .eof := by rw [hk1]; cases b <;> decide
      obtain ⟨c1, h1⟩ := advance_cur cfg hm t r cnt hne' hr
        (fun t => mkNode "StringValueNode" [("value", tokValOrEmpty t), ("block", .bool (t.kind == .blockString))])
      refine ⟨c1, ?_⟩
      have hvm : valueMethodOf t.kind = some "string_literal" := by
        rw [hk1]; cases b <;> simp [vm_block, vm_string]
      rw [valueLit_dispatch cfg n c _ "string_literal" (by simpa [feed] using hvm), dv_string]
      simp only [feed, PSat_cons, parseStringLiteral]
      rw [h1]
      cases b <;> simp [mk_str, tokValOrEmpty, hv1, Val.toAst, hk1]
    | .bool b, _ =>
      rw [show (Val.bool b).kvs = [(.name, some (if b then S "true" else S "false"))] from rfl] at hkv
      simp only [List.map_eq_cons_iff, List.map_eq_nil_iff] at hkv
      obtain ⟨t, ts, rfl, hk, rfl⟩ := hkv
      obtain ⟨hk1, hv1⟩ := tok_of_kv hk
      obtain ⟨c1, h1⟩ := parseNamedValues_ok cfg hm t _ r cnt hk1 hv1 hr
      refine ⟨c1, ?_⟩
      rw [valueLit_dispatch cfg n c _ "named_values" (by simp [feed, hk1, vm_name]), dv_named]
      simp only [feed, PSat_cons]
      rw [h1]
      cases b <;> simp [Val.toAst, S_ne.1]
    | .null, _ =>
      rw [show Val.null.kvs = [(.name, some (S "null"))] from rfl] at hkv
      simp only [List.map_eq_cons_iff, List.map_eq_nil_iff] at hkv
      obtain ⟨t, ts, rfl, hk, rfl⟩ := hkv
      obtain ⟨hk1, hv1⟩ := tok_of_kv hk
      obtain ⟨c1, h1⟩ := parseNamedValues_ok cfg hm t _ r cnt hk1 hv1 hr
      refine ⟨c1, ?_⟩
      rw [valueLit_dispatch cfg n c _ "named_values" (by simp [feed, hk1, vm_name]), dv_named]
      simp only [feed, PSat_cons]
      rw [h1]
      simp [Val.toAst, S_ne.2.1, S_ne.2.2]
    | .enum nm, h =>
      rw [show (Val.enum nm).kvs = [(.name, some nm)] from rfl] at hkv
      simp only [List.map_eq_cons_iff, List.map_eq_nil_iff] at hkv
      obtain ⟨t, ts, rfl, hk, rfl⟩ := hkv
      obtain ⟨hk1, hv1⟩ := tok_of_kv hk
      obtain ⟨c1, h1⟩ := parseNamedValues_ok cfg hm t _ r cnt hk1 hv1 hr
      refine ⟨c1, ?_⟩
      rw [valueLit_dispatch cfg n c _ "named_values" (by simp [feed, hk1, vm_name]), dv_named]
      simp only [feed, PSat_cons]
      rw [h1]
      simp [Val.toAst, h.2.1, h.2.2.1, h.2.2.2]
    | .list vs, h =>
      rw [show (Val.list vs).kvs = (.bracketL, none) :: (Val.kvsList vs ++ [(.bracketR, none)]) from rfl] at hkv hn
      rw [List.map_eq_cons_iff] at hkv
      obtain ⟨tL, ts, rfl, hkL, hkv⟩ := hkv
      rw [List.map_eq_append_iff] at hkv
      obtain ⟨tsI, tsR, rfl, hkI, hkR⟩ := hkv
      simp only [List.map_eq_cons_iff, List.map_eq_nil_iff] at hkR
      obtain ⟨tR, tsE, rfl, hkR, rfl⟩ := hkR
      obtain ⟨hLk, _⟩ := tok_of_kv hkL
      obtain ⟨hRk, _⟩ := tok_of_kv hkR
      have hneI : NonEof tsI := hne.tail.append_left
      have hRne : tR.kind ≠ .eof := by rw [hRk]; decide
      have hready1 : (feed tsI (.cons tR r)).Ready := feed_ready _ _ hneI (by simp [Stream.Ready, hRne])
      obtain ⟨c1, h1⟩ := expectToken_ok cfg hm .bracketL tL (feed tsI (.cons tR r)) cnt hLk
        (by rw [hLk]; decide) hready1
      have hlen : (Val.kvsList vs).length + 1 < n := by
        simp only [List.length_cons, List.length_append, List.length_nil] at hn; omega
      have hvsl := length_le_kvsList vs
      obtain ⟨c2, h2⟩ := parseL vs h n n tsI tR r c1 [] (by omega) (by omega) hkI hneI hRk hr
      refine ⟨c2, ?_⟩
      rw [valueLit_dispatch cfg n c _ "list" (by simp [feed, hLk, vm_bracketL]), dv_list]
      simp only [feed, feed_append, PSat_cons, parseAny, bind_eq, h1, h2, pure_eq', List.nil_append,
        mk_list, Val.toAst]
    | .obj fs, h =>
      rw [show (Val.obj fs).kvs = (.braceL, none) :: (Val.kvsFields fs ++ [(.braceR, none)]) from rfl] at hkv hn
      rw [List.map_eq_cons_iff] at hkv
      obtain ⟨tL, ts, rfl, hkL, hkv⟩ := hkv
      rw [List.map_eq_append_iff] at hkv
      obtain ⟨tsI, tsR, rfl, hkI, hkR⟩ := hkv
      simp only [List.map_eq_cons_iff, List.map_eq_nil_iff] at hkR
      obtain ⟨tR, tsE, rfl, hkR, rfl⟩ := hkR
      obtain ⟨hLk, _⟩ := tok_of_kv hkL
      obtain ⟨hRk, _⟩ := tok_of_kv hkR
      have hneI : NonEof tsI := hne.tail.append_left
      have hRne : tR.kind ≠ .eof := by rw [hRk]; decide
      have hready1 : (feed tsI (.cons tR r)).Ready := feed_ready _ _ hneI (by simp [Stream.Ready, hRne])
      obtain ⟨c1, h1⟩ := expectToken_ok cfg hm .braceL tL (feed tsI (.cons tR r)) cnt hLk
        (by rw [hLk]; decide) hready1
      have hlen : (Val.kvsFields fs).length + 1 < n := by
        simp only [List.length_cons, List.length_append, List.length_nil] at hn; omega
      have hfsl := length_le_kvsFields fs
      obtain ⟨c2, h2⟩ := parseF fs h n n tsI tR r c1 [] (by omega) (by omega) hkI hneI hRk hr
      refine ⟨c2, ?_⟩
      rw [valueLit_dispatch cfg n c _ "object" (by simp [feed, hLk, vm_braceL]), dv_object]
      simp only [feed, feed_append, PSat_cons, parseAny, bind_eq, h1, h2, pure_eq', List.nil_append,
        mk_obj, Val.toAst]
  theorem parseL (vs : List Val) (h : Val.wfList c vs) (n m : Nat) (toks : List Token) (tR : Token)
      (r : Stream) (cnt : Nat) (acc : List Ast) (hn : (Val.kvsList vs).length < n) (hmm : vs.length < m)
      (hkv : toks.map Token.kv = Val.kvsList vs) (hne : NonEof toks) (hRk : tR.kind = .bracketR)
      (hr : r.Ready) :
      ∃ c', untilClose cfg .bracketR (valueLit n cfg c) m acc (PSat cnt (feed toks (.cons tR r))) =
        .ok (acc ++ Val.toAstList vs, PSat c' r) := by
    obtain ⟨m, rfl⟩ : ∃ m', m = m' + 1 := ⟨m - 1, by omega⟩
    have hRne : tR.kind ≠ .eof := by rw [hRk]; decide
    match vs, h with
    | [], _ =>
      simp only [Val.kvsList, List.map_eq_nil_iff] at hkv
      subst hkv
      obtain ⟨c1, h1⟩ := expectOptionalToken_yes cfg hm .bracketR tR r cnt hRk hRne hr
      exact ⟨c1, by simp only [untilClose, feed, PSat_cons, bind_eq, h1, ↓reduceIte, pure_eq', Val.toAstList,
        List.append_nil]⟩
    | v :: vs', h =>
      rw [show Val.kvsList (v :: vs') = v.kvs ++ Val.kvsList vs' from rfl] at hkv hn
      rw [List.map_eq_append_iff] at hkv
      obtain ⟨tv, ts', rfl, hkv1, hkv2⟩ := hkv
      obtain ⟨k0, ks0, hk0, hnotR, _⟩ := kvs_head v
      have : ∃ t0 tv', tv = t0 :: tv' ∧ t0.kind ≠ .bracketR := by
        rw [hk0] at hkv1
        rw [List.map_eq_cons_iff] at hkv1
        obtain ⟨t0, tv', rfl, ht0, _⟩ := hkv1
        exact ⟨t0, tv', rfl, by rw [(tok_of_kv ht0).1]; exact hnotR⟩
      obtain ⟨t0, tv', rfl, ht0⟩ := this
      have hready : (feed ts' (.cons tR r)).Ready :=
        feed_ready _ _ hne.append_right (by simp [Stream.Ready, hRne])
      have hno : expectOptionalToken cfg .bracketR (PSat cnt (feed (t0 :: tv' ++ ts') (.cons tR r))) =
          .ok (false, PSat cnt (feed (t0 :: tv' ++ ts') (.cons tR r))) :=
        expectOptionalToken_no cfg .bracketR _ (by simpa [feed] using ht0)
      simp only [List.length_append] at hn
      obtain ⟨c1, h1⟩ := parseV v h.1 n (t0 :: tv') (feed ts' (.cons tR r)) cnt (by omega) hkv1
        hne.append_left hready
      obtain ⟨c2, h2⟩ := parseL vs' h.2 n m ts' tR r c1 (acc ++ [v.toAst]) (by omega)
        (by simp at hmm; omega) hkv2 hne.append_right hRk hr
      refine ⟨c2, ?_⟩
      rw [feed_append] at hno ⊢
      simp only [untilClose, bind_eq, hno, Bool.false_eq_true, ↓reduceIte, h1, h2, Val.toAstList]
      simp
  theorem parseF (fs : List (List Nat × Val)) (h : Val.wfFields c fs) (n m : Nat) (toks : List Token)
      (tR : Token) (r : Stream) (cnt : Nat) (acc : List Ast) (hn : (Val.kvsFields fs).length < n)
      (hmm : fs.length < m) (hkv : toks.map Token.kv = Val.kvsFields fs) (hne : NonEof toks)
      (hRk : tR.kind = .braceR) (hr : r.Ready) :
      ∃ c', untilClose cfg .braceR (parseObjectField cfg (valueLit n cfg c)) m acc
          (PSat cnt (feed toks (.cons tR r))) = .ok (acc ++ Val.toAstFields fs, PSat c' r) := by
    obtain ⟨m, rfl⟩ : ∃ m', m = m' + 1 := ⟨m - 1, by omega⟩
    have hRne : tR.kind ≠ .eof := by rw [hRk]; decide
    match fs, h with
    | [], _ =>
      simp only [Val.kvsFields, List.map_eq_nil_iff] at hkv
      subst hkv
      obtain ⟨c1, h1⟩ := expectOptionalToken_yes cfg hm .braceR tR r cnt hRk hRne hr
      exact ⟨c1, by simp only [untilClose, feed, PSat_cons, bind_eq, h1, ↓reduceIte, pure_eq', Val.toAstFields,
        List.append_nil]⟩
    | (nm, v) :: fs', h =>
      rw [show Val.kvsFields ((nm, v) :: fs') =
        (.name, some nm) :: (.colon, none) :: (v.kvs ++ Val.kvsFields fs') from rfl] at hkv hn
      simp only [List.map_eq_cons_iff] at hkv
      obtain ⟨tN, ts1, rfl, hkN, tC, ts2, rfl, hkC, hkv⟩ := hkv
      rw [List.map_eq_append_iff] at hkv
      obtain ⟨tv, ts', rfl, hkv1, hkv2⟩ := hkv
      obtain ⟨hNk, hNv⟩ := tok_of_kv hkN
      obtain ⟨hCk, _⟩ := tok_of_kv hkC
      have hne2 : NonEof (tv ++ ts') := hne.tail.tail
      have hready : (feed ts' (.cons tR r)).Ready :=
        feed_ready _ _ hne2.append_right (by simp [Stream.Ready, hRne])
      have hreadyV : (feed (tv ++ ts') (.cons tR r)).Ready :=
        feed_ready _ _ hne2 (by simp [Stream.Ready, hRne])
      have hCne : tC.kind ≠ .eof := by rw [hCk]; decide
      have hno : expectOptionalToken cfg .braceR (PSat cnt (feed (tN :: tC :: (tv ++ ts')) (.cons tR r))) =
          .ok (false, PSat cnt (feed (tN :: tC :: (tv ++ ts')) (.cons tR r))) :=
        expectOptionalToken_no cfg .braceR _ (by simp [feed, hNk])
      obtain ⟨c1, h1⟩ := parseName_ok cfg hm tN nm (.cons tC (feed (tv ++ ts') (.cons tR r))) cnt hNk hNv
        (by simp [Stream.Ready, hCne])
      obtain ⟨c2, h2⟩ := expectToken_ok cfg hm .colon tC (feed (tv ++ ts') (.cons tR r)) c1 hCk hCne hreadyV
      simp only [List.length_cons, List.length_append] at hn
      obtain ⟨c3, h3⟩ := parseV v h.2.1 n tv (feed ts' (.cons tR r)) c2 (by omega) hkv1
        hne2.append_left hready
      obtain ⟨c4, h4⟩ := parseF fs' h.2.2 n m ts' tR r c3
        (acc ++ [.node "ObjectFieldNode" [("name", Val.nameNode nm), ("value", v.toAst)]]) (by omega)
        (by simp at hmm; omega) hkv2 hne2.append_right hRk hr
      refine ⟨c4, ?_⟩
      simp only [feed, feed_append, PSat_cons] at hno h1 h2 ⊢
      have hfield : parseObjectField cfg (valueLit n cfg c)
          { cur := tN, rest := Stream.cons tC (feed tv (feed ts' (Stream.cons tR r))), count := cnt } =
          .ok (.node "ObjectFieldNode" [("name", Val.nameNode nm), ("value", v.toAst)],
            PSat c3 (feed ts' (Stream.cons tR r))) := by
        simp only [parseObjectField, bind_eq, h1, PSat_cons, h2, h3, pure_eq', mk_field, Val.nameNode]
      simp only [untilClose, bind_eq, hno, Bool.false_eq_true, ↓reduceIte, hfield, h4, Val.toAstFields]
      simp
end

end

end Gql.Syntax
