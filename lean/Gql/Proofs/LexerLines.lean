import Gql.Text.Lexer
import Gql.Proofs.Location
import Gql.Proofs.LexerBasic
/-!
Line bookkeeping of the lexer against the specification's line/column (C10-2).
Part 1: how the prefix scan (`scan (body.take p) 0 0`, which `getLocation_eq_spec` ties to
`Spec.lineCol`) moves when the prefix grows by one character or by a CR LF pair.
-/
namespace Gql.Text
open Spec

theorem scan_other (x : Nat) (t : List Nat) (n k : Nat) (h13 : x ≠ 13) (h10 : x ≠ 10) :
    scan (x :: t) n k = scan t n (k + 1) := by
  rw [scan]
  · intro r hx _; exact h13 hx
  · intro hx; exact h13 hx
  · intro hx; exact h10 hx

/-- Appending one character that does not complete a CR LF pair. -/
theorem scan_snoc (l : List Nat) (c n k : Nat)
    (h : ¬ (l.getLast? = some 13 ∧ c = 10)) :
    scan (l ++ [c]) n k =
      if c = 10 ∨ c = 13 then ((scan l n k).1 + 1, 0) else ((scan l n k).1, (scan l n k).2 + 1) := by
  fun_induction scan l n k
  · -- l = []
    rename_i n k
    simp only [List.nil_append]
    by_cases h13 : c = 13
    · subst h13; simp [scan]
    · by_cases h10 : c = 10
      · subst h10; simp [scan]
      · simp [scan_other c [] n k h13 h10, scan, h13, h10]
  · rename_i rest n k ih
    have h' : ¬ (rest.getLast? = some 13 ∧ c = 10) := by
      intro ⟨a, b⟩; apply h
      refine ⟨?_, b⟩
      cases rest with
      | nil => simp at a
      | cons x xs => simpa [List.getLast?_cons_cons] using a
    simp only [List.cons_append, scan]
    exact ih h'
  · rename_i rest n k hne ih
    cases rest with
    | nil =>
      -- l = [13]; then c ≠ 10
      have hc : c ≠ 10 := by intro hc; exact h ⟨by simp, hc⟩
      simp only [List.cons_append, List.nil_append]
      have e1 : scan [13, c] n k = scan [c] (n + 1) 0 := by
        rw [scan]; intro r hx; simp at hx; exact hc hx.1
      rw [e1]
      have := ih (by simp)
      simpa [scan] using this
    | cons x xs =>
      have hx : ∀ r, (x :: xs) ++ [c] = 10 :: r → False := by
        intro r hr; simp at hr; exact hne xs (by rw [hr.1])
      have h' : ¬ ((x :: xs).getLast? = some 13 ∧ c = 10) := by
        intro ⟨a, b⟩; apply h
        exact ⟨by simpa [List.getLast?_cons_cons] using a, b⟩
      simp only [List.cons_append] at hx ⊢
      rw [scan_cr _ _ _ hx]
      exact ih h'
  · rename_i rest n k ih
    have h' : ¬ (rest.getLast? = some 13 ∧ c = 10) := by
      intro ⟨a, b⟩; apply h
      refine ⟨?_, b⟩
      cases rest with
      | nil => simp at a
      | cons x xs => simpa [List.getLast?_cons_cons] using a
    simp only [List.cons_append, scan]
    exact ih h'
  · rename_i x rest n k h1 h2 h3 ih
    have h' : ¬ (rest.getLast? = some 13 ∧ c = 10) := by
      intro ⟨a, b⟩; apply h
      refine ⟨?_, b⟩
      cases rest with
      | nil => simp at a
      | cons y ys => simpa [List.getLast?_cons_cons] using a
    have hs : ∀ (t : List Nat) n k, scan (x :: t) n k = scan t n (k + 1) :=
      fun t n k => scan_other x t n k (fun e => h2 e) (fun e => h3 e)
    simp only [List.cons_append, hs]
    exact ih h'

end Gql.Text

namespace Gql.Text
open Spec

/-- Appending a CR LF pair always adds exactly one terminator. -/
theorem scan_snoc_crlf (l : List Nat) (n k : Nat) :
    scan (l ++ [13, 10]) n k = ((scan l n k).1 + 1, 0) := by
  fun_induction scan l n k
  · simp [scan]
  · rename_i rest n k ih; simp only [List.cons_append, scan]; exact ih
  · rename_i rest n k hne ih
    have hx : ∀ r, rest ++ [13, 10] = 10 :: r → False := by
      intro r hr
      cases rest with
      | nil => simp at hr
      | cons x xs => simp at hr; exact hne xs (by rw [hr.1])
    simp only [List.cons_append]
    rw [scan_cr _ _ _ hx]; exact ih
  · rename_i rest n k ih; simp only [List.cons_append, scan]; exact ih
  · rename_i x rest n k h1 h2 h3 ih
    simp only [List.cons_append]
    rw [scan_other x _ n k (fun e => h2 e) (fun e => h3 e)]
    exact ih

/-- The prefix scan at offset `p`: (number of terminators ending at or before `p`,
distance from the end of the last one) — see `lineCol_eq_pre`. -/
def pre (body : List Nat) (p : Nat) : Nat × Nat := scan (body.take p) 0 0

theorem take_succ_eq (body : List Nat) (p : Nat) (c : Nat) (h : body[p]? = some c) :
    body.take (p + 1) = body.take p ++ [c] := by
  rw [List.take_succ, h]; rfl

theorem getLast_take (body : List Nat) (p : Nat) (hp : 0 < p) (hl : p ≤ body.length) :
    (body.take p).getLast? = body[p - 1]? := by
  rw [List.getLast?_eq_getElem?]
  simp [List.length_take, Nat.min_eq_left hl, List.getElem?_take]
  omega

theorem pre_step (body : List Nat) (p c : Nat) (h : body[p]? = some c)
    (hin : ¬ insideCRLF body p) :
    pre body (p + 1) =
      if c = 10 ∨ c = 13 then ((pre body p).1 + 1, 0) else ((pre body p).1, (pre body p).2 + 1) := by
  unfold pre
  rw [take_succ_eq body p c h]
  apply scan_snoc
  intro ⟨a, b⟩
  apply hin
  have hlt : p < body.length := by
    rcases Nat.lt_or_ge p body.length with hlt | hge
    · exact hlt
    · have : body[p]? = none := List.getElem?_eq_none hge
      rw [this] at h; exact absurd h (by simp)
  by_cases hp : p = 0
  · subst hp; simp at a
  · refine ⟨by omega, ?_, by rw [h, b]⟩
    rw [← getLast_take body p (by omega) (by omega)]; exact a

theorem pre_crlf (body : List Nat) (p : Nat) (h1 : body[p]? = some 13)
    (h2 : body[p + 1]? = some 10) : pre body (p + 2) = ((pre body p).1 + 1, 0) := by
  unfold pre
  have : body.take (p + 2) = body.take p ++ [13, 10] := by
    rw [take_succ_eq body (p + 1) 10 h2, take_succ_eq body p 13 h1]; simp
  rw [this]; exact scan_snoc_crlf _ _ _

theorem lineCol_eq_pre (body : List Nat) (p : Nat) (hp : p ≤ body.length)
    (hin : ¬ insideCRLF body p) :
    lineCol body p = (1 + (pre body p).1, 1 + (pre body p).2) := by
  have h := getLocation_eq_spec body p hp hin
  unfold getLocation splitNL at h
  obtain ⟨last, hl, h1, h2⟩ := splitNLAux_shape (body.take p) []
  simp only [hl, Out.ok.injEq] at h
  rw [← h, h1, h2]
  simp [pre]; omega

end Gql.Text

/-! Part 2: what each token reader consumes (no CR / LF inside non-block tokens). -/
namespace Gql.Text
open Spec

theorem index_of_lt {ε : Type} (body : List Nat) (i : Nat) (h : i < body.length) :
    (Out.index body i : Out ε Nat) = .ok body[i] := by
  unfold Out.index; simp [h]

/-- No CR / LF among `body[p], …, body[q-1]`. -/
def NoNL (body : List Nat) (p q : Nat) : Prop :=
  ∀ i, p ≤ i → i < q → ∀ c, body[i]? = some c → c ≠ 10 ∧ c ≠ 13

theorem NoNL.refl (body : List Nat) (p : Nat) : NoNL body p p := by
  intro i h1 h2; omega

theorem NoNL.snoc {body : List Nat} {p q : Nat} (h : NoNL body p q) (hq : q < body.length)
    (hc : body[q] ≠ 10 ∧ body[q] ≠ 13) : NoNL body p (q + 1) := by
  intro i h1 h2 c hi
  by_cases e : i = q
  · subst e
    rw [List.getElem?_eq_getElem hq] at hi
    cases hi; exact hc
  · exact h i h1 (by omega) c hi

theorem NoNL.trans {body : List Nat} {p q r : Nat} (h1 : NoNL body p q) (h2 : NoNL body q r) :
    NoNL body p r := by
  intro i a b c hi
  by_cases e : i < q
  · exact h1 i a e c hi
  · exact h2 i (by omega) b c hi

theorem NoNL.cons {body : List Nat} {p q : Nat} (h : NoNL body (p + 1) q) (hp : p < body.length)
    (hc : body[p] ≠ 10 ∧ body[p] ≠ 13) : NoNL body p q := by
  intro i h1 h2 c hi
  by_cases e : i = p
  · subst e
    rw [List.getElem?_eq_getElem hp] at hi
    cases hi; exact hc
  · exact h i (by omega) h2 c hi

theorem isNameContinue_not_nl (c : Nat) (h : isNameContinue c = true) : c ≠ 10 ∧ c ≠ 13 := by
  unfold isNameContinue isLetter isDigit at h
  constructor <;> (intro e; subst e; simp at h)

theorem isDigit_not_nl (c : Nat) (h : isDigit c = true) : c ≠ 10 ∧ c ≠ 13 := by
  unfold isDigit at h
  constructor <;> (intro e; subst e; simp at h)

theorem readNameLoop_spec (body : List Nat) (pos : Nat) (r : Nat)
    (h : readNameLoop body pos = .ok r) (hp : pos ≤ body.length) :
    pos ≤ r ∧ r ≤ body.length ∧ NoNL body pos r := by
  fun_induction readNameLoop body pos generalizing r
  · rename_i pos hlt ih
    rw [index_of_lt body pos hlt] at h
    simp only [Out.bind_ok] at h
    split at h
    · next hc =>
      obtain ⟨a, b, c⟩ := ih r h (by omega)
      exact ⟨by omega, b, c.cons hlt (isNameContinue_not_nl _ hc)⟩
    · simp only [Out.pure_eq, Out.ok.injEq] at h
      subst h; exact ⟨Nat.le_refl _, by omega, NoNL.refl _ _⟩
  · simp only [Out.pure_eq, Out.ok.injEq] at h
    subst h; exact ⟨Nat.le_refl _, hp, NoNL.refl _ _⟩

theorem digitsLoop_spec (body : List Nat) (pos : Nat) (r : Nat)
    (h : digitsLoop body pos = .ok r) (hp : pos ≤ body.length) :
    pos ≤ r ∧ r ≤ body.length ∧ NoNL body pos r := by
  fun_induction digitsLoop body pos generalizing r
  · rename_i pos hlt ih
    rw [index_of_lt body pos hlt] at h
    simp only [Out.bind_ok] at h
    split at h
    · next hc =>
      obtain ⟨a, b, c⟩ := ih r h (by omega)
      exact ⟨by omega, b, c.cons hlt (isDigit_not_nl _ hc)⟩
    · simp only [Out.pure_eq, Out.ok.injEq] at h
      subst h; exact ⟨Nat.le_refl _, by omega, NoNL.refl _ _⟩
  · simp only [Out.pure_eq, Out.ok.injEq] at h
    subst h; exact ⟨Nat.le_refl _, hp, NoNL.refl _ _⟩

end Gql.Text

namespace Gql.Text
open Spec

theorem isSupplementary_spec (body : List Nat) (i : Nat) (h : isSupplementary body i = true) :
    ∃ (h1 : i < body.length) (h2 : i + 1 < body.length),
      isLeadSurrogate body[i] = true ∧ isTrailSurrogate body[i + 1] = true := by
  unfold isSupplementary at h
  split at h
  · next a b ha hb =>
    have h1 : i < body.length := by
      rcases Nat.lt_or_ge i body.length with x | x
      · exact x
      · rw [List.getElem?_eq_none x] at ha; exact absurd ha (by simp)
    have h2 : i + 1 < body.length := by
      rcases Nat.lt_or_ge (i + 1) body.length with x | x
      · exact x
      · rw [List.getElem?_eq_none x] at hb; exact absurd hb (by simp)
    rw [List.getElem?_eq_getElem h1] at ha
    rw [List.getElem?_eq_getElem h2] at hb
    cases ha; cases hb
    simp only [Bool.and_eq_true] at h
    exact ⟨h1, h2, h.1, h.2⟩
  · simp at h

theorem lead_not_nl (c : Nat) (h : isLeadSurrogate c = true) : c ≠ 10 ∧ c ≠ 13 := by
  unfold isLeadSurrogate at h
  constructor <;> (intro e; subst e; simp at h)

theorem trail_not_nl (c : Nat) (h : isTrailSurrogate c = true) : c ≠ 10 ∧ c ≠ 13 := by
  unfold isTrailSurrogate at h
  constructor <;> (intro e; subst e; simp at h)

theorem readCommentLoop_spec (body : List Nat) (pos : Nat) (r : Nat)
    (h : readCommentLoop body pos = .ok r) (hp : pos ≤ body.length) :
    pos ≤ r ∧ r ≤ body.length ∧ NoNL body pos r := by
  fun_induction readCommentLoop body pos generalizing r
  · rename_i pos hlt ih1 ih2
    rw [index_of_lt body pos hlt] at h
    simp only [Out.bind_ok] at h
    split at h
    · simp only [Out.pure_eq, Out.ok.injEq] at h
      subst h; exact ⟨Nat.le_refl _, by omega, NoNL.refl _ _⟩
    · next hnl =>
      have hc : body[pos] ≠ 10 ∧ body[pos] ≠ 13 := by
        constructor <;> (intro e; apply hnl; simp [e])
      split at h
      · obtain ⟨a, b, c⟩ := ih1 r h (by omega)
        exact ⟨by omega, b, c.cons hlt hc⟩
      · split at h
        · next hs =>
          obtain ⟨h1, h2, l1, l2⟩ := isSupplementary_spec body pos hs
          obtain ⟨a, b, c⟩ := ih2 r h (by omega)
          refine ⟨by omega, b, ?_⟩
          exact (c.cons h2 (trail_not_nl _ l2)).cons hlt hc
        · simp only [Out.pure_eq, Out.ok.injEq] at h
          subst h; exact ⟨Nat.le_refl _, by omega, NoNL.refl _ _⟩
  · simp only [Out.pure_eq, Out.ok.injEq] at h
    subst h; exact ⟨Nat.le_refl _, hp, NoNL.refl _ _⟩

end Gql.Text

namespace Gql.Text
open Spec

theorem charAt_some_get (body : List Nat) (i c : Nat) (h : charAt body i = some c) :
    ∃ hl : i < body.length, body[i] = c := by
  unfold charAt at h
  rcases Nat.lt_or_ge i body.length with x | x
  · rw [List.getElem?_eq_getElem x] at h; cases h; exact ⟨x, rfl⟩
  · rw [List.getElem?_eq_none x] at h; exact absurd h (by simp)

theorem readDigits_spec (body : List Nat) (start r : Nat)
    (h : readDigits body start (charAt body start) = .ok r) :
    start < r ∧ r ≤ body.length ∧ NoNL body start r := by
  unfold readDigits at h
  split at h
  · simp at h
  · next hd =>
    simp only [Bool.not_eq_true, Bool.not_eq_false] at hd
    cases hc : charAt body start with
    | none => rw [hc] at hd; simp [isDigitOpt] at hd
    | some c =>
      rw [hc] at hd
      obtain ⟨hl, he⟩ := charAt_some_get body start c hc
      obtain ⟨a, b, d⟩ := digitsLoop_spec body (start + 1) r h (by omega)
      refine ⟨by omega, b, d.cons hl ?_⟩
      rw [he]; exact isDigit_not_nl c (by simpa [isDigitOpt] using hd)

end Gql.Text

namespace Gql.Text
open Spec

/-- What a single-line token reader guarantees: the token carries the lexer's current line and
the column of its start, and its span contains no line terminator. -/
def TokLine (body : List Nat) (st : LexState) (start : Nat) (t : Token) : Prop :=
  t.start = start ∧ t.line = st.line ∧ t.column = 1 + start - st.lineStart ∧
    start < t.stop ∧ t.stop ≤ body.length ∧ NoNL body start t.stop

theorem post_of_spec {α : Type} {x : LexOut α} {P : α → Prop} (hc : ¬ x.isCrash)
    (h : ∀ a, x = .ok a → P a) : Post P x := by
  cases x with
  | ok a => exact h a rfl
  | err e => trivial
  | crash c => simp [Out.isCrash] at hc

theorem readDigits_nonl (body : List Nat) (s : Nat) :
    Post (fun q => s < q ∧ q ≤ body.length ∧ NoNL body s q) (readDigits body s (charAt body s)) := by
  apply post_of_spec
  · exact (readDigits_post body s).noCrash
  · intro q hq; exact readDigits_spec body s q hq

theorem readNumber_line (body : List Nat) (st : LexState) (start first : Nat)
    (h : charAt body start = some first) (hf : isDigit first = true ∨ first = 45) :
    Post (TokLine body st start) (readNumber body st start first) := by
  unfold readNumber
  extract_lets pos0 ch0 fl0 jpFin fl1 jpExpD jpExp jpFrac jpInt pos1 ch1
  obtain ⟨hlen, hget⟩ := charAt_some_get body start first h
  have hfirst : body[start] ≠ 10 ∧ body[start] ≠ 13 := by
    rw [hget]
    rcases hf with hf | hf
    · exact isDigit_not_nl _ hf
    · subst hf; simp
  have hFin : ∀ r p f, start < p → p ≤ body.length → NoNL body start p →
      Post (TokLine body st start) (jpFin r p (charAt body p) f) := by
    intro r p f h1 h2 h3
    simp only [jpFin]
    split
    · simp
    · cases f <;> simp [TokLine, mkToken] <;> exact ⟨h1, h2, h3⟩
  have step1 : ∀ p c, start ≤ p → NoNL body start p → charAt body p = some c → c ≠ 10 ∧ c ≠ 13 →
      p < body.length ∧ NoNL body start (p + 1) := by
    intro p c _ h3 hc hn
    obtain ⟨hl, hg⟩ := charAt_some_get body p c hc
    exact ⟨hl, h3.snoc hl (by rw [hg]; exact hn)⟩
  have hExpD : ∀ r p, start < p → NoNL body start p →
      Post (TokLine body st start) (jpExpD r p (charAt body p)) := by
    intro r p h1 h3
    simp only [jpExpD]
    refine (readDigits_nonl body p).bind ?_
    intro q hq
    exact hFin () _ _ (by omega) hq.2.1 (h3.trans hq.2.2)
  have hExp : ∀ r p f, start < p → p ≤ body.length → NoNL body start p →
      Post (TokLine body st start) (jpExp r p (charAt body p) f) := by
    intro r p f h1 h2 h3
    simp only [jpExp]
    split
    · rename_i he
      have hp1 : p < body.length ∧ NoNL body start (p + 1) := by
        rcases he with he | he
        · exact step1 p 69 (by omega) h3 he (by simp)
        · exact step1 p 101 (by omega) h3 he (by simp)
      split
      · rename_i hs
        have hp2 : p + 1 < body.length ∧ NoNL body start (p + 1 + 1) := by
          rcases hs with hs | hs
          · exact step1 (p + 1) 43 (by omega) hp1.2 hs (by simp)
          · exact step1 (p + 1) 45 (by omega) hp1.2 hs (by simp)
        exact hExpD () _ (by omega) hp2.2
      · exact hExpD () _ (by omega) hp1.2
    · exact hFin () _ _ h1 h2 h3
  have hFrac : ∀ r p, start < p → p ≤ body.length → NoNL body start p →
      Post (TokLine body st start) (jpFrac r p (charAt body p)) := by
    intro r p h1 h2 h3
    simp only [jpFrac]
    split
    · rename_i hd
      have hp1 := step1 p 46 (by omega) h3 hd (by simp)
      refine (readDigits_nonl body _).bind ?_
      intro q hq
      exact hExp () _ _ (by omega) hq.2.1 (hp1.2.trans hq.2.2)
    · exact hExp () _ _ h1 h2 h3
  have hInt : ∀ r p, start ≤ p → NoNL body start p → (p = start → isDigit first = true) →
      Post (TokLine body st start) (jpInt r p (charAt body p)) := by
    intro r p h1 h3 hd
    simp only [jpInt]
    split
    · rename_i h48
      have hp1 := step1 p 48 h1 h3 h48 (by simp)
      split
      · simp
      · exact hFrac () _ (by omega) (by omega) hp1.2
    · refine (readDigits_nonl body _).bind ?_
      intro q hq
      exact hFrac () _ (by omega) hq.2.1 (h3.trans hq.2.2)
  split
  · rename_i hminus
    have : first = 45 := by simpa [ch0] using hminus
    exact hInt () _ (by simp [pos1, pos0]) ((NoNL.refl body start).snoc hlen hfirst) (by simp [pos1, pos0])
  · rename_i hminus
    have hd : isDigit first = true := by
      rcases hf with hf | hf
      · exact hf
      · exact absurd (by simp [ch0, hf]) hminus
    have : ch0 = charAt body pos0 := by simp [ch0, pos0, h]
    rw [this]
    exact hInt () _ (by simp [pos0]) (NoNL.refl _ _) (fun _ => hd)

end Gql.Text
