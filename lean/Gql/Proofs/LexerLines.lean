import Gql.Text.Lexer
import Gql.Proofs.Location
import Gql.Proofs.LexerBasic
/-!
Line bookkeeping of the lexer against the specification's line/column (C10-2).
Part 1: how the prefix scan (`scan (body.take p) 0 0`, which `getLocation_eq_spec` ties to
`Spec.lineCol`) moves when the prefix grows by one character or by a CR LF pair.
-/
namespace Gql.Text
open Spec

theorem scan_other (x : Nat) (t : List Nat) (n k : Nat) (h13 : x ≠ 13) (h10 : x ≠ 10) :
    scan (x :: t) n k = scan t n (k + 1) := by
  rw [scan]
  · intro r hx _; exact h13 hx
  · intro hx; exact h13 hx
  · intro hx; exact h10 hx

/-- Appending one character that does not complete a CR LF pair. -/
theorem scan_snoc (l : List Nat) (c n k : Nat)
    (h : ¬ (l.getLast? = some 13 ∧ c = 10)) :
    scan (l ++ [c]) n k =
      if c = 10 ∨ c = 13 then ((scan l n k).1 + 1, 0) else ((scan l n k).1, (scan l n k).2 + 1) := by
  fun_induction scan l n k
  · -- l = []
    rename_i n k
    simp only [List.nil_append]
    by_cases h13 : c = 13
    · subst h13; simp [scan]
    · by_cases h10 : c = 10
      · subst h10; simp [scan]
      · simp [scan_other c [] n k h13 h10, scan, h13, h10]
  · rename_i rest n k ih
    have h' : ¬ (rest.getLast? = some 13 ∧ c = 10) := by
      intro ⟨a, b⟩; apply h
      refine ⟨?_, b⟩
      cases rest with
      | nil => simp at a
      | cons x xs => simpa [List.getLast?_cons_cons] using a
    simp only [List.cons_append, scan]
    exact ih h'
  · rename_i rest n k hne ih
    cases rest with
    | nil =>
      -- l = [13]; then c ≠ 10
      have hc : c ≠ 10 := by intro hc; exact h ⟨by simp, hc⟩
      simp only [List.cons_append, List.nil_append]
      have e1 : scan [13, c] n k = scan [c] (n + 1) 0 := by
        rw [scan]; intro r hx; simp at hx; exact hc hx.1
      rw [e1]
      have := ih (by simp)
      simpa [scan] using this
    | cons x xs =>
      have hx : ∀ r, (x :: xs) ++ [c] = 10 :: r → False := by
        intro r hr; simp at hr; exact hne xs (by rw [hr.1])
      have h' : ¬ ((x :: xs).getLast? = some 13 ∧ c = 10) := by
        intro ⟨a, b⟩; apply h
        exact ⟨by simpa [List.getLast?_cons_cons] using a, b⟩
      simp only [List.cons_append] at hx ⊢
      rw [scan_cr _ _ _ hx]
      exact ih h'
  · rename_i rest n k ih
    have h' : ¬ (rest.getLast? = some 13 ∧ c = 10) := by
      intro ⟨a, b⟩; apply h
      refine ⟨?_, b⟩
      cases rest with
      | nil => simp at a
      | cons x xs => simpa [List.getLast?_cons_cons] using a
    simp only [List.cons_append, scan]
    exact ih h'
  · rename_i x rest n k h1 h2 h3 ih
    have h' : ¬ (rest.getLast? = some 13 ∧ c = 10) := by
      intro ⟨a, b⟩; apply h
      refine ⟨?_, b⟩
      cases rest with
      | nil => simp at a
      | cons y ys => simpa [List.getLast?_cons_cons] using a
    have hs : ∀ (t : List Nat) n k, scan (x :: t) n k = scan t n (k + 1) :=
      fun t n k => scan_other x t n k (fun e => h2 e) (fun e => h3 e)
    simp only [List.cons_append, hs]
    exact ih h'

end Gql.Text

namespace Gql.Text
open Spec

/-- Appending a CR LF pair always adds exactly one terminator. -/
theorem scan_snoc_crlf (l : List Nat) (n k : Nat) :
    scan (l ++ [13, 10]) n k = ((scan l n k).1 + 1, 0) := by
  fun_induction scan l n k
  · simp [scan]
  · rename_i rest n k ih; simp only [List.cons_append, scan]; exact ih
  · rename_i rest n k hne ih
    have hx : ∀ r, rest ++ [13, 10] = 10 :: r → False := by
      intro r hr
      cases rest with
      | nil => simp at hr
      | cons x xs => simp at hr; exact hne xs (by rw [hr.1])
    simp only [List.cons_append]
    rw [scan_cr _ _ _ hx]; exact ih
  · rename_i rest n k ih; simp only [List.cons_append, scan]; exact ih
  · rename_i x rest n k h1 h2 h3 ih
    simp only [List.cons_append]
    rw [scan_other x _ n k (fun e => h2 e) (fun e => h3 e)]
    exact ih

/-- The prefix scan at offset `p`: (number of terminators ending at or before `p`,
distance from the end of the last one) — see `lineCol_eq_pre`. -/
def pre (body : List Nat) (p : Nat) : Nat × Nat := scan (body.take p) 0 0

theorem take_succ_eq (body : List Nat) (p : Nat) (c : Nat) (h : body[p]? = some c) :
    body.take (p + 1) = body.take p ++ [c] := by
  rw [List.take_succ, h]; rfl

theorem getLast_take (body : List Nat) (p : Nat) (hp : 0 < p) (hl : p ≤ body.length) :
    (body.take p).getLast? = body[p - 1]? := by
  rw [List.getLast?_eq_getElem?]
  simp [List.length_take, Nat.min_eq_left hl, List.getElem?_take]
  omega

theorem pre_step (body : List Nat) (p c : Nat) (h : body[p]? = some c)
    (hin : ¬ insideCRLF body p) :
    pre body (p + 1) =
      if c = 10 ∨ c = 13 then ((pre body p).1 + 1, 0) else ((pre body p).1, (pre body p).2 + 1) := by
  unfold pre
  rw [take_succ_eq body p c h]
  apply scan_snoc
  intro ⟨a, b⟩
  apply hin
  have hlt : p < body.length := by
    rcases Nat.lt_or_ge p body.length with hlt | hge
    · exact hlt
    · have : body[p]? = none := List.getElem?_eq_none hge
      rw [this] at h; exact absurd h (by simp)
  by_cases hp : p = 0
  · subst hp; simp at a
  · refine ⟨by omega, ?_, by rw [h, b]⟩
    rw [← getLast_take body p (by omega) (by omega)]; exact a

theorem pre_crlf (body : List Nat) (p : Nat) (h1 : body[p]? = some 13)
    (h2 : body[p + 1]? = some 10) : pre body (p + 2) = ((pre body p).1 + 1, 0) := by
  unfold pre
  have : body.take (p + 2) = body.take p ++ [13, 10] := by
    rw [take_succ_eq body (p + 1) 10 h2, take_succ_eq body p 13 h1]; simp
  rw [this]; exact scan_snoc_crlf _ _ _

theorem lineCol_eq_pre (body : List Nat) (p : Nat) (hp : p ≤ body.length)
    (hin : ¬ insideCRLF body p) :
    lineCol body p = (1 + (pre body p).1, 1 + (pre body p).2) := by
  have h := getLocation_eq_spec body p hp hin
  unfold getLocation splitNL at h
  obtain ⟨last, hl, h1, h2⟩ := splitNLAux_shape (body.take p) []
  simp only [hl, Out.ok.injEq] at h
  rw [← h, h1, h2]
  simp [pre]; omega

end Gql.Text

/-! Part 2: what each token reader consumes (no CR / LF inside non-block tokens). -/
namespace Gql.Text
open Spec

theorem index_of_lt {ε : Type} (body : List Nat) (i : Nat) (h : i < body.length) :
    (Out.index body i : Out ε Nat) = .ok body[i] := by
  unfold Out.index; simp [h]

/-- No CR / LF among `body[p], …, body[q-1]`. -/
def NoNL (body : List Nat) (p q : Nat) : Prop :=
  ∀ i, p ≤ i → i < q → ∀ c, body[i]? = some c → c ≠ 10 ∧ c ≠ 13

theorem NoNL.refl (body : List Nat) (p : Nat) : NoNL body p p := by
  intro i h1 h2; omega

theorem NoNL.snoc {body : List Nat} {p q : Nat} (h : NoNL body p q) (hq : q < body.length)
    (hc : body[q] ≠ 10 ∧ body[q] ≠ 13) : NoNL body p (q + 1) := by
  intro i h1 h2 c hi
  by_cases e : i = q
  · subst e
    rw [List.getElem?_eq_getElem hq] at hi
    cases hi; exact hc
  · exact h i h1 (by omega) c hi

theorem NoNL.trans {body : List Nat} {p q r : Nat} (h1 : NoNL body p q) (h2 : NoNL body q r) :
    NoNL body p r := by
  intro i a b c hi
  by_cases e : i < q
  · exact h1 i a e c hi
  · exact h2 i (by omega) b c hi

theorem NoNL.cons {body : List Nat} {p q : Nat} (h : NoNL body (p + 1) q) (hp : p < body.length)
    (hc : body[p] ≠ 10 ∧ body[p] ≠ 13) : NoNL body p q := by
  intro i h1 h2 c hi
  by_cases e : i = p
  · subst e
    rw [List.getElem?_eq_getElem hp] at hi
    cases hi; exact hc
  · exact h i (by omega) h2 c hi

theorem isNameContinue_not_nl (c : Nat) (h : isNameContinue c = true) : c ≠ 10 ∧ c ≠ 13 := by
  unfold isNameContinue isLetter isDigit at h
  constructor <;> (intro e; subst e; simp at h)

theorem isDigit_not_nl (c : Nat) (h : isDigit c = true) : c ≠ 10 ∧ c ≠ 13 := by
  unfold isDigit at h
  constructor <;> (intro e; subst e; simp at h)

theorem readNameLoop_spec (body : List Nat) (pos : Nat) (r : Nat)
    (h : readNameLoop body pos = .ok r) (hp : pos ≤ body.length) :
    pos ≤ r ∧ r ≤ body.length ∧ NoNL body pos r := by
  fun_induction readNameLoop body pos generalizing r
  · rename_i pos hlt ih
    rw [index_of_lt body pos hlt] at h
    simp only [Out.bind_ok] at h
    split at h
    · next hc =>
      obtain ⟨a, b, c⟩ := ih r h (by omega)
      exact ⟨by omega, b, c.cons hlt (isNameContinue_not_nl _ hc)⟩
    · simp only [Out.pure_eq, Out.ok.injEq] at h
      subst h; exact ⟨Nat.le_refl _, by omega, NoNL.refl _ _⟩
  · simp only [Out.pure_eq, Out.ok.injEq] at h
    subst h; exact ⟨Nat.le_refl _, hp, NoNL.refl _ _⟩

theorem digitsLoop_spec (body : List Nat) (pos : Nat) (r : Nat)
    (h : digitsLoop body pos = .ok r) (hp : pos ≤ body.length) :
    pos ≤ r ∧ r ≤ body.length ∧ NoNL body pos r := by
  fun_induction digitsLoop body pos generalizing r
  · rename_i pos hlt ih
    rw [index_of_lt body pos hlt] at h
    simp only [Out.bind_ok] at h
    split at h
    · next hc =>
      obtain ⟨a, b, c⟩ := ih r h (by omega)
      exact ⟨by omega, b, c.cons hlt (isDigit_not_nl _ hc)⟩
    · simp only [Out.pure_eq, Out.ok.injEq] at h
      subst h; exact ⟨Nat.le_refl _, by omega, NoNL.refl _ _⟩
  · simp only [Out.pure_eq, Out.ok.injEq] at h
    subst h; exact ⟨Nat.le_refl _, hp, NoNL.refl _ _⟩

end Gql.Text

namespace Gql.Text
open Spec

theorem isSupplementary_spec (body : List Nat) (i : Nat) (h : isSupplementary body i = true) :
    ∃ (h1 : i < body.length) (h2 : i + 1 < body.length),
      isLeadSurrogate body[i] = true ∧ isTrailSurrogate body[i + 1] = true := by
  unfold isSupplementary at h
  split at h
  · next a b ha hb =>
    have h1 : i < body.length := by
      rcases Nat.lt_or_ge i body.length with x | x
      · exact x
      · rw [List.getElem?_eq_none x] at ha; exact absurd ha (by simp)
    have h2 : i + 1 < body.length := by
      rcases Nat.lt_or_ge (i + 1) body.length with x | x
      · exact x
      · rw [List.getElem?_eq_none x] at hb; exact absurd hb (by simp)
    rw [List.getElem?_eq_getElem h1] at ha
    rw [List.getElem?_eq_getElem h2] at hb
    cases ha; cases hb
    simp only [Bool.and_eq_true] at h
    exact ⟨h1, h2, h.1, h.2⟩
  · simp at h

theorem lead_not_nl (c : Nat) (h : isLeadSurrogate c = true) : c ≠ 10 ∧ c ≠ 13 := by
  unfold isLeadSurrogate at h
  constructor <;> (intro e; subst e; simp at h)

theorem trail_not_nl (c : Nat) (h : isTrailSurrogate c = true) : c ≠ 10 ∧ c ≠ 13 := by
  unfold isTrailSurrogate at h
  constructor <;> (intro e; subst e; simp at h)

theorem readCommentLoop_spec (body : List Nat) (pos : Nat) (r : Nat)
    (h : readCommentLoop body pos = .ok r) (hp : pos ≤ body.length) :
    pos ≤ r ∧ r ≤ body.length ∧ NoNL body pos r := by
  fun_induction readCommentLoop body pos generalizing r
  · rename_i pos hlt ih1 ih2
    rw [index_of_lt body pos hlt] at h
    simp only [Out.bind_ok] at h
    split at h
    · simp only [Out.pure_eq, Out.ok.injEq] at h
      subst h; exact ⟨Nat.le_refl _, by omega, NoNL.refl _ _⟩
    · next hnl =>
      have hc : body[pos] ≠ 10 ∧ body[pos] ≠ 13 := by
        constructor <;> (intro e; apply hnl; simp [e])
      split at h
      · obtain ⟨a, b, c⟩ := ih1 r h (by omega)
        exact ⟨by omega, b, c.cons hlt hc⟩
      · split at h
        · next hs =>
          obtain ⟨h1, h2, l1, l2⟩ := isSupplementary_spec body pos hs
          obtain ⟨a, b, c⟩ := ih2 r h (by omega)
          refine ⟨by omega, b, ?_⟩
          exact (c.cons h2 (trail_not_nl _ l2)).cons hlt hc
        · simp only [Out.pure_eq, Out.ok.injEq] at h
          subst h; exact ⟨Nat.le_refl _, by omega, NoNL.refl _ _⟩
  · simp only [Out.pure_eq, Out.ok.injEq] at h
    subst h; exact ⟨Nat.le_refl _, hp, NoNL.refl _ _⟩

end Gql.Text

namespace Gql.Text
open Spec

theorem charAt_some_get (body : List Nat) (i c : Nat) (h : charAt body i = some c) :
    ∃ hl : i < body.length, body[i] = c := by
  unfold charAt at h
  rcases Nat.lt_or_ge i body.length with x | x
  · rw [List.getElem?_eq_getElem x] at h; cases h; exact ⟨x, rfl⟩
  · rw [List.getElem?_eq_none x] at h; exact absurd h (by simp)

theorem readDigits_spec (body : List Nat) (start r : Nat)
    (h : readDigits body start (charAt body start) = .ok r) :
    start < r ∧ r ≤ body.length ∧ NoNL body start r := by
  unfold readDigits at h
  split at h
  · simp at h
  · next hd =>
    simp only [Bool.not_eq_true, Bool.not_eq_false] at hd
    cases hc : charAt body start with
    | none => rw [hc] at hd; simp [isDigitOpt] at hd
    | some c =>
      rw [hc] at hd
      obtain ⟨hl, he⟩ := charAt_some_get body start c hc
      obtain ⟨a, b, d⟩ := digitsLoop_spec body (start + 1) r h (by omega)
      refine ⟨by omega, b, d.cons hl ?_⟩
      rw [he]; exact isDigit_not_nl c (by simpa [isDigitOpt] using hd)

end Gql.Text

namespace Gql.Text
open Spec

/-- What a single-line token reader guarantees: the token carries the lexer's current line and
the column of its start, and its span contains no line terminator. -/
def TokLine (body : List Nat) (st : LexState) (start : Nat) (t : Token) : Prop :=
  t.start = start ∧ t.line = st.line ∧ t.column = 1 + start - st.lineStart ∧
    start < t.stop ∧ t.stop ≤ body.length ∧ NoNL body start t.stop

theorem post_of_spec {α : Type} {x : LexOut α} {P : α → Prop} (hc : ¬ x.isCrash)
    (h : ∀ a, x = .ok a → P a) : Post P x := by
  cases x with
  | ok a => exact h a rfl
  | err e => trivial
  | crash c => simp [Out.isCrash] at hc

theorem readDigits_nonl (body : List Nat) (s : Nat) :
    Post (fun q => s < q ∧ q ≤ body.length ∧ NoNL body s q) (readDigits body s (charAt body s)) := by
  apply post_of_spec
  · exact (readDigits_post body s).noCrash
  · intro q hq; exact readDigits_spec body s q hq

theorem readNumber_line (body : List Nat) (st : LexState) (start first : Nat)
    (h : charAt body start = some first) (hf : isDigit first = true ∨ first = 45) :
    Post (TokLine body st start) (readNumber body st start first) := by
  unfold readNumber
  extract_lets pos0 ch0 fl0 jpFin fl1 jpExpD jpExp jpFrac jpInt pos1 ch1
  obtain ⟨hlen, hget⟩ := charAt_some_get body start first h
  have hfirst : body[start] ≠ 10 ∧ body[start] ≠ 13 := by
    rw [hget]
    rcases hf with hf | hf
    · exact isDigit_not_nl _ hf
    · subst hf; simp
  have hFin : ∀ r p f, start < p → p ≤ body.length → NoNL body start p →
      Post (TokLine body st start) (jpFin r p (charAt body p) f) := by
    intro r p f h1 h2 h3
    simp only [jpFin]
    split
    · simp
    · cases f <;> simp [TokLine, mkToken] <;> exact ⟨h1, h2, h3⟩
  have step1 : ∀ p c, start ≤ p → NoNL body start p → charAt body p = some c → c ≠ 10 ∧ c ≠ 13 →
      p < body.length ∧ NoNL body start (p + 1) := by
    intro p c _ h3 hc hn
    obtain ⟨hl, hg⟩ := charAt_some_get body p c hc
    exact ⟨hl, h3.snoc hl (by rw [hg]; exact hn)⟩
  have hExpD : ∀ r p, start < p → NoNL body start p →
      Post (TokLine body st start) (jpExpD r p (charAt body p)) := by
    intro r p h1 h3
    simp only [jpExpD]
    refine (readDigits_nonl body p).bind ?_
    intro q hq
    exact hFin () _ _ (by omega) hq.2.1 (h3.trans hq.2.2)
  have hExp : ∀ r p f, start < p → p ≤ body.length → NoNL body start p →
      Post (TokLine body st start) (jpExp r p (charAt body p) f) := by
    intro r p f h1 h2 h3
    simp only [jpExp]
    split
    · rename_i he
      have hp1 : p < body.length ∧ NoNL body start (p + 1) := by
        rcases he with he | he
        · exact step1 p 69 (by omega) h3 he (by simp)
        · exact step1 p 101 (by omega) h3 he (by simp)
      split
      · rename_i hs
        have hp2 : p + 1 < body.length ∧ NoNL body start (p + 1 + 1) := by
          rcases hs with hs | hs
          · exact step1 (p + 1) 43 (by omega) hp1.2 hs (by simp)
          · exact step1 (p + 1) 45 (by omega) hp1.2 hs (by simp)
        exact hExpD () _ (by omega) hp2.2
      · exact hExpD () _ (by omega) hp1.2
    · exact hFin () _ _ h1 h2 h3
  have hFrac : ∀ r p, start < p → p ≤ body.length → NoNL body start p →
      Post (TokLine body st start) (jpFrac r p (charAt body p)) := by
    intro r p h1 h2 h3
    simp only [jpFrac]
    split
    · rename_i hd
      have hp1 := step1 p 46 (by omega) h3 hd (by simp)
      refine (readDigits_nonl body _).bind ?_
      intro q hq
      exact hExp () _ _ (by omega) hq.2.1 (hp1.2.trans hq.2.2)
    · exact hExp () _ _ h1 h2 h3
  have hInt : ∀ r p, start ≤ p → NoNL body start p → (p = start → isDigit first = true) →
      Post (TokLine body st start) (jpInt r p (charAt body p)) := by
    intro r p h1 h3 hd
    simp only [jpInt]
    split
    · rename_i h48
      have hp1 := step1 p 48 h1 h3 h48 (by simp)
      split
      · simp
      · exact hFrac () _ (by omega) (by omega) hp1.2
    · refine (readDigits_nonl body _).bind ?_
      intro q hq
      exact hFrac () _ (by omega) hq.2.1 (h3.trans hq.2.2)
  split
  · rename_i hminus
    have : first = 45 := by simpa [ch0] using hminus
    exact hInt () _ (by simp [pos1, pos0]) ((NoNL.refl body start).snoc hlen hfirst) (by simp [pos1, pos0])
  · rename_i hminus
    have hd : isDigit first = true := by
      rcases hf with hf | hf
      · exact hf
      · exact absurd (by simp [ch0, hf]) hminus
    have : ch0 = charAt body pos0 := by simp [ch0, pos0, h]
    rw [this]
    exact hInt () _ (by simp [pos0]) (NoNL.refl _ _) (fun _ => hd)

end Gql.Text

/-! Part 3: strings. -/
namespace Gql.Text
open Spec

theorem hex_not_nl (c d : Nat) (h : readHexDigit (some c) = some d) : c ≠ 10 ∧ c ≠ 13 := by
  unfold readHexDigit at h
  constructor <;> (intro e; subst e; simp at h)

theorem nonl_of_get (body : List Nat) (p : Nat) (hl : p < body.length)
    (hc : body[p] ≠ 10 ∧ body[p] ≠ 13) : NoNL body p (p + 1) :=
  (NoNL.refl body p).snoc hl hc

theorem read16_nonl (body : List Nat) (p v : Nat) (h : read16 body p = some v) :
    p + 4 ≤ body.length ∧ NoNL body p (p + 4) := by
  unfold read16 at h
  split at h
  · rename_i a b c d h1 h2 h3 h4
    have g : ∀ q x, readHexDigit (charAt body q) = some x →
        ∃ hl : q < body.length, body[q] ≠ 10 ∧ body[q] ≠ 13 := by
      intro q x hq
      cases hc : charAt body q with
      | none => rw [hc] at hq; simp [readHexDigit] at hq
      | some ch =>
        obtain ⟨hl, hg⟩ := charAt_some_get body q ch hc
        rw [hc] at hq
        exact ⟨hl, by rw [hg]; exact hex_not_nl ch x hq⟩
    obtain ⟨l1, n1⟩ := g _ _ h1
    obtain ⟨l2, n2⟩ := g _ _ h2
    obtain ⟨l3, n3⟩ := g _ _ h3
    obtain ⟨l4, n4⟩ := g _ _ h4
    refine ⟨by omega, ?_⟩
    exact ((((NoNL.refl body p).snoc l1 n1).snoc l2 n2).snoc l3 n3).snoc l4 n4
  · simp at h

theorem varWidthLoop_nonl (body : List Nat) (position maxSize size point : Nat)
    (hm : position + maxSize ≤ body.length) (hn : NoNL body position (position + size)) :
    Post (fun r => size < r.2 ∧ position + r.2 ≤ body.length ∧ NoNL body position (position + r.2))
      (varWidthLoop body position maxSize size point) := by
  fun_induction varWidthLoop body position maxSize size point
  · rename_i size point hlt ih
    rw [index_ok _ _ (by omega)]
    simp only [Out.bind_ok]
    have hl : position + size < body.length := by omega
    split
    · rename_i hc
      have hnl : body[position + size] ≠ 10 ∧ body[position + size] ≠ 13 := by simp [hc]
      split
      · simp
      · simp only [post_pure]
        exact ⟨by omega, by omega, hn.snoc hl hnl⟩
    · split
      · rename_i d hd
        have hnl := hex_not_nl _ _ hd
        refine (ih _ (hn.snoc hl hnl)).mono ?_
        intro a ha; exact ⟨by omega, ha.2.1, ha.2.2⟩
      · simp
  · simp

theorem charAt_eq_nonl (body : List Nat) (p c : Nat) (h : charAt body p = some c)
    (hc : c ≠ 10 ∧ c ≠ 13) : p < body.length ∧ NoNL body p (p + 1) := by
  obtain ⟨hl, hg⟩ := charAt_some_get body p c h
  exact ⟨hl, nonl_of_get body p hl (by rw [hg]; exact hc)⟩

theorem slice2_nonl (body : List Nat) (p a b : Nat) (h : slice body p (p + 2) = [a, b])
    (ha : a ≠ 10 ∧ a ≠ 13) (hb : b ≠ 10 ∧ b ≠ 13) : p + 2 ≤ body.length ∧ NoNL body p (p + 2) := by
  unfold slice at h
  have e : p + 2 - p = 2 := by omega
  rw [e] at h
  have h0 : (body.drop p)[0]? = some a := by
    have := congrArg (fun l => l[0]?) h; simpa using this
  have h1 : (body.drop p)[1]? = some b := by
    have := congrArg (fun l => l[1]?) h; simpa using this
  rw [List.getElem?_drop] at h0 h1
  obtain ⟨l0, n0⟩ := charAt_eq_nonl body p a (by simpa [charAt] using h0) ha
  obtain ⟨l1, n1⟩ := charAt_eq_nonl body (p + 1) b (by simpa [charAt] using h1) hb
  exact ⟨by omega, n0.trans n1⟩

end Gql.Text

namespace Gql.Text
open Spec

/-- Post-condition shared by the three escape readers. -/
def EscPost (body : List Nat) (pos : Nat) (size : Nat) : Prop :=
  2 ≤ size ∧ pos + size ≤ body.length ∧ NoNL body pos (pos + size)

theorem escapedChar_not_nl (c v : Nat) (h : escapedChar (some c) = some v) : c ≠ 10 ∧ c ≠ 13 := by
  constructor <;> (intro e; subst e; simp [escapedChar] at h)

theorem readEscapedCharacter_nonl (body : List Nat) (pos : Nat) (h0 : charAt body pos = some 92) :
    Post (fun r => EscPost body pos r.2) (readEscapedCharacter body pos) := by
  unfold readEscapedCharacter
  split
  · rename_i v h
    cases h5 : charAt body (pos + 1) with
    | none => simp [h5, escapedChar] at h
    | some c =>
      rw [h5] at h
      obtain ⟨l0, n0⟩ := charAt_eq_nonl body pos 92 h0 (by simp)
      obtain ⟨l1, n1⟩ := charAt_eq_nonl body (pos + 1) c h5 (escapedChar_not_nl c v h)
      simp only [post_pure]
      exact ⟨by omega, by omega, n0.trans n1⟩
  · simp

theorem readEscapedUnicodeFixedWidth_nonl (body : List Nat) (pos : Nat)
    (h0 : charAt body pos = some 92) (h1 : charAt body (pos + 1) = some 117) :
    Post (fun r => EscPost body pos r.2) (readEscapedUnicodeFixedWidth body pos) := by
  unfold readEscapedUnicodeFixedWidth
  obtain ⟨l0, n0⟩ := charAt_eq_nonl body pos 92 h0 (by simp)
  obtain ⟨l1, n1⟩ := charAt_eq_nonl body (pos + 1) 117 h1 (by simp)
  split
  · simp
  · rename_i code h
    obtain ⟨l2, n2⟩ := read16_nonl _ _ _ h
    have n6 : NoNL body pos (pos + 6) := (n0.trans n1).trans n2
    split
    · simp only [post_pure]; exact ⟨by omega, by omega, n6⟩
    · split
      · rename_i hs
        obtain ⟨l3, n3⟩ := slice2_nonl body (pos + 6) 92 117 hs.2 (by simp) (by simp)
        split
        · rename_i t ht
          obtain ⟨l4, n4⟩ := read16_nonl _ _ _ ht
          split
          · simp only [post_pure]
            exact ⟨by omega, by omega, (n6.trans n3).trans n4⟩
          · simp
        · simp
      · simp

theorem readEscapedUnicodeVariableWidth_nonl (body : List Nat) (pos : Nat)
    (h0 : charAt body pos = some 92) (h1 : charAt body (pos + 1) = some 117)
    (h2 : charAt body (pos + 2) = some 123) :
    Post (fun r => EscPost body pos r.2) (readEscapedUnicodeVariableWidth body pos) := by
  unfold readEscapedUnicodeVariableWidth
  obtain ⟨l0, n0⟩ := charAt_eq_nonl body pos 92 h0 (by simp)
  obtain ⟨l1, n1⟩ := charAt_eq_nonl body (pos + 1) 117 h1 (by simp)
  obtain ⟨l2, n2⟩ := charAt_eq_nonl body (pos + 2) 123 h2 (by simp)
  refine (varWidthLoop_nonl body pos _ 3 0 (by omega) ((n0.trans n1).trans n2)).mono ?_
  intro a ha
  exact ⟨by omega, ha.2.1, ha.2.2⟩

theorem isScalar_or_not_nl (body : List Nat) (pos : Nat) (hl : pos < body.length)
    (h : ¬ (body[pos] = 13 ∨ body[pos] = 10)) : body[pos] ≠ 10 ∧ body[pos] ≠ 13 := by
  constructor <;> (intro e; apply h; simp [e])

theorem readStringLoop_line (body : List Nat) (st : LexState) (start pos chunkStart : Nat)
    (acc : List Nat) (hp : start < pos) (hn : NoNL body start pos) :
    Post (TokLine body st start) (readStringLoop body st start pos chunkStart acc) := by
  fun_induction readStringLoop body st start pos chunkStart acc
  · rename_i pos chunkStart acc hlt ih3 ih2 ih1
    rw [index_ok _ _ hlt]
    simp only [Out.bind_ok]
    split
    · rename_i hq
      simp only [post_pure]
      exact ⟨rfl, rfl, rfl, by simp [mkToken]; omega, by simp [mkToken]; omega,
        by simpa [mkToken] using hn.snoc hlt (by simp [hq])⟩
    split
    · rename_i hb
      have h0 : charAt body pos = some 92 := by simp [charAt, List.getElem?_eq_getElem hlt, hb]
      have key : ∀ (x : LexOut (List Nat × Nat)), Post (fun r => EscPost body pos r.2) x →
          Post (TokLine body st start)
            (x >>= fun esc =>
              if esc.2 = 0 then .crash "NoProgress"
              else readStringLoop body st start (pos + esc.2) (pos + esc.2)
                (acc ++ slice body chunkStart pos ++ esc.1)) := by
        intro x hx
        refine hx.bind ?_
        intro a ha
        split
        · have := ha.1; omega
        · rename_i hz
          exact ih3 a hz (by have := ha.1; omega) (hn.trans ha.2.2)
      split
      · rename_i hu
        split
        · rename_i hbr
          have hv := readEscapedUnicodeVariableWidth_nonl body pos h0 hu hbr
          simp only [bind_assoc, Out.pure_eq, Out.bind_ok]
          refine hv.bind ?_
          intro a ha
          split
          · have := ha.1; omega
          · rename_i hz
            exact ih3 ([a.1], a.2) hz (by have := ha.1; omega) (hn.trans ha.2.2)
        · simpa using key _ (readEscapedUnicodeFixedWidth_nonl body pos h0 hu)
      · simpa using key _ (readEscapedCharacter_nonl body pos h0)
    split
    · simp
    · rename_i hnl
      have hc := isScalar_or_not_nl body pos hlt hnl
      split
      · exact ih2 (by omega) (hn.snoc hlt hc)
      split
      · rename_i hs
        obtain ⟨h1, h2, l1, l2⟩ := isSupplementary_spec body pos hs
        exact ih1 (by omega) ((hn.snoc hlt hc).snoc h2 (trail_not_nl _ l2))
      · simp
  · simp

theorem readString_line (body : List Nat) (st : LexState) (start : Nat)
    (h : charAt body start = some 34) :
    Post (TokLine body st start) (readString body st start) := by
  unfold readString
  obtain ⟨l0, n0⟩ := charAt_eq_nonl body start 34 h (by simp)
  exact readStringLoop_line body st start (start + 1) (start + 1) [] (by omega) n0

end Gql.Text

/-! Part 4: the line invariant. -/
namespace Gql.Text
open Spec

/-- The lexer's bookkeeping agrees with the prefix scan at offset `p`. -/
def LineInv (body : List Nat) (st : LexState) (p : Nat) : Prop :=
  st.line = 1 + (pre body p).1 ∧ st.lineStart + (pre body p).2 = p

theorem not_inside_succ (body : List Nat) (p : Nat) (hl : p < body.length)
    (h : body[p] ≠ 13) : ¬ insideCRLF body (p + 1) := by
  intro ⟨_, h1, _⟩
  simp only [Nat.add_sub_cancel] at h1
  rw [List.getElem?_eq_getElem hl] at h1
  exact h (Option.some.inj h1)

theorem pre_nonl (body : List Nat) (p : Nat) (hin : ¬ insideCRLF body p) :
    ∀ n q, q = p + n → q ≤ body.length → NoNL body p q →
      pre body q = ((pre body p).1, (pre body p).2 + n) ∧ ¬ insideCRLF body q := by
  intro n
  induction n with
  | zero => intro q hq _ _; subst hq; simp [hin]
  | succ n ih =>
    intro q hq hl hn
    have hq' : p + n < body.length := by omega
    obtain ⟨e, hi⟩ := ih (p + n) rfl (by omega) (fun i a b c hc => hn i a (by omega) c hc)
    have hc := hn (p + n) (by omega) (by omega) body[p + n] (List.getElem?_eq_getElem hq')
    subst hq
    have := pre_step body (p + n) body[p + n] (List.getElem?_eq_getElem hq') hi
    rw [if_neg (by intro h; rcases h with h | h <;> simp [h] at hc)] at this
    refine ⟨?_, not_inside_succ body (p + n) hq' hc.2⟩
    rw [show p + (n + 1) = p + n + 1 by omega, this, e]
    simp only [Prod.mk.injEq, true_and]; omega

theorem lineInv_tok {body : List Nat} {st : LexState} {start : Nat} {t : Token}
    (hi : LineInv body st start) (hin : ¬ insideCRLF body start) (hs : start ≤ body.length)
    (ht : TokLine body st start t) :
    (t.line, t.column) = lineCol body t.start ∧ LineInv body st t.stop ∧
      ¬ insideCRLF body t.stop ∧ t.stop ≤ body.length := by
  obtain ⟨h1, h2, h3, h4, h5, h6⟩ := ht
  obtain ⟨e, hi'⟩ := pre_nonl body start hin (t.stop - start) t.stop (by omega) h5 h6
  refine ⟨?_, ?_, hi', h5⟩
  · rw [h1, lineCol_eq_pre body start hs hin, h2, h3, hi.1]
    have := hi.2
    congr 1; omega
  · constructor
    · rw [e]; exact hi.1
    · rw [e]; have := hi.2; simp; omega

end Gql.Text

/-! Part 5: block strings and `read_next_token`. -/
namespace Gql.Text
open Spec

/-- What `read_next_token` guarantees about line bookkeeping. -/
def NextLine (body : List Nat) (r : Token × LexState) : Prop :=
  (r.1.line, r.1.column) = lineCol body r.1.start ∧ LineInv body r.2 r.1.stop ∧
    ¬ insideCRLF body r.1.stop ∧ r.1.stop ≤ body.length

theorem slice3_nonl (body : List Nat) (p a b c : Nat) (h : slice body p (p + 3) = [a, b, c])
    (ha : a ≠ 10 ∧ a ≠ 13) (hb : b ≠ 10 ∧ b ≠ 13) (hc : c ≠ 10 ∧ c ≠ 13) :
    p + 3 ≤ body.length ∧ NoNL body p (p + 3) := by
  unfold slice at h
  have e : p + 3 - p = 3 := by omega
  rw [e] at h
  have h0 : (body.drop p)[0]? = some a := by
    have := congrArg (fun l => l[0]?) h; simpa using this
  have h1 : (body.drop p)[1]? = some b := by
    have := congrArg (fun l => l[1]?) h; simpa using this
  have h2 : (body.drop p)[2]? = some c := by
    have := congrArg (fun l => l[2]?) h; simpa using this
  rw [List.getElem?_drop] at h0 h1 h2
  obtain ⟨l0, n0⟩ := charAt_eq_nonl body p a (by simpa [charAt] using h0) ha
  obtain ⟨l1, n1⟩ := charAt_eq_nonl body (p + 1) b (by simpa [charAt] using h1) hb
  obtain ⟨l2, n2⟩ := charAt_eq_nonl body (p + 2) c (by simpa [charAt] using h2) hc
  exact ⟨by omega, (n0.trans n1).trans n2⟩

/-- Loop invariant of `read_block_string`: `n0` terminators precede the token start, the
block has seen `blockLines.length` more, and the local `line_start` is the end of the last. -/
def BlockInv (body : List Nat) (n0 : Nat) (pos lineStart nLines : Nat) : Prop :=
  (pre body pos).1 = n0 + nLines ∧ lineStart + (pre body pos).2 = pos ∧ ¬ insideCRLF body pos

theorem blockInv_nonl {body : List Nat} {n0 pos ls k q : Nat} (h : BlockInv body n0 pos ls k)
    (hq : pos ≤ q) (hl : q ≤ body.length) (hn : NoNL body pos q) : BlockInv body n0 q ls k := by
  obtain ⟨a, b, c⟩ := h
  obtain ⟨e, hi⟩ := pre_nonl body pos c (q - pos) q (by omega) hl hn
  refine ⟨by rw [e]; exact a, ?_, hi⟩
  rw [e]; simp; omega

theorem readBlockStringLoop_line (body : List Nat) (st : LexState) (start pos chunkStart lineStart : Nat)
    (curLine : List Nat) (blockLines : List (List Nat)) (n0 : Nat)
    (hst : st.line = 1 + n0) (hp : start < pos) (hpl : pos ≤ body.length)
    (hinv : BlockInv body n0 pos lineStart blockLines.length) :
    Post (fun r => r.1.start = start ∧ r.1.line = st.line ∧ r.1.column = 1 + start - st.lineStart ∧
        LineInv body r.2 r.1.stop ∧ ¬ insideCRLF body r.1.stop ∧ r.1.stop ≤ body.length)
      (readBlockStringLoop body st start pos chunkStart lineStart curLine blockLines) := by
  fun_induction readBlockStringLoop body st start pos chunkStart lineStart curLine blockLines
  · rename_i pos chunkStart lineStart curLine blockLines hlt ih4 ih3 ih2 ih1
    rw [index_ok _ _ hlt]
    simp only [Out.bind_ok]
    have hget : body[pos]? = some body[pos] := List.getElem?_eq_getElem hlt
    split
    · -- closing quotes
      rename_i hq
      have h0 : charAt body pos = some 34 := by simp [charAt, hget, hq.1]
      obtain ⟨l0, n0'⟩ := charAt_eq_nonl body pos 34 h0 (by simp)
      obtain ⟨l1, n1⟩ := slice2_nonl body (pos + 1) 34 34 hq.2 (by simp) (by simp)
      have hb := blockInv_nonl hinv (q := pos + 3) (by omega) (by omega) (n0'.trans n1)
      simp only [post_pure]
      refine ⟨rfl, rfl, rfl, ⟨?_, ?_⟩, ?_, ?_⟩
      · simp only [mkToken, List.length_append, List.length_singleton, Nat.add_sub_cancel]
        rw [hb.1, hst]; omega
      · simpa only [mkToken] using hb.2.1
      · simpa only [mkToken] using hb.2.2
      · simp only [mkToken]; omega
    split
    · -- escaped triple quote
      rename_i hq
      have h0 : charAt body pos = some 92 := by simp [charAt, hget, hq.1]
      obtain ⟨l0, n0'⟩ := charAt_eq_nonl body pos 92 h0 (by simp)
      obtain ⟨l1, n1⟩ := slice3_nonl body (pos + 1) 34 34 34 hq.2 (by simp) (by simp) (by simp)
      exact ih4 body[pos] (by omega) (by omega)
        (blockInv_nonl hinv (q := pos + 4) (by omega) (by omega) (n0'.trans n1))
    split
    · -- line terminator inside the block string
      rename_i hnl
      obtain ⟨a, b, c⟩ := hinv
      by_cases hcrlf : body[pos] = 13 ∧ charAt body (pos + 1) = some 10
      · have h1 : body[pos]? = some 13 := by rw [hget, hcrlf.1]
        have h2 : body[pos + 1]? = some 10 := hcrlf.2
        obtain ⟨l1, _⟩ := charAt_some_get body (pos + 1) 10 hcrlf.2
        have e := pre_crlf body pos h1 h2
        have hni : ¬ insideCRLF body (pos + 2) := by
          intro ⟨_, x, _⟩
          have : pos + 2 - 1 = pos + 1 := by omega
          rw [this, h2] at x; cases x
        have key := ih3 body[pos]
        simp only [dif_pos hcrlf, if_pos hcrlf] at key ⊢
        refine key (by omega) (by omega) ⟨?_, ?_, hni⟩
        · rw [e]; simp only [List.length_append, List.length_singleton]; omega
        · rw [e]; simp
      · have hc : body[pos] = 10 ∨ body[pos] = 13 := by rcases hnl with h | h <;> simp [h]
        have e := pre_step body pos body[pos] hget c
        rw [if_pos hc] at e
        have hni : ¬ insideCRLF body (pos + 1) := by
          intro ⟨_, x, y⟩
          simp only [Nat.add_sub_cancel] at x
          rw [hget] at x
          have x' := Option.some.inj x
          exact hcrlf ⟨x', y⟩
        have key := ih3 body[pos]
        simp only [dif_neg hcrlf, if_neg hcrlf] at key ⊢
        refine key (by omega) (by omega) ⟨?_, ?_, hni⟩
        · rw [e]; simp only [List.length_append, List.length_singleton]; omega
        · rw [e]; simp
    · rename_i hnl
      have hc := isScalar_or_not_nl body pos hlt hnl
      split
      · exact ih2 (by omega) (by omega)
          (blockInv_nonl hinv (q := pos + 1) (by omega) (by omega) (nonl_of_get body pos hlt hc))
      split
      · rename_i hs
        obtain ⟨h1, h2, l1, l2⟩ := isSupplementary_spec body pos hs
        exact ih1 (by omega) (by omega)
          (blockInv_nonl hinv (q := pos + 2) (by omega) (by omega)
            ((nonl_of_get body pos hlt hc).trans (nonl_of_get body (pos + 1) h2 (trail_not_nl _ l2))))
      · simp
  · simp

end Gql.Text

namespace Gql.Text
open Spec

theorem readComment_line (body : List Nat) (st : LexState) (start : Nat)
    (h : charAt body start = some 35) : Post (TokLine body st start) (readComment body st start) := by
  unfold readComment
  obtain ⟨l0, n0⟩ := charAt_eq_nonl body start 35 h (by simp)
  apply post_of_spec
  · exact (readComment_post body st start l0).noCrash
  · intro t ht
    cases hr : readCommentLoop body (start + 1) with
    | ok p =>
      obtain ⟨a, b, c⟩ := readCommentLoop_spec body (start + 1) p hr (by omega)
      simp only [readComment, hr, Out.bind_ok, Out.pure_eq, Out.ok.injEq] at ht
      subst ht
      exact ⟨rfl, rfl, rfl, by simp [mkToken]; omega, by simpa [mkToken] using b,
        by simpa [mkToken] using n0.trans c⟩
    | err e => simp [readComment, hr] at ht
    | crash c => simp [readComment, hr] at ht

theorem isNameStart_not_nl (c : Nat) (h : isNameStart c = true) : c ≠ 10 ∧ c ≠ 13 := by
  unfold isNameStart isLetter at h
  constructor <;> (intro e; subst e; simp at h)

theorem readName_line (body : List Nat) (st : LexState) (start c : Nat)
    (h : charAt body start = some c) (hc : isNameStart c = true) :
    Post (TokLine body st start) (readName body st start) := by
  obtain ⟨l0, n0⟩ := charAt_eq_nonl body start c h (isNameStart_not_nl c hc)
  apply post_of_spec
  · exact (readName_post body st start l0).noCrash
  · intro t ht
    cases hr : readNameLoop body (start + 1) with
    | ok p =>
      obtain ⟨a, b, d⟩ := readNameLoop_spec body (start + 1) p hr (by omega)
      simp only [readName, hr, Out.bind_ok, Out.pure_eq, Out.ok.injEq] at ht
      subst ht
      exact ⟨rfl, rfl, rfl, by simp [mkToken]; omega, by simpa [mkToken] using b,
        by simpa [mkToken] using n0.trans d⟩
    | err e => simp [readName, hr] at ht
    | crash c => simp [readName, hr] at ht

theorem readBlockString_line (body : List Nat) (st : LexState) (start : Nat)
    (h0 : charAt body start = some 34) (h1 : slice body (start + 1) (start + 3) = [34, 34])
    (hi : LineInv body st start) (hin : ¬ insideCRLF body start) :
    Post (NextLine body) (readBlockString body st start) := by
  unfold readBlockString
  obtain ⟨l0, n0⟩ := charAt_eq_nonl body start 34 h0 (by simp)
  obtain ⟨l1, n1⟩ := slice2_nonl body (start + 1) 34 34 h1 (by simp) (by simp)
  obtain ⟨e, hi'⟩ := pre_nonl body start hin 3 (start + 3) rfl (by omega) (n0.trans n1)
  have hinv : BlockInv body (pre body start).1 (start + 3) st.lineStart ([] : List (List Nat)).length := by
    refine ⟨by rw [e]; simp, ?_, hi'⟩
    rw [e]; have := hi.2; simp; omega
  refine (readBlockStringLoop_line body st start (start + 3) (start + 3) st.lineStart [] []
    (pre body start).1 hi.1 (by omega) (by omega) hinv).mono ?_
  intro r hr
  obtain ⟨a, b, c, d, f, g⟩ := hr
  refine ⟨?_, d, f, g⟩
  rw [a, lineCol_eq_pre body start (by omega) hin, b, c, hi.1]
  have := hi.2
  congr 1; omega

theorem nextLine_of_tok {body : List Nat} {st : LexState} {start : Nat} {x : LexOut Token}
    (hi : LineInv body st start) (hin : ¬ insideCRLF body start) (hs : start ≤ body.length)
    (hx : Post (TokLine body st start) x) :
    Post (NextLine body) (x >>= fun t => pure (t, st)) := by
  refine hx.bind ?_
  intro t ht
  simp only [post_pure]
  exact lineInv_tok hi hin hs ht

end Gql.Text

namespace Gql.Text
open Spec

theorem readNextToken_line (body : List Nat) (st : LexState) (pos : Nat) (hp : pos ≤ body.length)
    (hi : LineInv body st pos) (hin : ¬ insideCRLF body pos) :
    Post (NextLine body) (readNextToken body st pos) := by
  fun_induction readNextToken body st pos
  · rename_i st pos h ih3 ih2 ih1
    rw [index_ok _ _ h, Out.bind_ok]
    have hget : body[pos]? = some body[pos] := List.getElem?_eq_getElem h
    have hc0 : charAt body pos = some body[pos] := by simp [charAt, h]
    have hstep := pre_step body pos body[pos] hget hin
    generalize body[pos] = c at hc0 hget hstep ⊢
    have plain : c ≠ 10 → c ≠ 13 → LineInv body st (pos + 1) ∧ ¬ insideCRLF body (pos + 1) := by
      intro h10 h13
      rw [if_neg (by intro x; rcases x with x | x <;> contradiction)] at hstep
      refine ⟨⟨by rw [hstep]; exact hi.1, by rw [hstep]; have := hi.2; simp; omega⟩, ?_⟩
      obtain ⟨hl, hg⟩ := charAt_some_get body pos c hc0
      exact not_inside_succ body pos hl (by rw [hg]; exact h13)
    refine Post.ite (fun hw => ?_) (fun _ => ?_)
    · have := plain (by rcases hw with x | x | x | x <;> simp [x])
        (by rcases hw with x | x | x | x <;> simp [x])
      exact ih3 (by omega) this.1 this.2
    refine Post.ite (fun hlf => ?_) (fun _ => ?_)
    · rw [if_pos (Or.inl hlf)] at hstep
      obtain ⟨hl, hg⟩ := charAt_some_get body pos c hc0
      refine ih2 (by omega) ⟨by rw [hstep]; have := hi.1; simp; omega, by rw [hstep]; simp⟩ ?_
      exact not_inside_succ body pos hl (by rw [hg, hlf]; simp)
    refine Post.ite (fun hcr => ?_) (fun _ => ?_)
    · refine Post.ite (fun hc => ?_) (fun hnc => ?_)
      · obtain ⟨hl1, hg1⟩ := charAt_some_get body (pos + 1) 10 hc
        have e := pre_crlf body pos (by rw [hget, hcr]) hc
        refine ih1 (by omega) ⟨by rw [e]; have := hi.1; simp; omega, by rw [e]; simp⟩ ?_
        intro ⟨_, x, _⟩
        have : pos + 2 - 1 = pos + 1 := by omega
        rw [this] at x
        have hc' : body[pos + 1]? = some 10 := hc
        rw [hc'] at x; cases x
      · rw [if_pos (Or.inr hcr)] at hstep
        refine ih2 (by omega) ⟨by rw [hstep]; have := hi.1; simp; omega, by rw [hstep]; simp⟩ ?_
        intro ⟨_, _, y⟩
        exact hnc y
    refine Post.ite (fun hh => ?_) (fun _ => ?_)
    · exact nextLine_of_tok hi hin hp (readComment_line body st pos (by rw [hc0, hh]))
    refine Post.ite (fun hq => ?_) (fun _ => ?_)
    · refine Post.ite (fun hq3 => ?_) (fun _ => ?_)
      · exact readBlockString_line body st pos (by rw [hc0, hq]) hq3 hi hin
      · exact nextLine_of_tok hi hin hp (readString_line body st pos (by rw [hc0, hq]))
    have tok1 : ∀ k c', charAt body pos = some c' → c' ≠ 10 ∧ c' ≠ 13 →
        NextLine body (mkToken st k pos (pos + 1) none, st) := by
      intro k c' hc' hn
      obtain ⟨l0, n0⟩ := charAt_eq_nonl body pos c' hc' hn
      exact lineInv_tok hi hin hp ⟨rfl, rfl, rfl, by simp [mkToken], by simp [mkToken]; omega,
        by simpa [mkToken] using n0⟩
    cases hk : punctKind c with
    | some k =>
      simp only [post_pure]
      refine tok1 k c hc0 ?_
      constructor <;> (intro e; subst e; simp [punctKind] at hk)
    | none =>
    simp only []
    refine Post.ite (fun hd => ?_) (fun _ => ?_)
    · exact nextLine_of_tok hi hin hp (readNumber_line body st pos c hc0
        (by rcases hd with x | x; exact Or.inl x; exact Or.inr x))
    refine Post.ite (fun hn => ?_) (fun _ => ?_)
    · exact nextLine_of_tok hi hin hp (readName_line body st pos c hc0 hn)
    extract_lets dotErr
    refine Post.ite (fun hc => ?_) (fun _ => ?_)
    · simp only [post_pure]
      obtain ⟨l0, n0⟩ := charAt_eq_nonl body pos 46 (by rw [hc0, hc.1]) (by simp)
      obtain ⟨l1, n1⟩ := charAt_eq_nonl body (pos + 1) 46 hc.2.1 (by simp)
      obtain ⟨l2, n2⟩ := charAt_eq_nonl body (pos + 2) 46 hc.2.2 (by simp)
      exact lineInv_tok hi hin hp ⟨rfl, rfl, rfl, by simp [mkToken], by simp [mkToken]; omega,
        by simpa [mkToken] using (n0.trans n1).trans n2⟩
    split
    · refine Post.ite (fun _ => ?_) (fun _ => ?_)
      · refine (show Post (fun _ => True) (dotDigitsLoop body (pos + 1)) from
          (digitsLoop_post body (pos + 1) (by omega)).mono (fun _ _ => trivial)).bind ?_
        intro _ _; simp
      · simp
    · repeat' split
      all_goals simp
  · rename_i st pos h
    have hp' : pos = body.length := by omega
    subst hp'
    simp only [post_pure]
    refine ⟨?_, hi, hin, Nat.le_refl _⟩
    simp only [mkToken]
    rw [lineCol_eq_pre body body.length (Nat.le_refl _) hin, hi.1]
    have := hi.2
    congr 1; omega

end Gql.Text

namespace Gql.Text
open Spec

theorem lexAllAux_line (body : List Nat) (fuel : Nat) (st : LexState) (pos : Nat) (acc : List Token)
    (hp : pos ≤ body.length) (hi : LineInv body st pos) (hin : ¬ insideCRLF body pos)
    (hacc : ∀ t ∈ acc, (t.line, t.column) = lineCol body t.start) (ts : List Token)
    (h : lexAllAux body fuel st pos acc = .ok ts) :
    ∀ t ∈ ts, (t.line, t.column) = lineCol body t.start := by
  induction fuel generalizing st pos acc with
  | zero => simp [lexAllAux] at h
  | succ fuel ih =>
    simp only [lexAllAux] at h
    cases hr : readNextToken body st pos with
    | err e => simp [hr] at h
    | crash c => simp [hr] at h
    | ok r =>
      obtain ⟨h1, h2, h3, h4⟩ := (readNextToken_line body st pos hp hi hin).of_ok hr
      simp only [hr, Out.bind_ok] at h
      split at h
      · simp only [Out.pure_eq, Out.ok.injEq] at h
        subst h
        intro t ht
        rcases List.mem_append.mp ht with h | h
        · exact hacc t h
        · simp only [List.mem_singleton] at h; subst h; exact h1
      · split at h
        · exact ih r.2 r.1.stop acc h4 h2 h3 hacc h
        · refine ih r.2 r.1.stop (acc ++ [r.1]) h4 h2 h3 ?_ h
          intro t ht
          rcases List.mem_append.mp ht with h | h
          · exact hacc t h
          · simp only [List.mem_singleton] at h; subst h; exact h1

/-- C10-2. Every token the lexer returns carries the true line and column of its start. -/
theorem lexAll_line (body : List Nat) (ts : List Token) (h : lexAll body = .ok ts) :
    ∀ t ∈ ts, (t.line, t.column) = lineCol body t.start := by
  unfold lexAll at h
  refine lexAllAux_line body _ {} 0 [] (Nat.zero_le _) ?_ ?_ (by simp) ts h
  · constructor <;> simp [pre, scan]
  · intro ⟨h0, _⟩; omega

end Gql.Text
