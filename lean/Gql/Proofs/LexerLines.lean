import Gql.Text.Lexer
import Gql.Proofs.Location
/-!
Line bookkeeping of the lexer against the specification's line/column (C10-2).
Part 1: how the prefix scan (`scan (body.take p) 0 0`, which `getLocation_eq_spec` ties to
`Spec.lineCol`) moves when the prefix grows by one character or by a CR LF pair.
-/
namespace Gql.Text
open Spec

theorem scan_other (x : Nat) (t : List Nat) (n k : Nat) (h13 : x ≠ 13) (h10 : x ≠ 10) :
    scan (x :: t) n k = scan t n (k + 1) := by
  rw [scan]
  · intro r hx _; exact h13 hx
  · intro hx; exact h13 hx
  · intro hx; exact h10 hx

/-- Appending one character that does not complete a CR LF pair. -/
theorem scan_snoc (l : List Nat) (c n k : Nat)
    (h : ¬ (l.getLast? = some 13 ∧ c = 10)) :
    scan (l ++ [c]) n k =
      if c = 10 ∨ c = 13 then ((scan l n k).1 + 1, 0) else ((scan l n k).1, (scan l n k).2 + 1) := by
  fun_induction scan l n k
  · -- l = []
    rename_i n k
    simp only [List.nil_append]
    by_cases h13 : c = 13
    · subst h13; simp [scan]
    · by_cases h10 : c = 10
      · subst h10; simp [scan]
      · simp [scan_other c [] n k h13 h10, scan, h13, h10]
  · rename_i rest n k ih
    have h' : ¬ (rest.getLast? = some 13 ∧ c = 10) := by
      intro ⟨a, b⟩; apply h
      refine ⟨?_, b⟩
      cases rest with
      | nil => simp at a
      | cons x xs => simpa [List.getLast?_cons_cons] using a
    simp only [List.cons_append, scan]
    exact ih h'
  · rename_i rest n k hne ih
    cases rest with
    | nil =>
      -- l = [13]; then c ≠ 10
      have hc : c ≠ 10 := by intro hc; exact h ⟨by simp, hc⟩
      simp only [List.cons_append, List.nil_append]
      have e1 : scan [13, c] n k = scan [c] (n + 1) 0 := by
        rw [scan]; intro r hx; simp at hx; exact hc hx.1
      rw [e1]
      have := ih (by simp)
      simpa [scan] using this
    | cons x xs =>
      have hx : ∀ r, (x :: xs) ++ [c] = 10 :: r → False := by
        intro r hr; simp at hr; exact hne xs (by rw [hr.1])
      have h' : ¬ ((x :: xs).getLast? = some 13 ∧ c = 10) := by
        intro ⟨a, b⟩; apply h
        exact ⟨by simpa [List.getLast?_cons_cons] using a, b⟩
      simp only [List.cons_append] at hx ⊢
      rw [scan_cr _ _ _ hx]
      exact ih h'
  · rename_i rest n k ih
    have h' : ¬ (rest.getLast? = some 13 ∧ c = 10) := by
      intro ⟨a, b⟩; apply h
      refine ⟨?_, b⟩
      cases rest with
      | nil => simp at a
      | cons x xs => simpa [List.getLast?_cons_cons] using a
    simp only [List.cons_append, scan]
    exact ih h'
  · rename_i x rest n k h1 h2 h3 ih
    have h' : ¬ (rest.getLast? = some 13 ∧ c = 10) := by
      intro ⟨a, b⟩; apply h
      refine ⟨?_, b⟩
      cases rest with
      | nil => simp at a
      | cons y ys => simpa [List.getLast?_cons_cons] using a
    have hs : ∀ (t : List Nat) n k, scan (x :: t) n k = scan t n (k + 1) :=
      fun t n k => scan_other x t n k (fun e => h2 e) (fun e => h3 e)
    simp only [List.cons_append, hs]
    exact ih h'

end Gql.Text

namespace Gql.Text
open Spec

/-- Appending a CR LF pair always adds exactly one terminator. -/
theorem scan_snoc_crlf (l : List Nat) (n k : Nat) :
    scan (l ++ [13, 10]) n k = ((scan l n k).1 + 1, 0) := by
  fun_induction scan l n k
  · simp [scan]
  · rename_i rest n k ih; simp only [List.cons_append, scan]; exact ih
  · rename_i rest n k hne ih
    have hx : ∀ r, rest ++ [13, 10] = 10 :: r → False := by
      intro r hr
      cases rest with
      | nil => simp at hr
      | cons x xs => simp at hr; exact hne xs (by rw [hr.1])
    simp only [List.cons_append]
    rw [scan_cr _ _ _ hx]; exact ih
  · rename_i rest n k ih; simp only [List.cons_append, scan]; exact ih
  · rename_i x rest n k h1 h2 h3 ih
    simp only [List.cons_append]
    rw [scan_other x _ n k (fun e => h2 e) (fun e => h3 e)]
    exact ih

/-- The prefix scan at offset `p`: (number of terminators ending at or before `p`,
distance from the end of the last one) — see `lineCol_eq_pre`. -/
def pre (body : List Nat) (p : Nat) : Nat × Nat := scan (body.take p) 0 0

theorem take_succ_eq (body : List Nat) (p : Nat) (c : Nat) (h : body[p]? = some c) :
    body.take (p + 1) = body.take p ++ [c] := by
  rw [List.take_succ, h]; rfl

theorem getLast_take (body : List Nat) (p : Nat) (hp : 0 < p) (hl : p ≤ body.length) :
    (body.take p).getLast? = body[p - 1]? := by
  rw [List.getLast?_eq_getElem?]
  simp [List.length_take, Nat.min_eq_left hl, List.getElem?_take]
  omega

theorem pre_step (body : List Nat) (p c : Nat) (h : body[p]? = some c)
    (hin : ¬ insideCRLF body p) :
    pre body (p + 1) =
      if c = 10 ∨ c = 13 then ((pre body p).1 + 1, 0) else ((pre body p).1, (pre body p).2 + 1) := by
  unfold pre
  rw [take_succ_eq body p c h]
  apply scan_snoc
  intro ⟨a, b⟩
  apply hin
  have hlt : p < body.length := by
    rcases Nat.lt_or_ge p body.length with hlt | hge
    · exact hlt
    · have : body[p]? = none := List.getElem?_eq_none hge
      rw [this] at h; exact absurd h (by simp)
  by_cases hp : p = 0
  · subst hp; simp at a
  · refine ⟨by omega, ?_, by rw [h, b]⟩
    rw [← getLast_take body p (by omega) (by omega)]; exact a

theorem pre_crlf (body : List Nat) (p : Nat) (h1 : body[p]? = some 13)
    (h2 : body[p + 1]? = some 10) : pre body (p + 2) = ((pre body p).1 + 1, 0) := by
  unfold pre
  have : body.take (p + 2) = body.take p ++ [13, 10] := by
    rw [take_succ_eq body (p + 1) 10 h2, take_succ_eq body p 13 h1]; simp
  rw [this]; exact scan_snoc_crlf _ _ _

theorem lineCol_eq_pre (body : List Nat) (p : Nat) (hp : p ≤ body.length)
    (hin : ¬ insideCRLF body p) :
    lineCol body p = (1 + (pre body p).1, 1 + (pre body p).2) := by
  have h := getLocation_eq_spec body p hp hin
  unfold getLocation splitNL at h
  obtain ⟨last, hl, h1, h2⟩ := splitNLAux_shape (body.take p) []
  simp only [hl, Out.ok.injEq] at h
  rw [← h, h1, h2]
  simp [pre]; omega

end Gql.Text
