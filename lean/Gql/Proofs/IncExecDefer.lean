import Gql.Proofs.IncExec
/-!
The cuts produced by `Gql.Async.IncExec` contain no stream batches (`@defer` only), so every piece
is a merge and the "batches of each list stay in order" side condition of
`cut_reassembles_any_order` holds for every permutation of the pieces.
-/
namespace Gql.Async.IncExec
open Gql.Exec Gql.Async

def isMerge : Piece → Bool
  | .merge _ _ => true
  | .append _ _ => false

mutual
/-- no list of the cut has stream batches -/
def deferOnly : Cut → Bool
  | .leaf _ => true
  | .obj now later => deferOnlyFields now && deferOnlyGroups later
  | .arr now later => later.isEmpty && deferOnlyItems now
def deferOnlyFields : List (List Nat × Cut) → Bool
  | [] => true
  | (_, c) :: rest => deferOnly c && deferOnlyFields rest
def deferOnlyGroups : List (List (List Nat × Cut)) → Bool
  | [] => true
  | g :: rest => deferOnlyFields g && deferOnlyGroups rest
def deferOnlyItems : List Cut → Bool
  | [] => true
  | c :: rest => deferOnly c && deferOnlyItems rest
end

theorem under_isMerge (p : Path) (e : Piece) : isMerge (e.under p) = isMerge e := by
  cases e <;> rfl

mutual
theorem pieces_merge : ∀ c : Cut, deferOnly c = true → ∀ e ∈ c.pieces, isMerge e = true
  | .leaf _, _, e, he => by simp [Cut.pieces] at he
  | .obj now later, h, e, he => by
    simp only [deferOnly, Bool.and_eq_true] at h
    simp only [Cut.pieces, List.mem_append] at he
    rcases he with he | he
    · exact fieldPieces_merge now h.1 e he
    · exact groupPieces_merge later h.2 e he
  | .arr now later, h, e, he => by
    simp only [deferOnly, Bool.and_eq_true, List.isEmpty_iff] at h
    obtain ⟨hl, hn⟩ := h
    subst hl
    simp only [Cut.pieces, batchPieces, List.append_nil] at he
    exact itemPieces_merge 0 now hn e he
theorem fieldPieces_merge : ∀ fs : List (List Nat × Cut), deferOnlyFields fs = true →
    ∀ e ∈ fieldPieces fs, isMerge e = true
  | [], _, e, he => by simp [fieldPieces] at he
  | (k, c) :: rest, h, e, he => by
    simp only [deferOnlyFields, Bool.and_eq_true] at h
    simp only [fieldPieces, List.mem_append, List.mem_map] at he
    rcases he with ⟨e', he', rfl⟩ | he
    · rw [under_isMerge]; exact pieces_merge c h.1 e' he'
    · exact fieldPieces_merge rest h.2 e he
theorem groupPieces_merge : ∀ gs : List (List (List Nat × Cut)), deferOnlyGroups gs = true →
    ∀ e ∈ groupPieces gs, isMerge e = true
  | [], _, e, he => by simp [groupPieces] at he
  | g :: rest, h, e, he => by
    simp only [deferOnlyGroups, Bool.and_eq_true] at h
    simp only [groupPieces, List.mem_cons, List.mem_append] at he
    rcases he with rfl | he | he
    · rfl
    · exact fieldPieces_merge g h.1 e he
    · exact groupPieces_merge rest h.2 e he
theorem itemPieces_merge : ∀ (i : Nat) (cs : List Cut), deferOnlyItems cs = true →
    ∀ e ∈ itemPieces i cs, isMerge e = true
  | _, [], _, e, he => by simp [itemPieces] at he
  | i, c :: rest, h, e, he => by
    simp only [deferOnlyItems, Bool.and_eq_true] at h
    simp only [itemPieces, List.mem_append, List.mem_map] at he
    rcases he with ⟨e', he', rfl⟩ | he
    · rw [under_isMerge]; exact pieces_merge c h.1 e' he'
    · exact itemPieces_merge (i + 1) rest h.2 e he
end

theorem streamsOf_nil_of_merge (p : Path) (ps : List Piece) (h : ∀ e ∈ ps, isMerge e = true) :
    streamsOf Piece.act p ps = [] := by
  simp only [streamsOf, List.filter_eq_nil_iff]
  intro e he
  have := h e he
  cases e <;> simp_all [isStreamAt, Piece.act, isMerge]

/-! ### the executor produces `@defer`-only cuts -/

theorem leafCut_d {j : Json} {c : Cut} (h : leafCut j = some c) : deferOnly c = true := by
  unfold leafCut at h
  split at h
  · split at h
    · simp only [Option.some.injEq] at h
      subst h; rfl
    · cases h
  · cases h

def ChildD (child : Child) : Prop :=
  ∀ name args t fds us ps c, child name args t fds us ps = some c → deferOnly c = true

theorem executeField_d {cx : Impl.Ctx} {parent : Name} {child : Child} (hc : ChildD child)
    {usages : List DU} {pset : Plan.DeferUsageSet} {fds : List FD} {c : Cut}
    (h : executeField cx parent child usages pset fds = some (some c)) : deferOnly c = true := by
  unfold executeField at h
  split at h
  · cases h
  · simp only at h
    split at h
    · split at h
      · cases h
      · rename_i j _ _
        cases hl : leafCut j with
        | none => simp [hl] at h
        | some c' =>
          simp only [hl, Option.map_some, Option.some.injEq] at h
          subst h
          exact leafCut_d hl
      · cases h
    · split at h
      · cases h
      · split at h
        · cases h
        · first
            | exact hc _ _ _ _ _ _ _ h
            | (obtain ⟨c', hk, he⟩ := Option.map_eq_some_iff.mp h
               cases he
               exact hc _ _ _ _ _ _ _ hk)

theorem executeKeys_d {cx : Impl.Ctx} {parent : Name} {child : Child} (hc : ChildD child)
    {usages : List DU} {pset : Plan.DeferUsageSet} {g : GFS} :
    ∀ (keys : List Name) (fs : List (List Nat × Cut)),
      executeKeys cx parent child usages pset g keys = some fs → deferOnlyFields fs = true
  | [], fs, h => by
    simp only [executeKeys, Option.some.injEq] at h
    subst h; rfl
  | k :: rest, fs, h => by
    rw [executeKeys] at h
    split at h
    · cases h
    · split at h
      · rename_i c cs hf hr
        simp only [Option.some.injEq] at h
        subst h
        simp only [deferOnlyFields, executeField_d hc hf, executeKeys_d hc rest cs hr, Bool.and_self]
      · rename_i cs hf hr
        simp only [Option.some.injEq] at h
        subst h
        exact executeKeys_d hc rest _ hr
      · cases h

theorem executeSets_d {cx : Impl.Ctx} {parent : Name} {child : Child} (hc : ChildD child)
    {usages : List DU} {g : GFS} :
    ∀ (sets : List (Plan.DeferUsageSet × Plan.GroupedFieldSet Name))
      (gs : List (List (List Nat × Cut))),
      executeSets cx parent child usages g sets = some gs → deferOnlyGroups gs = true
  | [], gs, h => by
    simp only [executeSets, Option.some.injEq] at h
    subst h; rfl
  | (s, part) :: rest, gs, h => by
    rw [executeSets] at h
    split at h
    · rename_i fs gs' hf hr
      simp only [Option.some.injEq] at h
      subst h
      simp only [deferOnlyGroups, executeKeys_d hc _ _ hf, executeSets_d hc rest gs' hr, Bool.and_self]
    · cases h

theorem executePlan_d {cx : Impl.Ctx} {parent : Name} {child : Child} (hc : ChildD child)
    {usages : List DU} {pset : Plan.DeferUsageSet} {st : CState} {c : Cut}
    (h : executePlan cx parent child usages pset st = some c) : deferOnly c = true := by
  unfold executePlan at h
  simp only at h
  split at h
  · rename_i now later hn hl
    simp only [Option.some.injEq] at h
    subst h
    simp only [deferOnly, executeKeys_d hc _ _ hn, executeSets_d hc _ _ hl, Bool.and_self]
  · cases h

theorem completeObject_d {cx : Impl.Ctx} {rt : Name} {fds : List FD} {usages : List DU}
    {pset : Plan.DeferUsageSet} {child : Child} (hc : ChildD child) {c : Cut}
    (h : completeObject cx rt fds usages pset child = some c) : deferOnly c = true := by
  unfold completeObject at h
  split at h
  · cases h
  · exact executePlan_d hc h

theorem completeNull_d {t : TypeRef} {c : Cut} (h : completeNull t = some c) : deferOnly c = true := by
  unfold completeNull at h
  split at h
  · cases h
  · simp only [Option.some.injEq] at h
    subst h; rfl

theorem nullChild_d : ChildD nullChild := fun _ _ _ _ _ _ _ h => completeNull_d h

theorem completeNamed_d {cx : Impl.Ctx} {t : TypeRef} {fds : List FD} {usages : List DU}
    {pset : Plan.DeferUsageSet} {leaf? : Option PyLeaf} {tn : TN} {child : Child}
    (hc : ChildD child) {c : Cut}
    (h : completeNamed cx t fds usages pset leaf? tn child = some c) : deferOnly c = true := by
  unfold completeNamed at h
  split at h
  · cases h
  · split at h
    · split at h
      · split at h
        · cases h
        · exact leafCut_d h
        · cases h
      · cases h
    · split at h
      · exact completeObject_d hc h
      · cases h
    · exact completeObject_d hc h
    · cases h

mutual
theorem completeValue_d (cx : Impl.Ctx) :
    ∀ (t : TypeRef) (fds : List FD) (usages : List DU) (pset : Plan.DeferUsageSet) (v : RVal)
      (c : Cut), completeValue cx t fds usages pset v = some c → deferOnly c = true
  | t, fds, usages, pset, .raise _ _, c, h => by simp [completeValue] at h
  | t, fds, usages, pset, .null, c, h => by
    rw [completeValue] at h; exact completeNull_d h
  | t, fds, usages, pset, .leaf l, c, h => by
    rw [completeValue] at h; exact completeNamed_d nullChild_d h
  | t, fds, usages, pset, .list items, c, h => by
    unfold completeValue at h
    split at h
    · rename_i t' _
      split at h
      · rename_i cs hcs
        simp only [Option.some.injEq] at h
        subst h
        simp only [deferOnly, List.isEmpty_nil, Bool.true_and]
        exact completeItems_d cx t' fds usages pset items cs hcs
      · cases h
    · exact completeNamed_d nullChild_d h
  | t, fds, usages, pset, .obj tn f, c, h => by
    rw [completeValue] at h
    refine completeNamed_d ?_ h
    intro name args t' fds' us ps c' hc'
    exact completeValue_d cx t' fds' us ps (f name args) c' hc'

theorem completeItems_d (cx : Impl.Ctx) :
    ∀ (t : TypeRef) (fds : List FD) (usages : List DU) (pset : Plan.DeferUsageSet)
      (items : List RVal) (cs : List Cut),
      completeItems cx t fds usages pset items = some cs → deferOnlyItems cs = true
  | t, fds, usages, pset, [], cs, h => by
    simp only [completeItems, Option.some.injEq] at h
    subst h; rfl
  | t, fds, usages, pset, x :: xs, cs, h => by
    rw [completeItems] at h
    split at h
    · rename_i c cs' hx hxs
      simp only [Option.some.injEq] at h
      subst h
      simp only [deferOnlyItems, completeValue_d cx t fds usages pset x c hx,
        completeItems_d cx t fds usages pset xs cs' hxs, Bool.and_self]
    · cases h
end

theorem childOf_d (cx : Impl.Ctx) (src : RVal) : ChildD (childOf cx src) :=
  fun _ _ _ _ _ _ _ h => completeValue_d cx _ _ _ _ _ _ h

theorem incCut_deferOnly {ops : Ops} {s : Schema} {doc : Doc} {opName : Option Name} {vars : Vars}
    {root : RVal} {c : Cut} (h : incCut ops s doc opName vars root = some c) :
    deferOnly c = true := by
  unfold incCut at h
  simp only at h
  split at h
  · cases h
  · split at h
    · cases h
    · split at h
      · cases h
      · exact executePlan_d (childOf_d _ root) h

/-- every piece of the executor model is a merge; no stream batches in any order of them -/
theorem incCut_streams {ops : Ops} {s : Schema} {doc : Doc} {opName : Option Name} {vars : Vars}
    {root : RVal} {c : Cut} (h : incCut ops s doc opName vars root = some c)
    (ps : List Piece) (hperm : c.pieces.Perm ps) (p : Path) :
    streamsOf Piece.act p c.pieces = streamsOf Piece.act p ps := by
  have hm := pieces_merge c (incCut_deferOnly h)
  rw [streamsOf_nil_of_merge p _ hm,
    streamsOf_nil_of_merge p ps (fun e he => hm e (hperm.symm.subset he))]

end Gql.Async.IncExec
