import Gql.Proofs.LexerBasic
import Gql.Proofs.TypeParse
/-!
C08, converse direction for the TYPE entry point (`parse_wf`): every tree `parse_type` returns is
the tree of a well-formed, parser-shaped `Ty`.  Needs the inversion of the lexer for NAME tokens:
the value of a NAME token the lexer produces is a valid name.
-/
namespace Gql.Text
open Gql

/-- `read_name`'s loop stops after a run of name-continue characters. -/
theorem readNameLoop_inv (body : List Nat) (pos : Nat) :
    Post (fun p => pos ≤ p ∧ p ≤ max pos body.length ∧ ∀ i, pos ≤ i → i < p → ∃ c, body[i]? = some c ∧
      isNameContinue c = true) (readNameLoop body pos) := by
  fun_induction readNameLoop body pos
  all_goals simp_all [index_ok]
  next pos h ih =>
    split
    · rename_i hc
      refine ih.mono ?_
      intro p hp
      refine ⟨by omega, by omega, ?_⟩
      intro i hi hip
      by_cases hi0 : i = pos
      · subst hi0; exact ⟨body[i], by simp [h], hc⟩
      · exact hp.2.2 i (by omega) hip
    · exact ⟨by omega, by omega, fun i hi hip => by omega⟩
  next pos h => exact fun i hi hip => by omega

theorem slice_valid (body : List Nat) (start p : Nat) (h : start < body.length)
    (hs : isNameStart body[start] = true) (hp : start + 1 ≤ p)
    (hrun : ∀ i, start + 1 ≤ i → i < p → ∃ c, body[i]? = some c ∧ isNameContinue c = true) :
    validName (slice body start p) = true := by
  have hd : body.drop start = body[start] :: body.drop (start + 1) := by
    rw [List.drop_eq_getElem_cons h]
  obtain ⟨k, rfl⟩ : ∃ k, p = start + 1 + k := ⟨p - (start + 1), by omega⟩
  have e : start + 1 + k - start = k + 1 := by omega
  simp only [slice, hd, e, List.take_succ_cons, validName, hs, Bool.true_and, List.all_eq_true]
  intro c hc
  rw [List.mem_iff_getElem] at hc
  obtain ⟨j, hj, rfl⟩ := hc
  simp only [List.length_take, List.length_drop] at hj
  obtain ⟨c', hc', hcc⟩ := hrun (start + 1 + j) (by omega) (by omega)
  have : ((body.drop (start + 1)).take k)[j] = c' := by
    rw [List.getElem_take, List.getElem_drop]
    have hlt : start + 1 + j < body.length := by omega
    rw [List.getElem?_eq_getElem hlt] at hc'
    exact Option.some.inj hc'
  rw [this]; exact hcc

theorem punctKind_ne_name (c : Nat) : punctKind c ≠ some .name := by
  grind (splits := 20) [punctKind]

/-- A NAME token has a valid name as its value. -/
def NameOk (t : Token) : Prop := t.kind = .name → ∃ n, t.value = some n ∧ validName n = true

theorem readName_nameOk (body : List Nat) (st : LexState) (start : Nat) (h : start < body.length)
    (hs : isNameStart body[start] = true) : Post NameOk (readName body st start) := by
  unfold readName
  refine (readNameLoop_inv body (start + 1)).bind ?_
  intro p hp
  simp only [post_pure, NameOk, mkToken]
  intro _
  exact ⟨_, rfl, slice_valid body start p h hs hp.1 hp.2.2⟩

theorem NameOk.of_kind {t : Token} (h : t.kind ≠ .name) : NameOk t := fun hk => absurd hk h

theorem readNextToken_nameOk (body : List Nat) (st : LexState) (pos : Nat) :
    Post (fun r => NameOk r.1) (readNextToken body st pos) ∨ (readNextToken body st pos).isCrash := by
  by_cases hcr : (readNextToken body st pos).isCrash
  · exact Or.inr hcr
  left
  fun_induction readNextToken body st pos
  · rename_i st pos h ih3 ih2 ih1
    rw [index_ok _ _ h, Out.bind_ok] at hcr ⊢
    have hc0 : charAt body pos = some body[pos] := by simp [charAt, h]
    have hcs : isNameStart body[pos] = true → isNameStart body[pos] = true := id
    revert hcr
    generalize hcg : body[pos] = c at hc0 ⊢
    intro hcr
    refine Post.ite (fun hc => ?_) (fun hn1 => ?_)
    · rw [if_pos hc] at hcr; exact ih3 hcr
    rw [if_neg hn1] at hcr
    refine Post.ite (fun hc => ?_) (fun hn2 => ?_)
    · rw [if_pos hc] at hcr; exact ih2 hcr
    rw [if_neg hn2] at hcr
    refine Post.ite (fun hc => ?_) (fun hn3 => ?_)
    · rw [if_pos hc] at hcr
      refine Post.ite (fun hc' => ?_) (fun hc' => ?_)
      · rw [if_pos hc'] at hcr; exact ih1 hcr
      · rw [if_neg hc'] at hcr; exact ih2 hcr
    rw [if_neg hn3] at hcr
    refine Post.ite (fun _ => ?_) (fun _ => ?_)
    · refine (readComment_post body st pos h).bind ?_
      intro t ht
      exact NameOk.of_kind (by rw [ht.2]; decide)
    refine Post.ite (fun _ => ?_) (fun _ => ?_)
    · refine Post.ite (fun _ => ?_) (fun _ => ?_)
      · exact (readBlockString_post body st pos).mono (fun r hr => NameOk.of_kind (by rw [hr.2]; decide))
      · refine (readString_post body st pos).bind ?_
        intro t ht
        exact NameOk.of_kind (by rw [ht.2]; decide)
    cases hk : punctKind c with
    | some k =>
      simp only [post_pure]
      refine NameOk.of_kind ?_
      simp only [mkToken]
      intro hkn; subst hkn
      exact punctKind_ne_name c hk
    | none =>
    simp only []
    refine Post.ite (fun _ => ?_) (fun _ => ?_)
    · refine (readNumber_post body st pos _ hc0).bind ?_
      intro t ht
      exact NameOk.of_kind (by rcases ht.2 with h' | h' <;> rw [h'] <;> decide)
    refine Post.ite (fun hns => ?_) (fun _ => ?_)
    · refine (readName_nameOk body st pos h (by rw [hcg]; exact hns)).bind ?_
      intro t ht
      exact ht
    extract_lets dotErr
    refine Post.ite (fun hc => ?_) (fun _ => ?_)
    · simp only [post_pure]
      exact NameOk.of_kind (by simp [mkToken])
    split
    · refine Post.ite (fun _ => ?_) (fun _ => ?_)
      · refine (show Post (fun _ => True) (dotDigitsLoop body (pos + 1)) from
          (digitsLoop_post body (pos + 1) (by omega)).mono (fun _ _ => trivial)).bind ?_
        intro _ _; simp
      · simp
    · repeat' split
      all_goals simp
  · simp only [post_pure]
    exact NameOk.of_kind (by simp [mkToken])

end Gql.Text

namespace Gql.Syntax
open Gql Gql.Text

/-- Every NAME token of the stream carries a valid name. -/
def GoodStream : Stream → Prop
  | .cons t r => NameOk t ∧ GoodStream r
  | _ => True

theorem goodStream_aux (body : List Nat) : ∀ (fuel : Nat) (st : LexState) (pos : Nat),
    GoodStream (streamAux body fuel st pos) := by
  intro fuel
  induction fuel with
  | zero => intro st pos; simp [streamAux, GoodStream]
  | succ fuel ih =>
    intro st pos
    rw [streamAux]
    cases hr : readNextToken body st pos with
    | ok r =>
      obtain ⟨t, st'⟩ := r
      have hn : NameOk t := by
        rcases readNextToken_nameOk body st pos with h | h
        · rw [hr] at h; exact h
        · rw [hr] at h; simp [Out.isCrash] at h
      simp only
      split
      · trivial
      · split
        · exact ih _ _
        · exact ⟨hn, ih _ _⟩
    | err e => trivial
    | crash c => trivial

theorem goodStream_streamOf (body : List Nat) : GoodStream (streamOf body) := goodStream_aux body _ _ _

/-- The parser state holds only NAME tokens with valid names. -/
def GoodPS (s : PS) : Prop := NameOk s.cur ∧ GoodStream s.rest

theorem advanceLexer_inv (cfg : Cfg) (s s' : PS) (h : advanceLexer cfg s = .ok ((), s')) (hg : GoodPS s) :
    GoodPS s' := by
  unfold advanceLexer at h
  split at h
  · cases h; exact hg
  · split at h
    · rename_i t r hrest
      have hgr : NameOk t ∧ GoodStream r := by have := hg.2; rw [hrest] at this; exact this
      split at h
      · cases h; exact ⟨hgr.1, hgr.2⟩
      · simp only at h
        split at h
        · split at h
          · cases h
          · cases h; exact ⟨hgr.1, hgr.2⟩
        · cases h; exact ⟨hgr.1, hgr.2⟩
    · cases h
      exact ⟨NameOk.of_kind (by simp [eofToken]), hg.2⟩
    · cases h
    · cases h

theorem expectOptionalToken_inv (cfg : Cfg) (k : TokKind) (s s' : PS) (b : Bool)
    (h : expectOptionalToken cfg k s = .ok (b, s')) (hg : GoodPS s) : GoodPS s' := by
  simp only [expectOptionalToken, bind_eq, P.cur] at h
  split at h
  · rw [bind_eq] at h
    cases ha : advanceLexer cfg s with
    | ok r =>
      obtain ⟨u, s1⟩ := r
      rw [ha] at h
      simp only [pure_eq'] at h
      cases h
      exact advanceLexer_inv cfg s _ ha hg
    | err e => rw [ha] at h; cases h
    | crash c => rw [ha] at h; cases h
  · simp only [pure_eq'] at h
    cases h; exact hg

theorem expectToken_inv (cfg : Cfg) (k : TokKind) (s s' : PS) (t : Token)
    (h : expectToken cfg k s = .ok (t, s')) (hg : GoodPS s) : GoodPS s' ∧ t = s.cur ∧ t.kind = k := by
  simp only [expectToken, bind_eq, P.cur] at h
  split at h
  · rename_i hk
    rw [bind_eq] at h
    cases ha : advanceLexer cfg s with
    | ok r =>
      obtain ⟨u, s1⟩ := r
      rw [ha] at h
      simp only [pure_eq'] at h
      cases h
      exact ⟨advanceLexer_inv cfg s _ ha hg, rfl, hk⟩
    | err e => rw [ha] at h; cases h
    | crash c => rw [ha] at h; cases h
  · cases h

theorem parseNamedType_inv (cfg : Cfg) (s s' : PS) (a : Ast) (h : parseNamedType cfg s = .ok (a, s'))
    (hg : GoodPS s) : GoodPS s' ∧ ∃ n, validName n = true ∧ a = (Ty.named n).toAst := by
  simp only [parseNamedType, parseName, bind_eq] at h
  cases he : expectToken cfg .name s with
  | ok r =>
    obtain ⟨t, s1⟩ := r
    rw [he] at h
    simp only [pure_eq'] at h
    cases h
    obtain ⟨hg1, rfl, hk⟩ := expectToken_inv cfg .name s _ _ he hg
    obtain ⟨n, hv, hn⟩ := hg.1 hk
    exact ⟨hg1, n, hn, by simp [mkNode_name, TyP.mkNode_named, tokVal, hv, Ty.toAst]⟩
  | err e => rw [he] at h; cases h
  | crash c => rw [he] at h; cases h

/-- **`parse_wf` for types**: whatever `parse_type_reference` returns from a state whose NAME tokens
are valid is the tree of a well-formed parser-shaped `Ty`. -/
theorem typeRef_inv (cfg : Cfg) : ∀ (n : Nat) (s s' : PS) (a : Ast), GoodPS s →
    typeRef n cfg s = .ok (a, s') →
    GoodPS s' ∧ ∃ t : Ty, t.wf = true ∧ TyP.shaped t = true ∧ a = t.toAst := by
  intro n
  induction n with
  | zero => intro s s' a _ h; simp [typeRef, P.crash] at h
  | succ n ih =>
    intro s s' a hg h
    simp only [typeRef, bind_eq] at h
    cases h1 : expectOptionalToken cfg .bracketL s with
    | err e => rw [h1] at h; cases h
    | crash c => rw [h1] at h; cases h
    | ok r1 =>
      obtain ⟨isList, s1⟩ := r1
      rw [h1] at h
      simp only at h
      have hg1 := expectOptionalToken_inv cfg .bracketL s s1 isList h1 hg
      -- the core type (a list or a named type)
      have hcore : ∀ (ty : Ast) (s2 : PS), (if isList = true then do
            let inner ← typeRef n cfg
            let _ ← expectToken cfg .bracketR
            pure (mkNode "ListTypeNode" [("type", inner)])
          else parseNamedType cfg) s1 = .ok (ty, s2) →
          GoodPS s2 ∧ ∃ t : Ty, t.wf = true ∧ TyP.shaped t = true ∧ TyP.isCore t = true ∧ ty = t.toAst := by
        intro ty s2 hc
        cases isList with
        | true =>
          simp only [↓reduceIte, bind_eq] at hc
          cases h2 : typeRef n cfg s1 with
          | err e => rw [h2] at hc; cases hc
          | crash c => rw [h2] at hc; cases hc
          | ok r2 =>
            obtain ⟨inner, s3⟩ := r2
            rw [h2] at hc
            simp only at hc
            obtain ⟨hg3, t, hwf, hsh, rfl⟩ := ih s1 s3 inner hg1 h2
            cases h3 : expectToken cfg .bracketR s3 with
            | err e => rw [h3] at hc; cases hc
            | crash c => rw [h3] at hc; cases hc
            | ok r3 =>
              obtain ⟨tk, s4⟩ := r3
              rw [h3] at hc
              simp only [pure_eq'] at hc
              cases hc
              exact ⟨(expectToken_inv cfg .bracketR s3 _ tk h3 hg3).1, .list t, hwf, hsh, rfl,
                by simp [TyP.mkNode_list, Ty.toAst]⟩
        | false =>
          simp only [Bool.false_eq_true, ↓reduceIte] at hc
          obtain ⟨hg2, nm, hv, rfl⟩ := parseNamedType_inv cfg s1 s2 ty hc hg1
          exact ⟨hg2, .named nm, hv, rfl, rfl, rfl⟩
      generalize hT : (if isList = true then do
            let inner ← typeRef n cfg
            let _ ← expectToken cfg .bracketR
            pure (mkNode "ListTypeNode" [("type", inner)])
          else parseNamedType cfg) = core at h hcore
      cases h2 : core s1 with
      | err e => rw [h2] at h; cases h
      | crash c => rw [h2] at h; cases h
      | ok r2 =>
        obtain ⟨ty, s2⟩ := r2
        rw [h2] at h
        simp only at h
        obtain ⟨hg2, t, hwf, hsh, hco, rfl⟩ := hcore ty s2 h2
        cases h3 : expectOptionalToken cfg .bang s2 with
        | err e => rw [h3] at h; cases h
        | crash c => rw [h3] at h; cases h
        | ok r3 =>
          obtain ⟨bang, s3⟩ := r3
          rw [h3] at h
          simp only at h
          have hg3 := expectOptionalToken_inv cfg .bang s2 s3 bang h3 hg2
          cases bang with
          | true =>
            simp only [↓reduceIte, pure_eq'] at h
            cases h
            exact ⟨hg3, .nonNull t, hwf, by simp [TyP.shaped, hco, hsh], by simp [TyP.mkNode_nonNull, Ty.toAst]⟩
          | false =>
            simp only [Bool.false_eq_true, ↓reduceIte, pure_eq'] at h
            cases h
            exact ⟨hg3, t, hwf, hsh, rfl⟩


/-- **`parse_wf` for the TYPE entry point**: every tree `parse_type` returns (any flags, any
`max_tokens`) is the tree of a well-formed, parser-shaped type. -/
theorem parseSource_type_wf (cfg : Cfg) (src : List Nat) (d : Ast) (h : parseSource .type cfg src = .ok d) :
    ∃ t : Ty, t.wf = true ∧ TyP.shaped t = true ∧ d = t.toAst := by
  unfold parseSource parseStream parseStreamWith at h
  simp only [show (Entry.type = Entry.schemaCoordinate) = False by simp, ↓reduceIte, runEntry, bind_eq] at h
  have hg0 : GoodPS (initState (streamOf src)) :=
    ⟨NameOk.of_kind (by simp [initState, sofToken]), goodStream_streamOf src⟩
  generalize parseFuel (streamOf src) = fuel at h
  cases h1 : expectToken cfg .sof (initState (streamOf src)) with
  | err e => rw [h1] at h; cases h
  | crash c => rw [h1] at h; cases h
  | ok r1 =>
    obtain ⟨t1, s1⟩ := r1
    rw [h1] at h
    simp only at h
    have hg1 := (expectToken_inv cfg .sof _ s1 t1 h1 hg0).1
    cases h2 : typeRef fuel cfg s1 with
    | err e => rw [h2] at h; cases h
    | crash c => rw [h2] at h; cases h
    | ok r2 =>
      obtain ⟨a, s2⟩ := r2
      rw [h2] at h
      simp only at h
      obtain ⟨_, t, hwf, hsh, rfl⟩ := typeRef_inv cfg fuel s1 s2 a hg1 h2
      cases h3 : expectToken cfg .eof s2 with
      | err e => rw [h3] at h; cases h
      | crash c => rw [h3] at h; cases h
      | ok r3 =>
        obtain ⟨t3, s3⟩ := r3
        rw [h3] at h
        simp only [pure_eq'] at h
        cases h
        exact ⟨t, hwf, hsh, rfl⟩

end Gql.Syntax
