import Gql.Proofs.ValueRoundtrip
/-!
Executable documents as a typed sub-grammar (stage 1: operations — shorthand or with keyword, name
and directives —, fragment definitions, fields with alias / arguments / directives / nested
selection sets, fragment spreads, inline fragments; no variable definitions, descriptions or
fragment arguments yet).  Empty lists stand for Python `None` (the parser never builds an empty
tuple in these positions).
-/
namespace Gql.Text
open Gql.Syntax

abbrev Args := List (List Nat × Val)

structure Dir where
  name : List Nat
  args : Args

inductive Sel where
  /-- `alias = []`: no alias; `ss = []`: no selection set -/
  | field (alias name : List Nat) (args : Args) (dirs : List Dir) (ss : List Sel)
  | spread (name : List Nat) (dirs : List Dir)
  /-- `tc = []`: no type condition -/
  | inline (tc : List Nat) (dirs : List Dir) (ss : List Sel)

inductive Def where
  /-- `opType` is `query` / `mutation` / `subscription`; `name = []`: anonymous -/
  | op (opType name : List Nat) (dirs : List Dir) (ss : List Sel)
  | frag (name tc : List Nat) (dirs : List Dir) (ss : List Sel)

def optL (xs : List Ast) : Ast := if xs.isEmpty then .none else .list xs
def optName (n : List Nat) : Ast := if n.isEmpty then .none else Val.nameNode n
def namedType (n : List Nat) : Ast := .node "NamedTypeNode" [("name", Val.nameNode n)]

namespace Exec

def argsAst : Args → List Ast
  | [] => []
  | (n, v) :: r => .node "ArgumentNode" [("name", Val.nameNode n), ("value", v.toAst)] :: argsAst r

def dirAst (d : Dir) : Ast :=
  .node "DirectiveNode" [("name", Val.nameNode d.name), ("arguments", optL (argsAst d.args))]

def dirsAst (ds : List Dir) : Ast := optL (ds.map dirAst)

mutual
  def selAst : Sel → Ast
    | .field al n args ds ss =>
      .node "FieldNode" [("directives", dirsAst ds), ("name", Val.nameNode n), ("alias", optName al),
        ("arguments", optL (argsAst args)),
        ("selection_set", match ss with
          | [] => .none
          | s :: r => .node "SelectionSetNode" [("selections", .list (selsAst (s :: r)))])]
    | .spread n ds =>
      .node "FragmentSpreadNode" [("directives", dirsAst ds), ("name", Val.nameNode n), ("arguments", .none)]
    | .inline tc ds ss =>
      .node "InlineFragmentNode" [("directives", dirsAst ds),
        ("selection_set", .node "SelectionSetNode" [("selections", .list (selsAst ss))]),
        ("type_condition", if tc.isEmpty then .none else namedType tc)]
  def selsAst : List Sel → List Ast
    | [] => []
    | s :: r => selAst s :: selsAst r
end

def ssAst (ss : List Sel) : Ast := .node "SelectionSetNode" [("selections", .list (selsAst ss))]

/-- `fragArgs` = the parser's `experimental_fragment_arguments`: without it a fragment definition has
`variable_definitions=()`, with it (and no variable definitions written) `None`. -/
def defAst (fragArgs : Bool) : Def → Ast
  | .op ot n ds ss =>
    .node "OperationDefinitionNode" [("selection_set", ssAst ss), ("description", .none), ("name", optName n),
      ("variable_definitions", .none), ("directives", dirsAst ds), ("operation", .str ot)]
  | .frag n tc ds ss =>
    .node "FragmentDefinitionNode" [("selection_set", ssAst ss), ("description", .none),
      ("name", Val.nameNode n), ("variable_definitions", if fragArgs then .none else .list []),
      ("directives", dirsAst ds),
      ("type_condition", namedType tc)]

def docAst (fragArgs : Bool) (defs : List Def) : Ast :=
  .node "DocumentNode" [("definitions", .list (defs.map (defAst fragArgs)))]

/-! ### printing -/

def printDir (w : Widths) (d : Dir) : List Nat :=
  64 :: d.name ++ wrap [40] (join (Val.printFields w d.args) [44, 32]) [41]

def printDirs (w : Widths) (ds : List Dir) : List Nat := join (ds.map (printDir w)) [32]

mutual
  def printSel (w : Widths) : Sel → List Nat
    | .field al n args ds ss =>
      let pre := join [wrap [] al (S ": "), n]
      join [wrappedLineAndArgs w pre (Val.printFields w args), wrap [32] (printDirs w ds),
        wrap [32] (match ss with
          | [] => []
          | s :: r => block (printSels w (s :: r)))]
    | .spread n ds => wrappedLineAndArgs w (S "..." ++ n) [] ++ wrap [32] (printDirs w ds)
    | .inline tc ds ss =>
      join [S "...", wrap (S "on ") tc, printDirs w ds, block (printSels w ss)] [32]
  def printSels (w : Widths) : List Sel → List (List Nat)
    | [] => []
    | s :: r => printSel w s :: printSels w r
end

def printDef (w : Widths) : Def → List Nat
  | .op ot n ds ss =>
    let pre := join [ot, join [n, []], printDirs w ds] [32]
    (if pre = S "query" then [] else pre ++ [32]) ++ block (printSels w ss)
  | .frag n tc ds ss =>
    S "fragment " ++ n ++ S " on " ++ tc ++ [32] ++ wrap [] (printDirs w ds) [32] ++ block (printSels w ss)

def printDoc (w : Widths) (defs : List Def) : List Nat :=
  join (documentDefs none (defs.map (printDef w))) [10, 10]

/-! ### tokens -/

def argsKvs (args : Args) : List KV :=
  match args with
  | [] => []
  | _ :: _ => (.parenL, none) :: Val.kvsFields args ++ [(.parenR, none)]

def dirKvs (d : Dir) : List KV := (.at, none) :: (.name, some d.name) :: argsKvs d.args

def dirsKvs : List Dir → List KV
  | [] => []
  | d :: r => dirKvs d ++ dirsKvs r

mutual
  def selKvs : Sel → List KV
    | .field al n args ds ss =>
      (if al.isEmpty then [] else [(.name, some al), (.colon, none)]) ++ [(.name, some n)] ++ argsKvs args
        ++ dirsKvs ds ++ (match ss with
          | [] => []
          | s :: r => (.braceL, none) :: selsKvs (s :: r) ++ [(.braceR, none)])
    | .spread n ds => (.spread, none) :: (.name, some n) :: dirsKvs ds
    | .inline tc ds ss =>
      (.spread, none) :: (if tc.isEmpty then [] else [(.name, some (S "on")), (.name, some tc)]) ++ dirsKvs ds
        ++ (.braceL, none) :: selsKvs ss ++ [(.braceR, none)]
  def selsKvs : List Sel → List KV
    | [] => []
    | s :: r => selKvs s ++ selsKvs r
end

def ssKvs (ss : List Sel) : List KV := (.braceL, none) :: selsKvs ss ++ [(.braceR, none)]

/-! ### well-formedness (image of the parser) -/

/-- `c` = the directive / argument stands in a constant position (`parse_const_directives`). -/
def argsWfC (c : Bool) (args : Args) : Prop := Val.wfFields c args

def dirWfC (c : Bool) (d : Dir) : Prop := validName d.name = true ∧ argsWfC c d.args

def dirsWfC (c : Bool) : List Dir → Prop
  | [] => True
  | d :: r => dirWfC c d ∧ dirsWfC c r

abbrev argsWf (args : Args) : Prop := argsWfC false args
abbrev dirWf (d : Dir) : Prop := dirWfC false d
abbrev dirsWf (ds : List Dir) : Prop := dirsWfC false ds

mutual
  def selWf : Sel → Prop
    | .field al n args ds ss =>
      (al = [] ∨ validName al = true) ∧ validName n = true ∧ argsWf args ∧ dirsWf ds ∧ selsWf ss
    | .spread n ds => validName n = true ∧ n ≠ S "on" ∧ dirsWf ds
    | .inline tc ds ss => (tc = [] ∨ validName tc = true) ∧ dirsWf ds ∧ ss ≠ [] ∧ selsWf ss
  def selsWf : List Sel → Prop
    | [] => True
    | s :: r => selWf s ∧ selsWf r
end

end Exec
end Gql.Text

namespace Gql.Text
namespace Exec
open Gql.Syntax

def isOpType (ot : List Nat) : Prop := ot = S "query" ∨ ot = S "mutation" ∨ ot = S "subscription"

/-- The operation prints in the shorthand form `{ … }`. -/
def isShorthand (ot n : List Nat) (ds : List Dir) : Prop := ot = S "query" ∧ n = [] ∧ ds = []

instance (ot n : List Nat) (ds : List Dir) : Decidable (isShorthand ot n ds) := by
  unfold isShorthand
  have : Decidable (ds = []) := by cases ds <;> simp <;> infer_instance
  infer_instance

def defKvs : Def → List KV
  | .op ot n ds ss =>
    if isShorthand ot n ds then ssKvs ss
    else (.name, some ot) :: (if n.isEmpty then [] else [(.name, some n)]) ++ dirsKvs ds ++ ssKvs ss
  | .frag n tc ds ss =>
    (.name, some (S "fragment")) :: (.name, some n) :: (.name, some (S "on")) :: (.name, some tc) ::
      dirsKvs ds ++ ssKvs ss

def defsKvs : List Def → List KV
  | [] => []
  | d :: r => defKvs d ++ defsKvs r

def defWf : Def → Prop
  | .op ot n ds ss => isOpType ot ∧ (n = [] ∨ validName n = true) ∧ dirsWf ds ∧ ss ≠ [] ∧ selsWf ss
  | .frag n tc ds ss => validName n = true ∧ n ≠ S "on" ∧ validName tc = true ∧ dirsWf ds ∧ ss ≠ [] ∧ selsWf ss

def defsWf : List Def → Prop
  | [] => True
  | d :: r => defWf d ∧ defsWf r

end Exec
end Gql.Text
