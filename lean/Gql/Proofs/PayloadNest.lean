import Gql.Proofs.Gone
/-!
P5 at the payload level: the publisher's id table ties the pending entries of the payload
stream to the scheduler's roots, so the history invariant `GoneInv` becomes a statement about
labels and ids of the emitted payloads.
-/
namespace Gql.Async
open Gql.Spec.Protocol

def annEntries (ps : List Payload) : List Pending := ps.flatMap (·.pending)

/-- Groups are labelled by their own number, streams carry no label (the direct-run convention;
any injective labelling of the groups that streams do not share would do). -/
structure Labels (π : PubStatic) : Prop where
  g : ∀ g, π.glabel g = some g
  s : ∀ s, π.slabel s = none

theorem Labels.node {π : PubStatic} (L : Labels π) (n : Node) (g : Nat) (h : π.label n = some g) :
    n = .group g := by
  cases n with
  | group x => simp only [PubStatic.label, L.g] at h; cases h; rfl
  | stream x => simp only [PubStatic.label, L.s] at h; cases h

/-! ### lookups survive -/

theorem ensureId_lookup (p : Pub) (n m : Node) (i : Nat) (h : alookup p.ids m = some i) :
    alookup (ensureId p n).1.ids m = some i := by
  unfold ensureId
  cases hl : alookup p.ids n with
  | some j => exact h
  | none =>
    simp only
    by_cases e : n = m
    · subst e; rw [hl] at h; cases h
    · rw [alookup_aset_ne _ _ _ _ e]; exact h

theorem toPending_fold_lookup (π : PubStatic) (ns : List Node) (p : Pub) (acc : List Pending)
    (m : Node) (i : Nat) (h : alookup p.ids m = some i) :
    alookup (ns.foldl (fun (acc : Pub × List Pending) n =>
      let (p, i) := ensureId acc.1 n
      (p, acc.2 ++ [{ id := i, path := π.path n, label := π.label n }])) (p, acc)).1.ids m = some i := by
  induction ns generalizing p acc with
  | nil => exact h
  | cons n ns ih =>
    simp only [List.foldl_cons]
    exact ih _ _ (ensureId_lookup p n m i h)

theorem toPending_lookup (π : PubStatic) (p : Pub) (gs ss : List Nat) (m : Node) (i : Nat)
    (h : alookup p.ids m = some i) : alookup (toPendingResults π p gs ss).1.ids m = some i :=
  toPending_fold_lookup π _ p [] m i h

/-- Each entry made by `_to_pending_results` carries the label of a node that now has its id. -/
theorem toPending_fold_entries (π : PubStatic) (ns : List Node) (p : Pub) (acc : List Pending)
    (hp : PubInv p) :
    ∀ a ∈ (ns.foldl (fun (acc : Pub × List Pending) n =>
        let (p, i) := ensureId acc.1 n
        (p, acc.2 ++ [{ id := i, path := π.path n, label := π.label n }])) (p, acc)).2,
      a ∈ acc ∨ ∃ n ∈ ns, a.label = π.label n ∧
        alookup (ns.foldl (fun (acc : Pub × List Pending) n =>
          let (p, i) := ensureId acc.1 n
          (p, acc.2 ++ [{ id := i, path := π.path n, label := π.label n }])) (p, acc)).1.ids n = some a.id := by
  induction ns generalizing p acc with
  | nil => intro a ha; exact Or.inl ha
  | cons n ns ih =>
    intro a ha
    simp only [List.foldl_cons] at ha ⊢
    obtain ⟨h1, _, h3, _, _⟩ := ensureId_spec p n hp
    rcases ih (ensureId p n).1 _ h1 a ha with h | ⟨n', hn', hl, hk⟩
    · rcases List.mem_append.mp h with h | h
      · exact Or.inl h
      · simp at h; subst h
        exact Or.inr ⟨n, by simp, rfl, toPending_fold_lookup π ns _ _ n _ h3⟩
    · exact Or.inr ⟨n', List.mem_cons_of_mem _ hn', hl, hk⟩

theorem toPending_entries (π : PubStatic) (p : Pub) (gs ss : List Nat) (hp : PubInv p) :
    ∀ a ∈ (toPendingResults π p gs ss).2, ∃ n ∈ nodesOf gs ss, a.label = π.label n ∧
      alookup (toPendingResults π p gs ss).1.ids n = some a.id := by
  intro a ha
  rcases toPending_fold_entries π (nodesOf gs ss) p [] hp a ha with h | h
  · simp at h
  · exact h

/-- After `_ensure_id(n)`; `del _ids[n]`: another node keeps its id, `n`'s id is retired. -/
theorem dropEnsure_lookup (p : Pub) (n m : Node) (i : Nat) (hp : PubInv p) (h : alookup p.ids m = some i) :
    alookup (dropId (ensureId p n).1 n).ids m = some i ∨ ¬ live (dropId (ensureId p n).1 n) i := by
  obtain ⟨h1, _, h3, _, _⟩ := ensureId_spec p n hp
  have hm := ensureId_lookup p n m i h
  by_cases e : n = m
  · subst e
    right
    rw [h3] at hm; cases hm
    exact (dropId_spec _ n _ h1 h3).2.2.2
  · left
    unfold dropId
    simp only
    rw [alookup_aerase_ne _ _ _ e]; exact hm

/-- An id stays with its node while it is in the table. -/
theorem handleEvent_lookup_keep (π : PubStatic) (p : Pub) (c : PCtx) (e : WQEvent) (m : Node) (i : Nat)
    (hp : PubInv p) (h : alookup p.ids m = some i) :
    alookup (handleEvent π p c e).1.ids m = some i ∨ ¬ live (handleEvent π p c e).1 i := by
  have hlt : i < p.nextId := hp.bound m i h
  -- announcing afterwards cannot bring a retired id back
  have after : ∀ (p1 : Pub) (ng ns : List Nat), PubInv p1 → p.nextId ≤ p1.nextId →
      (alookup p1.ids m = some i ∨ ¬ live p1 i) →
      alookup (toPendingResults π p1 ng ns).1.ids m = some i ∨ ¬ live (toPendingResults π p1 ng ns).1 i := by
    intro p1 ng ns hp1 hle h1
    rcases h1 with h1 | h1
    · exact Or.inl (toPending_lookup π p1 ng ns m i h1)
    · right
      intro hl
      rcases (toPending_spec π p1 ng ns hp1).2.1.fresh i hl with h2 | h2
      · exact h1 h2
      · omega
  cases e with
  | groupValues g vals => left; simpa [handleEvent] using ensureId_lookup p _ m i h
  | groupSuccess g ng ns =>
    simp only [handleEvent]
    have h1 := dropEnsure_lookup p (.group g) m i hp h
    obtain ⟨e1, e2, e3, _, _⟩ := ensureId_spec p (.group g) hp
    have hp1 := (dropId_spec _ (.group g) _ e1 e3).1
    split
    · exact h1
    · exact after _ ng ns hp1 (by simpa [dropId_nextId] using e2.mono) h1
  | groupFailure g => simpa [handleEvent] using dropEnsure_lookup p (.group g) m i hp h
  | streamValues s vals ng ns =>
    simp only [handleEvent]
    obtain ⟨e1, e2, _, _, _⟩ := ensureId_spec p (.stream s) hp
    split
    · exact Or.inl (ensureId_lookup p _ m i h)
    · exact after _ ng ns e1 e2.mono (Or.inl (ensureId_lookup p _ m i h))
  | streamSuccess s => simpa [handleEvent] using dropEnsure_lookup p (.stream s) m i hp h
  | streamFailure s => simpa [handleEvent] using dropEnsure_lookup p (.stream s) m i hp h
  | termination => left; simpa [handleEvent] using h

/-- What an event adds to `pending`: entries labelled by announced nodes that now hold the id. -/
theorem handleEvent_entries (π : PubStatic) (p : Pub) (c : PCtx) (e : WQEvent) (hp : PubInv p) :
    ∃ newp, (handleEvent π p c e).2.pending = c.pending ++ newp ∧
      ∀ a ∈ newp, ∃ n ∈ evNew e, a.label = π.label n ∧ alookup (handleEvent π p c e).1.ids n = some a.id := by
  cases e with
  | groupValues g vals => exact ⟨[], by simp [handleEvent], by simp⟩
  | groupSuccess g ng ns =>
    simp only [handleEvent]
    obtain ⟨e1, _, e3, _, _⟩ := ensureId_spec p (.group g) hp
    have hp1 := (dropId_spec _ (.group g) _ e1 e3).1
    split
    · exact ⟨[], by simp, by simp⟩
    · exact ⟨_, rfl, toPending_entries π _ ng ns hp1⟩
  | groupFailure g => exact ⟨[], by simp [handleEvent], by simp⟩
  | streamValues s vals ng ns =>
    simp only [handleEvent]
    obtain ⟨e1, _, _, _, _⟩ := ensureId_spec p (.stream s) hp
    split
    · exact ⟨[], by simp, by simp⟩
    · exact ⟨_, rfl, toPending_entries π _ ng ns e1⟩
  | streamSuccess s => exact ⟨[], by simp [handleEvent], by simp⟩
  | streamFailure s => exact ⟨[], by simp [handleEvent], by simp⟩
  | termination => exact ⟨[], by simp [handleEvent], by simp⟩

/-- The table invariant of the announced entries: while its id is in the table, a group entry's
id belongs to the group its label names. -/
def Tied (p : Pub) (A : List Pending) : Prop :=
  ∀ a ∈ A, a.id < p.nextId ∧
    ∀ g, a.label = some g → live p a.id → alookup p.ids (.group g) = some a.id

theorem evNew_group (e : WQEvent) (g : Nat) (h : Node.group g ∈ evNew e) : g ∈ annGroups [e] := by
  cases e <;> simp [evNew, nodesOf, annGroups] at h ⊢ <;> exact h

theorem handleBatch_tied (π : PubStatic) (L : Labels π) (evs : List WQEvent) (p : Pub) (A : List Pending)
    (hp : PubInv p) (ht : Tied p A) :
    Tied (handleBatch π p evs).1 (A ++ (handleBatch π p evs).2.pending) ∧
    ∀ a ∈ (handleBatch π p evs).2.pending, ∀ g, a.label = some g → g ∈ annGroups evs := by
  unfold handleBatch
  simp only
  have key : ∀ (evs : List WQEvent) (p : Pub) (c : PCtx) (done : List WQEvent), PubInv p →
      Tied p (A ++ c.pending) → (∀ a ∈ c.pending, ∀ g, a.label = some g → g ∈ annGroups done) →
      Tied (evs.foldl (fun (acc : Pub × PCtx) e => handleEvent π acc.1 acc.2 e) (p, c)).1
        (A ++ (evs.foldl (fun (acc : Pub × PCtx) e => handleEvent π acc.1 acc.2 e) (p, c)).2.pending) ∧
      ∀ a ∈ (evs.foldl (fun (acc : Pub × PCtx) e => handleEvent π acc.1 acc.2 e) (p, c)).2.pending,
        ∀ g, a.label = some g → g ∈ annGroups (done ++ evs) := by
    intro evs
    induction evs with
    | nil => intro p c done _ h1 h2; exact ⟨h1, by simpa using h2⟩
    | cons e evs ih =>
      intro p c done hp h1 h2
      simp only [List.foldl_cons]
      have d := handleEvent_delta π p c e hp
      obtain ⟨newp, ep, hnew⟩ := handleEvent_entries π p c e hp
      have t1 : Tied (handleEvent π p c e).1 (A ++ (handleEvent π p c e).2.pending) := by
        intro a ha
        rw [ep, ← List.append_assoc] at ha
        rcases List.mem_append.mp ha with ha | ha
        · obtain ⟨hlt, hk⟩ := h1 a ha
          refine ⟨Nat.lt_of_lt_of_le hlt d.ext.mono, ?_⟩
          intro g hg hl
          -- its id was in the table before: ids do not come back
          have hl0 : live p a.id := by
            rcases d.ext.fresh a.id hl with h | h
            · exact h
            · omega
          rcases handleEvent_lookup_keep π p c e (.group g) a.id hp (hk g hg hl0) with h | h
          · exact h
          · exact absurd hl h
        · obtain ⟨n, _, hlab, hk⟩ := hnew a ha
          refine ⟨d.inv.bound n a.id hk, ?_⟩
          intro g hg _
          have := L.node n g (hlab ▸ hg)
          subst this
          exact hk
      have t2 : ∀ a ∈ (handleEvent π p c e).2.pending, ∀ g, a.label = some g → g ∈ annGroups (done ++ [e]) := by
        intro a ha g hg
        rw [ep] at ha
        rw [annGroups_append]
        rcases List.mem_append.mp ha with ha | ha
        · exact List.mem_append.mpr (Or.inl (h2 a ha g hg))
        · obtain ⟨n, hn, hlab, _⟩ := hnew a ha
          have := L.node n g (hlab ▸ hg)
          subst this
          exact List.mem_append.mpr (Or.inr (evNew_group e g hn))
      have := ih (handleEvent π p c e).1 (handleEvent π p c e).2 (done ++ [e]) d.inv t1 t2
      simpa [List.append_assoc] using this
  have := key evs p {} [] hp (by simpa using ht) (by simp)
  simpa using this

end Gql.Async

namespace Gql.Async
open Gql.Spec.Protocol

theorem publish_length (π : PubStatic) (bs : List (List WQEvent)) (p : Pub) :
    (publish π p bs).2.length = bs.length := by
  induction bs generalizing p with
  | nil => rfl
  | cons b bs ih => simp [publish, ih]

theorem publish_take (π : PubStatic) (bs : List (List WQEvent)) (p : Pub) (k : Nat) :
    (publish π p bs).2.take k = (publish π p (bs.take k)).2 := by
  induction bs generalizing p k with
  | nil => simp [publish]
  | cons b bs ih =>
    cases k with
    | zero => simp [publish]
    | succ k => simp [publish, ih]

theorem publish_pubInv (π : PubStatic) (bs : List (List WQEvent)) (p : Pub) (hp : PubInv p) :
    PubInv (publish π p bs).1 :=
  (publish_inv π bs p [] hp (by intro r hr; cases hr) List.nodup_nil).1

theorem publish_tied (π : PubStatic) (L : Labels π) (bs : List (List WQEvent)) (p : Pub) (A : List Pending)
    (hp : PubInv p) (ht : Tied p A) :
    Tied (publish π p bs).1 (A ++ annEntries (publish π p bs).2) ∧
    ∀ a ∈ annEntries (publish π p bs).2, ∀ g, a.label = some g → g ∈ annGroups bs.flatten := by
  induction bs generalizing p A with
  | nil => simpa [publish, annEntries] using ht
  | cons b bs ih =>
    obtain ⟨t1, t2⟩ := handleBatch_tied π L b p A hp ht
    have hp1 : PubInv (handleBatch π p b).1 :=
      (handleBatch_spec π p [] b hp (by intro r hr; cases hr) List.nodup_nil).1
    obtain ⟨i1, i2⟩ := ih (handleBatch π p b).1 _ hp1 t1
    simp only [publish, annEntries, List.flatMap_cons, List.flatten_cons, annGroups_append]
    refine ⟨by simpa [annEntries, List.append_assoc] using i1, ?_⟩
    intro a ha g hg
    rcases List.mem_append.mp ha with ha | ha
    · exact List.mem_append.mpr (Or.inl (t2 a ha g hg))
    · exact List.mem_append.mpr (Or.inr (i2 a ha g hg))

/-- The invariant at the start of the run. -/
theorem goneInv_start (σ : Static) (work : Option Work) (hw : workOptOk σ {} {} none work = true) :
    GoneInv σ (nodesOf (init σ work).2.1 (init σ work).2.2) (init σ work).2.1
      (({} : EnvSt).intro work) (startRoots σ (init σ work).1) [] := by
  obtain ⟨g0, _⟩ := init_good σ work hw
  obtain ⟨c0, a0, n0⟩ := init_p5 σ work hw
  obtain ⟨hp, hst, hr⟩ := init_facts σ work
  obtain ⟨sp, sst⟩ := startRoots_pumps σ (init σ work).1
  refine ⟨⟨⟨⟨g0, ⟨?_, ?_, ?_⟩, trivial⟩, c0, a0⟩, n0⟩, ?_⟩
  · intro s hs
    rw [sp, hp, List.nil_append] at hs
    exact Or.inl ((isRoot_startRoots σ _ (.stream s)).mpr hs)
  · intro hs; rw [sst, hst] at hs; cases hs
  · intro n hn'
    exact (isRoot_startRoots σ _ n).mpr (hr n hn')
  · intro b hb
    have hb' : b ∈ (init σ work).2.1 := by simpa [annGroups] using hb
    have hroot : b ∈ (startRoots σ (init σ work).1).rootGroups :=
      (isRoot_startRoots σ _ (.group b)).mpr (hr _ ((mem_nodesOf _ _ _).mpr (Or.inl ⟨b, hb', rfl⟩)))
    exact ⟨g0.known.roots b hroot, a0 b hroot⟩

/-- P5 at the payload level, at every payload boundary. -/
theorem payload_nesting (σ : Static) (π : PubStatic) (L : Labels π) (fuel : Nat) (work : Option Work)
    (h : List Tick) (hok : envOk σ fuel work h = true) (k : Nat)
    (hk : k < (payloads σ π fuel work h).length) :
    ∀ a ∈ annEntries ((payloads σ π fuel work h).take (k + 1)),
    ∀ b ∈ annEntries ((payloads σ π fuel work h).take (k + 1)),
    ∀ ga gb, a.label = some ga → b.label = some gb →
      a.id ∉ completedIds ((payloads σ π fuel work h).take (k + 1)) → ¬ Anc σ ga gb := by
  have hw : workOptOk σ {} {} none work = true := by
    unfold envOk at hok
    simp only [Bool.and_eq_true] at hok
    exact hok.1
  obtain ⟨hout, _⟩ := payloads_eq σ π fuel work h
  have hpre := (goneInv_run σ (nodesOf (init σ work).2.1 (init σ work).2.2) (init σ work).2.1).envOk_prefix
    fuel work h (goneInv_start σ work hw) hok
  rw [hout] at hk ⊢
  simp only [List.length_cons, publish_length] at hk
  have hk' : k ≤ (wqRun σ fuel (wqStart σ fuel work) h).2.length := by omega
  obtain ⟨e, q, hI⟩ := hpre k hk'
  simp only [List.nil_append] at hI
  obtain ⟨⟨⟨⟨good, ⟨_, _, hdom⟩, _⟩, _, _⟩, hrn⟩, hgone⟩ := hI
  simp only [List.take_succ_cons, publish_take]
  -- the publisher on the first `k` batches
  obtain ⟨ti, td, tl, tc⟩ := initial_table π (init σ work).2.1 (init σ work).2.2
  have tied0 : Tied (initialPayload π (init σ work).2.1 (init σ work).2.2).1
      (initialPayload π (init σ work).2.1 (init σ work).2.2).2.pending ∧
      ∀ a ∈ (initialPayload π (init σ work).2.1 (init σ work).2.2).2.pending, ∀ g, a.label = some g →
        g ∈ (init σ work).2.1 := by
    have hent := toPending_entries π {} (init σ work).2.1 (init σ work).2.2 pubInv_empty
    constructor
    · intro a ha
      obtain ⟨n, _, hlab, hkk⟩ := hent a ha
      refine ⟨ti.bound n a.id hkk, ?_⟩
      intro g hg _
      have := L.node n g (hlab ▸ hg)
      subst this
      exact hkk
    · intro a ha g hg
      obtain ⟨n, hn, hlab, _⟩ := hent a ha
      have := L.node n g (hlab ▸ hg)
      subst this
      rcases (mem_nodesOf _ _ _).mp hn with ⟨x, hx, e1⟩ | ⟨x, _, e1⟩
      · cases e1; exact hx
      · cases e1
  obtain ⟨tied, hlab⟩ := publish_tied π L ((wqRun σ fuel (wqStart σ fuel work) h).2.take k)
    (initialPayload π (init σ work).2.1 (init σ work).2.2).1 _ ti tied0.1
  have hopen := publish_open π ((wqRun σ fuel (wqStart σ fuel work) h).2.take k)
    (initialPayload π (init σ work).2.1 (init σ work).2.2).1
    ((initialPayload π (init σ work).2.1 (init σ work).2.2).2.pending.map (·.id)) []
    ti (by intro r hr; simp at hr) (by simp)
    (by intro i hi; obtain ⟨a, ha, rfl⟩ := List.mem_map.mp hi; exact Or.inr (tl a ha))
  have hdomk := publish_dom π ((wqRun σ fuel (wqStart σ fuel work) h).2.take k)
    (initialPayload π (init σ work).2.1 (init σ work).2.2).1 _ td
  intro a ha b hb ga gb hla hlb hnc hanc
  simp only [annEntries, List.flatMap_cons] at ha hb
  -- `b` was announced initially or by an event of the first `k` batches
  have hgb : gb ∈ (init σ work).2.1 ++ annGroups ((wqRun σ fuel (wqStart σ fuel work) h).2.take k).flatten := by
    rcases List.mem_append.mp hb with hb | hb
    · exact List.mem_append.mpr (Or.inl (tied0.2 b hb gb hlb))
    · exact List.mem_append.mpr (Or.inr (hlab b hb gb hlb))
  -- `a` is still in the table, under its group
  have hlive : live (publish π (initialPayload π (init σ work).2.1 (init σ work).2.2).1
      ((wqRun σ fuel (wqStart σ fuel work) h).2.take k)).1 a.id := by
    have hmem : a.id ∈ (initialPayload π (init σ work).2.1 (init σ work).2.2).2.pending.map (·.id) ++
        announcedIds (publish π (initialPayload π (init σ work).2.1 (init σ work).2.2).1
          ((wqRun σ fuel (wqStart σ fuel work) h).2.take k)).2 := by
      rcases List.mem_append.mp ha with ha | ha
      · exact List.mem_append.mpr (Or.inl (List.mem_map_of_mem ha))
      · refine List.mem_append.mpr (Or.inr ?_)
        simp only [announcedIds, List.mem_flatMap, List.mem_map]
        simp only [List.mem_flatMap] at ha
        obtain ⟨pl, hpl, hapl⟩ := ha
        exact ⟨pl, hpl, a, hapl, rfl⟩
    rcases hopen a.id hmem with h1 | h1
    · exfalso
      apply hnc
      simp only [completedIds, List.flatMap_cons, tc, List.map_nil, List.nil_append]
      simpa [completedIds] using h1
    · exact h1
  have hlook := (tied a (by simpa [annEntries] using ha)).2 ga hla hlive
  have hroot := hdom _ (hdomk _ _ hlook)
  exact hgone gb hgb |>.2 ga hanc (hrn ga hroot)

end Gql.Async
