import Gql.Proofs.Lexes
/-!
Values (`Variable`, `IntValue`, …, `ListValue`, `ObjectValue`) as a self-contained sub-grammar:
the typed tree, the tree the parser builds for it, what the printer prints, its tokens.
-/
namespace Gql.Text
open Gql.Syntax

inductive Val where
  | var (n : List Nat)
  | int (s : List Nat)
  | float (s : List Nat)
  | str (s : List Nat) (block : Bool)
  | bool (b : Bool)
  | null
  | enum (n : List Nat)
  | list (vs : List Val)
  | obj (fs : List (List Nat × Val))

namespace Val

def nameNode (n : List Nat) : Ast := .node "NameNode" [("value", .str n)]

mutual
  /-- The tree `parse_value_literal` builds. -/
  def toAst : Val → Ast
    | var n => .node "VariableNode" [("name", nameNode n)]
    | int s => .node "IntValueNode" [("value", .str s)]
    | float s => .node "FloatValueNode" [("value", .str s)]
    | str s b => .node "StringValueNode" [("value", .str s), ("block", .bool b)]
    | bool b => .node "BooleanValueNode" [("value", .bool b)]
    | null => .node "NullValueNode" []
    | enum n => .node "EnumValueNode" [("value", .str n)]
    | list vs => .node "ListValueNode" [("values", .list (toAstList vs))]
    | obj fs => .node "ObjectValueNode" [("fields", .list (toAstFields fs))]
  def toAstList : List Val → List Ast
    | [] => []
    | v :: vs => toAst v :: toAstList vs
  def toAstFields : List (List Nat × Val) → List Ast
    | [] => []
    | (n, v) :: fs => .node "ObjectFieldNode" [("name", nameNode n), ("value", toAst v)] :: toAstFields fs
end

mutual
  /-- The text of `leave_variable`, `leave_int_value`, …, `leave_list_value`, `leave_object_value`. -/
  def print (w : Widths) : Val → List Nat
    | var n => 36 :: n
    | int s => s
    | float s => s
    | str s b => if b then printBlockStringW w.block s false else printString s
    | bool b => if b then S "true" else S "false"
    | null => S "null"
    | enum n => n
    | list vs =>
      let ts := printList w vs
      let line := [91] ++ join ts [44, 32] ++ [93]
      if line.length > w.list then [91] ++ [10] ++ indent (join ts [10]) ++ [10] ++ [93] else line
    | obj fs =>
      let ts := printFields w fs
      let line := [123, 32] ++ join ts [44, 32] ++ [32, 125]
      if line.length > w.object then block ts else line
  def printList (w : Widths) : List Val → List (List Nat)
    | [] => []
    | v :: vs => print w v :: printList w vs
  def printFields (w : Widths) : List (List Nat × Val) → List (List Nat)
    | [] => []
    | (n, v) :: fs => (n ++ S ": " ++ print w v) :: printFields w fs
end

mutual
  /-- Token kinds and values, in order. -/
  def kvs : Val → List KV
    | var n => [(.dollar, none), (.name, some n)]
    | int s => [(.int, some s)]
    | float s => [(.float, some s)]
    | str s b => [(if b then .blockString else .string, some s)]
    | bool b => [(.name, some (if b then S "true" else S "false"))]
    | null => [(.name, some (S "null"))]
    | enum n => [(.name, some n)]
    | list vs => (.bracketL, none) :: kvsList vs ++ [(.bracketR, none)]
    | obj fs => (.braceL, none) :: kvsFields fs ++ [(.braceR, none)]
  def kvsList : List Val → List KV
    | [] => []
    | v :: vs => kvs v ++ kvsList vs
  def kvsFields : List (List Nat × Val) → List KV
    | [] => []
    | (n, v) :: fs => (.name, some n) :: (.colon, none) :: kvs v ++ kvsFields fs
end

end Val

end Gql.Text
