import Gql.Proofs.SchemaDefaults
import Gql.Proofs.SchemaInterfaces
/-
Lemmas for C20, part 6: assembling the rule families into
`validateSchema s = .ok [] ↔ Spec.TypeSystemValid s`, with the two circular-reference families
entering through the error lists of the validators threaded over the type map
(`nnThread`, `dcThread`).
-/
namespace Gql.Types
open Gql

/-- the errors of one type that do not depend on the circular-reference validators' memory -/
def localErrs (s : RawSchema) (dflt : RawSchema → InputValue → Str → Out Unit (List Err))
    (t : NamedType) : Out Unit (List Err) :=
  let nameErrs := if isIntrospectionName t.name then [] else validateName t.name
  match t.defn with
  | .scalar _ => .ok nameErrs
  | .object is fs =>
    Out.mapOk (fun e => nameErrs ++ e ++ validateInterfaces s t.name is fs) (validateFields s dflt t.name fs)
  | .interface is fs =>
    Out.mapOk (fun e => nameErrs ++ e ++ validateInterfaces s t.name is fs) (validateFields s dflt t.name fs)
  | .union ms => .ok (nameErrs ++ validateUnion s t.name ms)
  | .enum vs => .ok (nameErrs ++ validateEnum t.name vs)
  | .input fs oneOf => Out.mapOk (fun e => nameErrs ++ e) (validateInputFields s dflt t.name fs oneOf)

/-- the errors of the two circular-reference validators for one type, and their memory after -/
def cycleErrs (s : RawSchema) (t : NamedType) (st : VState) : List Err × VState :=
  match t.defn with
  | .input _ _ =>
    let r1 := runNN s t.name st
    let r2 := runDC s t.name r1.2
    (r1.1 ++ r2.1, r2.2)
  | _ => ([], st)

theorem validateType_eq (s : RawSchema) (dflt : RawSchema → InputValue → Str → Out Unit (List Err))
    (t : NamedType) (st : VState) :
    validateType s dflt t st =
      Out.mapOk (fun e => (e ++ (cycleErrs s t st).1, (cycleErrs s t st).2)) (localErrs s dflt t) := by
  rcases t with ⟨name, defn⟩
  cases defn <;> simp only [validateType, localErrs, cycleErrs]
  · simp [Out.mapOk]
  · cases validateFields s dflt name _ <;> simp [Out.mapOk]
  · cases validateFields s dflt name _ <;> simp [Out.mapOk]
  · simp [Out.mapOk]
  · simp [Out.mapOk]
  · cases validateInputFields s dflt name _ _ <;> simp [Out.mapOk, List.append_assoc]

/-- the circular-reference errors over a list of types, memory threaded -/
def cycleAll (s : RawSchema) : List NamedType → VState → List Err
  | [], _ => []
  | t :: ts, st => (cycleErrs s t st).1 ++ cycleAll s ts (cycleErrs s t st).2

theorem validateTypesLoop_nil (s : RawSchema)
    (dflt : RawSchema → InputValue → Str → Out Unit (List Err)) :
    ∀ (ts : List NamedType) (st : VState),
      (∃ st', validateTypesLoop s dflt ts st = .ok ([], st')) ↔
        (∀ t ∈ ts, localErrs s dflt t = .ok []) ∧ cycleAll s ts st = []
  | [], st => by simp [validateTypesLoop, cycleAll]
  | t :: ts, st => by
    have ih := validateTypesLoop_nil s dflt ts (cycleErrs s t st).2
    unfold validateTypesLoop cycleAll
    rw [validateType_eq]
    cases hl : localErrs s dflt t with
    | ok e =>
      simp only [Out.mapOk]
      cases hr : validateTypesLoop s dflt ts (cycleErrs s t st).2 with
      | ok r =>
        rcases r with ⟨es, st2⟩
        rw [hr] at ih
        simp only [Out.ok.injEq, Prod.mk.injEq, List.append_eq_nil_iff, exists_and_left, exists_eq',
          and_true, List.mem_cons, forall_eq_or_imp, hl] at ih ⊢
        constructor
        · rintro ⟨⟨h1, h2⟩, h3⟩
          have := ih.mp h3
          exact ⟨⟨h1, this.1⟩, h2, this.2⟩
        · rintro ⟨⟨h1, h2⟩, h3, h4⟩
          exact ⟨⟨h1, h3⟩, ih.mpr ⟨h2, h4⟩⟩
      | err u =>
        rw [hr] at ih
        simp only [reduceCtorEq, exists_false, false_iff, not_and, List.mem_cons, forall_eq_or_imp, hl,
          List.append_eq_nil_iff] at ih ⊢
        intros
        simp_all
      | crash c =>
        rw [hr] at ih
        simp only [reduceCtorEq, exists_false, false_iff, not_and, List.mem_cons, forall_eq_or_imp, hl,
          List.append_eq_nil_iff] at ih ⊢
        intros
        simp_all
    | err u => simp [Out.mapOk, hl]
    | crash c => simp [Out.mapOk, hl]


/-! ### the two validators run independently -/

/-- errors of `InputObjectNonNullCircularRefsValidator` over the type map, `visited_types` threaded -/
def nnThread (s : RawSchema) : List NamedType → List Str → List Err
  | [], _ => []
  | t :: ts, vis =>
    match t.defn with
    | .input _ _ =>
      (nnCall s (nnFuel s) t.name ⟨vis, [], [], [], false⟩).errs
        ++ nnThread s ts (nnCall s (nnFuel s) t.name ⟨vis, [], [], [], false⟩).visited
    | _ => nnThread s ts vis

/-- errors of `InputObjectDefaultValueCircularRefsValidator` over the type map, `visited_fields`
threaded -/
def dcThread (s : RawSchema) : List NamedType → List Str → List Err
  | [], _ => []
  | t :: ts, vis =>
    match t.defn with
    | .input _ _ =>
      (dcCall s t.name ⟨vis, [], [], [], false⟩).errs
        ++ dcThread s ts (dcCall s t.name ⟨vis, [], [], [], false⟩).visited
    | _ => dcThread s ts vis

theorem cycleAll_nil (s : RawSchema) : ∀ (ts : List NamedType) (st : VState),
    cycleAll s ts st = [] ↔ nnThread s ts st.nnVisited = [] ∧ dcThread s ts st.dcVisited = []
  | [], st => by simp [cycleAll, nnThread, dcThread]
  | t :: ts, st => by
    have ih := cycleAll_nil s ts (cycleErrs s t st).2
    unfold cycleAll nnThread dcThread
    rcases t with ⟨name, defn⟩
    cases defn <;> simp only [cycleErrs, List.nil_append] at ih ⊢ <;> try exact ih
    simp only [runNN, runDC, List.append_eq_nil_iff] at ih ⊢
    rw [ih]
    constructor
    · rintro ⟨⟨h1, h2⟩, h3, h4⟩; exact ⟨⟨h1, h3⟩, h2, h4⟩
    · rintro ⟨⟨h1, h3⟩, h2, h4⟩; exact ⟨⟨h1, h2⟩, h3, h4⟩

/-! ### one type, the memory-independent part -/

/-- the specification's rules for one type except the two circular-reference rules -/
def typeOkLocal (s : RawSchema) (t : NamedType) : Bool :=
  (isIntrospectionName t.name || Spec.nameOk t.name)
  && (match t.defn with
      | .scalar _ => true
      | .object is fs => Spec.fieldsOk s fs && Spec.implementsOk s t.name is fs
      | .interface is fs => Spec.fieldsOk s fs && Spec.implementsOk s t.name is fs
      | .union ms => !ms.isEmpty && ms.Nodup && ms.all s.isObject
      | .enum vs => !vs.isEmpty && vs.all Spec.nameOk
      | .input fs oneOf => !fs.isEmpty && fs.all (Spec.inputFieldOk s oneOf))

theorem typeOk_iff (s : RawSchema) (t : NamedType) :
    Spec.typeOk s t = true ↔
      typeOkLocal s t = true ∧
        ∀ fs o, t.defn = .input fs o →
          Spec.noUnbreakableCycle s t.name = true ∧ Spec.defaultValueHasCycle s t.name = false := by
  rcases t with ⟨name, defn⟩
  cases defn <;> simp [Spec.typeOk, typeOkLocal, and_assoc]

theorem nameErrs_nil (n : Str) :
    (if isIntrospectionName n = true then [] else validateName n) = [] ↔
      (isIntrospectionName n || Spec.nameOk n) = true := by
  cases isIntrospectionName n <;> simp [validateName_nil]

theorem localErrs_nil (s : RawSchema) (hw : WellTypedInputs s) (hu : UnionsOk s) (t : NamedType) :
    localErrs s validateDefault t = .ok [] ↔ typeOkLocal s t = true := by
  have H := defaultsAgree s hw
  rcases t with ⟨name, defn⟩
  cases defn with
  | scalar k => simp only [localErrs, typeOkLocal, Out.ok.injEq, nameErrs_nil, Bool.and_true]
  | object is fs =>
    simp only [localErrs, typeOkLocal, mapOk_eq_ok_nil, List.append_eq_nil_iff, nameErrs_nil,
      validateInterfaces_nil s hu, Bool.and_eq_true, ← validateFields_nil s validateDefault H name fs]
    constructor
    · rintro ⟨e, he, ⟨hn, rfl⟩, hi⟩; exact ⟨hn, he, hi⟩
    · rintro ⟨hn, he, hi⟩; exact ⟨[], he, ⟨hn, rfl⟩, hi⟩
  | interface is fs =>
    simp only [localErrs, typeOkLocal, mapOk_eq_ok_nil, List.append_eq_nil_iff, nameErrs_nil,
      validateInterfaces_nil s hu, Bool.and_eq_true, ← validateFields_nil s validateDefault H name fs]
    constructor
    · rintro ⟨e, he, ⟨hn, rfl⟩, hi⟩; exact ⟨hn, he, hi⟩
    · rintro ⟨hn, he, hi⟩; exact ⟨[], he, ⟨hn, rfl⟩, hi⟩
  | union ms =>
    simp only [localErrs, typeOkLocal, Out.ok.injEq, List.append_eq_nil_iff, nameErrs_nil,
      validateUnion_nil, Bool.and_eq_true]
  | enum vs =>
    simp only [localErrs, typeOkLocal, Out.ok.injEq, List.append_eq_nil_iff, nameErrs_nil,
      validateEnum_nil, Bool.and_eq_true]
  | input fs o =>
    simp only [localErrs, typeOkLocal, mapOk_eq_ok_nil, List.append_eq_nil_iff, nameErrs_nil,
      Bool.and_eq_true, ← Bool.and_eq_true (!fs.isEmpty), ← validateInputFields_nil s validateDefault H name fs o]
    constructor
    · rintro ⟨e, he, hn, rfl⟩; exact ⟨hn, he⟩
    · rintro ⟨hn, he⟩; exact ⟨[], he, hn, rfl⟩


/-! ### both sides imply the side conditions of the per-family statements -/

theorem validateInputField_inputType (s : RawSchema)
    (dflt : RawSchema → InputValue → Str → Out Unit (List Err)) (tn : Str) (o : Bool) (f : InputValue)
    (h : validateInputField s dflt tn o f = .ok []) : s.isInputType f.type = true := by
  unfold validateInputField at h
  rw [mapOk_eq_ok_nil] at h
  obtain ⟨d, _, hnil⟩ := h
  simp only [List.append_eq_nil_iff, ite_singleton_nil] at hnil
  simpa using hnil.1.1.1.2

theorem sideConditions_of_model (s : RawSchema)
    (h : ∀ t ∈ s.types, localErrs s validateDefault t = .ok []) : WellTypedInputs s ∧ UnionsOk s := by
  constructor
  · intro t ht fs o hdef f hf
    have := h t ht
    rcases t with ⟨name, defn⟩
    simp only at hdef
    subst hdef
    simp only [localErrs, mapOk_eq_ok_nil, List.append_eq_nil_iff] at this
    obtain ⟨e, he, _, rfl⟩ := this
    unfold validateInputFields at he
    rw [mapOk_eq_ok_nil] at he
    obtain ⟨es, hes, hnil⟩ := he
    simp only [List.append_eq_nil_iff] at hnil
    obtain ⟨_, rfl⟩ := hnil
    exact validateInputField_inputType s validateDefault name o f ((outFlatMap_eq_ok_nil _ fs).mp hes f hf)
  · intro t ht ms hdef
    have := h t ht
    rcases t with ⟨name, defn⟩
    simp only at hdef
    subst hdef
    simp only [localErrs, Out.ok.injEq, List.append_eq_nil_iff, validateUnion_nil, Bool.and_eq_true] at this
    exact this.2.2

theorem sideConditions_of_spec (s : RawSchema)
    (h : ∀ t ∈ s.types, typeOkLocal s t = true) : WellTypedInputs s ∧ UnionsOk s := by
  constructor
  · intro t ht fs o hdef f hf
    have := h t ht
    rcases t with ⟨name, defn⟩
    simp only at hdef
    subst hdef
    simp only [typeOkLocal, Bool.and_eq_true, List.all_eq_true] at this
    have hf' := this.2.2 f hf
    simp only [Spec.inputFieldOk, Spec.inputValueOk, Bool.and_eq_true] at hf'
    exact hf'.1.1.1.2
  · intro t ht ms hdef
    have := h t ht
    rcases t with ⟨name, defn⟩
    simp only at hdef
    subst hdef
    simp only [typeOkLocal, Bool.and_eq_true] at this
    exact this.2.2

/-- `validate_schema` reports nothing exactly when the specification's type-system rules hold,
given the two circular-reference families. -/
theorem validateSchema_iff_of_cycles (s : RawSchema)
    (hNN : nnThread s s.types [] = [] ↔
      ∀ t ∈ s.types, ∀ fs o, t.defn = .input fs o → Spec.noUnbreakableCycle s t.name = true)
    (hDC : dcThread s s.types [] = [] ↔
      ∀ t ∈ s.types, ∀ fs o, t.defn = .input fs o → Spec.defaultValueHasCycle s t.name = false) :
    validateSchema s = .ok [] ↔ Spec.TypeSystemValid s = true := by
  rw [validateSchema_nil_iff, validateRootTypes_nil, validateTypesLoop_nil, cycleAll_nil]
  unfold Spec.TypeSystemValid
  simp only [Bool.and_eq_true, List.all_eq_true (l := s.types), typeOk_iff]
  constructor
  · rintro ⟨hr, hd, hloc, hnn, hdc⟩
    obtain ⟨hw, hu⟩ := sideConditions_of_model s hloc
    refine ⟨⟨hr, (validateDirectives_nil s validateDefault (defaultsAgree s hw)).mp hd⟩, fun t ht => ?_⟩
    exact ⟨(localErrs_nil s hw hu t).mp (hloc t ht),
      fun fs o hdef => ⟨hNN.mp hnn t ht fs o hdef, hDC.mp hdc t ht fs o hdef⟩⟩
  · rintro ⟨⟨hr, hd⟩, ht⟩
    obtain ⟨hw, hu⟩ := sideConditions_of_spec s (fun t h => (ht t h).1)
    refine ⟨hr, (validateDirectives_nil s validateDefault (defaultsAgree s hw)).mpr hd,
      fun t h => (localErrs_nil s hw hu t).mpr (ht t h).1, ?_, ?_⟩
    · exact hNN.mpr (fun t h fs o hdef => ((ht t h).2 fs o hdef).1)
    · exact hDC.mpr (fun t h fs o hdef => ((ht t h).2 fs o hdef).2)

end Gql.Types
