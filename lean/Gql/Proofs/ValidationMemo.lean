import Gql.Validation.Context
/-!
Lemmas for C12-6 (`memo_pure`): cache invariant of the `ValidationContext` getters.
-/
namespace Gql.Validation.Context
variable {υ : Type}

theorem lookup_store_same {κ ν : Type} [DecidableEq κ] (k : κ) (v : ν) (l : List (κ × ν)) :
    lookup k (store k v l) = some v := by
  induction l with
  | nil => simp [store, lookup]
  | cons p l ih =>
    obtain ⟨k', v'⟩ := p
    by_cases h : k' = k <;> simp [store, lookup, h, ih]

theorem lookup_store_other {κ ν : Type} [DecidableEq κ] (k k' : κ) (v : ν) (l : List (κ × ν)) (h : k' ≠ k) :
    lookup k' (store k v l) = lookup k' l := by
  induction l with
  | nil => simp [store, lookup, Ne.symm h]
  | cons p l ih =>
    obtain ⟨k'', v''⟩ := p
    by_cases h2 : k'' = k
    · subst h2
      simp [store, lookup, Ne.symm h]
    · by_cases h3 : k'' = k'
      · subst h3; simp [store, lookup, h2]
      · simp [store, lookup, h2, h3, ih]

/-- What the entry of `_variable_usages` for a node must be, given which operations already have a
`_recursive_variable_usages` entry. -/
def expectedUsages (P : Pure υ) (c : Ctx υ) : NodeRef → List υ
  | .op o => if (lookup o c.recUsages).isSome then specRecUsages P o else P.usages (.op o)
  | .frag f => P.usages (.frag f)

structure Inv (P : Pure υ) (c : Ctx υ) : Prop where
  spreads : ∀ k v, lookup k c.spreads = some v → v = P.spreads k
  recFrags : ∀ k v, lookup k c.recFrags = some v → v = P.recFrags k
  recUsages : ∀ k v, lookup k c.recUsages = some v → v = specRecUsages P k
  varUsages : ∀ n v, lookup n c.varUsages = some v → v = expectedUsages P c n
  /-- the recursive entry *is* the `_variable_usages` entry of its operation (same list object) -/
  recHasVar : ∀ o v, lookup o c.recUsages = some v → lookup (NodeRef.op o) c.varUsages = some v

theorem Inv.empty (P : Pure υ) : Inv P (Ctx.empty : Ctx υ) := by
  constructor <;> intro k v h <;> simp [Ctx.empty, lookup] at h

theorem getUsages_spec (P : Pure υ) (c : Ctx υ) (h : Inv P c) (n : NodeRef) :
    (getUsages P c n).1 = (match lookup n c.varUsages with | some _ => expectedUsages P c n | none => P.usages n) ∧
    (getUsages P c n).2.recUsages = c.recUsages ∧ (getUsages P c n).2.spreads = c.spreads ∧
    (getUsages P c n).2.recFrags = c.recFrags ∧
    lookup n (getUsages P c n).2.varUsages = some (getUsages P c n).1 ∧
    (∀ n', n' ≠ n → lookup n' (getUsages P c n).2.varUsages = lookup n' c.varUsages) := by
  unfold getUsages
  cases hl : lookup n c.varUsages with
  | some v =>
    refine ⟨h.varUsages n v hl, ?_, ?_, ?_, ?_, ?_⟩ <;> first | rfl | trivial | exact hl | (intro _ _; rfl)
  | none =>
    refine ⟨?_, ?_, ?_, ?_, ?_, ?_⟩ <;>
      first | rfl | trivial | exact lookup_store_same _ _ _ | (intro n' hn; exact lookup_store_other _ _ _ _ hn)

/-- fragments never have a recursive entry, so their usages are always the plain ones -/
theorem getUsages_frag (P : Pure υ) (c : Ctx υ) (h : Inv P c) (f : Nat) :
    (getUsages P c (.frag f)).1 = P.usages (.frag f) := by
  have := (getUsages_spec P c h (.frag f)).1
  rw [this]
  cases lookup (NodeRef.frag f) c.varUsages <;> rfl

/-- loop invariant of the in-place extension -/
theorem extendLoop_spec (P : Pure υ) (o : Nat) (fs : List Nat) :
    ∀ (c : Ctx υ) (acc : List υ),
      (∀ f v, lookup (NodeRef.frag f) c.varUsages = some v → v = P.usages (.frag f)) →
      lookup (NodeRef.op o) c.varUsages = some acc →
      let c' := extendLoop P o c fs
      lookup (NodeRef.op o) c'.varUsages = some (acc ++ fs.flatMap (fun f => P.usages (.frag f))) ∧
      (∀ f v, lookup (NodeRef.frag f) c'.varUsages = some v → v = P.usages (.frag f)) ∧
      (∀ o', o' ≠ o → lookup (NodeRef.op o') c'.varUsages = lookup (NodeRef.op o') c.varUsages) ∧
      c'.recUsages = c.recUsages ∧ c'.spreads = c.spreads ∧ c'.recFrags = c.recFrags := by
  induction fs with
  | nil =>
    intro c acc h1 h2
    simp only [extendLoop, List.flatMap_nil, List.append_nil]
    exact ⟨h2, h1, fun _ _ => trivial, trivial, trivial, trivial⟩
  | cons f fs ih =>
    intro c acc h1 h2
    simp only [extendLoop]
    -- one step
    have hval : (getUsages P c (.frag f)).1 = P.usages (.frag f) := by
      unfold getUsages
      cases hl : lookup (NodeRef.frag f) c.varUsages with
      | some v => simp only; exact h1 f v hl
      | none => rfl
    have hop : lookup (NodeRef.op o) (getUsages P c (.frag f)).2.varUsages = some acc := by
      unfold getUsages
      cases hl : lookup (NodeRef.frag f) c.varUsages with
      | some v => simpa using h2
      | none => simp only; rw [lookup_store_other _ _ _ _ (by simp)]; exact h2
    have hfr : ∀ f' v, lookup (NodeRef.frag f') (getUsages P c (.frag f)).2.varUsages = some v → v = P.usages (.frag f') := by
      intro f' v hv
      unfold getUsages at hv
      cases hl : lookup (NodeRef.frag f) c.varUsages with
      | some v0 => rw [hl] at hv; exact h1 f' v hv
      | none =>
        rw [hl] at hv
        simp only at hv
        by_cases hff : f' = f
        · subst hff
          rw [lookup_store_same] at hv
          exact (Option.some.inj hv).symm
        · rw [lookup_store_other _ _ _ _ (by simpa using hff)] at hv
          exact h1 f' v hv
    have hoth : ∀ o', lookup (NodeRef.op o') (getUsages P c (.frag f)).2.varUsages = lookup (NodeRef.op o') c.varUsages := by
      intro o'
      unfold getUsages
      cases hl : lookup (NodeRef.frag f) c.varUsages with
      | some v => rfl
      | none => simp only; rw [lookup_store_other _ _ _ _ (by simp)]
    have hrest : (getUsages P c (.frag f)).2.recUsages = c.recUsages ∧ (getUsages P c (.frag f)).2.spreads = c.spreads ∧
        (getUsages P c (.frag f)).2.recFrags = c.recFrags := by
      unfold getUsages
      cases lookup (NodeRef.frag f) c.varUsages <;> exact ⟨rfl, rfl, rfl⟩
    rw [hop, hval]
    simp only [Option.getD_some]
    have := ih { (getUsages P c (.frag f)).2 with varUsages := store (.op o) (acc ++ P.usages (.frag f)) (getUsages P c (.frag f)).2.varUsages }
      (acc ++ P.usages (.frag f))
      (by
        intro f' v hv
        simp only at hv
        rw [lookup_store_other _ _ _ _ (by simp)] at hv
        exact hfr f' v hv)
      (by simp only; exact lookup_store_same _ _ _)
    obtain ⟨a1, a2, a3, a4, a5, a6⟩ := this
    refine ⟨?_, a2, ?_, ?_, ?_, ?_⟩
    · rw [a1]; simp [List.append_assoc]
    · intro o' ho'
      rw [a3 o' ho']
      simp only
      rw [lookup_store_other _ _ _ _ (by simpa using ho')]
      exact hoth o'
    · rw [a4]; exact hrest.1
    · rw [a5]; exact hrest.2.1
    · rw [a6]; exact hrest.2.2

/-- What a request returns in a context satisfying the invariant. -/
def expected (P : Pure υ) (c : Ctx υ) : Req → Resp υ
  | .usages n => .us (expectedUsages P c n)
  | q => specResp P q

theorem usages_ok (P : Pure υ) (c : Ctx υ) (h : Inv P c) (n : NodeRef) :
    (getUsages P c n).1 = expectedUsages P c n ∧ Inv P (getUsages P c n).2 := by
  unfold getUsages
  cases hl : lookup n c.varUsages with
  | some v => exact ⟨h.varUsages n v hl, h⟩
  | none =>
    have hnorec : ∀ o, n = NodeRef.op o → lookup o c.recUsages = none := by
      intro o ho
      cases hr : lookup o c.recUsages with
      | none => rfl
      | some v => have := h.recHasVar o v hr; rw [← ho, hl] at this; cases this
    simp only
    refine ⟨?_, ⟨h.spreads, h.recFrags, h.recUsages, ?_, ?_⟩⟩
    · cases n with
      | frag f => rfl
      | op o => simp [expectedUsages, hnorec o rfl]
    · intro n' v hv
      simp only at hv
      by_cases hn : n' = n
      · subst hn
        rw [lookup_store_same] at hv
        rw [← Option.some.inj hv]
        cases n' with
        | frag f => rfl
        | op o => simp [expectedUsages, hnorec o rfl]
      · rw [lookup_store_other _ _ _ _ hn] at hv
        have := h.varUsages n' v hv
        cases n' <;> simpa [expectedUsages] using this
    · intro o v hv
      simp only at hv ⊢
      by_cases hn : NodeRef.op o = n
      · rw [hnorec o hn.symm] at hv; cases hv
      · rw [lookup_store_other _ _ _ _ hn]; exact h.recHasVar o v hv

theorem recUsages_ok (P : Pure υ) (c : Ctx υ) (h : Inv P c) (o : Nat) :
    (getRecUsages P c o).1 = specRecUsages P o ∧ Inv P (getRecUsages P c o).2 := by
  unfold getRecUsages
  cases hr : lookup o c.recUsages with
  | some v => exact ⟨h.recUsages o v hr, h⟩
  | none =>
    simp only
    -- step 1: usages = get_variable_usages(operation)
    have h1 := usages_ok P c h (.op o)
    have s1 := getUsages_spec P c h (.op o)
    have hacc : (getUsages P c (.op o)).1 = P.usages (.op o) := by
      rw [h1.1]; simp [expectedUsages, hr]
    generalize hc1 : (getUsages P c (.op o)).2 = c1 at h1 s1
    have i1 := h1.2
    -- step 2: get_recursively_referenced_fragments(operation)
    have hfr : (getRecFrags P c1 o).1 = P.recFrags o := by
      unfold getRecFrags
      cases hl : lookup o c1.recFrags with
      | some v => exact i1.recFrags o v hl
      | none => rfl
    have hc2v : (getRecFrags P c1 o).2.varUsages = c1.varUsages ∧ (getRecFrags P c1 o).2.recUsages = c1.recUsages ∧
        (getRecFrags P c1 o).2.spreads = c1.spreads := by
      unfold getRecFrags
      cases lookup o c1.recFrags <;> exact ⟨rfl, rfl, rfl⟩
    have hc2f : ∀ k v, lookup k (getRecFrags P c1 o).2.recFrags = some v → v = P.recFrags k := by
      intro k v hv
      unfold getRecFrags at hv
      cases hl : lookup o c1.recFrags with
      | some v0 => rw [hl] at hv; exact i1.recFrags k v hv
      | none =>
        rw [hl] at hv
        simp only at hv
        by_cases hk : k = o
        · subst hk; rw [lookup_store_same] at hv; exact (Option.some.inj hv).symm
        · rw [lookup_store_other _ _ _ _ hk] at hv; exact i1.recFrags k v hv
    generalize hc2 : (getRecFrags P c1 o).2 = c2 at hc2v hc2f
    rw [hfr]
    -- step 3: the in-place extension
    have hop2 : lookup (NodeRef.op o) c2.varUsages = some (P.usages (.op o)) := by
      rw [hc2v.1, ← hacc]; exact s1.2.2.2.2.1
    have hfrag2 : ∀ f v, lookup (NodeRef.frag f) c2.varUsages = some v → v = P.usages (.frag f) := by
      intro f v hv
      rw [hc2v.1] at hv
      exact i1.varUsages (.frag f) v hv
    obtain ⟨a1, a2, a3, a4, a5, a6⟩ := extendLoop_spec P o (P.recFrags o) c2 (P.usages (.op o)) hfrag2 hop2
    generalize hc3 : extendLoop P o c2 (P.recFrags o) = c3 at a1 a2 a3 a4 a5 a6
    rw [a1]
    simp only [Option.getD_some]
    have hspec : P.usages (.op o) ++ (P.recFrags o).flatMap (fun f => P.usages (.frag f)) = specRecUsages P o := rfl
    rw [hspec]
    refine ⟨rfl, ⟨?_, ?_, ?_, ?_, ?_⟩⟩
    · intro k v hv
      simp only at hv
      rw [a5, hc2v.2.2] at hv
      exact i1.spreads k v hv
    · intro k v hv
      simp only at hv
      rw [a6] at hv
      exact hc2f k v hv
    · intro k v hv
      simp only at hv
      by_cases hk : k = o
      · subst hk; rw [lookup_store_same] at hv; exact (Option.some.inj hv).symm
      · rw [lookup_store_other _ _ _ _ hk, a4, hc2v.2.1] at hv
        exact i1.recUsages k v hv
    · intro n v hv
      simp only at hv
      cases n with
      | frag f => exact a2 f v hv
      | op o' =>
        by_cases ho : o' = o
        · subst ho
          rw [a1, hspec] at hv
          simp [expectedUsages, lookup_store_same, (Option.some.inj hv).symm]
        · rw [a3 o' ho, hc2v.1] at hv
          have := i1.varUsages (.op o') v hv
          simp only [expectedUsages] at this ⊢
          rw [lookup_store_other _ _ _ _ ho, a4, hc2v.2.1]
          exact this
    · intro k v hv
      simp only at hv ⊢
      by_cases hk : k = o
      · subst hk
        rw [lookup_store_same] at hv
        rw [a1, hspec]; exact hv
      · rw [lookup_store_other _ _ _ _ hk, a4, hc2v.2.1] at hv
        rw [a3 k hk, hc2v.1]
        exact i1.recHasVar k v hv

theorem step_ok (P : Pure υ) (c : Ctx υ) (h : Inv P c) (q : Req) :
    (stepReq P c q).1 = expected P c q ∧ Inv P (stepReq P c q).2 := by
  cases q with
  | fragment n =>
    refine ⟨rfl, ?_⟩
    simp only [stepReq, getFragment]
    exact ⟨h.spreads, h.recFrags, h.recUsages, h.varUsages, h.recHasVar⟩
  | spreads s =>
    simp only [stepReq, getSpreads, expected, specResp]
    cases hl : lookup s c.spreads with
    | some v => exact ⟨by simp [h.spreads s v hl], h⟩
    | none =>
      refine ⟨rfl, ⟨?_, h.recFrags, h.recUsages, h.varUsages, h.recHasVar⟩⟩
      intro k v hv
      simp only at hv
      by_cases hk : k = s
      · subst hk; rw [lookup_store_same] at hv; exact (Option.some.inj hv).symm
      · rw [lookup_store_other _ _ _ _ hk] at hv; exact h.spreads k v hv
  | recFrags o =>
    simp only [stepReq, getRecFrags, expected, specResp]
    cases hl : lookup o c.recFrags with
    | some v => exact ⟨by simp [h.recFrags o v hl], h⟩
    | none =>
      refine ⟨rfl, ⟨h.spreads, ?_, h.recUsages, h.varUsages, h.recHasVar⟩⟩
      intro k v hv
      simp only at hv
      by_cases hk : k = o
      · subst hk; rw [lookup_store_same] at hv; exact (Option.some.inj hv).symm
      · rw [lookup_store_other _ _ _ _ hk] at hv; exact h.recFrags k v hv
  | usages n =>
    have := usages_ok P c h n
    simp only [stepReq, expected]
    exact ⟨by rw [this.1], this.2⟩
  | recUsages o =>
    have := recUsages_ok P c h o
    simp only [stepReq, expected, specResp]
    exact ⟨by rw [this.1], this.2⟩

/-- Along any request sequence every response is what `expected` says in the context it was made in. -/
theorem run_ok (P : Pure υ) (qs : List Req) : ∀ (c : Ctx υ), Inv P c →
    ∀ q r, (q, r) ∈ qs.zip (runReqs P c qs).1 →
      r = specResp P q ∨ ∃ o, q = .usages (.op o) ∧ r = .us (specRecUsages P o) := by
  induction qs with
  | nil => intro c _ q r hm; simp [runReqs] at hm
  | cons q0 qs ih =>
    intro c h q r hm
    simp only [runReqs, List.zip_cons_cons, List.mem_cons] at hm
    have hs := step_ok P c h q0
    rcases hm with hm | hm
    · obtain ⟨rfl, rfl⟩ := Prod.mk.inj hm
      rw [hs.1]
      cases q with
      | usages n =>
        cases n with
        | frag f => left; rfl
        | op o =>
          simp only [expected, expectedUsages]
          by_cases hr : (lookup o c.recUsages).isSome
          · right; exact ⟨o, rfl, by simp [hr]⟩
          · left; simp [hr, specResp]
      | fragment n => left; rfl
      | spreads n => left; rfl
      | recFrags n => left; rfl
      | recUsages n => left; rfl
    · exact ih _ hs.2 q r hm

end Gql.Validation.Context
