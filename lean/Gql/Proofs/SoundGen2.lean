/-
C13 — soundness, general chain: every field CollectFields collects for a runtime object type is
well-typed on that type, and directive coercion never fails.
-/
import Gql.Proofs.SoundGen1

namespace Gql.Exec.Valid
open Gql.Exec Gql.Exec.Refine

theorem fieldsAgree_of_sub {ops : Ops} {s : Schema} (h : SoundHyps ops s) {rt S : Name}
    (hsub : Sub s rt S) (hrt : s.kind rt = .object) : FieldsAgree s S rt := by
  intro name fd hf
  rcases hsub with rfl | hsub
  · rw [getField_eq_any hrt]; exact hf
  · exact h.ifaceOk S rt name fd hsub hrt hf

theorem sub_of_applies {s : Schema} {rt c : Name}
    (h : Spec.doesFragmentTypeApply s rt c = true) : Sub s rt c := by
  unfold Spec.doesFragmentTypeApply at h
  cases hl : s.lookup c with
  | none => simp [hl] at h
  | some d =>
    cases d with
    | object n is fs => simp only [hl, beq_iff_eq] at h; exact Or.inl h.symm
    | iface n is fs => simp only [hl] at h; exact Or.inr h
    | union n ms => simp only [hl] at h; exact Or.inr h
    | _ => simp [hl] at h

/-- outcome of a collection: never a directive error; the groups are well-typed -/
def Typed (g : GCtx) (rt : Name) : Out ErrKind (Spec.Groups × List Name) → Prop
  | .ok (gs, _) => AllOn g rt gs
  | .err _ => False
  | .crash _ => True

theorem spreadsIn_cons (sel : Selection) (rest : List Selection) :
    spreadsIn (sel :: rest) = spreadsInSel sel ++ spreadsIn rest := by
  simp [spreadsIn]

variable (g : GCtx) (hvok : VarsOk g.env g.cx.vars) (hval : ValuesOk g) (hfr : FragsOk g)
variable (hyps : SoundHyps g.cx.ops g.cx.schema) (rt : Name) (hrt : g.cx.schema.kind rt = .object)
variable (srecur : List Selection → List Name → Out ErrKind (Spec.Groups × List Name))
variable (hrec : ∀ sels vis S, SelsOk g S sels → Sub g.cx.schema rt S → Typed g rt (srecur sels vis))

include hvok hval hfr hyps hrt hrec in
mutual
theorem collectOne_typed : (sel : Selection) → ∀ (S : Name) (acc : Spec.Groups) (vis : List Name),
    validSel g.vcx S sel = true → excSel g.cx.schema g.env g.cx.vars S sel = false →
    (∀ n ∈ spreadsInSel sel, n ∈ g.reach) → Sub g.cx.schema rt S → AllOn g rt acc →
    Typed g rt (Spec.collectOne g.cx rt srecur sel acc vis)
  | .field alias name args dirs sels, S, acc, vis, hv, he, hs, hsub, hacc => by
    simp only [validSel, GCtx.vcx, Bool.and_eq_true] at hv
    simp only [excSel, Bool.or_eq_false_iff] at he
    obtain ⟨b, hb⟩ := included_some g hvok hval dirs hv.1 he.1
    unfold Spec.collectOne
    simp only [hb]
    cases b with
    | false => exact hacc
    | true =>
      simp only [Typed]
      apply AllOn.appendGroup hacc
      by_cases hty : (name == "__typename") = true
      · left
        have h2 := hv.2
        simp only [hty, ↓reduceIte, Bool.and_eq_true, List.isEmpty_iff] at h2
        exact ⟨by simpa using hty, h2.2⟩
      · right
        have h2 := hv.2
        simp only [hty, Bool.false_eq_true, ↓reduceIte] at h2
        refine ⟨by simpa using hty, ?_⟩
        cases hfa : getFieldAny g.cx.schema S name with
        | none => simp [hfa] at h2
        | some fd =>
          simp only [hfa, Bool.and_eq_true] at h2
          have he2 := he.2
          simp only [hfa, Bool.or_eq_false_iff] at he2
          refine ⟨fd, fieldsAgree_of_sub hyps hsub hrt name fd hfa, h2.1, he2.1, ?_⟩
          by_cases hl : isLeaf g.cx.schema fd.type.baseName = true
          · have h3 := h2.2
            simp only [hl, ↓reduceIte, List.isEmpty_iff] at h3 ⊢
            exact h3
          · have h3 := h2.2
            simp only [hl, Bool.false_eq_true, ↓reduceIte, Bool.and_eq_true] at h3 ⊢
            exact ⟨h3.2, he2.2, by simpa [spreadsInSel] using hs⟩
  | .spread name dirs, S, acc, vis, hv, he, hs, hsub, hacc => by
    simp only [validSel, GCtx.vcx, Bool.and_eq_true] at hv
    simp only [excSel] at he
    obtain ⟨b, hb⟩ := included_some g hvok hval dirs hv.1 he
    unfold Spec.collectOne
    simp only [hb]
    cases b with
    | false => exact hacc
    | true =>
      simp only
      cases hvis : vis.contains name with
      | true => exact hacc
      | false =>
        simp only [Bool.false_eq_true, ↓reduceIte]
        cases hf : g.cx.doc.frag name with
        | none => exact hacc
        | some fr =>
          simp only
          cases happ : Spec.doesFragmentTypeApply g.cx.schema rt fr.cond with
          | false => exact hacc
          | true =>
            simp only [Bool.not_true, Bool.false_eq_true, ↓reduceIte]
            have hin : name ∈ g.reach := hs name (by simp [spreadsInSel])
            have hok := hfr name hin fr hf
            have h := hrec fr.sels (name :: vis) fr.cond hok (sub_of_applies happ)
            revert h
            cases srecur fr.sels (name :: vis) with
            | crash c => simp [Typed]
            | err e => simp [Typed]
            | ok r =>
              obtain ⟨fg, vis'⟩ := r
              simp only [Typed]
              exact fun h => hacc.mergeGroups h
  | .inline cond dirs sels, S, acc, vis, hv, he, hs, hsub, hacc => by
    simp only [validSel, GCtx.vcx, Bool.and_eq_true] at hv
    simp only [excSel, Bool.or_eq_false_iff] at he
    obtain ⟨b, hb⟩ := included_some g hvok hval dirs hv.1 he.1
    unfold Spec.collectOne
    simp only [hb]
    cases b with
    | false => exact hacc
    | true =>
      simp only
      have hsp : ∀ n ∈ spreadsIn sels, n ∈ g.reach := by simpa [spreadsInSel] using hs
      cases cond with
      | none =>
        simp only [Bool.not_true, Bool.false_eq_true, ↓reduceIte]
        have h := collectLoop_typed sels S [] vis ⟨hv.2, he.2, hsp⟩ hsub (AllOn.nil g rt)
        revert h
        cases Spec.collectLoop g.cx rt srecur sels [] vis with
        | crash c => simp [Typed]
        | err e => simp [Typed]
        | ok r =>
          obtain ⟨fg, vis'⟩ := r
          simp only [Typed]
          exact fun h => hacc.mergeGroups h
      | some c =>
        simp only
        have h2 := hv.2
        simp only [Bool.and_eq_true] at h2
        by_cases happ : Spec.doesFragmentTypeApply g.cx.schema rt c = true
        case neg =>
          have happ' : Spec.doesFragmentTypeApply g.cx.schema rt c = false := by simpa using happ
          simp only [happ', Bool.not_false, ↓reduceIte]
          exact hacc
        case pos =>
          simp only [happ, Bool.not_true, Bool.false_eq_true, ↓reduceIte]
          have h := collectLoop_typed sels c [] vis ⟨h2.2, he.2, hsp⟩ (sub_of_applies happ) (AllOn.nil g rt)
          revert h
          cases Spec.collectLoop g.cx rt srecur sels [] vis with
          | crash c => simp [Typed]
          | err e => simp [Typed]
          | ok r =>
            obtain ⟨fg, vis'⟩ := r
            simp only [Typed]
            exact fun h => hacc.mergeGroups h

theorem collectLoop_typed : (sels : List Selection) → ∀ (S : Name) (acc : Spec.Groups) (vis : List Name),
    SelsOk g S sels → Sub g.cx.schema rt S → AllOn g rt acc →
    Typed g rt (Spec.collectLoop g.cx rt srecur sels acc vis)
  | [], S, acc, vis, _, _, hacc => by
    unfold Spec.collectLoop
    exact hacc
  | sel :: rest, S, acc, vis, hok, hsub, hacc => by
    obtain ⟨hv, he, hs⟩ := hok
    simp only [validSels, Bool.and_eq_true] at hv
    simp only [excSels, Bool.or_eq_false_iff] at he
    rw [spreadsIn_cons] at hs
    have h := collectOne_typed sel S acc vis hv.1 he.1
      (fun n hn => hs n (List.mem_append_left _ hn)) hsub hacc
    unfold Spec.collectLoop
    revert h
    cases Spec.collectOne g.cx rt srecur sel acc vis with
    | crash c => simp [Typed]
    | err e => simp [Typed]
    | ok r =>
      obtain ⟨acc', vis'⟩ := r
      simp only [Typed]
      intro h
      exact collectLoop_typed rest S acc' vis' ⟨hv.2, he.2, fun n hn => hs n (List.mem_append_right _ hn)⟩
        hsub h
end

include hvok hval hfr hyps hrt in
theorem collectFieldsFuel_typed : ∀ (n : Nat) (sels : List Selection) (vis : List Name) (S : Name),
    SelsOk g S sels → Sub g.cx.schema rt S → Typed g rt (Spec.collectFieldsFuel g.cx rt n sels vis)
  | 0, _, _, _, _, _ => by simp [Spec.collectFieldsFuel, Typed]
  | n + 1, sels, vis, S, hok, hsub => by
    unfold Spec.collectFieldsFuel
    exact collectLoop_typed g hvok hval hfr hyps rt hrt _
      (fun s v S' h1 h2 => collectFieldsFuel_typed n s v S' h1 h2) sels S [] vis hok hsub (AllOn.nil g rt)

include hvok hval hfr hyps hrt in
/-- CollectFields on a valid selection set, for a runtime object type of the static type -/
theorem collectFields_typed (sels : List Selection) (S : Name) (hok : SelsOk g S sels)
    (hsub : Sub g.cx.schema rt S) :
    ∃ gs, Spec.collectFields g.cx rt sels = .ok gs ∧ AllOn g rt gs := by
  have h := collectFieldsFuel_typed g hvok hval hfr hyps rt hrt (Spec.fuelOf g.cx.doc) sels [] S hok hsub
  have hnc := collectFields_noCrash g.cx rt sels
  unfold Spec.collectFields at hnc ⊢
  revert h hnc
  cases Spec.collectFieldsFuel g.cx rt (Spec.fuelOf g.cx.doc) sels [] with
  | crash c => intro _ hnc; exact absurd rfl (hnc c)
  | err e => simp [Typed]
  | ok r =>
    obtain ⟨gs, vis⟩ := r
    simp only [Typed]
    exact fun h _ => ⟨gs, rfl, h⟩

end Gql.Exec.Valid
