import Gql.Proofs.ValidationUnion
/-!
Lemmas for C12-1 in its direct form (`parallel_alone_single`): a rule used *directly* as the visitor of
`visit(doc, TypeInfoVisitor(type_info, rule))` — SKIP and BREAK answered to `visit()` itself — receives
exactly the calls (with the same TypeInfo at each call) and reports exactly the errors it receives/reports as
a member of a `ParallelVisitor` (`Member.trav`).

What this needs beyond the `skipping` bookkeeping:
* `Tree.noSelfNest`: the node being skipped is not one of its own descendants;
* a `Frame` for the TypeInfo driver: the traversal of the children of a *skipped* node, had it happened,
  would have left the TypeInfo as it was (then `type_info.enter; type_info.leave` = the full subtree).  For the
  real `TypeInfo` this holds on trees without register nesting, started where the registers that are set are
  not touched by the tree (`Quiet`), e.g. from `TI.init`.
-/
namespace Gql.Validation
variable {τ σ ε : Type}

/-! ### frame lemmas: a member that is skipping / has broken ignores a subtree -/

theorem Member.enter_skipping (ti : TI τ) (i : Info) (m : Member τ σ ε) (h : m.skipping ≠ .none) :
    Member.enter ti i m = (m, []) := by
  simp [Member.enter, h]

theorem Member.trav_brk (D : Driver τ) :
    (∀ t (ti : TI τ) (m : Member τ σ ε), m.skipping = .brk → Member.trav D ti m t = m) ∧
    (∀ ts (ti : TI τ) (m : Member τ σ ε), m.skipping = .brk → Member.travList D ti m ts = m) := by
  apply Tree.induct
  · intro i cs ih ti m h
    rw [Member.trav]
    rw [Member.enter_skipping _ _ _ (by simp [h])]
    rw [ih _ _ h]
    simp [Member.leave, h]
  · intro ti m _; rw [Member.travList]
  · intro t ts iht ihts ti m h
    rw [Member.travList, iht _ _ h, ihts _ _ h]

theorem Member.trav_skipping (D : Driver τ) (j : Info) :
    (∀ t (ti : TI τ) (m : Member τ σ ε), m.skipping = .node j → j ∉ t.infos → Member.trav D ti m t = m) ∧
    (∀ ts (ti : TI τ) (m : Member τ σ ε), m.skipping = .node j → j ∉ Tree.infosList ts → Member.travList D ti m ts = m) := by
  apply Tree.induct
  · intro i cs ih ti m h hj
    simp only [Tree.infos, List.mem_cons, not_or] at hj
    rw [Member.trav]
    rw [Member.enter_skipping _ _ _ (by simp [h])]
    rw [ih _ _ h hj.2]
    simp [Member.leave, h, hj.1]
  · intro ti m _ _; rw [Member.travList]
  · intro t ts iht ihts ti m h hj
    simp only [Tree.infosList, List.mem_append, not_or] at hj
    rw [Member.travList, iht _ _ h hj.1, ihts _ _ h hj.2]

/-! ### what is required of the TypeInfo driver -/

/-- A precondition on (TypeInfo, subtree) that is inherited by children and later siblings and under which
the complete traversal of a list of subtrees restores the TypeInfo exactly. -/
structure Frame (D : Driver τ) where
  P : TI τ → Tree → Prop
  PL : TI τ → List Tree → Prop
  node : ∀ ti i cs, P ti (.node i cs) → PL (D.enter ti i) cs
  cons : ∀ ti t ts, PL ti (t :: ts) → P ti t ∧ PL (tiTrav D ti t) ts
  restore : ∀ ti ts, PL ti ts → tiTravList D ti ts = ti

/-- no TypeInfo: nothing to require -/
def Frame.id : Frame (idDriver (τ := τ)) where
  P := fun _ _ => True
  PL := fun _ _ => True
  node := fun _ _ _ _ => trivial
  cons := fun _ _ _ _ => ⟨trivial, trivial⟩
  restore := by
    intro ti ts _
    have : (∀ t (ti : TI τ), tiTrav idDriver ti t = ti) ∧ (∀ ts (ti : TI τ), tiTravList idDriver ti ts = ti) := by
      apply Tree.induct
      · intro i cs ih ti; rw [tiTrav]; simp only [idDriver]; exact ih ti
      · intro ti; rw [tiTravList]
      · intro t ts iht ihts ti; rw [tiTravList, iht, ihts]
    exact this.2 ts ti

/-! ### the simulation -/

/-- the record of the directly-run rule, seen as a member whose `skipping` entry is BREAK iff it stopped -/
def asMember (m : Member τ σ ε) (stop : Bool) : Member τ σ ε :=
  { m with skipping := if stop then .brk else .none }

theorem asMember_false (m : Member τ σ ε) (h : m.skipping = .none) : asMember m false = m := by
  cases m; simp_all [asMember]

/-- what `run0` does after the children of a node (`rl` = result of the children) -/
abbrev tailR (D : Driver τ) (i : Info) (rl : (TI τ × Member τ σ ε) × Bool) : (TI τ × Member τ σ ε) × Bool :=
  if rl.2 then (rl.1, true)
  else (((tiVisitor D single).leave rl.1 i).2, ((tiVisitor D single).leave rl.1 i).1 == Action.brk)

/-- children + leave of one node, for a member that is not skipping when the children start -/
theorem single_tail (D : Driver τ) (i : Info) (tiC : TI τ) (mC : Member τ σ ε) (rl : (TI τ × Member τ σ ε) × Bool)
    (h1 : mC = asMember rl.1.2 rl.2) (h2 : rl.1.2.skipping = .none) (h3 : rl.2 = false → rl.1.1 = tiC) :
    (Member.leave tiC i mC).1 = asMember (tailR D i rl).1.2 (tailR D i rl).2 ∧
    (tailR D i rl).1.2.skipping = .none ∧ ((tailR D i rl).2 = false → (tailR D i rl).1.1 = D.leave tiC i) := by
  obtain ⟨⟨ti2, m2⟩, stop⟩ := rl
  simp only at h1 h2 h3
  cases stop with
  | true =>
    subst h1
    simp [tailR, Member.leave, asMember, h2]
  | false =>
    have hti : ti2 = tiC := h3 rfl
    subst hti
    rw [asMember_false _ h2] at h1
    subst h1
    simp only [tailR, Bool.false_eq_true, if_false]
    cases hl : mC.rule.hLeave i.kind with
    | true =>
      have hl' : (single (τ := τ) (σ := σ) (ε := ε)).hLeave mC i.kind = true := hl
      rw [tiVisitor_leave_pos D _ _ _ hl']
      simp only [single, Member.leave, h2, hl, if_true, asMember]
      refine ⟨?_, by first | trivial | exact h2, fun _ => by first | trivial | rfl⟩
      cases (mC.rule.step mC.st Phase.leave i ti2).1 <;> simp
    | false =>
      have hl' : (single (τ := τ) (σ := σ) (ε := ε)).hLeave mC i.kind = false := hl
      rw [tiVisitor_leave_neg D _ _ _ hl']
      simp only [Member.leave, h2, hl]
      refine ⟨?_, by first | trivial | exact h2, fun _ => by first | trivial | rfl⟩
      cases mC; simp_all [asMember]

/-- **Direct form.**  For a member that is not skipping: running its rule directly under `TypeInfoVisitor`
gives the record `Member.trav` gives, with `skipping = BREAK` iff the direct run stopped, and (when it did not
stop) the same final TypeInfo as the complete traversal. -/
theorem single_sim (D : Driver τ) (F : Frame D) :
    (∀ t (ti : TI τ) (m : Member τ σ ε), F.P ti t → t.noSelfNest = true → m.skipping = .none →
      Member.trav D ti m t = asMember (run0 (tiVisitor D single) (ti, m) t).1.2 (run0 (tiVisitor D single) (ti, m) t).2 ∧
      (run0 (tiVisitor D single) (ti, m) t).1.2.skipping = .none ∧
      ((run0 (tiVisitor D single) (ti, m) t).2 = false → (run0 (tiVisitor D single) (ti, m) t).1.1 = tiTrav D ti t)) ∧
    (∀ ts (ti : TI τ) (m : Member τ σ ε), F.PL ti ts → Tree.noSelfNestList ts = true → m.skipping = .none →
      Member.travList D ti m ts = asMember (run0List (tiVisitor D single) (ti, m) ts).1.2 (run0List (tiVisitor D single) (ti, m) ts).2 ∧
      (run0List (tiVisitor D single) (ti, m) ts).1.2.skipping = .none ∧
      ((run0List (tiVisitor D single) (ti, m) ts).2 = false → (run0List (tiVisitor D single) (ti, m) ts).1.1 = tiTravList D ti ts)) := by
  apply Tree.induct
  · intro i cs ih ti m hP hN hm
    simp only [Tree.noSelfNest, Bool.and_eq_true, Bool.not_eq_true', List.contains_eq_mem, decide_eq_false_iff_not] at hN
    have hPL := F.node ti i cs hP
    rw [run0_node_always _ (fun _ _ => rfl) (fun _ _ => rfl), Member.trav, tiTrav]
    cases hE : m.rule.hEnter i.kind with
    | false =>
      have hE' : (single (τ := τ) (σ := σ) (ε := ε)).hEnter m i.kind = false := hE
      rw [tiVisitor_enter_neg D _ _ _ hE', Member.enter_unhandled _ _ _ hE]
      obtain ⟨a1, a2, a3⟩ := ih _ _ hPL hN.2 hm
      exact single_tail D i _ _ (run0List (tiVisitor D single) (D.enter ti i, m) cs) a1 a2 a3
    | true =>
      have hE' : (single (τ := τ) (σ := σ) (ε := ε)).hEnter m i.kind = true := hE
      rw [tiVisitor_enter_pos D _ _ _ hE']
      simp only [single, Member.enter, hm, hE, and_self, if_true]
      cases ha : (m.rule.step m.st Phase.enter i (D.enter ti i)).1 with
      | brk =>
        simp only [Member.skipOf]
        rw [(Member.trav_brk D).2 cs _ _ rfl]
        refine ⟨?_, by first | trivial | exact hm, by simp⟩
        simp [Member.leave, asMember]
      | skip =>
        simp only [Member.skipOf]
        rw [(Member.trav_skipping D i).2 cs _ _ rfl hN.1]
        rw [F.restore _ _ hPL]
        refine ⟨?_, by first | trivial | exact hm, fun _ => by simp⟩
        simp [Member.leave, asMember]
      | idle =>
        simp only [Member.skipOf, if_true]
        obtain ⟨a1, a2, a3⟩ := ih (D.enter ti i)
          ({ rule := m.rule, st := (m.rule.step m.st Phase.enter i (D.enter ti i)).2.1, skipping := Skipping.none,
             calls := m.calls ++ [⟨Phase.enter, i, D.enter ti i⟩],
             errs := m.errs ++ (m.rule.step m.st Phase.enter i (D.enter ti i)).2.2 } : Member τ σ ε) hPL hN.2 rfl
        exact single_tail D i _ _ _ a1 a2 a3
  · intro ti m _ _ hm
    simp only [run0List, Member.travList, tiTravList]
    exact ⟨(asMember_false m hm).symm, hm, fun _ => by first | trivial | rfl⟩
  · intro t ts iht ihts ti m hPL hN hm
    simp only [Tree.noSelfNestList, Bool.and_eq_true] at hN
    obtain ⟨hP1, hP2⟩ := F.cons ti t ts hPL
    obtain ⟨h1, h2, h3⟩ := iht ti m hP1 hN.1 hm
    rw [run0List, Member.travList, tiTravList]
    cases hs : (run0 (tiVisitor D single) (ti, m) t).2 with
    | true =>
      simp only [if_true]
      rw [h1, hs]
      rw [(Member.trav_brk D).2 ts _ _ (by simp [asMember])]
      exact ⟨rfl, h2, by simp⟩
    | false =>
      simp only [Bool.false_eq_true, if_false]
      rw [h1, hs, asMember_false _ h2, ← h3 hs]
      exact ihts _ _ (by rw [h3 hs]; exact hP2) hN.2 h2

end Gql.Validation

/-! ### the frame of the real `TypeInfo` -/
namespace Gql.Validation
variable {τ σ ε : Type}

/-- every register that is set in `ti` is left alone by all kinds in `ks` -/
def Quiet (tbl : TITable) (ti : TI τ) (ks : List String) : Prop :=
  ∀ r, ti.regs r ≠ none → ∀ k ∈ ks, r ∉ tbl.resetsOf k

theorem Quiet.init (tbl : TITable) (ks : List String) : Quiet tbl (TI.init : TI τ) ks := by
  intro r h; simp [TI.init] at h

theorem Quiet.mono {tbl : TITable} {ti : TI τ} {ks ks' : List String} (h : Quiet tbl ti ks) (hs : ∀ k ∈ ks', k ∈ ks) :
    Quiet tbl ti ks' := fun r hr k hk => h r hr k (hs k hk)

theorem sets_sub_resets (tbl : TITable) (hr : tbl.RegsReset) (k : String) (r : String) (h : r ∉ tbl.resetsOf k) :
    r ∉ tbl.setsOf k := by
  unfold TITable.resetsOf at h
  unfold TITable.setsOf
  cases hrow : tbl.row k with
  | none => simp
  | some row =>
    rw [hrow] at h
    exact fun hs => h (hr row (TITable.row_mem tbl _ _ hrow) r hs)

theorem TI.enter_reg_untouched (tbl : TITable) (L : Lookups τ) (ti : TI τ) (i : Info) (r : String)
    (h : r ∉ tbl.setsOf i.kind) : (ti.enter tbl L i).regs r = ti.regs r := by
  rw [TI.enter_reg]
  unfold TITable.setsOf at h
  cases hrow : tbl.row i.kind with
  | none => rfl
  | some row => rw [hrow] at h; simp only at h ⊢; simp [h]

theorem TI.leave_reg_untouched (tbl : TITable) (ti : TI τ) (i : Info) (r : String)
    (h : r ∉ tbl.resetsOf i.kind) : (ti.leave tbl i).regs r = ti.regs r := by
  rw [TI.leave_reg]
  unfold TITable.resetsOf at h
  cases hrow : tbl.row i.kind with
  | none => rfl
  | some row => rw [hrow] at h; simp only at h ⊢; simp [h]

/-- a register no kind of the subtree resets is not changed by its complete traversal -/
theorem tiTrav_untouched (tbl : TITable) (hr : tbl.RegsReset) (L : Lookups τ) (r : String) :
    (∀ t (ti : TI τ), (∀ k ∈ t.kinds, r ∉ tbl.resetsOf k) → (tiTrav (realDriver tbl L) ti t).regs r = ti.regs r) ∧
    (∀ ts (ti : TI τ), (∀ k ∈ Tree.kindsList ts, r ∉ tbl.resetsOf k) → (tiTravList (realDriver tbl L) ti ts).regs r = ti.regs r) := by
  apply Tree.induct
  · intro i cs ih ti h
    simp only [Tree.kinds, List.mem_cons, forall_eq_or_imp] at h
    rw [tiTrav]
    simp only [realDriver]
    rw [TI.leave_reg_untouched tbl _ i r h.1]
    have := ih (ti.enter tbl L i) h.2
    simp only [realDriver] at this
    rw [this, TI.enter_reg_untouched tbl L ti i r (sets_sub_resets tbl hr _ _ h.1)]
  · intro ti _; rw [tiTravList]
  · intro t ts iht ihts ti h
    simp only [Tree.kindsList, List.mem_append] at h
    rw [tiTravList, ihts _ (fun k hk => h k (Or.inr hk)), iht _ (fun k hk => h k (Or.inl hk))]

/-- the complete traversal is a run of `TypeInfoVisitor(ParallelVisitor([]))`, hence balanced -/
theorem tiTrav_restored (tbl : TITable) (hb : tbl.Balanced) (hr : tbl.RegsReset) (L : Lookups τ) :
    (∀ t (ti : TI τ), Restored ti (tiTrav (realDriver tbl L) ti t)) ∧
    (∀ ts (ti : TI τ), Restored ti (tiTravList (realDriver tbl L) ti ts)) := by
  constructor
  · intro t ti
    obtain ⟨es, he⟩ := (par_run (σ := Unit) (ε := Unit) (realDriver tbl L)).1 t ti [] ⟨[], false⟩ rfl (by simp)
    have := (ti_balanced tbl hb hr L (parallel (σ := Unit) (ε := Unit) none)).1 t (ti, ⟨[], ⟨[], false⟩⟩) (by rw [he])
    rw [he] at this
    exact this
  · intro ts ti
    obtain ⟨es, he⟩ := (par_run (σ := Unit) (ε := Unit) (realDriver tbl L)).2 ts ti [] ⟨[], false⟩ rfl (by simp)
    have := (ti_balanced tbl hb hr L (parallel (σ := Unit) (ε := Unit) none)).2 ts (ti, ⟨[], ⟨[], false⟩⟩) (by rw [he])
    rw [he] at this
    exact this

theorem TI.ext' {a b : TI τ} (h1 : a.stacks = b.stacks) (h2 : ∀ r, a.regs r = b.regs r) : a = b := by
  cases a; cases b
  simp only at h1 h2
  subst h1
  congr
  funext r; exact h2 r

/-- **Exact restoration**: where the registers that are set are not touched by the subtree, its complete
traversal leaves the TypeInfo exactly as it was. -/
theorem tiTrav_exact (tbl : TITable) (hb : tbl.Balanced) (hr : tbl.RegsReset) (L : Lookups τ) (t : Tree) (ti : TI τ)
    (hq : Quiet tbl ti t.kinds) : tiTrav (realDriver tbl L) ti t = ti := by
  have h1 := (tiTrav_restored tbl hb hr L).1 t ti
  apply TI.ext' h1.1
  intro r
  by_cases hn : ti.regs r = none
  · rcases h1.2 r with h | h
    · exact h
    · rw [h, hn]
  · exact (tiTrav_untouched tbl hr L r).1 t ti (hq r hn)

theorem tiTravList_exact (tbl : TITable) (hb : tbl.Balanced) (hr : tbl.RegsReset) (L : Lookups τ) (ts : List Tree) (ti : TI τ)
    (hq : Quiet tbl ti (Tree.kindsList ts)) : tiTravList (realDriver tbl L) ti ts = ti := by
  have h1 := (tiTrav_restored tbl hb hr L).2 ts ti
  apply TI.ext' h1.1
  intro r
  by_cases hn : ti.regs r = none
  · rcases h1.2 r with h | h
    · exact h
    · rw [h, hn]
  · exact (tiTrav_untouched tbl hr L r).2 ts ti (hq r hn)

/-- The real TypeInfo, on trees without register nesting, from a TypeInfo whose set registers the tree leaves alone. -/
def Frame.real (tbl : TITable) (hb : tbl.Balanced) (hr : tbl.RegsReset) (L : Lookups τ) : Frame (realDriver tbl L) where
  P := fun ti t => Quiet tbl ti t.kinds ∧ t.noRegNest tbl = true
  PL := fun ti ts => Quiet tbl ti (Tree.kindsList ts) ∧ Tree.noRegNestList tbl ts = true
  node := by
    intro ti i cs ⟨hq, hn⟩
    simp only [Tree.noRegNest, Bool.and_eq_true, List.all_eq_true, Bool.not_eq_true', List.contains_eq_mem,
      decide_eq_false_iff_not] at hn
    refine ⟨?_, hn.2⟩
    intro r hne k hk
    by_cases hs : r ∈ tbl.setsOf i.kind
    · exact hn.1 r hs k hk
    · have : ((realDriver tbl L).enter ti i).regs r = ti.regs r := TI.enter_reg_untouched tbl L ti i r hs
      rw [this] at hne
      exact hq r hne k (by simp [Tree.kinds, hk])
  cons := by
    intro ti t ts ⟨hq, hn⟩
    simp only [Tree.noRegNestList, Bool.and_eq_true] at hn
    have hq1 : Quiet tbl ti t.kinds := hq.mono (by intro k hk; simp [Tree.kindsList, hk])
    refine ⟨⟨hq1, hn.1⟩, ?_, hn.2⟩
    rw [tiTrav_exact tbl hb hr L t ti hq1]
    exact hq.mono (by intro k hk; simp [Tree.kindsList, hk])
  restore := fun ti ts h => tiTravList_exact tbl hb hr L ts ti h.1

end Gql.Validation
