import Gql.Types.WFSchema
import Gql.Proofs.ClientSchema
/-! Lemmas for C18: `buildClient` does not crash on results of `introspect` (any schema, any options). -/
namespace Gql.Types
open Json

/-- The call raises nothing but the function's own errors. -/
def NoCrash {α : Type} (x : R α) : Prop := x.isCrash = false

@[simp] theorem noCrash_ok {α : Type} (a : α) : NoCrash (Out.ok a : R α) := rfl
@[simp] theorem noCrash_err {α : Type} (e : String) : NoCrash (Out.err e : R α) := rfl
@[simp] theorem noCrash_crash {α : Type} (c : String) : ¬ NoCrash (Out.crash c : R α) := by
  simp [NoCrash, Out.isCrash]
@[simp] theorem noCrash_eTypeError {α : Type} : NoCrash (eTypeError : R α) := rfl
@[simp] theorem noCrash_eGraphQLError {α : Type} : NoCrash (eGraphQLError : R α) := rfl

@[simp] theorem eTypeError_ne_crash {α : Type} (c : String) : (eTypeError : R α) = .crash c ↔ False := by
  simp [eTypeError]
@[simp] theorem eGraphQLError_ne_crash {α : Type} (c : String) : (eGraphQLError : R α) = .crash c ↔ False := by
  simp [eGraphQLError]
@[simp] theorem ite_ok_err_ne_crash {α : Type} (p : Prop) [Decidable p] (a : α) (e x : String) :
    (if p then (Out.ok a : R α) else Out.err e) = Out.crash x ↔ False := by split <;> simp
@[simp] theorem ite_ok_eType_ne_crash {α : Type} (p : Prop) [Decidable p] (a : α) (x : String) :
    (if p then (Out.ok a : R α) else eTypeError) = Out.crash x ↔ False := by split <;> simp
@[simp] theorem ite_eType_ok_ne_crash {α : Type} (p : Prop) [Decidable p] (a : α) (x : String) :
    (if p then eTypeError else (Out.ok a : R α)) = Out.crash x ↔ False := by split <;> simp

theorem mapMOut_noCrash {α β : Type} (f : α → R β) (xs : List α) (h : ∀ x ∈ xs, NoCrash (f x)) :
    NoCrash (mapMOut f xs) := by
  induction xs with
  | nil => rfl
  | cons x xs ih =>
    have hx := h x (by simp)
    have hr := ih (fun y hy => h y (by simp [hy]))
    unfold mapMOut
    cases hfx : f x with
    | ok b =>
      cases hm : mapMOut f xs with
      | ok bs => rfl
      | err e => rfl
      | crash c => simp [hm] at hr
    | err e => rfl
    | crash c => simp [hfx] at hx

theorem mapMOut_map_noCrash {α β γ : Type} (f : β → R γ) (g : α → β) (xs : List α)
    (h : ∀ x ∈ xs, NoCrash (f (g x))) : NoCrash (mapMOut f (xs.map g)) :=
  mapMOut_noCrash f _ (by simpa using h)

theorem wrapThunk_noCrash {α : Type} (x : R α) : NoCrash (wrapThunk x) := by
  cases x <;> simp [wrapThunk] <;> (repeat' split) <;> simp

theorem getNamedType_noCrash (km : KindMap) (j : Json) : NoCrash (getNamedType km j) := by
  unfold getNamedType; (repeat' split) <;> simp

theorem getType_refJson_noCrash (km : KindMap) (r : TypeRef) :
    ∀ d fuel : Nat, d < fuel → NoCrash (getType km fuel (refJson d r)) := by
  induction r with
  | named n k =>
    intro d fuel h
    cases fuel with
    | zero => omega
    | succ fuel =>
      have h1 := kindName_ne_list k
      have h2 := kindName_ne_nonNull k
      cases d <;> simp [refJson, getType, Json.get?, List.lookup, h1, h2] <;> exact getNamedType_noCrash _ _
  | list r ih =>
    intro d fuel h
    cases fuel with
    | zero => omega
    | succ fuel =>
      cases d with
      | zero => simp [refJson, getType, Json.get?, List.lookup]
      | succ d =>
        have := ih d fuel (by omega)
        simp [refJson, getType, Json.get?, List.lookup, refJson_truthy]
        cases hg : getType km fuel (refJson d r) <;> simp_all
  | nonNull r ih =>
    intro d fuel h
    cases fuel with
    | zero => omega
    | succ fuel =>
      have hne : cNON_NULL ≠ cLIST := by decide
      cases d with
      | zero => simp [refJson, getType, Json.get?, List.lookup, hne]
      | succ d =>
        have := ih d fuel (by omega)
        simp [refJson, getType, Json.get?, List.lookup, refJson_truthy, hne]
        cases hg : getType km fuel (refJson d r) with
        | ok a => by_cases hnn : a.isNonNull = true <;> simp [hnn]
        | err e => simp
        | crash c => simp [hg] at this

theorem getTypeOfKind_refJson_noCrash (km : KindMap) (want : Kind) (r : TypeRef) (d fuel : Nat) (h : d < fuel) :
    NoCrash (getTypeOfKind km fuel want (refJson d r)) := by
  have := getType_refJson_noCrash km r d fuel h
  unfold getTypeOfKind
  cases hg : getType km fuel (refJson d r) with
  | ok a => cases a <;> simp <;> split <;> simp
  | err e => simp
  | crash c => simp [hg] at this

section
variable {V : Type} (env : ClientEnv V) (km : KindMap) (printV : V → List Nat)

theorem parseDefault_noCrash (hp : ∀ x, NoCrash (env.parseV x)) (x : Option (List Nat)) :
    NoCrash (parseDefault env (ofOptStr x)) := by
  cases x with
  | none => simp [ofOptStr, parseDefault]
  | some v =>
    have := hp v
    simp [ofOptStr, parseDefault]
    cases h : env.parseV v <;> simp_all

@[simp] theorem optStrOf_null : optStrOf null = .ok none := rfl

theorem buildInputValue_noCrash (hp : ∀ x, NoCrash (env.parseV x)) (o : Options) (hlim : o.typeDepth < env.limit)
    (iv : InputValue V) : NoCrash (buildInputValue env km (ivJson printV o iv)) := by
  have hT := getType_refJson_noCrash km iv.type o.typeDepth env.limit hlim
  have hD := parseDefault_noCrash env hp (iv.default.map printV)
  cases ha : o.descriptions <;> cases he : o.inputValueDeprecation <;>
    simp [buildInputValue, ivJson, descPart, ha, he, index, dget, List.lookup, nameOf] <;>
    (cases hg : getType km env.limit (refJson o.typeDepth iv.type) <;> simp_all) <;>
    (split <;> try simp) <;>
    (cases hd : parseDefault env (ofOptStr (iv.default.map printV)) <;> simp_all)

theorem checkNames_noCrash {α : Type} (name : α → List Nat) (xs : List α) : NoCrash (checkNames name xs) := by
  unfold checkNames; split <;> simp

theorem buildInputValues_noCrash (hp : ∀ x, NoCrash (env.parseV x)) (o : Options) (hlim : o.typeDepth < env.limit)
    (ivs : List (InputValue V)) : NoCrash (buildInputValues env km (ivsJson printV o ivs)) := by
  have hm := mapMOut_map_noCrash (buildInputValue env km) (ivJson printV o) (visibleInputs o ivs)
    (fun iv _ => buildInputValue_noCrash env km printV hp o hlim iv)
  simp only [buildInputValues, ivsJson, items]
  cases hmm : mapMOut (buildInputValue env km) ((visibleInputs o ivs).map (ivJson printV o)) with
  | ok xs =>
    have hc := checkNames_noCrash InputValue.name (dictOfList InputValue.name xs)
    simp only []
    cases hcc : checkNames InputValue.name (dictOfList InputValue.name xs) <;> simp_all
  | err e => simp
  | crash c => simp [hmm] at hm

theorem buildField_noCrash (hp : ∀ x, NoCrash (env.parseV x)) (o : Options) (hlim : o.typeDepth < env.limit)
    (f : Field V) : NoCrash (buildField env km (fieldJson printV o f)) := by
  have hT := getType_refJson_noCrash km f.type o.typeDepth env.limit hlim
  have hA := buildInputValues_noCrash env km printV hp o hlim f.args
  simp only [ivsJson] at hA
  cases ha : o.descriptions <;>
    simp [buildField, fieldJson, descPart, ha, index, dget, List.lookup, nameOf, ivsJson] <;>
    (cases hg : getType km env.limit (refJson o.typeDepth f.type) <;> simp_all) <;>
    (split <;> try simp) <;>
    (cases hb : buildInputValues env km (arr ((visibleInputs o f.args).map (ivJson printV o))) <;> simp_all)

@[simp] theorem wrapThunk_ne_crash {α : Type} (x : R α) (c : String) : wrapThunk x = .crash c ↔ False := by
  have := wrapThunk_noCrash x
  constructor
  · intro h; simp [h] at this
  · exact False.elim

@[simp] theorem checkNames_ne_crash {α : Type} (name : α → List Nat) (xs : List α) (c : String) :
    checkNames name xs = .crash c ↔ False := by
  have := checkNames_noCrash name xs
  constructor
  · intro h; simp [h] at this
  · exact False.elim

theorem buildEnumValue_noCrash (o : Options) (e : EnumValue) : NoCrash (buildEnumValue (enumValueJson o e)) := by
  cases ha : o.descriptions <;>
    simp [buildEnumValue, enumValueJson, descPart, ha, index, dget, List.lookup, nameOf]

theorem mapMOut_eq_crash_false {α β : Type} (f : α → R β) (xs : List α) (c : String)
    (h : ∀ x ∈ xs, NoCrash (f x)) : mapMOut f xs = .crash c ↔ False := by
  have := mapMOut_noCrash f xs h
  constructor
  · intro hh; simp [hh] at this
  · exact False.elim

theorem buildTypeDef_noCrash (hp : ∀ x, NoCrash (env.parseV x)) (o : Options) (hlim : o.typeDepth < env.limit)
    (types : List (TypeDef V)) (t : TypeDef V) (name : List Nat) :
    NoCrash (buildTypeDef env km name t.kind (typeJson printV types o t)) := by
  have hev := mapMOut_eq_crash_false buildEnumValue (t.enumValues.map (enumValueJson o))
  have hev' : ∀ c, mapMOut buildEnumValue (t.enumValues.map (enumValueJson o)) = .crash c ↔ False :=
    fun c => hev c (by simpa using fun e _ => buildEnumValue_noCrash o e)
  cases ha : o.descriptions <;> cases hb : o.specifiedByUrl <;> cases hg : o.oneOf <;> cases hk : t.kind <;>
    simp [buildTypeDef, typeJson, descPart, ha, hb, hg, hk, dget, List.lookup, items] <;>
    (repeat' split) <;> simp_all

theorem eagerEntry_typeJson_shape (o : Options) (types : List (TypeDef V)) (t : TypeDef V) :
    eagerEntry env (typeJson printV types o t) = .ok ⟨t.name, t.kind, typeJson printV types o t⟩ ∨
      ∃ e, eagerEntry env (typeJson printV types o t) = .err e := by
  have hev : mapMOut (index .name) (t.enumValues.map (enumValueJson o))
      = .ok (t.enumValues.map fun e => str e.name) :=
    mapMOut_map_ok _ _ _ t.enumValues (fun e _ => by
      cases ha : o.descriptions <;> simp [enumValueJson, descPart, ha, index, List.lookup])
  cases ha : o.descriptions <;> cases hb : o.specifiedByUrl <;> cases hg : o.oneOf <;> cases hk : t.kind <;>
    simp [eagerEntry, typeJson, descPart, ha, hb, hg, hk, index, List.lookup, Json.get?, kindOfName_name, nameOf,
      items, hev, ivsJson, assertName] <;>
    (repeat' split) <;> simp_all [eTypeError, eGraphQLError]

theorem buildRoot_noCrash (r : Option (List Nat × Kind)) (hpos : 0 < env.limit) :
    NoCrash (buildRoot env km (rootJson r)) := by
  cases r with
  | none => simp [rootJson, buildRoot]
  | some nk =>
    obtain ⟨n, k⟩ := nk
    obtain ⟨fuel, hfuel⟩ : ∃ f, env.limit = f + 1 := ⟨env.limit - 1, by omega⟩
    have h1 := kindName_ne_list k
    have h2 := kindName_ne_nonNull k
    have hn := getNamedType_noCrash km (obj [(Key.name, str n), (Key.kind, str k.name)])
    simp [buildRoot, rootJson, getTypeOfKind, hfuel, getType, Json.get?, List.lookup, h1, h2]
    cases hg : getNamedType km (obj [(Key.name, str n), (Key.kind, str k.name)]) with
    | ok a => cases a <;> simp <;> (repeat' split) <;> simp_all
    | err e => simp
    | crash c => simp [hg] at hn

theorem buildLocation_noCrash (j : Json) : NoCrash (buildLocation env j) := by
  unfold buildLocation; (repeat' split) <;> simp

theorem buildDirective_noCrash (hp : ∀ x, NoCrash (env.parseV x)) (o : Options) (hlim : o.typeDepth < env.limit)
    (x : Directive V) : NoCrash (buildDirective env km (directiveJson printV o x)) := by
  have hm := mapMOut_eq_crash_false (buildInputValue env km) ((visibleInputs o x.args).map (ivJson printV o))
  have hm' : ∀ c, mapMOut (buildInputValue env km) ((visibleInputs o x.args).map (ivJson printV o)) = .crash c
      ↔ False := fun c => hm c (by simpa using fun iv _ => buildInputValue_noCrash env km printV hp o hlim iv)
  have hl := mapMOut_eq_crash_false (buildLocation env) (x.locations.map str)
  have hl' : ∀ c, mapMOut (buildLocation env) (x.locations.map str) = .crash c ↔ False :=
    fun c => hl c (fun j _ => buildLocation_noCrash env j)
  cases ha : o.descriptions <;> cases hc : o.directiveIsRepeatable <;> cases hf : o.directiveDeprecation <;>
    simp [buildDirective, directiveJson, descPart, ha, hc, hf, index, dget, List.lookup, nameOf, ivsJson, items,
      assertName] <;>
    (repeat' split) <;> simp_all [eGraphQLError]

theorem buildDirectives_noCrash (hp : ∀ x, NoCrash (env.parseV x)) (o : Options) (hlim : o.typeDepth < env.limit)
    (ds : List (Directive V)) :
    NoCrash (buildDirectives env km (arr (ds.map (directiveJson printV o)))) := by
  have := mapMOut_map_noCrash (buildDirective env km) (directiveJson printV o) ds
    (fun x _ => buildDirective_noCrash env km printV hp o hlim x)
  unfold buildDirectives
  split
  · simpa [items] using this
  · simp

theorem finishEntry_noCrash (hp : ∀ x, NoCrash (env.parseV x)) (o : Options) (hlim : o.typeDepth < env.limit)
    (types : List (TypeDef V)) (t : TypeDef V) :
    NoCrash (finishEntry env km ⟨t.name, t.kind, typeJson printV types o t⟩) := by
  unfold finishEntry
  split
  · simp
  · exact buildTypeDef_noCrash env km printV hp o hlim types t t.name

theorem mapMOut_ok_mem {α β : Type} (f : α → R β) :
    ∀ (xs : List α) (ys : List β), mapMOut f xs = .ok ys → ∀ y ∈ ys, ∃ x ∈ xs, f x = .ok y := by
  intro xs
  induction xs with
  | nil => intro ys h y hy; simp [mapMOut] at h; subst h; simp at hy
  | cons x xs ih =>
    intro ys h y hy
    unfold mapMOut at h
    cases hfx : f x with
    | ok b =>
      cases hm : mapMOut f xs with
      | ok bs =>
        simp [hfx, hm] at h
        subst h
        rcases List.mem_cons.mp hy with rfl | hy'
        · exact ⟨x, by simp, hfx⟩
        · obtain ⟨x', hx', hfx'⟩ := ih bs hm y hy'
          exact ⟨x', by simp [hx'], hfx'⟩
      | err e => simp [hfx, hm] at h
      | crash c => simp [hfx, hm] at h
    | err e => simp [hfx] at h
    | crash c => simp [hfx] at h

theorem dictInsert_mem {α : Type} (key : α → List Nat) (a : α) (acc : List α) :
    ∀ b ∈ dictInsert key a acc, b = a ∨ b ∈ acc := by
  induction acc with
  | nil => intro b hb; simp [dictInsert] at hb; exact Or.inl hb
  | cons c cs ih =>
    intro b hb
    unfold dictInsert at hb
    split at hb
    · rcases List.mem_cons.mp hb with h | h
      · exact Or.inl h
      · exact Or.inr (by simp [h])
    · rcases List.mem_cons.mp hb with h | h
      · exact Or.inr (by simp [h])
      · rcases ih b h with h' | h'
        · exact Or.inl h'
        · exact Or.inr (by simp [h'])

theorem dictOfList_mem {α : Type} (key : α → List Nat) (xs : List α) : ∀ b ∈ dictOfList key xs, b ∈ xs := by
  unfold dictOfList
  have gen : ∀ (xs acc : List α), ∀ b ∈ xs.foldl (fun acc a => dictInsert key a acc) acc, b ∈ acc ∨ b ∈ xs := by
    intro xs
    induction xs with
    | nil => intro acc b hb; exact Or.inl (by simpa using hb)
    | cons x xs ih =>
      intro acc b hb
      simp only [List.foldl_cons] at hb
      rcases ih (dictInsert key x acc) b hb with h | h
      · rcases dictInsert_mem key x acc b h with h' | h'
        · exact Or.inr (by simp [h'])
        · exact Or.inl h'
      · exact Or.inr (by simp [h])
  intro b hb
  rcases gen xs [] b hb with h | h
  · simp at h
  · exact h

theorem buildClient_noCrash (hp : ∀ x, NoCrash (env.parseV x)) (o : Options) (hlim : o.typeDepth < env.limit)
    (s : Schema V) : NoCrash (buildClient env (introspect printV s o)) := by
  have hpos : 0 < env.limit := by omega
  have hR : ∀ (km : KindMap) (r : Option (List Nat × Kind)) (c : String),
      buildRoot env km (rootJson r) = .crash c ↔ False := by
    intro km r c
    have := buildRoot_noCrash env km r hpos
    constructor
    · intro h; simp [h] at this
    · exact False.elim
  have hD : ∀ (km : KindMap) (c : String),
      buildDirectives env km (arr ((visibleDirectives o s.directives).map (directiveJson printV o))) = .crash c
        ↔ False := by
    intro km c
    have := buildDirectives_noCrash env km printV hp o hlim (visibleDirectives o s.directives)
    constructor
    · intro h; simp [h] at this
    · exact False.elim
  have hE : NoCrash (mapMOut (eagerEntry env) (s.types.map (typeJson printV s.types o))) :=
    mapMOut_map_noCrash _ _ _ (fun t _ => by
      rcases eagerEntry_typeJson_shape env printV o s.types t with h | ⟨e, h⟩ <;> simp [h])
  cases hes : mapMOut (eagerEntry env) (s.types.map (typeJson printV s.types o)) with
  | crash c => simp [hes] at hE
  | err e =>
    cases ha : o.descriptions <;> cases hd : o.schemaDescription <;>
      simp [buildClient, introspect, schemaJson, ha, hd, Json.get?, List.lookup, index, items, hes]
  | ok es =>
    have hmem : ∀ e ∈ dictOfList Entry.name es,
        ∃ t : TypeDef V, e = ⟨t.name, t.kind, typeJson printV s.types o t⟩ := by
      intro e he
      obtain ⟨j, hj, hje⟩ := mapMOut_ok_mem _ _ _ hes e (dictOfList_mem _ _ e he)
      obtain ⟨t, _, rfl⟩ := List.mem_map.mp hj
      rcases eagerEntry_typeJson_shape env printV o s.types t with h | ⟨e', h⟩
      · rw [h] at hje; exact ⟨t, by simpa using hje.symm⟩
      · rw [h] at hje; simp at hje
    have hF : ∀ (km : KindMap) (c : String),
        mapMOut (finishEntry env km) (dictOfList Entry.name es) = .crash c ↔ False := by
      intro km c
      have := mapMOut_noCrash (finishEntry env km) (dictOfList Entry.name es) (fun e he => by
        obtain ⟨t, rfl⟩ := hmem e he
        exact finishEntry_noCrash env km printV hp o hlim s.types t)
      constructor
      · intro h; simp [h] at this
      · exact False.elim
    cases ha : o.descriptions <;> cases hd : o.schemaDescription <;>
      simp [buildClient, introspect, schemaJson, ha, hd, Json.get?, List.lookup, index, dget, items, hes] <;>
      (repeat' split) <;> simp_all

end

end Gql.Types
