import Gql.Proofs.ExecDocLex2
/-!
The parser model on printed stage-2 definitions: descriptions and variable definitions.
-/
namespace Gql.Syntax
open Gql Gql.Text

theorem mk_varDefNode (a b c d e : Ast) :
    mkNode "VariableDefinitionNode" [("description", a), ("variable", b), ("type", c), ("default_value", d),
      ("directives", e)] =
    .node "VariableDefinitionNode" [("description", a), ("variable", b), ("type", c), ("default_value", d),
      ("directives", e)] := rfl

section
variable (cfg : Cfg) (hm : cfg.maxTokens = none)
include hm

/-- `parse_description` on an optional string token. -/
theorem parseDesc_ok (d : Desc) (toks : List Token) (r : Stream) (cnt : Nat)
    (hkv : toks.map Token.kv = Exec.descKvs d) (hr : r.Ready)
    (hnext : d = none → headKind r ≠ .string ∧ headKind r ≠ .blockString) :
    ∃ c', parseDescription cfg (PSat cnt (feed toks r)) = .ok (Exec.descAst d, PSat c' r) := by
  match d with
  | none =>
    simp only [Exec.descKvs, List.map_eq_nil_iff] at hkv
    subst hkv
    obtain ⟨h1, h2⟩ := hnext rfl
    refine ⟨cnt, ?_⟩
    rw [feed, parseDescription_none cfg _ (by rw [PSat_cur_kind _ _ hr]; exact h1)
      (by rw [PSat_cur_kind _ _ hr]; exact h2)]
    rfl
  | some (s, b) =>
    simp only [Exec.descKvs, List.map_eq_cons_iff, List.map_eq_nil_iff] at hkv
    obtain ⟨t, ts, rfl, hk, rfl⟩ := hkv
    obtain ⟨hk1, hv1⟩ := tok_of_kv hk
    have hne' : t.kind ≠ .eof := by rw [hk1]; cases b <;> decide
    obtain ⟨c1, h1⟩ := advance_PSat cfg hm t r cnt hne' hr
    refine ⟨c1, ?_⟩
    have hpd : (t.kind == TokKind.string || t.kind == TokKind.blockString) = true := by
      rw [hk1]; cases b <;> simp
    simp only [feed, PSat_cons, parseDescription, peekDescription, bind_eq, P.cur, pure_eq', hpd, ↓reduceIte,
      parseStringLiteral, h1]
    cases b <;> simp [mk_str, tokValOrEmpty, hv1, Exec.descAst, hk1]

/-- What may follow a variable definition inside `( … )`. -/
def VdNext (r : Stream) : Prop :=
  headKind r = .dollar ∨ headKind r = .string ∨ headKind r = .blockString ∨ headKind r = .parenR

omit hm in
theorem VdNext.ne {r : Stream} (h : VdNext r) :
    headKind r ≠ .bang ∧ headKind r ≠ .equals ∧ headKind r ≠ .at ∧ headKind r ≠ .parenL := by
  rcases h with h | h | h | h <;> rw [h] <;> decide

theorem parseVarDef_ok (n : Nat) (vd : VarDef) (h : Exec.varDefWf vd) (toks : List Token) (r : Stream) (cnt : Nat)
    (hn : (Exec.varDefKvs vd).length < n) (hkv : toks.map Token.kv = Exec.varDefKvs vd) (hne : NonEof toks)
    (hr : r.Ready) (hnext : VdNext r) :
    ∃ c', parseVariableDefinition cfg n (PSat cnt (feed toks r)) = .ok (Exec.varDefAst vd, PSat c' r) := by
  obtain ⟨hdesc, hname, hty, hsh, hdf, hds⟩ := h
  obtain ⟨hnbang, hneq, hnat, hnpar⟩ := hnext.ne
  unfold Exec.varDefKvs at hkv hn
  rw [List.map_eq_append_iff] at hkv
  obtain ⟨t123, tds, rfl, hk123, hkds⟩ := hkv
  rw [List.map_eq_append_iff] at hk123
  obtain ⟨t12, tdf, rfl, hk12, hkdf⟩ := hk123
  rw [List.map_eq_append_iff] at hk12
  obtain ⟨tdesc, tcore, rfl, hkdesc, hkcore⟩ := hk12
  simp only [List.map_eq_cons_iff] at hkcore
  obtain ⟨tD, t1, rfl, hkD, tN, t2, rfl, hkN, tC, tty, rfl, hkC, hkty⟩ := hkcore
  obtain ⟨hDk, _⟩ := tok_of_kv hkD
  obtain ⟨hNk, hNv⟩ := tok_of_kv hkN
  obtain ⟨hCk, _⟩ := tok_of_kv hkC
  have hNne : tN.kind ≠ .eof := by rw [hNk]; decide
  have hCne : tC.kind ≠ .eof := by rw [hCk]; decide
  have hDne : tD.kind ≠ .eof := by rw [hDk]; decide
  have hne_ds : NonEof tds := hne.append_right
  have hne_df : NonEof tdf := hne.append_left.append_right
  have hne_core : NonEof (tD :: tN :: tC :: tty) := hne.append_left.append_left.append_right
  have hne_ty : NonEof tty := hne_core.tail.tail.tail
  have hR4 : (feed tds r).Ready := feed_ready _ _ hne_ds hr
  have hR3 : (feed tdf (feed tds r)).Ready := feed_ready _ _ hne_df hR4
  have hR2 : (feed tty (feed tdf (feed tds r))).Ready := feed_ready _ _ hne_ty hR3
  have hk4 : headKind (feed tds r) = if vd.dirs = [] then headKind r else .at := by
    rw [headKind_feed tds _ r hkds, firstK_dirs]
  have hk3 : headKind (feed tdf (feed tds r)) = if vd.dflt = none then headKind (feed tds r) else .equals := by
    rw [headKind_feed tdf _ _ hkdf]
    cases vd.dflt <;> simp [firstK]
  have hk4ne : headKind (feed tds r) ≠ .bang ∧ headKind (feed tds r) ≠ .equals := by
    rw [hk4]; split
    · exact ⟨hnbang, hneq⟩
    · exact ⟨by decide, by decide⟩
  have hk3ne : headKind (feed tdf (feed tds r)) ≠ .bang := by
    rw [hk3]; split
    · exact hk4ne.1
    · decide
  simp only [List.length_append, List.length_cons] at hn
  -- description
  obtain ⟨c1, h1⟩ := parseDesc_ok cfg hm vd.desc tdesc
    (feed (tD :: tN :: tC :: tty) (feed tdf (feed tds r))) cnt hkdesc
    (feed_ready _ _ hne_core hR3) (fun _ => by simp [headKind_feed_cons, hDk])
  -- variable
  obtain ⟨c2, h2⟩ := expectToken_ok cfg hm .dollar tD (.cons tN (.cons tC (feed tty (feed tdf (feed tds r))))) c1
    hDk hDne (by simp [Stream.Ready, hNne])
  obtain ⟨c3, h3⟩ := parseName_ok cfg hm tN vd.name (.cons tC (feed tty (feed tdf (feed tds r)))) c2 hNk hNv
    (by simp [Stream.Ready, hCne])
  obtain ⟨c4, h4⟩ := expectToken_ok cfg hm .colon tC (feed tty (feed tdf (feed tds r))) c3 hCk hCne hR2
  -- type
  obtain ⟨_, hTy⟩ := TyP.typeRef_tokens cfg hm vd.ty hty hsh
  have hdep := depth_le_kvs vd.ty
  obtain ⟨c5, h5⟩ := hTy n tty (feed tdf (feed tds r)) c4 (by omega) hkty hR3 (fun _ => hk3ne)
  -- directives
  have hDirs : ∀ c0, ∃ cd, parseDirectives cfg n true (PSat c0 (feed tds r)) =
      .ok ((if vd.dirs = [] then none else some (vd.dirs.map Exec.dirAst)), PSat cd r) := by
    intro c0
    exact parseDirectives_raw cfg hm true vd.dirs hds n tds r c0 (by omega) hkds hne_ds hr hnat hnpar
  have hdirsAst : optListO (if vd.dirs = [] then none else some (vd.dirs.map Exec.dirAst)) = Exec.dirsAst vd.dirs := by
    cases vd.dirs <;> simp [optListO, Exec.dirsAst, optL]
  cases hv : vd.dflt with
  | none =>
    rw [hv] at hkdf hk3
    simp only [List.map_eq_nil_iff] at hkdf
    subst hkdf
    have hno : expectOptionalToken cfg .equals (PSat c5 (feed [] (feed tds r))) =
        .ok (false, PSat c5 (feed [] (feed tds r))) :=
      expectOptionalToken_no cfg .equals _ (by rw [PSat_cur_kind _ _ hR3]; simpa using hk3 ▸ hk4ne.2)
    obtain ⟨cd, hD⟩ := hDirs c5
    refine ⟨cd, ?_⟩
    simp only [feed_append, feed] at h1 h2 h3 h4 h5 hno ⊢
    simp only [parseVariableDefinition, bind_eq, h1, parseVariable, PSat_cons, h2, h3, pure_eq', mk_var, h4, h5,
      hno, Bool.false_eq_true, ↓reduceIte, hD, mk_varDefNode, hdirsAst]
    simp [Exec.varDefAst, Exec.dfltAst, hv, Val.nameNode]
  | some v =>
    rw [hv] at hkdf hdf hn
    rw [List.map_eq_cons_iff] at hkdf
    obtain ⟨tE, tv, rfl, hkE, hkv⟩ := hkdf
    obtain ⟨hEk, _⟩ := tok_of_kv hkE
    have hEne : tE.kind ≠ .eof := by rw [hEk]; decide
    have hne_v : NonEof tv := hne_df.tail
    have hRv : (feed tv (feed tds r)).Ready := feed_ready _ _ hne_v hR4
    obtain ⟨c6, h6⟩ := expectOptionalToken_yes cfg hm .equals tE (feed tv (feed tds r)) c5 hEk hEne hRv
    simp only [List.length_cons] at hn
    obtain ⟨c7, h7⟩ := parseV cfg hm true v hdf n tv (feed tds r) c6 (by omega) hkv hne_v hR4
    obtain ⟨cd, hD⟩ := hDirs c7
    refine ⟨cd, ?_⟩
    simp only [feed_append, feed, PSat_cons] at h1 h2 h3 h4 h5 h6 ⊢
    simp only [parseVariableDefinition, bind_eq, h1, parseVariable, PSat_cons, h2, h3, pure_eq', mk_var, h4, h5,
      h6, ↓reduceIte, h7, hD, mk_varDefNode, hdirsAst]
    simp [Exec.varDefAst, Exec.dfltAst, hv, Val.nameNode]

end

end Gql.Syntax

namespace Gql.Syntax
open Gql Gql.Text

theorem varDefKvs_head (vd : VarDef) : ∃ k ks, Exec.varDefKvs vd = k :: ks ∧
    (k.1 = .dollar ∨ k.1 = .string ∨ k.1 = .blockString) := by
  unfold Exec.varDefKvs
  match hd : vd.desc with
  | none =>
    simp only [Exec.descKvs, List.nil_append, List.cons_append]
    exact ⟨_, _, rfl, Or.inl rfl⟩
  | some (s, true) =>
    simp only [Exec.descKvs, ↓reduceIte, List.cons_append, List.nil_append]
    exact ⟨_, _, rfl, Or.inr (Or.inr rfl)⟩
  | some (s, false) =>
    simp only [Exec.descKvs, Bool.false_eq_true, ↓reduceIte, List.cons_append, List.nil_append]
    exact ⟨_, _, rfl, Or.inr (Or.inl rfl)⟩

theorem varDefsKvsList_length_le (vds : List VarDef) : vds.length ≤ (Exec.varDefsKvsList vds).length := by
  induction vds with
  | nil => simp [Exec.varDefsKvsList]
  | cons vd r ih =>
    obtain ⟨k, ks, hk, _⟩ := varDefKvs_head vd
    simp [Exec.varDefsKvsList, hk]; omega

theorem vdNext_feed (toks : List Token) (vds : List VarDef) (tR : Token) (r : Stream)
    (hkv : toks.map Token.kv = Exec.varDefsKvsList vds) (hRk : tR.kind = .parenR) :
    VdNext (feed toks (.cons tR r)) := by
  unfold VdNext
  rw [headKind_feed toks _ _ hkv]
  cases vds with
  | nil => right; right; right; simp [Exec.varDefsKvsList, firstK, headKind, hRk]
  | cons vd rest =>
    obtain ⟨k, ks, hk, hkk⟩ := varDefKvs_head vd
    simp only [Exec.varDefsKvsList, hk, List.cons_append, firstK]
    rcases hkk with h | h | h
    · exact Or.inl h
    · exact Or.inr (Or.inl h)
    · exact Or.inr (Or.inr (Or.inl h))

section
variable (cfg : Cfg) (hm : cfg.maxTokens = none)
include hm

theorem varDefsLoop_ok (vds : List VarDef) (h : Exec.varDefsWf vds) : ∀ (n m : Nat) (toks : List Token)
    (tR : Token) (r : Stream) (cnt : Nat) (acc : List Ast), (Exec.varDefsKvsList vds).length < n →
    vds.length < m → toks.map Token.kv = Exec.varDefsKvsList vds → NonEof toks → tR.kind = .parenR → r.Ready →
    ∃ c', untilClose cfg .parenR (parseVariableDefinition cfg n) m acc (PSat cnt (feed toks (.cons tR r))) =
      .ok (acc ++ vds.map Exec.varDefAst, PSat c' r) := by
  induction vds with
  | nil =>
    intro n m toks tR r cnt acc _ hmm hkv _ hRk hr
    obtain ⟨m, rfl⟩ : ∃ m', m = m' + 1 := ⟨m - 1, by simp at hmm; omega⟩
    simp only [Exec.varDefsKvsList, List.map_eq_nil_iff] at hkv
    subst hkv
    obtain ⟨c1, h1⟩ := expectOptionalToken_yes cfg hm .parenR tR r cnt hRk (by rw [hRk]; decide) hr
    exact ⟨c1, by simp only [untilClose, feed, PSat_cons, bind_eq, h1, ↓reduceIte, pure_eq', List.map_nil,
      List.append_nil]⟩
  | cons vd rest ih =>
    intro n m toks tR r cnt acc hn hmm hkv hne hRk hr
    obtain ⟨m, rfl⟩ : ∃ m', m = m' + 1 := ⟨m - 1, by simp at hmm; omega⟩
    have hRne : tR.kind ≠ .eof := by rw [hRk]; decide
    rw [show Exec.varDefsKvsList (vd :: rest) = Exec.varDefKvs vd ++ Exec.varDefsKvsList rest from rfl] at hkv hn
    rw [List.map_eq_append_iff] at hkv
    obtain ⟨tv, ts', rfl, hkv1, hkv2⟩ := hkv
    obtain ⟨k0, ks0, hk0, hkk⟩ := varDefKvs_head vd
    have hhead : ∃ t0 tv', tv = t0 :: tv' ∧ t0.kind ≠ .parenR := by
      rw [hk0, List.map_eq_cons_iff] at hkv1
      obtain ⟨t0, tv', rfl, ht0, _⟩ := hkv1
      refine ⟨t0, tv', rfl, ?_⟩
      rw [(tok_of_kv ht0).1]
      rcases hkk with h' | h' | h' <;> rw [h'] <;> decide
    obtain ⟨t0, tv', rfl, ht0⟩ := hhead
    have hready : (feed ts' (.cons tR r)).Ready :=
      feed_ready _ _ hne.append_right (by simp [Stream.Ready, hRne])
    have hno : expectOptionalToken cfg .parenR (PSat cnt (feed (t0 :: tv' ++ ts') (.cons tR r))) =
        .ok (false, PSat cnt (feed (t0 :: tv' ++ ts') (.cons tR r))) :=
      expectOptionalToken_no cfg .parenR _ (by simpa [feed] using ht0)
    simp only [List.length_append] at hn
    obtain ⟨c1, h1⟩ := parseVarDef_ok cfg hm n vd h.1 (t0 :: tv') (feed ts' (.cons tR r)) cnt (by omega) hkv1
      hne.append_left hready (vdNext_feed ts' rest tR r hkv2 hRk)
    obtain ⟨c2, h2⟩ := ih h.2 n m ts' tR r c1 (acc ++ [Exec.varDefAst vd]) (by omega) (by simp at hmm; omega)
      hkv2 hne.append_right hRk hr
    refine ⟨c2, ?_⟩
    rw [feed_append] at hno ⊢
    simp only [untilClose, bind_eq, hno, Bool.false_eq_true, ↓reduceIte, h1, h2]
    simp

/-- `parse_variable_definitions`. -/
theorem parseVarDefs_ok (vds : List VarDef) (h : Exec.varDefsWf vds) (n : Nat) (toks : List Token) (r : Stream)
    (cnt : Nat) (hn : (Exec.varDefsKvs vds).length < n) (hkv : toks.map Token.kv = Exec.varDefsKvs vds)
    (hne : NonEof toks) (hr : r.Ready) (hnop : vds = [] → headKind r ≠ .parenL) :
    ∃ c', parseVariableDefinitions cfg n (PSat cnt (feed toks r)) =
      .ok ((if vds = [] then none else some (vds.map Exec.varDefAst)), PSat c' r) := by
  cases vds with
  | nil =>
    simp only [Exec.varDefsKvs, List.map_eq_nil_iff] at hkv
    subst hkv
    have hk : (PSat cnt r).cur.kind ≠ .parenL := by rw [PSat_cur_kind cnt r hr]; exact hnop rfl
    exact ⟨cnt, by simp [feed, noVarDefs cfg hm n _ hk]⟩
  | cons vd rest =>
    rw [show Exec.varDefsKvs (vd :: rest) = (.parenL, none) ::
      (Exec.varDefKvs vd ++ Exec.varDefsKvsList rest ++ [(.parenR, none)]) by
        simp [Exec.varDefsKvs, Exec.varDefsKvsList]] at hkv hn
    rw [List.map_eq_cons_iff] at hkv
    obtain ⟨tL, ts, rfl, hkL, hkv⟩ := hkv
    rw [List.map_eq_append_iff] at hkv
    obtain ⟨tsI, tsR, rfl, hkI, hkR⟩ := hkv
    rw [List.map_eq_append_iff] at hkI
    obtain ⟨tv, ts', rfl, hkv1, hkv2⟩ := hkI
    simp only [List.map_eq_cons_iff, List.map_eq_nil_iff] at hkR
    obtain ⟨tR, tsE, rfl, hkR, rfl⟩ := hkR
    obtain ⟨hLk, _⟩ := tok_of_kv hkL
    obtain ⟨hRk, _⟩ := tok_of_kv hkR
    have hRne : tR.kind ≠ .eof := by rw [hRk]; decide
    have hneI : NonEof (tv ++ ts') := hne.tail.append_left
    have hready0 : (feed (tv ++ ts') (.cons tR r)).Ready := feed_ready _ _ hneI (by simp [Stream.Ready, hRne])
    have hready1 : (feed ts' (.cons tR r)).Ready :=
      feed_ready _ _ hneI.append_right (by simp [Stream.Ready, hRne])
    obtain ⟨c1, h1⟩ := expectOptionalToken_yes cfg hm .parenL tL (feed (tv ++ ts') (.cons tR r)) cnt hLk
      (by rw [hLk]; decide) hready0
    simp only [List.length_cons, List.length_append, List.length_nil] at hn
    obtain ⟨c2, h2⟩ := parseVarDef_ok cfg hm n vd h.1 tv (feed ts' (.cons tR r)) c1 (by omega) hkv1
      hneI.append_left hready1 (vdNext_feed ts' rest tR r hkv2 hRk)
    have hlen := varDefsKvsList_length_le rest
    obtain ⟨c3, h3⟩ := varDefsLoop_ok cfg hm rest h.2 n n ts' tR r c2 [Exec.varDefAst vd] (by omega) (by omega)
      hkv2 hneI.append_right hRk hr
    refine ⟨c3, ?_⟩
    rw [feed_append] at h1
    simp only [parseVariableDefinitions, parseOptionalMany, feed, feed_append, PSat_cons, bind_eq, h1, ↓reduceIte,
      h2, h3, pure_eq']
    simp

end

end Gql.Syntax
