import Gql.Proofs.OverlapImplFlat
/-! C14, documents without fragment spreads: the rule reports a conflict iff `WConf`. -/
namespace Gql.Exec
open Overlap

theorem inst_toEntry (s : Schema) (c : Spec.FieldInst) : (toEntry s c).inst = c := by
  cases c; rfl

theorem fieldType_of_ne {s : Schema} {p : Option String} {n : String} (h : n ≠ "__typename") :
    Spec.fieldType s p n = s.fieldDef p n := by
  have : (n == "__typename") = false := by simpa using h
  simp [Spec.fieldType, this]

section nofrag
variable (env : Env) (hle : LinOrd env.le) (hn : env.d.NoSpreads)
  (hU : TypedIdsUnique env.s env.d)
  (hA : ∀ a, DocInst env.s env.d a → a.node.argsOK)
  (hT : ∀ a, DocInst env.s env.d a → a.node.name ≠ "__typename")

/-- a field-map entry of a document field (up to parent normalisation) -/
def Known (e : FieldEntry) : Prop :=
  (∃ a, DocInst env.s env.d a ∧ InstEq env.s e.inst a) ∧
    e.defTy = env.s.fieldDef e.parent e.node.name

include hle hn hU hA hT

theorem known_facts {e : FieldEntry} (k : Known env e) :
    e.node.argsOK ∧ e.defTy = Spec.fieldType env.s e.parent e.node.name := by
  obtain ⟨⟨a, hda, hea⟩, hdef⟩ := k
  have en : e.node = a.node := hea.1
  refine ⟨by rw [en]; exact hA a hda, ?_⟩
  rw [hdef, fieldType_of_ne (by rw [en]; exact hT a hda)]

theorem between_iff {q1 q1' q2 q2' : Option String} {ss1 ss2 : SelSet} (i j : Nat)
    (hq1 : PEq env.s q1 q1') (hq2 : PEq env.s q2 q2') (full : Bool) :
    (∃ t ∈ betweenPairs ⟨i, grp [] ((selsFlat env.s q1' ss1.sels).map (toEntry env.s))⟩
        ⟨j, grp [] ((selsFlat env.s q2' ss2.sels).map (toEntry env.s))⟩,
        BConf env.s full t.2.1.inst t.2.2.inst) ↔
      ∃ c1 ∈ selsFlat env.s q1 ss1.sels, ∃ c2 ∈ selsFlat env.s q2 ss2.sels,
        c1.node.responseName = c2.node.responseName ∧ BConf env.s full c1 c2 := by
  have r1 := selsFlat_peq env.s ss1.sels q1 q1' hq1
  have r2 := selsFlat_peq env.s ss2.sels q2 q2' hq2
  constructor
  · rintro ⟨t, ht, hb⟩
    obtain ⟨m1, m2, n1, n2⟩ := mem_betweenPairs_grp.1 ht
    obtain ⟨c1', hc1', e1⟩ := List.mem_map.1 m1
    obtain ⟨c2', hc2', e2⟩ := List.mem_map.1 m2
    obtain ⟨c1, hc1, i1⟩ := r1.mem_right hc1'
    obtain ⟨c2, hc2, i2⟩ := r2.mem_right hc2'
    rw [← e1, ← e2, inst_toEntry, inst_toEntry] at hb
    refine ⟨c1, hc1, c2, hc2, ?_, hb.instEq i1.symm i2.symm⟩
    rw [← e1] at n1
    rw [← e2] at n2
    simp only [rnE, toEntry] at n1 n2
    rw [i1.1, i2.1, n1, n2]
  · rintro ⟨c1, hc1, c2, hc2, hrn, hb⟩
    obtain ⟨c1', hc1', i1⟩ := r1.mem_left hc1
    obtain ⟨c2', hc2', i2⟩ := r2.mem_left hc2
    refine ⟨(c1.node.responseName, toEntry env.s c1', toEntry env.s c2'), ?_, ?_⟩
    · refine mem_betweenPairs_grp.2 ⟨List.mem_map.2 ⟨c1', hc1', rfl⟩,
        List.mem_map.2 ⟨c2', hc2', rfl⟩, ?_, ?_⟩
      · simp only [rnE, toEntry]; rw [← i1.1]
      · simp only [rnE, toEntry]; rw [← i2.1, hrn]
    · simp only [inst_toEntry]
      exact hb.instEq i1 i2

/-- `find_conflict` and `find_conflicts_between_sub_selection_sets` decide `BConf`. -/
theorem fc_bs_dec : ∀ n : Nat,
    (∀ excl rn e1 e2, Known env e1 → Known env e2 → 2 * nodeDepth e1.node + 1 ≤ n →
      Dec env (findConflict env n excl rn e1 e2) (BConf env.s (!excl) e1.inst e2.inst)) ∧
    (∀ excl p1 ss1 p2 ss2 q1 q2, (q1, ss1) ∈ env.d.typedSets env.s →
      (q2, ss2) ∈ env.d.typedSets env.s → PEq env.s q1 p1 → PEq env.s q2 p2 →
      2 * selsDepth ss1.sels + 2 ≤ n →
      Dec env (findConflictsBetweenSubSelectionSets env n excl p1 ss1 p2 ss2)
        (∃ c1 ∈ selsFlat env.s q1 ss1.sels, ∃ c2 ∈ selsFlat env.s q2 ss2.sels,
          c1.node.responseName = c2.node.responseName ∧ BConf env.s (!excl) c1 c2)) := by
  intro n
  induction n with
  | zero => exact ⟨by intros; omega, by intros; omega⟩
  | succ n ih =>
    obtain ⟨ihFC, ihBS⟩ := ih
    refine ⟨?_, ?_⟩
    · intro excl rn e1 e2 k1 k2 hfuel σ hσ
      obtain ⟨ha1, hd1⟩ := known_facts env hle hn hU hA hT k1
      obtain ⟨ha2, hd2⟩ := known_facts env hle hn hU hA hT k2
      obtain ⟨⟨a, hda, hea⟩, _⟩ := k1
      obtain ⟨⟨b, hdb, heb⟩, _⟩ := k2
      obtain ⟨hT1, hF1⟩ := fc_unfold env hle n excl rn e1 e2 σ ha1 ha2 hd1 hd2
      cases hdir : Spec.direct env.s ⟨e1.inst, e2.inst, !excl⟩ with
      | true =>
        obtain ⟨c, hc⟩ := hT1 hdir
        exact ⟨σ, [c], hc, hσ, by simp; exact BConf.here hdir⟩
      | false =>
        rw [hF1 hdir]
        by_cases hsub : (e1.node.hasSub && e2.node.hasSub) = true
        · simp only [hsub, if_true]
          have hs := hsub
          simp only [Bool.and_eq_true] at hs
          have en1 : e1.inst.node = a.node := hea.1
          have en2 : e2.inst.node = b.node := heb.1
          have m1 : (subP env.s e1.inst, e1.node.subSet) ∈ env.d.typedSets env.s := by
            have := hda.sub (by rw [← en1]; exact hs.1)
            rw [← en1, ← hea.subP] at this
            exact this
          have m2 : (subP env.s e2.inst, e2.node.subSet) ∈ env.d.typedSets env.s := by
            have := hdb.sub (by rw [← en2]; exact hs.2)
            rw [← en2, ← heb.subP] at this
            exact this
          have p1 : PEq env.s (subP env.s e1.inst) (e1.defTy.map Ty.named) := by
            rw [hd1]; exact PEq.refl _ _
          have p2 : PEq env.s (subP env.s e2.inst) (e2.defTy.map Ty.named) := by
            rw [hd2]; exact PEq.refl _ _
          have hfu : 2 * selsDepth e1.node.subSet.sels + 2 ≤ n := by
            simp only [FieldNode.subSet, nodeDepth] at hfuel ⊢; omega
          obtain ⟨σ', cs, e, g, i⟩ := ihBS (!Spec.deeper env.s ⟨e1.inst, e2.inst, !excl⟩)
            _ _ _ _ _ _ m1 m2 p1 p2 hfu σ hσ
          rw [e]
          refine ⟨σ', _, rfl, g, ?_⟩
          rw [subfieldConflicts_ne_nil, i, Bool.not_not]
          constructor
          · rintro ⟨c1, h1, c2, h2, hrn, hb⟩
            exact BConf.sub (a := e1.inst) (b := e2.inst) hs.1 hs.2 h1 h2 hrn hb
          · intro hb
            cases hb with
            | here hd => rw [hdir] at hd; cases hd
            | sub _ _ h1 h2 hrn hb => exact ⟨_, h1, _, h2, hrn, hb⟩
        · simp only [hsub, Bool.false_eq_true, if_false]
          refine ⟨σ, [], rfl, hσ, ?_⟩
          simp only [ne_eq, not_true_eq_false, false_iff]
          intro hb
          cases hb with
          | here hd => rw [hdir] at hd; cases hd
          | sub hs1 hs2 _ _ _ _ =>
            apply hsub
            have x1 : e1.node.hasSub = true := hs1
            have x2 : e2.node.hasSub = true := hs2
            simp [x1, x2]
    · intro excl p1 ss1 p2 ss2 q1 q2 h1 h2 hp1 hp2 hfuel σ hσ
      simp only [findConflictsBetweenSubSelectionSets]
      obtain ⟨g1, q1', hq1', c1eq⟩ := getFields_nf env hU hσ h1 hp1
      generalize getFields env.s env.d σ p1 ss1 = r1 at g1 c1eq ⊢
      obtain ⟨σ1, fm1, sps1⟩ := r1
      obtain ⟨g2, q2', hq2', c2eq⟩ := getFields_nf env hU g1 h2 hp2
      generalize getFields env.s env.d σ1 p2 ss2 = r2 at g2 c2eq ⊢
      obtain ⟨σ2, fm2, sps2⟩ := r2
      simp only at g1 g2 c1eq c2eq ⊢
      rw [computeFields_nospread _ _ _ _ (hn.typed h1), Prod.mk.injEq] at c1eq
      rw [computeFields_nospread _ _ _ _ (hn.typed h2), Prod.mk.injEq] at c2eq
      obtain ⟨rfl, rfl⟩ := c1eq
      obtain ⟨rfl, rfl⟩ := c2eq
      simp only [List.flatMap_nil]
      have R := dec_andThen env
        (dec_forEach env (betweenPairs
            ⟨ss1.id, grp [] ((selsFlat env.s q1' ss1.sels).map (toEntry env.s))⟩
            ⟨ss2.id, grp [] ((selsFlat env.s q2' ss2.sels).map (toEntry env.s))⟩)
          (fun t => findConflict env n excl t.1 t.2.1 t.2.2)
          (fun t => BConf env.s (!excl) t.2.1.inst t.2.2.inst) (by
            intro t ht
            obtain ⟨m1, m2, _, _⟩ := mem_betweenPairs_grp.1 ht
            obtain ⟨c1', hc1', e1⟩ := List.mem_map.1 m1
            obtain ⟨c2', hc2', e2⟩ := List.mem_map.1 m2
            obtain ⟨c1, hc1, i1⟩ := (selsFlat_peq env.s ss1.sels q1 q1' hq1').mem_right hc1'
            obtain ⟨c2, hc2, i2⟩ := (selsFlat_peq env.s ss2.sels q2 q2' hq2').mem_right hc2'
            have k1 : Known env t.2.1 := by
              rw [← e1]
              exact ⟨⟨c1, ⟨_, h1, hc1⟩, by rw [inst_toEntry]; exact i1.symm⟩, rfl⟩
            have k2 : Known env t.2.2 := by
              rw [← e2]
              exact ⟨⟨c2, ⟨_, h2, hc2⟩, by rw [inst_toEntry]; exact i2.symm⟩, rfl⟩
            refine ihFC excl t.1 t.2.1 t.2.2 k1 k2 ?_
            have := flat_child_depth hc1'
            rw [← e1]
            simp only [toEntry]
            omega))
        (dec_andThen env
          (dec_forEach env ([] : List Spread)
            (fun sp => collectConflictsBetweenFieldsAndFragment env n excl
              ⟨ss1.id, grp [] ((selsFlat env.s q1' ss1.sels).map (toEntry env.s))⟩ sp)
            (fun _ => False) (by simp))
          (dec_andThen env
            (dec_forEach env ([] : List Spread)
              (fun sp => collectConflictsBetweenFieldsAndFragment env n excl
                ⟨ss2.id, grp [] ((selsFlat env.s q2' ss2.sels).map (toEntry env.s))⟩ sp)
              (fun _ => False) (by simp))
            (dec_forEach env ([] : List (Spread × Spread))
              (fun p => collectConflictsBetweenFragments env n excl p.1 p.2)
              (fun _ => False) (by simp))))
      obtain ⟨σ', cs, e, g, i⟩ := R σ2 g2
      refine ⟨σ', cs, e, g, ?_⟩
      rw [i]
      simp only [List.not_mem_nil, false_and, exists_false, or_false]
      exact between_iff env hle hn hU hA hT ss1.id ss2.id hq1' hq2' (!excl)

end nofrag

theorem Spec.pairsOf_map {α β : Type} (f : α → β) (xs : List α) :
    Spec.pairsOf (xs.map f) = (Spec.pairsOf xs).map (fun p => (f p.1, f p.2)) := by
  induction xs with
  | nil => simp [Spec.pairsOf]
  | cons x xs ih => simp [Spec.pairsOf, ih, List.map_map, Function.comp_def]

/-- some same-name pair within the typed set `t` has a between-conflict -/
def WSet (s : Schema) (t : Option String × SelSet) : Prop :=
  ∃ pr ∈ Spec.sameNamePairs (selsFlat s t.1 t.2.sels), BConf s true pr.1 pr.2

section nofrag2
variable (env : Env) (hle : LinOrd env.le) (hn : env.d.NoSpreads)
  (hU : TypedIdsUnique env.s env.d)
  (hA : ∀ a, DocInst env.s env.d a → a.node.argsOK)
  (hT : ∀ a, DocInst env.s env.d a → a.node.name ≠ "__typename")
include hle hn hU hA hT

theorem within_iff {q q' : Option String} {ss : SelSet} (i : Nat) (hq : PEq env.s q q') :
    (∃ t ∈ withinPairs ⟨i, grp [] ((selsFlat env.s q' ss.sels).map (toEntry env.s))⟩,
        BConf env.s true t.2.1.inst t.2.2.inst) ↔ WSet env.s (q, ss) := by
  have r := selsFlat_peq env.s ss.sels q q' hq
  constructor
  · rintro ⟨t, ht, hb⟩
    obtain ⟨hp, n1, n2⟩ := mem_withinPairs_grp.1 ht
    rw [Spec.pairsOf_map] at hp
    obtain ⟨p', hp', e⟩ := List.mem_map.1 hp
    simp only [Prod.mk.injEq] at e
    obtain ⟨pr, hpr, i1, i2⟩ := r.pairs_right hp'
    rw [← e.1, ← e.2, inst_toEntry, inst_toEntry] at hb
    refine ⟨pr, Spec.mem_sameNamePairs.2 ⟨hpr, ?_⟩, hb.instEq i1.symm i2.symm⟩
    rw [← e.1] at n1
    rw [← e.2] at n2
    simp only [rnE, toEntry] at n1 n2
    rw [i1.1, i2.1, n1, n2]
  · rintro ⟨pr, hpr, hb⟩
    obtain ⟨hp, hrn⟩ := Spec.mem_sameNamePairs.1 hpr
    obtain ⟨p', hp', i1, i2⟩ := r.pairs_left hp
    refine ⟨(pr.1.node.responseName, toEntry env.s p'.1, toEntry env.s p'.2), ?_, ?_⟩
    · refine mem_withinPairs_grp.2 ⟨?_, ?_, ?_⟩
      · rw [Spec.pairsOf_map]
        exact List.mem_map.2 ⟨p', hp', rfl⟩
      · simp only [rnE, toEntry]; rw [← i1.1]
      · simp only [rnE, toEntry]; rw [← i2.1, hrn]
    · simp only [inst_toEntry]
      exact hb.instEq i1 i2

theorem within_dec (n : Nat) (hfuel : 2 * env.d.depth + 1 ≤ n) {t : Option String × SelSet}
    (ht : t ∈ env.d.typedSets env.s) {pTI : Option String} (hp : PEq env.s t.1 pTI) :
    Dec env (findConflictsWithinSelectionSet env n pTI t.2) (WSet env.s t) := by
  obtain ⟨hFC, _⟩ := fc_bs_dec env hle hn hU hA hT n
  intro σ hσ
  simp only [findConflictsWithinSelectionSet]
  obtain ⟨g1, q', hq', ceq⟩ := getFields_nf env hU hσ ht hp
  generalize getFields env.s env.d σ pTI t.2 = r1 at g1 ceq ⊢
  obtain ⟨σ1, fm, sps⟩ := r1
  simp only at g1 ceq ⊢
  rw [computeFields_nospread _ _ _ _ (hn.typed ht), Prod.mk.injEq] at ceq
  obtain ⟨rfl, rfl⟩ := ceq
  simp only [withinTasks]
  have R := dec_andThen env
    (dec_forEach env (withinPairs
        ⟨t.2.id, grp [] ((selsFlat env.s q' t.2.sels).map (toEntry env.s))⟩)
      (fun u => findConflict env n false u.1 u.2.1 u.2.2)
      (fun u => BConf env.s true u.2.1.inst u.2.2.inst) (by
        intro u hu
        obtain ⟨hpp, _, _⟩ := mem_withinPairs_grp.1 hu
        have hm := Spec.pairsOf_mem hpp
        obtain ⟨c1', hc1', e1⟩ := List.mem_map.1 hm.1
        obtain ⟨c2', hc2', e2⟩ := List.mem_map.1 hm.2
        simp only at e1 e2
        obtain ⟨c1, hc1, i1⟩ := (selsFlat_peq env.s t.2.sels t.1 q' hq').mem_right hc1'
        obtain ⟨c2, hc2, i2⟩ := (selsFlat_peq env.s t.2.sels t.1 q' hq').mem_right hc2'
        have k1 : Known env u.2.1 := by
          rw [← e1]
          exact ⟨⟨c1, ⟨_, ht, hc1⟩, by rw [inst_toEntry]; exact i1.symm⟩, rfl⟩
        have k2 : Known env u.2.2 := by
          rw [← e2]
          exact ⟨⟨c2, ⟨_, ht, hc2⟩, by rw [inst_toEntry]; exact i2.symm⟩, rfl⟩
        have hdep : nodeDepth u.2.1.node ≤ env.d.depth := by
          have := (DocInst.depth (s := env.s) ⟨_, ht, hc1⟩)
          rw [← e1]
          simp only [toEntry]
          rw [← i1.1]
          exact this
        exact hFC false u.1 u.2.1 u.2.2 k1 k2 (by omega)))
    (dec_forEach env ([] : List Task)
      (fun tk => match tk with
        | .fieldsFrag sp => collectConflictsBetweenFieldsAndFragment env n false
            ⟨t.2.id, grp [] ((selsFlat env.s q' t.2.sels).map (toEntry env.s))⟩ sp
        | .frags a b => collectConflictsBetweenFragments env n false a b)
      (fun _ => False) (by simp))
  obtain ⟨σ', cs, e, g, i⟩ := R σ1 g1
  refine ⟨σ', cs, e, g, ?_⟩
  rw [i]
  simp only [List.not_mem_nil, false_and, exists_false, or_false]
  exact within_iff env hle hn hU hA hT t.2.id hq'

end nofrag2

section nofrag3
variable (env : Env) (hle : LinOrd env.le) (hn : env.d.NoSpreads)
  (hU : TypedIdsUnique env.s env.d)
  (hA : ∀ a, DocInst env.s env.d a → a.node.argsOK)
  (hT : ∀ a, DocInst env.s env.d a → a.node.name ≠ "__typename")
include hle hn hU hA hT

mutual
theorem visitSel_dec (n : Nat) (hfuel : 2 * env.d.depth + 1 ≤ n) :
    ∀ (x : Sel) (pTI q : Option String), PEq env.s q pTI →
      x.typedSets env.s q ⊆ env.d.typedSets env.s →
      (∀ a ∈ x.flat env.s q, a.node.name ≠ "__typename") →
      Dec env (visitSel env n pTI x) (∃ t ∈ x.typedSets env.s q, WSet env.s t)
  | .field id al name args st hasSub subId sub, pTI, q, hp, hsub, hname => by
    cases hasSub with
    | false =>
      intro σ hσ
      exact ⟨σ, [], by simp [visitSel], hσ, by simp [Sel.typedSets]⟩
    | true =>
      have hnm : name ≠ "__typename" := hname ⟨q, ⟨id, al, name, args, st, true, subId, sub⟩⟩
        (by simp [Sel.flat])
      have hq' : (Spec.fieldType env.s q name).map Ty.named =
          (env.s.fieldDef pTI name).map Ty.named := by
        rw [fieldType_of_ne hnm, hp.fieldDef]
      have hmem : ((Spec.fieldType env.s q name).map Ty.named, (⟨subId, sub⟩ : SelSet)) ∈
          env.d.typedSets env.s := hsub (by simp [Sel.typedSets])
      have hpc : PEq env.s ((Spec.fieldType env.s q name).map Ty.named)
          (compositeOrNone env.s ((env.s.fieldDef pTI name).map Ty.named)) := by
        rw [hq']; exact (cON_idem _ _).symm
      have R := dec_andThen env
        (within_dec env hle hn hU hA hT n hfuel hmem hpc)
        (visitSels_dec n hfuel sub
          (compositeOrNone env.s ((env.s.fieldDef pTI name).map Ty.named))
          ((Spec.fieldType env.s q name).map Ty.named) hpc
          (fun u hu => hsub (by simp [Sel.typedSets, hu]))
          (fun a ha => hT a ⟨_, hmem, ha⟩))
      intro σ hσ
      obtain ⟨σ', cs, e, g, i⟩ := R σ hσ
      refine ⟨σ', cs, by simpa [visitSel] using e, g, ?_⟩
      rw [i]
      simp [Sel.typedSets]
  | .inline tc ssId sels, pTI, q, hp, hsub, hname => by
    have key : ∀ (q' pc : Option String), PEq env.s q' pc →
        (q', (⟨ssId, sels⟩ : SelSet)) ∈ env.d.typedSets env.s →
        selsTypedSets env.s q' sels ⊆ env.d.typedSets env.s →
        (∀ a ∈ selsFlat env.s q' sels, a.node.name ≠ "__typename") →
        Dec env (fun σ => andThen (findConflictsWithinSelectionSet env n pc ⟨ssId, sels⟩ σ)
          (visitSels env n pc sels))
          (WSet env.s (q', ⟨ssId, sels⟩) ∨ ∃ t ∈ selsTypedSets env.s q' sels, WSet env.s t) :=
      fun q' pc hpc hmem hs hnm => dec_andThen env
        (within_dec env hle hn hU hA hT n hfuel hmem hpc)
        (visitSels_dec n hfuel sels pc q' hpc hs hnm)
    cases tc with
    | none =>
      have R := key q pTI hp (hsub (by simp [Sel.typedSets]))
        (fun u hu => hsub (by simp [Sel.typedSets, hu])) (by simpa [Sel.flat] using hname)
      intro σ hσ
      obtain ⟨σ', cs, e, g, i⟩ := R σ hσ
      refine ⟨σ', cs, by simpa [visitSel] using e, g, ?_⟩
      rw [i]
      simp [Sel.typedSets]
    | some tn =>
      have R := key (env.s.typeFromAst tn) (compositeOrNone env.s (env.s.typeFromAst tn))
        (cON_idem _ _).symm (hsub (by simp [Sel.typedSets]))
        (fun u hu => hsub (by simp [Sel.typedSets, hu])) (by simpa [Sel.flat] using hname)
      intro σ hσ
      obtain ⟨σ', cs, e, g, i⟩ := R σ hσ
      refine ⟨σ', cs, by simpa [visitSel] using e, g, ?_⟩
      rw [i]
      simp [Sel.typedSets]
  | .spread _, pTI, q, _, _, _ => by
    intro σ hσ
    exact ⟨σ, [], by simp [visitSel], hσ, by simp [Sel.typedSets]⟩
theorem visitSels_dec (n : Nat) (hfuel : 2 * env.d.depth + 1 ≤ n) :
    ∀ (xs : List Sel) (pTI q : Option String), PEq env.s q pTI →
      selsTypedSets env.s q xs ⊆ env.d.typedSets env.s →
      (∀ a ∈ selsFlat env.s q xs, a.node.name ≠ "__typename") →
      Dec env (visitSels env n pTI xs) (∃ t ∈ selsTypedSets env.s q xs, WSet env.s t)
  | [], pTI, q, _, _, _ => by
    intro σ hσ
    exact ⟨σ, [], by simp [visitSels], hσ, by simp [selsTypedSets]⟩
  | x :: xs, pTI, q, hp, hsub, hname => by
    have R := dec_andThen env
      (visitSel_dec n hfuel x pTI q hp (fun u hu => hsub (by simp [selsTypedSets, hu]))
        (fun a ha => hname a (by simp [selsFlat, ha])))
      (visitSels_dec n hfuel xs pTI q hp (fun u hu => hsub (by simp [selsTypedSets, hu]))
        (fun a ha => hname a (by simp [selsFlat, ha])))
    intro σ hσ
    obtain ⟨σ', cs, e, g, i⟩ := R σ hσ
    refine ⟨σ', cs, by simpa [visitSels] using e, g, ?_⟩
    rw [i]
    simp only [selsTypedSets, List.mem_append]
    constructor
    · rintro (⟨t, ht, hw⟩ | ⟨t, ht, hw⟩)
      · exact ⟨t, Or.inl ht, hw⟩
      · exact ⟨t, Or.inr ht, hw⟩
    · rintro ⟨t, ht | ht, hw⟩
      · exact Or.inl ⟨t, ht, hw⟩
      · exact Or.inr ⟨t, ht, hw⟩
end

/-- operation roots are object types (or absent), as `schema.get_root_type` guarantees -/
def RootsObject (s : Schema) (d : Doc) : Prop :=
  ∀ df ∈ d, match df with
    | .op root _ => root = none ∨ s.isObject root = true
    | .frag _ => True

theorem visitDefn_dec (hR : RootsObject env.s env.d) (n : Nat)
    (hfuel : 2 * env.d.depth + 1 ≤ n) {df : Defn} (hdf : df ∈ env.d) :
    Dec env (visitDefn env n df)
      (∃ t ∈ (df.parent env.s, df.ss) :: selsTypedSets env.s (df.parent env.s) df.ss.sels,
        WSet env.s t) := by
  have hmem : (df.parent env.s, df.ss) ∈ env.d.typedSets env.s := by
    simp only [Doc.typedSets, List.mem_flatMap, List.mem_cons]
    exact ⟨df, hdf, Or.inl rfl⟩
  have hsub : selsTypedSets env.s (df.parent env.s) df.ss.sels ⊆ env.d.typedSets env.s :=
    Doc.typedSets_closed hmem
  have key : ∀ pc, PEq env.s (df.parent env.s) pc →
      Dec env (fun σ => andThen (findConflictsWithinSelectionSet env n pc df.ss σ)
        (visitSels env n pc df.ss.sels))
        (WSet env.s (df.parent env.s, df.ss) ∨
          ∃ t ∈ selsTypedSets env.s (df.parent env.s) df.ss.sels, WSet env.s t) :=
    fun pc hpc => dec_andThen env
      (within_dec env hle hn hU hA hT n hfuel hmem hpc)
      (visitSels_dec env hle hn hU hA hT n hfuel df.ss.sels pc (df.parent env.s) hpc hsub
        (fun a ha => hT a ⟨_, hmem, ha⟩))
  cases df with
  | op root ss =>
    have hpc : PEq env.s root (if env.s.isObject root = true then root else none) := by
      rcases (hR _ hdf : root = none ∨ env.s.isObject root = true) with rfl | h
      · simp [PEq]
      · simp [h, PEq]
    intro σ hσ
    obtain ⟨σ', cs, e, g, i⟩ := key _ hpc σ hσ
    refine ⟨σ', cs, by simpa [visitDefn, Defn.ss] using e, g, ?_⟩
    rw [i]
    simp [Defn.parent, Defn.ss]
  | frag f =>
    intro σ hσ
    obtain ⟨σ', cs, e, g, i⟩ := key _ (cON_idem _ _).symm σ hσ
    refine ⟨σ', cs, by simpa [visitDefn, Defn.ss, Defn.parent] using e, g, ?_⟩
    rw [i]
    simp [Defn.parent, Defn.ss]

end nofrag3

/-- On a document without fragment spreads the rule returns, and reports a conflict exactly when
some same-name pair within one selection set has a between-conflict. -/
theorem implConflictsFuel_nofrag (le : String → String → Bool) (hle : LinOrd le) (s : Schema)
    (d : Doc) (hn : d.NoSpreads) (hU : TypedIdsUnique s d)
    (hA : ∀ a, DocInst s d a → a.node.argsOK)
    (hT : ∀ a, DocInst s d a → a.node.name ≠ "__typename") (hR : RootsObject s d)
    (n : Nat) (hfuel : 2 * d.depth + 1 ≤ n) :
    ∃ cs, implConflictsFuel le n s d = some cs ∧ (cs ≠ [] ↔ WConf s d) := by
  have R := dec_forEach ⟨s, d, le⟩ d (visitDefn ⟨s, d, le⟩ n)
    (fun df => ∃ t ∈ (df.parent s, df.ss) :: selsTypedSets s (df.parent s) df.ss.sels, WSet s t)
    (fun df hdf => visitDefn_dec ⟨s, d, le⟩ hle hn hU hA hT hR n hfuel hdf)
  have h0 : CacheNF ⟨s, d, le⟩ {} := by
    intro i c h
    simp [assocGet] at h
  obtain ⟨σ', cs, e, _, i⟩ := R {} h0
  refine ⟨cs, by simp [implConflictsFuel, e], ?_⟩
  rw [i]
  simp only [WConf, WSet, Doc.typedSets, List.mem_flatMap]
  constructor
  · rintro ⟨df, hdf, t, ht, hw⟩
    exact ⟨t, ⟨df, hdf, ht⟩, hw⟩
  · rintro ⟨t, ⟨df, hdf, ht⟩, hw⟩
    exact ⟨df, hdf, t, ht, hw⟩

end Gql.Exec
