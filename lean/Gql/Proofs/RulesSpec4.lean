import Gql.Proofs.RulesSpec3
import Gql.Proofs.RulesUnusedFrags
/-!
C12 — `rule_iff_spec` for NoUnusedFragments: nothing is reported iff every fragment definition is reachable from some
operation in the spread graph.
-/
namespace Gql.Validation.Rules
open Gql.Validation

variable {τ : Type}

theorem usedFragmentNames_mem_iff (doc : ATree) (ops : List ATree) (nm : String) :
    nm ∈ usedFragmentNames doc ops ↔
      ∃ op ∈ ops, ∃ ss, op.kid "selection_set" = some ss ∧ Spec.Reaches doc ss nm ∧
        (getFragment doc nm).isSome = true := by
  unfold usedFragmentNames
  simp only [List.mem_flatMap, List.mem_filterMap]
  constructor
  · rintro ⟨op, hop, f, hf, hname⟩
    cases hss : op.kid "selection_set" with
    | none => rw [getRecFrags_no_selection_set doc op hss] at hf; simp at hf
    | some ss =>
      obtain ⟨n, hr, hg⟩ := (getRecFrags_mem_iff_reaches doc op ss hss f).mp hf
      have h1 := getFragment_name hg
      rw [hname] at h1
      cases h1
      exact ⟨op, hop, ss, hss, hr, by simp [hg]⟩
  · rintro ⟨op, hop, ss, hss, hr, hd⟩
    obtain ⟨f, hf⟩ := Option.isSome_iff_exists.mp hd
    exact ⟨op, hop, f, (getRecFrags_mem_iff_reaches doc op ss hss f).mpr ⟨nm, hr, hf⟩, getFragment_name hf⟩

namespace Spec
/-- "Every defined fragment is used" (spec §5.5.1.4): every fragment definition has a name, that name is reachable
in the spread graph from the selection set of some operation definition, and it is a name `get_fragment` resolves
(the definition sits in `document.definitions` — always, for a parsed document).  `outer doc`: the definitions not
nested in another definition (for a parsed document: `document.definitions`). -/
def noUnusedFragments (doc : ATree) : Prop :=
  ∀ fd ∈ outer doc, fd.kind = "fragment_definition" →
    ∃ nm, fd.nameValue = some nm ∧
      ∃ op ∈ outer doc, op.kind = "operation_definition" ∧
        ∃ ss, op.kid "selection_set" = some ss ∧ Reaches doc ss nm ∧ ∃ f ∈ fragDefs doc, f.nameValue = some nm
end Spec

theorem noUnusedFragments_iff (tbl : TITable) (L : Lookups τ) (doc : ATree) (hk : doc.kind = "document")
    (hu : doc.uniqueIds) (hnd : ∀ n ∈ ATree.nodesList doc.children, n.kind ≠ "document") :
    validate tbl L none [(noUnusedFragments doc, RS.init)] doc.erase = [] ↔ Spec.noUnusedFragments doc := by
  rw [noUnusedFragments_iff_getters tbl L doc hk hu hnd]
  unfold Spec.noUnusedFragments
  constructor
  · intro h fd hfd hkd
    obtain ⟨nm, h1, h2⟩ := h fd (List.mem_filter.mpr ⟨hfd, by simp [hkd]⟩)
    obtain ⟨op, hop, ss, hss, hr, hd⟩ := (usedFragmentNames_mem_iff doc _ nm).mp h2
    have := List.mem_filter.mp hop
    exact ⟨nm, h1, op, this.1, by simpa using this.2, ss, hss, hr, (getFragment_isSome doc nm).mp hd⟩
  · intro h fd hfd
    have := List.mem_filter.mp hfd
    obtain ⟨nm, h1, op, hop, hko, ss, hss, hr, hd⟩ := h fd this.1 (by simpa using this.2)
    exact ⟨nm, h1, (usedFragmentNames_mem_iff doc _ nm).mpr
      ⟨op, List.mem_filter.mpr ⟨hop, by simp [hko]⟩, ss, hss, hr, (getFragment_isSome doc nm).mpr hd⟩⟩

end Gql.Validation.Rules
