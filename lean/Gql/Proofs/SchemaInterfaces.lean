import Gql.Proofs.SchemaIff
/-
Lemmas for C20, part 5: the interfaces family — `validate_interfaces` reports nothing exactly
when the specification's IsValidImplementation holds for every declared interface.
-/
namespace Gql.Types
open Gql

/-- every member of every union type of the schema is an Object type (what the unions family
checks; `is_type_sub_type_of` lets an interface listed in a union pass as its sub-type) -/
def UnionsOk (s : RawSchema) : Prop :=
  ∀ t ∈ s.types, ∀ ms, t.defn = .union ms → ms.all s.isObject = true

theorem lookup_in_types {s : RawSchema} {n : Str} {d : TypeDef} (h : s.lookup n = some d) :
    ∃ t ∈ s.types, t.defn = d := by
  unfold RawSchema.lookup at h
  cases hf : s.types.find? (fun t => t.name == n) with
  | none => simp [hf] at h
  | some t =>
    simp only [hf, Option.map_some, Option.some.injEq] at h
    exact ⟨t, List.mem_of_find?_eq_some hf, h⟩

/-! ### sub-types -/

theorem isInterface_lookup {s : RawSchema} {n : Str} (h : s.isInterface n = true) :
    ∃ is fs, s.lookup n = some (.interface is fs) := by
  unfold RawSchema.isInterface at h
  split at h
  · rename_i is fs hl; exact ⟨is, fs, hl⟩
  · simp at h

theorem namedSubType_eq (s : RawSchema) (hu : UnionsOk s) (a b : Str) :
    (a == b || isNamedSubType s a b) = Spec.isSubType s a b := by
  unfold isNamedSubType Spec.isSubType
  have hbeq : (a == b) = decide (a = b) := by
    by_cases h : a = b <;> simp [h]
  rw [hbeq]
  cases hl : s.lookup b with
  | none => simp [RawSchema.isInterface, hl]
  | some d =>
    cases d with
    | union ms =>
      obtain ⟨t, ht, hd⟩ := lookup_in_types hl
      have hall := hu t ht ms hd
      have hobj : ms.contains a = true → s.isObject a = true := by
        intro hc
        exact (List.all_eq_true.mp hall) a (by simpa using hc)
      simp only [RawSchema.isInterface, hl, Bool.false_and, Bool.and_false, Bool.or_false]
      cases hc : ms.contains a
      · simp
      · simp [hobj hc]
    | interface is fs => simp [RawSchema.isInterface, hl]
    | scalar k => simp [RawSchema.isInterface, hl]
    | object is fs => simp [RawSchema.isInterface, hl]
    | enum vs => simp [RawSchema.isInterface, hl]
    | input fs o => simp [RawSchema.isInterface, hl]

/-- `is_type_sub_type_of` is the specification's IsValidImplementationFieldType -/
theorem isTypeSubTypeOf_eq (s : RawSchema) (hu : UnionsOk s) : ∀ (a b : TRef),
    isTypeSubTypeOf s a b = Spec.validImplementationFieldType s a b
  | .nonNull a, .nonNull b => by
    simp only [isTypeSubTypeOf, Spec.validImplementationFieldType]; exact isTypeSubTypeOf_eq s hu a b
  | .named _, .nonNull _ => by simp [isTypeSubTypeOf, Spec.validImplementationFieldType]
  | .list _, .nonNull _ => by simp [isTypeSubTypeOf, Spec.validImplementationFieldType]
  | .nonNull a, .named b => by
    simp only [isTypeSubTypeOf, Spec.validImplementationFieldType]; exact isTypeSubTypeOf_eq s hu a (.named b)
  | .nonNull a, .list b => by
    simp only [isTypeSubTypeOf, Spec.validImplementationFieldType]; exact isTypeSubTypeOf_eq s hu a (.list b)
  | .list a, .list b => by
    simp only [isTypeSubTypeOf, Spec.validImplementationFieldType]; exact isTypeSubTypeOf_eq s hu a b
  | .named _, .list _ => by simp [isTypeSubTypeOf, Spec.validImplementationFieldType]
  | .list _, .named _ => by simp [isTypeSubTypeOf, Spec.validImplementationFieldType]
  | .named a, .named b => by
    simp only [isTypeSubTypeOf, Spec.validImplementationFieldType]; exact namedSubType_eq s hu a b

/-! ### one interface field -/

theorem find_beq_eq_decide {α : Type} (l : List α) (key : α → Str) (n : Str) :
    l.find? (fun x => key x == n) = l.find? (fun x => decide (key x = n)) := by
  congr 1
  funext x
  by_cases h : key x = n <;> simp [h]

theorem find_isNone_iff_any {α : Type} (l : List α) (key : α → Str) (n : Str) :
    (l.find? (fun x => key x == n)).isNone = !l.any (fun x => decide (key x = n)) := by
  induction l with
  | nil => simp
  | cons x xs ih =>
    by_cases h : key x = n
    · simp [List.find?_cons, h]
    · have : (key x == n) = false := by simpa using h
      simp [List.find?_cons, this, h, ih]

theorem validateIfaceArg_nil (tn ic : Str) (tfArgs : List InputValue) (ia : InputValue) :
    validateIfaceArg tn ic tfArgs ia = [] ↔ Spec.hasSameArg tfArgs ia = true := by
  unfold validateIfaceArg Spec.hasSameArg
  rw [find_beq_eq_decide tfArgs (·.name) ia.name]
  cases tfArgs.find? (fun a => decide (a.name = ia.name)) with
  | none => simp
  | some ta =>
    simp only [ite_singleton_nil, Bool.not_eq_false', isEqualType_iff, decide_eq_true_eq]
    exact eq_comm

theorem validateExtraArg_nil (tn iface tfName : Str) (ifldArgs : List InputValue) (ta : InputValue) :
    validateExtraArg tn iface tfName ifldArgs ta = [] ↔
      (ifldArgs.any (fun ia => decide (ia.name = ta.name)) || !Spec.required ta) = true := by
  unfold validateExtraArg
  rw [ite_singleton_nil, find_isNone_iff_any, isRequired_eq]
  cases ifldArgs.any (fun ia => decide (ia.name = ta.name)) <;> cases Spec.required ta <;> simp

theorem validateIfaceField_nil (s : RawSchema) (hu : UnionsOk s) (tn iface : Str)
    (tFields : List Field) (ifld : Field) :
    validateIfaceField s tn iface tFields ifld = [] ↔ Spec.implementsField s tFields ifld = true := by
  unfold validateIfaceField Spec.implementsField
  rw [find_beq_eq_decide tFields (·.name) ifld.name]
  cases tFields.find? (fun f => decide (f.name = ifld.name)) with
  | none => simp
  | some tf =>
    simp only [List.append_eq_nil_iff, ite_singleton_nil, List.flatMap_eq_nil_iff, Bool.and_eq_true,
      List.all_eq_true, isTypeSubTypeOf_eq s hu, validateIfaceArg_nil, validateExtraArg_nil]
    cases tf.deprecated <;> cases ifld.deprecated <;>
      cases Spec.validImplementationFieldType s tf.type ifld.type <;> simp


/-! ### the `implements` loop -/

theorem validateImplements_nil (s : RawSchema) (hu : UnionsOk s) (tn i : Str) (tFields : List Field)
    (hi : s.isInterface i = true) :
    validateImplements s tn i tFields = [] ↔
      (match s.fieldsOf i with
       | some ifs => ifs.all (Spec.implementsField s tFields)
       | none => false) = true := by
  obtain ⟨is, fs, hl⟩ := isInterface_lookup hi
  unfold validateImplements
  have hf : s.fieldsOf i = some fs := by simp [RawSchema.fieldsOf, hl]
  simp only [hf, List.flatMap_eq_nil_iff, List.all_eq_true, validateIfaceField_nil s hu]

theorem validateIfacesLoop_nil (s : RawSchema) (tn : Str) (tIfaces : List Str) (tFields : List Field) :
    ∀ (is seen : List Str),
    validateIfacesLoop s tn tIfaces tFields is seen = [] ↔
      (∀ i ∈ is, s.isInterface i = true ∧ tn ≠ i ∧ i ∉ seen ∧
        validateAncestors s tn tIfaces i = [] ∧ validateImplements s tn i tFields = []) ∧ is.Nodup
  | [], seen => by simp [validateIfacesLoop]
  | i :: is, seen => by
    unfold validateIfacesLoop
    by_cases hi : s.isInterface i = true
    · by_cases hs : i ∈ seen
      · simp [hi, hs]
      · have ih := validateIfacesLoop_nil s tn tIfaces tFields is (i :: seen)
        by_cases hself : tn = i
        · simp [hi, hs, hself]
        · have hself' : (tn == i) = false := by simpa using hself
          simp only [hi, Bool.not_true, Bool.false_eq_true, ↓reduceIte, hself', List.contains_eq_mem, hs,
            decide_false, List.nil_append, List.append_eq_nil_iff, ih, List.mem_cons, not_or,
            forall_eq_or_imp, ne_eq, hself, not_false_eq_true, true_and, List.nodup_cons]
          constructor
          · rintro ⟨⟨ha, hm⟩, h3, h2⟩
            exact ⟨⟨⟨ha, hm⟩, fun x hx => ⟨(h3 x hx).1, (h3 x hx).2.1, (h3 x hx).2.2.1.2, (h3 x hx).2.2.2⟩⟩,
              fun hm' => (h3 i hm').2.2.1.1 rfl, h2⟩
          · rintro ⟨⟨⟨ha, hm⟩, h3⟩, hni, h2⟩
            exact ⟨⟨ha, hm⟩, fun x hx => ⟨(h3 x hx).1, (h3 x hx).2.1,
              ⟨fun hxi => hni (hxi ▸ hx), (h3 x hx).2.2.1⟩, (h3 x hx).2.2.2⟩, h2⟩
    · simp [hi]

/-- The interfaces family. -/
theorem validateInterfaces_nil (s : RawSchema) (hu : UnionsOk s) (tn : Str) (ifaces : List Str)
    (fields : List Field) :
    validateInterfaces s tn ifaces fields = [] ↔ Spec.implementsOk s tn ifaces fields = true := by
  unfold validateInterfaces Spec.implementsOk
  rw [validateIfacesLoop_nil]
  simp only [List.not_mem_nil, not_false_eq_true, true_and, Bool.and_eq_true, List.all_eq_true,
    decide_eq_true_eq, Bool.not_eq_true', List.contains_eq_mem, decide_eq_false_iff_not]
  constructor
  · rintro ⟨h, hnd⟩
    refine ⟨⟨⟨fun i hi => (h i hi).1, hnd⟩, fun hc => (h tn hc).2.1 rfl⟩, fun i hi => ?_⟩
    obtain ⟨h1, _, h3, h4⟩ := h i hi
    refine ⟨?_, (validateImplements_nil s hu tn i fields h1).mp h4⟩
    have := (validateAncestors_nil s tn ifaces i).mp h3
    simpa using this
  · rintro ⟨⟨⟨h1, hnd⟩, hself⟩, h2⟩
    refine ⟨fun i hi => ⟨h1 i hi, fun he => hself (he ▸ hi), ?_, ?_⟩, hnd⟩
    · apply (validateAncestors_nil s tn ifaces i).mpr
      simpa using (h2 i hi).1
    · exact (validateImplements_nil s hu tn i fields (h1 i hi)).mpr (h2 i hi).2

end Gql.Types
