import Gql.Proofs.Integrate
/-!
`_maybe_integrate_work`, `_start_new_work` and `_finish_group_success` on a good graph.
-/
namespace Gql.Async

theorem addGroups_nil (σ : Static) (q : WQ) (hpt : Bool) : addGroups σ q [] hpt = (q, []) := rfl

theorem tasks_fold_shrink (σ : Static) (ts : List Nat) (q : WQ) :
    Shrink q (ts.foldl (addTask σ) q) ∧ RootFrame q (ts.foldl (addTask σ) q) :=
  ⟨foldl_shrink _ _ _ (addTask_shrink σ), foldl_frame _ _ _ (addTask_frame σ)⟩

/-- `_maybe_integrate_work` of a well-formed work. -/
theorem integrateWork_good (σ : Static) (e : EnvSt) (q : WQ) (w : Work) (pt : Option Nat)
    (g : Good σ e q) (ok : WorkOk σ e q w) :
    Good σ (e.intro (some w)) (integrateWork σ q (some w) pt).1 ∧
    RootFrame q (integrateWork σ q (some w) pt).1 ∧
    (integrateWork σ q (some w) pt).2.1.Nodup ∧
    (∀ x ∈ (integrateWork σ q (some w) pt).2.1, x ∈ w.groups ∧ σ.parent x = none) ∧
    (∀ x ∈ (integrateWork σ q (some w) pt).2.2, x ∈ w.streams ∧ pt = none) ∧
    (integrateWork σ q (some w) pt).2.2.Nodup := by
  unfold integrateWork
  simp only
  have hr1 : (if w.groups.isEmpty then (q, ([] : List Nat)) else addGroups σ q w.groups pt.isSome)
      = addGroups σ q w.groups pt.isSome := by
    split
    · rename_i he
      have : w.groups = [] := by simpa using he
      rw [this]; rfl
    · rfl
  rw [hr1]
  obtain ⟨g1, f1, t1, n1, m1⟩ := addGroups_good σ e q w pt.isSome g ok
  obtain ⟨s2, f2⟩ := tasks_fold_shrink σ w.tasks (addGroups σ q w.groups pt.isSome).1
  have g2 : Good σ (e.intro (some w)) (w.tasks.foldl (addTask σ) (addGroups σ q w.groups pt.isSome).1) :=
    g1.frame s2 f2
  have hold1 : SKnown e.introS (addGroups σ q w.groups pt.isSome).1 :=
    g.sknown.shrink (tsub_of_eq t1) (fun x hx => f1.rs ▸ hx)
  have hold2 : SKnown e.introS (w.tasks.foldl (addTask σ) (addGroups σ q w.groups pt.isSome).1) :=
    hold1.shrink s2.tsub (fun x hx => f2.rs ▸ hx)
  have ok2 : WorkOk σ e (w.tasks.foldl (addTask σ) (addGroups σ q w.groups pt.isSome).1) w :=
    ⟨ok.gnodup, ok.snodup, ok.gfresh, ok.sfresh, ok.noself, ok.plt⟩
  have hgroups : ∀ x ∈ (addGroups σ q w.groups pt.isSome).2, x ∈ w.groups ∧ σ.parent x = none :=
    fun x hx => ⟨(m1 x hx).1, (m1 x hx).2.1⟩
  cases pt with
  | none =>
    have hr3 : (if w.streams.isEmpty then (w.tasks.foldl (addTask σ) (addGroups σ q w.groups false).1, ([] : List Nat))
        else addStreams (w.tasks.foldl (addTask σ) (addGroups σ q w.groups false).1) w.streams none)
        = (w.tasks.foldl (addTask σ) (addGroups σ q w.groups false).1, w.streams) := by
      split
      · rename_i he
        have : w.streams = [] := by simpa using he
        rw [this]
      · rfl
    simp only [Option.isSome_none] at hr3 ⊢
    rw [hr3]
    exact ⟨g2, f1.trans f2, n1, hgroups, fun x hx => ⟨hx, trivial⟩, ok.snodup⟩
  | some t =>
    simp only [Option.isSome_some] at g2 hold2 ok2 ⊢
    by_cases he : w.streams.isEmpty = true
    · simp only [he, if_true]
      exact ⟨g2, f1.trans f2, n1, hgroups, fun x hx => by simp at hx, List.nodup_nil⟩
    · have he' : w.streams.isEmpty = false := by simpa using he
      simp only [he', Bool.false_eq_true, if_false]
      obtain ⟨g3, f3, e3⟩ := addStreams_good σ e _ w t g2 hold2 ok2
      exact ⟨g3, (f1.trans f2).trans f3, n1, hgroups, fun x hx => by rw [e3] at hx; simp at hx,
        by rw [e3]; exact List.nodup_nil⟩

/-! ### promotion -/

theorem startNewWork_shrink (σ : Static) (q : WQ) (ngs nss : List Nat) :
    Shrink q (startNewWork σ q ngs nss) := by
  unfold startNewWork
  simp only
  have h1 : ∀ (l : List Nat) (q : WQ), Shrink q
      (l.foldl (fun q g => startGroup σ { q with rootGroups := oinsert q.rootGroups g } g) q) := by
    intro l
    induction l with
    | nil => intro q; exact Shrink.refl q
    | cons g l ih =>
      intro q
      simp only [List.foldl_cons]
      have a : Shrink q ({ q with rootGroups := oinsert q.rootGroups g } : WQ) := shrink_of_eq rfl rfl
      exact (a.trans (startGroup_shrink σ _ g)).trans (ih _)
  have h2 : ∀ (l : List Nat) (q : WQ), Shrink q
      (l.foldl (fun q s => startStream { q with rootStreams := oinsert q.rootStreams s } s) q) := by
    intro l
    induction l with
    | nil => intro q; exact Shrink.refl q
    | cons s l ih =>
      intro q
      simp only [List.foldl_cons]
      have a : Shrink q (startStream { q with rootStreams := oinsert q.rootStreams s } s) :=
        shrink_of_eq rfl rfl
      exact a.trans (ih _)
  exact (h1 ngs q).trans (h2 nss _)

/-- Growing the roots keeps the invariant when the new root groups are listed nowhere as
children and the new root streams wait in no task node. -/
theorem Good.grow {σ : Static} {e : EnvSt} {q q' : WQ} (g : Good σ e q) (sh : Shrink q q')
    (ngs nss : List Nat)
    (rg : ∀ x, x ∈ q'.rootGroups → x ∈ q.rootGroups ∨ x ∈ ngs)
    (rs : ∀ x, x ∈ q'.rootStreams → x ∈ q.rootStreams ∨ x ∈ nss)
    (hg : ∀ x ∈ ngs, Detached q x ∧ x ∈ e.introG)
    (hs : ∀ s ∈ nss, (∀ t tn, alookup q.taskNodes t = some tn → s ∉ tn.childStreams) ∧ s ∈ e.introS) :
    Good σ e q' := by
  refine ⟨⟨?_, ?_, ?_⟩, ⟨?_, ?_, ?_⟩, ⟨?_, ?_, ?_⟩, ⟨?_, ?_⟩⟩
  · exact fun p c hc => g.forest.parent p c (sh.sub.hasChild hc)
  · intro p n' hn
    obtain ⟨n, e0, c0⟩ := sh.sub p n' hn
    rw [c0]; exact g.forest.nodup p n e0
  · intro p c hc hroot
    rcases rg c hroot with h | h
    · exact g.forest.notRoot p c (sh.sub.hasChild hc) h
    · exact (hg c h).1 p (sh.sub.hasChild hc)
  · exact fun x hx => g.known.nodes x (sh.sub.hasNode hx)
  · intro x hx
    rcases rg x hx with h | h
    · exact g.known.roots x h
    · exact (hg x h).2
  · exact fun p c hc => g.known.children p c (sh.sub.hasChild hc)
  · intro t tn' hn
    rcases sh.tsub t tn' hn with e0 | ⟨tn, e0, c0⟩
    · rw [e0]; exact List.nodup_nil
    · rw [c0]; exact g.sforest.nodup t tn e0
  · intro t tn' s hn hs' hroot
    rcases sh.tsub t tn' hn with e0 | ⟨tn, e0, c0⟩
    · rw [e0] at hs'; cases hs'
    · rcases rs s hroot with h | h
      · exact g.sforest.notRoot t tn s e0 (c0 ▸ hs') h
      · exact (hs s h).1 t tn e0 (c0 ▸ hs')
  · intro t t' tn1 tn2 s e1 e2 h1 h2
    rcases sh.tsub t tn1 e1 with a | ⟨m1, a1, c1⟩
    · rw [a] at h1; cases h1
    · rcases sh.tsub t' tn2 e2 with b | ⟨m2, b1, c2⟩
      · rw [b] at h2; cases h2
      · exact g.sforest.owner t t' m1 m2 s a1 b1 (c1 ▸ h1) (c2 ▸ h2)
  · intro s hs'
    rcases rs s hs' with h | h
    · exact g.sknown.roots s h
    · exact (hs s h).2
  · intro t tn' s hn hs'
    rcases sh.tsub t tn' hn with e0 | ⟨tn, e0, c0⟩
    · rw [e0] at hs'; cases hs'
    · exact g.sknown.children t tn s e0 (c0 ▸ hs')

theorem startNewWork_good (σ : Static) (e : EnvSt) (q : WQ) (ngs nss : List Nat) (g : Good σ e q)
    (hg : ∀ x ∈ ngs, Detached q x ∧ x ∈ e.introG)
    (hs : ∀ s ∈ nss, (∀ t tn, alookup q.taskNodes t = some tn → s ∉ tn.childStreams) ∧ s ∈ e.introS) :
    Good σ e (startNewWork σ q ngs nss) := by
  obtain ⟨rg, rs, _, _⟩ := startNewWork_roots σ q ngs nss
  exact g.grow (startNewWork_shrink σ q ngs nss) ngs nss
    (fun x hx => by rw [rg, mem_foldl_oinsert] at hx; exact hx)
    (fun x hx => by rw [rs, mem_foldl_oinsert] at hx; exact hx) hg hs

end Gql.Async

namespace Gql.Async

theorem removeTask_taskNodes (σ : Static) (q : WQ) (t : Nat) :
    (removeTask σ q t).taskNodes = aerase q.taskNodes t := rfl

/-- The loop of `_finish_group_success` over the group's tasks: the collected child streams are
pairwise distinct, come from task nodes, and wait in no remaining task node. -/
theorem collect_spec (σ : Static) (ts : List Nat) (acc : WQ × List GVal × List Nat) (sf : SForest acc.1)
    (hn : acc.2.2.Nodup)
    (hacc : ∀ s ∈ acc.2.2, ∀ t tn, alookup acc.1.taskNodes t = some tn → s ∉ tn.childStreams) :
    (ts.foldl (collectTask σ) acc).2.2.Nodup ∧
    (∀ s ∈ (ts.foldl (collectTask σ) acc).2.2,
      s ∈ acc.2.2 ∨ ∃ t tn, alookup acc.1.taskNodes t = some tn ∧ s ∈ tn.childStreams) ∧
    (∀ s ∈ (ts.foldl (collectTask σ) acc).2.2, ∀ t tn,
      alookup (ts.foldl (collectTask σ) acc).1.taskNodes t = some tn → s ∉ tn.childStreams) := by
  induction ts generalizing acc with
  | nil => exact ⟨hn, fun s hs => Or.inl hs, hacc⟩
  | cons t ts ih =>
    simp only [List.foldl_cons]
    cases hl : alookup acc.1.taskNodes t with
    | none =>
      have : collectTask σ acc t = acc := by unfold collectTask; simp [hl]
      rw [this]; exact ih acc sf hn hacc
    | some tn =>
      have hc1 : (collectTask σ acc t).1 = removeTask σ acc.1 t := by
        unfold collectTask; simp [hl]
      have hc2 : (collectTask σ acc t).2.2 = acc.2.2 ++ tn.childStreams := by
        unfold collectTask; simp [hl]
      have look : ∀ x tx, alookup (collectTask σ acc t).1.taskNodes x = some tx →
          x ≠ t ∧ alookup acc.1.taskNodes x = some tx := by
        intro x tx hx
        rw [hc1, removeTask_taskNodes] at hx
        by_cases e : t = x
        · subst e; rw [alookup_aerase_self] at hx; cases hx
        · rw [alookup_aerase_ne _ _ _ e] at hx; exact ⟨fun h => e h.symm, hx⟩
      have sf' : SForest (collectTask σ acc t).1 := by
        rw [hc1]
        exact sf.shrink (removeTask_tsub σ acc.1 t) (fun x hx => (removeTask_frame σ acc.1 t).rs ▸ hx)
      obtain ⟨i1, i2, i3⟩ := ih (collectTask σ acc t) sf'
        (by
          rw [hc2, List.nodup_append]
          refine ⟨hn, sf.nodup t tn hl, ?_⟩
          intro a ha b hb eab; subst eab
          exact hacc a ha t tn hl hb)
        (by
          intro s hs x tx hx
          obtain ⟨hne, hx0⟩ := look x tx hx
          rw [hc2] at hs
          rcases List.mem_append.mp hs with hs | hs
          · exact hacc s hs x tx hx0
          · intro hsx
            exact hne (sf.owner x t tx tn s hx0 hl hsx hs))
      refine ⟨i1, ?_, i3⟩
      intro s hs
      rcases i2 s hs with h | ⟨x, tx, hx, hsx⟩
      · rw [hc2] at h
        rcases List.mem_append.mp h with h | h
        · exact Or.inl h
        · exact Or.inr ⟨t, tn, hl, h⟩
      · exact Or.inr ⟨x, tx, (look x tx hx).2, hsx⟩

theorem collect_shrink (σ : Static) (ts : List Nat) (acc : WQ × List GVal × List Nat) :
    Shrink acc.1 (ts.foldl (collectTask σ) acc).1 :=
  foldl_shrink1 _ ts acc (collectTask_shrink σ)

theorem removeTask_nodes_kept (σ : Static) (q : WQ) (t : Nat) (k : Nat) (h : hasNode q k) :
    hasNode (removeTask σ q t) k := by
  unfold removeTask
  simp only
  have key : ∀ (gs : List Nat) (gn : List (Nat × GroupNode)),
      (∃ n, alookup gn k = some n) →
      ∃ n, alookup (gs.foldl (fun gn g =>
        match alookup gn g with
        | some n => aset gn g { n with tasks := oerase n.tasks t }
        | none => gn) gn) k = some n := by
    intro gs
    induction gs with
    | nil => intro gn h; exact h
    | cons g gs ih =>
      intro gn ⟨n, hn⟩
      simp only [List.foldl_cons]
      apply ih
      cases hg : alookup gn g with
      | none => exact ⟨n, hn⟩
      | some ng =>
        simp only
        by_cases e : g = k
        · subst e; exact ⟨_, alookup_aset_self _ _ _⟩
        · exact ⟨n, by rw [alookup_aset_ne _ _ _ _ e]; exact hn⟩
  exact key (σ.tgroups t) q.groupNodes h

theorem collect_nodes_kept (σ : Static) (ts : List Nat) (acc : WQ × List GVal × List Nat) (k : Nat)
    (h : hasNode acc.1 k) : hasNode (ts.foldl (collectTask σ) acc).1 k := by
  induction ts generalizing acc with
  | nil => exact h
  | cons t ts ih =>
    simp only [List.foldl_cons]
    apply ih
    unfold collectTask
    split
    · exact removeTask_nodes_kept σ _ t k h
    · exact h

/-- What `_finish_group_success` returns on a good graph. -/
structure FinishOut (σ : Static) (e : EnvSt) (q : WQ) (g : Nat)
    (f : WQ × List WQEvent × List Nat × List Nat) : Prop where
  good : Good σ e f.1
  shrink : Shrink q f.1
  rg : f.1.rootGroups = oerase q.rootGroups g
  sframe : StreamFrame q f.1
  gone : alookup f.1.groupNodes g = none
  gnodup : f.2.2.1.Nodup
  gsrc : ∀ x ∈ f.2.2.1, ∃ p, hasChild q p x ∧ alookup f.1.groupNodes p = none
  snodup : f.2.2.2.Nodup
  ssrc : ∀ s ∈ f.2.2.2, ∃ t tn, alookup q.taskNodes t = some tn ∧ s ∈ tn.childStreams
  sgone : ∀ s ∈ f.2.2.2, ∀ t tn, alookup f.1.taskNodes t = some tn → s ∉ tn.childStreams
  events : ∃ v, f.2.1 = groupEvents g v f.2.2.1 f.2.2.2
  gkept : ∀ x ∈ f.2.2.1, hasNode f.1 x
  del : ∀ k, hasNode q k → ¬ hasNode f.1 k → k = g ∨ ∃ p, hasChild q p k

theorem finishGroupSuccess_out (σ : Static) (e : EnvSt) (q : WQ) (g : Nat) (n : GroupNode)
    (gd : Good σ e q) (hn : alookup q.groupNodes g = some n) :
    FinishOut σ e q g (finishGroupSuccess σ q g n) := by
  have h1 : Shrink q ({ q with groupNodes := aerase q.groupNodes g } : WQ) := erase_shrink q g
  have hgone1 : alookup ({ q with groupNodes := aerase q.groupNodes g } : WQ).groupNodes g = none :=
    alookup_aerase_self _ _
  have sf1 : SForest ({ q with groupNodes := aerase q.groupNodes g } : WQ) :=
    gd.sforest.shrink h1.tsub (fun x hx => hx)
  obtain ⟨c1, c2, c3⟩ := collect_spec σ n.tasks
    (({ q with groupNodes := aerase q.groupNodes g } : WQ), ([] : List GVal), ([] : List Nat)) sf1
    List.nodup_nil (fun s hs => by simp at hs)
  have h2 := collect_shrink σ n.tasks
    (({ q with groupNodes := aerase q.groupNodes g } : WQ), ([] : List GVal), ([] : List Nat))
  have h12 := h1.trans h2
  have hgone2 := h2.sub.none hgone1
  have tl : TreeLike σ (n.tasks.foldl (collectTask σ)
      (({ q with groupNodes := aerase q.groupNodes g } : WQ), ([] : List GVal), ([] : List Nat))).1 :=
    gd.forest.treeLike.sub h12.sub
  have hdet : ∀ x ∈ n.children, Detached (n.tasks.foldl (collectTask σ)
      (({ q with groupNodes := aerase q.groupNodes g } : WQ), ([] : List GVal), ([] : List Nat))).1 x := by
    intro x hx p hc
    have e1 := gd.forest.parent p x (h12.sub.hasChild hc)
    have e2 := gd.forest.parent g x ⟨n, hn, hx⟩
    rw [e1] at e2; cases e2
    obtain ⟨m, hm, _⟩ := hc
    rw [hgone2] at hm; cases hm
  obtain ⟨new, en, po⟩ := prune_spec σ _ n.children _ [] tl (gd.forest.nodup g n hn) hdet
  have h3 : Shrink _ (pruneEmpty (n.tasks.foldl (collectTask σ)
      (({ q with groupNodes := aerase q.groupNodes g } : WQ), ([] : List GVal), ([] : List Nat))).1 n.children).1 :=
    prune_shrink _ n.children _
  have h123 := h12.trans h3
  have hgone3 := h3.sub.none hgone2
  have hfr : RootFrame q (pruneEmpty (n.tasks.foldl (collectTask σ)
      (({ q with groupNodes := aerase q.groupNodes g } : WQ), ([] : List GVal), ([] : List Nat))).1 n.children).1 := by
    have f0 : RootFrame q ({ q with groupNodes := aerase q.groupNodes g } : WQ) := ⟨rfl, rfl, rfl, rfl⟩
    exact f0.trans ((collect_frame σ n.tasks
      (({ q with groupNodes := aerase q.groupNodes g } : WQ), ([] : List GVal), ([] : List Nat))).trans
      (pruneEmpty_frame _ _))
  have hnew : (pruneEmpty (n.tasks.foldl (collectTask σ)
      (({ q with groupNodes := aerase q.groupNodes g } : WQ), ([] : List GVal), ([] : List Nat))).1 n.children).2 = new := by
    simpa [pruneEmpty] using en
  -- assemble
  unfold finishGroupSuccess
  simp only
  have hshr : Shrink q ({ (pruneEmpty (n.tasks.foldl (collectTask σ)
      (({ q with groupNodes := aerase q.groupNodes g } : WQ), ([] : List GVal), ([] : List Nat))).1 n.children).1 with
      rootGroups := oerase (pruneEmpty (n.tasks.foldl (collectTask σ)
      (({ q with groupNodes := aerase q.groupNodes g } : WQ), ([] : List GVal), ([] : List Nat))).1 n.children).1.rootGroups g } : WQ) :=
    h123.trans (shrink_of_eq rfl rfl)
  refine ⟨?_, hshr, by simp only; rw [hfr.rg], ⟨hfr.rs, hfr.st, hfr.pm⟩, hgone3, ?_, ?_, c1, ?_, ?_, ⟨_, rfl⟩, ?_, ?_⟩
  · refine gd.shrink hshr ?_ ?_
    · intro x hx
      simp only [mem_oerase] at hx
      exact hfr.rg ▸ hx.1
    · intro x hx; exact hfr.rs ▸ hx
  · rw [hnew]; exact po.nodup
  · intro x hx
    rw [hnew] at hx
    rcases po.src x hx with h | ⟨p, hp1, hp2⟩
    · exact ⟨g, ⟨n, hn, h⟩, hgone3⟩
    · exact ⟨p, h12.sub.hasChild hp1, hp2⟩
  · intro s hs
    rcases c2 s hs with h | ⟨t, tn, ht, hst⟩
    · simp at h
    · exact ⟨t, tn, ht, hst⟩
  · intro s hs t tn ht
    simp only [pruneEmpty] at ht
    rw [prune_taskNodes] at ht
    exact c3 s hs t tn ht
  · intro x hx
    rw [hnew] at hx
    obtain ⟨m, hm⟩ := po.kept x hx
    exact ⟨m, hm⟩
  · intro k hk hno
    by_cases hkg : k = g
    · exact Or.inl hkg
    · right
      have hk1 : hasNode ({ q with groupNodes := aerase q.groupNodes g } : WQ) k := by
        obtain ⟨m, hm⟩ := hk
        exact ⟨m, by simp only; rw [alookup_aerase_ne _ _ _ (fun e => hkg e.symm)]; exact hm⟩
      have hk2 : hasNode (n.tasks.foldl (collectTask σ)
          (({ q with groupNodes := aerase q.groupNodes g } : WQ), ([] : List GVal), ([] : List Nat))).1 k :=
        collect_nodes_kept σ n.tasks _ k hk1
      rcases po.del k hk2 (fun ⟨m, hm⟩ => hno ⟨m, hm⟩) with h | ⟨p, hp, _⟩
      · exact ⟨g, n, hn, h⟩
      · exact ⟨p, h12.sub.hasChild hp⟩

end Gql.Async
