import Gql.Proofs.OverlapArgs
import Gql.Proofs.OverlapTypesLemmas
/-! Lemmas for C14: the local decision of `find_conflict` is the specification's local requirement. -/
namespace Gql.Exec
open Overlap

/-- the specification's view of a field-map entry -/
def Overlap.FieldEntry.inst (e : FieldEntry) : Spec.FieldInst := ⟨e.parent, e.node⟩

/-- well-formed arguments on a field node -/
def FieldNode.argsOK (n : FieldNode) : Prop :=
  argsWF n.args = true ∧ ∀ x, n.stream = some x → argsWF x = true

theorem defsConflict_eq (a b : Option Ty) : defsConflict a b = Spec.typesConflict a b := by
  cases a <;> cases b <;> simp [defsConflict, Spec.typesConflict, doTypesConflict_eq_shapeConflict]

/-- `find_conflict` on a pair of which at most one field has a sub-selection: no state change, and
a conflict is reported iff the pair violates the specification's local requirements, where
"checked under FieldsInSetCanMerge" (`full`) is "parents not known to be mutually exclusive". -/
theorem findConflict_local (env : Env) (hle : LinOrd env.le) (n : Nat) (parentExcl : Bool)
    (rn : String) (e1 e2 : FieldEntry) (σ : St)
    (h1 : e1.node.argsOK) (h2 : e2.node.argsOK)
    (hd1 : e1.defTy = Spec.fieldType env.s e1.parent e1.node.name)
    (hd2 : e2.defTy = Spec.fieldType env.s e2.parent e2.node.name)
    (hsub : (e1.node.hasSub && e2.node.hasSub) = false) :
    ∃ cs, findConflict env (n + 1) parentExcl rn e1 e2 σ = some (σ, cs) ∧
      (cs ≠ [] ↔ Spec.direct env.s ⟨e1.inst, e2.inst, !parentExcl⟩ = true) := by
  have hargs := sameArguments_eq_argsEquiv hle e1.node.args e2.node.args h1.1 h2.1
  have hstr := sameStreams_eq_streamsEquiv hle e1.node.stream e2.node.stream h1.2 h2.2
  have hty := defsConflict_eq e1.defTy e2.defTy
  rw [hd1, hd2] at hty
  simp only [findConflict, hsub, hargs, hstr, Bool.false_eq_true, if_false]
  simp only [Spec.direct, Spec.typesOf, Overlap.FieldEntry.inst, Spec.parentsOverlap, hty, hd1, hd2]
  generalize Spec.typesConflict (Spec.fieldType env.s e1.parent e1.node.name)
    (Spec.fieldType env.s e2.parent e2.node.name) = tc
  generalize Spec.argsEquiv e1.node.args e2.node.args = ae
  generalize Spec.streamsEquiv e1.node.stream e2.node.stream = se
  generalize env.s.isObject e1.parent = o1
  generalize env.s.isObject e2.parent = o2
  generalize hpe : (e1.parent != e2.parent) = pne
  have hpe' : (e1.parent == e2.parent) = !pne := by rw [← hpe]; simp [bne]
  rw [hpe']
  generalize hne : (e1.node.name != e2.node.name) = nne
  cases parentExcl <;> cases pne <;> cases o1 <;> cases o2 <;> cases nne <;> cases ae <;>
    cases se <;> cases tc <;> simp

end Gql.Exec
