import Gql.Proofs.StreamBridge
import Gql.Proofs.TypeTokens
/-!
The parser model on the tokens of a printed type: `parse_type_reference` rebuilds the tree.
-/
namespace Gql.Syntax
open Gql Gql.Text

theorem nonEof_of_map {toks : List Token} {ks : List (TokKind × Option (List Nat))}
    (h : toks.map Token.kv = ks) (hk : ∀ k ∈ ks, k.1 ≠ .eof) : NonEof toks := by
  intro t ht
  have : t.kv ∈ ks := by rw [← h]; exact List.mem_map_of_mem ht
  exact hk _ this

namespace TyP

/-- `T!!` cannot be written: the child of a non-null type is a named or a list type. -/
def isCore : Ty → Bool
  | .nonNull _ => false
  | _ => true

def shaped : Ty → Bool
  | .named _ => true
  | .list t => shaped t
  | .nonNull t => isCore t && shaped t

def depth : Ty → Nat
  | .named _ => 0
  | .list t => depth t + 1
  | .nonNull t => depth t

theorem kvs_kinds (t : Ty) : ∀ k ∈ t.kvs, k.1 ≠ .eof := by
  induction t with
  | named n => intro k hk; simp [Ty.kvs] at hk; subst hk; simp
  | list t ih =>
    intro k hk
    rw [show (Ty.list t).kvs = (.bracketL, none) :: (t.kvs ++ [(.bracketR, none)]) from rfl] at hk
    simp only [List.mem_cons, List.mem_append, List.not_mem_nil, or_false] at hk
    rcases hk with rfl | hk | rfl
    · simp
    · exact ih k hk
    · simp
  | nonNull t ih =>
    intro k hk
    rw [show (Ty.nonNull t).kvs = t.kvs ++ [(.bang, none)] from rfl] at hk
    simp only [List.mem_append, List.mem_cons, List.not_mem_nil, or_false] at hk
    rcases hk with hk | rfl
    · exact ih k hk
    · simp

theorem mkNode_named (v : Ast) : mkNode "NamedTypeNode" [("name", v)] = .node "NamedTypeNode" [("name", v)] := rfl
theorem mkNode_list (v : Ast) : mkNode "ListTypeNode" [("type", v)] = .node "ListTypeNode" [("type", v)] := rfl
theorem mkNode_nonNull (v : Ast) : mkNode "NonNullTypeNode" [("type", v)] = .node "NonNullTypeNode" [("type", v)] := rfl

/-- The final `!` check of `parse_type_reference`. -/
theorem bang_no (cfg : Cfg) (c : Nat) (r : Stream) (hr : r.Ready) (hb : headKind r ≠ .bang) (ty : Ast) :
    (do let bang ← expectOptionalToken cfg .bang
        if bang then pure (mkNode "NonNullTypeNode" [("type", ty)]) else pure ty : P Ast) (PSat c r) =
      .ok (ty, PSat c r) := by
  have : (PSat c r).cur.kind ≠ .bang := by rw [PSat_cur_kind c r hr]; exact hb
  simp only [bind_eq, expectOptionalToken_no cfg .bang _ this, pure_eq']
  rfl

theorem bang_yes (cfg : Cfg) (hm : cfg.maxTokens = none) (c : Nat) (tb : Token) (r : Stream)
    (hr : r.Ready) (hb : tb.kind = .bang) (ty : Ast) :
    ∃ c', (do let bang ← expectOptionalToken cfg .bang
              if bang then pure (mkNode "NonNullTypeNode" [("type", ty)]) else pure ty : P Ast)
        (PSat c (.cons tb r)) = .ok (.node "NonNullTypeNode" [("type", ty)], PSat c' r) := by
  obtain ⟨c', h⟩ := expectOptionalToken_yes cfg hm .bang tb r c hb (by rw [hb]; decide) hr
  refine ⟨c', ?_⟩
  simp only [PSat_cons, bind_eq, h, pure_eq', mkNode_nonNull]
  rfl

/-- What `typeRef` does on the tokens of a shaped type: for a named or list type both
continuations (no `!` follows / a `!` follows), for any shaped type the tree itself. -/
theorem typeRef_tokens (cfg : Cfg) (hm : cfg.maxTokens = none) (t : Ty) :
    t.wf = true → shaped t = true →
    (isCore t = true →
      (∀ (n : Nat) (toks : List Token) (r : Stream) (c : Nat), depth t < n →
        toks.map Token.kv = t.kvs → r.Ready → headKind r ≠ .bang →
        ∃ c', typeRef n cfg (PSat c (feed toks r)) = .ok (t.toAst, PSat c' r)) ∧
      (∀ (n : Nat) (toks : List Token) (tb : Token) (r : Stream) (c : Nat), depth t < n →
        toks.map Token.kv = t.kvs → tb.kind = .bang → r.Ready →
        ∃ c', typeRef n cfg (PSat c (feed toks (.cons tb r))) =
          .ok (.node "NonNullTypeNode" [("type", t.toAst)], PSat c' r))) ∧
    (∀ (n : Nat) (toks : List Token) (r : Stream) (c : Nat), depth t < n →
        toks.map Token.kv = t.kvs → r.Ready → (isCore t = true → headKind r ≠ .bang) →
        ∃ c', typeRef n cfg (PSat c (feed toks r)) = .ok (t.toAst, PSat c' r)) := by
  induction t with
  | named nm =>
    intro hwf _
    -- the common part: after the name, the state is `PSat c1 r`
    have hcommon : ∀ (n : Nat) (toks : List Token) (r : Stream) (c : Nat), 0 < n →
        toks.map Token.kv = (Ty.named nm).kvs → r.Ready →
        ∃ c1, ∀ (k : Ast → P Ast), (typeRef n cfg) (PSat c (feed toks r)) =
          (do let bang ← expectOptionalToken cfg .bang
              if bang then pure (mkNode "NonNullTypeNode" [("type", (Ty.named nm).toAst)])
              else pure (Ty.named nm).toAst : P Ast) (PSat c1 r) := by
      intro n toks r c hn hkv hr
      obtain ⟨n', rfl⟩ : ∃ n', n = n' + 1 := ⟨n - 1, by omega⟩
      rw [show (Ty.named nm).kvs = [(.name, some nm)] from rfl] at hkv
      simp only [List.map_eq_cons_iff, List.map_eq_nil_iff] at hkv
      obtain ⟨t0, ts, rfl, hk0, rfl⟩ := hkv
      have hkind : t0.kind = .name := by have := congrArg Prod.fst hk0; exact this
      have hval : t0.value = some nm := by have := congrArg Prod.snd hk0; exact this
      obtain ⟨c1, hname⟩ := parseName_ok cfg hm t0 nm r c hkind hval hr
      refine ⟨c1, fun _ => ?_⟩
      have hno : expectOptionalToken cfg .bracketL { cur := t0, rest := r, count := c } =
          .ok (false, { cur := t0, rest := r, count := c }) :=
        expectOptionalToken_no cfg .bracketL _ (by simp [hkind])
      simp only [typeRef, feed, PSat_cons, bind_eq, hno, Bool.false_eq_true, ↓reduceIte, parseNamedType,
        hname, pure_eq', mkNode_named, Ty.toAst]
    refine ⟨fun _ => ⟨?_, ?_⟩, ?_⟩
    · intro n toks r c hn hkv hr hb
      obtain ⟨c1, h⟩ := hcommon n toks r c (by simp [depth] at hn; omega) hkv hr
      exact ⟨c1, by rw [h (fun a => pure a), bang_no cfg c1 r hr hb]⟩
    · intro n toks tb r c hn hkv hb hr
      obtain ⟨c1, h⟩ := hcommon n toks (.cons tb r) c (by simp [depth] at hn; omega) hkv
        (by simp [Stream.Ready, hb])
      obtain ⟨c2, h2⟩ := bang_yes cfg hm c1 tb r hr hb (Ty.named nm).toAst
      exact ⟨c2, by rw [h (fun a => pure a), h2]⟩
    · intro n toks r c hn hkv hr hb
      obtain ⟨c1, h⟩ := hcommon n toks r c (by simp [depth] at hn; omega) hkv hr
      exact ⟨c1, by rw [h (fun a => pure a), bang_no cfg c1 r hr (hb rfl)]⟩
  | list inner ih =>
    intro hwf hsh
    obtain ⟨_, ihR⟩ := ih hwf hsh
    have hcommon : ∀ (n : Nat) (toks : List Token) (r : Stream) (c : Nat), depth (Ty.list inner) < n →
        toks.map Token.kv = (Ty.list inner).kvs → r.Ready →
        ∃ c1, (typeRef n cfg) (PSat c (feed toks r)) =
          (do let bang ← expectOptionalToken cfg .bang
              if bang then pure (mkNode "NonNullTypeNode" [("type", (Ty.list inner).toAst)])
              else pure (Ty.list inner).toAst : P Ast) (PSat c1 r) := by
      intro n toks r c hn hkv hr
      obtain ⟨n', rfl⟩ : ∃ n', n = n' + 1 := ⟨n - 1, by omega⟩
      rw [show (Ty.list inner).kvs = (.bracketL, none) :: (inner.kvs ++ [(.bracketR, none)]) from rfl,
        List.map_eq_cons_iff] at hkv
      obtain ⟨tL, ts, rfl, hkL, hkv⟩ := hkv
      rw [List.map_eq_append_iff] at hkv
      obtain ⟨tsI, tsR, rfl, hkI, hkR⟩ := hkv
      simp only [List.map_eq_cons_iff, List.map_eq_nil_iff] at hkR
      obtain ⟨tR, tsE, rfl, hkR, rfl⟩ := hkR
      have hLk : tL.kind = .bracketL := congrArg Prod.fst hkL
      have hRk : tR.kind = .bracketR := congrArg Prod.fst hkR
      have hne : NonEof (tsI ++ [tR]) := by
        intro t ht
        rcases List.mem_append.mp ht with h | h
        · exact nonEof_of_map hkI (kvs_kinds inner) t h
        · simp at h; subst h; rw [hRk]; decide
      have hready1 : (feed (tsI ++ [tR]) r).Ready := feed_ready _ _ hne hr
      obtain ⟨c1, h1⟩ := expectOptionalToken_yes cfg hm .bracketL tL (feed (tsI ++ [tR]) r) c hLk
        (by rw [hLk]; decide) hready1
      have hready2 : (Stream.cons tR r).Ready := by simp [Stream.Ready, hRk]
      obtain ⟨c2, h2⟩ := ihR n' tsI (.cons tR r) c1 (by simp [depth] at hn; omega) hkI hready2
        (fun _ => by simp [headKind, hRk])
      obtain ⟨c3, h3⟩ := expectToken_ok cfg hm .bracketR tR r c2 hRk (by rw [hRk]; decide) hr
      refine ⟨c3, ?_⟩
      rw [feed_append] at h1
      simp only [feed] at h1 h2 ⊢
      rw [feed_append]
      simp only [feed]
      simp only [typeRef, PSat_cons, bind_eq, h1, ↓reduceIte, h2, h3, pure_eq', mkNode_list, Ty.toAst]
    refine ⟨fun _ => ⟨?_, ?_⟩, ?_⟩
    · intro n toks r c hn hkv hr hb
      obtain ⟨c1, h⟩ := hcommon n toks r c hn hkv hr
      exact ⟨c1, by rw [h, bang_no cfg c1 r hr hb]⟩
    · intro n toks tb r c hn hkv hb hr
      obtain ⟨c1, h⟩ := hcommon n toks (.cons tb r) c hn hkv (by simp [Stream.Ready, hb])
      obtain ⟨c2, h2⟩ := bang_yes cfg hm c1 tb r hr hb (Ty.list inner).toAst
      exact ⟨c2, by rw [h, h2]⟩
    · intro n toks r c hn hkv hr hb
      obtain ⟨c1, h⟩ := hcommon n toks r c hn hkv hr
      exact ⟨c1, by rw [h, bang_no cfg c1 r hr (hb rfl)]⟩
  | nonNull inner ih =>
    intro hwf hsh
    simp only [shaped, Bool.and_eq_true] at hsh
    obtain ⟨hcore, _⟩ := ih hwf hsh.2
    refine ⟨fun h => by simp [isCore] at h, ?_⟩
    intro n toks r c hn hkv hr _
    rw [show (Ty.nonNull inner).kvs = inner.kvs ++ [(.bang, none)] from rfl, List.map_eq_append_iff] at hkv
    obtain ⟨tsI, tsB, rfl, hkI, hkB⟩ := hkv
    simp only [List.map_eq_cons_iff, List.map_eq_nil_iff] at hkB
    obtain ⟨tb, tsE, rfl, hkB, rfl⟩ := hkB
    have hb : tb.kind = .bang := congrArg Prod.fst hkB
    obtain ⟨c', h⟩ := (hcore hsh.1).2 n tsI tb r c (by simpa [depth] using hn) hkI hb hr
    refine ⟨c', ?_⟩
    rw [feed_append]
    simpa [feed, Ty.toAst] using h

end TyP
end Gql.Syntax

namespace Gql.Syntax
open Gql Gql.Text

theorem toStream_feed (tks : List Token) (e : Token) (h : NonEof tks) (he : e.kind = .eof) :
    toStream (tks ++ [e]) = feed tks (.eof e.start e.line e.column) := by
  induction tks with
  | nil => simp [toStream, feed, he]
  | cons t ts ih =>
    have ht : t.kind ≠ .eof := h t (by simp)
    simp only [List.cons_append, toStream, ht, ↓reduceIte, feed]
    rw [ih (fun x hx => h x (by simp [hx]))]

theorem feed_length (tks : List Token) (a l c : Nat) : (feed tks (.eof a l c)).length = tks.length := by
  induction tks with
  | nil => rfl
  | cons t ts ih => simp [feed, Stream.length, ih]

/-- Running an entry point's `expect SOF; body; expect EOF` frame around a body parser that
consumes exactly the tokens before `<EOF>`. -/
theorem entry_frame (cfg : Cfg) (hm : cfg.maxTokens = none) (tks : List Token) (a l cc : Nat)
    (hne : NonEof tks) (body : P Ast) (res : Ast)
    (hbody : ∀ c, ∃ c', body (PSat c (feed tks (.eof a l cc))) = .ok (res, PSat c' (.eof a l cc))) :
    ∃ c'', (do let _ ← expectToken cfg .sof
               let v ← body
               let _ ← expectToken cfg .eof
               pure v : P Ast) (initState (feed tks (.eof a l cc))) = .ok (res, PSat c'' (.eof a l cc)) := by
  obtain ⟨c1, hadv⟩ := advance_PSat cfg hm sofToken (feed tks (.eof a l cc)) 0 (by decide)
    (feed_ready tks _ hne trivial)
  obtain ⟨c2, hb⟩ := hbody c1
  have hsof : expectToken cfg .sof (initState (feed tks (.eof a l cc))) =
      .ok (sofToken, PSat c1 (feed tks (.eof a l cc))) := by
    simp only [expectToken, bind_eq, P.cur, initState, sofToken, ↓reduceIte, pure_eq']
    simp only [sofToken] at hadv
    rw [hadv]
  have heof : expectToken cfg .eof (PSat c2 (.eof a l cc)) = .ok (eofToken a l cc, PSat c2 (.eof a l cc)) := by
    simp [expectToken, bind_eq, P.cur, PSat, eofToken, advanceLexer, pure_eq']
  exact ⟨c2, by simp only [bind_eq, hsof, hb, heof, pure_eq']⟩

theorem depth_le_kvs (t : Ty) : TyP.depth t < t.kvs.length + 1 := by
  induction t with
  | named n => simp [TyP.depth, Ty.kvs]
  | list t ih => simp [TyP.depth, Ty.kvs]; omega
  | nonNull t ih => simp [TyP.depth, Ty.kvs]; omega

/-- **Round trip for types**: parsing the printed text of a well-formed, parser-shaped type with the
parser model (`parse_type`, no `max_tokens`) gives the tree back. -/
theorem parseSource_type_print (cfg : Cfg) (hm : cfg.maxTokens = none) (t : Ty) (hwf : t.wf = true)
    (hsh : TyP.shaped t = true) : parseSource .type cfg t.print = .ok t.toAst := by
  obtain ⟨toks, hlex, hkv⟩ := lexAll_ty t hwf
  rw [List.map_eq_append_iff] at hkv
  obtain ⟨tks, te, rfl, hk1, hk2⟩ := hkv
  simp only [List.map_eq_cons_iff, List.map_eq_nil_iff] at hk2
  obtain ⟨e, es, rfl, hke, rfl⟩ := hk2
  have hek : e.kind = .eof := congrArg Prod.fst hke
  have hne : NonEof tks := nonEof_of_map hk1 (TyP.kvs_kinds t)
  have hstream : streamOf t.print = feed tks (.eof e.start e.line e.column) := by
    rw [streamOf_of_lexAll _ _ hlex, toStream_feed tks e hne hek]
  have hlen : tks.length = t.kvs.length := by rw [← hk1]; simp
  obtain ⟨_, hR⟩ := TyP.typeRef_tokens cfg hm t hwf hsh
  have hbody : ∀ c, ∃ c', typeRef (parseFuel (feed tks (.eof e.start e.line e.column))) cfg
      (PSat c (feed tks (.eof e.start e.line e.column))) = .ok (t.toAst, PSat c' (.eof e.start e.line e.column)) := by
    intro c
    have hd : TyP.depth t < parseFuel (feed tks (.eof e.start e.line e.column)) := by
      have := depth_le_kvs t
      simp only [parseFuel, feed_length]
      omega
    exact hR _ tks (.eof e.start e.line e.column) c hd hk1 (by simp [Stream.Ready])
      (fun _ => by simp [headKind])
  obtain ⟨c'', h⟩ := entry_frame cfg hm tks e.start e.line e.column hne _ t.toAst hbody
  unfold parseSource parseStream parseStreamWith
  simp only [show (Entry.type = Entry.schemaCoordinate) = False by simp, ↓reduceIte, hstream, runEntry]
  rw [h]

end Gql.Syntax
