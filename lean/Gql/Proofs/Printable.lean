import Gql.Proofs.BlockRoundtrip
/-!
`is_printable_as_block_string(v)` implies that `v` is block-representable: whatever the schema
printer decides to print as a block string can be denoted by a block string literal (and so, by
`block_roundtrip`, reads back unchanged).
-/
namespace Gql.Text

def blankL (l : List Nat) : Bool := l.all isBlankCh

theorem lws_eq_length_iff (l : List Nat) : leadingWhiteSpace l = l.length ↔ blankL l = true := by
  induction l with
  | nil => simp [leadingWhiteSpace, blankL]
  | cons c r ih =>
    by_cases hc : c = 32 ∨ c = 9
    · have hb : isBlankCh c = true := by rcases hc with h | h <;> subst h <;> decide
      simp only [leadingWhiteSpace, hc, ↓reduceIte, List.length_cons, blankL, List.all_cons, hb, Bool.true_and]
      simp only [blankL] at ih
      rw [← ih]; omega
    · have hb : isBlankCh c = false := by
        simp only [not_or] at hc
        simp [isBlankCh, hc.1, hc.2]
      simp [leadingWhiteSpace, hc, blankL, hb]

/-- What the loop state says about the lines read so far (`done`, then the current line `cur`). -/
structure PInv (st : PrintableSt) (done : List (List Nat)) (cur : List Nat) : Prop where
  e : st.isEmptyLine = blankL cur
  i : st.hasIndent = startsBlank cur
  ci : st.hasCommonIndent = (done ++ [cur]).all (fun l => blankL l || startsBlank l)
  s : st.seenNonEmptyLine = !done.isEmpty
  hd : ∀ l, done.head? = some l → blankL l = false

theorem blankL_snoc (cur : List Nat) (c : Nat) : blankL (cur ++ [c]) = (blankL cur && isBlankCh c) := by
  simp [blankL, List.all_append]

theorem startsBlank_snoc (cur : List Nat) (c : Nat) :
    startsBlank (cur ++ [c]) = if cur = [] then isBlankCh c else startsBlank cur := by
  cases cur <;> simp [startsBlank]

theorem blank_startsBlank {cur : List Nat} (h : blankL cur = true) (hne : cur ≠ []) : startsBlank cur = true := by
  cases cur with
  | nil => exact absurd rfl hne
  | cons a r => simp [blankL] at h; simp [startsBlank, h.1]

theorem loop_inv : ∀ (r : List Nat) (st st' : PrintableSt) (done : List (List Nat)) (cur : List Nat),
    printableLoop r st = some st' → PInv st done cur →
    ∃ done' cur', done ++ linesFrom cur r = done' ++ [cur'] ∧ PInv st' done' cur' ∧ (∀ c ∈ r, c ≠ 13) := by
  intro r
  induction r with
  | nil =>
    intro st st' done cur h inv
    simp [printableLoop] at h
    subst h
    exact ⟨done, cur, by simp [linesFrom], inv, by simp⟩
  | cons c r ih =>
    intro st st' done cur h inv
    rw [printableLoop] at h
    by_cases h10 : c = 10
    · subst h10
      simp only [↓reduceIte] at h
      split at h
      · cases h
      · rename_i hacc
        obtain ⟨done', cur', hl, hinv, h13⟩ := ih _ st' (done ++ [cur]) [] h (by
          constructor
          · simp [blankL]
          · simp [startsBlank]
          · simp only
            rw [inv.ci]
            simp [List.all_append, blankL]
          · simp
          · intro l hl
            cases done with
            | nil =>
              simp at hl; subst hl
              have hs := inv.s
              have he := inv.e
              simp at hs
              simp only [hs, Bool.not_false, Bool.and_true, Bool.not_eq_true] at hacc
              rw [← he]; exact hacc
            | cons d ds => simp at hl; exact inv.hd l (by simp [hl]))
        refine ⟨done', cur', ?_, hinv, ?_⟩
        · simp only [linesFrom, ↓reduceIte]
          simpa [List.append_assoc] using hl
        · intro x hx
          rcases List.mem_cons.mp hx with rfl | hx
          · decide
          · exact h13 x hx
    · simp only [h10, ↓reduceIte] at h
      by_cases hb : c = 32 ∨ c = 9
      · simp only [hb, ↓reduceIte] at h
        have hbc : isBlankCh c = true := by rcases hb with h' | h' <;> subst h' <;> decide
        obtain ⟨done', cur', hl, hinv, h13⟩ := ih _ st' done (cur ++ [c]) h (by
          constructor
          · simp [blankL_snoc, hbc, inv.e]
          · simp only [startsBlank_snoc, hbc]
            rw [inv.i, inv.e]
            by_cases hcur : cur = []
            · subst hcur; simp [startsBlank, blankL]
            · simp only [hcur, ↓reduceIte]
              cases hbl : blankL cur with
              | false => simp
              | true => simp [blank_startsBlank hbl hcur]
          · simp only
            rw [inv.ci]
            simp only [List.all_append, List.all_cons, List.all_nil, Bool.and_true, blankL_snoc, hbc,
              startsBlank_snoc]
            congr 1
            by_cases hcur : cur = []
            · subst hcur; simp [blankL]
            · simp [hcur]
          · exact inv.s
          · exact inv.hd)
        refine ⟨done', cur', ?_, hinv, ?_⟩
        · simp only [linesFrom, h10, ↓reduceIte]; exact hl
        · intro x hx
          rcases List.mem_cons.mp hx with rfl | hx
          · rcases hb with h' | h' <;> omega
          · exact h13 x hx
      · simp only [hb, ↓reduceIte] at h
        by_cases h15 : c ≤ 15
        · simp [h15] at h
        · simp only [h15, ↓reduceIte] at h
          have hbc : isBlankCh c = false := by
            simp only [not_or] at hb
            simp [isBlankCh, hb.1, hb.2]
          obtain ⟨done', cur', hl, hinv, h13⟩ := ih _ st' done (cur ++ [c]) h (by
            constructor
            · simp [blankL_snoc, hbc]
            · simp only [startsBlank_snoc, hbc]
              rw [inv.i]
              by_cases hcur : cur = []
              · subst hcur; simp [startsBlank]
              · simp [hcur]
            · simp only
              rw [inv.ci, inv.i]
              simp only [List.all_append, List.all_cons, List.all_nil, Bool.and_true, blankL_snoc, hbc,
                Bool.and_false, Bool.false_or, startsBlank_snoc]
              by_cases hcur : cur = []
              · subst hcur; simp [startsBlank]
              · simp only [hcur, ↓reduceIte]
                cases startsBlank cur <;> simp
            · exact inv.s
            · exact inv.hd)
          refine ⟨done', cur', ?_, hinv, ?_⟩
          · simp only [linesFrom, h10, ↓reduceIte]; exact hl
          · intro x hx
            rcases List.mem_cons.mp hx with rfl | hx
            · omega
            · exact h13 x hx

end Gql.Text

namespace Gql.Text

theorem isBlankLine_eq (l : List Nat) : isBlankLine l = blankL l := by
  unfold isBlankLine
  cases hb : blankL l with
  | true => simp [(lws_eq_length_iff l).mpr hb]
  | false =>
    have : ¬ leadingWhiteSpace l = l.length := fun h => by
      rw [(lws_eq_length_iff l).mp h] at hb; cases hb
    simp [this]

theorem startsUnindented_of {l : List Nat} (h1 : blankL l = false) (h2 : startsBlank l = false) :
    startsUnindented l = true := by
  cases l with
  | nil => simp [blankL] at h1
  | cons c r => simp [startsBlank] at h2; simp [startsUnindented, isBlankCh] at h2 ⊢; exact h2

/-- `is_printable_as_block_string(v)` ⟹ `BlockRepresentable v`. -/
theorem printable_representable (v : List Nat) (h : isPrintableAsBlockString v = true) :
    BlockRepresentable v := by
  unfold BlockRepresentable blockRepresentable
  cases v with
  | nil => rfl
  | cons a r =>
    unfold isPrintableAsBlockString at h
    simp only at h
    cases hl : printableLoop (a :: r) {} with
    | none => simp [hl] at h
    | some st' =>
      simp only [hl] at h
      have hinv0 : PInv {} [] [] := by
        constructor <;> simp [blankL, startsBlank]
      obtain ⟨done', cur', hlines, hinv, h13⟩ := loop_inv (a :: r) {} st' [] [] hl hinv0
      simp only [List.nil_append] at hlines
      rw [linesFrom_nil] at hlines
      have he : st'.isEmptyLine = false := by
        cases hx : st'.isEmptyLine with
        | false => rfl
        | true => simp [hx] at h
      have hcs : (st'.hasCommonIndent && st'.seenNonEmptyLine) = false := by
        cases hx : (st'.hasCommonIndent && st'.seenNonEmptyLine) with
        | false => rfl
        | true => simp [he, hx] at h
      have hc13 : (a :: r).contains 13 = false := by
        cases hcc : (a :: r).contains 13 with
        | false => rfl
        | true =>
          rw [List.contains_iff_mem] at hcc
          exact absurd rfl (h13 13 hcc)
      have hcurNB : blankL cur' = false := by rw [← hinv.e]; exact he
      simp only [beq_iff_eq, reduceCtorEq, Bool.false_or, hc13, Bool.not_false, Bool.true_and]
      rw [hlines]
      unfold blockRepresentableLines
      have hlast : (done' ++ [cur']).getLast? = some cur' := by simp
      rw [hlast]
      cases hd : done' with
      | nil =>
        simp [isBlankLine_eq, hcurNB]
      | cons d ds =>
        have hdNB : blankL d = false := hinv.hd d (by simp [hd])
        have hs : st'.seenNonEmptyLine = true := by rw [hinv.s, hd]; rfl
        have hci : st'.hasCommonIndent = false := by
          cases hx : st'.hasCommonIndent with
          | false => rfl
          | true => simp [hx, hs] at hcs
        have hex : ∃ l ∈ done' ++ [cur'], (blankL l || startsBlank l) = false := by
          have := hinv.ci
          rw [hci] at this
          have h' : ¬ (done' ++ [cur']).all (fun l => blankL l || startsBlank l) = true := by
            rw [← this]; simp
          rw [List.all_eq_true] at h'
          false_or_by_contra
          rename_i hcon
          apply h'
          intro x hx
          cases hv : (blankL x || startsBlank x) with
          | true => rfl
          | false => exact absurd ⟨x, hx, hv⟩ hcon
        obtain ⟨l, hlmem, hlv⟩ := hex
        simp only [Bool.or_eq_false_iff] at hlv
        have hany : (done' ++ [cur']).any startsUnindented = true := by
          rw [List.any_eq_true]
          exact ⟨l, hlmem, startsUnindented_of hlv.1 hlv.2⟩
        rw [hd] at hany
        have hany' := hany
        simp only [List.cons_append, List.any_cons, List.any_append, List.any_nil, Bool.or_false,
          Bool.or_eq_true, List.any_eq_true] at hany'
        simp [isBlankLine_eq, hdNB, hcurNB]
        exact hany'

end Gql.Text
