import Gql.Proofs.BlockPrinter
/-!
C08-2: `print_block_string` followed by the lexer's `read_block_string` is the identity on
block-representable values of Unicode scalar values, for every width and both settings of
`minimize`.
-/
namespace Gql.Text

theorem pbsBefore_cases (f : PbsFlags) : pbsBefore f = [] ∨ pbsBefore f = [10] := by
  unfold pbsBefore; split <;> simp

theorem pbsAfter_cases (f : PbsFlags) : pbsAfter f = [] ∨ pbsAfter f = [10] := by
  unfold pbsAfter; split <;> simp

theorem startsUnindented_iff (x : List Nat) : startsUnindented x = true ↔ Unindented x := by
  cases x with
  | nil => simp [startsUnindented, Unindented, leadingWhiteSpace]
  | cons c r =>
    by_cases hc : c = 32 ∨ c = 9
    · have : leadingWhiteSpace (c :: r) = leadingWhiteSpace r + 1 := by simp [leadingWhiteSpace, hc]
      rcases hc with h | h <;> subst h <;> simp [startsUnindented, Unindented, this]
    · have : leadingWhiteSpace (c :: r) = 0 := by simp [leadingWhiteSpace, hc]
      simp only [not_or] at hc
      simp [startsUnindented, Unindented, this, hc.1, hc.2]

theorem emptyOrIndented_false_iff (x : List Nat) : emptyOrIndented x = false ↔ startsUnindented x = true := by
  cases x with
  | nil => simp [emptyOrIndented, startsUnindented]
  | cons c r => simp [emptyOrIndented, startsUnindented, isBlankCh]

/-- The value's open end forces `after = "\n"`. -/
theorem pbsAfter_of_endsOpen (w : Nat) (v : List Nat) (m : Bool) (h : endsOpen v = true) :
    pbsAfter (pbsFlags w v m) = [10] := by
  have hf : (pbsFlags w v m).forceTrailingNewLine = true := by
    rcases endsOpen_forces v v.length (Nat.le_refl _) h with h92 | ⟨h34, hns⟩
    · have : endsWith v [92] = true := (endsWith_single v 92).mpr h92
      simp [pbsFlags, this]
    · have h1 : endsWith v [34] = true := (endsWith_single v 34).mpr h34
      have h2 : endsWith (escapeTQ v) [92, 34, 34, 34] = false := by
        unfold endsWith
        cases hb : List.isSuffixOf [92, 34, 34, 34] (escapeTQ v) with
        | false => rfl
        | true => exact absurd (List.isSuffixOf_iff_suffix.mp hb) hns
      simp [pbsFlags, h1, h2]
  simp [pbsAfter, hf]

end Gql.Text

namespace Gql.Text

theorem exists_getElem?_of_mem {α : Type} {x : α} {l : List α} (h : x ∈ l) : ∃ k : Nat, l[k]? = some x := by
  obtain ⟨k, hk, rfl⟩ := List.getElem_of_mem h
  exact ⟨k, by simp [hk]⟩

/-- What a non-empty block-representable value looks like, line by line. -/
theorem representable_lines (v : List Nat) (hne : v ≠ []) (hrep : blockRepresentable v = true) :
    (∀ c ∈ v, c ≠ 13) ∧
    ∃ l0 M xs lN, splitLF v = l0 :: M ∧ splitLF v = xs ++ [lN] ∧
      leadingWhiteSpace l0 ≠ l0.length ∧ leadingWhiteSpace lN ≠ lN.length ∧
      (M = [] ∨ ∃ (k : Nat) (x : List Nat), (splitLF v)[k]? = some x ∧ Unindented x) := by
  unfold blockRepresentable at hrep
  simp only [Bool.or_eq_true, beq_iff_eq, hne, false_or, Bool.and_eq_true, Bool.not_eq_true'] at hrep
  obtain ⟨h13, hl⟩ := hrep
  refine ⟨?_, ?_⟩
  · intro c hc h; subst h
    have : v.contains 13 = true := by simp [hc]
    rw [this] at h13; cases h13
  · obtain ⟨l0, M, hL⟩ := List.exists_cons_of_ne_nil (splitLF_ne_nil v)
    unfold blockRepresentableLines at hl
    have hlast : ∃ lN, (splitLF v).getLast? = some lN := by
      cases h : (splitLF v).getLast? with
      | none => simp [List.getLast?_eq_none_iff, splitLF_ne_nil] at h
      | some x => exact ⟨x, rfl⟩
    obtain ⟨lN, hN⟩ := hlast
    obtain ⟨xs, hxs⟩ := List.getLast?_eq_some_iff.mp hN
    simp only [hL, List.head?_cons] at hl
    rw [← hL, hN] at hl
    simp only [Bool.and_eq_true, Bool.not_eq_true', Bool.or_eq_true, beq_iff_eq, isBlankLine,
      beq_eq_false_iff_ne, ne_eq] at hl
    obtain ⟨⟨h0, hNn⟩, h3⟩ := hl
    refine ⟨l0, M, xs, lN, hL, hxs, h0, hNn, ?_⟩
    rcases h3 with h3 | h3
    · left
      rw [hL] at h3
      simp at h3
      exact h3
    · right
      rw [List.any_eq_true] at h3
      obtain ⟨x, hx, hxu⟩ := h3
      obtain ⟨k, hk⟩ := exists_getElem?_of_mem hx
      exact ⟨k, x, hk, (startsUnindented_iff x).mp hxu⟩

/-- The printer's choice of `before` is compatible with the dedentation of the lexer. -/
theorem before_cond (w : Nat) (v : List Nat) (m : Bool) (h13 : ∀ c ∈ v, c ≠ 13)
    (l0 : List Nat) (M : List (List Nat)) (hL : splitLF v = l0 :: M)
    (h0 : leadingWhiteSpace l0 ≠ l0.length)
    (hU : M = [] ∨ ∃ (k : Nat) (x : List Nat), (splitLF v)[k]? = some x ∧ Unindented x) :
    (pbsBefore (pbsFlags w v m) = [] ∧
        (M = [] ∨ ∃ (k : Nat) (x : List Nat), M[k]? = some x ∧ Unindented x)) ∨
    (pbsBefore (pbsFlags w v m) = [10] ∧
        ∃ (k : Nat) (x : List Nat), (splitLF v)[k]? = some x ∧ Unindented x) := by
  have hlines : reSplitNL (escapeTQ v) = escapeTQ l0 :: M.map escapeTQ := by
    rw [reSplitNL_escapeTQ v v.length (Nat.le_refl _) h13, hL]; rfl
  have hall : (M.map escapeTQ).all emptyOrIndented = M.all emptyOrIndented := by
    rw [List.all_map]
    congr 1
    funext x
    exact emptyOrIndented_escapeTQ x
  have hFL : (pbsFlags w v m).forceLeadingNewLine = (decide (M.length + 1 > 1) && M.all emptyOrIndented) := by
    simp [pbsFlags, hlines, hall]
  have hSK : (pbsFlags w v m).skipLeadingNewLine =
      (decide (M.length + 1 = 1) && startsBlank v) := by
    cases M <;> simp [pbsFlags, hlines]
  rcases pbsBefore_cases (pbsFlags w v m) with hb | hb
  · left
    refine ⟨hb, ?_⟩
    have : (pbsFlags w v m).forceLeadingNewLine = false := by
      unfold pbsBefore at hb
      split at hb
      · simp at hb
      · rename_i hc
        simp only [Bool.or_eq_true, not_or, Bool.not_eq_true] at hc
        exact hc.2
    rw [hFL] at this
    by_cases hM : M = []
    · exact Or.inl hM
    · right
      have hlen : M.length + 1 > 1 := by
        have : M.length ≠ 0 := fun h => hM (List.eq_nil_of_length_eq_zero h)
        omega
      simp only [hlen, decide_true, Bool.true_and] at this
      have : ∃ x ∈ M, emptyOrIndented x = false := by
        false_or_by_contra
        rename_i hcon
        have : M.all emptyOrIndented = true := by
          rw [List.all_eq_true]
          intro x hx
          cases he : emptyOrIndented x with
          | true => rfl
          | false => exact absurd ⟨x, hx, he⟩ hcon
        simp_all
      obtain ⟨x, hx, he⟩ := this
      obtain ⟨k, hk⟩ := exists_getElem?_of_mem hx
      exact ⟨k, x, hk, (startsUnindented_iff x).mp ((emptyOrIndented_false_iff x).mp he)⟩
  · right
    refine ⟨hb, ?_⟩
    rcases hU with hM | hU
    · -- single line: the leading new line was not skipped, so the value starts unindented
      subst hM
      have hFLf : (pbsFlags w v m).forceLeadingNewLine = false := by rw [hFL]; simp
      have hskip : (pbsFlags w v m).skipLeadingNewLine = false := by
        unfold pbsBefore at hb
        split at hb
        · rename_i hc
          simp only [hFLf, Bool.or_false, Bool.and_eq_true, Bool.not_eq_true'] at hc
          exact hc.2
        · simp at hb
      have hv : l0 = v := by
        have := joinLines_linesFrom v []
        rw [linesFrom_nil, hL] at this
        simpa [joinLines] using this
      subst hv
      rw [hSK] at hskip
      simp only [List.length_nil, Nat.zero_add, decide_true, Bool.true_and] at hskip
      refine ⟨0, l0, by rw [hL]; rfl, (startsUnindented_iff l0).mp ?_⟩
      cases l0 with
      | nil => simp [leadingWhiteSpace] at h0
      | cons c r =>
        simp [startsUnindented, isBlankCh, startsBlank] at hskip ⊢
        exact hskip
    · exact hU

end Gql.Text

namespace Gql.Text

/-- The lexer reads the printed literal (followed by anything) as one block string token whose
raw lines are: an empty line if `before` is a line feed, the lines of `v`, an empty line if
`after` is a line feed. -/
theorem read_printed_lines (w : Nat) (v : List Nat) (m : Bool) (rest : List Nat) (st : LexState)
    (start ls : Nat) (hgood : GoodVal v) :
    tokOf (readBlockStringLoop (printBlockStringW w v m ++ rest) st start 3 3 ls [] []) =
      .ok (blockTok st start (printBlockStringW w v m).length
        (afterLines (pbsBefore (pbsFlags w v m)) ++ linesFrom [] v ++ afterLines (pbsAfter (pbsFlags w v m)))) := by
  have hopen : endsOpen v = true → pbsAfter (pbsFlags w v m) = [10] := pbsAfter_of_endsOpen w v m
  generalize hA : pbsAfter (pbsFlags w v m) = after at hopen
  have hafter : after = [] ∨ after = [10] := hA ▸ pbsAfter_cases _
  unfold printBlockStringW
  simp only [hA]
  rcases pbsBefore_cases (pbsFlags w v m) with hb | hb <;> rw [hb]
  · have := scan_value st start rest after hafter v.length v (Nat.le_refl _) [34, 34, 34] 3 ls [] []
      (by simp) hgood hopen
    simp only [List.length_cons, List.length_nil, Nat.zero_add, slice_self, List.append_nil,
      List.nil_append] at this
    simp only [List.append_nil, List.append_assoc, List.cons_append, List.nil_append, Nat.zero_add,
      afterLines, List.map_nil, List.length_append, List.length_cons, List.length_nil]
    simp only [List.cons_append, List.nil_append] at this
    rw [this]
    congr 2
    simp [afterLines]
    omega
  · have := scan_value st start rest after hafter v.length v (Nat.le_refl _) [34, 34, 34, 10] 4 4 []
      [[]] (by simp) hgood hopen
    simp only [List.length_cons, List.length_nil, Nat.zero_add, slice_self, List.append_nil,
      List.nil_append] at this
    simp only [List.append_assoc, List.cons_append, List.nil_append, Nat.zero_add,
      afterLines, List.map_nil, List.map_cons, List.length_append, List.length_cons, List.length_nil]
    simp only [List.cons_append, List.nil_append] at this
    rw [blk_lf _ st start 3 3 ls [] [] (by simp)]
    simp only [slice_self, List.append_nil, List.nil_append]
    rw [this]
    congr 2
    simp [afterLines]
    omega

/-- C08-2 (any width, both settings of `minimize`). -/
theorem printBlockStringW_roundtrip_loop (w : Nat) (v : List Nat) (m : Bool) (rest : List Nat) (st : LexState)
    (start ls : Nat) (hs : ∀ c ∈ v, isScalar c = true) (hrep : BlockRepresentable v) :
    tokOf (readBlockStringLoop (printBlockStringW w v m ++ rest) st start 3 3 ls [] []) =
      .ok (mkToken st .blockString start (printBlockStringW w v m).length (some v)) := by
  by_cases hne : v = []
  · subst hne
    have hgood : GoodVal [] := by intro c hc; simp at hc
    rw [read_printed_lines w [] m rest st start ls hgood]
    have hB : pbsBefore (pbsFlags w [] m) = [] := by simp [pbsFlags, pbsBefore, escapeTQ, reSplitNL, endsWith, startsBlank]
    have hA : pbsAfter (pbsFlags w [] m) = [] := by simp [pbsFlags, pbsAfter, escapeTQ, reSplitNL, endsWith]
    rw [hB, hA]
    have hd : joinLines (dedentBlockStringLines [[]]) = [] := by decide
    simp [blockTok, afterLines, linesFrom, hd]
  · obtain ⟨h13, l0, M, xs, lN, hL, hxs, h0, hN, hU⟩ := representable_lines v hne hrep
    have hgood : GoodVal v := fun c hc => ⟨hs c hc, h13 c hc⟩
    rw [read_printed_lines w v m rest st start ls hgood, linesFrom_nil]
    have hA := pbsAfter_cases (pbsFlags w v m)
    have hAl : afterLines (pbsAfter (pbsFlags w v m)) = [] ∨ afterLines (pbsAfter (pbsFlags w v m)) = [[]] := by
      rcases hA with h | h <;> rw [h] <;> simp [afterLines]
    have hBl : afterLines (pbsBefore (pbsFlags w v m)) = [] ∨ afterLines (pbsBefore (pbsFlags w v m)) = [[]] := by
      rcases pbsBefore_cases (pbsFlags w v m) with h | h <;> rw [h] <;> simp [afterLines]
    have hci := before_cond w v m h13 l0 M hL h0 hU
    have hd : dedentBlockStringLines
        (afterLines (pbsBefore (pbsFlags w v m)) ++ splitLF v ++ afterLines (pbsAfter (pbsFlags w v m))) = splitLF v := by
      apply dedent_sandwich _ _ _ hBl hAl l0 M hL h0 xs lN hxs hN
      rcases hci with ⟨hb, hc⟩ | ⟨hb, hc⟩
      · left; exact ⟨by rw [hb]; rfl, hc⟩
      · right; exact ⟨by rw [hb]; rfl, hc⟩
    unfold blockTok
    rw [hd]
    have := joinLines_linesFrom v []
    rw [linesFrom_nil] at this
    simp only [List.nil_append] at this
    rw [this]

/-- C08-2 (any width, both settings of `minimize`). -/
theorem printBlockStringW_roundtrip (w : Nat) (v : List Nat) (m : Bool) (rest : List Nat) (st : LexState)
    (hs : ∀ c ∈ v, isScalar c = true) (hrep : BlockRepresentable v) :
    tokOf (readBlockString (printBlockStringW w v m ++ rest) st 0) =
      .ok (mkToken st .blockString 0 (printBlockStringW w v m).length (some v)) := by
  unfold readBlockString
  exact printBlockStringW_roundtrip_loop w v m rest st 0 st.lineStart hs hrep

end Gql.Text
