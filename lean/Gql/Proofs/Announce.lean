import Gql.Proofs.Finish
/-!
Every handler of a legal graph event keeps the scheduler-graph invariant `Good` and announces
only nodes that are not in the publisher's table (`AnnFresh`): part 1, `_task_success` and
`_task_failure`.
-/
namespace Gql.Async
open Gql.Spec.Protocol

theorem Good.congr {σ : Static} {e e' : EnvSt} {q : WQ} (g : Good σ e q)
    (hg : e'.introG = e.introG) (hs : e'.introS = e.introS) : Good σ e' q :=
  ⟨g.forest, hg ▸ g.known, g.sforest, hs ▸ g.sknown⟩

theorem annFresh_noNew (D : List Node) (evs : List WQEvent) (h : ∀ e ∈ evs, evNew e = []) :
    AnnFresh D evs := by
  induction evs generalizing D with
  | nil => trivial
  | cons e evs ih =>
    refine ⟨⟨by rw [h e (by simp)]; exact List.nodup_nil, by rw [h e (by simp)]; simp⟩, ?_⟩
    exact ih _ (fun x hx => h x (List.mem_cons_of_mem _ hx))

theorem nodup_map_inj {α β : Type} (f : α → β) (hf : ∀ a b, f a = f b → a = b) (l : List α)
    (h : l.Nodup) : (l.map f).Nodup := by
  induction l with
  | nil => exact List.nodup_nil
  | cons a l ih =>
    have h' := List.nodup_cons.mp h
    simp only [List.map_cons, List.nodup_cons]
    refine ⟨?_, ih h'.2⟩
    intro hm
    obtain ⟨b, hb, e⟩ := List.mem_map.mp hm
    exact h'.1 (hf b a e ▸ hb)

theorem nodesOf_nodup (gs ss : List Nat) (hg : gs.Nodup) (hs : ss.Nodup) : (nodesOf gs ss).Nodup := by
  unfold nodesOf
  rw [List.nodup_append]
  refine ⟨?_, ?_, ?_⟩
  · exact nodup_map_inj _ (fun a b h => by cases h; rfl) _ hg
  · exact nodup_map_inj _ (fun a b h => by cases h; rfl) _ hs
  · intro a ha b hb e
    obtain ⟨x, _, rfl⟩ := List.mem_map.mp ha
    obtain ⟨y, _, rfl⟩ := List.mem_map.mp hb
    cases e

/-- The events of a finished group announce fresh nodes when the promoted nodes are distinct
and not in the tracked domain (other than the finished group itself). -/
theorem annFresh_groupEvents (D : List Node) (g : Nat) (v : List GVal) (ng ns : List Nat)
    (hn : (nodesOf ng ns).Nodup) (hf : ∀ n ∈ nodesOf ng ns, n ∈ D → n = .group g) :
    AnnFresh D (groupEvents g v ng ns) := by
  unfold groupEvents
  split
  · refine ⟨⟨hn, ?_⟩, trivial⟩
    intro n hn' hm
    simp only [domMid, List.mem_filter, decide_eq_true_eq] at hm
    exact hm.2 (hf n hn' hm.1)
  · refine ⟨⟨List.nodup_nil, by simp [evNew]⟩, ⟨hn, ?_⟩, trivial⟩
    intro n hn' hm
    simp only [domMid, List.mem_filter, decide_eq_true_eq] at hm
    have h1 := (mem_domStep_GV D g v n).mp hm.1
    rcases h1 with h1 | h1
    · exact hm.2 h1
    · exact hm.2 (hf n hn' h1)

/-- The loop invariant of `_task_success`. -/
structure SuccAll (σ : Static) (e : EnvSt) (D : List Node)
    (acc : WQ × List WQEvent × List Nat × List Nat) : Prop where
  good : Good σ e acc.1
  dom : SuccInv D acc
  fresh : AnnFresh D acc.2.1
  gnodup : acc.2.2.1.Nodup
  gpend : ∀ x ∈ acc.2.2.1, (∃ p, σ.parent x = some p ∧ alookup acc.1.groupNodes p = none) ∧
    x ∉ acc.1.rootGroups ∧ x ∈ e.introG
  snodup : acc.2.2.2.Nodup
  spend : ∀ s ∈ acc.2.2.2, (∀ t tn, alookup acc.1.taskNodes t = some tn → s ∉ tn.childStreams) ∧
    s ∉ acc.1.rootStreams ∧ s ∈ e.introS

theorem successStep_all (σ : Static) (e : EnvSt) (D : List Node)
    (acc : WQ × List WQEvent × List Nat × List Nat) (g : Nat) (h : SuccAll σ e D acc) :
    SuccAll σ e D (successStep σ acc g) := by
  have hdom := successStep_dom σ D acc g h.dom
  unfold successStep at hdom ⊢
  cases hl : alookup acc.1.groupNodes g with
  | none => simpa [hl] using h
  | some n =>
    simp only [hl] at hdom ⊢
    -- the counter update
    have sh0 : Shrink acc.1 ({ acc.1 with groupNodes := aset acc.1.groupNodes g { n with pending := n.pending - 1 } } : WQ) :=
      ⟨subGraph_aset acc.1 g n _ hl rfl, tsub_of_eq rfl⟩
    have fr0 : RootFrame acc.1 ({ acc.1 with groupNodes := aset acc.1.groupNodes g { n with pending := n.pending - 1 } } : WQ) :=
      ⟨rfl, rfl, rfl, rfl⟩
    have g0 : Good σ e ({ acc.1 with groupNodes := aset acc.1.groupNodes g { n with pending := n.pending - 1 } } : WQ) :=
      h.good.frame sh0 fr0
    split
    · -- the group finishes
      rename_i hfin
      rw [if_pos hfin] at hdom
      have fo := finishGroupSuccess_out σ e _ g { n with pending := n.pending - 1 } g0
        (by simp only; exact alookup_aset_self _ _ _)
      have shq : Shrink acc.1 (finishGroupSuccess σ
          { acc.1 with groupNodes := aset acc.1.groupNodes g { n with pending := n.pending - 1 } } g
          { n with pending := n.pending - 1 }).1 := sh0.trans fo.shrink
      -- facts about the promoted groups
      have hng : ∀ x ∈ (finishGroupSuccess σ
          { acc.1 with groupNodes := aset acc.1.groupNodes g { n with pending := n.pending - 1 } } g
          { n with pending := n.pending - 1 }).2.2.1,
          ∃ p, hasChild acc.1 p x ∧ alookup (finishGroupSuccess σ
            { acc.1 with groupNodes := aset acc.1.groupNodes g { n with pending := n.pending - 1 } } g
            { n with pending := n.pending - 1 }).1.groupNodes p = none := by
        intro x hx
        obtain ⟨p, hp1, hp2⟩ := fo.gsrc x hx
        exact ⟨p, sh0.sub.hasChild hp1, hp2⟩
      have hng_new : ∀ x ∈ (finishGroupSuccess σ
          { acc.1 with groupNodes := aset acc.1.groupNodes g { n with pending := n.pending - 1 } } g
          { n with pending := n.pending - 1 }).2.2.1, x ∉ acc.2.2.1 := by
        intro x hx hold
        obtain ⟨p, hp1, _⟩ := hng x hx
        obtain ⟨⟨p0, e0, l0⟩, _, _⟩ := h.gpend x hold
        have := h.good.forest.parent p x hp1
        rw [e0] at this; cases this
        obtain ⟨m, hm, _⟩ := hp1
        rw [l0] at hm; cases hm
      have hns : ∀ s ∈ (finishGroupSuccess σ
          { acc.1 with groupNodes := aset acc.1.groupNodes g { n with pending := n.pending - 1 } } g
          { n with pending := n.pending - 1 }).2.2.2,
          ∃ t tn, alookup acc.1.taskNodes t = some tn ∧ s ∈ tn.childStreams := fo.ssrc
      have hns_new : ∀ s ∈ (finishGroupSuccess σ
          { acc.1 with groupNodes := aset acc.1.groupNodes g { n with pending := n.pending - 1 } } g
          { n with pending := n.pending - 1 }).2.2.2, s ∉ acc.2.2.2 := by
        intro s hs hold
        obtain ⟨t, tn, ht, hst⟩ := hns s hs
        exact (h.spend s hold).1 t tn ht hst
      obtain ⟨v, hev⟩ := fo.events
      refine ⟨fo.good, hdom, ?_, ?_, ?_, ?_, ?_⟩
      · -- freshness of the announcements
        simp only
        rw [annFresh_append]
        refine ⟨h.fresh, ?_⟩
        rw [hev]
        apply annFresh_groupEvents
        · exact nodesOf_nodup _ _ fo.gnodup fo.snodup
        · intro m hm hD
          rcases h.dom m hD with hroot | hpend
          · rcases (mem_nodesOf _ _ m).mp hm with ⟨x, hx, rfl⟩ | ⟨s, hs, rfl⟩
            · obtain ⟨p, hp1, _⟩ := hng x hx
              exact absurd hroot (h.good.forest.notRoot p x hp1)
            · obtain ⟨t, tn, ht, hst⟩ := hns s hs
              exact absurd hroot (h.good.sforest.notRoot t tn s ht hst)
          · rcases (mem_nodesOf _ _ m).mp hm with ⟨x, hx, rfl⟩ | ⟨s, hs, rfl⟩
            · rcases (mem_nodesOf _ _ _).mp hpend with ⟨y, hy, e1⟩ | ⟨y, _, e1⟩
              · cases e1; exact absurd hy (hng_new x hx)
              · cases e1
            · rcases (mem_nodesOf _ _ _).mp hpend with ⟨y, _, e1⟩ | ⟨y, hy, e1⟩
              · cases e1
              · cases e1; exact absurd hy (hns_new s hs)
      · simp only
        rw [List.nodup_append]
        exact ⟨h.gnodup, fo.gnodup, fun a ha b hb eab => hng_new b hb (eab ▸ ha)⟩
      · intro x hx
        simp only at hx
        rcases List.mem_append.mp hx with hx | hx
        · obtain ⟨⟨p0, e0, l0⟩, r0, i0⟩ := h.gpend x hx
          refine ⟨⟨p0, e0, shq.sub.none l0⟩, ?_, i0⟩
          rw [fo.rg, mem_oerase]
          exact fun hh => r0 hh.1
        · obtain ⟨p, hp1, hp2⟩ := hng x hx
          refine ⟨⟨p, h.good.forest.parent p x hp1, hp2⟩, ?_, h.good.known.children p x hp1⟩
          rw [fo.rg, mem_oerase]
          exact fun hh => h.good.forest.notRoot p x hp1 hh.1
      · simp only
        rw [List.nodup_append]
        exact ⟨h.snodup, fo.snodup, fun a ha b hb eab => hns_new b hb (eab ▸ ha)⟩
      · intro s hs
        simp only at hs
        rcases List.mem_append.mp hs with hs | hs
        · obtain ⟨a1, a2, a3⟩ := h.spend s hs
          refine ⟨?_, by rw [fo.sframe.rs]; exact a2, a3⟩
          intro t tn' ht
          rcases shq.tsub t tn' ht with e0 | ⟨tn, e0, c0⟩
          · rw [e0]; simp
          · rw [c0]; exact a1 t tn e0
        · obtain ⟨t, tn, ht, hst⟩ := hns s hs
          refine ⟨fo.sgone s hs, ?_, h.good.sknown.children t tn s ht hst⟩
          rw [fo.sframe.rs]
          exact h.good.sforest.notRoot t tn s ht hst
    · -- only the counter changes
      rename_i hfin
      rw [if_neg hfin] at hdom
      refine ⟨g0, hdom, h.fresh, h.gnodup, ?_, h.snodup, ?_⟩
      · intro x hx
        obtain ⟨⟨p0, e0, l0⟩, r0, i0⟩ := h.gpend x hx
        exact ⟨⟨p0, e0, sh0.sub.none l0⟩, r0, i0⟩
      · intro s hs
        obtain ⟨a1, a2, a3⟩ := h.spend s hs
        exact ⟨a1, a2, a3⟩

end Gql.Async

namespace Gql.Async
open Gql.Spec.Protocol

theorem integrateWork_none (σ : Static) (q : WQ) (pt : Option Nat) :
    integrateWork σ q none pt = (q, [], []) := rfl

/-- `_task_success` on a good graph with a well-formed result. -/
theorem taskSuccess_all (σ : Static) (e : EnvSt) (q : WQ) (t : Nat) (r : TResult) (D : List Node)
    (g : Good σ e q) (hw : ∀ w, r.work = some w → WorkOk σ e q w) (hD : ∀ n ∈ D, isRoot q n) :
    Good σ (e.intro r.work) (taskSuccess σ q t r).1 ∧ AnnFresh D (taskSuccess σ q t r).2 := by
  unfold taskSuccess
  simp only
  have g1 : Good σ e (setTaskValue q t r.value) :=
    g.frame (setTaskValue_shrink q t r.value) (setTaskValue_frame q t r.value)
  have f12 : RootFrame q (integrateWork σ (setTaskValue q t r.value) r.work (some t)).1 :=
    (setTaskValue_frame q t r.value).trans (integrateWork_frame σ _ _ _)
  have g2 : Good σ (e.intro r.work) (integrateWork σ (setTaskValue q t r.value) r.work (some t)).1 := by
    cases hwk : r.work with
    | none => rw [integrateWork_none]; exact g1
    | some w =>
      have ok := hw w hwk
      exact (integrateWork_good σ e _ w (some t) g1
        ⟨ok.gnodup, ok.snodup, ok.gfresh, ok.sfresh, ok.noself, ok.plt⟩).1
  have h0 : SuccAll σ (e.intro r.work) D
      ((integrateWork σ (setTaskValue q t r.value) r.work (some t)).1, [], [], []) := by
    refine ⟨g2, ?_, trivial, List.nodup_nil, by simp, List.nodup_nil, by simp⟩
    intro n hn
    exact Or.inl ((isRoot_of_frame f12 n).mpr (hD n hn))
  have hfold := foldl_inv (SuccAll σ (e.intro r.work) D) (successStep σ) (σ.tgroups t) _ h0
    (fun acc x ha => successStep_all σ (e.intro r.work) D acc x ha)
  refine ⟨?_, hfold.fresh⟩
  apply startNewWork_good σ _ _ _ _ hfold.good
  · intro x hx
    obtain ⟨⟨p0, e0, l0⟩, _, i0⟩ := hfold.gpend x hx
    refine ⟨?_, i0⟩
    intro p hc
    have := hfold.good.forest.parent p x hc
    rw [e0] at this; cases this
    obtain ⟨m, hm, _⟩ := hc
    rw [l0] at hm; cases hm
  · intro s hs
    obtain ⟨a1, _, a3⟩ := hfold.spend s hs
    exact ⟨a1, a3⟩

theorem failureStep_good (σ : Static) (e : EnvSt) (acc : WQ × List WQEvent) (g : Nat)
    (h : Good σ e acc.1 ∧ ∀ ev ∈ acc.2, evNew ev = []) :
    Good σ e (failureStep σ acc g).1 ∧ ∀ ev ∈ (failureStep σ acc g).2, evNew ev = [] := by
  unfold failureStep
  split
  · rename_i n hn
    unfold finishGroupFailure
    simp only
    have sh := removeGroup_shrink σ (acc.1.groupNodes.length + 1) acc.1 g n
    have fr := removeGroup_frame σ (acc.1.groupNodes.length + 1) acc.1 g n
    refine ⟨?_, ?_⟩
    · refine h.1.shrink (sh.trans (shrink_of_eq rfl rfl)) ?_ ?_
      · intro x hx; simp only [mem_oerase] at hx; exact fr.rg ▸ hx.1
      · intro x hx; exact fr.rs ▸ hx
    · intro ev hev
      rcases List.mem_append.mp hev with hev | hev
      · exact h.2 ev hev
      · simp at hev; subst hev; rfl
  · exact h

theorem taskFailure_all (σ : Static) (e : EnvSt) (q : WQ) (t : Nat) (D : List Node) (g : Good σ e q) :
    Good σ e (taskFailure σ q t).1 ∧ AnnFresh D (taskFailure σ q t).2 := by
  unfold taskFailure
  have g0 : Good σ e ({ q with taskNodes := aerase q.taskNodes t } : WQ) := by
    refine g.shrink ⟨subGraph_of_eq rfl, ?_⟩ (fun x hx => hx) (fun x hx => hx)
    intro x tn' hx
    by_cases ex : t = x
    · subst ex; simp only at hx; rw [alookup_aerase_self] at hx; cases hx
    · simp only at hx; rw [alookup_aerase_ne _ _ _ ex] at hx; exact Or.inr ⟨tn', hx, rfl⟩
  have h := foldl_inv (fun acc : WQ × List WQEvent => Good σ e acc.1 ∧ ∀ ev ∈ acc.2, evNew ev = [])
    (failureStep σ) (σ.tgroups t) (({ q with taskNodes := aerase q.taskNodes t } : WQ), [])
    ⟨g0, by simp⟩ (fun acc x ha => failureStep_good σ e acc x ha)
  exact ⟨h.1, annFresh_noNew D _ h.2⟩

end Gql.Async

namespace Gql.Async
open Gql.Spec.Protocol

theorem integrateWork_tsub_none (σ : Static) (q : WQ) (w : Work) :
    TSub q (integrateWork σ q (some w) none).1 := by
  unfold integrateWork
  simp only
  have h1 : TSub q (if w.groups.isEmpty then (q, ([] : List Nat)) else addGroups σ q w.groups false).1 := by
    split
    · exact TSub.refl q
    · obtain ⟨S, hS, _, _⟩ := addGroups_seq σ q w.groups false
      rw [hS]; exact tsub_of_eq (attachSeq_taskNodes σ false S (q, []))
  have h2 := (tasks_fold_shrink σ w.tasks
    (if w.groups.isEmpty then (q, ([] : List Nat)) else addGroups σ q w.groups false).1).1.tsub
  simp only [Option.isSome_none]
  split
  · exact h1.trans h2
  · exact h1.trans h2

theorem itemStep_none (σ : Static) (acc : WQ × List IVal × List Nat × List Nat) (it : IResult)
    (h : it.work = none) :
    itemStep σ acc it = (acc.1, acc.2.1 ++ [it.value], acc.2.2.1 ++ [], acc.2.2.2 ++ []) := by
  unfold itemStep
  simp only [h, integrateWork_none]
  rfl

/-- The loop invariant of `_stream_items`, relative to the queue `q0` at its start. -/
structure ItemAll (σ : Static) (q0 : WQ) (e : EnvSt) (acc : WQ × List IVal × List Nat × List Nat) : Prop where
  good : Good σ e acc.1
  roots : ItemInv q0 acc
  gnodup : acc.2.2.1.Nodup
  gnew : ∀ x ∈ acc.2.2.1, x ∉ q0.rootGroups
  snodup : acc.2.2.2.Nodup
  snew : ∀ s ∈ acc.2.2.2, s ∉ q0.rootStreams

theorem itemStep_all (σ : Static) (q0 : WQ) (e : EnvSt) (acc : WQ × List IVal × List Nat × List Nat)
    (it : IResult) (h : ItemAll σ q0 e acc) (hw : ∀ w, it.work = some w → WorkOk σ e acc.1 w) :
    ItemAll σ q0 (e.intro it.work) (itemStep σ acc it) := by
  have hroots := itemStep_dom σ q0 acc it h.roots
  cases hwk : it.work with
  | none =>
    rw [itemStep_none σ acc it hwk] at hroots ⊢
    exact ⟨h.good, hroots, by simpa using h.gnodup, by simpa using h.gnew, by simpa using h.snodup,
      by simpa using h.snew⟩
  | some w =>
    have ok := hw w hwk
    obtain ⟨gi, fi, ni, mi, si, sni⟩ := integrateWork_good σ e acc.1 w none h.good ok
    have tsi := integrateWork_tsub_none σ acc.1 w
    -- pruning the new roots
    have hdet : ∀ x ∈ (integrateWork σ acc.1 (some w) none).2.1,
        Detached (integrateWork σ acc.1 (some w) none).1 x := by
      intro x hx p hc
      have := gi.forest.parent p x hc
      rw [(mi x hx).2] at this; cases this
    obtain ⟨new, en, po⟩ := prune_spec σ _ (integrateWork σ acc.1 (some w) none).2.1
      (integrateWork σ acc.1 (some w) none).1 [] gi.forest.treeLike ni hdet
    have hnew : (pruneEmpty (integrateWork σ acc.1 (some w) none).1
        (integrateWork σ acc.1 (some w) none).2.1).2 = new := by simpa [pruneEmpty] using en
    have shp : Shrink (integrateWork σ acc.1 (some w) none).1
        (pruneEmpty (integrateWork σ acc.1 (some w) none).1 (integrateWork σ acc.1 (some w) none).2.1).1 :=
      prune_shrink _ _ ((integrateWork σ acc.1 (some w) none).1, [])
    have frp := pruneEmpty_frame (integrateWork σ acc.1 (some w) none).1
      (integrateWork σ acc.1 (some w) none).2.1
    have gp : Good σ (e.intro (some w)) (pruneEmpty (integrateWork σ acc.1 (some w) none).1
        (integrateWork σ acc.1 (some w) none).2.1).1 := gi.frame shp frp
    -- a promoted group is not a root yet
    have hne_root : ∀ x ∈ new, x ∉ acc.1.rootGroups := by
      intro x hx hroot
      rcases po.src x hx with h1 | ⟨p, hp1, _⟩
      · exact ok.gfresh x (mi x h1).1 (h.good.known.roots x hroot)
      · exact gi.forest.notRoot p x hp1 (fi.rg ▸ hroot)
    have hns_root : ∀ s ∈ (integrateWork σ acc.1 (some w) none).2.2, s ∉ acc.1.rootStreams :=
      fun s hs hroot => ok.sfresh s (si s hs).1 (h.good.sknown.roots s hroot)
    unfold itemStep at hroots ⊢
    simp only [hwk] at hroots ⊢
    rw [hnew] at hroots ⊢
    refine ⟨?_, hroots, ?_, ?_, ?_, ?_⟩
    · apply startNewWork_good σ _ _ _ _ gp
      · intro x hx
        rcases po.src x hx with h1 | ⟨p, hp1, hp2⟩
        · refine ⟨(hdet x h1).sub shp.sub, ?_⟩
          simp only [EnvSt.intro, List.mem_append]; exact Or.inl (mi x h1).1
        · refine ⟨?_, gi.known.children p x hp1⟩
          intro p' hc
          have e1 := gi.forest.parent p' x (shp.sub.hasChild hc)
          have e2 := gi.forest.parent p x hp1
          rw [e1] at e2; cases e2
          obtain ⟨m, hm, _⟩ := hc
          simp only [pruneEmpty] at hm hp2
          rw [hp2] at hm; cases hm
      · intro s hs
        refine ⟨?_, by simp only [EnvSt.intro, List.mem_append]; exact Or.inl (si s hs).1⟩
        intro t tn ht hst
        simp only [pruneEmpty] at ht
        rw [prune_taskNodes] at ht
        rcases tsi t tn ht with e0 | ⟨tn0, e0, c0⟩
        · rw [e0] at hst; cases hst
        · exact ok.sfresh s (si s hs).1 (h.good.sknown.children t tn0 s e0 (c0 ▸ hst))
    · simp only
      rw [List.nodup_append]
      refine ⟨h.gnodup, po.nodup, ?_⟩
      intro a ha b hb eab
      subst eab
      exact hne_root a hb (h.roots (.group a) (Or.inr ((mem_nodesOf _ _ _).mpr (Or.inl ⟨a, ha, rfl⟩))))
    · intro x hx
      simp only at hx
      rcases List.mem_append.mp hx with hx | hx
      · exact h.gnew x hx
      · exact fun hq => hne_root x hx (h.roots (.group x) (Or.inl hq))
    · simp only
      rw [List.nodup_append]
      refine ⟨h.snodup, sni, ?_⟩
      intro a ha b hb eab
      subst eab
      exact hns_root a hb (h.roots (.stream a) (Or.inr ((mem_nodesOf _ _ _).mpr (Or.inr ⟨a, ha, rfl⟩))))
    · intro s hs
      simp only at hs
      rcases List.mem_append.mp hs with hs | hs
      · exact h.snew s hs
      · exact fun hq => hns_root s hs (h.roots (.stream s) (Or.inl hq))

theorem items_all (σ : Static) (q0 qe : WQ) (items : List IResult) :
    ∀ (e : EnvSt) (n0 : Nat) (acc : WQ × List IVal × List Nat × List Nat) (e1 : EnvSt) (n1 : Nat),
      ItemAll σ q0 e acc → itemsOk σ qe e n0 items = some (e1, n1) →
      ItemAll σ q0 e1 (items.foldl (itemStep σ) acc) := by
  induction items with
  | nil =>
    intro e n0 acc e1 n1 h hi
    simp [itemsOk] at hi; obtain ⟨rfl, _⟩ := hi; exact h
  | cons it items ih =>
    intro e n0 acc e1 n1 h hi
    unfold itemsOk at hi
    by_cases hc : (idxMatches it.value.idx n0 && workOptOk σ e qe none it.work) = true
    · rw [if_pos hc] at hi
      simp only [List.foldl_cons]
      apply ih (e.intro it.work) (n0 + 1) _ e1 n1 _ hi
      apply itemStep_all σ q0 e acc it h
      intro w hw
      simp only [Bool.and_eq_true] at hc
      have := hc.2
      rw [hw] at this
      have ok := workOk_of σ e qe none w this
      exact ⟨ok.gnodup, ok.snodup, ok.gfresh, ok.sfresh, ok.noself, ok.plt⟩
    · rw [if_neg hc] at hi; cases hi

/-- `_stream_items` on a good graph with well-formed items. -/
theorem streamItems_all (σ : Static) (e : EnvSt) (q : WQ) (s : Nat) (items : List IResult) (st : Bool)
    (D : List Node) (e1 : EnvSt) (n0 n1 : Nat) (g : Good σ e q)
    (hi : itemsOk σ q e n0 items = some (e1, n1)) (hD : ∀ n ∈ D, isRoot q n) (hs : s ∈ q.rootStreams) :
    Good σ e1 (streamItems σ q s items st).1 ∧ AnnFresh D (streamItems σ q s items st).2 := by
  have hroot0 : ItemInv q (q, [], [], []) := by
    intro n hn
    rcases hn with hn | hn
    · exact hn
    · simp [nodesOf] at hn
  have h0 : ItemAll σ q e (q, [], [], []) :=
    ⟨g, hroot0, List.nodup_nil, by simp, List.nodup_nil, by simp⟩
  have h := items_all σ q q items e n0 (q, [], [], []) e1 n1 h0 hi
  have hann : annOk D (WQEvent.streamValues s (items.foldl (itemStep σ) (q, [], [], [])).2.1
      (items.foldl (itemStep σ) (q, [], [], [])).2.2.1 (items.foldl (itemStep σ) (q, [], [], [])).2.2.2) := by
    refine ⟨nodesOf_nodup _ _ h.gnodup h.snodup, ?_⟩
    intro n hn hm
    simp only [domMid, List.mem_cons] at hm
    rcases (mem_nodesOf _ _ n).mp hn with ⟨x, hx, rfl⟩ | ⟨x, hx, rfl⟩
    · rcases hm with hm | hm
      · cases hm
      · exact h.gnew x hx (hD _ hm)
    · rcases hm with hm | hm
      · cases hm; exact h.snew s hx hs
      · exact h.snew x hx (hD _ hm)
  unfold streamItems
  simp only
  cases st with
  | true =>
    simp only [if_true]
    refine ⟨?_, hann, ⟨List.nodup_nil, by simp [evNew]⟩, trivial⟩
    refine h.good.shrink (shrink_of_eq rfl rfl) (fun x hx => hx) ?_
    intro x hx; simp only [mem_oerase] at hx; exact hx.1
  | false =>
    simp only [Bool.false_eq_true, if_false]
    exact ⟨h.good, hann, trivial⟩

end Gql.Async
