/-
C13 — soundness, first stage: the induction over the data graph.
-/
import Gql.Proofs.SoundExec

namespace Gql.Exec.Valid
open Gql.Exec Gql.Exec.Refine

variable (cx : Spec.Ctx)

theorem groups_sound (hyps : SoundHyps cx.ops cx.schema) (S rt : Name) (fs : List FieldDef)
    (f : Name → ArgMap → RVal)
    (hagree : FieldsAgree cx.schema S rt) (hfs : cx.schema.objectFields rt = some fs)
    (hconf : ∀ fd ∈ fs, ∀ args, Conforms cx.ops cx.schema fd.type (f fd.name args))
    (hchild : ∀ (name : Name) (args : ArgMap) (t : TypeRef) (node : FieldNode) (pos : List PSeg),
      Conforms cx.ops cx.schema t (f name args) → NodeWT cx.schema cx.doc t.baseName node →
      Res cx t node (f name args) (Spec.completeValue cx t [node] pos (f name args))) :
    ∀ (sels : List Selection) (pos : List PSeg),
      plainSels sels = true → distinctSelsAux sels = true → validSels (vctx cx.schema cx.doc) S sels = true →
      (Spec.executeGroups cx rt
          (fun name args t fields pos => Spec.completeValue cx t fields pos (f name args)) pos
          (groupsOf sels)).errs = [] ∧
      ∃ kvs, (Spec.executeGroups cx rt
          (fun name args t fields pos => Spec.completeValue cx t fields pos (f name args)) pos
          (groupsOf sels)).out = some kvs ∧
        shapeGroups cx rt (fun name args t fields j => shapeOk cx t fields (f name args) j)
          (groupsOf sels) kvs = true
  | [], pos, _, _, _ => by
    simp [groupsOf, Spec.executeGroups, Spec.R.pure, shapeGroups]
  | sel :: rest, pos, hp, hd, hv => by
    simp only [plainSels, Bool.and_eq_true] at hp
    simp only [distinctSelsAux, Bool.and_eq_true] at hd
    simp only [validSels, Bool.and_eq_true] at hv
    obtain ⟨ih1, kvs', ih2, ih3⟩ := groups_sound hyps S rt fs f hagree hfs hconf hchild rest pos hp.2 hd.2 hv.2
    cases sel with
    | inline c d ss => simp [plainSel] at hp
    | spread n d => simp [plainSel] at hp
    | field alias name args dirs sels =>
      have hdirs : dirs = [] := by
        have := hp.1
        simp only [plainSel, Bool.and_eq_true, List.isEmpty_iff] at this
        exact this.1
      subst hdirs
      have hplain : plainSels sels = true := by
        have := hp.1
        simp only [plainSel, Bool.and_eq_true] at this
        exact this.2
      have hdist : distinctSels sels = true := by simpa [distinctSel, distinctSels] using hd.1
      have hvsel := hv.1
      simp only [validSel, Bool.and_eq_true] at hvsel
      have hcons : groupsOf (Selection.field alias name args [] sels :: rest) =
          (keyOfSel (.field alias name args [] sels),
            [({ alias := alias, name := name, args := args, dirs := [], sels := sels } : FieldNode)]) ::
            groupsOf rest := rfl
      rw [hcons]
      simp only [Spec.executeGroups, shapeGroups]
      by_cases hty : (name == "__typename") = true
      · -- the meta field
        have hstr := hyps.stringId (rt.toList.map Char.toNat)
        simp only [Spec.executeField, hty, ↓reduceIte, Spec.coerceResult, hstr, Spec.absorb,
          Spec.R.pure, Option.map_some, List.nil_append, ih1, ih2, true_and]
        simp [cpsOfName, ih3]
      · simp only [hty, Bool.false_eq_true, ↓reduceIte] at hvsel
        cases hfa : getFieldAny cx.schema S name with
        | none => simp [vctx, hfa] at hvsel
        | some fd =>
          simp only [vctx, hfa, Bool.and_eq_true] at hvsel
          obtain ⟨_, hargs, hsub⟩ := hvsel
          have hgf : cx.schema.getField rt name = some fd := hagree name fd hfa
          obtain ⟨hmem, hname⟩ := getField_mem hgf hfs
          obtain ⟨a, ha⟩ := arguments_coerce cx [] (by intro vd hvd; cases hvd)
            (fun t d v hv _ _ => hyps.opsSound t d v hv _) fd.args args hargs
            (excArgs_nil _ _ _ _)
            (fun x hx d hd' => hyps.defaultsOk rt name fd hgf x hx d hd') fd.args (fun _ h => h) []
          have hwt : NodeWT cx.schema cx.doc fd.type.baseName
              { alias := alias, name := name, args := args, dirs := [], sels := sels } := by
            unfold NodeWT
            by_cases hl : isLeaf cx.schema fd.type.baseName = true
            · simp only [hl, ↓reduceIte] at hsub ⊢
              simpa using hsub
            · simp only [hl, Bool.false_eq_true, ↓reduceIte, Bool.and_eq_true] at hsub ⊢
              exact ⟨hplain, hdist, hsub.2⟩
          have hc := hchild name a fd.type
            { alias := alias, name := name, args := args, dirs := [], sels := sels } (pos ++ [PSeg.key (keyOfSel (.field alias name args [] sels))])
            (hname ▸ hconf fd hmem a) hwt
          obtain ⟨hce, j, hco, hcs⟩ := hc
          simp only [Spec.executeField, hty, Bool.false_eq_true, ↓reduceIte, hgf, ha, Spec.absorb,
            hco, hce, Option.map_some, List.nil_append, ih1, ih2, true_and]
          simp [ih3, ha, hcs]

end Gql.Exec.Valid
