import Gql.Proofs.OverlapRun
/-! C14, named fragments, completeness (5): combinators for runs that report nothing. -/
namespace Gql.Exec
open Overlap

section tr
variable (env : Env)

def Good (σ : St) (P : Prog) : Prop := CacheNF env σ ∧ ClosedX env.s env.d σ P

/-- if `r` returns without a conflict: invariants kept, tables grew, and `Post` holds -/
def Tr (P : Prog) (r : St → Res) (Post : St → Prop) : Prop :=
  ∀ σ σ', Good env σ P → r σ = some (σ', []) → Good env σ' P ∧ TLe σ σ' ∧ Post σ'

def MonoP (Post : St → Prop) : Prop := ∀ σ σ', TLe σ σ' → Post σ → Post σ'

theorem Tr.post {P : Prog} {r : St → Res} {A B : St → Prop} (h : Tr env P r A)
    (hab : ∀ σ, A σ → B σ) : Tr env P r B := by
  intro σ σ' hg e
  obtain ⟨g, t, a⟩ := h σ σ' hg e
  exact ⟨g, t, hab σ' a⟩

theorem tr_nil (P : Prog) : Tr env P (fun σ => some (σ, [])) (fun _ => True) := by
  intro σ σ' hg e
  simp only [Option.some.injEq, Prod.mk.injEq, and_true] at e
  subst e
  exact ⟨hg, TLe.refl _, trivial⟩

theorem tr_andThen {P : Prog} {r k : St → Res} {A B : St → Prop} (hr : Tr env P r A)
    (hk : Tr env P k B) (hA : MonoP A) :
    Tr env P (fun σ => andThen (r σ) k) (fun σ => A σ ∧ B σ) := by
  intro σ σ' hg e
  simp only [andThen] at e
  cases h1 : r σ with
  | none => simp [h1] at e
  | some x =>
    obtain ⟨σ1, c1⟩ := x
    simp only [h1] at e
    cases h2 : k σ1 with
    | none => simp [h2] at e
    | some y =>
      obtain ⟨σ2, c2⟩ := y
      simp only [h2, Option.some.injEq, Prod.mk.injEq, List.append_eq_nil_iff] at e
      obtain ⟨rfl, rfl, rfl⟩ := e
      obtain ⟨g1, t1, a1⟩ := hr σ σ1 hg h1
      obtain ⟨g2, t2, b2⟩ := hk σ1 σ2 g1 h2
      exact ⟨g2, t1.trans t2, hA _ _ t2 a1, b2⟩

theorem tr_forEach {α : Type} {P : Prog} (xs : List α) (f : α → St → Res) (A : α → St → Prop)
    (hf : ∀ x ∈ xs, Tr env P (f x) (A x)) (hA : ∀ x, MonoP (A x)) :
    Tr env P (forEach xs f) (fun σ => ∀ x ∈ xs, A x σ) := by
  induction xs with
  | nil =>
    intro σ σ' hg e
    simp only [forEach, Option.some.injEq, Prod.mk.injEq, and_true] at e
    subst e
    exact ⟨hg, TLe.refl _, fun x hx => by cases hx⟩
  | cons x xs ih =>
    intro σ σ' hg e
    simp only [forEach] at e
    cases h1 : f x σ with
    | none => simp [h1] at e
    | some y =>
      obtain ⟨σ1, c1⟩ := y
      simp only [h1] at e
      cases h2 : forEach xs f σ1 with
      | none => simp [h2] at e
      | some z =>
        obtain ⟨σ2, c2⟩ := z
        simp only [h2, Option.some.injEq, Prod.mk.injEq, List.append_eq_nil_iff] at e
        obtain ⟨rfl, rfl, rfl⟩ := e
        obtain ⟨g1, t1, a1⟩ := hf x List.mem_cons_self σ σ1 hg h1
        obtain ⟨g2, t2, b2⟩ := ih (fun y hy => hf y (List.mem_cons_of_mem _ hy)) σ1 σ2 g1 h2
        refine ⟨g2, t1.trans t2, fun y hy => ?_⟩
        rcases List.mem_cons.1 hy with rfl | hy
        · exact hA _ _ _ t2 a1
        · exact b2 y hy

/-- reading (and filling) the field cache keeps everything -/
theorem good_getFields (hU : TypedIdsUnique env.s env.d) {σ : St} {P : Prog} (hg : Good env σ P)
    {t : TSet} (ht : t ∈ env.d.typedSets env.s) {q : Option String} (hq : PEq env.s t.1 q) :
    Good env (getFields env.s env.d σ q t.2).1 P ∧ TLe σ (getFields env.s env.d σ q t.2).1 ∧
      ∃ q', PEq env.s t.1 q' ∧
        (getFields env.s env.d σ q t.2).2 = computeFields env.s env.d q' t.2 := by
  obtain ⟨g1, q', hq', ceq⟩ := getFields_nf env hU hg.1 ht hq
  have e : (getFields env.s env.d σ q t.2).1.cfp = σ.cfp ∧
      (getFields env.s env.d σ q t.2).1.cmp = σ.cmp := by
    unfold getFields
    cases assocGet σ.cache t.2.id <;> simp
  exact ⟨⟨g1, closedX_same hg.2 e.1 e.2⟩, tle_same e.1 e.2, q', hq', ceq⟩

theorem good_getReferenced (hU : TypedIdsUnique env.s env.d) {σ : St} {P : Prog}
    (hg : Good env σ P) {n : String} {fr : FragDef} (hfr : env.d.getFragment n = some fr) :
    Good env (getReferenced env.s env.d σ fr).1 P ∧ TLe σ (getReferenced env.s env.d σ fr).1 ∧
      ∃ q', PEq env.s (env.s.typeFromAst fr.typeCond) q' ∧
        (getReferenced env.s env.d σ fr).2 = computeFields env.s env.d q' fr.ss := by
  obtain ⟨_, g1, q', hq', ceq⟩ := getReferenced_nf env hU hg.1 hfr
  have e : (getReferenced env.s env.d σ fr).1.cfp = σ.cfp ∧
      (getReferenced env.s env.d σ fr).1.cmp = σ.cmp := by
    unfold getReferenced getFields
    cases assocGet σ.cache fr.ss.id <;> simp
  exact ⟨⟨g1, closedX_same hg.2 e.1 e.2⟩, tle_same e.1 e.2, q', hq', ceq⟩

end tr

/-! ### monotone posts -/

theorem monoP_ppass {s : Schema} {d : Doc} (excl : Bool) (a b : Spec.FieldInst) :
    MonoP (fun σ => PPass s d σ excl a b) := fun _ _ hT h => h.mono hT

theorem monoP_covFF (i : Nat) (k : String) (q : Bool) : MonoP (fun σ => CovFF σ i k q) :=
  fun _ _ hT h => h.mono hT

theorem monoP_covFR (k1 k2 : String) (q : Bool) : MonoP (fun σ => CovFR σ k1 k2 q) :=
  fun _ _ hT h => h.mono hT

theorem monoP_forall {α : Type} (xs : List α) (A : α → St → Prop) (hA : ∀ x, MonoP (A x)) :
    MonoP (fun σ => ∀ x ∈ xs, A x σ) := fun σ σ' hT h x hx => hA x σ σ' hT (h x hx)

end Gql.Exec
