import Gql.Proofs.BlockScanValue
/-!
Reading a block string in the middle of a text: `read_block_string` on `pre ++ body` at
`pre.length + pos` behaves as on `body` at `pos`, with positions shifted.
-/
namespace Gql.Text

/-- Shift the end position of a token / the position of an error. -/
def shiftOut (d : Nat) : LexOut Token → LexOut Token
  | .ok t => .ok { t with stop := t.stop + d }
  | .err e => .err { e with pos := e.pos + d }
  | .crash c => .crash c

theorem slice_shift (pre body : List Nat) (a b : Nat) :
    slice (pre ++ body) (pre.length + a) (pre.length + b) = slice body a b := by
  unfold slice
  rw [show pre.length + b - (pre.length + a) = b - a by omega, List.drop_append]
  simp [List.drop_eq_nil_of_le]

theorem index_shift (pre body : List Nat) (p : Nat) :
    (Out.index (pre ++ body) (pre.length + p) : LexOut Nat) = Out.index body p := by
  simp [Out.index, List.getElem?_append_right]

theorem charAt_shift (pre body : List Nat) (p : Nat) : charAt (pre ++ body) (pre.length + p) = charAt body p := by
  simp [charAt, List.getElem?_append_right]

theorem isSupplementary_shift (pre body : List Nat) (p : Nat) :
    isSupplementary (pre ++ body) (pre.length + p) = isSupplementary body p := by
  unfold isSupplementary
  rw [show pre.length + p + 1 = pre.length + (p + 1) by omega]
  simp [List.getElem?_append_right]

theorem tokOf_bind_ok {x : LexOut (Token × LexState)} : tokOf x = x >>= fun p => pure p.1 := rfl

theorem blockLoop_shift (pre body : List Nat) (st : LexState) (start : Nat) :
    ∀ (n pos cs ls ls2 : Nat) (cl : List Nat) (bl : List (List Nat)), body.length - pos ≤ n →
      tokOf (readBlockStringLoop (pre ++ body) st start (pre.length + pos) (pre.length + cs) ls cl bl) =
        shiftOut pre.length (tokOf (readBlockStringLoop body st start pos cs ls2 cl bl)) := by
  intro n
  induction n with
  | zero =>
    intro pos cs ls ls2 cl bl hn
    rw [readBlockStringLoop]
    conv => rhs; arg 2; arg 1; rw [readBlockStringLoop]
    have h1 : ¬ pos < body.length := by omega
    have h2 : ¬ pre.length + pos < (pre ++ body).length := by simp; omega
    simp only [h1, h2, ↓reduceDIte, tokOf, Out.bind_err, shiftOut]
    rw [Nat.add_comm]
  | succ n ih =>
    intro pos cs ls ls2 cl bl hn
    rw [readBlockStringLoop]
    conv => rhs; arg 2; arg 1; rw [readBlockStringLoop]
    by_cases hlt : pos < body.length
    · have h2 : pre.length + pos < (pre ++ body).length := by simp; omega
      have hidx : (Out.index body pos : LexOut Nat) = .ok body[pos] := by simp [Out.index, hlt]
      simp only [hlt, h2, ↓reduceDIte, index_shift, hidx, Out.bind_ok]
      have s13 : slice (pre ++ body) (pre.length + pos + 1) (pre.length + pos + 3) = slice body (pos + 1) (pos + 3) := by
        rw [show pre.length + pos + 1 = pre.length + (pos + 1) by omega,
          show pre.length + pos + 3 = pre.length + (pos + 3) by omega, slice_shift]
      have s14 : slice (pre ++ body) (pre.length + pos + 1) (pre.length + pos + 4) = slice body (pos + 1) (pos + 4) := by
        rw [show pre.length + pos + 1 = pre.length + (pos + 1) by omega,
          show pre.length + pos + 4 = pre.length + (pos + 4) by omega, slice_shift]
      have scs : slice (pre ++ body) (pre.length + cs) (pre.length + pos) = slice body cs pos := slice_shift _ _ _ _
      have hch : charAt (pre ++ body) (pre.length + pos + 1) = charAt body (pos + 1) := by
        rw [show pre.length + pos + 1 = pre.length + (pos + 1) by omega, charAt_shift]
      rw [s13, s14, scs, hch, isSupplementary_shift]
      generalize body[pos] = c
      by_cases c1 : c = 34 ∧ slice body (pos + 1) (pos + 3) = [34, 34]
      · simp only [c1, and_self, ↓reduceIte, Out.pure_eq, tokOf_ok, shiftOut, mkToken]
        congr 2
        omega
      · simp only [c1, ↓reduceIte]
        by_cases c2 : c = 92 ∧ slice body (pos + 1) (pos + 4) = [34, 34, 34]
        · simp only [c2, and_self, ↓reduceIte]
          have := ih (pos + 4) (pos + 1) ls ls2 (cl ++ slice body cs pos) bl (by omega)
          rw [show pre.length + (pos + 4) = pre.length + pos + 4 by omega,
            show pre.length + (pos + 1) = pre.length + pos + 1 by omega] at this
          exact this
        · simp only [c2, ↓reduceIte]
          by_cases c3 : c = 13 ∨ c = 10
          · simp only [c3, ↓reduceIte]
            by_cases c4 : c = 13 ∧ charAt body (pos + 1) = some 10
            · simp only [c4, and_self, ↓reduceIte]
              have := ih (pos + 2) (pos + 2) (pre.length + pos + 2) (pos + 2) [] (bl ++ [cl ++ slice body cs pos]) (by omega)
              rw [show pre.length + (pos + 2) = pre.length + pos + 2 by omega] at this
              exact this
            · simp only [c4, ↓reduceIte]
              have := ih (pos + 1) (pos + 1) (pre.length + pos + 1) (pos + 1) [] (bl ++ [cl ++ slice body cs pos]) (by omega)
              rw [show pre.length + (pos + 1) = pre.length + pos + 1 by omega] at this
              exact this
          · simp only [c3, ↓reduceIte]
            by_cases c5 : isScalar c = true
            · simp only [c5, ↓reduceIte]
              have := ih (pos + 1) cs ls ls2 cl bl (by omega)
              rw [show pre.length + (pos + 1) = pre.length + pos + 1 by omega] at this
              exact this
            · simp only [c5, Bool.false_eq_true, ↓reduceIte]
              by_cases c6 : isSupplementary body pos = true
              · simp only [c6, ↓reduceIte]
                have := ih (pos + 2) cs ls ls2 cl bl (by omega)
                rw [show pre.length + (pos + 2) = pre.length + pos + 2 by omega] at this
                exact this
              · simp only [c6, Bool.false_eq_true, ↓reduceIte, tokOf, Out.bind_err, shiftOut]
                rw [Nat.add_comm]
    · have h2 : ¬ pre.length + pos < (pre ++ body).length := by simp; omega
      simp only [hlt, h2, ↓reduceDIte, tokOf, Out.bind_err, shiftOut]
      rw [Nat.add_comm]

end Gql.Text
