import Gql.Validation.Rules
/-!
C12 — the annotated document: all nodes, the erased tree's nodes, and "the node object with identity `n`" is the
node itself when identities are unique.
-/
namespace Gql.Validation.Rules
open Gql.Validation

namespace ATree

mutual
  /-- all nodes of the document (preorder) -/
  def nodes : ATree → List ATree
    | node i f v cs => node i f v cs :: nodesList cs
  def nodesList : List ATree → List ATree
    | [] => []
    | t :: ts => nodes t ++ nodesList ts
end

/-- Simultaneous induction over an annotated tree and its lists of children. -/
theorem induct {P : ATree → Prop} {Q : List ATree → Prop}
    (hnode : ∀ i f v cs, Q cs → P (node i f v cs)) (hnil : Q [])
    (hcons : ∀ t ts, P t → Q ts → Q (t :: ts)) : (∀ t, P t) ∧ (∀ ts, Q ts) := by
  have H : ∀ n, (∀ t, size t ≤ n → P t) ∧ (∀ ts, sizeList ts ≤ n → Q ts) := by
    intro n
    induction n with
    | zero =>
      constructor
      · intro t ht; cases t; simp [size] at ht
      · intro ts hts
        cases ts with
        | nil => exact hnil
        | cons t ts => cases t; simp [sizeList, size] at hts
    | succ n ih =>
      constructor
      · intro t ht
        cases t with
        | node i f v cs =>
          apply hnode
          apply ih.2
          simp [size] at ht; omega
      · intro ts hts
        cases ts with
        | nil => exact hnil
        | cons t ts =>
          have h1 : 1 ≤ size t := by cases t; simp [size]
          simp [sizeList] at hts
          apply hcons
          · cases t with
            | node i f v cs =>
              apply hnode
              apply ih.2
              simp [size] at hts; omega
          · apply ih.2; omega
  exact ⟨fun t => (H _).1 t (Nat.le_refl _), fun ts => (H _).2 ts (Nat.le_refl _)⟩

theorem infos_erase :
    (∀ t : ATree, t.erase.infos = t.nodes.map ATree.info) ∧
    (∀ ts : List ATree, Tree.infosList (eraseList ts) = (nodesList ts).map ATree.info) := by
  apply induct
  · intro i f v cs ih
    simp [erase, Tree.infos, nodes, ih, info]
  · simp [eraseList, Tree.infosList, nodesList]
  · intro t ts h1 h2
    simp [eraseList, Tree.infosList, nodesList, h1, h2]

theorem id_mem_ids :
    (∀ t : ATree, ∀ n ∈ t.nodes, n.id ∈ t.ids) ∧ (∀ ts : List ATree, ∀ n ∈ nodesList ts, n.id ∈ idsList ts) := by
  apply induct
  · intro i f v cs ih n hn
    simp only [nodes, List.mem_cons] at hn
    simp only [ids, List.mem_cons]
    rcases hn with rfl | hn
    · left; rfl
    · right; exact ih n hn
  · intro n hn; simp [nodesList] at hn
  · intro t ts h1 h2 n hn
    simp only [nodesList, List.mem_append] at hn
    simp only [idsList, List.mem_append]
    rcases hn with hn | hn
    · exact Or.inl (h1 n hn)
    · exact Or.inr (h2 n hn)

theorem find_none :
    (∀ t : ATree, ∀ k, k ∉ t.ids → t.find k = none) ∧ (∀ ts : List ATree, ∀ k, k ∉ idsList ts → findList ts k = none) := by
  apply induct
  · intro i f v cs ih k hk
    simp only [ids, List.mem_cons, not_or] at hk
    rw [find, if_neg (fun h => hk.1 h.symm)]
    exact ih k hk.2
  · intro k _; rfl
  · intro t ts h1 h2 k hk
    simp only [idsList, List.mem_append, not_or] at hk
    rw [findList, h1 k hk.1]
    exact h2 k hk.2

/-- With unique identities, looking a node of the document up by its identity gives that node. -/
theorem find_of_mem :
    (∀ t : ATree, t.ids.Nodup → ∀ n ∈ t.nodes, t.find n.id = some n) ∧
    (∀ ts : List ATree, (idsList ts).Nodup → ∀ n ∈ nodesList ts, findList ts n.id = some n) := by
  apply induct
  · intro i f v cs ih hnd n hn
    simp only [ids, List.nodup_cons] at hnd
    simp only [nodes, List.mem_cons] at hn
    rcases hn with rfl | hn
    · simp [find, ATree.id, info]
    · have hne : i.id ≠ n.id := by
        intro h
        exact hnd.1 (h ▸ id_mem_ids.2 cs n hn)
      rw [find, if_neg hne]
      exact ih hnd.2 n hn
  · intro _ n hn; simp [nodesList] at hn
  · intro t ts h1 h2 hnd n hn
    simp only [idsList, List.nodup_append] at hnd
    simp only [nodesList, List.mem_append] at hn
    rcases hn with hn | hn
    · rw [findList, h1 hnd.1 n hn]
    · have hni : n.id ∉ t.ids := by
        intro h
        exact hnd.2.2 _ h _ (id_mem_ids.2 ts n hn) rfl
      rw [findList, find_none.1 t _ hni]
      exact h2 hnd.2.1 n hn

end ATree
end Gql.Validation.Rules
