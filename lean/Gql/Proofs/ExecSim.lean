/-
C02 — simulation framework: invariants of the executor state (sub-selection memo, default memo,
nulled positions) and the relation `Sim` between a stateful implementation computation and the
specification's pure result.
-/
import Gql.Proofs.ExecCollect3

namespace Gql.Exec.Refine
open Gql.Exec Gql.Exec.Impl

/-- serials of `fds` point to their nodes in the heap -/
def FdsOk (heap : List FieldNode) (fds : List FieldDetails) : Prop :=
  fds ≠ [] ∧ ∀ fd ∈ fds, heap[fd.serial]? = some fd.node

theorem getElem?_mono {α} {l : List α} {i : Nat} {a : α} (h : l[i]? = some a) (ext : List α) :
    (l ++ ext)[i]? = some a := by
  have hlt : i < l.length := (List.getElem?_eq_some_iff.1 h).1
  rw [List.getElem?_append_left hlt]; exact h

theorem FdsOk.mono {heap : List FieldNode} {fds : List FieldDetails} (h : FdsOk heap fds)
    (ext : List FieldNode) : FdsOk (heap ++ ext) fds :=
  ⟨h.1, fun fd hfd => getElem?_mono (h.2 fd hfd) ext⟩

theorem GroupsOk.fdsOk {heap : List FieldNode} {g : Groups} (h : GroupsOk heap g)
    {k : Name} {fds : List FieldDetails} (hm : (k, fds) ∈ g) : FdsOk heap fds := h (k, fds) hm

/-- every memo entry equals recomputation (for any live field details carrying the keyed serials) -/
def MemoInv (cx : Ctx) (st : EState) : Prop :=
  ∀ e ∈ st.memo,
    (∀ s ∈ e.1.2, s < st.heap.length) ∧
    (cx.schema.kind e.1.1 = .object → ∀ fds : List FieldDetails, e.1.2 = fds.map (·.serial) →
      FdsOk st.heap fds →
      Spec.collectFields (toSpec cx) e.1.1 (Spec.mergeSelectionSets (fds.map (·.node))) = .ok (nodes e.2) ∧
      (keys (nodes e.2)).Nodup ∧ GroupsOk st.heap e.2)

/-- every memoised default equals recomputation -/
def DInv (cx : Ctx) (dm : DMemo) : Prop :=
  ∀ e ∈ dm, ∀ (fdef : FieldDef) (a : ArgDef) (lit : Value),
    cx.schema.getField e.1.1 e.1.2.1 = some fdef → fdef.args[e.1.2.2]? = some a →
    a.default = some lit → cx.ops.coerceLiteral cx.schema [] a.type lit = some e.2

/-- all nulled positions are incomparable with `path` -/
def PosInv (positions : List (Option IPath)) (path : IPath) : Prop :=
  ∀ o ∈ positions, ∃ q, o = some q ∧ ¬ q <:+ path ∧ ¬ path <:+ q

structure Inv (cx : Ctx) (st : EState) (path : IPath) : Prop where
  memo : MemoInv cx st
  dmemo : DInv cx st.dmemo
  pos : PosInv st.positions path

/-- what a computation at `path` did to the state -/
structure Post (cx : Ctx) (st st' : EState) (path : IPath) (strict : Bool) (errs : List FErr)
    (log : List Call) : Prop where
  errors : st'.errors = st.errors ++ errs
  log : st'.log = st.log ++ log
  positions : ∃ ps, st'.positions = st.positions ++ ps ∧
    ∀ o ∈ ps, ∃ q, o = some q ∧ path <:+ q ∧ (strict = true → q ≠ path)
  heap : ∃ ext, st'.heap = st.heap ++ ext
  memo : MemoInv cx st'
  dmemo : DInv cx st'.dmemo

theorem Post.refl {cx : Ctx} {st : EState} {path : IPath} {strict : Bool}
    (hm : MemoInv cx st) (hd : DInv cx st.dmemo) : Post cx st st path strict [] [] :=
  ⟨by simp, by simp, ⟨[], by simp, by simp⟩, ⟨[], by simp⟩, hm, hd⟩

theorem Post.trans {cx : Ctx} {st st1 st2 : EState} {path : IPath} {strict : Bool}
    {e1 e2 : List FErr} {l1 l2 : List Call}
    (h1 : Post cx st st1 path strict e1 l1) (h2 : Post cx st1 st2 path strict e2 l2) :
    Post cx st st2 path strict (e1 ++ e2) (l1 ++ l2) := by
  obtain ⟨ps1, hp1, hq1⟩ := h1.positions
  obtain ⟨ps2, hp2, hq2⟩ := h2.positions
  obtain ⟨x1, hx1⟩ := h1.heap
  obtain ⟨x2, hx2⟩ := h2.heap
  refine ⟨by rw [h2.errors, h1.errors, List.append_assoc], by rw [h2.log, h1.log, List.append_assoc],
    ⟨ps1 ++ ps2, by rw [hp2, hp1, List.append_assoc], ?_⟩, ⟨x1 ++ x2, by rw [hx2, hx1, List.append_assoc]⟩,
    h2.memo, h2.dmemo⟩
  intro o ho
  rcases List.mem_append.1 ho with ho | ho
  · exact hq1 o ho
  · exact hq2 o ho

/-- a computation at a child position, seen from the parent position -/
theorem Post.lift {cx : Ctx} {st st' : EState} {path : IPath} {seg : ISeg} {strict : Bool}
    {e : List FErr} {l : List Call}
    (h : Post cx st st' (seg :: path) strict e l) : Post cx st st' path true e l := by
  obtain ⟨ps, hp, hq⟩ := h.positions
  refine ⟨h.errors, h.log, ⟨ps, hp, ?_⟩, h.heap, h.memo, h.dmemo⟩
  intro o ho
  obtain ⟨q, rfl, hsuf, _⟩ := hq o ho
  refine ⟨q, rfl, ?_, ?_⟩
  · exact List.IsSuffix.trans (List.suffix_cons seg path) hsuf
  · intro _ heq
    subst heq
    have := List.IsSuffix.length_le hsuf
    simp only [List.length_cons] at this
    omega

theorem Post.weaken {cx : Ctx} {st st' : EState} {path : IPath} {strict : Bool}
    {e : List FErr} {l : List Call}
    (h : Post cx st st' path strict e l) : Post cx st st' path false e l := by
  obtain ⟨ps, hp, hq⟩ := h.positions
  refine ⟨h.errors, h.log, ⟨ps, hp, ?_⟩, h.heap, h.memo, h.dmemo⟩
  intro o ho
  obtain ⟨q, rfl, hsuf, _⟩ := hq o ho
  exact ⟨q, rfl, hsuf, by simp⟩

/-! ### the ancestor filter never fires in depth-first order -/

theorem hasNulled_false (positions : List (Option IPath)) (path : IPath)
    (h : ∀ o ∈ positions, ∃ q, o = some q ∧ ¬ q <:+ path) : hasNulled positions path = false := by
  induction path with
  | nil =>
    simp only [hasNulled, Bool.or_eq_false_iff, List.contains_eq_mem, decide_eq_false_iff_not]
    constructor
    · intro hm
      obtain ⟨q, hq, hn⟩ := h _ hm
      cases hq
      exact hn (List.suffix_refl _)
    · intro hm
      obtain ⟨q, hq, _⟩ := h _ hm
      cases hq
  | cons seg prev ih =>
    simp only [hasNulled, Bool.or_eq_false_iff, List.contains_eq_mem, decide_eq_false_iff_not]
    constructor
    · intro hm
      obtain ⟨q, hq, hn⟩ := h _ hm
      cases hq
      exact hn (List.suffix_refl _)
    · apply ih
      intro o ho
      obtain ⟨q, hq, hn⟩ := h o ho
      exact ⟨q, hq, fun hs => hn (List.IsSuffix.trans hs (List.suffix_cons seg prev))⟩

/-- positions incomparable with `path` are incomparable with every child of `path` -/
theorem PosInv.cons {positions : List (Option IPath)} {path : IPath} (h : PosInv positions path)
    (seg : ISeg) : PosInv positions (seg :: path) := by
  intro o ho
  obtain ⟨q, rfl, h1, h2⟩ := h o ho
  refine ⟨q, rfl, ?_, ?_⟩
  · intro hs
    rcases List.suffix_cons_iff.1 hs with heq | hs'
    · subst heq
      exact h2 (List.suffix_cons seg path)
    · exact h1 hs'
  · intro hs
    exact h2 (List.IsSuffix.trans (List.suffix_cons seg path) hs)

/-- after a sibling position `seg :: path` has been executed, its positions are incomparable with
a different sibling `seg' :: path` -/
theorem incomparable_sibling {path q : IPath} {seg seg' : ISeg} (hne : seg ≠ seg')
    (hq : (seg :: path) <:+ q) : ¬ q <:+ (seg' :: path) ∧ ¬ (seg' :: path) <:+ q := by
  obtain ⟨pre, rfl⟩ := hq
  constructor
  · intro hs
    have hlen := List.IsSuffix.length_le hs
    simp only [List.length_append, List.length_cons] at hlen
    have : pre = [] := by
      cases pre with
      | nil => rfl
      | cons a t => simp at hlen; omega
    subst this
    simp only [List.nil_append] at hs
    have := List.IsSuffix.eq_of_length hs (by simp)
    exact hne (List.cons.inj this).1
  · intro hs
    obtain ⟨pre', hpre'⟩ := hs
    have h1 : (pre' ++ [seg']) ++ path = (pre ++ [seg]) ++ path := by simpa using hpre'
    have h2 := List.append_cancel_right h1
    have h3 := congrArg List.getLast? h2
    simp at h3
    exact hne h3.symm

end Gql.Exec.Refine
