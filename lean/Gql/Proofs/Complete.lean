import Gql.Proofs.Roots
/-!
P4b: in a complete stream every announced id has been completed.

Run invariant: the pump bookkeeping (`PumpInv`), "stopped ⇒ no root left", and "the tracked
domain of the publisher's table is inside the roots".
-/
namespace Gql.Async
open Gql.Spec.Protocol

/-- A stream whose pump was started is still a root unless the environment already delivered
its end (success / failure, or a batch with `is_stopped()` true). -/
def PumpInv (e : EnvSt) (q : WQ) : Prop :=
  ∀ s ∈ q.pumps, s ∈ q.rootStreams ∨ s ∈ e.streamDone ∨ s ∈ e.streamPeeked

/-- Root streams only grow by `nss`, whose pumps are started. -/
def StreamGrow (q q' : WQ) : Prop :=
  ∃ nss, q'.rootStreams = nss.foldl oinsert q.rootStreams ∧ q'.pumps = q.pumps ++ nss

theorem StreamGrow.of_frame {q q' : WQ} (h : StreamFrame q q') : StreamGrow q q' :=
  ⟨[], by simp [h.rs], by simp [h.pm]⟩

theorem StreamGrow.trans {a b c : WQ} (h1 : StreamGrow a b) (h2 : StreamGrow b c) : StreamGrow a c := by
  obtain ⟨n1, r1, p1⟩ := h1
  obtain ⟨n2, r2, p2⟩ := h2
  exact ⟨n1 ++ n2, by rw [r2, r1, List.foldl_append], by rw [p2, p1, List.append_assoc]⟩

theorem PumpInv.grow {e : EnvSt} {q q' : WQ} (h : PumpInv e q) (g : StreamGrow q q') : PumpInv e q' := by
  obtain ⟨nss, r, p⟩ := g
  intro s hs
  rw [p] at hs
  rw [r, mem_foldl_oinsert]
  rcases List.mem_append.mp hs with hs | hs
  · rcases h s hs with h1 | h1
    · exact Or.inl (Or.inl h1)
    · exact Or.inr h1
  · exact Or.inl (Or.inr hs)

theorem startNewWork_grow (σ : Static) (q : WQ) (ngs nss : List Nat) :
    StreamGrow q (startNewWork σ q ngs nss) :=
  ⟨nss, (startNewWork_roots σ q ngs nss).2.1, (startNewWork_roots σ q ngs nss).2.2.2⟩

theorem successStep_sframe (σ : Static) (acc : WQ × List WQEvent × List Nat × List Nat) (g : Nat) :
    StreamFrame acc.1 (successStep σ acc g).1 := by
  unfold successStep
  split
  · simp only
    split
    · exact StreamFrame.trans (b := { acc.1 with groupNodes := aset acc.1.groupNodes g _ }) ⟨rfl, rfl, rfl⟩
        (finishGroupSuccess_roots σ _ g _).2
    · exact ⟨rfl, rfl, rfl⟩
  · exact StreamFrame.refl _

theorem failureStep_sframe (σ : Static) (acc : WQ × List WQEvent) (g : Nat) :
    StreamFrame acc.1 (failureStep σ acc g).1 := by
  unfold failureStep
  split
  · exact (finishGroupFailure_roots σ acc.1 g _).2.1
  · exact StreamFrame.refl _

theorem foldl_sframe1 {α β : Type} (f : WQ × β → α → WQ × β) (l : List α) (acc : WQ × β)
    (h : ∀ acc a, StreamFrame acc.1 (f acc a).1) : StreamFrame acc.1 (l.foldl f acc).1 := by
  induction l generalizing acc with
  | nil => exact StreamFrame.refl _
  | cons a l ih => exact (h acc a).trans (ih _)

theorem taskSuccess_grow (σ : Static) (q : WQ) (t : Nat) (r : TResult) :
    StreamGrow q (taskSuccess σ q t r).1 := by
  unfold taskSuccess
  simp only
  have f1 : StreamFrame q (integrateWork σ (setTaskValue q t r.value) r.work (some t)).1 :=
    ((setTaskValue_frame q t r.value).trans (integrateWork_frame σ _ _ _)).toStream
  have f2 := foldl_sframe1 (successStep σ) (σ.tgroups t)
    ((integrateWork σ (setTaskValue q t r.value) r.work (some t)).1, [], [], []) (successStep_sframe σ)
  exact (StreamGrow.of_frame (f1.trans f2)).trans (startNewWork_grow σ _ _ _)

theorem taskFailure_sframe (σ : Static) (q : WQ) (t : Nat) : StreamFrame q (taskFailure σ q t).1 := by
  unfold taskFailure
  have f0 : StreamFrame q ({ q with taskNodes := aerase q.taskNodes t } : WQ) := ⟨rfl, rfl, rfl⟩
  exact f0.trans (foldl_sframe1 (failureStep σ) (σ.tgroups t)
    (({ q with taskNodes := aerase q.taskNodes t } : WQ), ([] : List WQEvent)) (failureStep_sframe σ))

theorem itemStep_grow (σ : Static) (acc : WQ × List IVal × List Nat × List Nat) (it : IResult) :
    StreamGrow acc.1 (itemStep σ acc it).1 := by
  unfold itemStep
  simp only
  exact (StreamGrow.of_frame ((integrateWork_frame σ acc.1 it.work none).trans
    (pruneEmpty_frame _ _)).toStream).trans (startNewWork_grow σ _ _ _)

theorem items_grow (σ : Static) (items : List IResult) (acc : WQ × List IVal × List Nat × List Nat) :
    StreamGrow acc.1 (items.foldl (itemStep σ) acc).1 := by
  induction items generalizing acc with
  | nil => exact StreamGrow.of_frame (StreamFrame.refl _)
  | cons it items ih => exact (itemStep_grow σ acc it).trans (ih _)

/-! ### the environment ghost state -/

theorem intro_streams (e : EnvSt) (w : Option Work) :
    (e.intro w).streamDone = e.streamDone ∧ (e.intro w).streamPeeked = e.streamPeeked := by
  cases w <;> exact ⟨rfl, rfl⟩

theorem itemsOk_streams (σ : Static) (q : WQ) (items : List IResult) (e : EnvSt) (n : Nat)
    (e' : EnvSt) (n' : Nat) (h : itemsOk σ q e n items = some (e', n')) :
    e'.streamDone = e.streamDone ∧ e'.streamPeeked = e.streamPeeked := by
  induction items generalizing e n with
  | nil => simp [itemsOk] at h; obtain ⟨rfl, _⟩ := h; exact ⟨rfl, rfl⟩
  | cons it items ih =>
    unfold itemsOk at h
    by_cases hc : (idxMatches it.value.idx n && workOptOk σ e q none it.work) = true
    · rw [if_pos hc] at h
      obtain ⟨a, b⟩ := ih _ _ h
      obtain ⟨c, d⟩ := intro_streams e it.work
      exact ⟨a.trans c, b.trans d⟩
    · rw [if_neg hc] at h; cases h

theorem contains_mem (xs : List Nat) (x : Nat) : xs.contains x = true ↔ x ∈ xs := by simp

theorem pumpInv_handle (σ : Static) (e : EnvSt) (q : WQ) (ev : GraphEvent) (e' : EnvSt)
    (h : PumpInv e q) (hok : eventOk σ e q ev = some e') : PumpInv e' (handleGraphEvent σ q ev).1 := by
  cases ev with
  | taskSuccess t r =>
    simp only [eventOk] at hok
    split at hok
    · cases hok
      have hg := h.grow (taskSuccess_grow σ q t r)
      obtain ⟨a, b⟩ := intro_streams e r.work
      intro s hs
      rcases hg s hs with h1 | h1 | h1
      · exact Or.inl h1
      · exact Or.inr (Or.inl (by simpa [a] using h1))
      · exact Or.inr (Or.inr (by simpa [b] using h1))
    · cases hok
  | taskFailure t =>
    simp only [eventOk] at hok
    split at hok
    · cases hok
      exact h.grow (StreamGrow.of_frame (taskFailure_sframe σ q t))
    · cases hok
  | streamItems s items st =>
    simp only [eventOk] at hok
    split at hok
    · cases hi : itemsOk σ q e ((alookup e.streamNext s).getD 0) items with
      | none => simp [hi] at hok
      | some r =>
        obtain ⟨e1, n1⟩ := r
        simp only [hi, Option.some.injEq] at hok
        obtain ⟨a, b⟩ := itemsOk_streams σ q items e _ e1 n1 hi
        have hg : PumpInv e (items.foldl (itemStep σ) (q, [], [], [])).1 :=
          h.grow (items_grow σ items (q, [], [], []))
        subst hok
        simp only [handleGraphEvent, streamItems]
        cases st with
        | true =>
          simp only [if_true]
          intro x hx
          by_cases hxs : x = s
          · subst hxs; exact Or.inr (Or.inr (by simp))
          · rcases hg x hx with h1 | h1 | h1
            · exact Or.inl (by simp only [mem_oerase]; exact ⟨h1, hxs⟩)
            · exact Or.inr (Or.inl (by simpa [a] using h1))
            · exact Or.inr (Or.inr (by simp [b, h1]))
        | false =>
          simp only [Bool.false_eq_true, if_false]
          intro x hx
          rcases hg x hx with h1 | h1 | h1
          · exact Or.inl h1
          · exact Or.inr (Or.inl (by simpa [a] using h1))
          · exact Or.inr (Or.inr (by simpa [b] using h1))
    · cases hok
  | streamSuccess s =>
    simp only [eventOk] at hok
    split at hok
    · cases hok
      simp only [handleGraphEvent]
      split
      · intro x hx
        by_cases hxs : x = s
        · subst hxs; exact Or.inr (Or.inl (by simp))
        · rcases h x hx with h1 | h1 | h1
          · exact Or.inl (by simp only [mem_oerase]; exact ⟨h1, hxs⟩)
          · exact Or.inr (Or.inl (by simp [h1]))
          · exact Or.inr (Or.inr h1)
      · intro x hx
        rcases h x hx with h1 | h1 | h1
        · exact Or.inl h1
        · exact Or.inr (Or.inl (by simp [h1]))
        · exact Or.inr (Or.inr h1)
    · cases hok
  | streamFailure s =>
    simp only [eventOk] at hok
    split at hok
    · cases hok
      simp only [handleGraphEvent]
      intro x hx
      by_cases hxs : x = s
      · subst hxs; exact Or.inr (Or.inl (by simp))
      · rcases h x hx with h1 | h1 | h1
        · exact Or.inl (by simp only [mem_oerase]; exact ⟨h1, hxs⟩)
        · exact Or.inr (Or.inl (by simp [h1]))
        · exact Or.inr (Or.inr h1)
    · cases hok
  | stop => simp only [eventOk] at hok; cases hok; exact h

/-- A legal, not yet finished batch delivery concerns a root stream. -/
theorem streamItems_isRoot (σ : Static) (e : EnvSt) (q : WQ) (s : Nat) (items : List IResult) (st : Bool)
    (e' : EnvSt) (h : PumpInv e q) (hok : eventOk σ e q (.streamItems s items st) = some e') :
    s ∈ q.rootStreams := by
  simp only [eventOk] at hok
  split at hok
  · rename_i hc
    simp only [Bool.and_eq_true, Bool.not_eq_true', contains_mem] at hc
    rcases h s hc.1.1 with h1 | h1 | h1
    · exact h1
    · have := hc.1.2; simp [h1] at this
    · have := hc.2; simp [h1] at this
  · cases hok

/-! ### the run invariant -/

/-- Pump bookkeeping, "stopped ⇒ no roots", and the tracked domain inside the roots. -/
def DomInv (D0 : List Node) (e : EnvSt) (q : WQ) (E : List WQEvent) : Prop :=
  PumpInv e q ∧ (q.stopped = true → q.rootGroups = [] ∧ q.rootStreams = []) ∧
  ∀ n ∈ domSteps D0 E, isRoot q n

theorem domInv_run (σ : Static) (D0 : List Node) : RunInv σ (DomInv D0) where
  handle := by
    intro e q ev e' E ⟨h1, _, h3⟩ hst hok
    refine ⟨pumpInv_handle σ e q ev e' h1 hok, ?_, ?_⟩
    · intro hs; rw [handleGraphEvent_stopped, hst] at hs; cases hs
    · rw [domSteps_append]
      apply handle_dom σ q ev _ h3
      intro s items hev
      subst hev
      exact streamItems_isRoot σ e q s items false e' h1 hok
  chan := by intro e q E c h; exact h
  defer := by intro e q E d h; exact h
  term := by
    intro e q E ⟨h1, _, h3⟩ hg hs
    refine ⟨h1, fun _ => ⟨by simpa using hg, by simpa using hs⟩, ?_⟩
    intro n hn
    rw [domSteps_append, domSteps_one] at hn
    simp only [domStep, domMid, evNew, List.append_nil] at hn
    exact h3 n hn

theorem isRoot_startRoots (σ : Static) (q : WQ) (n : Node) : isRoot (startRoots σ q) n ↔ isRoot q n := by
  unfold startRoots
  simp only
  have f1 : RootFrame q (q.rootGroups.foldl (startGroup σ) q) := foldl_frame _ _ _ (startGroup_frame σ)
  have f2 : ∀ (l : List Nat) (q' : WQ), (l.foldl startStream q').rootGroups = q'.rootGroups ∧
      (l.foldl startStream q').rootStreams = q'.rootStreams := by
    intro l
    induction l with
    | nil => intro q'; exact ⟨rfl, rfl⟩
    | cons s l ih => intro q'; simp only [List.foldl_cons]; exact ih _
  cases n with
  | group g => simp only [isRoot, (f2 _ _).1, f1.rg]
  | stream s => simp only [isRoot, (f2 _ _).2, f1.rs]

theorem startRoots_pumps (σ : Static) (q : WQ) :
    (startRoots σ q).pumps = q.pumps ++ q.rootStreams ∧ (startRoots σ q).stopped = q.stopped := by
  unfold startRoots
  simp only
  have f1 : RootFrame q (q.rootGroups.foldl (startGroup σ) q) := foldl_frame _ _ _ (startGroup_frame σ)
  have f2 : ∀ (l : List Nat) (q' : WQ), (l.foldl startStream q').pumps = q'.pumps ++ l ∧
      (l.foldl startStream q').stopped = q'.stopped := by
    intro l
    induction l with
    | nil => intro q'; simp
    | cons s l ih =>
      intro q'
      simp only [List.foldl_cons]
      obtain ⟨a, b⟩ := ih (startStream q' s)
      exact ⟨by rw [a]; simp [startStream], by rw [b]; rfl⟩
  obtain ⟨a, b⟩ := f2 (q.rootGroups.foldl (startGroup σ) q).rootStreams (q.rootGroups.foldl (startGroup σ) q)
  exact ⟨by rw [a, f1.pm, f1.rs], by rw [b, f1.st]⟩

theorem init_facts (σ : Static) (work : Option Work) :
    (init σ work).1.pumps = [] ∧ (init σ work).1.stopped = false ∧
    (∀ n, n ∈ nodesOf (init σ work).2.1 (init σ work).2.2 → isRoot (init σ work).1 n) := by
  unfold init
  simp only
  have f : RootFrame ({} : WQ) (pruneEmpty (integrateWork σ {} work none).1 (integrateWork σ {} work none).2.1).1 :=
    (integrateWork_frame σ {} work none).trans (pruneEmpty_frame _ _)
  refine ⟨f.pm, f.st, ?_⟩
  intro n hn
  rcases (mem_nodesOf _ _ n).mp hn with ⟨g, hg, rfl⟩ | ⟨s, hs, rfl⟩
  · simp only [isRoot, mem_foldl_oinsert]; exact Or.inr hg
  · simp only [isRoot, mem_foldl_oinsert]; exact Or.inr hs

/-- At the end of every well-formed history: the publisher's table only holds roots of the
scheduler, and a stopped scheduler has no roots. -/
theorem domInv_final (σ : Static) (fuel : Nat) (work : Option Work) (h : List Tick)
    (hok : envOk σ fuel work h = true) :
    ∃ e, DomInv (nodesOf (init σ work).2.1 (init σ work).2.2) e
      (wqRun σ fuel (wqStart σ fuel work) h).1 (wqRun σ fuel (wqStart σ fuel work) h).2.flatten := by
  apply (domInv_run σ _).envOk fuel work h ?_ hok
  obtain ⟨hp, hst, hr⟩ := init_facts σ work
  obtain ⟨sp, sst⟩ := startRoots_pumps σ (init σ work).1
  refine ⟨?_, ?_, ?_⟩
  · intro s hs
    rw [sp, hp, List.nil_append] at hs
    exact Or.inl ((isRoot_startRoots σ _ (.stream s)).mpr hs)
  · intro hs; rw [sst, hst] at hs; cases hs
  · intro n hn
    exact (isRoot_startRoots σ _ n).mpr (hr n hn)

/-! ### the publisher over the whole run -/

theorem publish_open (π : PubStatic) (bs : List (List WQEvent)) (p : Pub) (A C : List Nat)
    (hp : PubInv p) (hr : Ret p C) (hn : C.Nodup) (h : ∀ i ∈ A, i ∈ C ∨ live p i) :
    ∀ i ∈ A ++ announcedIds (publish π p bs).2,
      i ∈ C ++ completedIds (publish π p bs).2 ∨ live (publish π p bs).1 i := by
  induction bs generalizing p A C with
  | nil => simpa [publish, announcedIds, completedIds] using h
  | cons b bs ih =>
    obtain ⟨h1, h2, h3, _, _⟩ := handleBatch_spec π p C b hp hr hn
    have hb := handleBatch_open π b p A C hp h
    have := ih (handleBatch π p b).1 _ _ h1 h2 h3 hb
    simpa [publish, announcedIds, completedIds, List.append_assoc] using this

theorem initial_table (π : PubStatic) (gs ss : List Nat) :
    PubInv (initialPayload π gs ss).1 ∧ DomSub (initialPayload π gs ss).1 (nodesOf gs ss) ∧
    (∀ a ∈ (initialPayload π gs ss).2.pending, live (initialPayload π gs ss).1 a.id) ∧
    (initialPayload π gs ss).2.completed = [] := by
  unfold initialPayload
  simp only
  obtain ⟨t1, _, t3⟩ := toPending_spec π {} gs ss pubInv_empty
  refine ⟨t1, ?_, t3, trivial⟩
  intro n i hn
  rcases toPending_dom π {} gs ss n i hn with h | h
  · simp [alookup] at h
  · exact h

end Gql.Async
