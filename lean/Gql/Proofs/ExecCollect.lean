/-
C02 — CollectFields refinement: the implementation's `collect_fields_impl` (shared mutable
grouped dict, visited map checked after the type condition) computes the specification's
CollectFields (fresh groups merged upward, visited set extended before the fragment lookup).
-/
import Gql.Proofs.ExecGroups

namespace Gql.Exec.Refine
open Gql.Exec

/-- The one law of the value layer the refinement needs: a variable without a runtime value is
not coercible at a Non-Null type (`coerce_input_literal` returns `Undefined`). -/
structure OpsOk (ops : Ops) : Prop where
  missing_var : ∀ (s : Schema) (vars : Vars) (t : TypeRef) (x : Name),
    vars.lookup x = none → t.nonNull = true → ops.coerceLiteral s vars t (.var x) = none

def toSpec (cx : Impl.Ctx) : Spec.Ctx :=
  { ops := cx.ops, schema := cx.schema, doc := cx.doc, vars := cx.vars }

def dirOut : Option Bool → Out Impl.Exn Bool
  | some b => .ok b
  | none => .err (.raw .directiveCoercion)

theorem dirIf_eq (cx : Impl.Ctx) (h : OpsOk cx.ops) (d : Directive) :
    Impl.dirIf cx d = dirOut (Spec.directiveIf (toSpec cx) d) := by
  unfold Impl.dirIf Spec.directiveIf Spec.coerceArgumentValues
  simp only [toSpec, boolNN, TypeRef.nonNull]
  cases hl : lookupArg d.args "if" with
  | none => simp [dirOut]
  | some v =>
    cases v with
    | var x =>
      cases hx : List.lookup x cx.vars with
      | none =>
        have := h.missing_var cx.schema cx.vars (.named "Boolean" true) x hx rfl
        simp [this, dirOut]
      | some w =>
        cases hc : cx.ops.coerceLiteral cx.schema cx.vars (.named "Boolean" true) (.var x) <;>
          simp [dirOut, List.lookup, hx, hc, Spec.coerceArgumentValues, ArgMap.set]
    | _ =>
      simp only [Bool.not_true, Option.isSome_none, Bool.and_false, Bool.false_eq_true, ↓reduceIte]
      first
        | (cases hc : cx.ops.coerceLiteral cx.schema cx.vars (.named "Boolean" true) _ <;>
            simp [dirOut, List.lookup, hc, Spec.coerceArgumentValues, ArgMap.set])

theorem shouldInclude_eq (cx : Impl.Ctx) (h : OpsOk cx.ops) (dirs : List Directive) :
    Impl.shouldInclude cx dirs = dirOut (Spec.included (toSpec cx) dirs) := by
  unfold Impl.shouldInclude Spec.included
  cases hs : dirs.find? (fun d => d.name == "skip") with
  | none =>
    simp only
    cases hi : dirs.find? (fun d => d.name == "include") with
    | none => simp [dirOut]
    | some d => simp [dirIf_eq cx h]
  | some d =>
    simp only [dirIf_eq cx h]
    cases hd : Spec.directiveIf (toSpec cx) d with
    | none => simp [dirOut]
    | some b =>
      cases b with
      | true => simp [dirOut]
      | false =>
        simp only [dirOut]
        cases hi : dirs.find? (fun d => d.name == "include") with
        | none => simp
        | some d' => simp [dirIf_eq cx h, dirOut]

/-- `does_fragment_condition_match` = DoesFragmentTypeApply when the runtime type is an object type -/
theorem condMatch_eq (s : Schema) (c rt : Name) (hrt : s.kind rt = .object) :
    Impl.condMatch s (some c) rt = Spec.doesFragmentTypeApply s rt c := by
  unfold Impl.condMatch Spec.doesFragmentTypeApply
  by_cases hc : c = rt
  · subst hc
    unfold Schema.kind at hrt
    cases hl : s.lookup c with
    | none => simp [hl] at hrt
    | some d => cases d <;> simp_all
  · have hc' : (c == rt) = false := by simpa using hc
    unfold Schema.kind
    cases hl : s.lookup c with
    | none => simp [hl]
    | some d => cases d <;> simp [hc', hl]

/-! ### the refinement relation for CollectFields -/

def applicable (cx : Impl.Ctx) (rt : Name) (n : Name) : Bool :=
  match cx.doc.frag n with
  | none => false
  | some fr => Impl.condMatch cx.schema (some fr.cond) rt

/-- the implementation only records fragments it actually entered -/
def VisRel (cx : Impl.Ctx) (rt : Name) (ivis svis : List Name) : Prop :=
  ivis = svis.filter (applicable cx rt)

/-- every group is non-empty and every field details object is the one allocated under its serial -/
def GroupsOk (heap : List FieldNode) (g : Impl.Groups) : Prop :=
  ∀ p ∈ g, p.2 ≠ [] ∧ ∀ fd ∈ p.2, heap[fd.serial]? = some fd.node

theorem GroupsOk.mono {heap : List FieldNode} {g : Impl.Groups} (h : GroupsOk heap g)
    (ext : List FieldNode) : GroupsOk (heap ++ ext) g := by
  intro p hp
  refine ⟨(h p hp).1, ?_⟩
  intro fd hfd
  have := (h p hp).2 fd hfd
  have hlt : fd.serial < heap.length := (List.getElem?_eq_some_iff.1 this).1
  rw [List.getElem?_append_left hlt]
  exact this

theorem GroupsOk.addField {heap : List FieldNode} {g : Impl.Groups} (h : GroupsOk heap g)
    (k : Name) (node : FieldNode) :
    GroupsOk (heap ++ [node]) (Impl.addField g k ⟨heap.length, node⟩) := by
  induction g with
  | nil =>
    intro p hp
    simp only [Impl.addField, List.mem_singleton] at hp
    subst hp
    simp
  | cons hd t ih =>
    obtain ⟨k', fds⟩ := hd
    have ht : GroupsOk heap t := fun p hp => h p (List.mem_cons_of_mem _ hp)
    have hhd := h (k', fds) (List.mem_cons_self ..)
    have hmono := GroupsOk.mono h [node]
    intro p hp
    simp only [Impl.addField] at hp
    split at hp
    · simp only [List.mem_cons] at hp
      rcases hp with hp | hp
      · subst hp
        refine ⟨by simp, ?_⟩
        intro fd hfd
        simp only [List.mem_append, List.mem_singleton] at hfd
        rcases hfd with hfd | hfd
        · exact (hmono (k', fds) (List.mem_cons_self ..)).2 fd hfd
        · subst hfd; simp
      · exact hmono p (List.mem_cons_of_mem _ hp)
    · simp only [List.mem_cons] at hp
      rcases hp with hp | hp
      · subst hp
        exact hmono (k', fds) (List.mem_cons_self ..)
      · exact ih ht p hp

open Impl in
/-- outcome relation between one implementation collection step and the specification's -/
def CRel (cx : Impl.Ctx) (rt : Name) (B : SG) (st : CState) (ir : Out Exn CState)
    (sr : Out ErrKind (SG × List Name)) : Prop :=
  match sr with
  | .ok (acc', vis') =>
    ∃ st', ir = .ok st' ∧ nodes st'.groups = Spec.mergeGroups B acc' ∧ (keys acc').Nodup ∧
      VisRel cx rt st'.visited vis' ∧ (∃ ext, st'.heap = st.heap ++ ext) ∧ GroupsOk st'.heap st'.groups
  | .err k => ir = .err (.raw k)
  | .crash c => ir = .crash c

open Impl in
def RecRel (cx : Impl.Ctx) (rt : Name)
    (irecur : List Selection → CState → Out Exn CState)
    (srecur : List Selection → List Name → Out ErrKind (SG × List Name)) : Prop :=
  ∀ sels st vis, VisRel cx rt st.visited vis → GroupsOk st.heap st.groups →
    CRel cx rt (nodes st.groups) st (irecur sels st) (srecur sels vis)

end Gql.Exec.Refine
