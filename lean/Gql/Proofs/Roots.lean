import Gql.Proofs.Run
import Gql.Proofs.PublisherAnn
/-!
The publisher's id table never holds a node that is not a root of the scheduler:
`domSteps D events ⊆ roots` is preserved by every graph-event handler.  With the termination
condition of `events()` (no root left) this gives P4b: when the stream ends, every announced
id has been completed.
-/
namespace Gql.Async
open Gql.Spec.Protocol

/-- `n` is a root group / root stream of the scheduler. -/
def isRoot (q : WQ) : Node → Prop
  | .group g => g ∈ q.rootGroups
  | .stream s => s ∈ q.rootStreams

/-- Same root streams, pump log and `stopped` flag (root groups may differ). -/
structure StreamFrame (q q' : WQ) : Prop where
  rs : q'.rootStreams = q.rootStreams
  st : q'.stopped = q.stopped
  pm : q'.pumps = q.pumps

theorem RootFrame.toStream {q q' : WQ} (h : RootFrame q q') : StreamFrame q q' := ⟨h.rs, h.st, h.pm⟩
theorem StreamFrame.refl (q : WQ) : StreamFrame q q := ⟨rfl, rfl, rfl⟩
theorem StreamFrame.trans {a b c : WQ} (h1 : StreamFrame a b) (h2 : StreamFrame b c) : StreamFrame a c :=
  ⟨h2.rs.trans h1.rs, h2.st.trans h1.st, h2.pm.trans h1.pm⟩

theorem isRoot_of_frame {q q' : WQ} (h : RootFrame q q') (n : Node) : isRoot q' n ↔ isRoot q n := by
  cases n <;> simp [isRoot, h.rg, h.rs]

/-! ### membership in the tracked domain -/

theorem mem_nodesOf (gs ss : List Nat) (n : Node) :
    n ∈ nodesOf gs ss ↔ (∃ g ∈ gs, n = .group g) ∨ (∃ s ∈ ss, n = .stream s) := by
  simp only [nodesOf, List.mem_append, List.mem_map]
  constructor
  · rintro (⟨g, hg, rfl⟩ | ⟨s, hs, rfl⟩)
    · exact Or.inl ⟨g, hg, rfl⟩
    · exact Or.inr ⟨s, hs, rfl⟩
  · rintro (⟨g, hg, rfl⟩ | ⟨s, hs, rfl⟩)
    · exact Or.inl ⟨g, hg, rfl⟩
    · exact Or.inr ⟨s, hs, rfl⟩

theorem nodesOf_append (a b c d : List Nat) (n : Node) :
    n ∈ nodesOf (a ++ b) (c ++ d) ↔ n ∈ nodesOf a c ∨ n ∈ nodesOf b d := by
  simp only [nodesOf, List.map_append, List.mem_append]
  constructor
  · rintro ((h | h) | (h | h))
    · exact Or.inl (Or.inl h)
    · exact Or.inr (Or.inl h)
    · exact Or.inl (Or.inr h)
    · exact Or.inr (Or.inr h)
  · rintro ((h | h) | (h | h))
    · exact Or.inl (Or.inl h)
    · exact Or.inr (Or.inl h)
    · exact Or.inl (Or.inr h)
    · exact Or.inr (Or.inr h)

theorem mem_domStep_GV (D : List Node) (g : Nat) (v : List GVal) (n : Node) :
    n ∈ domStep D (.groupValues g v) ↔ n = .group g ∨ n ∈ D := by
  simp only [domStep, domMid, evNew, List.mem_cons, List.append_nil]

theorem mem_domStep_GS (D : List Node) (g : Nat) (ng ns : List Nat) (n : Node) :
    n ∈ domStep D (.groupSuccess g ng ns) ↔ (n ∈ D ∧ n ≠ .group g) ∨ n ∈ nodesOf ng ns := by
  simp only [domStep, domMid, evNew, List.mem_append, List.mem_filter, decide_eq_true_eq]

theorem mem_domStep_GF (D : List Node) (g : Nat) (n : Node) :
    n ∈ domStep D (.groupFailure g) ↔ n ∈ D ∧ n ≠ .group g := by
  simp only [domStep, domMid, evNew, List.mem_filter, decide_eq_true_eq, List.append_nil]

theorem mem_domStep_SV (D : List Node) (s : Nat) (v : List IVal) (ng ns : List Nat) (n : Node) :
    n ∈ domStep D (.streamValues s v ng ns) ↔ (n = .stream s ∨ n ∈ D) ∨ n ∈ nodesOf ng ns := by
  simp only [domStep, domMid, evNew, List.mem_append, List.mem_cons]

theorem mem_domStep_SS (D : List Node) (s : Nat) (n : Node) :
    n ∈ domStep D (.streamSuccess s) ↔ n ∈ D ∧ n ≠ .stream s := by
  simp only [domStep, domMid, evNew, List.mem_filter, decide_eq_true_eq, List.append_nil]

theorem mem_domStep_SF (D : List Node) (s : Nat) (n : Node) :
    n ∈ domStep D (.streamFailure s) ↔ n ∈ D ∧ n ≠ .stream s := by
  simp only [domStep, domMid, evNew, List.mem_filter, decide_eq_true_eq, List.append_nil]

theorem domSteps_nil (D : List Node) : domSteps D [] = D := rfl
theorem domSteps_one (D : List Node) (e : WQEvent) : domSteps D [e] = domStep D e := rfl
theorem domSteps_two (D : List Node) (e f : WQEvent) : domSteps D [e, f] = domStep (domStep D e) f := rfl

theorem mem_domSteps_groupEvents (D : List Node) (g : Nat) (v : List GVal) (ng ns : List Nat) (n : Node)
    (h : n ∈ domSteps D (groupEvents g v ng ns)) :
    (n ∈ D ∧ n ≠ .group g) ∨ n ∈ nodesOf ng ns := by
  unfold groupEvents at h
  split at h
  · rw [List.nil_append, domSteps_one, mem_domStep_GS] at h; exact h
  · rw [List.cons_append, List.nil_append, domSteps_two, mem_domStep_GS, mem_domStep_GV] at h
    rcases h with ⟨h1 | h1, h2⟩ | h
    · exact absurd h1 h2
    · exact Or.inl ⟨h1, h2⟩
    · exact Or.inr h

/-! ### the handlers -/

theorem collect_frame (σ : Static) (ts : List Nat) (acc : WQ × List GVal × List Nat) :
    RootFrame acc.1 (ts.foldl (collectTask σ) acc).1 :=
  foldl_frame1 _ ts acc (collectTask_frame σ)

theorem finishGroupSuccess_roots (σ : Static) (q : WQ) (g : Nat) (n : GroupNode) :
    (finishGroupSuccess σ q g n).1.rootGroups = oerase q.rootGroups g ∧
    StreamFrame q (finishGroupSuccess σ q g n).1 := by
  unfold finishGroupSuccess
  simp only
  have f0 : RootFrame q ({ q with groupNodes := aerase q.groupNodes g } : WQ) := ⟨rfl, rfl, rfl, rfl⟩
  have f1 : RootFrame q
      (pruneEmpty (n.tasks.foldl (collectTask σ)
        (({ q with groupNodes := aerase q.groupNodes g } : WQ), ([] : List GVal), ([] : List Nat))).1
        n.children).1 :=
    f0.trans ((collect_frame σ n.tasks
      (({ q with groupNodes := aerase q.groupNodes g } : WQ), ([] : List GVal), ([] : List Nat))).trans
      (pruneEmpty_frame _ _))
  exact ⟨by rw [f1.rg], ⟨f1.rs, f1.st, f1.pm⟩⟩

theorem finishGroupFailure_roots (σ : Static) (q : WQ) (g : Nat) (n : GroupNode) :
    (finishGroupFailure σ q g n).1.rootGroups = oerase q.rootGroups g ∧
    StreamFrame q (finishGroupFailure σ q g n).1 ∧ (finishGroupFailure σ q g n).2 = .groupFailure g := by
  unfold finishGroupFailure
  have f := removeGroup_frame σ (q.groupNodes.length + 1) q g n
  exact ⟨by simp only; rw [f.rg], ⟨f.rs, f.st, f.pm⟩, rfl⟩

/-- The loop invariant of `_task_success`: everything in the tracked domain is a root or is
about to be promoted. -/
def SuccInv (D : List Node) (acc : WQ × List WQEvent × List Nat × List Nat) : Prop :=
  ∀ n ∈ domSteps D acc.2.1, isRoot acc.1 n ∨ n ∈ nodesOf acc.2.2.1 acc.2.2.2

theorem successStep_dom (σ : Static) (D : List Node) (acc : WQ × List WQEvent × List Nat × List Nat)
    (g : Nat) (h : SuccInv D acc) : SuccInv D (successStep σ acc g) := by
  unfold successStep
  split
  · rename_i n hn
    simp only
    split
    · -- the group finishes
      intro m hm
      simp only [domSteps_append] at hm
      obtain ⟨hrg, hsf⟩ := finishGroupSuccess_roots σ
        { acc.1 with groupNodes := aset acc.1.groupNodes g { n with pending := n.pending - 1 } } g
        { n with pending := n.pending - 1 }
      have hev : (finishGroupSuccess σ
          { acc.1 with groupNodes := aset acc.1.groupNodes g { n with pending := n.pending - 1 } } g
          { n with pending := n.pending - 1 }).2.1 = groupEvents g _ _ _ := rfl
      rw [hev] at hm
      rcases mem_domSteps_groupEvents _ g _ _ _ m hm with ⟨h1, h2⟩ | h1
      · rcases h m h1 with h3 | h3
        · left
          cases m with
          | group x =>
            simp only [isRoot] at h3 ⊢
            rw [hrg, mem_oerase]
            exact ⟨h3, fun e => h2 (by rw [e])⟩
          | stream s => simp only [isRoot] at h3 ⊢; rw [hsf.rs]; exact h3
        · right; exact (nodesOf_append _ _ _ _ m).mpr (Or.inl h3)
      · right; exact (nodesOf_append _ _ _ _ m).mpr (Or.inr h1)
    · intro m hm
      rcases h m hm with h3 | h3
      · left; cases m <;> exact h3
      · exact Or.inr h3
  · exact h

theorem isRoot_startNewWork (σ : Static) (q : WQ) (ngs nss : List Nat) (n : Node) :
    isRoot (startNewWork σ q ngs nss) n ↔ isRoot q n ∨ n ∈ nodesOf ngs nss := by
  obtain ⟨a, b, _, _⟩ := startNewWork_roots σ q ngs nss
  cases n with
  | group g =>
    simp only [isRoot, a, mem_foldl_oinsert, mem_nodesOf]
    constructor
    · rintro (h | h)
      · exact Or.inl h
      · exact Or.inr (Or.inl ⟨g, h, rfl⟩)
    · rintro (h | ⟨x, hx, e⟩ | ⟨x, _, e⟩)
      · exact Or.inl h
      · cases e; exact Or.inr hx
      · cases e
  | stream s =>
    simp only [isRoot, b, mem_foldl_oinsert, mem_nodesOf]
    constructor
    · rintro (h | h)
      · exact Or.inl h
      · exact Or.inr (Or.inr ⟨s, h, rfl⟩)
    · rintro (h | ⟨x, _, e⟩ | ⟨x, hx, e⟩)
      · exact Or.inl h
      · cases e
      · cases e; exact Or.inr hx

theorem taskSuccess_dom (σ : Static) (q : WQ) (t : Nat) (r : TResult) (D : List Node)
    (h : ∀ n ∈ D, isRoot q n) :
    ∀ n ∈ domSteps D (taskSuccess σ q t r).2, isRoot (taskSuccess σ q t r).1 n := by
  unfold taskSuccess
  simp only
  have f : RootFrame q (integrateWork σ (setTaskValue q t r.value) r.work (some t)).1 :=
    (setTaskValue_frame q t r.value).trans (integrateWork_frame σ _ _ _)
  have h0 : SuccInv D ((integrateWork σ (setTaskValue q t r.value) r.work (some t)).1, [], [], []) := by
    intro n hn
    left
    exact (isRoot_of_frame f n).mpr (h n hn)
  have hfold := foldl_inv (SuccInv D) (successStep σ) (σ.tgroups t) _ h0
    (fun acc g ha => successStep_dom σ D acc g ha)
  intro n hn
  exact (isRoot_startNewWork σ _ _ _ n).mpr (hfold n hn)

theorem failureStep_dom (σ : Static) (D : List Node) (acc : WQ × List WQEvent) (g : Nat)
    (h : ∀ n ∈ domSteps D acc.2, isRoot acc.1 n) :
    ∀ n ∈ domSteps D (failureStep σ acc g).2, isRoot (failureStep σ acc g).1 n := by
  unfold failureStep
  split
  · rename_i nd hnd
    obtain ⟨hrg, hsf, hev⟩ := finishGroupFailure_roots σ acc.1 g nd
    intro m hm
    rw [domSteps_append, hev, domSteps_one, mem_domStep_GF] at hm
    have h3 := h m hm.1
    cases m with
    | group x =>
      simp only [isRoot] at h3 ⊢
      rw [hrg, mem_oerase]
      exact ⟨h3, fun e => hm.2 (by rw [e])⟩
    | stream s => simp only [isRoot] at h3 ⊢; rw [hsf.rs]; exact h3
  · exact h

theorem taskFailure_dom (σ : Static) (q : WQ) (t : Nat) (D : List Node)
    (h : ∀ n ∈ D, isRoot q n) :
    ∀ n ∈ domSteps D (taskFailure σ q t).2, isRoot (taskFailure σ q t).1 n := by
  unfold taskFailure
  refine foldl_inv (fun acc : WQ × List WQEvent => ∀ n ∈ domSteps D acc.2, isRoot acc.1 n)
    (failureStep σ) (σ.tgroups t) _ ?_ (fun acc g ha => failureStep_dom σ D acc g ha)
  intro n hn
  have := h n hn
  cases n <;> exact this

/-- The loop invariant of `_stream_items`. -/
def ItemInv (q0 : WQ) (acc : WQ × List IVal × List Nat × List Nat) : Prop :=
  ∀ n, (isRoot q0 n ∨ n ∈ nodesOf acc.2.2.1 acc.2.2.2) → isRoot acc.1 n

theorem itemStep_dom (σ : Static) (q0 : WQ) (acc : WQ × List IVal × List Nat × List Nat) (it : IResult)
    (h : ItemInv q0 acc) : ItemInv q0 (itemStep σ acc it) := by
  unfold itemStep
  simp only
  intro n hn
  have f : RootFrame acc.1 (pruneEmpty (integrateWork σ acc.1 it.work none).1
      (integrateWork σ acc.1 it.work none).2.1).1 :=
    (integrateWork_frame σ _ _ _).trans (pruneEmpty_frame _ _)
  rw [isRoot_startNewWork]
  rcases hn with hn | hn
  · exact Or.inl ((isRoot_of_frame f n).mpr (h n (Or.inl hn)))
  · rcases (nodesOf_append _ _ _ _ n).mp hn with h1 | h1
    · exact Or.inl ((isRoot_of_frame f n).mpr (h n (Or.inr h1)))
    · exact Or.inr h1

theorem streamItems_dom (σ : Static) (q : WQ) (s : Nat) (items : List IResult) (st : Bool)
    (D : List Node) (h : ∀ n ∈ D, isRoot q n) (hs : st = false → s ∈ q.rootStreams) :
    ∀ n ∈ domSteps D (streamItems σ q s items st).2, isRoot (streamItems σ q s items st).1 n := by
  unfold streamItems
  simp only
  have hfold : ItemInv q (items.foldl (itemStep σ) (q, [], [], [])) :=
    foldl_inv (ItemInv q) (itemStep σ) items _
      (by intro n hn; rcases hn with hn | hn
          · exact hn
          · simp [nodesOf] at hn)
      (fun acc it ha => itemStep_dom σ q acc it ha)
  cases st with
  | true =>
    simp only [if_true]
    intro n hn
    rw [domSteps_two, mem_domStep_SS, mem_domStep_SV] at hn
    obtain ⟨hn1, hn2⟩ := hn
    have hr : isRoot (items.foldl (itemStep σ) (q, [], [], [])).1 n := by
      rcases hn1 with (h1 | h1) | h1
      · exact absurd h1 hn2
      · exact hfold n (Or.inl (h n h1))
      · exact hfold n (Or.inr h1)
    cases n with
    | group g => exact hr
    | stream x =>
      simp only [isRoot, mem_oerase] at hr ⊢
      exact ⟨hr, fun e => hn2 (by rw [e])⟩
  | false =>
    simp only [Bool.false_eq_true, if_false]
    intro n hn
    rw [domSteps_one, mem_domStep_SV] at hn
    rcases hn with (h1 | h1) | h1
    · subst h1; exact hfold _ (Or.inl (hs rfl))
    · exact hfold n (Or.inl (h n h1))
    · exact hfold n (Or.inr h1)

/-- Every handler keeps the tracked domain inside the roots. -/
theorem handle_dom (σ : Static) (q : WQ) (ev : GraphEvent) (D : List Node)
    (h : ∀ n ∈ D, isRoot q n)
    (hs : ∀ s items, ev = .streamItems s items false → s ∈ q.rootStreams) :
    ∀ n ∈ domSteps D (handleGraphEvent σ q ev).2, isRoot (handleGraphEvent σ q ev).1 n := by
  cases ev with
  | taskSuccess t r => exact taskSuccess_dom σ q t r D h
  | taskFailure t => exact taskFailure_dom σ q t D h
  | streamItems s items st =>
    exact streamItems_dom σ q s items st D h (fun e => hs s items (by rw [e]))
  | streamSuccess s =>
    simp only [handleGraphEvent]
    split
    · intro n hn
      rw [domSteps_one, mem_domStep_SS] at hn
      have h3 := h n hn.1
      cases n with
      | group g => exact h3
      | stream x => simp only [isRoot, mem_oerase] at h3 ⊢; exact ⟨h3, fun e => hn.2 (by rw [e])⟩
    · intro n hn; exact h n hn
  | streamFailure s =>
    simp only [handleGraphEvent]
    intro n hn
    rw [domSteps_one, mem_domStep_SF] at hn
    have h3 := h n hn.1
    cases n with
    | group g => exact h3
    | stream x => simp only [isRoot, mem_oerase] at h3 ⊢; exact ⟨h3, fun e => hn.2 (by rw [e])⟩
  | stop => intro n hn; exact h n hn

end Gql.Async
