import Gql.Proofs.BlockScan
/-!
Facts about `escapeTQ` (`value.replace('"""', '\\"""')`): equations, what can follow a quote
or a backslash in the escaped text (the lexer's look-ahead), and when the printer must force a
trailing line feed.
-/
namespace Gql.Text

theorem escapeTQ_ne {c : Nat} (r : List Nat) (h : c ≠ 34) : escapeTQ (c :: r) = c :: escapeTQ r := by
  rw [escapeTQ]
  all_goals (intros; simp_all)

@[simp] theorem escapeTQ_q1 : escapeTQ [34] = [34] := by decide
@[simp] theorem escapeTQ_qq : escapeTQ [34, 34] = [34, 34] := by decide
@[simp] theorem escapeTQ_nil : escapeTQ [] = [] := by simp [escapeTQ]

theorem escapeTQ_q_ne {b : Nat} (r : List Nat) (h : b ≠ 34) :
    escapeTQ (34 :: b :: r) = 34 :: b :: escapeTQ r := by
  rw [escapeTQ, escapeTQ_ne r h]
  all_goals (intros; simp_all)

theorem escapeTQ_qq_ne {d : Nat} (r : List Nat) (h : d ≠ 34) :
    escapeTQ (34 :: 34 :: d :: r) = 34 :: 34 :: d :: escapeTQ r := by
  rw [escapeTQ, escapeTQ_q_ne r h]
  all_goals (intros; simp_all)

theorem escapeTQ_qqq (r : List Nat) :
    escapeTQ (34 :: 34 :: 34 :: r) = 92 :: 34 :: 34 :: 34 :: escapeTQ r := by
  rw [escapeTQ]

/-- After matching triple quotes from the left, the value ends with an unmatched quote or a
backslash: the closing `"""` may not follow directly. -/
def endsOpen : List Nat → Bool
  | 34 :: 34 :: 34 :: rest => endsOpen rest
  | [c] => c = 34 || c = 92
  | _ :: rest => endsOpen rest
  | [] => false

theorem endsOpen_ne {c : Nat} (r : List Nat) (h : c ≠ 34) (hr : r ≠ []) :
    endsOpen (c :: r) = endsOpen r := by
  rw [endsOpen]
  all_goals (intros; simp_all)

theorem endsOpen_q_ne {b : Nat} (r : List Nat) (h : b ≠ 34) :
    endsOpen (34 :: b :: r) = endsOpen (b :: r) := by
  rw [endsOpen]
  all_goals (intros; simp_all)

theorem endsOpen_qq_ne {d : Nat} (r : List Nat) (h : d ≠ 34) :
    endsOpen (34 :: 34 :: d :: r) = endsOpen (d :: r) := by
  rw [endsOpen, endsOpen_q_ne r h]
  all_goals (intros; simp_all)

end Gql.Text

namespace Gql.Text

/-- What follows an unmatched quote in the escaped text is never `""`. -/
theorem look2 (r T : List Nat) (hnt : ∀ r', r ≠ 34 :: 34 :: r')
    (hT : endsOpen (34 :: r) = true → T[0]? ≠ some 34) :
    ¬ ((escapeTQ r ++ T)[0]? = some 34 ∧ (escapeTQ r ++ T)[1]? = some 34) := by
  match r with
  | [] =>
    have := hT (by decide)
    simp [this]
  | [a] =>
    by_cases ha : a = 34
    · subst ha
      have := hT (by decide)
      simp [this]
    · simp [escapeTQ_ne [] ha, ha]
  | a :: b :: r' =>
    by_cases ha : a = 34
    · subst ha
      have hb : b ≠ 34 := by
        intro hb; subst hb; exact hnt r' rfl
      simp [escapeTQ_q_ne r' hb, hb]
    · simp [escapeTQ_ne (b :: r') ha, ha]

/-- What follows a backslash in the escaped text is never `"""`. -/
theorem look3 (r T : List Nat) (hT : endsOpen (92 :: r) = true → T[0]? ≠ some 34) :
    ¬ ((escapeTQ r ++ T)[0]? = some 34 ∧ (escapeTQ r ++ T)[1]? = some 34 ∧
        (escapeTQ r ++ T)[2]? = some 34) := by
  match r with
  | [] =>
    have := hT (by decide)
    simp [this]
  | [a] =>
    by_cases ha : a = 34
    · subst ha
      have := hT (by decide)
      simp [this]
    · simp [escapeTQ_ne [] ha, ha]
  | [a, b] =>
    by_cases ha : a = 34
    · subst ha
      by_cases hb : b = 34
      · subst hb
        have := hT (by decide)
        simp [this]
      · simp [escapeTQ_q_ne [] hb, hb]
    · simp [escapeTQ_ne [b] ha, ha]
  | a :: b :: d :: r' =>
    by_cases ha : a = 34
    · subst ha
      by_cases hb : b = 34
      · subst hb
        by_cases hd : d = 34
        · subst hd
          simp [escapeTQ_qqq]
        · simp [escapeTQ_qq_ne r' hd, hd]
      · simp [escapeTQ_q_ne (d :: r') hb, hb]
    · simp [escapeTQ_ne (b :: d :: r') ha, ha]

end Gql.Text
