/-
C13 — a concrete instance of the hypotheses of `soundness_partial₄` in which the merge rule matters:
two different fields share a response key under different object parent types, inside a value of an
object type that implements an interface.
-/
import Gql.Proofs.SoundFullWitness
import Gql.Proofs.SoundMerge4

namespace Gql.Exec.Valid.MergeWitness
open Gql Gql.Exec Gql.Exec.Valid Gql.Exec.Valid.Example

/-- `interface I { foo: String bar: String }`, `A` and `B` implement it, `Query { a: A }` -/
def wS : Schema :=
  { query := "Query", mutation := none,
    types := [
      .object "Query" [] [⟨"a", [], .named "A" false⟩],
      .iface "I" [] [⟨"foo", [], .named "String" false⟩, ⟨"bar", [], .named "String" false⟩],
      .object "A" ["I"] [⟨"foo", [], .named "String" false⟩, ⟨"bar", [], .named "String" false⟩],
      .object "B" ["I"] [⟨"foo", [], .named "String" false⟩, ⟨"bar", [], .named "String" false⟩]] }

def fooSel : Selection := .field (some "x") "foo" [] [] []
def barSel : Selection := .field (some "x") "bar" [] [] []
def aSels : List Selection := [fooSel, .inline (some "I") [] [.inline (some "B") [] [barSel]]]

/-- `{ a { x: foo ... on I { ... on B { x: bar } } } }` -/
def wOp : Operation :=
  { kind := .query, name := none, vars := [], sels := [.field none "a" [] [] aSels] }

def wDoc : Doc := { ops := [wOp], frags := [] }

def wCx : Spec.Ctx := { ops := exOps, schema := wS, doc := wDoc, vars := [] }

def wRoot : RVal := .obj .missing (fun _ _ => .obj .missing (fun _ _ => .null))

theorem lookup_name (s : Schema) (n : Name) (d : TypeDef) (h : s.lookup n = some d) :
    (d ∈ s.types ∧ d.name = n) ∨ d = .scalar n := by
  unfold Schema.lookup at h
  cases hf : s.types.find? (fun d => d.name == n) with
  | some d' =>
    simp only [hf, Option.some.injEq] at h
    subst h
    exact Or.inl ⟨List.mem_of_find?_eq_some hf, by simpa using List.find?_some hf⟩
  | none =>
    simp only [hf] at h
    split at h
    · simp only [Option.some.injEq] at h; exact Or.inr h.symm
    · cases h

theorem wS_sub (i o : Name) (h : wS.isSubType i o = true) : i = "I" ∧ (o = "A" ∨ o = "B") := by
  unfold Schema.isSubType at h
  cases hl : wS.lookup i with
  | none => simp [hl] at h
  | some d =>
    rcases lookup_name wS i d hl with ⟨hm, hn⟩ | hm
    · simp only [wS, List.mem_cons, List.mem_nil_iff, or_false] at hm
      rcases hm with rfl | rfl | rfl | rfl <;> simp only [hl] at h <;> try (cases h)
      simp only [TypeDef.name] at hn
      subst hn
      refine ⟨rfl, ?_⟩
      cases hl2 : wS.lookup o with
      | none => simp [hl2] at h
      | some d2 =>
        rcases lookup_name wS o d2 hl2 with ⟨hm2, hn2⟩ | hm2
        · simp only [wS, List.mem_cons, List.mem_nil_iff, or_false] at hm2
          rcases hm2 with rfl | rfl | rfl | rfl <;> simp only [hl2] at h <;> simp only [TypeDef.name] at hn2
          · simp at h
          · simp at h
          · exact Or.inl hn2.symm
          · exact Or.inr hn2.symm
        · subst hm2; simp [hl2] at h
    · subst hm; simp [hl] at h

theorem wHyps : SoundHyps exOps wS where
  opsSound := by intro t d v _ vars; simp [exOps]
  defaultsOk := by intro o f fd _ a _ d _; simp [exOps]
  ifaceOk := by
    intro i o name fd h _ hg
    obtain ⟨rfl, rfl | rfl⟩ := wS_sub i o h
    · have h1 : wS.lookup "I" = some (.iface "I" [] [⟨"foo", [], .named "String" false⟩, ⟨"bar", [], .named "String" false⟩]) := by rfl
      have h2 : wS.lookup "A" = some (.object "A" ["I"] [⟨"foo", [], .named "String" false⟩, ⟨"bar", [], .named "String" false⟩]) := by rfl
      simp only [getFieldAny, h1] at hg
      simp only [Schema.getField, Schema.objectFields, h2]
      exact hg
    · have h1 : wS.lookup "I" = some (.iface "I" [] [⟨"foo", [], .named "String" false⟩, ⟨"bar", [], .named "String" false⟩]) := by rfl
      have h2 : wS.lookup "B" = some (.object "B" ["I"] [⟨"foo", [], .named "String" false⟩, ⟨"bar", [], .named "String" false⟩]) := by rfl
      simp only [getFieldAny, h1] at hg
      simp only [Schema.getField, Schema.objectFields, h2]
      exact hg
  stringId := by
    intro cs
    simp [exOps, leafShape, Gql.Exec.Concrete.leafJson, Schema.lookup, wS, TypeDef.name, builtinScalars]
  serializeShape := by
    intro n l j h _
    simp only [exOps] at h
    split at h
    · cases h; assumption
    · cases h

theorem wConf : Conforms exOps wS (.named "Query" true) wRoot := by
  simp only [wRoot, Conforms]
  refine ⟨"Query", [⟨"a", [], .named "A" false⟩], by decide, rfl, ?_⟩
  intro fd hfd args
  simp only [List.mem_cons, List.mem_nil_iff, or_false] at hfd
  subst hfd
  simp only [Conforms]
  refine ⟨"A", [⟨"foo", [], .named "String" false⟩, ⟨"bar", [], .named "String" false⟩], by decide, rfl, ?_⟩
  intro fd hfd args
  simp only [List.mem_cons, List.mem_nil_iff, or_false] at hfd
  rcases hfd with rfl | rfl <;> simp [TypeRef.nonNull]

theorem wVarsOk : VarsOk wOp.vars [] := by intro vd hvd; simp [wOp] at hvd
theorem wVarsTyped : VarsTyped wS wOp.vars [] := by intro vd hvd; simp [wOp] at hvd
theorem wOpsV : OpsSoundV exOps wS wOp.vars [] := by intro _ t d v _ _ _; simp [exOps]

end Gql.Exec.Valid.MergeWitness
