import Gql.Proofs.SchemaBuild2
namespace Gql.Types
open Gql Gql.Generated

theorem collect_dirs (p : Parts) (ds : List Directive) :
    (ds.map directiveToDef).foldl collectStep p =
      { p with dirDefs := p.dirDefs ++ ds.map directiveToDef } := by
  induction ds generalizing p with
  | nil => simp
  | cons d ds ih =>
    simp only [List.map_cons, List.foldl_cons]
    rw [show collectStep p (directiveToDef d) = { p with dirDefs := p.dirDefs ++ [directiveToDef d] } from rfl]
    rw [ih]
    simp

theorem collect_types (p : Parts) (ts : List TypeDef) :
    (ts.map typeToDef).foldl collectStep p =
      { p with typeDefs := p.typeDefs ++ ts.map typeToPair } := by
  induction ts generalizing p with
  | nil => simp
  | cons t ts ih =>
    simp only [List.map_cons, List.foldl_cons]
    rw [show collectStep p (typeToDef t) = { p with typeDefs := p.typeDefs ++ [typeToPair t] } from by
      rw [typeToDef_eq]; rfl]
    rw [ih]
    simp

/-- What `extend_schema_args` collects from the printed definitions. -/
theorem collect_schemaToDefs (s : Schema) :
    collect (schemaToDefs s) =
      { typeDefs := s.types.map typeToPair
        typeExts := []
        dirDefs := s.directives.map directiveToDef
        dirExts := []
        schemaDef := match schemaDefOf s with
          | [.schemaDef d _ ops] => some (d, ops)
          | _ => none
        schemaExts := [] } := by
  unfold collect schemaToDefs
  rw [List.foldl_append, List.foldl_append, collect_types, collect_dirs]
  unfold schemaDefOf
  split
  · simp
  · split
    · simp
    · simp [collectStep]

theorem filter_nonreserved (s : Schema) (h : s.types.all (wfType s) = true) :
    newTypeDefs (collect (schemaToDefs s)) = s.types.map typeToPair := by
  rw [collect_schemaToDefs]
  unfold newTypeDefs
  apply List.filter_eq_self.mpr
  intro dn hdn
  obtain ⟨t, ht, rfl⟩ := List.mem_map.mp hdn
  have := List.all_eq_true.mp h t ht
  rw [typeToPair_name]
  cases t <;> simp_all [wfType, TypeDef.name]

theorem filter_nonspecified (s : Schema) (h : s.directives.all (wfDirective s) = true) :
    (s.directives.map directiveToDef).filter Def.isUserDirectiveDef = s.directives.map directiveToDef := by
  apply List.filter_eq_self.mpr
  intro d hd
  obtain ⟨t, ht, rfl⟩ := List.mem_map.mp hd
  have := List.all_eq_true.mp h t ht
  simp_all [wfDirective, directiveToDef, Def.isUserDirectiveDef]

theorem mapMOut_types (s : Schema) (h : s.types.all (wfType s) = true) :
    mapMOut (fun (dn : Option DescNode × TypeNode) =>
        buildNamedType dn.1 dn.2 (extsFor dn.2.body.kind dn.2.name [])) (s.types.map typeToPair) = .ok s.types := by
  apply mapMOut_map_ok
  intro t ht
  simp only [extsFor, List.filter_nil]
  exact buildNamedType_typeToPair s t (List.all_eq_true.mp h t ht)

theorem mapMOut_directives (s : Schema) (h : s.directives.all (wfDirective s) = true) :
    mapMOut (buildDirective []) (s.directives.map directiveToDef) = .ok s.directives := by
  apply mapMOut_map_ok
  intro d hd
  exact buildDirective_directiveToDef s d (List.all_eq_true.mp h d hd)

end Gql.Types
