import Gql.Proofs.OverlapClosure
import Gql.Exec.SpecMerge
/-! C14, documents without fragment spreads: the flat list of field instances of a selection
set, the typed selection sets of a document, and how the specification's definitions read on
them. -/
namespace Gql.Exec
open Overlap

/-! ### flat field instances (inline fragments looked through, parents tracked) -/

mutual
def Sel.flat (s : Schema) (p : Option String) : Sel → List Spec.FieldInst
  | .field id al name args st hasSub subId sub => [⟨p, ⟨id, al, name, args, st, hasSub, subId, sub⟩⟩]
  | .inline tc _ sels =>
    selsFlat s (match tc with | some n => s.typeFromAst n | none => p) sels
  | .spread _ => []
def selsFlat (s : Schema) (p : Option String) : List Sel → List Spec.FieldInst
  | [] => []
  | x :: xs => x.flat s p ++ selsFlat s p xs
end

mutual
theorem Sel.flat_nodes (s : Schema) : ∀ (x : Sel) (p : Option String),
    (x.flat s p).map (·.node) = x.fields
  | .field .., p => by simp [Sel.flat, Sel.fields]
  | .inline tc _ sels, p => by simpa [Sel.flat, Sel.fields] using selsFlat_nodes s sels _
  | .spread _, p => by simp [Sel.flat, Sel.fields]
theorem selsFlat_nodes (s : Schema) : ∀ (xs : List Sel) (p : Option String),
    (selsFlat s p xs).map (·.node) = selsFields xs
  | [], p => by simp [selsFlat, selsFields]
  | x :: xs, p => by
    simp [selsFlat, selsFields, Sel.flat_nodes s x p, selsFlat_nodes s xs p]
end

theorem node_mem_of_flat {s : Schema} {p : Option String} {xs : List Sel} {a : Spec.FieldInst}
    (h : a ∈ selsFlat s p xs) : a.node ∈ selsFields xs := by
  rw [← selsFlat_nodes s xs p]; exact List.mem_map.2 ⟨a, h, rfl⟩

/-! ### without spreads the specification's expansion is `selsFlat` -/

mutual
theorem expandSel_nospread (s : Schema) (d : Doc) (rec : Spec.Expander) :
    ∀ (x : Sel) (p : Option String) (vis : List String), x.spreadNames = [] →
      Spec.expandSel s d rec p x vis = (x.flat s p, vis)
  | .field .., p, vis, _ => by simp [Spec.expandSel, Sel.flat]
  | .inline tc _ sels, p, vis, h => by
    have h' : selsSpreadNames sels = [] := by simpa [Sel.spreadNames] using h
    cases tc <;> simp only [Spec.expandSel, Sel.flat] <;>
      exact expandSels_nospread s d rec sels _ vis h'
  | .spread n, p, vis, h => by simp [Sel.spreadNames] at h
theorem expandSels_nospread (s : Schema) (d : Doc) (rec : Spec.Expander) :
    ∀ (xs : List Sel) (p : Option String) (vis : List String), selsSpreadNames xs = [] →
      Spec.expandSels s d rec p xs vis = (selsFlat s p xs, vis)
  | [], p, vis, _ => by simp [Spec.expandSels, selsFlat]
  | x :: xs, p, vis, h => by
    simp only [selsSpreadNames, List.append_eq_nil_iff] at h
    simp [Spec.expandSels, selsFlat, expandSel_nospread s d rec x p vis h.1,
      expandSels_nospread s d rec xs p vis h.2]
end

theorem expandWith_nospread (s : Schema) (d : Doc) (p : Option String) (xs : List Sel)
    (vis : List String) (h : selsSpreadNames xs = []) :
    Spec.expandWith s d p xs vis = (selsFlat s p xs, vis) := by
  simp [Spec.expandWith, Spec.expandLvl, expandSels_nospread s d _ xs p vis h]

/-! ### the typed selection sets of a document (the specification's `allSets`, with identities) -/

/-- the type a field's sub-selection is selected on -/
def subP (s : Schema) (a : Spec.FieldInst) : Option String :=
  (Spec.fieldType s a.parent a.node.name).map Ty.named

mutual
def Sel.typedSets (s : Schema) (p : Option String) : Sel → List (Option String × SelSet)
  | .field _ _ name _ _ hasSub subId sub =>
    if hasSub then
      ((Spec.fieldType s p name).map Ty.named, ⟨subId, sub⟩) ::
        selsTypedSets s ((Spec.fieldType s p name).map Ty.named) sub
    else []
  | .inline tc ssId sels =>
    ((match tc with | some n => s.typeFromAst n | none => p), ⟨ssId, sels⟩) ::
      selsTypedSets s (match tc with | some n => s.typeFromAst n | none => p) sels
  | .spread _ => []
def selsTypedSets (s : Schema) (p : Option String) : List Sel → List (Option String × SelSet)
  | [] => []
  | x :: xs => x.typedSets s p ++ selsTypedSets s p xs
end

def Defn.parent (s : Schema) : Defn → Option String
  | .op root _ => root
  | .frag f => s.typeFromAst f.typeCond

def Doc.typedSets (s : Schema) (d : Doc) : List (Option String × SelSet) :=
  d.flatMap (fun df => (df.parent s, df.ss) :: selsTypedSets s (df.parent s) df.ss.sels)

mutual
theorem Sel.typedSets_spec (s : Schema) : ∀ (x : Sel) (p : Option String),
    (x.typedSets s p).map (fun t => (t.1, t.2.sels)) = Spec.setsOfSel s p x
  | .field _ _ name _ _ hasSub subId sub, p => by
    cases hasSub
    · simp [Sel.typedSets, Spec.setsOfSel]
    · simp [Sel.typedSets, Spec.setsOfSel, selsTypedSets_spec s sub _]
  | .inline tc ssId sels, p => by
    cases tc <;> simp [Sel.typedSets, Spec.setsOfSel, selsTypedSets_spec s sels _]
  | .spread _, p => by simp [Sel.typedSets, Spec.setsOfSel]
theorem selsTypedSets_spec (s : Schema) : ∀ (xs : List Sel) (p : Option String),
    (selsTypedSets s p xs).map (fun t => (t.1, t.2.sels)) = Spec.setsOfSels s p xs
  | [], p => by simp [selsTypedSets, Spec.setsOfSels]
  | x :: xs, p => by
    simp [selsTypedSets, Spec.setsOfSels, Sel.typedSets_spec s x p, selsTypedSets_spec s xs p]
end

theorem Doc.typedSets_spec (s : Schema) (d : Doc) :
    (d.typedSets s).map (fun t => (t.1, t.2.sels)) = Spec.allSets s d := by
  induction d with
  | nil => simp [Doc.typedSets, Spec.allSets]
  | cons df rest ih =>
    simp only [Doc.typedSets, List.flatMap_cons, List.map_append, List.map_cons, Spec.allSets] at ih ⊢
    rw [ih]
    cases df with
    | op root ss => simp [Defn.parent, Defn.ss, selsTypedSets_spec]
    | frag f => simp [Defn.parent, Defn.ss, selsTypedSets_spec]

/-! ### closure properties of the typed sets -/

mutual
theorem Sel.flat_sub_typed (s : Schema) : ∀ (x : Sel) (p : Option String) (a : Spec.FieldInst),
    a ∈ x.flat s p → a.node.hasSub = true → (subP s a, a.node.subSet) ∈ x.typedSets s p
  | .field id al name args st hasSub subId sub, p, a, h, hs => by
    simp only [Sel.flat, List.mem_singleton] at h
    subst h
    simp only at hs
    simp [Sel.typedSets, hs, subP, FieldNode.subSet]
  | .inline tc ssId sels, p, a, h, hs => by
    simp only [Sel.flat] at h
    have := selsFlat_sub_typed s sels _ a h hs
    simp only [Sel.typedSets, List.mem_cons]
    exact Or.inr this
  | .spread _, p, a, h, _ => by simp [Sel.flat] at h
theorem selsFlat_sub_typed (s : Schema) : ∀ (xs : List Sel) (p : Option String)
    (a : Spec.FieldInst), a ∈ selsFlat s p xs → a.node.hasSub = true →
      (subP s a, a.node.subSet) ∈ selsTypedSets s p xs
  | [], p, a, h, _ => by simp [selsFlat] at h
  | x :: xs, p, a, h, hs => by
    simp only [selsFlat, List.mem_append] at h
    simp only [selsTypedSets, List.mem_append]
    rcases h with h | h
    · exact Or.inl (Sel.flat_sub_typed s x p a h hs)
    · exact Or.inr (selsFlat_sub_typed s xs p a h hs)
end

mutual
theorem Sel.typedSets_facts (s : Schema) : ∀ (x : Sel) (p : Option String)
    (t : Option String × SelSet), t ∈ x.typedSets s p →
      selsTypedSets s t.1 t.2.sels ⊆ x.typedSets s p ∧ t.2 ∈ x.subSets
  | .field id al name args st hasSub subId sub, p, t, h => by
    cases hasSub with
    | false => simp [Sel.typedSets] at h
    | true =>
      simp only [Sel.typedSets, if_true, List.mem_cons] at h
      rcases h with rfl | h
      · refine ⟨fun u hu => ?_, ?_⟩
        · simp only [Sel.typedSets, if_true, List.mem_cons]; exact Or.inr hu
        · simp [Sel.subSets]
      · obtain ⟨h1, h2⟩ := selsTypedSets_facts s sub _ t h
        refine ⟨fun u hu => ?_, ?_⟩
        · simp only [Sel.typedSets, if_true, List.mem_cons]; exact Or.inr (h1 hu)
        · simp only [Sel.subSets, if_true, List.mem_append]; exact Or.inr h2
  | .inline tc ssId sels, p, t, h => by
    simp only [Sel.typedSets, List.mem_cons] at h
    rcases h with rfl | h
    · refine ⟨fun u hu => ?_, ?_⟩
      · simp only [Sel.typedSets, List.mem_cons]; exact Or.inr hu
      · simp [Sel.subSets]
    · obtain ⟨h1, h2⟩ := selsTypedSets_facts s sels _ t h
      refine ⟨fun u hu => ?_, ?_⟩
      · simp only [Sel.typedSets, List.mem_cons]; exact Or.inr (h1 hu)
      · simp only [Sel.subSets, List.mem_cons]; exact Or.inr h2
  | .spread _, p, t, h => by simp [Sel.typedSets] at h
theorem selsTypedSets_facts (s : Schema) : ∀ (xs : List Sel) (p : Option String)
    (t : Option String × SelSet), t ∈ selsTypedSets s p xs →
      selsTypedSets s t.1 t.2.sels ⊆ selsTypedSets s p xs ∧ t.2 ∈ selsSubSets xs
  | [], p, t, h => by simp [selsTypedSets] at h
  | x :: xs, p, t, h => by
    simp only [selsTypedSets, List.mem_append] at h
    rcases h with h | h
    · obtain ⟨h1, h2⟩ := Sel.typedSets_facts s x p t h
      refine ⟨fun u hu => ?_, ?_⟩
      · simp only [selsTypedSets, List.mem_append]; exact Or.inl (h1 hu)
      · simp only [selsSubSets, List.mem_append]; exact Or.inl h2
    · obtain ⟨h1, h2⟩ := selsTypedSets_facts s xs p t h
      refine ⟨fun u hu => ?_, ?_⟩
      · simp only [selsTypedSets, List.mem_append]; exact Or.inr (h1 hu)
      · simp only [selsSubSets, List.mem_append]; exact Or.inr h2
end

theorem Doc.mem_typedSets {s : Schema} {d : Doc} {t : Option String × SelSet}
    (h : t ∈ d.typedSets s) :
    ∃ df ∈ d, t = (df.parent s, df.ss) ∨ t ∈ selsTypedSets s (df.parent s) df.ss.sels := by
  simp only [Doc.typedSets, List.mem_flatMap, List.mem_cons] at h
  exact h

theorem Doc.typedSets_closed {s : Schema} {d : Doc} {t : Option String × SelSet}
    (h : t ∈ d.typedSets s) : selsTypedSets s t.1 t.2.sels ⊆ d.typedSets s := by
  obtain ⟨df, hdf, h⟩ := Doc.mem_typedSets h
  intro u hu
  simp only [Doc.typedSets, List.mem_flatMap, List.mem_cons]
  refine ⟨df, hdf, Or.inr ?_⟩
  rcases h with rfl | h
  · exact hu
  · exact (selsTypedSets_facts s _ _ t h).1 hu

theorem Doc.typedSets_allSets {s : Schema} {d : Doc} {t : Option String × SelSet}
    (h : t ∈ d.typedSets s) : t.2 ∈ d.allSets := by
  obtain ⟨df, hdf, h⟩ := Doc.mem_typedSets h
  simp only [Doc.allSets, List.mem_flatMap, List.mem_cons]
  refine ⟨df, hdf, ?_⟩
  rcases h with rfl | h
  · exact Or.inl rfl
  · exact Or.inr (selsTypedSets_facts s _ _ t h).2

/-- a field instance of the document: a member of the flat list of one of its typed sets -/
def DocInst (s : Schema) (d : Doc) (a : Spec.FieldInst) : Prop :=
  ∃ t ∈ d.typedSets s, a ∈ selsFlat s t.1 t.2.sels

theorem DocInst.sub {s : Schema} {d : Doc} {a : Spec.FieldInst} (h : DocInst s d a)
    (hs : a.node.hasSub = true) : (subP s a, a.node.subSet) ∈ d.typedSets s := by
  obtain ⟨t, ht, ha⟩ := h
  exact Doc.typedSets_closed ht (selsFlat_sub_typed s _ _ a ha hs)

theorem DocInst.child {s : Schema} {d : Doc} {a c : Spec.FieldInst} (h : DocInst s d a)
    (hs : a.node.hasSub = true) (hc : c ∈ selsFlat s (subP s a) a.node.sub) : DocInst s d c :=
  ⟨_, h.sub hs, hc⟩

theorem DocInst.depth {s : Schema} {d : Doc} {a : Spec.FieldInst} (h : DocInst s d a) :
    nodeDepth a.node ≤ d.depth := by
  obtain ⟨t, ht, ha⟩ := h
  have h1 := Doc.typedSets_allSets ht
  have := (Doc.node_facts h1 (node_mem_of_flat ha)).2
  have := Doc.allSets_depth h1
  omega

theorem flat_child_depth {s : Schema} {p : Option String} {xs : List Sel} {c : Spec.FieldInst}
    (hc : c ∈ selsFlat s p xs) : nodeDepth c.node ≤ selsDepth xs :=
  (selsFields_facts _ _ (node_mem_of_flat hc)).2.1

end Gql.Exec
