import Gql.Proofs.SchemaCycles
import Gql.Spec.TypeSystem
/-
Lemmas for C20, part 7: the graph of unbreakable references (a field whose type is Non-Null of an
input object), and that the specification's bounded search (`Spec.noUnbreakableCycle`) decides
whether a type reaches itself in it.
-/
namespace Gql.Types
open Gql

/-- `b` is an unbreakable reference of `a` -/
def Edge (s : RawSchema) (a b : Str) : Prop := b ∈ Spec.unbreakableRefs s a

inductive ReachStar (s : RawSchema) : Str → Str → Prop where
  | refl (a : Str) : ReachStar s a a
  | step {a b c : Str} : Edge s a b → ReachStar s b c → ReachStar s a c

/-- a non-empty chain of unbreakable references -/
def ReachPlus (s : RawSchema) (a c : Str) : Prop := ∃ b, Edge s a b ∧ ReachStar s b c

theorem ReachStar.trans {s : RawSchema} {a b c : Str} (h1 : ReachStar s a b) (h2 : ReachStar s b c) :
    ReachStar s a c := by
  induction h1 with
  | refl => exact h2
  | step e _ ih => exact .step e (ih h2)

theorem ReachStar.tail {s : RawSchema} {a b c : Str} (h1 : ReachStar s a b) (e : Edge s b c) :
    ReachStar s a c := h1.trans (.step e (.refl c))

theorem ReachPlus.of_star_edge {s : RawSchema} {a b c : Str} (h1 : ReachStar s a b) (e : Edge s b c) :
    ReachPlus s a c := by
  cases h1 with
  | refl => exact ⟨c, e, .refl c⟩
  | step e1 h => exact ⟨_, e1, h.tail e⟩

theorem ReachPlus.star {s : RawSchema} {a c : Str} (h : ReachPlus s a c) : ReachStar s a c := by
  obtain ⟨b, e, h⟩ := h; exact .step e h

/-- the target of an unbreakable reference is an input object type of the schema -/
theorem edge_target {s : RawSchema} {a b : Str} (h : Edge s a b) : s.isInputObject b = true := by
  unfold Edge Spec.unbreakableRefs at h
  split at h
  · rename_i fields o hl
    obtain ⟨f, _, hf⟩ := List.mem_filterMap.mp h
    split at hf
    · rename_i m _
      split at hf
      · rename_i hm; simp at hf; subst hf; exact hm
      · simp at hf
    · simp at hf
  · simp at h

theorem edge_source {s : RawSchema} {a b : Str} (h : Edge s a b) :
    ∃ fields o, s.lookup a = some (.input fields o) := by
  unfold Edge Spec.unbreakableRefs at h
  split at h
  · rename_i fields o hl; exact ⟨fields, o, hl⟩
  · simp at h

theorem isInputObject_lookup {s : RawSchema} {n : Str} (h : s.isInputObject n = true) :
    ∃ fields o, s.lookup n = some (.input fields o) := by
  unfold RawSchema.isInputObject at h
  split at h
  · rename_i fields o hl; exact ⟨fields, o, hl⟩
  · simp at h

theorem isInputObject_mem_names {s : RawSchema} {n : Str} (h : s.isInputObject n = true) :
    n ∈ s.types.map (·.name) := by
  obtain ⟨fields, o, hl⟩ := isInputObject_lookup h
  obtain ⟨t, ht, hn, _⟩ := lookup_mem hl
  exact List.mem_map.mpr ⟨t, ht, hn⟩

/-! ### the bounded search -/

theorem mem_step (s : RawSchema) (X : List Str) (b : Str) :
    b ∈ (X ++ X.flatMap (Spec.unbreakableRefs s)).eraseDups ↔ b ∈ X ∨ ∃ a ∈ X, Edge s a b := by
  rw [List.mem_eraseDups]
  simp [Edge, List.mem_flatMap]

theorem reachable_sound (s : RawSchema) : ∀ (n : Nat) (X : List Str) (b : Str),
    b ∈ Spec.reachable s n X → ∃ x ∈ X, ReachStar s x b
  | 0, X, b, h => ⟨b, h, .refl b⟩
  | n + 1, X, b, h => by
    unfold Spec.reachable at h
    obtain ⟨x', hx', hr⟩ := reachable_sound s n _ b h
    rcases (mem_step s X x').mp hx' with hx | ⟨a, ha, e⟩
    · exact ⟨x', hx, hr⟩
    · exact ⟨a, ha, .step e hr⟩

theorem reachable_mono (s : RawSchema) : ∀ (n : Nat) (X : List Str) (b : Str),
    b ∈ X → b ∈ Spec.reachable s n X
  | 0, _, _, h => h
  | n + 1, X, b, h => by
    unfold Spec.reachable
    exact reachable_mono s n _ b ((mem_step s X b).mpr (Or.inl h))

def ClosedL (s : RawSchema) (X : List Str) : Prop := ∀ a ∈ X, ∀ b, Edge s a b → b ∈ X

theorem closed_stable (s : RawSchema) : ∀ (n : Nat) (X : List Str), ClosedL s X →
    ∀ b, b ∈ Spec.reachable s n X → b ∈ X
  | 0, _, _, _, h => h
  | n + 1, X, hc, b, h => by
    unfold Spec.reachable at h
    have hsub : ∀ y, y ∈ (X ++ X.flatMap (Spec.unbreakableRefs s)).eraseDups → y ∈ X := by
      intro y hy
      rcases (mem_step s X y).mp hy with hy | ⟨a, ha, e⟩
      · exact hy
      · exact hc a ha y e
    have hc' : ClosedL s (X ++ X.flatMap (Spec.unbreakableRefs s)).eraseDups := by
      intro a ha b' e
      exact (mem_step s X b').mpr (Or.inl (hc a (hsub a ha) b' e))
    exact hsub b (closed_stable s n _ hc' b h)

theorem closed_reach {s : RawSchema} {X : List Str} (hc : ClosedL s X) {x b : Str} (hx : x ∈ X)
    (h : ReachStar s x b) : b ∈ X := by
  induction h with
  | refl => exact hx
  | step e _ ih => exact ih (hc _ hx _ e)

/-- names of the schema's types not in `X` -/
def unseen (s : RawSchema) (X : List Str) : Nat :=
  (s.types.map (·.name)).countP (fun n => !X.contains n)

theorem reachable_closed (s : RawSchema) : ∀ (n : Nat) (X : List Str),
    unseen s X ≤ n → ClosedL s (Spec.reachable s n X)
  | 0, X, hU => by
    intro a _ b e
    have hz : unseen s X = 0 := by omega
    unfold unseen at hz
    rw [List.countP_eq_zero] at hz
    have := hz b (isInputObject_mem_names (edge_target e))
    simpa [Spec.reachable] using this
  | n + 1, X, hU => by
    unfold Spec.reachable
    by_cases hcl : ClosedL s X
    · -- already closed: further rounds add nothing
      have hsub : ∀ y, y ∈ (X ++ X.flatMap (Spec.unbreakableRefs s)).eraseDups → y ∈ X := by
        intro y hy
        rcases (mem_step s X y).mp hy with hy | ⟨a, ha, e⟩
        · exact hy
        · exact hcl a ha y e
      have hc' : ClosedL s (X ++ X.flatMap (Spec.unbreakableRefs s)).eraseDups := by
        intro a ha b' e
        exact (mem_step s X b').mpr (Or.inl (hcl a (hsub a ha) b' e))
      intro a ha b e
      have ha' := closed_stable s n _ hc' a ha
      exact reachable_mono s n _ b (hc' a ha' b e)
    · -- a new name is added, so fewer remain unseen
      apply reachable_closed s n
      have hex : ∃ a, a ∈ X ∧ ∃ b, Edge s a b ∧ b ∉ X := by
        apply Classical.byContradiction
        intro hne
        apply hcl
        intro a ha b e
        apply Classical.byContradiction
        intro hb
        exact hne ⟨a, ha, b, e, hb⟩
      obtain ⟨a, ha, b, e, hb⟩ := hex
      have hlt : unseen s (X ++ X.flatMap (Spec.unbreakableRefs s)).eraseDups < unseen s X := by
        unfold unseen
        apply countP_lt_of_mem _ _ _ b
        · intro x hx
          simp only [List.contains_eq_mem, Bool.not_eq_eq_eq_not, Bool.not_true, decide_eq_false_iff_not] at hx ⊢
          exact fun hxX => hx ((mem_step s X x).mpr (Or.inl hxX))
        · exact isInputObject_mem_names (edge_target e)
        · simpa using hb
        · simp only [List.contains_eq_mem, Bool.not_eq_eq_eq_not, Bool.not_false, decide_eq_true_eq]
          exact (mem_step s X b).mpr (Or.inr ⟨a, ha, e⟩)
      omega

/-- The specification's bounded search finds a type among what its unbreakable references reach
exactly when the type reaches itself through a non-empty chain of unbreakable references. -/
theorem noUnbreakableCycle_iff (s : RawSchema) (tn : Str) :
    Spec.noUnbreakableCycle s tn = true ↔ ¬ ReachPlus s tn tn := by
  unfold Spec.noUnbreakableCycle
  simp only [Bool.not_eq_eq_eq_not, Bool.not_true, List.contains_eq_mem, decide_eq_false_iff_not]
  refine not_congr ⟨fun h => ?_, fun h => ?_⟩
  · obtain ⟨x, hx, hr⟩ := reachable_sound s _ _ tn h
    exact ⟨x, hx, hr⟩
  · obtain ⟨x, e, hr⟩ := h
    have hcl := reachable_closed s s.types.length (Spec.unbreakableRefs s tn) (by
      unfold unseen
      exact Nat.le_trans List.countP_le_length (by simp))
    exact closed_reach hcl (reachable_mono s _ _ x e) hr

end Gql.Types
