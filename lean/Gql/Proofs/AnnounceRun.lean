import Gql.Proofs.Announce
/-!
The run invariant behind P1 ("announced at most once"): the scheduler-graph invariant `Good`,
the domain invariant of `Complete.lean`, and `AnnFresh` for all the events emitted so far.
-/
namespace Gql.Async
open Gql.Spec.Protocol

def AnnInv (σ : Static) (D0 : List Node) (e : EnvSt) (q : WQ) (E : List WQEvent) : Prop :=
  Good σ e q ∧ DomInv D0 e q E ∧ AnnFresh D0 E

theorem workOptOk_of (σ : Static) (e : EnvSt) (q : WQ) (pr : Option Nat) (wo : Option Work)
    (h : workOptOk σ e q pr wo = true) : ∀ w, wo = some w → WorkOk σ e q w := by
  intro w hw
  subst hw
  exact workOk_of σ e q pr w h

theorem handle_good (σ : Static) (e : EnvSt) (q : WQ) (ev : GraphEvent) (e' : EnvSt) (D : List Node)
    (g : Good σ e q) (hp : PumpInv e q) (hD : ∀ n ∈ D, isRoot q n)
    (hok : eventOk σ e q ev = some e') :
    Good σ e' (handleGraphEvent σ q ev).1 ∧ AnnFresh D (handleGraphEvent σ q ev).2 := by
  cases ev with
  | taskSuccess t r =>
    simp only [eventOk] at hok
    split at hok
    · rename_i hc
      cases hok
      simp only [Bool.and_eq_true] at hc
      obtain ⟨g1, f1⟩ := taskSuccess_all σ e q t r D g (workOptOk_of σ e q (some t) r.work hc.2) hD
      exact ⟨g1.congr rfl rfl, f1⟩
    · cases hok
  | taskFailure t =>
    simp only [eventOk] at hok
    split at hok
    · cases hok
      obtain ⟨g1, f1⟩ := taskFailure_all σ e q t D g
      exact ⟨g1.congr rfl rfl, f1⟩
    · cases hok
  | streamItems s items st =>
    have hroot := streamItems_isRoot σ e q s items st e' hp hok
    simp only [eventOk] at hok
    split at hok
    · cases hi : itemsOk σ q e ((alookup e.streamNext s).getD 0) items with
      | none => simp [hi] at hok
      | some r =>
        obtain ⟨e1, n1⟩ := r
        simp only [hi, Option.some.injEq] at hok
        subst hok
        obtain ⟨g1, f1⟩ := streamItems_all σ e q s items st D e1 _ n1 g hi hD hroot
        exact ⟨g1.congr rfl rfl, f1⟩
    · cases hok
  | streamSuccess s =>
    simp only [eventOk] at hok
    split at hok
    · cases hok
      simp only [handleGraphEvent]
      split
      · refine ⟨?_, ⟨List.nodup_nil, by simp [evNew]⟩, trivial⟩
        have g' : Good σ ({ e with streamDone := s :: e.streamDone } : EnvSt) q := g.congr rfl rfl
        exact g'.shrink (q' := { q with rootStreams := oerase q.rootStreams s }) (shrink_of_eq rfl rfl)
          (fun x hx => hx) (fun x hx => by simp only [mem_oerase] at hx; exact hx.1)
      · exact ⟨g.congr rfl rfl, trivial⟩
    · cases hok
  | streamFailure s =>
    simp only [eventOk] at hok
    split at hok
    · cases hok
      simp only [handleGraphEvent]
      refine ⟨?_, ⟨List.nodup_nil, by simp [evNew]⟩, trivial⟩
      have g' : Good σ ({ e with streamDone := s :: e.streamDone } : EnvSt) q := g.congr rfl rfl
      exact g'.shrink (q' := { q with rootStreams := oerase q.rootStreams s }) (shrink_of_eq rfl rfl)
        (fun x hx => hx) (fun x hx => by simp only [mem_oerase] at hx; exact hx.1)
    · cases hok
  | stop =>
    simp only [eventOk] at hok; cases hok
    exact ⟨g, trivial⟩

theorem annInv_run (σ : Static) (D0 : List Node) : RunInv σ (AnnInv σ D0) where
  handle := by
    intro e q ev e' E ⟨g, d, f⟩ hst hok
    obtain ⟨g1, f1⟩ := handle_good σ e q ev e' (domSteps D0 E) g d.1 d.2.2 hok
    refine ⟨g1, (domInv_run σ D0).handle e q ev e' E d hst hok, ?_⟩
    rw [annFresh_append]; exact ⟨f, f1⟩
  chan := by
    intro e q E c ⟨g, d, f⟩
    exact ⟨g.shrink (shrink_of_eq rfl rfl) (fun x hx => hx) (fun x hx => hx), d, f⟩
  defer := by
    intro e q E dd ⟨g, d, f⟩
    exact ⟨g.shrink (shrink_of_eq rfl rfl) (fun x hx => hx) (fun x hx => hx), d, f⟩
  term := by
    intro e q E ⟨g, d, f⟩ hg hs
    refine ⟨g.shrink (shrink_of_eq rfl rfl) (fun x hx => hx) (fun x hx => hx),
      (domInv_run σ D0).term e q E d hg hs, ?_⟩
    rw [annFresh_append]
    exact ⟨f, ⟨List.nodup_nil, by simp [evNew]⟩, trivial⟩

/-! ### the start -/

theorem good_empty (σ : Static) (e : EnvSt) : Good σ e {} := by
  refine ⟨⟨?_, ?_, ?_⟩, ⟨?_, ?_, ?_⟩, ⟨?_, ?_, ?_⟩, ⟨?_, ?_⟩⟩
  · intro p c ⟨n, hn, _⟩; simp [alookup] at hn
  · intro p n hn; simp [alookup] at hn
  · intro p c ⟨n, hn, _⟩; simp [alookup] at hn
  · intro g ⟨n, hn⟩; simp [alookup] at hn
  · intro g hg; simp at hg
  · intro p c ⟨n, hn, _⟩; simp [alookup] at hn
  · intro t tn hn; simp [alookup] at hn
  · intro t tn s hn; simp [alookup] at hn
  · intro t t' tn tn' s hn; simp [alookup] at hn
  · intro s hs; simp at hs
  · intro t tn s hn; simp [alookup] at hn

theorem startRoots_shrink (σ : Static) (q : WQ) : Shrink q (startRoots σ q) := by
  unfold startRoots
  simp only
  have h1 : Shrink q (q.rootGroups.foldl (startGroup σ) q) := foldl_shrink _ _ _ (startGroup_shrink σ)
  have h2 : ∀ (l : List Nat) (q' : WQ), Shrink q' (l.foldl startStream q') := by
    intro l
    induction l with
    | nil => intro q'; exact Shrink.refl q'
    | cons s l ih =>
      intro q'
      simp only [List.foldl_cons]
      have a : Shrink q' (startStream q' s) := shrink_of_eq rfl rfl
      exact a.trans (ih _)
  exact h1.trans (h2 _ _)

/-- The started queue of a well-formed initial work is good, and its initial roots are distinct. -/
theorem init_good (σ : Static) (work : Option Work)
    (hw : workOptOk σ {} {} none work = true) :
    Good σ (({} : EnvSt).intro work) (startRoots σ (init σ work).1) ∧
    (nodesOf (init σ work).2.1 (init σ work).2.2).Nodup := by
  cases work with
  | none =>
    have : init σ none = ({}, [], []) := rfl
    rw [this]
    refine ⟨?_, by simp [nodesOf]⟩
    have hs : startRoots σ ({} : WQ) = {} := rfl
    rw [hs]; exact good_empty σ _
  | some w =>
    have ok := workOk_of σ {} {} none w hw
    obtain ⟨gi, fi, ni, mi, si, sni⟩ := integrateWork_good σ {} {} w none (good_empty σ {}) ok
    have tsi := integrateWork_tsub_none σ {} w
    have hdet : ∀ x ∈ (integrateWork σ {} (some w) none).2.1,
        Detached (integrateWork σ {} (some w) none).1 x := by
      intro x hx p hc
      have := gi.forest.parent p x hc
      rw [(mi x hx).2] at this; cases this
    obtain ⟨new, en, po⟩ := prune_spec σ _ (integrateWork σ {} (some w) none).2.1
      (integrateWork σ {} (some w) none).1 [] gi.forest.treeLike ni hdet
    have hnew : (pruneEmpty (integrateWork σ {} (some w) none).1
        (integrateWork σ {} (some w) none).2.1).2 = new := by simpa [pruneEmpty] using en
    have shp : Shrink (integrateWork σ {} (some w) none).1
        (pruneEmpty (integrateWork σ {} (some w) none).1 (integrateWork σ {} (some w) none).2.1).1 :=
      prune_shrink _ _ ((integrateWork σ {} (some w) none).1, [])
    have frp := pruneEmpty_frame (integrateWork σ {} (some w) none).1
      (integrateWork σ {} (some w) none).2.1
    have gp : Good σ (({} : EnvSt).intro (some w)) (pruneEmpty (integrateWork σ {} (some w) none).1
        (integrateWork σ {} (some w) none).2.1).1 := gi.frame shp frp
    have hinit : init σ (some w) =
        (({ (pruneEmpty (integrateWork σ {} (some w) none).1 (integrateWork σ {} (some w) none).2.1).1 with
            rootGroups := (pruneEmpty (integrateWork σ {} (some w) none).1
              (integrateWork σ {} (some w) none).2.1).2.foldl oinsert [],
            rootStreams := (integrateWork σ {} (some w) none).2.2.foldl oinsert [] } : WQ),
          (pruneEmpty (integrateWork σ {} (some w) none).1 (integrateWork σ {} (some w) none).2.1).2,
          (integrateWork σ {} (some w) none).2.2) := rfl
    rw [hinit, hnew]
    refine ⟨?_, nodesOf_nodup _ _ po.nodup sni⟩
    have sh : Shrink (pruneEmpty (integrateWork σ {} (some w) none).1
        (integrateWork σ {} (some w) none).2.1).1
        (startRoots σ ({ (pruneEmpty (integrateWork σ {} (some w) none).1
          (integrateWork σ {} (some w) none).2.1).1 with
            rootGroups := new.foldl oinsert [],
            rootStreams := (integrateWork σ {} (some w) none).2.2.foldl oinsert [] } : WQ)) := by
      have a : Shrink (pruneEmpty (integrateWork σ {} (some w) none).1
          (integrateWork σ {} (some w) none).2.1).1
          ({ (pruneEmpty (integrateWork σ {} (some w) none).1
            (integrateWork σ {} (some w) none).2.1).1 with
              rootGroups := new.foldl oinsert [],
              rootStreams := (integrateWork σ {} (some w) none).2.2.foldl oinsert [] } : WQ) :=
        shrink_of_eq rfl rfl
      exact a.trans (startRoots_shrink σ _)
    apply gp.grow sh new (integrateWork σ {} (some w) none).2.2
    · intro x hx
      have := (isRoot_startRoots σ _ (.group x)).mp hx
      simp only [isRoot, mem_foldl_oinsert] at this
      rcases this with h | h
      · simp at h
      · exact Or.inr h
    · intro x hx
      have := (isRoot_startRoots σ _ (.stream x)).mp hx
      simp only [isRoot, mem_foldl_oinsert] at this
      rcases this with h | h
      · simp at h
      · exact Or.inr h
    · intro x hx
      rcases po.src x hx with h1 | ⟨p, hp1, hp2⟩
      · refine ⟨(hdet x h1).sub shp.sub, ?_⟩
        simp only [EnvSt.intro, List.mem_append]; exact Or.inl (mi x h1).1
      · refine ⟨?_, gi.known.children p x hp1⟩
        intro p' hc
        have e1 := gi.forest.parent p' x (shp.sub.hasChild hc)
        have e2 := gi.forest.parent p x hp1
        rw [e1] at e2; cases e2
        obtain ⟨m, hm, _⟩ := hc
        simp only [pruneEmpty] at hm hp2
        rw [hp2] at hm; cases hm
    · intro s hs
      refine ⟨?_, by simp only [EnvSt.intro, List.mem_append]; exact Or.inl (si s hs).1⟩
      intro t tn ht hst
      simp only [pruneEmpty] at ht
      rw [prune_taskNodes] at ht
      rcases tsi t tn ht with e0 | ⟨tn0, e0, _⟩
      · rw [e0] at hst; cases hst
      · simp [alookup] at e0

/-- At the end of every well-formed history the invariant holds for the final queue and the
flattened stream of all emitted events. -/
theorem annInv_final (σ : Static) (fuel : Nat) (work : Option Work) (h : List Tick)
    (hok : envOk σ fuel work h = true) :
    (nodesOf (init σ work).2.1 (init σ work).2.2).Nodup ∧
    ∃ e, AnnInv σ (nodesOf (init σ work).2.1 (init σ work).2.2) e
      (wqRun σ fuel (wqStart σ fuel work) h).1 (wqRun σ fuel (wqStart σ fuel work) h).2.flatten := by
  have hw : workOptOk σ {} {} none work = true := by
    unfold envOk at hok
    simp only [Bool.and_eq_true] at hok
    exact hok.1
  obtain ⟨g0, hn⟩ := init_good σ work hw
  refine ⟨hn, ?_⟩
  apply (annInv_run σ _).envOk fuel work h ?_ hok
  obtain ⟨hp, hst, hr⟩ := init_facts σ work
  obtain ⟨sp, sst⟩ := startRoots_pumps σ (init σ work).1
  refine ⟨g0, ⟨?_, ?_, ?_⟩, trivial⟩
  · intro s hs
    rw [sp, hp, List.nil_append] at hs
    exact Or.inl ((isRoot_startRoots σ _ (.stream s)).mpr hs)
  · intro hs; rw [sst, hst] at hs; cases hs
  · intro n hn'
    exact (isRoot_startRoots σ _ n).mpr (hr n hn')

end Gql.Async
