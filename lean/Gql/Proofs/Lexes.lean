import Gql.Proofs.NumberLex
import Gql.Proofs.TypeTokens
/-!
`Lexes strict text ks`: wherever `text` stands in a source (after any prefix, before any `rest`
— which must be `Safe` when `strict`), the lexer reads from its first character exactly tokens with
the kinds and values `ks` and arrives at its end.  The building blocks of `render_lex`.
-/
namespace Gql.Text

abbrev KV := TokKind × Option (List Nat)

def Lexes (strict : Bool) (text : List Nat) (ks : List KV) : Prop :=
  ∀ (pre rest : List Nat) (fuel : Nat) (st : LexState) (acc : List Token),
    (strict = true → Safe rest) →
    ∃ (toks : List Token) (st' : LexState), toks.map Token.kv = ks ∧
      lexAllAux (pre ++ (text ++ rest)) (fuel + ks.length) st pre.length acc =
        lexAllAux (pre ++ (text ++ rest)) fuel st' (pre.length + text.length) (acc ++ toks)

theorem Lexes.weaken {text : List Nat} {ks : List KV} (h : Lexes false text ks) (s : Bool) :
    Lexes s text ks := by
  intro pre rest fuel st acc _
  exact h pre rest fuel st acc (by simp)

/-- One token. -/
theorem Lexes.single (strict : Bool) (text : List Nat) (k : TokKind) (v : Option (List Nat))
    (hk : k ≠ .eof) (hc : k ≠ .comment)
    (h : ∀ (pre rest : List Nat) (st : LexState), (strict = true → Safe rest) →
      ∃ tok st', readNextToken (pre ++ (text ++ rest)) st pre.length = .ok (tok, st') ∧
        tok.kind = k ∧ tok.value = v ∧ tok.stop = pre.length + text.length) :
    Lexes strict text [(k, v)] := by
  intro pre rest fuel st acc hs
  obtain ⟨tok, st', hr, h1, h2, h3⟩ := h pre rest st hs
  refine ⟨[tok], st', by simp [Token.kv, h1, h2], ?_⟩
  simp only [List.length_cons, List.length_nil, Nat.zero_add]
  rw [lexAux_step _ fuel st st' pre.length acc tok hr (by rw [h1]; exact hk) (by rw [h1]; exact hc), h3]

/-- Blanks, commas and line feeds between tokens. -/
def Ignorable (text : List Nat) : Prop := ∀ c ∈ text, c = 32 ∨ c = 44 ∨ c = 10

theorem next_skip_lf (body : List Nat) (st : LexState) (pos : Nat) (h0 : body[pos]? = some 10) :
    readNextToken body st pos = readNextToken body { line := st.line + 1, lineStart := pos + 1 } (pos + 1) := by
  obtain ⟨hlen, hidx⟩ := index_of_getElem? h0
  rw [readNextToken]
  simp [hlen, hidx]

theorem skip_ignorable (text : List Nat) (h : Ignorable text) :
    ∀ (pre rest : List Nat) (st : LexState), ∃ st',
      readNextToken (pre ++ (text ++ rest)) st pre.length =
        readNextToken (pre ++ (text ++ rest)) st' (pre.length + text.length) := by
  induction text with
  | nil => intro pre rest st; exact ⟨st, by simp⟩
  | cons c r ih =>
    intro pre rest st
    have hc := h c (by simp)
    have hr : Ignorable r := fun d hd => h d (by simp [hd])
    have hget : (pre ++ (c :: r ++ rest))[pre.length]? = some c := (getElem?_pre0 pre _).trans rfl
    have hb : pre ++ (c :: r ++ rest) = (pre ++ [c]) ++ (r ++ rest) := by simp
    rcases hc with rfl | rfl | rfl
    · obtain ⟨st', h'⟩ := ih hr (pre ++ [32]) rest st
      refine ⟨st', ?_⟩
      rw [next_skip _ st pre.length 32 hget (Or.inl rfl), hb]
      simp only [List.length_append, List.length_cons, List.length_nil, Nat.zero_add] at h' ⊢
      rw [h']; congr 1; omega
    · obtain ⟨st', h'⟩ := ih hr (pre ++ [44]) rest st
      refine ⟨st', ?_⟩
      rw [next_skip _ st pre.length 44 hget (Or.inr rfl), hb]
      simp only [List.length_append, List.length_cons, List.length_nil, Nat.zero_add] at h' ⊢
      rw [h']; congr 1; omega
    · obtain ⟨st', h'⟩ := ih hr (pre ++ [10]) rest { line := st.line + 1, lineStart := pre.length + 1 }
      refine ⟨st', ?_⟩
      rw [next_skip_lf _ st pre.length hget, hb]
      simp only [List.length_append, List.length_cons, List.length_nil, Nat.zero_add] at h' ⊢
      rw [h']; congr 1; omega

theorem lexAllAux_congr_next (body : List Nat) (fuel : Nat) (st st' : LexState) (pos pos' : Nat)
    (acc : List Token) (h : readNextToken body st pos = readNextToken body st' pos') :
    lexAllAux body fuel st pos acc = lexAllAux body fuel st' pos' acc := by
  cases fuel with
  | zero => simp [lexAllAux]
  | succ n => rw [lexAllAux, lexAllAux, h]

theorem Lexes.ignorable (text : List Nat) (h : Ignorable text) : Lexes false text [] := by
  intro pre rest fuel st acc _
  obtain ⟨st', hs⟩ := skip_ignorable text h pre rest st
  exact ⟨[], st', rfl, by simpa using lexAllAux_congr_next _ fuel st st' _ _ acc hs⟩

theorem Lexes.nil : Lexes false [] [] := Lexes.ignorable [] (by intro c hc; simp at hc)

/-- Concatenation: `b` must be a safe continuation of `a` when `a` needs one. -/
theorem Lexes.append {sa sb : Bool} {a b : List Nat} {ka kb : List KV} (ha : Lexes sa a ka)
    (hb : Lexes sb b kb)
    (hsafe : sa = true → ∀ rest, (sb = true → Safe rest) → Safe (b ++ rest)) :
    Lexes sb (a ++ b) (ka ++ kb) := by
  intro pre rest fuel st acc hs
  obtain ⟨t1, st1, hk1, h1⟩ := ha pre (b ++ rest) (fuel + kb.length) st acc (fun h => hsafe h rest hs)
  obtain ⟨t2, st2, hk2, h2⟩ := hb (pre ++ a) rest fuel st1 (acc ++ t1) hs
  refine ⟨t1 ++ t2, st2, by simp [hk1, hk2], ?_⟩
  have e1 : pre ++ (a ++ b ++ rest) = pre ++ (a ++ (b ++ rest)) := by simp
  have e2 : pre ++ (a ++ (b ++ rest)) = (pre ++ a) ++ (b ++ rest) := by simp
  rw [e1, show fuel + (ka ++ kb).length = fuel + kb.length + ka.length by simp; omega, h1, e2]
  simp only [List.length_append] at h2 ⊢
  rw [h2]
  simp [Nat.add_assoc]

theorem safe_append_of_head {b : List Nat} {c : Nat} {r : List Nat} (hb : b = c :: r)
    (hc : safeHead c = true) (rest : List Nat) : Safe (b ++ rest) := by
  subst hb; exact Safe.cons hc

end Gql.Text
