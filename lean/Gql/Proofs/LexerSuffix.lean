import Gql.Proofs.LexerBasic
import Gql.Spec.Lex
/-!
# The index-based lexer as a function of the suffix `body.drop pos`

Each loop of the model (`readNameLoop`, `digitsLoop`, `readCommentLoop`, …) started at `pos`
returns `pos +` the corresponding *suffix* function of the specification (`nameContinueLen`,
`digitsLen`, `commentCharsLen`) applied to `body.drop pos`.
-/
open Gql Gql.Text
namespace Gql.Text
open Gql.Spec.Lex

theorem drop_cons (body : List Nat) (pos : Nat) (h : pos < body.length) :
    body.drop pos = body[pos] :: body.drop (pos + 1) := by
  exact List.drop_eq_getElem_cons h

theorem drop_nil (body : List Nat) (pos : Nat) (h : body.length ≤ pos) : body.drop pos = [] :=
  List.drop_eq_nil_of_le h

theorem charAt_drop (body : List Nat) (pos k : Nat) : charAt body (pos + k) = (body.drop pos)[k]? := by
  simp [charAt, List.getElem?_drop]

theorem isNameContinue_iff (c : Nat) : isNameContinue c = true ↔ NameContinue c := by
  simp [isNameContinue, isLetter, isDigit, NameContinue, Letter, Digit]; omega

theorem isNameStart_iff (c : Nat) : isNameStart c = true ↔ NameStart c := by
  simp [isNameStart, isLetter, NameStart, Letter]

theorem isDigit_iff (c : Nat) : isDigit c = true ↔ Digit c := by
  simp [isDigit, Digit]

theorem isScalar_iff (c : Nat) : isScalar c = true ↔ Scalar c := by
  simp [isScalar, Scalar]

theorem readNameLoop_eq (body : List Nat) (pos : Nat) :
    readNameLoop body pos = .ok (pos + nameContinueLen (body.drop pos)) := by
  fun_induction readNameLoop body pos
  · rename_i pos h ih
    rw [index_ok _ _ h, Out.bind_ok, drop_cons _ _ h]
    simp only [nameContinueLen]
    by_cases hc : isNameContinue body[pos] = true
    · rw [if_pos hc, if_pos ((isNameContinue_iff _).mp hc), ih]; congr 1; omega
    · rw [if_neg hc, if_neg (fun h' => hc ((isNameContinue_iff _).mpr h'))]; rfl
  · rename_i pos h
    rw [drop_nil _ _ (by omega)]; rfl

theorem digEnd_eq (body : List Nat) (pos : Nat) :
    digEnd body pos = pos + digitsLen (body.drop pos) := by
  fun_induction digEnd body pos
  · rename_i pos h hd ih
    rw [drop_cons _ _ h]; simp only [digitsLen]
    rw [if_pos ((isDigit_iff _).mp hd), ih]; omega
  · rename_i pos h hd
    rw [drop_cons _ _ h]; simp only [digitsLen]
    rw [if_neg (fun h' => hd ((isDigit_iff _).mpr h'))]; rfl
  · rename_i pos h
    rw [drop_nil _ _ (by omega)]; rfl

theorem isSupplementary_iff (body : List Nat) (pos : Nat) (h : pos < body.length) :
    isSupplementary body pos = true ↔
      ∃ d rest, body.drop (pos + 1) = d :: rest ∧ LeadSurrogate body[pos] ∧ TrailSurrogate d := by
  unfold isSupplementary
  have h0 : body[pos]? = some body[pos] := by simp [h]
  rw [h0]
  by_cases h1 : pos + 1 < body.length
  · have : body[pos + 1]? = some body[pos + 1] := by simp [h1]
    rw [this]
    have hd := drop_cons _ _ h1
    constructor
    · intro hh
      refine ⟨_, _, hd, ?_⟩
      simpa [isLeadSurrogate, isTrailSurrogate, LeadSurrogate, TrailSurrogate] using hh
    · rintro ⟨d, rest, hd', hl, ht⟩
      rw [hd] at hd'
      have : body[pos + 1] = d := by simpa using (List.cons.inj hd').1
      subst this
      simpa [isLeadSurrogate, isTrailSurrogate, LeadSurrogate, TrailSurrogate] using And.intro hl ht
  · have : body[pos + 1]? = none := by simp; omega
    rw [this, drop_nil _ _ (by omega)]
    simp

theorem readCommentLoop_eq (body : List Nat) (pos : Nat) :
    readCommentLoop body pos = .ok (pos + commentCharsLen (body.drop pos)) := by
  fun_induction readCommentLoop body pos
  · rename_i pos h ih1 ih2
    rw [index_ok _ _ h, Out.bind_ok, drop_cons _ _ h]
    rw [commentCharsLen.eq_def]; simp only []
    by_cases hlt : body[pos] = 13 ∨ body[pos] = 10
    · rw [if_pos hlt, if_pos (show LineTerm body[pos] by unfold LineTerm; omega)]; rfl
    · rw [if_neg hlt, if_neg (show ¬ LineTerm body[pos] by unfold LineTerm; omega)]
      by_cases hs : isScalar body[pos] = true
      · rw [if_pos hs, if_pos ((isScalar_iff _).mp hs), ih1]; congr 1; omega
      · rw [if_neg hs, if_neg (fun h' => hs ((isScalar_iff _).mpr h'))]
        by_cases hsup : isSupplementary body pos = true
        · rw [if_pos hsup]
          obtain ⟨d, rest, hd, hl, ht⟩ := (isSupplementary_iff body pos h).mp hsup
          have h1 := isSupplementary_lt _ _ hsup
          have hrest : rest = body.drop (pos + 2) := by
            have hd2 := hd
            rw [drop_cons _ _ h1] at hd2
            exact (List.cons.inj hd2).2.symm
          rw [hd]; simp only []
          rw [if_pos ⟨hl, ht⟩, ih2, hrest]; congr 1; omega
        · rw [if_neg hsup]
          cases hd : body.drop (pos + 1) with
          | nil => rfl
          | cons d rest =>
            simp only []
            rw [if_neg]; · rfl
            intro hlt'
            exact hsup ((isSupplementary_iff body pos h).mpr ⟨d, rest, hd, hlt'.1, hlt'.2⟩)
  · rename_i pos h
    rw [drop_nil _ _ (by omega)]; rfl

theorem readNextToken_unfold (body : List Nat) (st : LexState) (pos : Nat) (h : pos < body.length) :
    readNextToken body st pos =
      (let c := body[pos]
       if c = 32 ∨ c = 9 ∨ c = 44 ∨ c = 0xFEFF then readNextToken body st (pos + 1)
    else if c = 10 then readNextToken body { line := st.line + 1, lineStart := pos + 1 } (pos + 1)
    else if c = 13 then
      if charAt body (pos + 1) = some 10 then
        readNextToken body { line := st.line + 1, lineStart := pos + 2 } (pos + 2)
      else readNextToken body { line := st.line + 1, lineStart := pos + 1 } (pos + 1)
    else if c = 35 then do
      let t ← readComment body st pos
      pure (t, st)
    else if c = 34 then
      if slice body (pos + 1) (pos + 3) = [34, 34] then readBlockString body st pos
      else do
        let t ← readString body st pos
        pure (t, st)
    else
      match punctKind c with
      | some k => pure (mkToken st k pos (pos + 1) none, st)
      | none =>
        if isDigit c ∨ c = 45 then do
          let t ← readNumber body st pos c
          pure (t, st)
        else if isNameStart c then do
          let t ← readName body st pos
          pure (t, st)
        else
          let dotErr : Option LexErr :=
            if c = 46 then
              let next := charAt body (pos + 1)
              if next = some 46 then
                if charAt body (pos + 2) = some 46 then none
                else some ⟨.unexpectedDotDot, pos⟩
              else if isDigitOpt next then some ⟨.digitBeforeDot, pos⟩
              else none
            else none
          if c = 46 ∧ charAt body (pos + 1) = some 46 ∧ charAt body (pos + 2) = some 46 then
            pure (mkToken st .spread pos (pos + 3) none, st)
          else
            match dotErr with
            | some e =>
              if e.kind = .digitBeforeDot then do
                let _ ← dotDigitsLoop body (pos + 1)
                .err e
              else .err e
            | none =>
              if c = 39 then .err ⟨.singleQuote, pos⟩
              else if isScalar c ∨ isSupplementary body pos then .err ⟨.unexpectedChar, pos⟩
              else .err ⟨.invalidChar, pos⟩) := by
  rw [readNextToken]
  simp only [h, dite_true]
  rw [index_ok _ _ h, Out.bind_ok]
  rfl

/-- The specification's kind of a model token kind. -/
def kindOf : TokKind → Kind
  | .bang => .bang | .dollar => .dollar | .amp => .amp | .parenL => .parenL | .parenR => .parenR
  | .spread => .spread | .colon => .colon | .equals => .equals | .at => .at
  | .bracketL => .bracketL | .bracketR => .bracketR | .braceL => .braceL | .pipe => .pipe
  | .braceR => .braceR | .name => .name | .int => .int | .float => .float | .string => .string
  | .blockString => .blockString | .eof => .eof
  | .sof => .other | .dot => .other | .comment => .other

/-- Signature of a token: kind, span, value (line and column dropped). -/
def toSpec (t : Token) : SpecToken := ⟨kindOf t.kind, t.start, t.stop, t.value⟩

/-- Signature of a token list. -/
def sig (ts : List Token) : List SpecToken := ts.map toSpec

/-! ### Ignored -/

theorem ignored_ws (body : List Nat) (st : LexState) (pos : Nat) (h : pos < body.length)
    (hc : body[pos] = 32 ∨ body[pos] = 9 ∨ body[pos] = 44 ∨ body[pos] = 0xFEFF) :
    readNextToken body st pos = readNextToken body st (pos + 1) ∧
    ignoredLen (body.drop pos) = some 1 := by
  constructor
  · rw [readNextToken_unfold _ _ _ h]; simp only []; rw [if_pos hc]
  · rw [drop_cons _ _ h]
    rcases hc with hc | hc | hc | hc <;> rw [hc] <;> rfl

theorem ignored_lf (body : List Nat) (st : LexState) (pos : Nat) (h : pos < body.length)
    (hc : body[pos] = 10) :
    readNextToken body st pos =
      readNextToken body { line := st.line + 1, lineStart := pos + 1 } (pos + 1) ∧
    ignoredLen (body.drop pos) = some 1 := by
  constructor
  · rw [readNextToken_unfold _ _ _ h]; simp only []
    rw [if_neg (by omega), if_pos hc]
  · rw [drop_cons _ _ h, hc]; rfl

theorem ignored_cr (body : List Nat) (st : LexState) (pos : Nat) (h : pos < body.length)
    (hc : body[pos] = 13) :
    ∃ n st', readNextToken body st pos = readNextToken body st' (pos + n) ∧
      ignoredLen (body.drop pos) = some n ∧ 0 < n := by
  rw [readNextToken_unfold _ _ _ h]; simp only []
  rw [if_neg (by omega), if_neg (by omega), if_pos hc, drop_cons _ _ h, hc]
  by_cases hn : charAt body (pos + 1) = some 10
  · rw [if_pos hn]
    have h1 := charAt_some_lt hn
    refine ⟨2, _, rfl, ?_, by omega⟩
    rw [drop_cons _ _ h1]
    have : body[pos + 1] = 10 := by
      have := hn; simp [charAt, h1] at this; exact this
    rw [this]; rfl
  · rw [if_neg hn]
    refine ⟨1, _, rfl, ?_, by omega⟩
    cases hd : body.drop (pos + 1) with
    | nil => rfl
    | cons d rest =>
      have hd10 : d ≠ 10 := by
        intro h10; apply hn
        have := charAt_drop body (pos + 1) 0
        simp [hd] at this; rw [this, h10]
      simp only [ignoredLen]
      split <;> simp_all

theorem ignored_comment (body : List Nat) (st : LexState) (pos : Nat) (h : pos < body.length)
    (hc : body[pos] = 35) :
    ∃ n, readNextToken body st pos =
        .ok (mkToken st .comment pos (pos + n) (some (slice body (pos + 1) (pos + n))), st) ∧
      ignoredLen (body.drop pos) = some n ∧ 0 < n := by
  rw [readNextToken_unfold _ _ _ h]; simp only []
  rw [if_neg (by omega), if_neg (by omega), if_neg (by omega), if_pos hc, drop_cons _ _ h, hc]
  refine ⟨1 + commentCharsLen (body.drop (pos + 1)), ?_, rfl, by omega⟩
  unfold readComment
  rw [readCommentLoop_eq]
  simp only [Out.bind_ok, Out.pure_eq]
  rw [Nat.add_assoc]

/-! ### Tokens: which class can start with a given code point -/

theorem longer_none_left (b : Option Match) : longer none b = b := by
  cases b <;> rfl

theorem longer_none_right (a : Option Match) : longer a none = a := by
  cases a <;> rfl

theorem name?_none (c : Nat) (r : List Nat) (h : ¬ NameStart c) : name? (c :: r) = none := by
  simp [name?, h]

theorem integerPart?_none (c : Nat) (r : List Nat) (h1 : c ≠ 45) (h2 : ¬ Digit c) :
    integerPart? (c :: r) = none := by
  unfold Digit at h2
  simp only [integerPart?, unsignedIntegerPart?]
  rw [if_neg h1, if_neg (show ¬ c = 48 by omega),
    if_neg (show ¬ NonZeroDigit c by unfold NonZeroDigit; omega)]

theorem number?_none (c : Nat) (r : List Nat) (h1 : c ≠ 45) (h2 : ¬ Digit c) :
    number? (c :: r) = none := by
  simp [number?, numberCandidates, integerPart?_none c r h1 h2, longest]

theorem string?_none (c : Nat) (r : List Nat) (h : c ≠ 34) : string? (c :: r) = none := by
  unfold string?
  split <;> simp_all

theorem blockString?_none (c : Nat) (r : List Nat) (h : c ≠ 34) : blockString? (c :: r) = none := by
  unfold blockString?
  split <;> simp_all

/-- The punctuator characters (first characters of a Punctuator). -/
def PunctStart (c : Nat) : Prop :=
  c = 33 ∨ c = 36 ∨ c = 38 ∨ c = 40 ∨ c = 41 ∨ c = 46 ∨ c = 58 ∨ c = 61 ∨ c = 64 ∨ c = 91 ∨ c = 93 ∨
  c = 123 ∨ c = 124 ∨ c = 125

theorem punctuator?_none (c : Nat) (r : List Nat) (h : ¬ PunctStart c) : punctuator? (c :: r) = none := by
  unfold PunctStart at h
  have h33 : ¬ (33 = c) := by omega
  have h36 : ¬ (36 = c) := by omega
  have h38 : ¬ (38 = c) := by omega
  have h40 : ¬ (40 = c) := by omega
  have h41 : ¬ (41 = c) := by omega
  have h46 : ¬ (46 = c) := by omega
  have h58 : ¬ (58 = c) := by omega
  have h61 : ¬ (61 = c) := by omega
  have h64 : ¬ (64 = c) := by omega
  have h91 : ¬ (91 = c) := by omega
  have h93 : ¬ (93 = c) := by omega
  have h123 : ¬ (123 = c) := by omega
  have h124 : ¬ (124 = c) := by omega
  have h125 : ¬ (125 = c) := by omega
  simp [punctuator?, punctuators, List.findSome?, h33, h36, h38, h40, h41, h46, h58, h61, h64, h91, h93, h123, h124, h125]

theorem punctKind_cases {c : Nat} {k : TokKind} (h : punctKind c = some k) :
    (c = 33 ∧ k = .bang) ∨ (c = 36 ∧ k = .dollar) ∨ (c = 38 ∧ k = .amp) ∨ (c = 40 ∧ k = .parenL) ∨
    (c = 41 ∧ k = .parenR) ∨ (c = 58 ∧ k = .colon) ∨ (c = 61 ∧ k = .equals) ∨ (c = 64 ∧ k = .at) ∨
    (c = 91 ∧ k = .bracketL) ∨ (c = 93 ∧ k = .bracketR) ∨ (c = 123 ∧ k = .braceL) ∨
    (c = 125 ∧ k = .braceR) ∨ (c = 124 ∧ k = .pipe) := by
  unfold punctKind at h
  by_cases h33 : c = 33
  · rw [if_pos h33] at h; have hk := (Option.some.inj h).symm; simp [h33, hk]
  rw [if_neg h33] at h
  by_cases h36 : c = 36
  · rw [if_pos h36] at h; have hk := (Option.some.inj h).symm; simp [h36, hk]
  rw [if_neg h36] at h
  by_cases h38 : c = 38
  · rw [if_pos h38] at h; have hk := (Option.some.inj h).symm; simp [h38, hk]
  rw [if_neg h38] at h
  by_cases h40 : c = 40
  · rw [if_pos h40] at h; have hk := (Option.some.inj h).symm; simp [h40, hk]
  rw [if_neg h40] at h
  by_cases h41 : c = 41
  · rw [if_pos h41] at h; have hk := (Option.some.inj h).symm; simp [h41, hk]
  rw [if_neg h41] at h
  by_cases h58 : c = 58
  · rw [if_pos h58] at h; have hk := (Option.some.inj h).symm; simp [h58, hk]
  rw [if_neg h58] at h
  by_cases h61 : c = 61
  · rw [if_pos h61] at h; have hk := (Option.some.inj h).symm; simp [h61, hk]
  rw [if_neg h61] at h
  by_cases h64 : c = 64
  · rw [if_pos h64] at h; have hk := (Option.some.inj h).symm; simp [h64, hk]
  rw [if_neg h64] at h
  by_cases h91 : c = 91
  · rw [if_pos h91] at h; have hk := (Option.some.inj h).symm; simp [h91, hk]
  rw [if_neg h91] at h
  by_cases h93 : c = 93
  · rw [if_pos h93] at h; have hk := (Option.some.inj h).symm; simp [h93, hk]
  rw [if_neg h93] at h
  by_cases h123 : c = 123
  · rw [if_pos h123] at h; have hk := (Option.some.inj h).symm; simp [h123, hk]
  rw [if_neg h123] at h
  by_cases h125 : c = 125
  · rw [if_pos h125] at h; have hk := (Option.some.inj h).symm; simp [h125, hk]
  rw [if_neg h125] at h
  by_cases h124 : c = 124
  · rw [if_pos h124] at h; have hk := (Option.some.inj h).symm; simp [h124, hk]
  rw [if_neg h124] at h
  simp at h

theorem punctKind_none {c : Nat} (h : punctKind c = none) : ¬ PunctStart c ∨ c = 46 := by
  by_cases h46 : c = 46
  · exact Or.inr h46
  · left
    intro hp
    unfold PunctStart at hp
    rcases hp with rfl | rfl | rfl | rfl | rfl | rfl | rfl | rfl | rfl | rfl | rfl | rfl | rfl | rfl
    all_goals first | omega | (simp [punctKind] at h)

theorem lexToken?_punct (c : Nat) (r : List Nat) (k : TokKind) (h : punctKind c = some k) :
    lexToken? (c :: r) = some ⟨kindOf k, 1, none⟩ := by
  rcases punctKind_cases h with ⟨rfl, rfl⟩ | ⟨rfl, rfl⟩ | ⟨rfl, rfl⟩ | ⟨rfl, rfl⟩ | ⟨rfl, rfl⟩ | ⟨rfl, rfl⟩ |
    ⟨rfl, rfl⟩ | ⟨rfl, rfl⟩ | ⟨rfl, rfl⟩ | ⟨rfl, rfl⟩ | ⟨rfl, rfl⟩ | ⟨rfl, rfl⟩ | ⟨rfl, rfl⟩
  all_goals
    unfold lexToken?
    rw [name?_none _ _ (by decide), number?_none _ _ (by decide) (by decide),
      string?_none _ _ (by decide), blockString?_none _ _ (by decide)]
    rfl
end Gql.Text
