import Gql.Syntax.Visitor
/-!
Helper lemmas for C11: the iterative machine `visit` simulates the recursive contract
`Spec.specNode` for visitors that never edit.
-/
namespace Gql.Syntax
open Gql Gql.Syntax.Spec

variable {σ : Type}

/-- a visitor that only ever answers idle / skip / break -/
def NonEditing (v : Visitor σ) : Prop := ∀ s c, (v s c).1.isEdit = false

/-- no level of the traversal has a pending edit -/
def Clean (st : St σ) : Prop := st.edits = [] ∧ ∀ fr ∈ st.stack, fr.edits = []

/-- `process` an already fetched state, then `k` further loop iterations -/
def procIter (root : Node) (vk : String → List String) (v : Visitor σ) (k : Nat) (st1 : St σ)
    (l e : Bool) : O (Next σ) :=
  match process false root vk v st1 l e with
  | .ok (.cont st') => iter false root vk v k st'
  | r => r

theorem iter_add (root : Node) (vk : String → List String) (v : Visitor σ) (a b : Nat) (st : St σ) :
    iter false root vk v (a + b) st =
      match iter false root vk v a st with
      | .ok (.cont st') => iter false root vk v b st'
      | r => r := by
  induction a generalizing st with
  | zero => simp [iter]
  | succ a ih =>
    rw [Nat.succ_add]
    simp only [iter]
    cases h : step false root vk v st with
    | ok nx => cases nx with
      | cont st' => simp [ih]
      | stop r s => simp
    | err e => simp
    | crash c => simp


namespace Spec
def Res.w {α : Type} : Res σ α → W σ
  | .brk w => w
  | .done w _ => w
end Spec

/-- where a fetched state stands: at the root, or below a (truthy) parent with its key on the path -/
def Pos (st1 : St σ) : Prop :=
  (st1.stack = [] ∧ st1.parent = none ∧ st1.rpath = [] ∧ st1.ranc = [] ∧ st1.key = .none) ∨
  (st1.stack ≠ [] ∧ truthy st1.parent = true ∧ ∃ r, st1.rpath = st1.key :: r)

def outcome (root : Node) (st1 : St σ) : Res σ Slot → Next σ
  | .brk w' => .stop (some (.node root)) w'.s
  | .done w' _ =>
    if st1.stack.isEmpty then .stop (some (.node root)) w'.s
    else .cont { st1 with rpath := st1.rpath.tail, idx := st1.idx + 1, vs := w'.s }

def keepOnly : Res σ Slot → Prop
  | .done _ .keep => True
  | .done _ _ => False
  | .brk _ => True

/-- the simulation statement for one node, for an arbitrary recursion `rec` of the contract -/
def NodeSim (root : Node) (vk : String → List String) (v : Visitor σ)
    (rec : W σ → Node → Key → Option Val → List Val → List Key → Option (Res σ Slot)) : Prop :=
  ∀ (st1 : St σ) (c : Node) (w : W σ) (res : Res σ Slot),
    st1.node = some (.node c) → Clean st1 → Pos st1 → w.s = st1.vs →
    rec w c st1.key st1.parent st1.ranc.reverse st1.rpath.reverse = some res →
    keepOnly res ∧ ∃ k, res.w.iters = w.iters + k + 1 ∧
      procIter root vk v k st1 false false = .ok (outcome root st1 res)

theorem iter_succ_of_fetch (root : Node) (vk : String → List String) (v : Visitor σ) (k : Nat)
    (st st1 : St σ) (l e : Bool) (h : fetch st = .ok (.got st1 l e)) :
    iter false root vk v (k + 1) st = procIter root vk v k st1 l e := by
  simp only [iter, step, h, procIter]
  cases process false root vk v st1 l e with
  | ok nx => cases nx <;> rfl
  | err e => rfl
  | crash c => rfl

theorem sim_items {root : Node} {vk : String → List String} {v : Visitor σ}
    {rec : W σ → Node → Key → Option Val → List Val → List Key → Option (Res σ Slot)}
    (hrec : NodeSim root vk v rec) (cs : List Node) :
    ∀ (suf pre : List Node) (U : St σ) (w : W σ) (res : Res σ (List Node × Bool)),
      cs = pre ++ suf → U.idx = pre.length → U.keys = .items cs → U.inArray = true →
      U.parent = some (.arr cs) → U.stack ≠ [] → Clean U → w.s = U.vs →
      specItems rec (some (.arr cs)) U.ranc.reverse U.rpath.reverse w suf pre.length = some res →
      ∃ k, res.w.iters = w.iters + k ∧
        match res with
        | .brk w' => iter false root vk v k U = .ok (.stop (some (.node root)) w'.s)
        | .done w' r => r = (suf, false) ∧ ∃ nd ky,
            iter false root vk v k U =
              .ok (.cont { U with idx := cs.length, node := nd, key := ky, vs := w'.s }) := by
  intro suf
  induction suf with
  | nil =>
    intro pre U w res hcs hidx hkeys hin hpar hst hclean hw hspec
    simp [specItems] at hspec
    subst hspec
    refine ⟨0, by simp [Res.w], ?_⟩
    simp only [iter]
    refine ⟨by simp, U.node, U.key, ?_⟩
    have : cs.length = U.idx := by simp [hcs, hidx]
    rw [this, hw]
  | cons c suf ih =>
    intro pre U w res hcs hidx hkeys hin hpar hst hclean hw hspec
    have hlen : cs.length = pre.length + (suf.length + 1) := by simp [hcs]
    have hget : cs[U.idx]? = some c := by simp [hcs, hidx]
    have hne : cs ≠ [] := by intro h; simp [h] at hlen
    let st1 : St σ := { U with key := .idx U.idx, node := some (.node c), rpath := .idx U.idx :: U.rpath }
    have hfetch : fetch U = .ok (.got st1 false false) := by
      have h1 : (U.idx == U.keys.length) = false := by
        simp [hkeys, Keys.length, hidx, hlen]
      have h2 : truthy (some (Val.arr cs)) = true := by
        cases cs with
        | nil => exact absurd rfl hne
        | cons a b => simp [truthy]
      simp [fetch, h1, h2, hin, hpar, hget, st1]
    simp only [specItems] at hspec
    have hpath : U.rpath.reverse ++ [Key.idx pre.length] = st1.rpath.reverse := by simp [st1, hidx]
    rw [hpath] at hspec
    have hpos : Pos st1 := Or.inr ⟨hst, by
      cases cs with
      | nil => exact absurd rfl hne
      | cons a b => simp [st1, hpar, truthy], U.rpath, rfl⟩
    cases hr : rec w c (.idx pre.length) (some (.arr cs)) U.ranc.reverse st1.rpath.reverse with
    | none => simp [hr] at hspec
    | some r1 =>
      have hr' : rec w c st1.key st1.parent st1.ranc.reverse st1.rpath.reverse = some r1 := by
        simpa [st1, hidx, hpar] using hr
      obtain ⟨hkeep, k, hit, hrun⟩ := hrec st1 c w r1 rfl hclean hpos hw hr'
      rw [hr] at hspec
      cases r1 with
      | brk w1 =>
        simp at hspec
        subst hspec
        refine ⟨k + 1, by simp [Res.w] at hit ⊢; omega, ?_⟩
        simp only []
        rw [iter_succ_of_fetch root vk v k U st1 false false hfetch, hrun]
        rfl
      | done w1 slot =>
        cases slot with
        | gone => exact absurd hkeep (by simp [keepOnly])
        | put x => exact absurd hkeep (by simp [keepOnly])
        | keep =>
          simp only [] at hspec
          let U1 : St σ := { st1 with rpath := st1.rpath.tail, idx := st1.idx + 1, vs := w1.s }
          have hout : outcome root st1 (.done w1 .keep) = .cont U1 := by
            have : st1.stack.isEmpty = false := by
              cases hs : U.stack with
              | nil => exact absurd hs hst
              | cons a b => simp [st1]
            simp [outcome, this, U1]
          cases hr2 : specItems rec (some (.arr cs)) U.ranc.reverse U.rpath.reverse w1 suf (pre.length + 1) with
          | none => simp [hr2] at hspec
          | some r2 =>
            have := ih (pre ++ [c]) U1 w1 r2 (by simp [hcs]) (by simp [U1, st1, hidx]) hkeys hin hpar hst
              hclean rfl (by simpa [U1, st1] using hr2)
            obtain ⟨k2, hit2, hrun2⟩ := this
            rw [hr2] at hspec
            have hstep : iter false root vk v (k + 1 + k2) U = iter false root vk v k2 U1 := by
              rw [iter_add, iter_succ_of_fetch root vk v k U st1 false false hfetch, hrun, hout]
            cases r2 with
            | brk w2 =>
              simp at hspec
              subst hspec
              refine ⟨k + 1 + k2, ?_, ?_⟩
              · simp [Res.w] at hit hit2 ⊢; omega
              · simp only []
                rw [hstep]
                exact hrun2
            | done w2 r =>
              obtain ⟨hr, nd, ky, hrun2⟩ := hrun2
              subst hr
              simp at hspec
              subst hspec
              refine ⟨k + 1 + k2, ?_, ?_⟩
              · simp [Res.w] at hit hit2 ⊢; omega
              · refine ⟨rfl, nd, ky, ?_⟩
                rw [hstep, hrun2]
                rfl


/-- one loop iteration that leaves a tuple level without edits -/
theorem leave_arr (root : Node) (vk : String → List String) (v : Visitor σ) (U : St σ)
    (cs : List Node) (fr : Frame) (rest : List Frame) (p : Val) (ra : List Val) (ky : Key) (rp : List Key)
    (hidx : U.idx = cs.length) (hkeys : U.keys = .items cs) (hedits : U.edits = [])
    (hpar : U.parent = some (.arr cs)) (hstack : U.stack = fr :: rest) (hrest : rest ≠ [])
    (hranc : U.ranc = p :: ra) (hrpath : U.rpath = ky :: rp) :
    iter false root vk v 1 U = .ok (.cont
      { stack := rest, inArray := fr.inArray, keys := fr.keys, idx := fr.idx + 1, edits := fr.edits,
        node := some (.arr cs), key := ky, parent := some p, rpath := rp, ranc := ra, vs := U.vs }) := by
  have h1 : (U.idx == U.keys.length) = true := by simp [hkeys, Keys.length, hidx]
  have h3 : rest.isEmpty = false := by cases rest with
    | nil => exact absurd rfl hrest
    | cons a b => rfl
  simp [iter, step, fetch, lastKey, popAnc, h1, hedits, hranc, hrpath, hstack, hpar, process, tail, h3]

theorem sim_keys {root : Node} {vk : String → List String} {v : Visitor σ}
    {rec : W σ → Node → Key → Option Val → List Val → List Key → Option (Res σ Slot)}
    (hrec : NodeSim root vk v rec) (m : Node) (ks : List String) :
    ∀ (suf pre : List String) (T : St σ) (w : W σ) (res : Res σ (List (String × Child))),
      ks = pre ++ suf → T.idx = pre.length → T.keys = .names ks → T.inArray = false →
      T.parent = some (.node m) → T.stack ≠ [] → Clean T → w.s = T.vs →
      specKeys rec m T.ranc.reverse T.rpath.reverse w suf = some res →
      ∃ k, res.w.iters = w.iters + k ∧
        match res with
        | .brk w' => iter false root vk v k T = .ok (.stop (some (.node root)) w'.s)
        | .done w' es => es = [] ∧ ∃ nd ky,
            iter false root vk v k T =
              .ok (.cont { T with idx := ks.length, node := nd, key := ky, vs := w'.s }) := by
  intro suf
  induction suf with
  | nil =>
    intro pre T w res hks hidx hkeys hin hpar hst hclean hw hspec
    simp [specKeys] at hspec
    subst hspec
    refine ⟨0, by simp [Res.w], ?_⟩
    simp only [iter]
    refine ⟨by simp, T.node, T.key, ?_⟩
    have : ks.length = T.idx := by simp [hks, hidx]
    rw [this, hw]
  | cons k suf ih =>
    intro pre T w res hks hidx hkeys hin hpar hst hclean hw hspec
    have hlen : ks.length = pre.length + (suf.length + 1) := by simp [hks]
    have hget : ks[T.idx]? = some k := by simp [hks, hidx]
    have h1 : (T.idx == (Keys.names ks).length) = false := by simp [Keys.length, hidx, hlen]
    have hstk : T.stack.isEmpty = false := by
      cases hs : T.stack with
      | nil => exact absurd hs hst
      | cons a b => rfl
    simp only [specKeys] at hspec
    -- continuation shared by the three shapes of the attribute
    have hrest : ∀ (T1 : St σ) (w1 : W σ) (k1 : Nat) (e : Option Child) (res : Res σ (List (String × Child))),
        e = none →
        iter false root vk v k1 T = .ok (.cont T1) → w1.iters = w.iters + k1 → w1.s = T1.vs →
        T1.stack = T.stack → T1.inArray = T.inArray → T1.keys = T.keys → T1.idx = T.idx + 1 →
        T1.edits = T.edits → T1.parent = T.parent → T1.rpath = T.rpath → T1.ranc = T.ranc →
        (match specKeys rec m T.ranc.reverse T.rpath.reverse w1 suf with
          | none => none
          | some (.brk w) => some (.brk w)
          | some (.done w es) => some (.done w (match e with | some c => (k, c) :: es | none => es))) = some res →
        ∃ k, res.w.iters = w.iters + k ∧
          match res with
          | .brk w' => iter false root vk v k T = .ok (.stop (some (.node root)) w'.s)
          | .done w' es => es = [] ∧ ∃ nd ky,
              iter false root vk v k T =
                .ok (.cont { T with idx := ks.length, node := nd, key := ky, vs := w'.s }) := by
      intro T1 w1 k1 e res he hrun hit hs1 e1 e2 e3 e4 e5 e6 e7 e8 hsp
      subst he
      cases hr2 : specKeys rec m T.ranc.reverse T.rpath.reverse w1 suf with
      | none => simp [hr2] at hsp
      | some r2 =>
        have := ih (pre ++ [k]) T1 w1 r2 (by simp [hks]) (by simp [e4, hidx]) (by rw [e3, hkeys])
          (by rw [e2, hin]) (by rw [e6, hpar]) (by rw [e1]; exact hst)
          (by unfold Clean; rw [e5, e1]; exact hclean) hs1 (by rw [e8, e7]; exact hr2)
        obtain ⟨k2, hit2, hrun2⟩ := this
        rw [hr2] at hsp
        have hstep : iter false root vk v (k1 + k2) T = iter false root vk v k2 T1 := by
          rw [iter_add, hrun]
        cases r2 with
        | brk w2 =>
          simp at hsp
          subst hsp
          refine ⟨k1 + k2, ?_, ?_⟩
          · simp [Res.w] at hit2 ⊢; omega
          · simp only []
            rw [hstep]
            exact hrun2
        | done w2 es =>
          obtain ⟨hes, nd, ky, hrun2⟩ := hrun2
          subst hes
          simp at hsp
          subst hsp
          refine ⟨k1 + k2, ?_, ?_⟩
          · simp [Res.w] at hit2 ⊢; omega
          · refine ⟨rfl, nd, ky, ?_⟩
            rw [hstep, hrun2, e1, e2, e3, e5, e6, e7, e8]
    cases hattr : m.attr k with
    | absent =>
      rw [hattr] at hspec
      simp only [] at hspec
      let T1 : St σ := { T with key := .name k, node := none, idx := T.idx + 1 }
      have hfetch : fetch T = .ok (.cont T1) := by
        simp [fetch, h1, hpar, truthy, hin, hkeys, hget, hattr, T1]
      exact hrest T1 { w with iters := w.iters + 1 } 1 none res rfl
        (by simp [iter, step, hfetch]) rfl hw rfl rfl rfl rfl rfl rfl rfl rfl hspec
    | one c =>
      rw [hattr] at hspec
      simp only [] at hspec
      let st1 : St σ := { T with key := .name k, node := some (.node c), rpath := .name k :: T.rpath }
      have hfetch : fetch T = .ok (.got st1 false false) := by
        simp [fetch, h1, hpar, truthy, hin, hkeys, hget, hattr, st1]
      have hpos : Pos st1 := Or.inr ⟨hst, by simp [st1, hpar, truthy], T.rpath, rfl⟩
      have hpath : T.rpath.reverse ++ [Key.name k] = st1.rpath.reverse := by simp [st1]
      rw [hpath] at hspec
      cases hr : rec w c (.name k) (some (.node m)) T.ranc.reverse st1.rpath.reverse with
      | none => simp [hr] at hspec
      | some r1 =>
        have hr' : rec w c st1.key st1.parent st1.ranc.reverse st1.rpath.reverse = some r1 := by
          simpa [st1, hpar] using hr
        obtain ⟨hkeep, k1, hit, hrun⟩ := hrec st1 c w r1 rfl hclean hpos hw hr'
        rw [hr] at hspec
        cases r1 with
        | brk w1 =>
          simp at hspec
          subst hspec
          refine ⟨k1 + 1, by simp [Res.w] at hit ⊢; omega, ?_⟩
          simp only []
          rw [iter_succ_of_fetch root vk v k1 T st1 false false hfetch, hrun]
          rfl
        | done w1 slot =>
          cases slot with
          | gone => exact absurd hkeep (by simp [keepOnly])
          | put x => exact absurd hkeep (by simp [keepOnly])
          | keep =>
            simp only [] at hspec
            let T1 : St σ := { st1 with rpath := st1.rpath.tail, idx := st1.idx + 1, vs := w1.s }
            have hout : outcome root st1 (.done w1 .keep) = .cont T1 := by
              have : st1.stack.isEmpty = false := hstk
              simp [outcome, this, T1]
            exact hrest T1 w1 (k1 + 1) none res rfl
              (by rw [iter_succ_of_fetch root vk v k1 T st1 false false hfetch, hrun, hout])
              (by simp [Res.w] at hit; omega) rfl rfl rfl rfl rfl rfl rfl rfl rfl hspec
    | many cs =>
      rw [hattr] at hspec
      simp only [] at hspec
      let st1 : St σ := { T with key := .name k, node := some (.arr cs), rpath := .name k :: T.rpath }
      have hfetch : fetch T = .ok (.got st1 false false) := by
        simp [fetch, h1, hpar, truthy, hin, hkeys, hget, hattr, st1]
      let U : St σ :=
        { stack := ⟨false, T.idx, .names ks, T.edits⟩ :: T.stack, inArray := true,
          keys := .items cs, idx := 0, edits := [], node := some (.arr cs), key := .name k,
          parent := some (.arr cs), rpath := .name k :: T.rpath, ranc := .node m :: T.ranc, vs := T.vs }
      have hproc : process false root vk v st1 false false = .ok (.cont U) := by
        simp [process, tail, st1, U, hpar, truthy, hin, hkeys]
      have hcleanU : Clean U := by
        refine ⟨rfl, ?_⟩
        intro fr hfr
        simp only [U, List.mem_cons] at hfr
        rcases hfr with h | h
        · rw [h]; exact hclean.1
        · exact hclean.2 fr h
      have hsp0 : specItems rec (some (.arr cs)) (T.ranc.reverse ++ [.node m]) (T.rpath.reverse ++ [.name k])
          { w with iters := w.iters + 1 } cs 0 =
          specItems rec (some (.arr cs)) U.ranc.reverse U.rpath.reverse { w with iters := w.iters + 1 } cs
            0 := by simp [U]
      rw [hsp0] at hspec
      cases hr : specItems rec (some (.arr cs)) U.ranc.reverse U.rpath.reverse { w with iters := w.iters + 1 } cs
          0 with
      | none => simp [hr] at hspec
      | some r1 =>
        obtain ⟨k1, hit, hrun⟩ := sim_items hrec cs cs [] U { w with iters := w.iters + 1 } r1 rfl rfl rfl rfl rfl
          (by simp [U]) hcleanU hw hr
        rw [hr] at hspec
        have hstep1 : iter false root vk v (k1 + 1) T = iter false root vk v k1 U := by
          rw [iter_succ_of_fetch root vk v k1 T st1 false false hfetch]
          simp [procIter, hproc]
        cases r1 with
        | brk w1 =>
          simp at hspec
          subst hspec
          refine ⟨k1 + 1, by simp [Res.w] at hit ⊢; omega, ?_⟩
          simp only []
          rw [hstep1]
          exact hrun
        | done w1 r =>
          obtain ⟨hr1, nd, ky, hrun⟩ := hrun
          subst hr1
          simp only [] at hspec
          let T1 : St σ := { T with idx := T.idx + 1, node := some (.arr cs), key := .name k, vs := w1.s }
          have hleave := leave_arr root vk v { U with idx := cs.length, node := nd, key := ky, vs := w1.s } cs
            ⟨false, T.idx, .names ks, T.edits⟩ T.stack (.node m) T.ranc (.name k) T.rpath rfl rfl rfl rfl rfl hst rfl rfl
          have hrunT1 : iter false root vk v (k1 + 1 + 1) T = .ok (.cont T1) := by
            rw [iter_add, hstep1, hrun]
            simp only []
            rw [hleave]
            simp [T1, hin, hkeys, hpar]
          exact hrest T1 { w1 with iters := w1.iters + 1 } (k1 + 1 + 1) none res (by simp)
            hrunT1 (by simp [Res.w] at hit ⊢; omega) rfl rfl rfl rfl rfl rfl rfl rfl rfl hspec


theorem finish_clean (root : Node) (st : St σ) (h : st.edits = []) :
    finish root st = .stop (some (.node root)) st.vs := by
  simp [finish, h]

theorem sim_node_succ {root : Node} {vk : String → List String} {v : Visitor σ} (hv : NonEditing v)
    (d : Nat) (hrec : NodeSim root vk v (specNode vk v d)) : NodeSim root vk v (specNode vk v (d + 1)) := by
  intro st1 c w res hnode hclean hpos hw hspec
  simp only [specNode, specBody] at hspec
  rw [hw] at hspec
  have hne := hv st1.vs ⟨.enter, c, st1.key, st1.parent, st1.rpath.reverse, st1.ranc.reverse⟩
  rcases hcall : v st1.vs ⟨.enter, c, st1.key, st1.parent, st1.rpath.reverse, st1.ranc.reverse⟩ with ⟨a, s1⟩
  rw [hcall] at hspec hne
  simp only [] at hspec hne
  have hedits : st1.edits = [] := hclean.1
  cases a with
  | remove => simp [Action.isEdit] at hne
  | replace r => simp [Action.isEdit] at hne
  | brk =>
    simp at hspec
    subst hspec
    refine ⟨trivial, 0, by simp [Res.w], ?_⟩
    simp [procIter, process, hnode, hcall, outcome, finish, hedits]
  | skip =>
    simp at hspec
    subst hspec
    refine ⟨trivial, 0, by simp [Res.w], ?_⟩
    rcases hpos with ⟨h1, h2, h3, h4, h5⟩ | ⟨h1, h2, r, h3⟩
    · simp [procIter, process, hnode, hcall, outcome, finish, hedits, h1]
    · have : st1.stack.isEmpty = false := by
        cases hs : st1.stack with
        | nil => exact absurd hs h1
        | cons a b => rfl
      simp only [procIter, process, hnode, Bool.false_eq_true, reduceIte, hcall]
      simp [outcome, this, h3, iter, hnode]
  | idle =>
    simp only [] at hspec
    have hstk : ∀ (fr : Frame), (fr :: st1.stack).isEmpty = false := fun _ => rfl
    obtain ⟨ranc0, hF1, hF2, hF3, hF4⟩ : ∃ ranc0 : List Val,
        (if truthy st1.parent then (match st1.parent with | some p => p :: st1.ranc | none => st1.ranc)
          else st1.ranc) = ranc0 ∧
        ranc0.reverse = st1.ranc.reverse ++ st1.parent.toList ∧
        lastKey ranc0 st1.rpath = .ok st1.key ∧ popAnc ranc0 = (st1.parent, st1.ranc) := by
      rcases hpos with ⟨_, h2, h3, h4, h5⟩ | ⟨_, h2, r, h3⟩
      · exact ⟨st1.ranc, by simp [h2, truthy], by simp [h2], by simp [h4, lastKey, h5], by simp [h4, popAnc, h2]⟩
      · cases hp : st1.parent with
        | none => simp [hp, truthy] at h2
        | some p =>
          rw [hp] at h2
          exact ⟨p :: st1.ranc, by simp [h2], by simp, by rw [h3]; simp [lastKey], by simp [popAnc]⟩
    let T0 : St σ :=
      { stack := ⟨st1.inArray, st1.idx, st1.keys, st1.edits⟩ :: st1.stack, inArray := false,
        keys := .names (vk c.kind), idx := 0, edits := [], node := some (.node c), key := st1.key,
        parent := some (.node c), rpath := st1.rpath, ranc := ranc0, vs := s1 }
    have hproc : process false root vk v st1 false false = .ok (.cont T0) := by
      simp only [process, hnode, Bool.false_eq_true, reduceIte, hcall]
      simp [tail, T0]
      exact hF1
    have hcleanT0 : Clean T0 := by
      refine ⟨rfl, ?_⟩
      intro fr hfr
      simp only [T0, List.mem_cons] at hfr
      rcases hfr with h | h
      · rw [h]; exact hclean.1
      · exact hclean.2 fr h
    rw [← hF2] at hspec
    cases hk : specKeys (specNode vk v d) c ranc0.reverse st1.rpath.reverse
        { s := s1, iters := w.iters + 1, edited := w.edited } (vk c.kind) with
    | none => simp [hk] at hspec
    | some rk =>
      obtain ⟨k1, hit, hrun⟩ := sim_keys hrec c (vk c.kind) (vk c.kind) [] T0
        { s := s1, iters := w.iters + 1, edited := w.edited } rk rfl rfl rfl rfl rfl (by simp [T0]) hcleanT0 rfl hk
      rw [hk] at hspec
      have hstep1 : ∀ j, procIter root vk v j st1 false false = iter false root vk v j T0 := by
        intro j; simp [procIter, hproc]
      cases rk with
      | brk w2 =>
        simp at hspec
        subst hspec
        refine ⟨trivial, k1, by simp [Res.w] at hit ⊢; omega, ?_⟩
        rw [hstep1, hrun]
        rfl
      | done w2 es =>
        obtain ⟨hes, nd, ky, hrun⟩ := hrun
        subst hes
        simp only [List.isEmpty_nil, reduceIte] at hspec
        have hne2 := hv w2.s ⟨.leave, c, st1.key, st1.parent, st1.rpath.reverse, st1.ranc.reverse⟩
        rcases hcall2 : v w2.s ⟨.leave, c, st1.key, st1.parent, st1.rpath.reverse, st1.ranc.reverse⟩ with ⟨a2, s3⟩
        rw [hcall2] at hspec hne2
        simp only [] at hspec hne2
        -- the leaving iteration
        let T1 : St σ := { T0 with idx := (vk c.kind).length, node := nd, key := ky, vs := w2.s }
        let L : St σ := { st1 with node := some (.node c), vs := w2.s }
        have hfetchL : fetch T1 = .ok (.got L true false) := by
          simp [fetch, T1, T0, L, Keys.length, hF3, hF4]
        have hstepL : iter false root vk v (k1 + 1) T0 = process false root vk v L true false := by
          rw [iter_add, hrun]
          simp only []
          rw [iter_succ_of_fetch root vk v 0 T1 L true false hfetchL]
          simp only [procIter]
          cases process false root vk v L true false with
          | ok nx => cases nx <;> rfl
          | err e => rfl
          | crash c => rfl
        have hprocL : process false root vk v L true false =
            (match a2 with
              | .brk => .ok (.stop (some (.node root)) s3)
              | .idle | .skip => .ok (outcome root st1 (.done ⟨s3, 0, false⟩ .keep))
              | _ => .crash "unreachable") := by
          simp only [process, L, reduceIte, hcall2]
          cases a2 with
          | remove => simp [Action.isEdit] at hne2
          | replace r => simp [Action.isEdit] at hne2
          | brk => simp [finish, hedits]
          | idle =>
            cases hs : st1.stack with
            | nil => simp [tail, outcome, finish, hedits, hs]
            | cons a b => simp [tail, outcome, hs, hnode]
          | skip =>
            cases hs : st1.stack with
            | nil => simp [tail, outcome, finish, hedits, hs]
            | cons a b => simp [tail, outcome, hs, hnode]
        cases a2 with
        | remove => simp [Action.isEdit] at hne2
        | replace r => simp [Action.isEdit] at hne2
        | brk =>
          simp at hspec
          subst hspec
          refine ⟨trivial, k1 + 1, by simp [Res.w] at hit ⊢; omega, ?_⟩
          rw [hstep1, hstepL, hprocL]
          rfl
        | idle =>
          simp at hspec
          subst hspec
          refine ⟨trivial, k1 + 1, by simp [Res.w] at hit ⊢; omega, ?_⟩
          rw [hstep1, hstepL, hprocL]
          rfl
        | skip =>
          simp at hspec
          subst hspec
          refine ⟨trivial, k1 + 1, by simp [Res.w] at hit ⊢; omega, ?_⟩
          rw [hstep1, hstepL, hprocL]
          rfl


theorem sim_all {root : Node} {vk : String → List String} {v : Visitor σ} (hv : NonEditing v) :
    ∀ d, NodeSim root vk v (specNode vk v d)
  | 0 => by
    intro st1 c w res _ _ _ _ hspec
    simp [specNode] at hspec
  | d + 1 => sim_node_succ hv d (sim_all hv d)

theorem fetch_init (root : Node) (s : σ) :
    fetch (St.init root s) = .ok (.got (St.init root s) false false) := by
  simp [fetch, St.init, Keys.length, truthy]

theorem iter_stop_mono (root : Node) (vk : String → List String) (v : Visitor σ) (a fuel : Nat) (st : St σ)
    (r : Option Val) (s' : σ) (h : iter false root vk v a st = .ok (.stop r s')) (hle : a ≤ fuel) :
    iter false root vk v fuel st = .ok (.stop r s') := by
  obtain ⟨b, rfl⟩ := Nat.exists_eq_add_of_le hle
  rw [iter_add, h]

/-- the machine against the contract, for visitors that never edit -/
theorem visit_of_spec {vk : String → List String} {v : Visitor σ} (hv : NonEditing v) (d : Nat)
    (root : Node) (s : σ) (out : Outcome σ) (h : specVisit vk v d root s = some out) :
    (∀ x, out.result = some x → x = some (.node root)) ∧ 1 ≤ out.iters ∧
      ∀ fuel, out.iters ≤ fuel →
        visitFuel root vk v s fuel = some (.ok (some (.node root), out.state)) := by
  unfold specVisit at h
  cases hn : specNode vk v d ⟨s, 0, false⟩ root .none none [] [] with
  | none => simp [hn] at h
  | some res =>
    have hpos : Pos (St.init root s) := Or.inl ⟨rfl, rfl, rfl, rfl, rfl⟩
    have hclean : Clean (St.init root s) := ⟨rfl, by intro fr hfr; simp [St.init] at hfr⟩
    obtain ⟨hkeep, k, hit, hrun⟩ := sim_all (root := root) hv d (St.init root s) root ⟨s, 0, false⟩ res rfl hclean hpos rfl
      (by simpa [St.init] using hn)
    rw [hn] at h
    have hout : outcome root (St.init root s) res = .stop (some (.node root)) res.w.s := by
      cases res with
      | brk w' => rfl
      | done w' sl => simp [outcome, St.init, Res.w]
    have hiter : iter false root vk v (k + 1) (St.init root s) = .ok (.stop (some (.node root)) res.w.s) := by
      rw [iter_succ_of_fetch root vk v k _ _ false false (fetch_init root s), hrun, hout]
    have key : ∀ (o : Outcome σ), o.state = res.w.s → o.iters = res.w.iters →
        ∀ fuel, o.iters ≤ fuel → visitFuel root vk v s fuel = some (.ok (some (.node root), o.state)) := by
      intro o h1 h2 fuel hle
      have := iter_stop_mono root vk v (k + 1) fuel _ _ _ hiter (by rw [h2, hit] at hle; omega)
      simp [visitFuel, this, h1]
    cases res with
    | brk w' =>
      simp at h
      subst h
      refine ⟨?_, by simp [Res.w] at hit ⊢; omega, key _ rfl rfl⟩
      intro x hx
      cases he : w'.edited <;> simp [he] at hx <;> simp [hx]
    | done w' sl =>
      cases sl with
      | gone => exact absurd hkeep (by simp [keepOnly])
      | put x => exact absurd hkeep (by simp [keepOnly])
      | keep =>
        simp at h
        subst h
        exact ⟨by intro x hx; simp at hx; simp [hx], by simp [Res.w] at hit ⊢; omega, key _ rfl rfl⟩

end Gql.Syntax
