import Gql.Async.Proc
/-!
Helper lemmas for C03 (`Gql/Props/C03.lean`): the inductive invariant of `Proc`, its
preservation by every transition, progress, the termination measure.
-/
namespace Gql.Async

/-! ### `shape`: what transitions never change -/

theorem denF_shape : ∀ f : Cfg, denF (shape f) = denF f
  | .nil => rfl
  | .cons nn g res st ch rest => by
    have h1 := denF_shape ch
    have h2 := denF_shape rest
    cases res <;> simp [shape, denF, h1, h2]

theorem innerDen_shape (res : Res) (ch : Cfg) : innerDen res (shape ch) = innerDen res ch := by
  cases res <;> simp [innerDen, denF_shape]

theorem denF_congr {f f' : Cfg} (h : shape f' = shape f) : denF f' = denF f := by
  rw [← denF_shape f', h, denF_shape]

theorem innerDen_congr (res : Res) {c c' : Cfg} (h : shape c' = shape c) :
    innerDen res c' = innerDen res c := by
  rw [← innerDen_shape res c', h, innerDen_shape]

theorem specNulledF_shape : ∀ (f : Cfg) (pfx : Path) (i : Nat),
    specNulledF pfx i (shape f) = specNulledF pfx i f
  | .nil, _, _ => rfl
  | .cons nn g res st ch rest, pfx, i => by
    have h1 := specNulledF_shape ch (pfx ++ [i]) 0
    have h2 := specNulledF_shape rest pfx (i + 1)
    simp only [shape, specNulledF, innerDen_shape, h1, h2]

theorem specNulledF_congr {f f' : Cfg} (h : shape f' = shape f) (pfx : Path) (i : Nat) :
    specNulledF pfx i f' = specNulledF pfx i f := by
  rw [← specNulledF_shape f', h, specNulledF_shape]

theorem shape_cancelU : ∀ f : Cfg, shape (cancelU f) = shape f
  | .nil => rfl
  | .cons nn g res st ch rest => by
    have h1 := shape_cancelU ch
    have h2 := shape_cancelU rest
    unfold cancelU
    split <;> simp [shape, h1, h2]

theorem shape_fireWith (nn : Bool) (res : Res) (ch lch : Cfg) (h : shape lch = shape ch) :
    shape (fireWith nn res ch lch).2 = shape ch := by
  unfold fireWith
  cases res <;> simp
  · split
    · exact h
    · split <;> exact h

theorem shape_launchF : ∀ f : Cfg, shape (launchF f) = shape f
  | .nil => rfl
  | .cons nn g res st ch rest => by
    have h1 := shape_launchF ch
    have h2 := shape_launchF rest
    have h3 := shape_fireWith nn res ch (launchF ch) h1
    unfold launchF
    by_cases hg : g = 0
    · simp only [hg, if_true]
      split <;> simp [shape, h3, h2]
    · simp only [hg, if_false]
      simp [shape, h2, NodeSt.isFailed]

theorem shape_step {f f' : Cfg} {l : Label} (h : Step f l f') : shape f' = shape f := by
  induction h with
  | resolve => simp [shape]
  | fire nn g res ch rest =>
    simp [shape, shape_fireWith nn res ch (launchF ch) (shape_launchF ch)]
  | complete => simp [shape]
  | fail => simp [shape, shape_cancelU]
  | abort => simp [shape]
  | failDone => simp [shape]
  | unwound => simp [shape]
  | child _ _ _ _ _ _ _ _ _ _ ih => simp [shape, ih]
  | sibling _ _ _ _ _ _ _ _ _ ih => simp [shape, ih]


/-! ### The invariant -/

/-- every member has been started and none was cancelled -/
def liveKids : Cfg → Bool
  | .nil => true
  | .cons _ _ _ st _ rest => (st != .idle && st != .cancelled && st != .unwinding) && liveKids rest

/-- Node part of the invariant. -/
def InvN (nn : Bool) (res : Res) (st : NodeSt) (ch : Cfg) : Prop :=
  match st with
  | .idle => allIdle ch = true
  | .wait k => k ≠ 0 ∧ allIdle ch = true
  | .ready => allIdle ch = true
  | .run => (∃ l, res = .comp l) ∧ liveKids ch = true
  | .failing => (∃ l, res = .comp l) ∧ hasFailed ch = true
  | .done v => innerDen res ch = some v ∧ (v = .null → nn = false) ∧
      ((∃ l, res = .comp l) → forestVals ch = some v) ∧ ((¬ ∃ l, res = .comp l) → allIdle ch = true)
  | .doneErr bg => nn = false ∧ innerDen res ch = none ∧ (bg = false → QuietF ch = true)
  | .failed bg => nn = true ∧ denN nn res ch = none ∧ (bg = false → QuietF ch = true)
  | .unwinding => True
  | .cancelled => QuietF ch = true

/-- The inductive invariant: every `done v` node carries its synchronous denotation, every
nulled position (`doneErr`) is a nullable position whose completion fails synchronously too,
every `failed` node is a non-null position whose denotation raises; children of a node that
has not been resumed are untouched; the children of a running node are all alive; below a
node that re-raised after waiting for the awaitables it cancelled (`bg = false`), and below a
task that finished its cancellation, nothing is running or unwinding any more except work
that was abandoned without cancellation (`QuietF`). -/
def Inv : Cfg → Prop
  | .nil => True
  | .cons nn _ res st ch rest => InvN nn res st ch ∧ Inv ch ∧ Inv rest

theorem allIdle_inv : ∀ f : Cfg, allIdle f = true → Inv f
  | .nil, _ => trivial
  | .cons nn g res st ch rest, h => by
    simp [allIdle] at h
    obtain ⟨⟨h1, h2⟩, h3⟩ := h
    subst h1
    exact ⟨h2, allIdle_inv ch h2, allIdle_inv rest h3⟩

theorem allIdle_quiet : ∀ f : Cfg, allIdle f = true → QuietF f = true
  | .nil, _ => rfl
  | .cons nn g res st ch rest, h => by
    simp [allIdle] at h
    obtain ⟨⟨h1, _⟩, h3⟩ := h
    subst h1
    simp [QuietF, allIdle_quiet rest h3]

theorem forestVals_ne_null : ∀ (f : Cfg) (v : Val), forestVals f = some v → v ≠ .null
  | .nil, v, h => by simp [forestVals] at h; subst h; simp
  | .cons nn g res st ch rest, v, h => by
    unfold forestVals at h
    split at h <;> simp at h <;> subst h <;> simp

theorem forestVals_not_pending : ∀ (f : Cfg) (v : Val), forestVals f = some v → hasPending f = false
  | .nil, _, _ => rfl
  | .cons nn g res st ch rest, v, h => by
    unfold forestVals at h
    split at h
    · rename_i w vs hvs; simp [hasPending, NodeSt.pending, forestVals_not_pending rest vs hvs]
    · rename_i vs hvs; simp [hasPending, NodeSt.pending, forestVals_not_pending rest vs hvs]
    · simp at h

theorem absorb_some_nonnull (nn : Bool) (v : Val) (h : v ≠ .null) : absorb nn (some v) = some v := by
  cases v <;> simp_all [absorb]

theorem denN_of_done {nn : Bool} {res : Res} {ch : Cfg} {v : Val}
    (h1 : innerDen res ch = some v) (h2 : v = .null → nn = false) : denN nn res ch = some v := by
  unfold denN
  rw [h1]
  cases v <;> simp_all [absorb]

/-- L1: completed members carry the synchronous values. -/
theorem forestVals_den : ∀ (f : Cfg) (v : Val), Inv f → forestVals f = some v → denF f = some v
  | .nil, v, _, h => by simpa [forestVals, denF] using h
  | .cons nn g res st ch rest, v, hinv, h => by
    obtain ⟨hn, _, hr⟩ := hinv
    rw [denF_cons]
    unfold forestVals at h
    split at h
    · rename_i w vs hvs
      simp at h; subst h
      have := forestVals_den rest vs hr hvs
      simp only [InvN] at hn
      rw [denN_of_done hn.1 hn.2.1, this]
    · rename_i bg vs hvs
      simp at h; subst h
      have := forestVals_den rest vs hr hvs
      simp only [InvN] at hn
      simp [denN, hn.1, hn.2.1, absorb, this]
    · simp at h

/-- L2: a failed member makes the synchronous denotation of the forest raise. -/
theorem hasFailed_den : ∀ (f : Cfg), Inv f → hasFailed f = true → denF f = none
  | .nil, _, h => by simp [hasFailed] at h
  | .cons nn g res st ch rest, hinv, h => by
    obtain ⟨hn, _, hr⟩ := hinv
    rw [denF_cons]
    simp [hasFailed] at h
    rcases h with h | h
    · cases st <;> simp [NodeSt.isFailed] at h
      simp only [InvN] at hn
      simp [hn.2.1]
    · have := hasFailed_den rest hr h
      rw [this]
      split <;> simp_all

/-- Members that are not pending are quiet: completed members by the invariant. -/
theorem calm_quiet : ∀ f : Cfg, Inv f → hasPending f = false → QuietF f = true
  | .nil, _, _ => rfl
  | .cons nn g res st ch rest, ⟨hn, hc, hr⟩, h => by
    simp [hasPending] at h
    have ih := calm_quiet rest hr h.2
    cases st with
    | idle => simp [QuietF, ih]
    | wait k => simp [NodeSt.pending] at h
    | ready => simp [NodeSt.pending] at h
    | run => simp [NodeSt.pending] at h
    | failing => simp [NodeSt.pending] at h
    | unwinding => simp [NodeSt.pending] at h
    | done v =>
      simp only [InvN] at hn
      by_cases hcmp : ∃ l, res = .comp l
      · have hfv := hn.2.2.1 hcmp
        simp [QuietF, ih, calm_quiet ch hc (forestVals_not_pending ch v hfv)]
      · simp [QuietF, ih, allIdle_quiet ch (hn.2.2.2 hcmp)]
    | doneErr bg =>
      simp only [InvN] at hn
      cases bg <;> simp [QuietF, ih]
      exact hn.2.2 rfl
    | failed bg =>
      simp only [InvN] at hn
      cases bg <;> simp [QuietF, ih]
      exact hn.2.2 rfl
    | cancelled =>
      simp only [InvN] at hn
      simp [QuietF, ih, hn]

/-! ### Launching establishes the invariant -/

/-- the state is that of a started, not cancelled task -/
def NodeSt.live (st : NodeSt) : Bool := st != .idle && st != .cancelled && st != .unwinding

theorem fire_inv (nn : Bool) (res : Res) (ch : Cfg) (hidle : allIdle ch = true)
    (hl : Inv (launchF ch)) (hk : hasFailed (launchF ch) = false → liveKids (launchF ch) = true) :
    InvN nn res (fireWith nn res ch (launchF ch)).1 (fireWith nn res ch (launchF ch)).2 ∧
      Inv (fireWith nn res ch (launchF ch)).2 ∧ (fireWith nn res ch (launchF ch)).1.live = true := by
  have hch := allIdle_inv ch hidle
  have hq := allIdle_quiet ch hidle
  cases res with
  | raise =>
    cases nn <;> simp [fireWith, errSt, InvN, innerDen, denN, absorb, hch, hq, NodeSt.live]
  | null =>
    cases nn <;> simp [fireWith, InvN, innerDen, denN, absorb, hch, hidle, hq, NodeSt.live]
  | leaf n =>
    simp [fireWith, InvN, innerDen, hch, hidle, NodeSt.live]
  | comp l =>
    unfold fireWith
    simp only
    by_cases hf : hasFailed (launchF ch) = true
    · simp only [hf, if_true]
      have hd := hasFailed_den _ hl hf
      have hqq : hasPending (launchF ch) = false → QuietF (launchF ch) = true := calm_quiet _ hl
      cases nn <;> simp [errSt, InvN, innerDen, denN, absorb, hd, hl, NodeSt.live] <;> exact hqq
    · simp only [hf]
      simp only [Bool.false_eq_true, if_false]
      split
      · rename_i v hv
        have hd := forestVals_den _ v hl hv
        have hne := forestVals_ne_null _ v hv
        refine ⟨?_, hl, by simp [NodeSt.live]⟩
        simp only [InvN, innerDen]
        exact ⟨hd, fun h => absurd h hne, fun _ => hv, fun h => absurd ⟨l, rfl⟩ h⟩
      · refine ⟨?_, hl, by simp [NodeSt.live]⟩
        simp only [InvN]
        exact ⟨⟨l, rfl⟩, hk (by simpa using hf)⟩

theorem launch_inv : ∀ f : Cfg, allIdle f = true →
    Inv (launchF f) ∧ (hasFailed (launchF f) = false → liveKids (launchF f) = true)
  | .nil, _ => by simp [launchF, Inv, liveKids]
  | .cons nn g res st ch rest, h => by
    simp [allIdle] at h
    obtain ⟨⟨_, h2⟩, h3⟩ := h
    have ihc := launch_inv ch h2
    have ihr := launch_inv rest h3
    have hf := fire_inv nn res ch h2 ihc.1 ihc.2
    unfold launchF
    by_cases hg : g = 0
    · simp only [hg, if_true]
      split
      · rename_i hfail
        refine ⟨⟨hf.1, hf.2.1, allIdle_inv rest h3⟩, ?_⟩
        simp [hasFailed, hfail]
      · rename_i hnf
        refine ⟨⟨hf.1, hf.2.1, ihr.1⟩, ?_⟩
        intro hh
        simp [hasFailed] at hh
        have := hf.2.2
        simp [NodeSt.live] at this
        simp [liveKids, this, ihr.2 hh.2]
    · simp only [hg, if_false]
      simp only [NodeSt.isFailed, Bool.false_eq_true, if_false]
      refine ⟨⟨⟨hg, h2⟩, allIdle_inv ch h2, ihr.1⟩, ?_⟩
      intro hh
      simp [hasFailed, NodeSt.isFailed] at hh
      simp [liveKids, ihr.2 hh]

/-! ### Cancelling the awaitables of a gather -/

theorem cancelU_allIdle : ∀ f : Cfg, allIdle f = true → cancelU f = f
  | .nil, _ => rfl
  | .cons nn g res st ch rest, h => by
    simp [allIdle] at h
    obtain ⟨⟨h1, _⟩, h3⟩ := h
    subst h1
    simp [cancelU, NodeSt.busy, cancelU_allIdle rest h3]

theorem inv_cancelU : ∀ f : Cfg, Inv f → Inv (cancelU f)
  | .nil, _ => trivial
  | .cons nn g res st ch rest, h => by
    obtain ⟨hn, hc, hr⟩ := h
    unfold cancelU
    split
    · exact ⟨trivial, inv_cancelU ch hc, inv_cancelU rest hr⟩
    · exact ⟨hn, hc, inv_cancelU rest hr⟩

theorem hasFailed_cancelU : ∀ f : Cfg, hasFailed (cancelU f) = hasFailed f
  | .nil => rfl
  | .cons nn g res st ch rest => by
    have ih := hasFailed_cancelU rest
    unfold cancelU
    split
    · rename_i hb
      cases st <;> simp [NodeSt.busy] at hb <;> simp [hasFailed, NodeSt.isFailed, ih]
    · simp [hasFailed, ih]

/-! ### Every transition keeps the invariant -/

/-- no member has been started -/
def topIdle : Cfg → Bool
  | .nil => true
  | .cons _ _ _ st _ rest => st == .idle && topIdle rest

theorem allIdle_topIdle : ∀ f : Cfg, allIdle f = true → topIdle f = true
  | .nil, _ => rfl
  | .cons nn g res st ch rest, h => by
    simp [allIdle] at h
    simp [topIdle, h.1.1, allIdle_topIdle rest h.2]

theorem topIdle_no_step {f f' : Cfg} {l : Label} (h : Step f l f') : topIdle f = false := by
  induction h with
  | resolve => simp [topIdle]
  | fire => simp [topIdle]
  | complete => simp [topIdle]
  | fail => simp [topIdle]
  | abort => simp [topIdle]
  | failDone => simp [topIdle]
  | unwound => simp [topIdle]
  | child nn g res st ch rest l ch' hl _ _ => cases st <;> simp [NodeSt.launched] at hl <;> simp [topIdle]
  | sibling nn g res st ch rest l rest' _ ih => simp [topIdle, ih]

theorem step_forestVals {f f' : Cfg} {l : Label} (h : Step f l f') :
    ∀ v, forestVals f = some v → forestVals f' = some v := by
  induction h with
  | resolve => intro v hv; simp [forestVals] at hv
  | fire => intro v hv; simp [forestVals] at hv
  | complete => intro v hv; simp [forestVals] at hv
  | fail => intro v hv; simp [forestVals] at hv
  | abort => intro v hv; simp [forestVals] at hv
  | failDone => intro v hv; simp [forestVals] at hv
  | unwound => intro v hv; simp [forestVals] at hv
  | child nn g res st ch rest l ch' hl _ _ =>
    intro v hv
    unfold forestVals at hv ⊢
    exact hv
  | sibling nn g res st ch rest l rest' _ ih =>
    intro v hv
    unfold forestVals at hv ⊢
    split at hv
    · rename_i w vs hvs
      simp [ih vs hvs]; simpa using hv
    · rename_i bg vs hvs
      simp [ih vs hvs]; simpa using hv
    · simp at hv

theorem step_hasFailed {f f' : Cfg} {l : Label} (h : Step f l f') :
    hasFailed f = true → hasFailed f' = true := by
  induction h with
  | resolve nn g res k ch rest =>
    intro hf; by_cases hk : k = 0 <;> simpa [hk, hasFailed, NodeSt.isFailed] using hf
  | fire nn g res ch rest => intro hf; simp [hasFailed, NodeSt.isFailed] at hf ⊢; exact Or.inr hf
  | complete => intro hf; simpa [hasFailed, NodeSt.isFailed] using hf
  | fail => intro hf; simpa [hasFailed, NodeSt.isFailed] using hf
  | abort nn g ch rest _ => intro hf; simp [hasFailed, NodeSt.isFailed] at hf ⊢; exact Or.inr hf
  | failDone nn g res ch rest _ => intro hf; simp [hasFailed, NodeSt.isFailed] at hf ⊢; exact Or.inr hf
  | unwound => intro hf; simpa [hasFailed, NodeSt.isFailed] using hf
  | child nn g res st ch rest l ch' hl _ _ => intro hf; simpa [hasFailed] using hf
  | sibling nn g res st ch rest l rest' _ ih =>
    intro hf
    simp [hasFailed] at hf ⊢
    rcases hf with hf | hf
    · exact Or.inl hf
    · exact Or.inr (ih hf)

/-- Quiet forests stay quiet: the only transitions left are inside abandoned, never cancelled
work. -/
theorem step_quiet {f f' : Cfg} {l : Label} (h : Step f l f') : QuietF f = true → QuietF f' = true := by
  induction h with
  | resolve => intro hq; simp [QuietF] at hq
  | fire => intro hq; simp [QuietF] at hq
  | complete => intro hq; simp [QuietF] at hq
  | fail => intro hq; simp [QuietF] at hq
  | abort => intro hq; simp [QuietF] at hq
  | failDone => intro hq; simp [QuietF] at hq
  | unwound => intro hq; simp [QuietF] at hq
  | child nn g res st ch rest l ch' hl _ ih =>
    intro hq
    cases st <;> simp [NodeSt.launched] at hl <;> simp [QuietF] at hq ⊢
    · exact ⟨ih hq.1, hq.2⟩
    · rcases hq with ⟨h1 | h1, h2⟩
      · exact ⟨Or.inl h1, h2⟩
      · exact ⟨Or.inr (ih h1), h2⟩
    · rcases hq with ⟨h1 | h1, h2⟩
      · exact ⟨Or.inl h1, h2⟩
      · exact ⟨Or.inr (ih h1), h2⟩
    · exact ⟨ih hq.1, hq.2⟩
  | sibling nn g res st ch rest l rest' _ ih =>
    intro hq
    simp [QuietF] at hq ⊢
    exact ⟨hq.1, ih hq.2⟩

theorem step_inv {f f' : Cfg} {l : Label} (h : Step f l f') :
    Inv f → Inv f' ∧ (liveKids f = true → liveKids f' = true) := by
  induction h with
  | resolve nn g res k ch rest =>
    intro ⟨hn, hc, hr⟩
    simp only [InvN] at hn
    refine ⟨⟨?_, hc, hr⟩, ?_⟩
    · by_cases hk : k = 0 <;> simp [hk, InvN, hn.2]
    · intro hl
      by_cases hk : k = 0 <;> simp_all [liveKids]
  | fire nn g res ch rest =>
    intro ⟨hn, hc, hr⟩
    simp only [InvN] at hn
    have hl := launch_inv ch hn
    have hf := fire_inv nn res ch hn hl.1 hl.2
    refine ⟨⟨hf.1, hf.2.1, hr⟩, ?_⟩
    intro hlk
    have := hf.2.2
    simp [NodeSt.live] at this
    simp_all [liveKids]
  | complete nn g res ch rest v hv =>
    intro ⟨hn, hc, hr⟩
    simp only [InvN] at hn
    obtain ⟨⟨lst, hres⟩, _⟩ := hn
    subst hres
    have hd := forestVals_den _ v hc hv
    have hne := forestVals_ne_null _ v hv
    refine ⟨⟨?_, hc, hr⟩, ?_⟩
    · simp only [InvN, innerDen]
      exact ⟨hd, fun h => absurd h hne, fun _ => hv, fun h => absurd ⟨lst, rfl⟩ h⟩
    · intro hlk
      simp_all [liveKids]
  | fail nn g res ch rest hf =>
    intro ⟨hn, hc, hr⟩
    simp only [InvN] at hn
    refine ⟨⟨?_, inv_cancelU ch hc, hr⟩, ?_⟩
    · simp only [InvN]
      exact ⟨hn.1, by rw [hasFailed_cancelU]; exact hf⟩
    · intro hlk
      simp_all [liveKids]
  | abort nn g ch rest hf =>
    intro ⟨hn, hc, hr⟩
    have hd := hasFailed_den _ hc hf
    have hqq : hasPending ch = false → QuietF ch = true := calm_quiet _ hc
    refine ⟨⟨?_, hc, hr⟩, ?_⟩
    · cases nn <;> simp [errSt, InvN, innerDen, denN, absorb, hd] <;> exact hqq
    · intro hlk
      cases nn <;> simp_all [liveKids, errSt]
  | failDone nn g res ch rest hp =>
    intro ⟨hn, hc, hr⟩
    simp only [InvN] at hn
    obtain ⟨⟨lst, hres⟩, hf⟩ := hn
    subst hres
    have hd := hasFailed_den _ hc hf
    have hq := calm_quiet _ hc hp
    refine ⟨⟨?_, hc, hr⟩, ?_⟩
    · cases nn <;> simp [errSt, InvN, innerDen, denN, absorb, hd, hq]
    · intro hlk
      cases nn <;> simp_all [liveKids, errSt]
  | unwound nn g res ch rest hp =>
    intro ⟨hn, hc, hr⟩
    have hq := calm_quiet _ hc hp
    refine ⟨⟨by simpa [InvN] using hq, hc, hr⟩, ?_⟩
    intro hlk
    simp [liveKids] at hlk
  | child nn g res st ch rest l ch' hl hstep ih =>
    intro ⟨hn, hc, hr⟩
    have ih' := ih hc
    have hsh := shape_step hstep
    refine ⟨⟨?_, ih'.1, hr⟩, ?_⟩
    · cases st with
      | idle => simp [NodeSt.launched] at hl
      | wait k => simp [NodeSt.launched] at hl
      | ready => simp [NodeSt.launched] at hl
      | run =>
        simp only [InvN] at hn ⊢
        exact ⟨hn.1, ih'.2 hn.2⟩
      | failing =>
        simp only [InvN] at hn ⊢
        exact ⟨hn.1, step_hasFailed hstep hn.2⟩
      | done v =>
        simp only [InvN] at hn ⊢
        rw [innerDen_congr res hsh]
        refine ⟨hn.1, hn.2.1, fun hcmp => step_forestVals hstep v (hn.2.2.1 hcmp), fun hnc => ?_⟩
        have := topIdle_no_step hstep
        rw [allIdle_topIdle ch (hn.2.2.2 hnc)] at this
        exact absurd this (by simp)
      | doneErr bg =>
        simp only [InvN] at hn ⊢
        rw [innerDen_congr res hsh]
        exact ⟨hn.1, hn.2.1, fun hb => step_quiet hstep (hn.2.2 hb)⟩
      | failed bg =>
        simp only [InvN, denN] at hn ⊢
        rw [innerDen_congr res hsh]
        exact ⟨hn.1, hn.2.1, fun hb => step_quiet hstep (hn.2.2 hb)⟩
      | unwinding => trivial
      | cancelled =>
        simp only [InvN] at hn ⊢
        exact step_quiet hstep hn
    · intro hlk
      simpa [liveKids] using hlk
  | sibling nn g res st ch rest l rest' hstep ih =>
    intro ⟨hn, hc, hr⟩
    have ih' := ih hr
    refine ⟨⟨hn, hc, ih'.1⟩, ?_⟩
    intro hlk
    simp [liveKids] at hlk ⊢
    exact ⟨hlk.1, ih'.2 hlk.2⟩

/-! ### Progress: a configuration without enabled transition has no pending task -/

theorem calm_settled : ∀ f : Cfg, liveKids f = true → hasPending f = false →
    hasFailed f = true ∨ ∃ v, forestVals f = some v
  | .nil, _, _ => Or.inr ⟨.nil, rfl⟩
  | .cons nn g res st ch rest, hl, hq => by
    simp [liveKids] at hl
    simp [hasPending] at hq
    rcases calm_settled rest hl.2 hq.2 with h | ⟨vs, hvs⟩
    · left; simp [hasFailed, h]
    · cases st with
      | idle => simp at hl
      | cancelled => simp at hl
      | unwinding => simp at hl
      | wait k => simp [NodeSt.pending] at hq
      | ready => simp [NodeSt.pending] at hq
      | run => simp [NodeSt.pending] at hq
      | failing => simp [NodeSt.pending] at hq
      | failed bg => left; simp [hasFailed, NodeSt.isFailed]
      | done v => right; exact ⟨.cons v vs, by simp [forestVals, hvs]⟩
      | doneErr bg => right; exact ⟨.cons .null vs, by simp [forestVals, hvs]⟩

theorem stuck_calm : ∀ (f : Cfg), Inv f → (∀ l f', ¬ Step f l f') → hasPending f = false
  | .nil, _, _ => rfl
  | .cons nn g res st ch rest, ⟨hn, hc, hr⟩, hstuck => by
    have hrest : hasPending rest = false :=
      stuck_calm rest hr (fun l r' hs => hstuck _ _ (Step.sibling nn g res st ch rest l r' hs))
    cases st with
    | idle => simp [hasPending, NodeSt.pending, hrest]
    | done v => simp [hasPending, NodeSt.pending, hrest]
    | doneErr bg => simp [hasPending, NodeSt.pending, hrest]
    | failed bg => simp [hasPending, NodeSt.pending, hrest]
    | cancelled => simp [hasPending, NodeSt.pending, hrest]
    | wait k =>
      simp only [InvN] at hn
      cases k with
      | zero => exact absurd rfl hn.1
      | succ k => exact absurd (Step.resolve nn g res k ch rest) (hstuck _ _)
    | ready => exact absurd (Step.fire nn g res ch rest) (hstuck _ _)
    | run =>
      simp only [InvN] at hn
      have hq : hasPending ch = false :=
        stuck_calm ch hc (fun l c' hs =>
          hstuck _ _ (Step.child nn g res .run ch rest l c' (by simp [NodeSt.launched]) hs))
      rcases calm_settled ch hn.2 hq with h | ⟨v, hv⟩
      · exact absurd (Step.fail nn g res ch rest h) (hstuck _ _)
      · exact absurd (Step.complete nn g res ch rest v hv) (hstuck _ _)
    | failing =>
      have hq : hasPending ch = false :=
        stuck_calm ch hc (fun l c' hs =>
          hstuck _ _ (Step.child nn g res .failing ch rest l c' (by simp [NodeSt.launched]) hs))
      exact absurd (Step.failDone nn g res ch rest hq) (hstuck _ _)
    | unwinding =>
      have hq : hasPending ch = false :=
        stuck_calm ch hc (fun l c' hs =>
          hstuck _ _ (Step.child nn g res .unwinding ch rest l c' (by simp [NodeSt.launched]) hs))
      exact absurd (Step.unwound nn g res ch rest hq) (hstuck _ _)

/-! ### Termination measure -/

theorem measure_cancelU_le : ∀ f : Cfg, measure (cancelU f) ≤ measure f
  | .nil => Nat.le_refl _
  | .cons nn g res st ch rest => by
    have h1 := measure_cancelU_le ch
    have h2 := measure_cancelU_le rest
    unfold cancelU
    split
    · rename_i hb
      cases st <;> simp [NodeSt.busy] at hb <;> simp [measure, rank] <;> omega
    · simp [measure]; omega

theorem fireWith_rank (nn : Bool) (g : Nat) (res : Res) (ch lch : Cfg) (h : measure lch ≤ measure ch) :
    rank g (fireWith nn res ch lch).1 + measure (fireWith nn res ch lch).2 ≤ 2 + measure ch := by
  unfold fireWith
  cases res <;> simp [errSt]
  · cases nn <;> simp [rank]
  · cases nn <;> simp [rank]
  · simp [rank]
  · split
    · cases nn <;> simp [rank] <;> omega
    · split <;> simp [rank] <;> omega

theorem allIdle_measure_launch : ∀ f : Cfg, allIdle f = true → measure (launchF f) ≤ measure f
  | .nil, _ => Nat.le_refl _
  | .cons nn g res st ch rest, h => by
    simp [allIdle] at h
    obtain ⟨⟨h1, h2⟩, h3⟩ := h
    subst h1
    have ihc := allIdle_measure_launch ch h2
    have ihr := allIdle_measure_launch rest h3
    have hfw := fireWith_rank nn g res ch (launchF ch) ihc
    have hi : rank g .idle = g + 4 := rfl
    have hw : rank g (.wait g) = g + 3 := rfl
    unfold launchF
    by_cases hg : g = 0
    · simp only [hg, if_true]
      subst hg
      split <;> simp only [measure] <;> omega
    · simp only [hg, if_false]
      simp only [NodeSt.isFailed, Bool.false_eq_true, if_false, measure]
      omega

theorem fire_measure (nn : Bool) (g : Nat) (res : Res) (ch : Cfg) (h : allIdle ch = true) :
    rank g (fireWith nn res ch (launchF ch)).1 + measure (fireWith nn res ch (launchF ch)).2
      ≤ 2 + measure ch :=
  fireWith_rank nn g res ch (launchF ch) (allIdle_measure_launch ch h)

theorem step_measure {f f' : Cfg} {l : Label} (h : Step f l f') :
    Inv f → measure f' < measure f := by
  induction h with
  | resolve nn g res k ch rest =>
    intro _
    by_cases hk : k = 0 <;> simp [hk, measure, rank]
  | fire nn g res ch rest =>
    intro ⟨hn, _, _⟩
    simp only [InvN] at hn
    have := fire_measure nn g res ch hn
    have hr : rank g .ready = 3 := rfl
    simp only [measure]
    omega
  | complete => intro _; simp [measure, rank]
  | fail nn g res ch rest hf =>
    intro _
    have := measure_cancelU_le ch
    simp [measure, rank]; omega
  | abort nn g ch rest hf => intro _; cases nn <;> simp [measure, rank, errSt]
  | failDone nn g res ch rest hf => intro _; cases nn <;> simp [measure, rank, errSt]
  | unwound => intro _; simp [measure, rank]
  | child nn g res st ch rest l ch' hl hstep ih =>
    intro ⟨_, hc, _⟩
    have := ih hc
    simp only [measure]; omega
  | sibling nn g res st ch rest l rest' hstep ih =>
    intro ⟨_, _, hr⟩
    have := ih hr
    simp only [measure]; omega

/-! ### Nulled positions of a completed forest are the predicted ones -/

theorem nulled_eq_spec : ∀ (f : Cfg) (pfx : Path) (i : Nat) (v : Val), Inv f → forestVals f = some v →
    nulledF pfx i f = specNulledF pfx i f
  | .nil, _, _, _, _, _ => rfl
  | .cons nn g res st ch rest, pfx, i, v, ⟨hn, hc, hr⟩, hv => by
    unfold forestVals at hv
    split at hv
    · rename_i w vs hvs
      have ihr := nulled_eq_spec rest pfx (i + 1) vs hr hvs
      simp only [InvN] at hn
      unfold nulledF specNulledF
      rw [ihr, hn.1]
      cases res with
      | comp lst =>
        have hfv := hn.2.2.1 ⟨lst, rfl⟩
        have ihc := nulled_eq_spec ch (pfx ++ [i]) 0 w hc hfv
        simp [hfv, ihc]
      | raise => simp
      | null => simp
      | leaf n => simp
    · rename_i bg vs hvs
      have ihr := nulled_eq_spec rest pfx (i + 1) vs hr hvs
      simp only [InvN] at hn
      unfold nulledF specNulledF
      rw [ihr, hn.2.1, hn.1]
      simp
    · simp at hv

/-! ### Runs -/

theorem run_inv {c c' : Cfg} {ls : List Label} (h : Run Step c ls c') :
    Inv c → liveKids c = true → Inv c' ∧ liveKids c' = true ∧ shape c' = shape c := by
  induction h with
  | refl c => intro h1 h2; exact ⟨h1, h2, rfl⟩
  | step c l c1 ls c2 hs _ ih =>
    intro h1 h2
    have := step_inv hs h1
    have ih' := ih this.1 (this.2 h2)
    exact ⟨ih'.1, ih'.2.1, by rw [ih'.2.2, shape_step hs]⟩

theorem run_measure {c c' : Cfg} {ls : List Label} (h : Run Step c ls c') :
    Inv c → ls.length + measure c' ≤ measure c := by
  induction h with
  | refl c => intro _; simp
  | step c l c1 ls c2 hs _ ih =>
    intro h1
    have hi := step_inv hs h1
    have := ih hi.1
    have := step_measure hs h1
    simp only [List.length_cons]; omega

theorem shape_eq_nil {f : Cfg} (h : shape f = .nil) : f = .nil := by
  cases f <;> simp [shape] at h ⊢

theorem initQuery_inv (F : Cfg) (h : allIdle F = true) : Inv (initQuery F) ∧ liveKids (initQuery F) = true :=
  ⟨⟨h, allIdle_inv F h, trivial⟩, by simp [initQuery, liveKids]⟩

/-- Shape of every configuration reachable from a query: the root wrapper with some state. -/
theorem run_root {F c : Cfg} {ls : List Label} (hF : allIdle F = true)
    (h : Run Step (initQuery F) ls c) :
    ∃ g st F', c = .cons false g (.comp .obj) st F' .nil ∧ shape F' = shape F ∧ st.live = true ∧ Inv c := by
  have hi := initQuery_inv F hF
  obtain ⟨h1, h2, h3⟩ := run_inv h hi.1 hi.2
  cases c with
  | nil => simp [initQuery, shape] at h3
  | cons nn g res st ch rest =>
    simp [initQuery, shape] at h3
    obtain ⟨hnn, hres, hch, hrest⟩ := h3
    subst hnn hres
    have := shape_eq_nil hrest
    subst this
    simp [liveKids] at h2
    exact ⟨g, st, ch, rfl, hch, by simp [NodeSt.live, h2], h1⟩

/-- Main lemma: a configuration reachable from a query in which no transition is enabled has
completed the root with the synchronous `data`, and its nulled positions are the predicted ones. -/
theorem final_root {F c : Cfg} {ls : List Label} (hF : allIdle F = true)
    (h : Run Step (initQuery F) ls c) (hfin : Final Step c) :
    rootData c = some (dataOf F) ∧ nulledF [] 0 c = specNulledF [] 0 (initQuery F) := by
  obtain ⟨g, st, F', hc, hsh, hlive, hinv⟩ := run_root hF h
  subst hc
  have hq := stuck_calm _ hinv hfin
  obtain ⟨hn, hc', _⟩ := hinv
  have hspec : specNulledF [] 0 (Cfg.cons false g (.comp .obj) st F' .nil) = specNulledF [] 0 (initQuery F) :=
    specNulledF_congr (by simp [initQuery, shape, hsh]) [] 0
  cases st with
  | idle => simp [NodeSt.live] at hlive
  | cancelled => simp [NodeSt.live] at hlive
  | unwinding => simp [NodeSt.live] at hlive
  | wait k => simp [hasPending, NodeSt.pending] at hq
  | ready => simp [hasPending, NodeSt.pending] at hq
  | run => simp [hasPending, NodeSt.pending] at hq
  | failing => simp [hasPending, NodeSt.pending] at hq
  | failed bg => simp [InvN] at hn
  | done v =>
    simp only [InvN, innerDen] at hn
    have hd : denF F = some v := by rw [← denF_congr hsh]; exact hn.1
    refine ⟨by simp [rootData, dataOf, hd], ?_⟩
    rw [← hspec]
    exact nulled_eq_spec _ [] 0 (.cons v .nil) ⟨by simpa [InvN, innerDen] using hn, hc', trivial⟩ (by simp [forestVals])
  | doneErr bg =>
    have hn' := hn
    simp only [InvN, innerDen] at hn
    have hd : denF F = none := by rw [← denF_congr hsh]; exact hn.2.1
    refine ⟨by simp [rootData, dataOf, hd], ?_⟩
    rw [← hspec]
    exact nulled_eq_spec _ [] 0 (.cons .null .nil) ⟨hn', hc', trivial⟩ (by simp [forestVals])

theorem shape_syncOf : ∀ f : Cfg, shape (syncOf f) = shape f
  | .nil => rfl
  | .cons nn g res st ch rest => by simp [syncOf, shape, shape_syncOf ch, shape_syncOf rest]

theorem allIdle_syncOf : ∀ f : Cfg, allIdle f = true → allIdle (syncOf f) = true
  | .nil, _ => rfl
  | .cons nn g res st ch rest, h => by
    simp [allIdle] at h
    simp [syncOf, allIdle, h.1.1, allIdle_syncOf ch h.1.2, allIdle_syncOf rest h.2]

/-! ### Static facts about the synchronous denotation -/

theorem denF_ne_null : ∀ (f : Cfg) (v : Val), denF f = some v → v ≠ .null
  | .nil, v, h => by simp [denF] at h; subst h; simp
  | .cons nn g res st ch rest, v, h => by
    rw [denF_cons] at h
    split at h <;> simp at h
    subst h; simp

theorem den_none_iff : ∀ f : Cfg, denF f = none ↔ reachesParent f = true
  | .nil => by simp [denF, reachesParent]
  | .cons nn g res st ch rest => by
    have ihc := den_none_iff ch
    have ihr := den_none_iff rest
    rw [denF_cons]
    unfold reachesParent
    cases hres : res with
    | raise =>
      cases nn <;> simp [denN, innerDen, absorb]
      · cases h : denF rest <;> simp_all
    | null =>
      cases nn <;> simp [denN, innerDen, absorb]
      · cases h : denF rest <;> simp_all
    | leaf n =>
      simp [denN, innerDen, absorb]
      cases h : denF rest <;> simp_all
    | comp l =>
      cases hd : denF ch with
      | none =>
        have : reachesParent ch = true := ihc.mp hd
        cases nn <;> simp [denN, innerDen, absorb, hd, this]
        · cases h : denF rest <;> simp_all
      | some v =>
        have : reachesParent ch = false := by
          cases hh : reachesParent ch
          · rfl
          · have := ihc.mpr hh; simp [hd] at this
        have hvn := denF_ne_null ch v hd
        cases v <;> cases nn <;> simp [denN, innerDen, absorb, hd, this] <;>
          (cases h : denF rest <;> simp_all)

theorem den_wf : ∀ (f : Cfg) (v : Val), denF f = some v → wfVals f v
  | .nil, v, h => by simp [denF] at h; subst h; trivial
  | .cons nn g res st ch rest, v, h => by
    rw [denF_cons] at h
    split at h
    · rename_i w vs hw hvs
      simp at h; subst h
      refine ⟨?_, ?_, den_wf rest vs hvs⟩
      · intro hnull; subst hnull
        unfold denN at hw
        cases nn
        · rfl
        · cases hi : innerDen res ch with
          | none => simp [hi, absorb] at hw
          | some x => cases x <;> simp [hi, absorb] at hw
      · intro l hres hne
        subst hres
        unfold denN at hw
        simp only [innerDen] at hw
        cases hd : denF ch with
        | none => cases nn <;> simp [hd, absorb] at hw; exact absurd hw.symm hne
        | some x =>
          have hxn := denF_ne_null ch x hd
          rw [hd, absorb_some_nonnull nn x hxn] at hw
          simp at hw; subst hw
          exact den_wf ch x hd
    · simp at h

/-! ### Nulled positions hold `null` in `data` -/

theorem nulled_is_null : ∀ (f : Cfg) (pfx : Path) (i : Nat) (v : Val), denF f = some v →
    ∀ p ∈ specNulledF pfx i f, ∃ k q, p = pfx ++ (i + k) :: q ∧ v.at (k :: q) = some .null
  | .nil, _, _, _, _ => by intro p hp; simp [specNulledF] at hp
  | .cons nn g res st ch rest, pfx, i, v, hv => by
    intro p hp
    rw [denF_cons] at hv
    split at hv
    · rename_i w vs hw hvs
      simp at hv; subst hv
      unfold specNulledF at hp
      rw [List.mem_append] at hp
      rcases hp with hp | hp
      · cases hi : innerDen res ch with
        | none =>
          rw [hi] at hp
          cases nn
          · simp at hp
            subst hp
            have : w = .null := by simpa [denN, hi, absorb] using hw.symm
            subst this
            exact ⟨0, [], by simp, by simp [Val.at, Val.get]⟩
          · simp at hp
        | some x =>
          rw [hi] at hp
          cases res with
          | comp l =>
            simp only at hp
            simp only [innerDen] at hi
            have hxn := denF_ne_null ch x hi
            have hwx : w = x := by
              have := hw
              simp only [denN, innerDen, hi, absorb_some_nonnull nn x hxn] at this
              simpa using this.symm
            subst hwx
            obtain ⟨k', q', hp1, hp2⟩ := nulled_is_null ch (pfx ++ [i]) 0 w hi p hp
            refine ⟨0, k' :: q', by simp [hp1], ?_⟩
            simpa [Val.at, Val.get] using hp2
          | raise => simp at hp
          | null => simp at hp
          | leaf n => simp at hp
      · obtain ⟨k', q', hp1, hp2⟩ := nulled_is_null rest pfx (i + 1) vs hvs p hp
        refine ⟨k' + 1, q', by simp [hp1]; omega, ?_⟩
        simpa [Val.at, Val.get] using hp2
    · simp at hv


/-! ### Serial root -/

/-- Completed members, then at most one member that is in progress or has failed, then members
that have not been started; no member is ever cancelled. -/
def serialOK : Cfg → Bool
  | .nil => true
  | .cons _ _ _ st _ rest =>
    match st with
    | .done _ => serialOK rest
    | .doneErr _ => serialOK rest
    | .cancelled => false
    | .unwinding => false
    | _ => topIdle rest

theorem topIdle_serialOK : ∀ f : Cfg, topIdle f = true → serialOK f = true
  | .nil, _ => rfl
  | .cons nn g res st ch rest, h => by
    simp [topIdle] at h
    obtain ⟨h1, h2⟩ := h
    subst h1
    simp [serialOK, h2]

theorem step_no_start {f f' : Cfg} {l : Label} (h : Step f l f') : ∀ p, l ≠ .start p := by
  induction h with
  | resolve => intro p; simp
  | fire => intro p; simp
  | complete => intro p; simp
  | fail => intro p; simp
  | abort => intro p; simp
  | failDone => intro p; simp
  | unwound => intro p; simp
  | child nn g res st ch rest l ch' hl _ ih =>
    intro p; cases l <;> simp [Label.down, Label.mapPath] <;> exact fun h => absurd rfl (ih _)
  | sibling nn g res st ch rest l rest' _ ih =>
    intro p; cases l <;> simp [Label.next, Label.mapPath] <;> exact fun h => absurd rfl (ih _)

theorem fireWith_live (nn : Bool) (res : Res) (ch lch : Cfg) :
    (fireWith nn res ch lch).1 ≠ .cancelled ∧ (fireWith nn res ch lch).1 ≠ .idle ∧
      (fireWith nn res ch lch).1 ≠ .unwinding := by
  unfold fireWith
  cases res <;> cases nn <;> simp [errSt]
  all_goals
    split
    · simp
    · split <;> simp

theorem step_serialOK {f f' : Cfg} {l : Label} (h : Step f l f') :
    serialOK f = true → serialOK f' = true := by
  induction h with
  | resolve nn g res k ch rest =>
    intro hs
    by_cases hk : k = 0 <;> simpa [hk, serialOK] using hs
  | fire nn g res ch rest =>
    intro hs
    simp only [serialOK] at hs
    have hi := topIdle_serialOK rest hs
    have hne := fireWith_live nn res ch (launchF ch)
    generalize (fireWith nn res ch (launchF ch)) = r at hne ⊢
    obtain ⟨r1, r2⟩ := r
    cases r1 <;> simp [serialOK, hs, hi] at hne ⊢
  | complete nn g res ch rest v hv =>
    intro hs
    simp only [serialOK] at hs ⊢
    exact topIdle_serialOK rest hs
  | fail nn g res ch rest hf => intro hs; simpa [serialOK] using hs
  | abort nn g ch rest hf =>
    intro hs
    simp only [serialOK] at hs
    cases nn <;> simp [errSt, serialOK, hs, topIdle_serialOK rest hs]
  | failDone nn g res ch rest hf =>
    intro hs
    simp only [serialOK] at hs
    cases nn <;> simp [errSt, serialOK, hs, topIdle_serialOK rest hs]
  | unwound => intro hs; simp [serialOK] at hs
  | child nn g res st ch rest l ch' hl _ _ => intro hs; simpa [serialOK] using hs
  | sibling nn g res st ch rest l rest' hstep ih =>
    intro hs
    have hni := topIdle_no_step hstep
    cases st <;> simp [serialOK] at hs ⊢ <;> first | exact ih hs | simp [hni] at hs

theorem shape_startNext : ∀ f : Cfg, shape (startNext f) = shape f
  | .nil => rfl
  | .cons nn g res st ch rest => by
    have h3 := shape_fireWith nn res ch (launchF ch) (shape_launchF ch)
    have ih := shape_startNext rest
    unfold startNext
    cases st <;> simp [shape, ih]
    by_cases hg : g = 0 <;> simp [hg, h3]

theorem startNext_inv : ∀ f : Cfg, Inv f → Inv (startNext f)
  | .nil, _ => trivial
  | .cons nn g res st ch rest, ⟨hn, hc, hr⟩ => by
    have ih := startNext_inv rest hr
    unfold startNext
    cases st with
    | idle =>
      simp only [InvN] at hn
      by_cases hg : g = 0
      · simp only [hg, if_true]
        have hl := launch_inv ch hn
        have hf := fire_inv nn res ch hn hl.1 hl.2
        exact ⟨hf.1, hf.2.1, hr⟩
      · simp only [hg, if_false]
        exact ⟨⟨hg, hn⟩, hc, hr⟩
    | wait k => exact ⟨hn, hc, ih⟩
    | ready => exact ⟨hn, hc, ih⟩
    | run => exact ⟨hn, hc, ih⟩
    | failing => exact ⟨hn, hc, ih⟩
    | done v => exact ⟨hn, hc, ih⟩
    | doneErr bg => exact ⟨hn, hc, ih⟩
    | failed bg => exact ⟨hn, hc, ih⟩
    | unwinding => exact ⟨hn, hc, ih⟩
    | cancelled => exact ⟨hn, hc, ih⟩

theorem startNext_serialOK : ∀ f : Cfg, serialOK f = true → prefixDone f = true →
    serialOK (startNext f) = true
  | .nil, _, _ => rfl
  | .cons nn g res st ch rest, hs, hp => by
    unfold startNext
    cases st with
    | idle =>
      simp only [serialOK] at hs
      have hi := topIdle_serialOK rest hs
      by_cases hg : g = 0
      · simp only [hg, if_true]
        have hne := fireWith_live nn res ch (launchF ch)
        generalize (fireWith nn res ch (launchF ch)) = r at hne ⊢
        obtain ⟨r1, r2⟩ := r
        cases r1 <;> simp [serialOK, hs, hi] at hne ⊢
      · simp [hg, serialOK, hs]
    | done v => simp only [serialOK, prefixDone] at hs hp ⊢; exact startNext_serialOK rest hs hp
    | doneErr bg => simp only [serialOK, prefixDone] at hs hp ⊢; exact startNext_serialOK rest hs hp
    | wait k => simp [prefixDone] at hp
    | ready => simp [prefixDone] at hp
    | run => simp [prefixDone] at hp
    | failing => simp [prefixDone] at hp
    | failed bg => simp [prefixDone] at hp
    | unwinding => simp [prefixDone] at hp
    | cancelled => simp [prefixDone] at hp

/-- invariant of a serial root -/
def SInv (f : Cfg) : Prop := Inv f ∧ serialOK f = true

theorem sstep_inv {f f' : Cfg} {l : Label} (h : SStep f l f') : SInv f → SInv f' ∧ shape f' = shape f := by
  intro ⟨h1, h2⟩
  match h with
  | .inner _ _ _ hs => exact ⟨⟨(step_inv hs h1).1, step_serialOK hs h2⟩, shape_step hs⟩
  | .start _ hp _ => exact ⟨⟨startNext_inv f h1, startNext_serialOK f h2 hp⟩, shape_startNext f⟩

theorem srun_inv {c c' : Cfg} {ls : List Label} (h : Run SStep c ls c') :
    SInv c → SInv c' ∧ shape c' = shape c := by
  induction h with
  | refl c => intro h; exact ⟨h, rfl⟩
  | step c l c1 ls c2 hs _ ih =>
    intro h
    have h1 := sstep_inv hs h
    have h2 := ih h1.1
    exact ⟨h2.1, by rw [h2.2, h1.2]⟩

theorem serial_final_aux : ∀ f : Cfg, Inv f → serialOK f = true → hasPending f = false →
    (hasIdle f = true → prefixDone f = false) →
    (∃ v, forestVals f = some v ∧ denF f = some v) ∨ (forestVals f = none ∧ denF f = none)
  | .nil, _, _, _, _ => Or.inl ⟨.nil, rfl, rfl⟩
  | .cons nn g res st ch rest, ⟨hn, hc, hr⟩, hs, hq, hidle => by
    rw [denF_cons]
    cases st with
    | idle => simp [hasIdle, prefixDone] at hidle
    | wait k => simp [hasPending, NodeSt.pending] at hq
    | ready => simp [hasPending, NodeSt.pending] at hq
    | run => simp [hasPending, NodeSt.pending] at hq
    | failing => simp [hasPending, NodeSt.pending] at hq
    | unwinding => simp [serialOK] at hs
    | cancelled => simp [serialOK] at hs
    | failed bg =>
      simp only [InvN] at hn
      right
      simp [forestVals, hn.2.1]
    | done w =>
      simp only [InvN] at hn
      simp only [serialOK] at hs
      simp [hasPending] at hq
      have hd := denN_of_done hn.1 hn.2.1
      rcases serial_final_aux rest hr hs hq.2 (by simpa [hasIdle, prefixDone] using hidle) with ⟨vs, h1, h2⟩ | ⟨h1, h2⟩
      · left; exact ⟨.cons w vs, by simp [forestVals, h1], by simp [hd, h2]⟩
      · right; simp [forestVals, h1, hd, h2]
    | doneErr bg =>
      simp only [InvN] at hn
      simp only [serialOK] at hs
      simp [hasPending] at hq
      have hd : denN nn res ch = some .null := by simp [denN, hn.1, hn.2.1, absorb]
      rcases serial_final_aux rest hr hs hq.2 (by simpa [hasIdle, prefixDone] using hidle) with ⟨vs, h1, h2⟩ | ⟨h1, h2⟩
      · left; exact ⟨.cons .null vs, by simp [forestVals, h1], by simp [hd, h2]⟩
      · right; simp [forestVals, h1, hd, h2]

/-- A serial root in which nothing is enabled has produced the synchronous `data`. -/
theorem serial_final {F c : Cfg} {ls : List Label} (hF : allIdle F = true)
    (h : Run SStep F ls c) (hfin : Final SStep c) : dataCfg c = dataOf F := by
  have h0 : SInv F := ⟨allIdle_inv F hF, topIdle_serialOK F (allIdle_topIdle F hF)⟩
  obtain ⟨⟨hi, hs⟩, hsh⟩ := srun_inv h h0
  have hq := stuck_calm c hi (fun l c' hst => hfin l c' (SStep.inner c l c' hst))
  have hidle : hasIdle c = true → prefixDone c = false := by
    intro h1
    cases hp : prefixDone c
    · rfl
    · exact absurd (SStep.start c hp h1) (hfin _ _)
  have hd : denF c = denF F := denF_congr hsh
  rcases serial_final_aux c hi hs hq hidle with ⟨v, h1, h2⟩ | ⟨h1, h2⟩
  · simp [dataCfg, dataOf, h1, ← hd, h2]
  · simp [dataCfg, dataOf, h1, ← hd, h2]

/-- The members before position `j` have completed, and nothing of them is running or
unwinding any more - except work they abandoned without cancelling it (`bg = true`). -/
def strictBefore : Nat → Cfg → Bool
  | 0, _ => true
  | _ + 1, .nil => true
  | j + 1, .cons _ _ _ st ch rest =>
    (match st with
      | .done _ => QuietF ch
      | .doneErr bg => bg || QuietF ch
      | _ => false) && strictBefore j rest

theorem done_quiet {nn : Bool} {res : Res} {v : Val} {ch : Cfg} (hn : InvN nn res (.done v) ch)
    (hc : Inv ch) : QuietF ch = true := by
  simp only [InvN] at hn
  by_cases hcmp : ∃ l, res = .comp l
  · exact calm_quiet ch hc (forestVals_not_pending ch v (hn.2.2.1 hcmp))
  · exact allIdle_quiet ch (hn.2.2.2 hcmp)

theorem prefixDone_strictBefore : ∀ f : Cfg, Inv f → prefixDone f = true →
    strictBefore (firstIdle f) f = true
  | .nil, _, _ => by simp [firstIdle, strictBefore]
  | .cons nn g res st ch rest, ⟨hn, hc, hr⟩, h => by
    cases st <;> simp [prefixDone] at h <;> simp [firstIdle, strictBefore]
    · exact ⟨done_quiet hn hc, prefixDone_strictBefore rest hr h⟩
    · rename_i bg
      simp only [InvN] at hn
      refine ⟨?_, prefixDone_strictBefore rest hr h⟩
      cases bg
      · exact Or.inr (hn.2.2 rfl)
      · exact Or.inl rfl

/-- a completed forest is quiet -/
theorem completed_quiet (f : Cfg) (v : Val) (hi : Inv f) (hv : forestVals f = some v) : QuietF f = true :=
  calm_quiet f hi (forestVals_not_pending f v hv)

/-! ### Reading the invariant at a position -/

theorem inv_nodeAt : ∀ (c : Cfg) (p : Path) (nn : Bool) (res : Res) (st : NodeSt) (ch : Cfg),
    Inv c → nodeAt c p = some (nn, res, st, ch) → InvN nn res st ch ∧ Inv ch
  | .nil, _, _, _, _, _, _, h => by simp [nodeAt] at h
  | .cons _ _ _ _ _ _, [], _, _, _, _, _, h => by simp [nodeAt] at h
  | .cons nn' g res' st' ch' rest, [0], nn, res, st, ch, ⟨hn, hc, _⟩, h => by
    simp [nodeAt] at h
    obtain ⟨rfl, rfl, rfl, rfl⟩ := h
    exact ⟨hn, hc⟩
  | .cons nn' g res' st' ch' rest, 0 :: j :: p, nn, res, st, ch, ⟨_, hc, _⟩, h => by
    simp [nodeAt] at h
    exact inv_nodeAt ch' (j :: p) nn res st ch hc h
  | .cons nn' g res' st' ch' rest, (i + 1) :: p, nn, res, st, ch, ⟨_, _, hr⟩, h => by
    simp [nodeAt] at h
    exact inv_nodeAt rest (i :: p) nn res st ch hr h

theorem allIdle_not_cancelled : ∀ f : Cfg, allIdle f = true → hasCancelled f = false
  | .nil, _ => rfl
  | .cons nn g res st ch rest, h => by
    simp [allIdle] at h
    simp [hasCancelled, h.1.1, allIdle_not_cancelled rest h.2]

theorem liveKids_not_cancelled : ∀ f : Cfg, liveKids f = true → hasCancelled f = false
  | .nil, _ => rfl
  | .cons nn g res st ch rest, h => by
    simp [liveKids] at h
    simp [hasCancelled, h.1, liveKids_not_cancelled rest h.2]

theorem forestVals_not_cancelled : ∀ (f : Cfg) (v : Val), forestVals f = some v → hasCancelled f = false
  | .nil, _, _ => rfl
  | .cons nn g res st ch rest, v, h => by
    unfold forestVals at h
    split at h
    · rename_i w vs hvs; simp [hasCancelled, forestVals_not_cancelled rest vs hvs]
    · rename_i bg vs hvs; simp [hasCancelled, forestVals_not_cancelled rest vs hvs]
    · simp at h

/-- A cancelled task (finished or still unwinding) is a child of a gather that is failing, of a
position that handled or raised an error, or of a cancelled task. -/
theorem cancelled_parent (nn : Bool) (res : Res) (st : NodeSt) (ch : Cfg) (h : InvN nn res st ch)
    (hc : hasCancelled ch = true) :
    st = .failing ∨ (∃ b, st = .doneErr b) ∨ (∃ b, st = .failed b) ∨ st = .unwinding ∨ st = .cancelled := by
  cases st with
  | idle => simp only [InvN] at h; simp [allIdle_not_cancelled ch h] at hc
  | wait k => simp only [InvN] at h; simp [allIdle_not_cancelled ch h.2] at hc
  | ready => simp only [InvN] at h; simp [allIdle_not_cancelled ch h] at hc
  | run => simp only [InvN] at h; simp [liveKids_not_cancelled ch h.2] at hc
  | done v =>
    simp only [InvN] at h
    by_cases hcmp : ∃ l, res = .comp l
    · simp [forestVals_not_cancelled ch v (h.2.2.1 hcmp)] at hc
    · simp [allIdle_not_cancelled ch (h.2.2.2 hcmp)] at hc
  | failing => simp
  | doneErr bg => simp
  | failed bg => simp
  | unwinding => simp
  | cancelled => simp

/-! ### Serial root: termination -/

theorem startNext_measure : ∀ f : Cfg, Inv f → hasIdle f = true → measure (startNext f) < measure f
  | .nil, _, h => by simp [hasIdle] at h
  | .cons nn g res st ch rest, ⟨hn, _, hr⟩, h => by
    unfold startNext
    cases st with
    | idle =>
      simp only [InvN] at hn
      have hi : rank g .idle = g + 4 := rfl
      by_cases hg : g = 0
      · simp only [hg, if_true]
        have := fire_measure nn 0 res ch hn
        subst hg
        simp only [measure]; omega
      · simp only [hg, if_false]
        have hw : rank g (.wait g) = g + 3 := rfl
        simp only [measure]; omega
    | wait k => simp [hasIdle] at h; have := startNext_measure rest hr h; simp only [measure]; omega
    | ready => simp [hasIdle] at h; have := startNext_measure rest hr h; simp only [measure]; omega
    | run => simp [hasIdle] at h; have := startNext_measure rest hr h; simp only [measure]; omega
    | failing => simp [hasIdle] at h; have := startNext_measure rest hr h; simp only [measure]; omega
    | done v => simp [hasIdle] at h; have := startNext_measure rest hr h; simp only [measure]; omega
    | doneErr bg => simp [hasIdle] at h; have := startNext_measure rest hr h; simp only [measure]; omega
    | failed bg => simp [hasIdle] at h; have := startNext_measure rest hr h; simp only [measure]; omega
    | unwinding => simp [hasIdle] at h; have := startNext_measure rest hr h; simp only [measure]; omega
    | cancelled => simp [hasIdle] at h; have := startNext_measure rest hr h; simp only [measure]; omega

theorem srun_measure {c c' : Cfg} {ls : List Label} (h : Run SStep c ls c') :
    SInv c → ls.length + measure c' ≤ measure c := by
  induction h with
  | refl c => intro _; simp
  | step c l c1 ls c2 hs _ ih =>
    intro h
    have h1 := sstep_inv hs h
    have := ih h1.1
    have hm : measure c1 < measure c := by
      match hs with
      | .inner _ _ _ hst => exact step_measure hst h.1
      | .start _ _ hi => exact startNext_measure c h.1 hi
    simp only [List.length_cons]; omega

/-! ### Every error position lies at or below a null of the completed forest -/

theorem allIdle_nodeAt : ∀ (f : Cfg) (p : Path) (nn : Bool) (res : Res) (st : NodeSt) (ch : Cfg),
    allIdle f = true → nodeAt f p = some (nn, res, st, ch) → st = .idle
  | .nil, _, _, _, _, _, _, h => by simp [nodeAt] at h
  | .cons _ _ _ _ _ _, [], _, _, _, _, _, h => by simp [nodeAt] at h
  | .cons nn' g res' st' ch' rest, [0], nn, res, st, ch, hi, h => by
    simp [allIdle] at hi
    simp [nodeAt] at h
    rw [← h.2.2.1]; exact hi.1.1
  | .cons nn' g res' st' ch' rest, 0 :: j :: p, nn, res, st, ch, hi, h => by
    simp [allIdle] at hi
    simp [nodeAt] at h
    exact allIdle_nodeAt ch' (j :: p) nn res st ch hi.1.2 h
  | .cons nn' g res' st' ch' rest, (i + 1) :: p, nn, res, st, ch, hi, h => by
    simp [allIdle] at hi
    simp [nodeAt] at h
    exact allIdle_nodeAt rest (i :: p) nn res st ch hi.2 h

theorem errpos_null : ∀ (f : Cfg) (v : Val) (i : Nat) (q : Path) (nn : Bool) (res : Res) (st : NodeSt)
    (ch : Cfg), Inv f → forestVals f = some v → nodeAt f (i :: q) = some (nn, res, st, ch) →
    ((∃ b, st = .doneErr b) ∨ (∃ b, st = .failed b)) → ∃ r, r <+: q ∧ v.at (i :: r) = some .null
  | .nil, _, _, _, _, _, _, _, _, _, h, _ => by simp [nodeAt] at h
  | .cons nn' g res' st' ch' rest, v, 0, [], nn, res, st, ch, _, hv, h, hst => by
    simp [nodeAt] at h
    obtain ⟨_, _, hs, _⟩ := h
    subst hs
    unfold forestVals at hv
    cases hfr : forestVals rest with
    | none => rw [hfr] at hv; rcases hst with ⟨b, hst⟩ | ⟨b, hst⟩ <;> subst hst <;> simp at hv
    | some vs =>
      rw [hfr] at hv
      rcases hst with ⟨b, hst⟩ | ⟨b, hst⟩ <;> subst hst <;> simp at hv
      subst hv
      exact ⟨[], List.prefix_refl _, by simp [Val.at, Val.get]⟩
  | .cons nn' g res' st' ch' rest, v, 0, j :: p, nn, res, st, ch, ⟨hn, hc, _⟩, hv, h, hst => by
    simp [nodeAt] at h
    unfold forestVals at hv
    split at hv
    · rename_i w vs hvs
      simp at hv; subst hv
      simp only [InvN] at hn
      by_cases hcmp : ∃ l, res' = .comp l
      · obtain ⟨r, hr1, hr2⟩ := errpos_null ch' w j p nn res st ch hc (hn.2.2.1 hcmp) h hst
        exact ⟨j :: r, by simpa using hr1, by simpa [Val.at, Val.get] using hr2⟩
      · have := allIdle_nodeAt ch' (j :: p) nn res st ch (hn.2.2.2 hcmp) h
        rcases hst with ⟨b, hst⟩ | ⟨b, hst⟩ <;> simp [hst] at this
    · rename_i bg vs hvs
      simp at hv; subst hv
      exact ⟨[], List.nil_prefix, by simp [Val.at, Val.get]⟩
    · simp at hv
  | .cons nn' g res' st' ch' rest, v, i + 1, q, nn, res, st, ch, ⟨_, _, hr⟩, hv, h, hst => by
    simp [nodeAt] at h
    unfold forestVals at hv
    cases hfr : forestVals rest with
    | none => rw [hfr] at hv; cases st' <;> simp at hv
    | some vs =>
      rw [hfr] at hv
      obtain ⟨r, hr1, hr2⟩ := errpos_null rest vs i q nn res st ch hr hfr h hst
      cases st' <;> simp at hv <;> subst hv <;>
        exact ⟨r, hr1, by simpa [Val.at, Val.get] using hr2⟩


end Gql.Async
