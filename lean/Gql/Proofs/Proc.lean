import Gql.Async.Proc
/-!
Helper lemmas for C03 (`Gql/Props/C03.lean`): the inductive invariant of `Proc`, its
preservation by every transition, progress, the termination measure.
-/
namespace Gql.Async

/-! ### `shape`: what transitions never change -/

theorem denF_shape : ∀ f : Cfg, denF (shape f) = denF f
  | .nil => rfl
  | .cons nn g res st ch rest => by
    have h1 := denF_shape ch
    have h2 := denF_shape rest
    cases res <;> simp [shape, denF, h1, h2]

theorem innerDen_shape (res : Res) (ch : Cfg) : innerDen res (shape ch) = innerDen res ch := by
  cases res <;> simp [innerDen, denF_shape]

theorem denF_congr {f f' : Cfg} (h : shape f' = shape f) : denF f' = denF f := by
  rw [← denF_shape f', h, denF_shape]

theorem innerDen_congr (res : Res) {c c' : Cfg} (h : shape c' = shape c) :
    innerDen res c' = innerDen res c := by
  rw [← innerDen_shape res c', h, innerDen_shape]

theorem specNulledF_shape : ∀ (f : Cfg) (pfx : Path) (i : Nat),
    specNulledF pfx i (shape f) = specNulledF pfx i f
  | .nil, _, _ => rfl
  | .cons nn g res st ch rest, pfx, i => by
    have h1 := specNulledF_shape ch (pfx ++ [i]) 0
    have h2 := specNulledF_shape rest pfx (i + 1)
    simp only [shape, specNulledF, innerDen_shape, h1, h2]

theorem specNulledF_congr {f f' : Cfg} (h : shape f' = shape f) (pfx : Path) (i : Nat) :
    specNulledF pfx i f' = specNulledF pfx i f := by
  rw [← specNulledF_shape f', h, specNulledF_shape]

theorem shape_cancelF : ∀ f : Cfg, shape (cancelF f) = shape f
  | .nil => rfl
  | .cons nn g res st ch rest => by
    have h1 := shape_cancelF ch
    have h2 := shape_cancelF rest
    unfold cancelF
    split <;> simp [shape, h1, h2]

theorem shape_fireWith (nn : Bool) (res : Res) (ch lch : Cfg) (h : shape lch = shape ch) :
    shape (fireWith nn res ch lch).2 = shape ch := by
  unfold fireWith
  cases res <;> simp
  · split
    · exact h
    · split <;> exact h

theorem shape_launchF : ∀ f : Cfg, shape (launchF f) = shape f
  | .nil => rfl
  | .cons nn g res st ch rest => by
    have h1 := shape_launchF ch
    have h2 := shape_launchF rest
    have h3 := shape_fireWith nn res ch (launchF ch) h1
    unfold launchF
    by_cases hg : g = 0
    · simp only [hg, if_true]
      split <;> simp [shape, h3, h2]
    · simp only [hg, if_false]
      simp [shape, h2]

theorem shape_step {ab : Bool} {f f' : Cfg} {l : Label} (h : Step ab f l f') : shape f' = shape f := by
  induction h with
  | resolve => simp [shape]
  | fire ab nn g res ch rest =>
    simp [shape, shape_fireWith nn res ch (launchF ch) (shape_launchF ch)]
  | complete => simp [shape]
  | fail => simp [shape]
  | cancel => simp [shape, shape_cancelF]
  | child _ _ _ _ _ _ _ _ _ _ _ ih => simp [shape, ih]
  | sibling _ _ _ _ _ _ _ _ _ _ ih => simp [shape, ih]

/-! ### The invariant -/

/-- every member has been started and none was cancelled -/
def liveKids : Cfg → Bool
  | .nil => true
  | .cons _ _ _ st _ rest => (st != .idle && st != .cancelled) && liveKids rest

/-- Node part of the invariant. -/
def InvN (nn : Bool) (res : Res) (st : NodeSt) (ch : Cfg) : Prop :=
  match st with
  | .idle => allIdle ch = true
  | .wait k => k ≠ 0 ∧ allIdle ch = true
  | .ready => allIdle ch = true
  | .run => (∃ l, res = .comp l) ∧ liveKids ch = true
  | .done v => innerDen res ch = some v ∧ (v = .null → nn = false) ∧
      ((∃ l, res = .comp l) → forestVals ch = some v) ∧ ((¬ ∃ l, res = .comp l) → allIdle ch = true)
  | .doneErr => nn = false ∧ innerDen res ch = none
  | .failed => nn = true ∧ denN nn res ch = none
  | .cancelled => True

/-- The inductive invariant: every `done v` node carries its synchronous denotation, every
nulled position (`doneErr`) is a nullable position whose completion fails synchronously too,
every `failed` node is a non-null position whose denotation raises; children of a node that
has not been resumed are untouched; the children of a running node are all alive. -/
def Inv : Cfg → Prop
  | .nil => True
  | .cons nn _ res st ch rest => InvN nn res st ch ∧ Inv ch ∧ Inv rest

theorem allIdle_inv : ∀ f : Cfg, allIdle f = true → Inv f
  | .nil, _ => trivial
  | .cons nn g res st ch rest, h => by
    simp [allIdle] at h
    obtain ⟨⟨h1, h2⟩, h3⟩ := h
    subst h1
    exact ⟨h2, allIdle_inv ch h2, allIdle_inv rest h3⟩

theorem forestVals_ne_null : ∀ (f : Cfg) (v : Val), forestVals f = some v → v ≠ .null
  | .nil, v, h => by simp [forestVals] at h; subst h; simp
  | .cons nn g res st ch rest, v, h => by
    unfold forestVals at h
    split at h <;> simp at h <;> subst h <;> simp

theorem absorb_some_nonnull (nn : Bool) (v : Val) (h : v ≠ .null) : absorb nn (some v) = some v := by
  cases v <;> simp_all [absorb]

theorem denN_of_done {nn : Bool} {res : Res} {ch : Cfg} {v : Val}
    (h1 : innerDen res ch = some v) (h2 : v = .null → nn = false) : denN nn res ch = some v := by
  unfold denN
  rw [h1]
  cases v <;> simp_all [absorb]

/-- L1: completed members carry the synchronous values. -/
theorem forestVals_den : ∀ (f : Cfg) (v : Val), Inv f → forestVals f = some v → denF f = some v
  | .nil, v, _, h => by simpa [forestVals, denF] using h
  | .cons nn g res st ch rest, v, hinv, h => by
    obtain ⟨hn, _, hr⟩ := hinv
    rw [denF_cons]
    unfold forestVals at h
    split at h
    · rename_i w vs hvs
      simp at h; subst h
      have := forestVals_den rest vs hr hvs
      simp only [InvN] at hn
      rw [denN_of_done hn.1 hn.2.1, this]
    · rename_i vs hvs
      simp at h; subst h
      have := forestVals_den rest vs hr hvs
      simp only [InvN] at hn
      simp [denN, hn.1, hn.2, absorb, this]
    · simp at h

/-- L2: a failed member makes the synchronous denotation of the forest raise. -/
theorem hasFailed_den : ∀ (f : Cfg), Inv f → hasFailed f = true → denF f = none
  | .nil, _, h => by simp [hasFailed] at h
  | .cons nn g res st ch rest, hinv, h => by
    obtain ⟨hn, _, hr⟩ := hinv
    rw [denF_cons]
    simp [hasFailed] at h
    rcases h with h | h
    · subst h
      simp only [InvN] at hn
      simp [hn.2]
    · have := hasFailed_den rest hr h
      rw [this]
      split <;> simp_all

/-! ### Launching establishes the invariant -/

/-- the state is that of a started, not cancelled task -/
def NodeSt.live (st : NodeSt) : Bool := st != .idle && st != .cancelled

theorem fire_inv (nn : Bool) (res : Res) (ch : Cfg) (hidle : allIdle ch = true)
    (hl : Inv (launchF ch)) (hk : hasFailed (launchF ch) = false → liveKids (launchF ch) = true) :
    InvN nn res (fireWith nn res ch (launchF ch)).1 (fireWith nn res ch (launchF ch)).2 ∧
      Inv (fireWith nn res ch (launchF ch)).2 ∧ (fireWith nn res ch (launchF ch)).1.live = true := by
  have hch := allIdle_inv ch hidle
  cases res with
  | raise =>
    cases nn <;> simp [fireWith, errSt, InvN, innerDen, denN, absorb, hch, NodeSt.live]
  | null =>
    cases nn <;> simp [fireWith, InvN, innerDen, denN, absorb, hch, hidle, NodeSt.live]
  | leaf n =>
    simp [fireWith, InvN, innerDen, hch, hidle, NodeSt.live]
  | comp l =>
    unfold fireWith
    simp only
    by_cases hf : hasFailed (launchF ch) = true
    · simp only [hf, if_true]
      have hd := hasFailed_den _ hl hf
      cases nn <;> simp [errSt, InvN, innerDen, denN, absorb, hd, hl, NodeSt.live]
    · simp only [hf]
      simp only [Bool.false_eq_true, if_false]
      split
      · rename_i v hv
        have hd := forestVals_den _ v hl hv
        have hne := forestVals_ne_null _ v hv
        refine ⟨?_, hl, by simp [NodeSt.live]⟩
        simp only [InvN, innerDen]
        exact ⟨hd, fun h => absurd h hne, fun _ => hv, fun h => absurd ⟨l, rfl⟩ h⟩
      · refine ⟨?_, hl, by simp [NodeSt.live]⟩
        simp only [InvN]
        exact ⟨⟨l, rfl⟩, hk (by simpa using hf)⟩

theorem launch_inv : ∀ f : Cfg, allIdle f = true →
    Inv (launchF f) ∧ (hasFailed (launchF f) = false → liveKids (launchF f) = true)
  | .nil, _ => by simp [launchF, Inv, liveKids]
  | .cons nn g res st ch rest, h => by
    simp [allIdle] at h
    obtain ⟨⟨_, h2⟩, h3⟩ := h
    have ihc := launch_inv ch h2
    have ihr := launch_inv rest h3
    have hf := fire_inv nn res ch h2 ihc.1 ihc.2
    unfold launchF
    by_cases hg : g = 0
    · simp only [hg, if_true]
      split
      · rename_i hfail
        refine ⟨⟨hf.1, hf.2.1, allIdle_inv rest h3⟩, ?_⟩
        simp [hasFailed, hfail]
      · rename_i hnf
        refine ⟨⟨hf.1, hf.2.1, ihr.1⟩, ?_⟩
        intro hh
        simp [hasFailed] at hh
        have := hf.2.2
        simp [NodeSt.live] at this
        simp [liveKids, this, ihr.2 hh.2]
    · simp only [hg, if_false]
      simp only [reduceCtorEq, if_false]
      refine ⟨⟨⟨hg, h2⟩, allIdle_inv ch h2, ihr.1⟩, ?_⟩
      intro hh
      simp [hasFailed] at hh
      simp [liveKids, ihr.2 hh]

/-! ### Cancellation keeps the invariant -/

theorem cancelF_allIdle : ∀ f : Cfg, allIdle f = true → cancelF f = f
  | .nil, _ => rfl
  | .cons nn g res st ch rest, h => by
    simp [allIdle] at h
    obtain ⟨⟨h1, _⟩, h3⟩ := h
    subst h1
    simp [cancelF, NodeSt.active, cancelF_allIdle rest h3]

theorem inv_cancelF : ∀ f : Cfg, Inv f → Inv (cancelF f)
  | .nil, _ => trivial
  | .cons nn g res st ch rest, h => by
    obtain ⟨hn, hc, hr⟩ := h
    unfold cancelF
    split
    · exact ⟨trivial, inv_cancelF ch hc, inv_cancelF rest hr⟩
    · exact ⟨hn, hc, inv_cancelF rest hr⟩

/-! ### Every transition keeps the invariant -/

/-- no member has been started -/
def topIdle : Cfg → Bool
  | .nil => true
  | .cons _ _ _ st _ rest => st == .idle && topIdle rest

theorem allIdle_topIdle : ∀ f : Cfg, allIdle f = true → topIdle f = true
  | .nil, _ => rfl
  | .cons nn g res st ch rest, h => by
    simp [allIdle] at h
    simp [topIdle, h.1.1, allIdle_topIdle rest h.2]

theorem topIdle_no_step {ab : Bool} {f f' : Cfg} {l : Label} (h : Step ab f l f') : topIdle f = false := by
  induction h with
  | resolve => simp [topIdle]
  | fire => simp [topIdle]
  | complete => simp [topIdle]
  | fail => simp [topIdle]
  | cancel nn g res st ch rest hact => cases st <;> simp [NodeSt.active] at hact <;> simp [topIdle]
  | child ab nn g res st ch rest l ch' hl _ _ => cases st <;> simp [NodeSt.launched] at hl <;> simp [topIdle]
  | sibling ab nn g res st ch rest l rest' _ ih => simp [topIdle, ih]



theorem step_forestVals {ab : Bool} {f f' : Cfg} {l : Label} (h : Step ab f l f') :
    ∀ v, forestVals f = some v → forestVals f' = some v := by
  induction h with
  | resolve => intro v hv; simp [forestVals] at hv
  | fire => intro v hv; simp [forestVals] at hv
  | complete => intro v hv; simp [forestVals] at hv
  | fail => intro v hv; simp [forestVals] at hv
  | cancel nn g res st ch rest hact =>
    intro v hv
    cases st <;> simp [NodeSt.active] at hact <;> simp [forestVals] at hv
  | child ab nn g res st ch rest l ch' hl _ _ =>
    intro v hv
    unfold forestVals at hv ⊢
    exact hv
  | sibling ab nn g res st ch rest l rest' _ ih =>
    intro v hv
    unfold forestVals at hv ⊢
    split at hv
    · rename_i w vs hvs
      simp [ih vs hvs]; simpa using hv
    · rename_i vs hvs
      simp [ih vs hvs]; simpa using hv
    · simp at hv

theorem step_inv {ab : Bool} {f f' : Cfg} {l : Label} (h : Step ab f l f') :
    Inv f → Inv f' ∧ (ab = false → liveKids f = true → liveKids f' = true) := by
  induction h with
  | resolve ab nn g res k ch rest =>
    intro ⟨hn, hc, hr⟩
    simp only [InvN] at hn
    refine ⟨⟨?_, hc, hr⟩, ?_⟩
    · by_cases hk : k = 0 <;> simp [hk, InvN, hn.2]
    · intro _ hl
      by_cases hk : k = 0 <;> simp_all [liveKids]
  | fire ab nn g res ch rest =>
    intro ⟨hn, hc, hr⟩
    simp only [InvN] at hn
    have hl := launch_inv ch hn
    have hf := fire_inv nn res ch hn hl.1 hl.2
    refine ⟨⟨hf.1, hf.2.1, hr⟩, ?_⟩
    intro _ hlk
    have := hf.2.2
    simp [NodeSt.live] at this
    simp_all [liveKids]
  | complete ab nn g res ch rest v hv =>
    intro ⟨hn, hc, hr⟩
    simp only [InvN] at hn
    obtain ⟨⟨lst, hres⟩, _⟩ := hn
    subst hres
    have hd := forestVals_den _ v hc hv
    have hne := forestVals_ne_null _ v hv
    refine ⟨⟨?_, hc, hr⟩, ?_⟩
    · simp only [InvN, innerDen]
      exact ⟨hd, fun h => absurd h hne, fun _ => hv, fun h => absurd ⟨lst, rfl⟩ h⟩
    · intro _ hlk
      simp_all [liveKids]
  | fail ab nn g res ch rest hf =>
    intro ⟨hn, hc, hr⟩
    simp only [InvN] at hn
    obtain ⟨⟨lst, hres⟩, _⟩ := hn
    subst hres
    have hd := hasFailed_den _ hc hf
    refine ⟨⟨?_, hc, hr⟩, ?_⟩
    · cases nn <;> simp [errSt, InvN, innerDen, denN, absorb, hd]
    · intro _ hlk
      cases nn <;> simp_all [liveKids, errSt]
  | cancel nn g res st ch rest hact =>
    intro ⟨hn, hc, hr⟩
    refine ⟨⟨trivial, inv_cancelF ch hc, hr⟩, ?_⟩
    intro h; simp at h
  | child ab nn g res st ch rest l ch' hl hstep ih =>
    intro ⟨hn, hc, hr⟩
    have ih' := ih hc
    have hsh := shape_step hstep
    refine ⟨⟨?_, ih'.1, hr⟩, ?_⟩
    · cases st with
      | idle => simp [NodeSt.launched] at hl
      | wait k => simp [NodeSt.launched] at hl
      | ready => simp [NodeSt.launched] at hl
      | run =>
        simp only [InvN] at hn ⊢
        exact ⟨hn.1, ih'.2 (by simp [NodeSt.abandons]) hn.2⟩
      | done v =>
        simp only [InvN] at hn ⊢
        rw [innerDen_congr res hsh]
        refine ⟨hn.1, hn.2.1, fun hcmp => step_forestVals hstep v (hn.2.2.1 hcmp), fun hnc => ?_⟩
        have := topIdle_no_step hstep
        rw [allIdle_topIdle ch (hn.2.2.2 hnc)] at this
        exact absurd this (by simp)
      | doneErr =>
        simp only [InvN] at hn ⊢
        rw [innerDen_congr res hsh]
        exact hn
      | failed =>
        simp only [InvN, denN] at hn ⊢
        rw [innerDen_congr res hsh]
        exact hn
      | cancelled => trivial
    · intro _ hlk
      simpa [liveKids] using hlk
  | sibling ab nn g res st ch rest l rest' hstep ih =>
    intro ⟨hn, hc, hr⟩
    have ih' := ih hr
    refine ⟨⟨hn, hc, ih'.1⟩, ?_⟩
    intro hab hlk
    simp [liveKids] at hlk ⊢
    exact ⟨hlk.1, ih'.2 hab hlk.2⟩

/-! ### Progress: a configuration without enabled transition has no active live task -/

def topQuiet : Cfg → Bool
  | .nil => true
  | .cons _ _ _ st _ rest => !st.active && topQuiet rest

theorem quiet_settled : ∀ f : Cfg, liveKids f = true → topQuiet f = true →
    hasFailed f = true ∨ ∃ v, forestVals f = some v
  | .nil, _, _ => Or.inr ⟨.nil, rfl⟩
  | .cons nn g res st ch rest, hl, hq => by
    simp [liveKids] at hl
    simp [topQuiet] at hq
    rcases quiet_settled rest hl.2 hq.2 with h | ⟨vs, hvs⟩
    · left; simp [hasFailed, h]
    · cases st with
      | idle => simp at hl
      | cancelled => simp at hl
      | wait k => simp [NodeSt.active] at hq
      | ready => simp [NodeSt.active] at hq
      | run => simp [NodeSt.active] at hq
      | failed => left; simp [hasFailed]
      | done v => right; exact ⟨.cons v vs, by simp [forestVals, hvs]⟩
      | doneErr => right; exact ⟨.cons .null vs, by simp [forestVals, hvs]⟩

theorem stuck_quiet : ∀ (f : Cfg) (ab : Bool), Inv f → (∀ l f', ¬ Step ab f l f') → topQuiet f = true
  | .nil, _, _, _ => rfl
  | .cons nn g res st ch rest, ab, ⟨hn, hc, hr⟩, hstuck => by
    have hrest : topQuiet rest = true :=
      stuck_quiet rest ab hr (fun l r' hs => hstuck _ _ (Step.sibling ab nn g res st ch rest l r' hs))
    cases st with
    | idle => simp [topQuiet, NodeSt.active, hrest]
    | done v => simp [topQuiet, NodeSt.active, hrest]
    | doneErr => simp [topQuiet, NodeSt.active, hrest]
    | failed => simp [topQuiet, NodeSt.active, hrest]
    | cancelled => simp [topQuiet, NodeSt.active, hrest]
    | wait k =>
      simp only [InvN] at hn
      cases k with
      | zero => exact absurd rfl hn.1
      | succ k => exact absurd (Step.resolve ab nn g res k ch rest) (hstuck _ _)
    | ready => exact absurd (Step.fire ab nn g res ch rest) (hstuck _ _)
    | run =>
      simp only [InvN] at hn
      have hq : topQuiet ch = true :=
        stuck_quiet ch false hc (fun l c' hs =>
          hstuck _ _ (Step.child ab nn g res .run ch rest l c' (by simp [NodeSt.launched]) (by simpa [NodeSt.abandons] using hs)))
      rcases quiet_settled ch hn.2 hq with h | ⟨v, hv⟩
      · exact absurd (Step.fail ab nn g res ch rest h) (hstuck _ _)
      · exact absurd (Step.complete ab nn g res ch rest v hv) (hstuck _ _)

/-! ### Termination measure -/

theorem measure_cancelF_le : ∀ f : Cfg, measure (cancelF f) ≤ measure f
  | .nil => Nat.le_refl _
  | .cons nn g res st ch rest => by
    have h1 := measure_cancelF_le ch
    have h2 := measure_cancelF_le rest
    unfold cancelF
    split <;> simp [measure, rank] <;> omega

theorem allIdle_measure_launch : ∀ f : Cfg, allIdle f = true → measure (launchF f) ≤ measure f
  | .nil, _ => Nat.le_refl _
  | .cons nn g res st ch rest, h => by
    simp [allIdle] at h
    obtain ⟨⟨h1, h2⟩, h3⟩ := h
    subst h1
    have ihc := allIdle_measure_launch ch h2
    have ihr := allIdle_measure_launch rest h3
    have hfw : rank g (fireWith nn res ch (launchF ch)).1 + measure (fireWith nn res ch (launchF ch)).2
        ≤ 2 + measure ch := by
      unfold fireWith
      cases res <;> simp [errSt]
      · cases nn <;> simp [rank]
      · cases nn <;> simp [rank]
      · simp [rank]
      · split
        · cases nn <;> simp [rank] <;> omega
        · split <;> simp [rank] <;> omega
    have hi : rank g .idle = g + 4 := rfl
    have hw : rank g (.wait g) = g + 3 := rfl
    unfold launchF
    by_cases hg : g = 0
    · simp only [hg, if_true]
      subst hg
      split <;> simp only [measure] <;> omega
    · simp only [hg, if_false]
      simp only [reduceCtorEq, if_false, measure]
      omega

theorem fire_measure (nn : Bool) (g : Nat) (res : Res) (ch : Cfg) (h : allIdle ch = true) :
    rank g (fireWith nn res ch (launchF ch)).1 + measure (fireWith nn res ch (launchF ch)).2
      ≤ 2 + measure ch := by
  have ihc := allIdle_measure_launch ch h
  unfold fireWith
  cases res <;> simp [errSt]
  · cases nn <;> simp [rank]
  · cases nn <;> simp [rank]
  · simp [rank]
  · split
    · cases nn <;> simp [rank] <;> omega
    · split <;> simp [rank] <;> omega

theorem step_measure {ab : Bool} {f f' : Cfg} {l : Label} (h : Step ab f l f') :
    Inv f → measure f' < measure f := by
  induction h with
  | resolve ab nn g res k ch rest =>
    intro _
    by_cases hk : k = 0 <;> simp [hk, measure, rank]
  | fire ab nn g res ch rest =>
    intro ⟨hn, _, _⟩
    simp only [InvN] at hn
    have := fire_measure nn g res ch hn
    have hr : rank g .ready = 3 := rfl
    simp only [measure]
    omega
  | complete => intro _; simp [measure, rank]
  | fail ab nn g res ch rest hf => intro _; cases nn <;> simp [measure, rank, errSt]
  | cancel nn g res st ch rest hact =>
    intro _
    have := measure_cancelF_le ch
    cases st <;> simp [NodeSt.active] at hact <;> simp [measure, rank] <;> omega
  | child ab nn g res st ch rest l ch' hl hstep ih =>
    intro ⟨_, hc, _⟩
    have := ih hc
    simp only [measure]; omega
  | sibling ab nn g res st ch rest l rest' hstep ih =>
    intro ⟨_, _, hr⟩
    have := ih hr
    simp only [measure]; omega

/-! ### Nulled positions of a completed forest are the predicted ones -/

theorem nulled_eq_spec : ∀ (f : Cfg) (pfx : Path) (i : Nat) (v : Val), Inv f → forestVals f = some v →
    nulledF pfx i f = specNulledF pfx i f
  | .nil, _, _, _, _, _ => rfl
  | .cons nn g res st ch rest, pfx, i, v, ⟨hn, hc, hr⟩, hv => by
    unfold forestVals at hv
    split at hv
    · rename_i w vs hvs
      have ihr := nulled_eq_spec rest pfx (i + 1) vs hr hvs
      simp only [InvN] at hn
      unfold nulledF specNulledF
      rw [ihr, hn.1]
      cases res with
      | comp lst =>
        have hfv := hn.2.2.1 ⟨lst, rfl⟩
        have ihc := nulled_eq_spec ch (pfx ++ [i]) 0 w hc hfv
        simp [hfv, ihc]
      | raise => simp
      | null => simp
      | leaf n => simp
    · rename_i vs hvs
      have ihr := nulled_eq_spec rest pfx (i + 1) vs hr hvs
      simp only [InvN] at hn
      unfold nulledF specNulledF
      rw [ihr, hn.2, hn.1]
      simp
    · simp at hv

/-! ### Runs -/

theorem run_inv {c c' : Cfg} {ls : List Label} (h : Run (Step false) c ls c') :
    Inv c → liveKids c = true → Inv c' ∧ liveKids c' = true ∧ shape c' = shape c := by
  induction h with
  | refl c => intro h1 h2; exact ⟨h1, h2, rfl⟩
  | step c l c1 ls c2 hs _ ih =>
    intro h1 h2
    have := step_inv hs h1
    have ih' := ih this.1 (this.2 rfl h2)
    exact ⟨ih'.1, ih'.2.1, by rw [ih'.2.2, shape_step hs]⟩

theorem run_measure {c c' : Cfg} {ls : List Label} (h : Run (Step false) c ls c') :
    Inv c → liveKids c = true → ls.length + measure c' ≤ measure c := by
  induction h with
  | refl c => intro _ _; simp
  | step c l c1 ls c2 hs _ ih =>
    intro h1 h2
    have hi := step_inv hs h1
    have := ih hi.1 (hi.2 rfl h2)
    have := step_measure hs h1
    simp only [List.length_cons]; omega

theorem shape_eq_nil {f : Cfg} (h : shape f = .nil) : f = .nil := by
  cases f <;> simp [shape] at h ⊢

theorem initQuery_inv (F : Cfg) (h : allIdle F = true) : Inv (initQuery F) ∧ liveKids (initQuery F) = true :=
  ⟨⟨h, allIdle_inv F h, trivial⟩, by simp [initQuery, liveKids]⟩

/-- Shape of every configuration reachable from a query: the root wrapper with some state. -/
theorem run_root {F c : Cfg} {ls : List Label} (hF : allIdle F = true)
    (h : Run (Step false) (initQuery F) ls c) :
    ∃ g st F', c = .cons false g (.comp false) st F' .nil ∧ shape F' = shape F ∧ st.live = true ∧ Inv c := by
  have hi := initQuery_inv F hF
  obtain ⟨h1, h2, h3⟩ := run_inv h hi.1 hi.2
  cases c with
  | nil => simp [initQuery, shape] at h3
  | cons nn g res st ch rest =>
    simp [initQuery, shape] at h3
    obtain ⟨hnn, hres, hch, hrest⟩ := h3
    subst hnn hres
    have := shape_eq_nil hrest
    subst this
    simp [liveKids] at h2
    exact ⟨g, st, ch, rfl, hch, by simp [NodeSt.live, h2], h1⟩

/-- Main lemma: a configuration reachable from a query in which no transition is enabled has
completed the root with the synchronous `data`, and its nulled positions are the predicted ones. -/
theorem final_root {F c : Cfg} {ls : List Label} (hF : allIdle F = true)
    (h : Run (Step false) (initQuery F) ls c) (hfin : Final (Step false) c) :
    rootData c = some (dataOf F) ∧ nulledF [] 0 c = specNulledF [] 0 (initQuery F) := by
  obtain ⟨g, st, F', hc, hsh, hlive, hinv⟩ := run_root hF h
  subst hc
  have hq := stuck_quiet _ false hinv hfin
  obtain ⟨hn, hc', _⟩ := hinv
  have hspec : specNulledF [] 0 (Cfg.cons false g (.comp false) st F' .nil) = specNulledF [] 0 (initQuery F) :=
    specNulledF_congr (by simp [initQuery, shape, hsh]) [] 0
  cases st with
  | idle => simp [NodeSt.live] at hlive
  | cancelled => simp [NodeSt.live] at hlive
  | wait k => simp [topQuiet, NodeSt.active] at hq
  | ready => simp [topQuiet, NodeSt.active] at hq
  | run => simp [topQuiet, NodeSt.active] at hq
  | failed => simp [InvN] at hn
  | done v =>
    simp only [InvN, innerDen] at hn
    have hd : denF F = some v := by rw [← denF_congr hsh]; exact hn.1
    refine ⟨by simp [rootData, dataOf, hd], ?_⟩
    rw [← hspec]
    exact nulled_eq_spec _ [] 0 (.cons v .nil) ⟨by simpa [InvN, innerDen] using hn, hc', trivial⟩ (by simp [forestVals])
  | doneErr =>
    simp only [InvN, innerDen] at hn
    have hd : denF F = none := by rw [← denF_congr hsh]; exact hn.2
    refine ⟨by simp [rootData, dataOf, hd], ?_⟩
    rw [← hspec]
    exact nulled_eq_spec _ [] 0 (.cons .null .nil) ⟨by simpa [InvN, innerDen] using hn, hc', trivial⟩ (by simp [forestVals])

theorem shape_syncOf : ∀ f : Cfg, shape (syncOf f) = shape f
  | .nil => rfl
  | .cons nn g res st ch rest => by simp [syncOf, shape, shape_syncOf ch, shape_syncOf rest]

theorem allIdle_syncOf : ∀ f : Cfg, allIdle f = true → allIdle (syncOf f) = true
  | .nil, _ => rfl
  | .cons nn g res st ch rest, h => by
    simp [allIdle] at h
    simp [syncOf, allIdle, h.1.1, allIdle_syncOf ch h.1.2, allIdle_syncOf rest h.2]

/-! ### Static facts about the synchronous denotation -/

theorem denF_ne_null : ∀ (f : Cfg) (v : Val), denF f = some v → v ≠ .null
  | .nil, v, h => by simp [denF] at h; subst h; simp
  | .cons nn g res st ch rest, v, h => by
    rw [denF_cons] at h
    split at h <;> simp at h
    subst h; simp

theorem den_none_iff : ∀ f : Cfg, denF f = none ↔ reachesParent f = true
  | .nil => by simp [denF, reachesParent]
  | .cons nn g res st ch rest => by
    have ihc := den_none_iff ch
    have ihr := den_none_iff rest
    rw [denF_cons]
    unfold reachesParent
    cases hres : res with
    | raise =>
      cases nn <;> simp [denN, innerDen, absorb]
      · cases h : denF rest <;> simp_all
    | null =>
      cases nn <;> simp [denN, innerDen, absorb]
      · cases h : denF rest <;> simp_all
    | leaf n =>
      simp [denN, innerDen, absorb]
      cases h : denF rest <;> simp_all
    | comp l =>
      cases hd : denF ch with
      | none =>
        have : reachesParent ch = true := ihc.mp hd
        cases nn <;> simp [denN, innerDen, absorb, hd, this]
        · cases h : denF rest <;> simp_all
      | some v =>
        have : reachesParent ch = false := by
          cases hh : reachesParent ch
          · rfl
          · have := ihc.mpr hh; simp [hd] at this
        have hvn := denF_ne_null ch v hd
        cases v <;> cases nn <;> simp [denN, innerDen, absorb, hd, this] <;>
          (cases h : denF rest <;> simp_all)

theorem den_wf : ∀ (f : Cfg) (v : Val), denF f = some v → wfVals f v
  | .nil, v, h => by simp [denF] at h; subst h; trivial
  | .cons nn g res st ch rest, v, h => by
    rw [denF_cons] at h
    split at h
    · rename_i w vs hw hvs
      simp at h; subst h
      refine ⟨?_, ?_, den_wf rest vs hvs⟩
      · intro hnull; subst hnull
        unfold denN at hw
        cases nn
        · rfl
        · cases hi : innerDen res ch with
          | none => simp [hi, absorb] at hw
          | some x => cases x <;> simp [hi, absorb] at hw
      · intro l hres hne
        subst hres
        unfold denN at hw
        simp only [innerDen] at hw
        cases hd : denF ch with
        | none => cases nn <;> simp [hd, absorb] at hw; exact absurd hw.symm hne
        | some x =>
          have hxn := denF_ne_null ch x hd
          rw [hd, absorb_some_nonnull nn x hxn] at hw
          simp at hw; subst hw
          exact den_wf ch x hd
    · simp at h

/-! ### Serial root -/

/-- Completed members, then at most one member that is in progress or has failed, then members
that have not been started; no member is ever cancelled. -/
def serialOK : Cfg → Bool
  | .nil => true
  | .cons _ _ _ st _ rest =>
    match st with
    | .done _ => serialOK rest
    | .doneErr => serialOK rest
    | .cancelled => false
    | _ => topIdle rest

theorem topIdle_serialOK : ∀ f : Cfg, topIdle f = true → serialOK f = true
  | .nil, _ => rfl
  | .cons nn g res st ch rest, h => by
    simp [topIdle] at h
    obtain ⟨h1, h2⟩ := h
    subst h1
    simp [serialOK, h2]

theorem step_no_start {ab : Bool} {f f' : Cfg} {l : Label} (h : Step ab f l f') : ∀ p, l ≠ .start p := by
  induction h with
  | resolve => intro p; simp
  | fire => intro p; simp
  | complete => intro p; simp
  | fail => intro p; simp
  | cancel => intro p; simp
  | child ab nn g res st ch rest l ch' hl _ ih =>
    intro p; cases l <;> simp [Label.down, Label.mapPath] <;> exact fun h => absurd rfl (ih _)
  | sibling ab nn g res st ch rest l rest' _ ih =>
    intro p; cases l <;> simp [Label.next, Label.mapPath] <;> exact fun h => absurd rfl (ih _)

theorem fireWith_live (nn : Bool) (res : Res) (ch lch : Cfg) :
    (fireWith nn res ch lch).1 ≠ .cancelled ∧ (fireWith nn res ch lch).1 ≠ .idle := by
  unfold fireWith
  cases res <;> cases nn <;> simp [errSt]
  all_goals
    split
    · simp
    · split <;> simp

theorem step_serialOK {ab : Bool} {f f' : Cfg} {l : Label} (h : Step ab f l f') :
    ab = false → serialOK f = true → serialOK f' = true := by
  induction h with
  | resolve ab nn g res k ch rest =>
    intro _ hs
    by_cases hk : k = 0 <;> simpa [hk, serialOK] using hs
  | fire ab nn g res ch rest =>
    intro _ hs
    simp only [serialOK] at hs
    have hi := topIdle_serialOK rest hs
    have hne := (fireWith_live nn res ch (launchF ch)).1
    generalize (fireWith nn res ch (launchF ch)) = r at hne ⊢
    obtain ⟨r1, r2⟩ := r
    cases r1 <;> simp [serialOK, hs, hi] at hne ⊢
  | complete ab nn g res ch rest v hv =>
    intro _ hs
    simp only [serialOK] at hs ⊢
    exact topIdle_serialOK rest hs
  | fail ab nn g res ch rest hf =>
    intro _ hs
    simp only [serialOK] at hs
    cases nn <;> simp [errSt, serialOK, hs, topIdle_serialOK rest hs]
  | cancel => intro h; simp at h
  | child ab nn g res st ch rest l ch' hl _ _ => intro _ hs; simpa [serialOK] using hs
  | sibling ab nn g res st ch rest l rest' hstep ih =>
    intro hab hs
    have hni := topIdle_no_step hstep
    cases st <;> simp [serialOK] at hs ⊢ <;> first | exact ih hab hs | simp [hni] at hs

theorem shape_startNext : ∀ f : Cfg, shape (startNext f) = shape f
  | .nil => rfl
  | .cons nn g res st ch rest => by
    have h3 := shape_fireWith nn res ch (launchF ch) (shape_launchF ch)
    have ih := shape_startNext rest
    unfold startNext
    cases st <;> simp [shape, ih]
    by_cases hg : g = 0 <;> simp [hg, h3]

theorem startNext_inv : ∀ f : Cfg, Inv f → Inv (startNext f)
  | .nil, _ => trivial
  | .cons nn g res st ch rest, ⟨hn, hc, hr⟩ => by
    have ih := startNext_inv rest hr
    unfold startNext
    cases st with
    | idle =>
      simp only [InvN] at hn
      by_cases hg : g = 0
      · simp only [hg, if_true]
        have hl := launch_inv ch hn
        have hf := fire_inv nn res ch hn hl.1 hl.2
        exact ⟨hf.1, hf.2.1, hr⟩
      · simp only [hg, if_false]
        exact ⟨⟨hg, hn⟩, hc, hr⟩
    | wait k => exact ⟨hn, hc, ih⟩
    | ready => exact ⟨hn, hc, ih⟩
    | run => exact ⟨hn, hc, ih⟩
    | done v => exact ⟨hn, hc, ih⟩
    | doneErr => exact ⟨hn, hc, ih⟩
    | failed => exact ⟨hn, hc, ih⟩
    | cancelled => exact ⟨hn, hc, ih⟩

theorem startNext_serialOK : ∀ f : Cfg, serialOK f = true → prefixDone f = true →
    serialOK (startNext f) = true
  | .nil, _, _ => rfl
  | .cons nn g res st ch rest, hs, hp => by
    unfold startNext
    cases st with
    | idle =>
      simp only [serialOK] at hs
      have hi := topIdle_serialOK rest hs
      by_cases hg : g = 0
      · simp only [hg, if_true]
        have hne := (fireWith_live nn res ch (launchF ch)).1
        generalize (fireWith nn res ch (launchF ch)) = r at hne ⊢
        obtain ⟨r1, r2⟩ := r
        cases r1 <;> simp [serialOK, hs, hi] at hne ⊢
      · simp [hg, serialOK, hs]
    | done v => simp only [serialOK, prefixDone] at hs hp ⊢; exact startNext_serialOK rest hs hp
    | doneErr => simp only [serialOK, prefixDone] at hs hp ⊢; exact startNext_serialOK rest hs hp
    | wait k => simp [prefixDone] at hp
    | ready => simp [prefixDone] at hp
    | run => simp [prefixDone] at hp
    | failed => simp [prefixDone] at hp
    | cancelled => simp [prefixDone] at hp

/-- invariant of a serial root -/
def SInv (f : Cfg) : Prop := Inv f ∧ serialOK f = true

theorem sstep_inv {f f' : Cfg} {l : Label} (h : SStep f l f') : SInv f → SInv f' ∧ shape f' = shape f := by
  intro ⟨h1, h2⟩
  match h with
  | .inner _ _ _ hs => exact ⟨⟨(step_inv hs h1).1, step_serialOK hs rfl h2⟩, shape_step hs⟩
  | .start _ hp _ => exact ⟨⟨startNext_inv f h1, startNext_serialOK f h2 hp⟩, shape_startNext f⟩

theorem srun_inv {c c' : Cfg} {ls : List Label} (h : Run SStep c ls c') :
    SInv c → SInv c' ∧ shape c' = shape c := by
  induction h with
  | refl c => intro h; exact ⟨h, rfl⟩
  | step c l c1 ls c2 hs _ ih =>
    intro h
    have h1 := sstep_inv hs h
    have h2 := ih h1.1
    exact ⟨h2.1, by rw [h2.2, h1.2]⟩

theorem serial_final_aux : ∀ f : Cfg, Inv f → serialOK f = true → topQuiet f = true →
    (hasIdle f = true → prefixDone f = false) →
    (∃ v, forestVals f = some v ∧ denF f = some v) ∨ (forestVals f = none ∧ denF f = none)
  | .nil, _, _, _, _ => Or.inl ⟨.nil, rfl, rfl⟩
  | .cons nn g res st ch rest, ⟨hn, hc, hr⟩, hs, hq, hidle => by
    rw [denF_cons]
    cases st with
    | idle => simp [hasIdle, prefixDone] at hidle
    | wait k => simp [topQuiet, NodeSt.active] at hq
    | ready => simp [topQuiet, NodeSt.active] at hq
    | run => simp [topQuiet, NodeSt.active] at hq
    | cancelled => simp [serialOK] at hs
    | failed =>
      simp only [InvN] at hn
      right
      simp [forestVals, hn.2]
    | done w =>
      simp only [InvN] at hn
      simp only [serialOK] at hs
      simp [topQuiet] at hq
      have hd := denN_of_done hn.1 hn.2.1
      rcases serial_final_aux rest hr hs hq.2 (by simpa [hasIdle, prefixDone] using hidle) with ⟨vs, h1, h2⟩ | ⟨h1, h2⟩
      · left; exact ⟨.cons w vs, by simp [forestVals, h1], by simp [hd, h2]⟩
      · right; simp [forestVals, h1, hd, h2]
    | doneErr =>
      simp only [InvN] at hn
      simp only [serialOK] at hs
      simp [topQuiet] at hq
      have hd : denN nn res ch = some .null := by simp [denN, hn.1, hn.2, absorb]
      rcases serial_final_aux rest hr hs hq.2 (by simpa [hasIdle, prefixDone] using hidle) with ⟨vs, h1, h2⟩ | ⟨h1, h2⟩
      · left; exact ⟨.cons .null vs, by simp [forestVals, h1], by simp [hd, h2]⟩
      · right; simp [forestVals, h1, hd, h2]

/-- A serial root in which nothing is enabled has produced the synchronous `data`. -/
theorem serial_final {F c : Cfg} {ls : List Label} (hF : allIdle F = true)
    (h : Run SStep F ls c) (hfin : Final SStep c) : dataCfg c = dataOf F := by
  have h0 : SInv F := ⟨allIdle_inv F hF, topIdle_serialOK F (allIdle_topIdle F hF)⟩
  obtain ⟨⟨hi, hs⟩, hsh⟩ := srun_inv h h0
  have hq := stuck_quiet c false hi (fun l c' hst => hfin l c' (SStep.inner c l c' hst))
  have hidle : hasIdle c = true → prefixDone c = false := by
    intro h1
    cases hp : prefixDone c
    · rfl
    · exact absurd (SStep.start c hp h1) (hfin _ _)
  have hd : denF c = denF F := denF_congr hsh
  rcases serial_final_aux c hi hs hq hidle with ⟨v, h1, h2⟩ | ⟨h1, h2⟩
  · simp [dataCfg, dataOf, h1, ← hd, h2]
  · simp [dataCfg, dataOf, h1, ← hd, h2]

/-- members of a serial root before position `j` have all completed -/
def completedBefore : Nat → Cfg → Bool
  | 0, _ => true
  | _ + 1, .nil => true
  | j + 1, .cons _ _ _ st _ rest =>
    (match st with | .done _ => true | .doneErr => true | _ => false) && completedBefore j rest

theorem prefixDone_completedBefore : ∀ f : Cfg, prefixDone f = true → completedBefore (firstIdle f) f = true
  | .nil, _ => by simp [firstIdle, completedBefore]
  | .cons nn g res st ch rest, h => by
    cases st <;> simp [prefixDone] at h <;> simp [firstIdle, completedBefore]
    · exact prefixDone_completedBefore rest h
    · exact prefixDone_completedBefore rest h

/-- no task is active in the live (not abandoned) part of a forest -/
def liveQuiet : Cfg → Bool
  | .nil => true
  | .cons _ _ res st ch rest =>
    !st.active && (match st, res with | .done _, .comp _ => liveQuiet ch | _, _ => true) && liveQuiet rest

theorem completed_liveQuiet : ∀ (f : Cfg) (v : Val), Inv f → forestVals f = some v → liveQuiet f = true
  | .nil, _, _, _ => rfl
  | .cons nn g res st ch rest, v, ⟨hn, hc, hr⟩, hv => by
    unfold forestVals at hv
    split at hv
    · rename_i w vs hvs
      have ih := completed_liveQuiet rest vs hr hvs
      simp only [InvN] at hn
      cases res with
      | comp l =>
        have := completed_liveQuiet ch w hc (hn.2.2.1 ⟨l, rfl⟩)
        simp [liveQuiet, NodeSt.active, this, ih]
      | raise => simp [innerDen] at hn
      | null => simp [liveQuiet, NodeSt.active, ih]
      | leaf n => simp [liveQuiet, NodeSt.active, ih]
    · rename_i vs hvs
      have ih := completed_liveQuiet rest vs hr hvs
      simp [liveQuiet, NodeSt.active, ih]
    · simp at hv

/-! ### Reading the invariant at a position -/

theorem inv_nodeAt : ∀ (c : Cfg) (p : Path) (nn : Bool) (res : Res) (st : NodeSt) (ch : Cfg),
    Inv c → nodeAt c p = some (nn, res, st, ch) → InvN nn res st ch ∧ Inv ch
  | .nil, _, _, _, _, _, _, h => by simp [nodeAt] at h
  | .cons _ _ _ _ _ _, [], _, _, _, _, _, h => by simp [nodeAt] at h
  | .cons nn' g res' st' ch' rest, [0], nn, res, st, ch, ⟨hn, hc, _⟩, h => by
    simp [nodeAt] at h
    obtain ⟨rfl, rfl, rfl, rfl⟩ := h
    exact ⟨hn, hc⟩
  | .cons nn' g res' st' ch' rest, 0 :: j :: p, nn, res, st, ch, ⟨_, hc, _⟩, h => by
    simp [nodeAt] at h
    exact inv_nodeAt ch' (j :: p) nn res st ch hc h
  | .cons nn' g res' st' ch' rest, (i + 1) :: p, nn, res, st, ch, ⟨_, _, hr⟩, h => by
    simp [nodeAt] at h
    exact inv_nodeAt rest (i :: p) nn res st ch hr h

theorem allIdle_not_cancelled : ∀ f : Cfg, allIdle f = true → hasCancelled f = false
  | .nil, _ => rfl
  | .cons nn g res st ch rest, h => by
    simp [allIdle] at h
    simp [hasCancelled, h.1.1, allIdle_not_cancelled rest h.2]

theorem liveKids_not_cancelled : ∀ f : Cfg, liveKids f = true → hasCancelled f = false
  | .nil, _ => rfl
  | .cons nn g res st ch rest, h => by
    simp [liveKids] at h
    simp [hasCancelled, h.1.2, liveKids_not_cancelled rest h.2]

theorem forestVals_not_cancelled : ∀ (f : Cfg) (v : Val), forestVals f = some v → hasCancelled f = false
  | .nil, _, _ => rfl
  | .cons nn g res st ch rest, v, h => by
    unfold forestVals at h
    split at h
    · rename_i w vs hvs; simp [hasCancelled, forestVals_not_cancelled rest vs hvs]
    · rename_i vs hvs; simp [hasCancelled, forestVals_not_cancelled rest vs hvs]
    · simp at h

/-- A cancelled task is a child of a position that handled or raised an error, or of a
cancelled task. -/
theorem cancelled_parent (nn : Bool) (res : Res) (st : NodeSt) (ch : Cfg) (h : InvN nn res st ch)
    (hc : hasCancelled ch = true) : st = .doneErr ∨ st = .failed ∨ st = .cancelled := by
  cases st with
  | idle => simp only [InvN] at h; simp [allIdle_not_cancelled ch h] at hc
  | wait k => simp only [InvN] at h; simp [allIdle_not_cancelled ch h.2] at hc
  | ready => simp only [InvN] at h; simp [allIdle_not_cancelled ch h] at hc
  | run => simp only [InvN] at h; simp [liveKids_not_cancelled ch h.2] at hc
  | done v =>
    simp only [InvN] at h
    by_cases hcmp : ∃ l, res = .comp l
    · simp [forestVals_not_cancelled ch v (h.2.2.1 hcmp)] at hc
    · simp [allIdle_not_cancelled ch (h.2.2.2 hcmp)] at hc
  | doneErr => simp
  | failed => simp
  | cancelled => simp

/-! ### Nulled positions hold `null` in `data` -/

theorem nulled_is_null : ∀ (f : Cfg) (pfx : Path) (i : Nat) (v : Val), denF f = some v →
    ∀ p ∈ specNulledF pfx i f, ∃ k q, p = pfx ++ (i + k) :: q ∧ v.at (k :: q) = some .null
  | .nil, _, _, _, _ => by intro p hp; simp [specNulledF] at hp
  | .cons nn g res st ch rest, pfx, i, v, hv => by
    intro p hp
    rw [denF_cons] at hv
    split at hv
    · rename_i w vs hw hvs
      simp at hv; subst hv
      unfold specNulledF at hp
      rw [List.mem_append] at hp
      rcases hp with hp | hp
      · cases hi : innerDen res ch with
        | none =>
          rw [hi] at hp
          cases nn
          · simp at hp
            subst hp
            have : w = .null := by simpa [denN, hi, absorb] using hw.symm
            subst this
            exact ⟨0, [], by simp, by simp [Val.at, Val.get]⟩
          · simp at hp
        | some x =>
          rw [hi] at hp
          cases res with
          | comp l =>
            simp only at hp
            simp only [innerDen] at hi
            have hxn := denF_ne_null ch x hi
            have hwx : w = x := by
              have := hw
              simp only [denN, innerDen, hi, absorb_some_nonnull nn x hxn] at this
              simpa using this.symm
            subst hwx
            obtain ⟨k', q', hp1, hp2⟩ := nulled_is_null ch (pfx ++ [i]) 0 w hi p hp
            refine ⟨0, k' :: q', by simp [hp1], ?_⟩
            simpa [Val.at, Val.get] using hp2
          | raise => simp at hp
          | null => simp at hp
          | leaf n => simp at hp
      · obtain ⟨k', q', hp1, hp2⟩ := nulled_is_null rest pfx (i + 1) vs hvs p hp
        refine ⟨k' + 1, q', by simp [hp1]; omega, ?_⟩
        simpa [Val.at, Val.get] using hp2
    · simp at hv

/-! ### Serial root: termination -/

theorem startNext_measure : ∀ f : Cfg, Inv f → hasIdle f = true → measure (startNext f) < measure f
  | .nil, _, h => by simp [hasIdle] at h
  | .cons nn g res st ch rest, ⟨hn, _, hr⟩, h => by
    unfold startNext
    cases st with
    | idle =>
      simp only [InvN] at hn
      have hi : rank g .idle = g + 4 := rfl
      by_cases hg : g = 0
      · simp only [hg, if_true]
        have := fire_measure nn 0 res ch hn
        subst hg
        simp only [measure]; omega
      · simp only [hg, if_false]
        have hw : rank g (.wait g) = g + 3 := rfl
        simp only [measure]; omega
    | wait k => simp [hasIdle] at h; have := startNext_measure rest hr h; simp only [measure]; omega
    | ready => simp [hasIdle] at h; have := startNext_measure rest hr h; simp only [measure]; omega
    | run => simp [hasIdle] at h; have := startNext_measure rest hr h; simp only [measure]; omega
    | done v => simp [hasIdle] at h; have := startNext_measure rest hr h; simp only [measure]; omega
    | doneErr => simp [hasIdle] at h; have := startNext_measure rest hr h; simp only [measure]; omega
    | failed => simp [hasIdle] at h; have := startNext_measure rest hr h; simp only [measure]; omega
    | cancelled => simp [hasIdle] at h; have := startNext_measure rest hr h; simp only [measure]; omega

theorem srun_measure {c c' : Cfg} {ls : List Label} (h : Run SStep c ls c') :
    SInv c → ls.length + measure c' ≤ measure c := by
  induction h with
  | refl c => intro _; simp
  | step c l c1 ls c2 hs _ ih =>
    intro h
    have h1 := sstep_inv hs h
    have := ih h1.1
    have hm : measure c1 < measure c := by
      match hs with
      | .inner _ _ _ hst => exact step_measure hst h.1
      | .start _ _ hi => exact startNext_measure c h.1 hi
    simp only [List.length_cons]; omega

/-! ### Every error position lies at or below a null of the completed forest -/

theorem allIdle_nodeAt : ∀ (f : Cfg) (p : Path) (nn : Bool) (res : Res) (st : NodeSt) (ch : Cfg),
    allIdle f = true → nodeAt f p = some (nn, res, st, ch) → st = .idle
  | .nil, _, _, _, _, _, _, h => by simp [nodeAt] at h
  | .cons _ _ _ _ _ _, [], _, _, _, _, _, h => by simp [nodeAt] at h
  | .cons nn' g res' st' ch' rest, [0], nn, res, st, ch, hi, h => by
    simp [allIdle] at hi
    simp [nodeAt] at h
    rw [← h.2.2.1]; exact hi.1.1
  | .cons nn' g res' st' ch' rest, 0 :: j :: p, nn, res, st, ch, hi, h => by
    simp [allIdle] at hi
    simp [nodeAt] at h
    exact allIdle_nodeAt ch' (j :: p) nn res st ch hi.1.2 h
  | .cons nn' g res' st' ch' rest, (i + 1) :: p, nn, res, st, ch, hi, h => by
    simp [allIdle] at hi
    simp [nodeAt] at h
    exact allIdle_nodeAt rest (i :: p) nn res st ch hi.2 h

theorem errpos_null : ∀ (f : Cfg) (v : Val) (i : Nat) (q : Path) (nn : Bool) (res : Res) (st : NodeSt)
    (ch : Cfg), Inv f → forestVals f = some v → nodeAt f (i :: q) = some (nn, res, st, ch) →
    (st = .doneErr ∨ st = .failed) → ∃ r, r <+: q ∧ v.at (i :: r) = some .null
  | .nil, _, _, _, _, _, _, _, _, _, h, _ => by simp [nodeAt] at h
  | .cons nn' g res' st' ch' rest, v, 0, [], nn, res, st, ch, _, hv, h, hst => by
    simp [nodeAt] at h
    obtain ⟨_, _, hs, _⟩ := h
    subst hs
    unfold forestVals at hv
    cases hfr : forestVals rest with
    | none => rw [hfr] at hv; rcases hst with hst | hst <;> subst hst <;> simp at hv
    | some vs =>
      rw [hfr] at hv
      rcases hst with hst | hst <;> subst hst <;> simp at hv
      subst hv
      exact ⟨[], List.prefix_refl _, by simp [Val.at, Val.get]⟩
  | .cons nn' g res' st' ch' rest, v, 0, j :: p, nn, res, st, ch, ⟨hn, hc, _⟩, hv, h, hst => by
    simp [nodeAt] at h
    unfold forestVals at hv
    split at hv
    · rename_i w vs hvs
      simp at hv; subst hv
      simp only [InvN] at hn
      by_cases hcmp : ∃ l, res' = .comp l
      · obtain ⟨r, hr1, hr2⟩ := errpos_null ch' w j p nn res st ch hc (hn.2.2.1 hcmp) h hst
        exact ⟨j :: r, by simpa using hr1, by simpa [Val.at, Val.get] using hr2⟩
      · have := allIdle_nodeAt ch' (j :: p) nn res st ch (hn.2.2.2 hcmp) h
        rcases hst with hst | hst <;> simp [hst] at this
    · rename_i vs hvs
      simp at hv; subst hv
      exact ⟨[], List.nil_prefix, by simp [Val.at, Val.get]⟩
    · simp at hv
  | .cons nn' g res' st' ch' rest, v, i + 1, q, nn, res, st, ch, ⟨_, _, hr⟩, hv, h, hst => by
    simp [nodeAt] at h
    unfold forestVals at hv
    cases hfr : forestVals rest with
    | none => rw [hfr] at hv; cases st' <;> simp at hv
    | some vs =>
      rw [hfr] at hv
      obtain ⟨r, hr1, hr2⟩ := errpos_null rest vs i q nn res st ch hr hfr h hst
      cases st' <;> simp at hv <;> subst hv <;>
        exact ⟨r, hr1, by simpa [Val.at, Val.get] using hr2⟩

end Gql.Async
