import Gql.Proofs.SpecKeep
/-!
C11-5: inside a `ParallelVisitor` of non-editing visitors every member ends in the state it
reaches alone (hence sees the same call sequence), whatever the other members skip or break.
-/
namespace Gql.Syntax
open Gql Gql.Syntax.Spec

variable {σ : Type}

/-! ### identities below a node -/

theorem lookup_serials (fs : List (String × Child)) (k : String) (c : Child)
    (h : fs.lookup k = some c) : ∀ x ∈ c.serials, x ∈ serialsFields fs := by
  induction fs with
  | nil => simp at h
  | cons hd tl ih =>
    obtain ⟨k', c'⟩ := hd
    simp only [List.lookup] at h
    simp only [serialsFields, List.mem_append]
    split at h
    · simp at h; subst h; intro x hx; exact Or.inl hx
    · intro x hx; exact Or.inr (ih h x hx)

theorem lookup_idsOK (fs : List (String × Child)) (k : String) (c : Child)
    (h : fs.lookup k = some c) (hok : idsOKFields fs = true) : c.idsOK = true := by
  induction fs with
  | nil => simp at h
  | cons hd tl ih =>
    obtain ⟨k', c'⟩ := hd
    simp only [List.lookup] at h
    simp only [idsOKFields, Bool.and_eq_true] at hok
    split at h
    · simp at h; subst h; exact hok.1
    · exact ih h hok.2

theorem mem_serialsNodes (cs : List Node) (c : Node) (h : c ∈ cs) : ∀ x ∈ c.serials, x ∈ serialsNodes cs := by
  induction cs with
  | nil => simp at h
  | cons hd tl ih =>
    simp only [serialsNodes, List.mem_append]
    rcases List.mem_cons.mp h with h | h
    · subst h; intro x hx; exact Or.inl hx
    · intro x hx; exact Or.inr (ih h x hx)

theorem mem_idsOKNodes (cs : List Node) (c : Node) (h : c ∈ cs) (hok : idsOKNodes cs = true) : c.idsOK = true := by
  induction cs with
  | nil => simp at h
  | cons hd tl ih =>
    simp only [idsOKNodes, Bool.and_eq_true] at hok
    rcases List.mem_cons.mp h with h | h
    · subst h; exact hok.1
    · exact ih h hok.2

/-- `x` is the serial of no node in the subtree -/
def Fresh (x : Nat) (n : Node) : Prop := x ∉ n.serials

theorem attr_one_fresh (m c : Node) (k : String) (h : m.attr k = .one c) (x : Nat) (hx : Fresh x m) : Fresh x c := by
  obtain ⟨kd, sr, pl, fs⟩ := m
  simp only [Node.attr, Node.fields_mk] at h
  cases hl : fs.lookup k with
  | none => simp [hl] at h
  | some ch =>
    simp [hl] at h
    subst h
    intro hc
    exact hx (by simp only [Node.serials, List.mem_cons]; exact Or.inr (lookup_serials fs k _ hl x hc))

theorem attr_many_fresh (m : Node) (cs : List Node) (k : String) (h : m.attr k = .many cs) (x : Nat)
    (hx : Fresh x m) : ∀ c ∈ cs, Fresh x c := by
  intro c hc
  obtain ⟨kd, sr, pl, fs⟩ := m
  simp only [Node.attr, Node.fields_mk] at h
  cases hl : fs.lookup k with
  | none => simp [hl] at h
  | some ch =>
    simp [hl] at h
    subst h
    intro hcx
    exact hx (by
      simp only [Node.serials, List.mem_cons]
      exact Or.inr (lookup_serials fs k _ hl x (by simp only [Child.serials]; exact mem_serialsNodes cs c hc x hcx)))

theorem attr_one_ok (m c : Node) (k : String) (h : m.attr k = .one c) (hok : m.idsOK = true) :
    c.idsOK = true ∧ Fresh m.serial c := by
  obtain ⟨kd, sr, pl, fs⟩ := m
  simp only [Node.attr, Node.fields_mk] at h
  simp only [Node.idsOK, Bool.and_eq_true, Bool.not_eq_true', List.contains_eq_mem, decide_eq_false_iff_not] at hok
  cases hl : fs.lookup k with
  | none => simp [hl] at h
  | some ch =>
    simp [hl] at h
    subst h
    refine ⟨lookup_idsOK fs k _ hl hok.2, ?_⟩
    intro hc
    exact hok.1 (lookup_serials fs k _ hl _ hc)

theorem attr_many_ok (m : Node) (cs : List Node) (k : String) (h : m.attr k = .many cs) (hok : m.idsOK = true) :
    ∀ c ∈ cs, c.idsOK = true ∧ Fresh m.serial c := by
  intro c hc
  obtain ⟨kd, sr, pl, fs⟩ := m
  simp only [Node.attr, Node.fields_mk] at h
  simp only [Node.idsOK, Bool.and_eq_true, Bool.not_eq_true', List.contains_eq_mem, decide_eq_false_iff_not] at hok
  cases hl : fs.lookup k with
  | none => simp [hl] at h
  | some ch =>
    simp [hl] at h
    subst h
    have h1 := lookup_idsOK fs k _ hl hok.2
    simp only [Child.idsOK] at h1
    refine ⟨mem_idsOKNodes cs c hc h1, ?_⟩
    intro hcx
    exact hok.1 (lookup_serials fs k _ hl _ (by simp only [Child.serials]; exact mem_serialsNodes cs c hc _ hcx))

theorem fresh_ne (x : Nat) (n : Node) (h : Fresh x n) : x ≠ n.serial := by
  obtain ⟨kd, sr, pl, fs⟩ := n
  intro hx
  exact h (by simp [Node.serials, hx])


/-! ### what a parallel visitor does to one member -/

def enterUpd (v : Visitor σ) (call : Call) : σ × Skipping → σ × Skipping
  | (s, .no) =>
    match v s call with
    | (.skip, s') => (s', .at call.node)
    | (.brk, s') => (s', .brk)
    | (_, s') => (s', .no)
  | m => m

def leaveUpd (v : Visitor σ) (call : Call) : σ × Skipping → σ × Skipping
  | (s, .no) =>
    match v s call with
    | (.brk, s') => (s', .brk)
    | (_, s') => (s', .no)
  | (s, .at n) => (s, if n.same call.node then .no else .at n)
  | m => m

theorem parEnter_spec (call : Call) :
    ∀ (vs : List (Visitor σ)), (∀ v ∈ vs, NonEditing v) → ∀ (ms : List (σ × Skipping)),
      (parallelEnter call vs ms).1 = .idle ∧
      ∀ (i : Nat) (v : Visitor σ) (m : σ × Skipping), vs[i]? = some v → ms[i]? = some m →
        (parallelEnter call vs ms).2[i]? = some (enterUpd v call m) := by
  intro vs
  induction vs with
  | nil => intro _ ms; simp [parallelEnter]
  | cons v0 vs ih =>
    intro hvs ms
    have hv0 := hvs v0 List.mem_cons_self
    have ih' := ih (fun v hv => hvs v (List.mem_cons_of_mem _ hv))
    cases ms with
    | nil => simp [parallelEnter]
    | cons m0 ms =>
      obtain ⟨s, sk⟩ := m0
      obtain ⟨ih1, ih2⟩ := ih' ms
      have hidx : ∀ (hd : σ × Skipping) (tl : List (σ × Skipping)),
          tl = (parallelEnter call vs ms).2 → hd = enterUpd v0 call (s, sk) →
          ∀ (i : Nat) (v : Visitor σ) (m : σ × Skipping), (v0 :: vs)[i]? = some v → ((s, sk) :: ms)[i]? = some m →
            (hd :: tl)[i]? = some (enterUpd v call m) := by
        intro hd tl htl hhd i v m hv hm
        cases i with
        | zero => simp at hv hm; subst hv; subst hm; simp [hhd]
        | succ i => simp at hv hm ⊢; rw [htl]; exact ih2 i v m hv hm
      cases sk with
      | no =>
        have hne := hv0 s call
        rcases hcall : v0 s call with ⟨a, s'⟩
        rw [hcall] at hne
        cases a with
        | remove => simp [Action.isEdit] at hne
        | replace r => simp [Action.isEdit] at hne
        | skip =>
          simp only [parallelEnter, hcall]
          exact ⟨ih1, hidx _ _ rfl (by simp [enterUpd, hcall])⟩
        | brk =>
          simp only [parallelEnter, hcall]
          exact ⟨ih1, hidx _ _ rfl (by simp [enterUpd, hcall])⟩
        | idle =>
          simp only [parallelEnter, hcall]
          exact ⟨ih1, hidx _ _ rfl (by simp [enterUpd, hcall])⟩
      | «at» n =>
        simp only [parallelEnter]
        exact ⟨ih1, hidx _ _ rfl (by simp [enterUpd])⟩
      | brk =>
        simp only [parallelEnter]
        exact ⟨ih1, hidx _ _ rfl (by simp [enterUpd])⟩


theorem parLeave_spec (call : Call) :
    ∀ (vs : List (Visitor σ)), (∀ v ∈ vs, NonEditing v) → ∀ (ms : List (σ × Skipping)),
      (parallelLeave call vs ms).1 = .idle ∧
      ∀ (i : Nat) (v : Visitor σ) (m : σ × Skipping), vs[i]? = some v → ms[i]? = some m →
        (parallelLeave call vs ms).2[i]? = some (leaveUpd v call m) := by
  intro vs
  induction vs with
  | nil => intro _ ms; simp [parallelLeave]
  | cons v0 vs ih =>
    intro hvs ms
    have hv0 := hvs v0 List.mem_cons_self
    have ih' := ih (fun v hv => hvs v (List.mem_cons_of_mem _ hv))
    cases ms with
    | nil => simp [parallelLeave]
    | cons m0 ms =>
      obtain ⟨s, sk⟩ := m0
      obtain ⟨ih1, ih2⟩ := ih' ms
      have hidx : ∀ (hd : σ × Skipping) (tl : List (σ × Skipping)),
          tl = (parallelLeave call vs ms).2 → hd = leaveUpd v0 call (s, sk) →
          ∀ (i : Nat) (v : Visitor σ) (m : σ × Skipping), (v0 :: vs)[i]? = some v → ((s, sk) :: ms)[i]? = some m →
            (hd :: tl)[i]? = some (leaveUpd v call m) := by
        intro hd tl htl hhd i v m hv hm
        cases i with
        | zero => simp at hv hm; subst hv; subst hm; simp [hhd]
        | succ i => simp at hv hm ⊢; rw [htl]; exact ih2 i v m hv hm
      cases sk with
      | no =>
        have hne := hv0 s call
        rcases hcall : v0 s call with ⟨a, s'⟩
        rw [hcall] at hne
        cases a with
        | remove => simp [Action.isEdit] at hne
        | replace r => simp [Action.isEdit] at hne
        | skip =>
          simp only [parallelLeave, hcall]
          exact ⟨ih1, hidx _ _ rfl (by simp [leaveUpd, hcall])⟩
        | brk =>
          simp only [parallelLeave, hcall]
          exact ⟨ih1, hidx _ _ rfl (by simp [leaveUpd, hcall])⟩
        | idle =>
          simp only [parallelLeave, hcall]
          exact ⟨ih1, hidx _ _ rfl (by simp [leaveUpd, hcall])⟩
      | «at» n =>
        simp only [parallelLeave]
        exact ⟨ih1, hidx _ _ rfl (by simp [leaveUpd])⟩
      | brk =>
        simp only [parallelLeave]
        exact ⟨ih1, hidx _ _ rfl (by simp [leaveUpd])⟩

theorem parallel_alwaysIdle (vs : List (Visitor σ)) (hvs : ∀ v ∈ vs, NonEditing v) :
    AlwaysIdle (parallel vs) := by
  intro ms call
  unfold parallel
  cases call.phase with
  | enter => exact (parEnter_spec call vs hvs ms).1
  | leave => exact (parLeave_spec call vs hvs ms).1


/-! ### a member that is skipping or has broken is not touched -/

abbrev PSt (σ : Type) := List (σ × Skipping)

def Frozen (sk : Skipping) (n : Node) : Prop :=
  match sk with
  | .no => False
  | .brk => True
  | .at N => Fresh N.serial n

def FrozenRec (i : Nat) (recV : Rec (PSt σ)) : Prop :=
  ∀ W n key parent anc path R s sk, W.s[i]? = some (s, sk) → Frozen sk n →
    recV W n key parent anc path = some R → R.w.s[i]? = some (s, sk)

theorem items_frozen {i : Nat} {recV : Rec (PSt σ)} (hrec : FrozenRec i recV) (parent : Option Val)
    (anc : List Val) (path : List Key) (s : σ) (sk : Skipping) :
    ∀ (suf : List Node) (W : W (PSt σ)) (j : Nat) (R : Res (PSt σ) (List Node × Bool)),
      W.s[i]? = some (s, sk) → (∀ c ∈ suf, Frozen sk c) →
      specItems recV parent anc path W suf j = some R → R.w.s[i]? = some (s, sk) := by
  intro suf
  induction suf with
  | nil => intro W j R hW _ h; simp [specItems] at h; subst h; exact hW
  | cons c suf ih =>
    intro W j R hW hfz h
    simp only [specItems] at h
    cases hr : recV W c (.idx j) parent anc (path ++ [.idx j]) with
    | none => simp [hr] at h
    | some R1 =>
      have h1 := hrec _ _ _ _ _ _ _ _ _ hW (hfz c List.mem_cons_self) hr
      rw [hr] at h
      cases R1 with
      | brk W1 => simp at h; subst h; exact h1
      | done W1 sl =>
        simp only [] at h
        cases hr2 : specItems recV parent anc path W1 suf (j + 1) with
        | none => simp [hr2] at h
        | some R2 =>
          have h2 := ih W1 (j + 1) R2 h1 (fun c hc => hfz c (List.mem_cons_of_mem _ hc)) hr2
          rw [hr2] at h
          cases R2 with
          | brk W2 => simp at h; subst h; exact h2
          | done W2 q => simp at h; subst h; exact h2

theorem keys_frozen' {i : Nat} {recV : Rec (PSt σ)} (hrec : FrozenRec i recV) (m : Node)
    (anc : List Val) (path : List Key) (s : σ) (sk : Skipping)
    (hone : ∀ k c, m.attr k = .one c → Frozen sk c)
    (hmany : ∀ k cs, m.attr k = .many cs → ∀ c ∈ cs, Frozen sk c) :
    ∀ (ks : List String) (W : W (PSt σ)) (R : Res (PSt σ) (List (String × Child))),
      W.s[i]? = some (s, sk) → specKeys recV m anc path W ks = some R → R.w.s[i]? = some (s, sk) := by
  intro ks
  induction ks with
  | nil => intro W R hW h; simp [specKeys] at h; subst h; exact hW
  | cons k ks ih =>
    intro W R hW h
    simp only [specKeys] at h
    have tailcase : ∀ (W1 : Spec.W (PSt σ)) (R2 : Res (PSt σ) (List (String × Child))),
        W1.s[i]? = some (s, sk) → specKeys recV m anc path W1 ks = some R2 → R.w = R2.w →
        R.w.s[i]? = some (s, sk) := by
      intro W1 R2 hW1 h2 he
      rw [he]; exact ih W1 R2 hW1 h2
    cases hattr : m.attr k with
    | absent =>
      rw [hattr] at h
      simp only [] at h
      split at h
      · simp at h
      · next _ w heq => simp at h; subst h; refine ih _ (Res.brk w) ?_ heq; exact hW
      · next _ w es heq => simp at h; subst h; refine ih _ (Res.done w es) ?_ heq; exact hW
    | one c =>
      rw [hattr] at h
      simp only [] at h
      cases hr : recV W c (.name k) (some (.node m)) anc (path ++ [.name k]) with
      | none => simp [hr] at h
      | some R1 =>
        have h1 := hrec _ _ _ _ _ _ _ _ _ hW (hone k c hattr) hr
        rw [hr] at h
        cases R1 with
        | brk W1 => simp at h; subst h; exact h1
        | done W1 sl =>
          cases sl with
          | keep =>
            simp only [] at h
            split at h
            · simp at h
            · next _ w heq => simp at h; subst h; refine ih _ (Res.brk w) ?_ heq; exact h1
            · next _ w es heq => simp at h; subst h; refine ih _ (Res.done w es) ?_ heq; exact h1
          | gone =>
            simp only [] at h
            split at h
            · simp at h
            · next _ w heq => simp at h; subst h; refine ih _ (Res.brk w) ?_ heq; exact h1
            · next _ w es heq => simp at h; subst h; refine ih _ (Res.done w es) ?_ heq; exact h1
          | put c' =>
            simp only [] at h
            split at h
            · simp at h
            · next _ w heq => simp at h; subst h; refine ih _ (Res.brk w) ?_ heq; exact h1
            · next _ w es heq => simp at h; subst h; refine ih _ (Res.done w es) ?_ heq; exact h1
    | many cs =>
      rw [hattr] at h
      simp only [] at h
      cases hr : specItems recV (some (.arr cs)) (anc ++ [.node m]) (path ++ [.name k])
          { W with iters := W.iters + 1 } cs 0 with
      | none => simp [hr] at h
      | some R1 =>
        have h1 := items_frozen hrec _ _ _ s sk cs { W with iters := W.iters + 1 } 0 R1 hW (hmany k cs hattr) hr
        rw [hr] at h
        cases R1 with
        | brk W1 => simp at h; subst h; exact h1
        | done W1 p =>
          obtain ⟨cs', ch⟩ := p
          simp only [] at h
          split at h
          · simp at h
          · next _ w heq => simp at h; subst h; refine ih _ (Res.brk w) ?_ heq; exact h1
          · next _ w es heq => simp at h; subst h; refine ih _ (Res.done w es) ?_ heq; exact h1


theorem keys_frozen {i : Nat} {recV : Rec (PSt σ)} (hrec : FrozenRec i recV) (m : Node)
    (anc : List Val) (path : List Key) (s : σ) (sk : Skipping) (hm : Frozen sk m) :
    ∀ (ks : List String) (W : W (PSt σ)) (R : Res (PSt σ) (List (String × Child))),
      W.s[i]? = some (s, sk) → specKeys recV m anc path W ks = some R → R.w.s[i]? = some (s, sk) := by
  apply keys_frozen' hrec
  · intro k c h
    cases sk with
    | no => exact hm
    | brk => trivial
    | «at» N => exact attr_one_fresh m c k h _ hm
  · intro k cs h c hc
    cases sk with
    | no => exact hm
    | brk => trivial
    | «at» N => exact attr_many_fresh m cs k h _ hm c hc

theorem enterUpd_frozen (v : Visitor σ) (call : Call) (s : σ) (sk : Skipping) (n : Node) (h : Frozen sk n) :
    enterUpd v call (s, sk) = (s, sk) := by
  cases sk with
  | no => exact absurd h (by simp [Frozen])
  | brk => rfl
  | «at» N => rfl

theorem leaveUpd_frozen (v : Visitor σ) (call : Call) (s : σ) (sk : Skipping) (h : Frozen sk call.node) :
    leaveUpd v call (s, sk) = (s, sk) := by
  cases sk with
  | no => exact absurd h (by simp [Frozen])
  | brk => rfl
  | «at» N =>
    have : N.same call.node = false := by
      have := fresh_ne _ _ h
      simp [Node.same, this]
    simp [leaveUpd, this]

theorem node_frozen {vk : String → List String} (vs : List (Visitor σ)) (hvs : ∀ v ∈ vs, NonEditing v)
    (i : Nat) (v : Visitor σ) (hv : vs[i]? = some v) :
    ∀ d, FrozenRec i (specNode vk (parallel vs) d) := by
  have hidle := parallel_alwaysIdle vs hvs
  intro d
  induction d with
  | zero => intro W n key parent anc path R s sk _ _ h; simp [specNode] at h
  | succ d ih =>
    intro W n key parent anc path R s sk hW hfz h
    simp only [specNode, specBody] at h
    have hA := hidle W.s ⟨.enter, n, key, parent, path, anc⟩
    have hM := (parEnter_spec ⟨.enter, n, key, parent, path, anc⟩ vs hvs W.s).2 i v (s, sk) hv hW
    have hpe : parallel vs W.s ⟨.enter, n, key, parent, path, anc⟩ =
        parallelEnter ⟨.enter, n, key, parent, path, anc⟩ vs W.s := rfl
    rw [← hpe] at hM
    rcases hcall : parallel vs W.s ⟨.enter, n, key, parent, path, anc⟩ with ⟨A, MS1⟩
    rw [hcall] at hA hM h
    simp only [] at hA hM h
    subst hA
    rw [enterUpd_frozen v _ s sk n hfz] at hM
    simp only [] at h
    cases hk : specKeys (specNode vk (parallel vs) d) n (anc ++ parent.toList) path
        { s := MS1, iters := W.iters + 1, edited := W.edited } (vk n.kind) with
    | none => simp [hk] at h
    | some RK =>
      have h1 := keys_frozen ih n _ _ s sk hfz (vk n.kind) _ RK hM hk
      rw [hk] at h
      cases RK with
      | brk W2 => simp at h; subst h; exact h1
      | done W2 es =>
        have hes := keys_keep (node_keep hidle.nonEditing d) _ _ _ _ _ _ _ hk
        subst hes
        simp only [List.isEmpty_nil, reduceIte] at h
        have hA2 := hidle W2.s ⟨.leave, n, key, parent, path, anc⟩
        have hM2 := (parLeave_spec ⟨.leave, n, key, parent, path, anc⟩ vs hvs W2.s).2 i v (s, sk) hv h1
        have hpl : parallel vs W2.s ⟨.leave, n, key, parent, path, anc⟩ =
            parallelLeave ⟨.leave, n, key, parent, path, anc⟩ vs W2.s := rfl
        rw [← hpl] at hM2
        rcases hcall2 : parallel vs W2.s ⟨.leave, n, key, parent, path, anc⟩ with ⟨A2, MS3⟩
        rw [hcall2] at hA2 hM2 h
        simp only [] at hA2 hM2 h
        subst hA2
        rw [leaveUpd_frozen v _ s sk hfz] at hM2
        simp at h
        subst h
        exact hM2


/-! ### an active member advances exactly as it does alone -/

def After (i : Nat) (ms : PSt σ) {α : Type} (r : Res σ α) : Prop :=
  match r with
  | .brk w' => ms[i]? = some (w'.s, .brk)
  | .done w' _ => ms[i]? = some (w'.s, .no)

def AgreeRec (i : Nat) (recV : Rec (PSt σ)) (recv : Rec σ) : Prop :=
  ∀ W w n key parent anc path R r, W.s[i]? = some (w.s, .no) → n.idsOK = true →
    recV W n key parent anc path = some R → recv w n key parent anc path = some r → After i R.w.s r

theorem items_agree {i : Nat} {recV : Rec (PSt σ)} {recv : Rec σ} (hA : AgreeRec i recV recv)
    (hF : FrozenRec i recV) (hD : DoneRec recV) (parent : Option Val) (anc : List Val) (path : List Key) :
    ∀ (suf : List Node) (W : W (PSt σ)) (w : Spec.W σ) (j : Nat) (R : Res (PSt σ) (List Node × Bool))
      (r : Res σ (List Node × Bool)),
      W.s[i]? = some (w.s, .no) → (∀ c ∈ suf, c.idsOK = true) →
      specItems recV parent anc path W suf j = some R → specItems recv parent anc path w suf j = some r →
      After i R.w.s r := by
  intro suf
  induction suf with
  | nil =>
    intro W w j R r hW _ hR hr
    simp [specItems] at hR hr
    subst hR; subst hr
    exact hW
  | cons c suf ih =>
    intro W w j R r hW hok hR hr
    simp only [specItems] at hR hr
    cases hR1 : recV W c (.idx j) parent anc (path ++ [.idx j]) with
    | none => simp [hR1] at hR
    | some R1 =>
      cases hr1 : recv w c (.idx j) parent anc (path ++ [.idx j]) with
      | none => simp [hr1] at hr
      | some r1 =>
        have hag := hA _ _ _ _ _ _ _ _ _ hW (hok c List.mem_cons_self) hR1 hr1
        obtain ⟨W1, SL, rfl⟩ := hD _ _ _ _ _ _ _ hR1
        rw [hR1] at hR
        rw [hr1] at hr
        simp only [] at hR
        cases hR2 : specItems recV parent anc path W1 suf (j + 1) with
        | none => simp [hR2] at hR
        | some R2 =>
          rw [hR2] at hR
          have hRw : R.w = R2.w := by
            cases R2 with
            | brk W2 => simp at hR; subst hR; rfl
            | done W2 q => simp at hR; subst hR; rfl
          rw [hRw]
          cases r1 with
          | brk w1 =>
            simp at hr
            subst hr
            exact items_frozen hF _ _ _ w1.s .brk suf W1 (j + 1) R2 hag (fun _ _ => trivial) hR2
          | done w1 sl =>
            simp only [] at hr
            cases hr2 : specItems recv parent anc path w1 suf (j + 1) with
            | none => simp [hr2] at hr
            | some r2 =>
              have h2 := ih W1 w1 (j + 1) R2 r2 hag (fun c hc => hok c (List.mem_cons_of_mem _ hc)) hR2 hr2
              rw [hr2] at hr
              cases r2 with
              | brk w2 => simp at hr; subst hr; exact h2
              | done w2 q => simp at hr; subst hr; exact h2


theorem keys_agree {i : Nat} {recV : Rec (PSt σ)} {recv : Rec σ} (hA : AgreeRec i recV recv)
    (hF : FrozenRec i recV) (hD : DoneRec recV) (m : Node) (hm : m.idsOK = true) (anc : List Val) (path : List Key) :
    ∀ (ks : List String) (W : W (PSt σ)) (w : Spec.W σ) (R : Res (PSt σ) (List (String × Child)))
      (r : Res σ (List (String × Child))),
      W.s[i]? = some (w.s, .no) →
      specKeys recV m anc path W ks = some R → specKeys recv m anc path w ks = some r →
      After i R.w.s r := by
  intro ks
  induction ks with
  | nil =>
    intro W w R r hW hR hr
    simp [specKeys] at hR hr
    subst hR; subst hr
    exact hW
  | cons k ks ih =>
    intro W w R r hW hR hr
    simp only [specKeys] at hR hr
    -- the member has broken: the remaining attributes do not touch it
    have frozenTail : ∀ (W1 : Spec.W (PSt σ)) (w1 : Spec.W σ) (R2 : Res (PSt σ) (List (String × Child))),
        W1.s[i]? = some (w1.s, .brk) → specKeys recV m anc path W1 ks = some R2 →
        R2.w.s[i]? = some (w1.s, .brk) := by
      intro W1 w1 R2 h1 h2
      exact keys_frozen' hF m anc path w1.s .brk (fun _ _ _ => trivial) (fun _ _ _ _ _ => trivial) ks W1 R2 h1 h2
    cases hattr : m.attr k with
    | absent =>
      rw [hattr] at hR hr
      simp only [] at hR hr
      cases hR2 : specKeys recV m anc path { W with iters := W.iters + 1 } ks with
      | none => simp [hR2] at hR
      | some R2 =>
        cases hr2 : specKeys recv m anc path { w with iters := w.iters + 1 } ks with
        | none => simp [hr2] at hr
        | some r2 =>
          have h2 := ih { W with iters := W.iters + 1 } { w with iters := w.iters + 1 } R2 r2 hW hR2 hr2
          rw [hR2] at hR
          rw [hr2] at hr
          have hRw : R.w = R2.w := by
            cases R2 with
            | brk W2 => simp at hR; subst hR; rfl
            | done W2 q => simp at hR; subst hR; rfl
          rw [hRw]
          cases r2 with
          | brk w2 => simp at hr; subst hr; exact h2
          | done w2 q => simp at hr; subst hr; exact h2
    | one c =>
      rw [hattr] at hR hr
      simp only [] at hR hr
      cases hR1 : recV W c (.name k) (some (.node m)) anc (path ++ [.name k]) with
      | none => simp [hR1] at hR
      | some R1 =>
        cases hr1 : recv w c (.name k) (some (.node m)) anc (path ++ [.name k]) with
        | none => simp [hr1] at hr
        | some r1 =>
          have hag := hA _ _ _ _ _ _ _ _ _ hW (attr_one_ok m c k hattr hm).1 hR1 hr1
          obtain ⟨W1, SL, rfl⟩ := hD _ _ _ _ _ _ _ hR1
          rw [hR1] at hR
          rw [hr1] at hr
          have hR' : ∃ R2, specKeys recV m anc path W1 ks = some R2 ∧ R.w = R2.w := by
            cases SL <;> simp only [] at hR <;>
              (cases hR2 : specKeys recV m anc path W1 ks with
               | none => simp [hR2] at hR
               | some R2 =>
                 rw [hR2] at hR
                 refine ⟨R2, rfl, ?_⟩
                 cases R2 with
                 | brk W2 => simp at hR; subst hR; rfl
                 | done W2 q => simp at hR; subst hR; rfl)
          obtain ⟨R2, hR2, hRw⟩ := hR'
          rw [hRw]
          cases r1 with
          | brk w1 =>
            simp at hr
            subst hr
            exact frozenTail W1 w1 R2 hag hR2
          | done w1 sl =>
            have hr' : ∃ r2, specKeys recv m anc path w1 ks = some r2 ∧
                ((∃ w2, r2 = .brk w2 ∧ r = .brk w2) ∨ (∃ w2 q q', r2 = .done w2 q ∧ r = .done w2 q')) := by
              cases sl <;> simp only [] at hr <;>
                (cases hr2 : specKeys recv m anc path w1 ks with
                 | none => simp [hr2] at hr
                 | some r2 =>
                   rw [hr2] at hr
                   refine ⟨r2, rfl, ?_⟩
                   cases r2 with
                   | brk w2 => simp at hr; subst hr; exact Or.inl ⟨_, rfl, rfl⟩
                   | done w2 q => simp at hr; subst hr; exact Or.inr ⟨_, _, _, rfl, rfl⟩)
            obtain ⟨r2, hr2, hshape⟩ := hr'
            have h2 := ih W1 w1 R2 r2 hag hR2 hr2
            rcases hshape with ⟨w2, rfl, rfl⟩ | ⟨w2, q, q', rfl, rfl⟩
            · exact h2
            · exact h2
    | many cs =>
      rw [hattr] at hR hr
      simp only [] at hR hr
      cases hR1 : specItems recV (some (.arr cs)) (anc ++ [.node m]) (path ++ [.name k])
          { W with iters := W.iters + 1 } cs 0 with
      | none => simp [hR1] at hR
      | some R1 =>
        cases hr1 : specItems recv (some (.arr cs)) (anc ++ [.node m]) (path ++ [.name k])
            { w with iters := w.iters + 1 } cs 0 with
        | none => simp [hr1] at hr
        | some r1 =>
          have hag := items_agree hA hF hD _ _ _ cs { W with iters := W.iters + 1 } { w with iters := w.iters + 1 }
            0 R1 r1 hW (fun c hc => (attr_many_ok m cs k hattr hm c hc).1) hR1 hr1
          obtain ⟨W1, P, rfl⟩ := items_done hD _ _ _ _ _ _ _ hR1
          obtain ⟨cs', ch⟩ := P
          rw [hR1] at hR
          rw [hr1] at hr
          simp only [] at hR
          cases hR2 : specKeys recV m anc path { W1 with iters := W1.iters + 1 } ks with
          | none => simp [hR2] at hR
          | some R2 =>
            rw [hR2] at hR
            have hRw : R.w = R2.w := by
              cases R2 with
              | brk W2 => simp at hR; subst hR; rfl
              | done W2 q => simp at hR; subst hR; rfl
            rw [hRw]
            cases r1 with
            | brk w1 =>
              simp at hr
              subst hr
              exact frozenTail { W1 with iters := W1.iters + 1 } w1 R2 hag hR2
            | done w1 p =>
              obtain ⟨cs2, ch2⟩ := p
              simp only [] at hr
              cases hr2 : specKeys recv m anc path { w1 with iters := w1.iters + 1 } ks with
              | none => simp [hr2] at hr
              | some r2 =>
                have h2 := ih { W1 with iters := W1.iters + 1 } { w1 with iters := w1.iters + 1 } R2 r2 hag hR2 hr2
                rw [hr2] at hr
                cases r2 with
                | brk w2 => simp at hr; subst hr; exact h2
                | done w2 q => simp at hr; subst hr; exact h2


/-- how the contract unfolds for a visitor that always answers idle -/
theorem idle_node_unfold {τ : Type} {vk : String → List String} {V : Visitor τ} (hidle : AlwaysIdle V) (d : Nat)
    (W : Spec.W τ) (n : Node) (key : Key) (parent : Option Val) (anc : List Val) (path : List Key)
    (R : Res τ Slot) (h : specNode vk V (d + 1) W n key parent anc path = some R) :
    ∃ W2, specKeys (specNode vk V d) n (anc ++ parent.toList) path
        { s := (V W.s ⟨.enter, n, key, parent, path, anc⟩).2, iters := W.iters + 1, edited := W.edited }
        (vk n.kind) = some (.done W2 []) ∧
      R.w.s = (V W2.s ⟨.leave, n, key, parent, path, anc⟩).2 := by
  simp only [specNode, specBody] at h
  have hA := hidle W.s ⟨.enter, n, key, parent, path, anc⟩
  rcases hcall : V W.s ⟨.enter, n, key, parent, path, anc⟩ with ⟨A, MS1⟩
  rw [hcall] at hA h
  simp only [] at hA h
  subst hA
  simp only [] at h
  cases hk : specKeys (specNode vk V d) n (anc ++ parent.toList) path
      { s := MS1, iters := W.iters + 1, edited := W.edited } (vk n.kind) with
  | none => simp [hk] at h
  | some RK =>
    obtain ⟨W2, es, rfl⟩ := keys_done (node_done hidle d) _ _ _ _ _ _ hk
    have hes := keys_keep (node_keep hidle.nonEditing d) _ _ _ _ _ _ _ hk
    subst hes
    rw [hk] at h
    simp only [List.isEmpty_nil, reduceIte] at h
    have hA2 := hidle W2.s ⟨.leave, n, key, parent, path, anc⟩
    rcases hcall2 : V W2.s ⟨.leave, n, key, parent, path, anc⟩ with ⟨A2, MS3⟩
    rw [hcall2] at hA2 h
    simp only [] at hA2 h
    subst hA2
    simp at h
    subst h
    exact ⟨W2, rfl, by rw [hcall2]; rfl⟩

theorem node_agree {vk : String → List String} (vs : List (Visitor σ)) (hvs : ∀ v ∈ vs, NonEditing v)
    (i : Nat) (v : Visitor σ) (hv : vs[i]? = some v) :
    ∀ d, AgreeRec i (specNode vk (parallel vs) d) (specNode vk v d) := by
  have hidle := parallel_alwaysIdle vs hvs
  have hvi : NonEditing v := hvs v (List.mem_of_getElem? hv)
  intro d
  induction d with
  | zero => intro W w n key parent anc path R r _ _ h; simp [specNode] at h
  | succ d ih =>
    intro W w n key parent anc path R r hW hok hR hr
    obtain ⟨W2, hK, hRs⟩ := idle_node_unfold hidle d W n key parent anc path R hR
    have hM := (parEnter_spec ⟨.enter, n, key, parent, path, anc⟩ vs hvs W.s).2 i v (w.s, .no) hv hW
    have hpe : parallel vs W.s ⟨.enter, n, key, parent, path, anc⟩ =
        parallelEnter ⟨.enter, n, key, parent, path, anc⟩ vs W.s := rfl
    rw [← hpe] at hM
    have hML := fun m h => (parLeave_spec ⟨.leave, n, key, parent, path, anc⟩ vs hvs W2.s).2 i v m hv h
    have hpl : parallel vs W2.s ⟨.leave, n, key, parent, path, anc⟩ =
        parallelLeave ⟨.leave, n, key, parent, path, anc⟩ vs W2.s := rfl
    rw [← hpl] at hML
    rw [hRs]
    have hF := node_frozen (vk := vk) vs hvs i v hv d
    have hD := node_done (vk := vk) hidle d
    simp only [specNode, specBody] at hr
    have hne := hvi w.s ⟨.enter, n, key, parent, path, anc⟩
    rcases hcv : v w.s ⟨.enter, n, key, parent, path, anc⟩ with ⟨a, s1⟩
    rw [hcv] at hne hr
    simp only [] at hne hr
    cases a with
    | remove => simp [Action.isEdit] at hne
    | replace x => simp [Action.isEdit] at hne
    | brk =>
      simp at hr
      subst hr
      have hM1 : (parallel vs W.s ⟨.enter, n, key, parent, path, anc⟩).2[i]? = some (s1, .brk) := by
        rw [hM]; simp [enterUpd, hcv]
      have h2 := keys_frozen' hF n _ _ s1 .brk (fun _ _ _ => trivial) (fun _ _ _ _ _ => trivial) _ _ _ hM1 hK
      exact hML _ h2
    | skip =>
      simp at hr
      subst hr
      have hM1 : (parallel vs W.s ⟨.enter, n, key, parent, path, anc⟩).2[i]? = some (s1, .at n) := by
        rw [hM]; simp [enterUpd, hcv]
      have h2 := keys_frozen' hF n _ _ s1 (.at n)
        (fun k c h => (attr_one_ok n c k h hok).2) (fun k cs h c hc => (attr_many_ok n cs k h hok c hc).2) _ _ _ hM1 hK
      have := hML _ h2
      simpa [After, leaveUpd, Node.same, Res.w] using this
    | idle =>
      simp only [] at hr
      have hM1 : (parallel vs W.s ⟨.enter, n, key, parent, path, anc⟩).2[i]? = some (s1, .no) := by
        rw [hM]; simp [enterUpd, hcv]
      cases hk : specKeys (specNode vk v d) n (anc ++ parent.toList) path
          { s := s1, iters := w.iters + 1, edited := w.edited } (vk n.kind) with
      | none => simp [hk] at hr
      | some rk =>
        have hag := keys_agree ih hF hD n hok _ _ (vk n.kind) _ { s := s1, iters := w.iters + 1, edited := w.edited }
          _ rk hM1 hK hk
        rw [hk] at hr
        cases rk with
        | brk w2 =>
          simp at hr
          subst hr
          exact hML _ hag
        | done w2 es =>
          have hes := keys_keep (node_keep hvi d) _ _ _ _ _ _ _ hk
          subst hes
          simp only [List.isEmpty_nil, reduceIte] at hr
          have hne2 := hvi w2.s ⟨.leave, n, key, parent, path, anc⟩
          rcases hcv2 : v w2.s ⟨.leave, n, key, parent, path, anc⟩ with ⟨a2, s3⟩
          rw [hcv2] at hne2 hr
          simp only [] at hne2 hr
          have := hML _ hag
          cases a2 with
          | remove => simp [Action.isEdit] at hne2
          | replace x => simp [Action.isEdit] at hne2
          | brk => simp at hr; subst hr; simpa [After, leaveUpd, hcv2] using this
          | skip => simp at hr; subst hr; simpa [After, leaveUpd, hcv2] using this
          | idle => simp at hr; subst hr; simpa [After, leaveUpd, hcv2] using this


/-- C11-5 on the contract: the member's state inside the parallel visitor is its state alone -/
theorem parallel_alone_spec {vk : String → List String} (vs : List (Visitor σ)) (hvs : ∀ v ∈ vs, NonEditing v)
    (ss : List σ) (i : Nat) (v : Visitor σ) (s : σ) (hv : vs[i]? = some v) (hs : ss[i]? = some s)
    (root : Node) (hok : root.idsOK = true) (d : Nat) (P : Outcome (PSt σ)) (a : Outcome σ)
    (hP : specVisit vk (parallel vs) d root (parallelInit ss) = some P)
    (ha : specVisit vk v d root s = some a) :
    (P.state[i]?).map Prod.fst = some a.state := by
  unfold specVisit at hP ha
  cases hR : specNode vk (parallel vs) d ⟨parallelInit ss, 0, false⟩ root .none none [] [] with
  | none => simp [hR] at hP
  | some R =>
    cases hr : specNode vk v d ⟨s, 0, false⟩ root .none none [] [] with
    | none => simp [hr] at ha
    | some r =>
      have hW : (parallelInit ss)[i]? = some (s, Skipping.no) := by simp [parallelInit, hs]
      have hag := node_agree (vk := vk) vs hvs i v hv d ⟨parallelInit ss, 0, false⟩ ⟨s, 0, false⟩ root .none none [] []
        R r hW hok hR hr
      rw [hR] at hP
      rw [hr] at ha
      have hPs : P.state = R.w.s := by
        cases R with
        | brk w => simp at hP; subst hP; rfl
        | done w sl => cases sl <;> simp at hP <;> subst hP <;> rfl
      have has : a.state = r.w.s := by
        cases r with
        | brk w => simp at ha; subst ha; rfl
        | done w sl => cases sl <;> simp at ha <;> subst ha <;> rfl
      rw [hPs, has]
      cases r with
      | brk w => simp only [After] at hag; rw [hag]; rfl
      | done w sl => simp only [After] at hag; rw [hag]; rfl

end Gql.Syntax
