import Gql.Proofs.Conforms
import Gql.Proofs.CoerceLiteralOneOf
/-
"A coerced result conforms to the type" for the results of constant-literal coercion (C15).
-/
namespace Gql.Values
open Gql

theorem listItemLiteral_nonvar (vars : Option VarValues) {it : Lit} (nn : Bool) (r : R) (h : it.isVar = false) :
    listItemLiteral vars it nn r = r := by
  unfold listItemLiteral
  split
  · simp [h]
  · rfl

theorem isVar_false_of_const {l : Lit} (h : l.isConst = true) : l.isVar = false := by
  cases l <;> simp_all [Lit.isConst, Lit.isVar]

theorem asVar_none_of_const {l : Lit} (h : l.isConst = true) : l.asVar = none := by
  cases l <;> simp_all [Lit.isConst, Lit.asVar]

section
variable (c : PyConv) (D : Field → R) (tm : TypeMap)

theorem litG_entry {fs : List (List Nat × Lit)} {f : Field} {k : List Nat} {cv : PyVal}
    (hnv : ∀ fv, litGetLast fs f.name = some fv → fv.isVar = false)
    (h : litG c D tm none fs f = .ok (.entry k cv)) :
    k = f.name ∧ cv ≠ .undefined ∧
      ((∃ fv, litGetLast fs f.name = some fv ∧ coerceLiteral c D tm none fv f.type = .ok cv) ∨
       (litGetLast fs f.name = none ∧ D f = .ok cv)) := by
  unfold litG at h
  split at h
  · rename_i fv hfv
    simp only [hnv fv hfv, Bool.false_and, Bool.false_eq_true, ↓reduceIte] at h
    cases hc : coerceLiteral c D tm none fv f.type with
    | ok r =>
      rw [hc] at h
      cases r <;> simp only [fieldOfCoerced, Out.ok.injEq, FieldRes.entry.injEq, reduceCtorEq] at h
      all_goals (obtain ⟨rfl, rfl⟩ := h; exact ⟨rfl, by simp, Or.inl ⟨fv, hfv, hc⟩⟩)
    | err e => rw [hc] at h; simp [fieldOfCoerced] at h
    | crash k' => rw [hc] at h; simp [fieldOfCoerced] at h
  · rename_i hnone
    unfold fieldMissing at h
    split at h
    · simp at h
    · cases hd : D f with
      | ok r =>
        rw [hd] at h
        cases r <;> simp only [Out.ok.injEq, FieldRes.entry.injEq, reduceCtorEq] at h
        all_goals (obtain ⟨rfl, rfl⟩ := h; exact ⟨rfl, by simp, Or.inr ⟨hnone, rfl⟩⟩)
      | err e => rw [hd] at h; simp at h
      | crash k' => rw [hd] at h; simp at h

theorem litG_present {fs : List (List Nat × Lit)} {f : Field} {x : FieldRes}
    (hnv : ∀ fv, litGetLast fs f.name = some fv → fv.isVar = false)
    (hpres : ∀ f, f.type.isNonNull = true → f.isRequired = false → D f ≠ .ok .undefined)
    (h : litG c D tm none fs f = .ok x) (hx : x ≠ .invalid)
    (hneed : f.type.isNonNull = true ∨ D f ≠ .ok .undefined) : ∃ cv, x = .entry f.name cv := by
  unfold litG at h
  split at h
  · rename_i fv hfv
    simp only [hnv fv hfv, Bool.false_and, Bool.false_eq_true, ↓reduceIte] at h
    cases hc : coerceLiteral c D tm none fv f.type with
    | ok r =>
      rw [hc] at h
      cases r <;> simp only [fieldOfCoerced, Out.ok.injEq] at h <;> subst h
      all_goals first | exact absurd rfl hx | exact ⟨_, rfl⟩
    | err e => rw [hc] at h; simp [fieldOfCoerced] at h
    | crash k' => rw [hc] at h; simp [fieldOfCoerced] at h
  · unfold fieldMissing at h
    split at h
    · simp only [Out.ok.injEq] at h; exact absurd h.symm hx
    · rename_i hreq
      have hreq' : f.isRequired = false := by simpa using hreq
      cases hd : D f with
      | ok r =>
        rw [hd] at h
        have hne : r ≠ .undefined := by
          rcases hneed with hn | hn
          · intro hr; subst hr; exact hpres f hn hreq' hd
          · intro hr; subst hr; exact hn hd
        cases r <;> simp only [Out.ok.injEq] at h <;> subst h
        all_goals first | exact absurd rfl hne | exact ⟨_, rfl⟩
      | err e => rw [hd] at h; simp at h
      | crash k' => rw [hd] at h; simp at h

theorem oneOfLiteral_ok {fs : List (List Nat × Lit)} {es : List (List Nat × PyVal)} {cv : PyVal}
    (h : oneOfLiteral fs es = .ok cv) (hu : cv ≠ .undefined) :
    ∃ n k cv', litNames fs = [n] ∧ es = [(k, cv')] ∧ coercedIsNone k cv' n = false ∧ cv = .dict es := by
  unfold oneOfLiteral at h
  split at h
  · rename_i n k cv' hn
    split at h
    · simp only [Out.ok.injEq] at h; exact absurd h.symm hu
    · rename_i hcond
      simp only [Out.ok.injEq] at h
      have : coercedIsNone k cv' n = false := by
        cases hci : coercedIsNone k cv' n with
        | false => rfl
        | true => exact absurd (by simp [hci]) hcond
      exact ⟨n, k, cv', hn, rfl, this, h.symm⟩
  · simp only [Out.ok.injEq] at h; exact absurd h.symm hu

/-- A value `coerce_input_literal` returns for a constant literal conforms to the type. -/
theorem coerceLiteral_conforms (hW : TmWF D tm) (hDC : DefaultsConform D tm) (l : Lit) (t : InType) (path : Path)
    (hc : l.isConst = true) (hu' : l.Unique) :
    ∀ cv, coerceLiteral c D tm none l t = .ok cv → cv ≠ .undefined → Conforms D tm t cv := by
  induction l, t, path using validateLiteral.induct c tm none with
  | case1 l t path x hv _ => rw [Lit.not_const_of_var hv] at hc; cases hc
  | case2 l t path x hv _ _ => rw [Lit.not_const_of_var hv] at hc; cases hc
  | case3 l t path x hv _ _ => rw [Lit.not_const_of_var hv] at hc; cases hc
  | case4 l path hv t' hn =>
    intro cv h hu
    rw [coerceLiteral_nonNull c D tm none hv] at h
    simp only [hn, ↓reduceIte, Out.ok.injEq] at h; exact absurd h.symm hu
  | case5 l path hv t' hn ih =>
    intro cv h hu
    rw [coerceLiteral_nonNull c D tm none hv] at h
    simp only [hn, Bool.false_eq_true, ↓reduceIte] at h
    exact .nonNull t' cv (coerceLiteral_ne_none c D tm none hW.enumsNonNull l hv hn t' cv h) (ih hc hu' cv h hu)
  | case6 l path hv t' hn =>
    intro cv h hu
    rw [coerceLiteral_null c D tm none _ hv hn] at h
    simp only [InType.isNonNull, Bool.false_eq_true, ↓reduceIte, Out.ok.injEq] at h
    subst h; exact .null _ rfl
  | case7 l path hv t' hn items hl ih =>
    intro cv h hu
    obtain ⟨hpu, hpc⟩ := Lit.asList_props hl
    have hul := hpu hu'
    have hcl := hpc hc
    rw [coerceLiteral_list_iter c D tm none hv hn hl] at h
    cases hs : seqItems (items.attach.map fun ⟨it, _⟩ =>
        listItemLiteral none it t'.isNonNull (coerceLiteral c D tm none it t')) with
    | ok o =>
      rw [hs] at h
      cases o with
      | none => simp only [wrapList, Out.ok.injEq] at h; exact absurd h.symm hu
      | some cs =>
        simp only [wrapList, Out.ok.injEq] at h
        subst h
        refine .list t' cs ?_
        intro x hx
        obtain ⟨hmem, hxu⟩ := seqItems_some_mem hs x hx
        simp only [List.mem_map, List.mem_attach, true_and, Subtype.exists] at hmem
        obtain ⟨it, hit, hyc⟩ := hmem
        have hitc := Lit.isConstList_mem hcl hit
        rw [listItemLiteral_nonvar none _ _ (isVar_false_of_const hitc)] at hyc
        exact ih it hit 0 hitc (Lit.UniqueList_mem hul hit) x hyc hxu
    | err e => rw [hs] at h; simp [wrapList] at h
    | crash k => rw [hs] at h; simp [wrapList] at h
  | case8 l path hv t' hn hl ih =>
    intro cv h hu
    rw [coerceLiteral_list_single c D tm none hv hn hl] at h
    cases hcc : coerceLiteral c D tm none l t' with
    | ok r =>
      rw [hcc] at h
      by_cases hr : r = .undefined
      · subst hr; simp only [Out.ok.injEq] at h; exact absurd h.symm hu
      · have : cv = .list [r] := by cases r <;> simp_all
        subst this
        exact .list t' [r] (by intro x hx; rw [List.mem_singleton.1 hx]; exact ih hc hu' r hcc hr)
    | err e => rw [hcc] at h; simp at h
    | crash k => rw [hcc] at h; simp at h
  | case9 l path hv n hn =>
    intro cv h hu
    rw [coerceLiteral_null c D tm none _ hv hn] at h
    simp only [InType.isNonNull, Bool.false_eq_true, ↓reduceIte, Out.ok.injEq] at h
    subst h; exact .null _ rfl
  | case10 l path hv n hn fields oneOf hf fs ho ih =>
    intro cv h hu
    obtain ⟨hpu, hpc⟩ := Lit.asObj_props ho
    obtain ⟨hfsn, huf⟩ := hpu hu'
    have hcf := hpc hc
    have hnames := hW.fieldsNodup n fields oneOf hf
    have hnv : ∀ f : Field, ∀ fv, litGetLast fs f.name = some fv → fv.isVar = false :=
      fun f fv hfv => isVar_false_of_const (Lit.isConstFields_mem hcf (litGetLast_mem hfv))
    rw [coerceLiteral_obj c D tm none hv hn hf ho] at h
    split at h
    · simp only [Out.ok.injEq] at h; exact absurd h.symm hu
    · cases hs : seqFields (fields.map (litG c D tm none fs)) with
      | ok o =>
        rw [hs] at h
        cases o with
        | none => simp only [Out.ok.injEq] at h; exact absurd h.symm hu
        | some es =>
          simp only at h
          have hes := seqFields_some hs
          rw [List.filterMap_map] at hes
          have hallok := seqFields_some_all hs
          have hsub : (es.map (·.1)).Sublist (fields.map (·.name)) := by
            rw [hes]
            apply filterMap_keys_sublist
            intro f k cv' hφ
            simp only [Function.comp] at hφ
            cases hg : litG c D tm none fs f with
            | ok x =>
              rw [hg] at hφ
              cases x <;> simp only [entryOf, Option.some.injEq, Prod.mk.injEq, reduceCtorEq] at hφ
              obtain ⟨rfl, rfl⟩ := hφ
              exact (litG_entry c D tm (hnv f) hg).1
            | err e => rw [hg] at hφ; simp [entryOf] at hφ
            | crash k' => rw [hg] at hφ; simp [entryOf] at hφ
          -- where each entry comes from
          have hsrc : ∀ k cv', (k, cv') ∈ es → ∃ f ∈ fields, k = f.name ∧ cv' ≠ .undefined ∧
              ((∃ fv, litGetLast fs f.name = some fv ∧ coerceLiteral c D tm none fv f.type = .ok cv') ∨
               (litGetLast fs f.name = none ∧ D f = .ok cv')) := by
            intro k cv' hmem
            rw [hes] at hmem
            obtain ⟨f', hf'', hφ⟩ := List.mem_filterMap.1 hmem
            simp only [Function.comp] at hφ
            cases hg : litG c D tm none fs f' with
            | ok x =>
              rw [hg] at hφ
              cases x <;> simp only [entryOf, Option.some.injEq, Prod.mk.injEq, reduceCtorEq] at hφ
              obtain ⟨rfl, rfl⟩ := hφ
              obtain ⟨hk, hcu, hsrc⟩ := litG_entry c D tm (hnv f') hg
              exact ⟨f', hf'', hk, hcu, hsrc⟩
            | err e => rw [hg] at hφ; simp [entryOf] at hφ
            | crash k' => rw [hg] at hφ; simp [entryOf] at hφ
          have hconf : ∀ k cv', (k, cv') ∈ es → ∀ f ∈ fields, f.name = k → Conforms D tm f.type cv' := by
            intro k cv' hmem f hf' hfk
            obtain ⟨f', hf'', hk, hcu, hsrc'⟩ := hsrc k cv' hmem
            have : f = f' := nodup_name_eq hnames hf' hf'' (hfk.trans hk)
            subst this
            rcases hsrc' with ⟨fv, hfv, hcv⟩ | ⟨_, hdf⟩
            · exact ih f fv hfv (Lit.isConstFields_mem hcf (litGetLast_mem hfv))
                (Lit.UniqueFields_mem huf (litGetLast_mem hfv)) _ hcv hcu
            · exact hDC.conform f _ hdf hcu
          have hpres : ∀ f ∈ fields, (f.type.isNonNull = true ∨ D f ≠ .ok .undefined) → f.name ∈ es.map (·.1) := by
            intro f hf' hneed
            obtain ⟨x, hx, hxn⟩ := hallok _ (List.mem_map.2 ⟨f, hf', rfl⟩)
            obtain ⟨cv', hxe⟩ := litG_present c D tm (hnv f) hDC.present hx hxn hneed
            rw [hes]
            simp only [List.mem_map, List.mem_filterMap, Function.comp]
            exact ⟨(f.name, cv'), ⟨f, hf', by rw [hx, hxe]; rfl⟩, rfl⟩
          by_cases hoo : oneOf = true
          · subst hoo
            simp only [↓reduceIte] at h
            obtain ⟨n', k, c', hln, hes1, hci, hcv⟩ := oneOfLiteral_ok h hu
            subst hcv
            -- the single entry belongs to the single literal field, so it is not None
            have hkn : k = n' := by
              obtain ⟨f0, hf0, hk0, hcu0, hsrc0⟩ := hsrc k c' (by rw [hes1]; simp)
              rcases hsrc0 with ⟨fv, hfv, _⟩ | ⟨_, hdf⟩
              · have hmem := litGetLast_mem hfv
                have : f0.name ∈ litNames fs := by
                  rw [litNames_of_nodup hfsn]; exact List.mem_map.2 ⟨(f0.name, fv), hmem, rfl⟩
                rw [hln] at this
                simp only [List.mem_singleton] at this
                rw [hk0, this]
              · rw [hW.oneOfNoDefaults n fields hf f0 hf0] at hdf
                simp only [Out.ok.injEq] at hdf
                exact absurd hdf.symm hcu0
            subst hkn
            have hcn : c' ≠ .none := by
              intro hc'
              have := (coercedIsNone_self k c').2 hc'
              rw [this] at hci; cases hci
            exact .obj n fields true es hf hsub hconf hpres (fun _ => ⟨k, c', hes1, hcn⟩)
          · simp only [hoo, Bool.false_eq_true, ↓reduceIte, Out.ok.injEq] at h
            subst h
            exact .obj n fields oneOf es hf hsub hconf hpres (fun h' => absurd h' hoo)
      | err e => rw [hs] at h; simp at h
      | crash k => rw [hs] at h; simp at h
  | case11 l path hv n hn fields oneOf hf ho =>
    intro cv h hu
    rw [coerceLiteral_notobj c D tm none hv hn hf ho] at h
    simp only [Out.ok.injEq] at h; exact absurd h.symm hu
  | case12 l path hv n hn s hf hdv =>
    intro cv h hu
    rw [coerceLiteral] at h
    simp only [hv, hn, Bool.false_eq_true, ↓reduceIte, hf, Out.ok.injEq] at h
    subst h
    unfold leafLiteral at hu ⊢
    simp only [Leaf.coerceInputLiteral] at hu ⊢
    split
    · rename_i r hr; exact .scalar n s r hf (scalar_literal_conforms' c s l r hr)
    · rename_i hno
      split at hu
      · rename_i r hr; exact absurd hr (hno r)
      · exact absurd rfl hu
  | case13 l path hv n hn s hf hdv =>
    intro cv h hu
    rw [coerceLiteral] at h
    simp only [hv, hn, Bool.false_eq_true, ↓reduceIte, hf, Out.ok.injEq] at h
    subst h
    exact absurd ((isDefined_iff _).2 hu) hdv
  | case14 l path hv n hn e hf hdv =>
    intro cv h hu
    rw [coerceLiteral] at h
    simp only [hv, hn, Bool.false_eq_true, ↓reduceIte, hf, Out.ok.injEq] at h
    subst h
    unfold leafLiteral at hu ⊢
    simp only [Leaf.coerceInputLiteral] at hu ⊢
    split
    · rename_i r hr
      cases l <;> simp only [EnumType.coerceInputLiteral] at hr
      all_goals try (simp at hr; done)
      rename_i s
      split at hr
      · rename_i w hw
        simp only [Out.ok.injEq] at hr; subst hr
        exact .enum n e s w hf (dictGet_mem hw)
      · simp at hr
    · rename_i hno
      split at hu
      · rename_i r hr; exact absurd hr (hno r)
      · exact absurd rfl hu
  | case15 l path hv n hn e hf hdv =>
    intro cv h hu
    rw [coerceLiteral] at h
    simp only [hv, hn, Bool.false_eq_true, ↓reduceIte, hf, Out.ok.injEq] at h
    subst h
    exact absurd ((isDefined_iff _).2 hu) hdv
  | case16 l path hv n hn hf =>
    intro cv h hu
    rw [coerceLiteral] at h
    simp only [hv, hn, Bool.false_eq_true, ↓reduceIte, hf, Out.ok.injEq] at h
    exact absurd h.symm hu

end
end Gql.Values
