import Gql.Proofs.ValueRoundtrip
import Gql.Proofs.LexLeaves
import Gql.Proofs.C08Paired
/-!
# C08: values whose strings hold verbatim surrogate pairs

`Val.wfP` is `Val.wf` with "every code point of a string value is a Unicode scalar value" replaced
by `Paired` (scalar values and leading+trailing surrogate pairs — everything a STRING /
BLOCK_STRING token of the lexer can carry).  `render_lex` (`lexVP`), the parser on the printed
tokens (`parseVP`) and the source-level round trip (`parseSource_value_printP`) are re-proved for
it; the only leaves that differ from `ValueLex` / `ValueParse` are the two string leaves
(`Lexes.stringP`, `Lexes.blockP`).
-/
namespace Gql.Text
open Gql.Text.Pairs

/-- Re-indentation inserts spaces after line feeds only: it never separates a pair. -/
theorem prun_indentLF (k : Nat) (x : List Nat) : ∀ s, prun s (indentLF k x) = prun s x := by
  induction x with
  | nil => intro s; rfl
  | cons c r ih =>
    intro s
    by_cases hc : c = 10
    · subst hc
      simp only [indentLF, ↓reduceIte, prun]
      cases hp : pstep s 10 with
      | none => rfl
      | some s' =>
        obtain ⟨_, rfl⟩ := pstep_scalar (by decide) hp
        simp only []
        rw [prun_append]
        have : prun false (List.replicate k 32) = some false :=
          Paired.of_forall_scalar (by intro c hc; simp at hc; rcases hc with ⟨_, rfl⟩; decide)
        rw [this]
        exact ih false
    · simp only [indentLF, hc, ↓reduceIte, prun]
      cases pstep s c with
      | none => rfl
      | some s' => exact ih s'

theorem paired_indentLF (k : Nat) (x : List Nat) (h : Paired x) : Paired (indentLF k x) := by
  unfold Paired at *
  rw [prun_indentLF]; exact h

/-- **Re-indentation.**  Indenting a printed block string (as the printer's `indent` does, `k`
spaces after every LF, any `k`) does not change the value the lexer reads. -/
theorem indent_printed_roundtrip_loop_paired (k w : Nat) (v rest : List Nat) (st : LexState) (start ls : Nat)
    (hs : Paired v) (hrep : BlockRepresentable v) :
    tokOf (readBlockStringLoop (indentLF k (printBlockStringW w v false) ++ rest) st start 3 3 ls [] []) =
      .ok (mkToken st .blockString start (indentLF k (printBlockStringW w v false)).length (some v)) := by
  rcases pbsAfter_cases (pbsFlags w v false) with hA | hA
  · rw [indentLF_no10 k _ (no_lf_of_after_nil w v hA)]
    exact printBlockStringW_roundtrip_loop_paired w v false rest st start ls hs hrep
  · have hne : v ≠ [] := by
      intro h; subst h
      simp [pbsFlags, pbsAfter, escapeTQ, reSplitNL, endsWith] at hA
    obtain ⟨h13, _⟩ := representable_lines v hne hrep
    -- the indented text is the escaped form of `V`
    generalize hBdef : pbsBefore (pbsFlags w v false) = before
    have hBc : before = [] ∨ before = [10] := hBdef ▸ pbsBefore_cases _
    let Y := before ++ v
    let V := indentLF k Y ++ 10 :: List.replicate k 32
    have hescY : escapeTQ Y = before ++ escapeTQ v := by
      rcases hBc with h | h <;> subst h
      · rfl
      · show escapeTQ (10 :: v) = 10 :: escapeTQ v
        exact escapeTQ_ne v (by decide)
    have hsp : ∀ c ∈ (10 :: List.replicate k 32), c ≠ 34 := by
      intro c hc; simp at hc; rcases hc with rfl | ⟨_, rfl⟩ <;> decide
    have hescV : escapeTQ V = indentLF k (before ++ escapeTQ v ++ [10]) := by
      show escapeTQ (indentLF k Y ++ 10 :: List.replicate k 32) = _
      rw [escapeTQ_append_noq _ _ _ (Nat.le_refl _) (by simp), escapeTQ_noq _ hsp,
        escapeTQ_indentLF k Y _ (Nat.le_refl _), hescY, indentLF_append k _ [10]]
      simp [indentLF]
    have htext : indentLF k (printBlockStringW w v false) =
        [34, 34, 34] ++ (escapeTQ V ++ ([] ++ [34, 34, 34])) := by
      unfold printBlockStringW
      simp only [hA, hBdef, indentLF_append]
      rw [hescV, indentLF_append, indentLF_append]
      simp [indentLF]
    have hbefore : Paired before := by
      rcases hBc with hb | hb <;> subst hb <;> decide
    have hgoodV : PGood V := by
      refine ⟨?_, ?_⟩
      · show Paired (indentLF k Y ++ 10 :: List.replicate k 32)
        refine Paired.append (paired_indentLF k Y (Paired.append hbefore hs)) ?_
        exact Paired.of_forall_scalar (by intro c hc; simp at hc; rcases hc with rfl | ⟨_, rfl⟩ <;> decide)
      · intro c hc
        have hc' : c ∈ indentLF k Y ∨ c ∈ (10 :: List.replicate k 32) := List.mem_append.mp hc
        rcases hc' with hc' | hc'
        · rcases mem_indentLF hc' with h | h
          · have : c ∈ before ∨ c ∈ v := List.mem_append.mp h
            rcases this with h | h
            · rcases hBc with hb | hb <;> subst hb
              · simp at h
              · simp at h; subst h; decide
            · exact h13 c h
          · subst h; decide
        · simp at hc'; rcases hc' with rfl | ⟨_, rfl⟩ <;> decide
    have hopenV : endsOpen V = true → ([] : List Nat) = [10] := by
      intro h
      have := endsOpen_tail_plain (10 :: List.replicate k 32) (by simp)
        (by intro c hc; simp at hc; rcases hc with rfl | ⟨_, rfl⟩ <;> decide) _ (indentLF k Y) (Nat.le_refl _)
      rw [this] at h; cases h
    have hscan := scan_value_paired st start rest [] (Or.inl rfl) V.length V (Nat.le_refl _) [34, 34, 34] 3
      ls [] [] (by simp) hgoodV hopenV
    simp only [List.length_cons, List.length_nil, Nat.zero_add, slice_self, List.append_nil,
      List.nil_append, afterLines, List.map_nil] at hscan
    -- the raw lines
    have hlinesY : linesFrom [] Y = afterLines before ++ splitLF v := by
      rcases hBc with h | h <;> subst h
      · simp [Y, afterLines, linesFrom_nil]
      · simp [Y, afterLines, linesFrom, linesFrom_nil, splitLF_lf]
    have hYne : afterLines before ++ splitLF v ≠ [] := by simp [splitLF_ne_nil]
    have hlines : linesFrom [] V = padTail k (afterLines before ++ splitLF v ++ [[]]) := by
      show linesFrom [] (indentLF k Y ++ 10 :: List.replicate k 32) = _
      rw [linesFrom_append_lf, linesFrom_indentLF, hlinesY,
        linesFrom_no10 [] _ (by intro c hc; simp at hc; omega), padTail_snoc k _ hYne]
      simp
    have hded : dedentBlockStringLines (linesFrom [] V) = splitLF v := by
      rw [hlines, dedent_padTail]
      have := dedent_printed w v false hne hrep
      rw [hA, hBdef] at this
      simpa [afterLines] using this
    rw [htext]
    simp only [List.append_assoc, List.cons_append, List.nil_append, Nat.zero_add] at hscan ⊢
    rw [hscan]
    unfold blockTok
    rw [hded]
    have hj := joinLines_linesFrom v []
    rw [linesFrom_nil] at hj
    simp only [List.nil_append] at hj
    rw [hj]
    congr 2
    simp
    omega

theorem Lexes.stringP (s : List Nat) (hsc : Paired s)
    (hT : tableOK Generated.escapeTable = true) (hC : tableComplete Generated.escapeTable = true) :
    Lexes true (printString s) [(.string, some s)] := by
  apply Lexes.single true (printString s) .string (some s) (by decide) (by decide)
  intro pre rest st hs
  have hsafe := hs rfl
  have hnb := printString_not_block Generated.escapeTable hT hC s rest hsafe pre
  have hget : (pre ++ (printString s ++ rest))[pre.length]? = some 34 := by
    rw [getElem?_pre0]; rfl
  obtain ⟨hlen, hidx⟩ := index_of_getElem? hget
  have hloop := readStringLoop_translate_paired Generated.escapeTable hT hC st pre.length rest s.length s (Nat.le_refl _) (pre ++ [34]) []
    (pre.length + 1) (by simp) hsc
  have hb : pre ++ (printString s ++ rest) = (pre ++ [34]) ++ (translate Generated.escapeTable s ++ 34 :: rest) := by
    simp [printString, printStringWith]
  refine ⟨mkToken st .string pre.length (pre.length + (printString s).length) (some s), st, ?_, rfl, rfl, rfl⟩
  rw [readNextToken]
  simp only [hlen, ↓reduceDIte, hidx, Out.bind_ok]
  simp only [show ¬ ((34 : Nat) = 32 ∨ (34 : Nat) = 9 ∨ (34 : Nat) = 44 ∨ (34 : Nat) = 65279) by decide,
    ↓reduceIte, show ¬ ((34 : Nat) = 10) by decide, show ¬ ((34 : Nat) = 13) by decide,
    show ¬ ((34 : Nat) = 35) by decide]
  simp only [printString] at hnb ⊢
  simp only [hnb, ↓reduceIte, readString]
  have hb' : pre ++ (printStringWith Generated.escapeTable s ++ rest) =
      (pre ++ [34]) ++ (translate Generated.escapeTable s ++ 34 :: rest) := by
    simp [printStringWith]
  have hl : (pre ++ [34]).length = pre.length + 1 := by simp
  rw [hl] at hloop
  rw [hb', hloop, slice_self]
  simp [printStringWith, mkToken, Nat.add_assoc, Nat.add_comm 1]

/-- A (re-indented) printed block string, anywhere in a text. -/
theorem Lexes.blockP (k w : Nat) (s : List Nat) (hsc : Paired s)
    (hrep : BlockRepresentable s) :
    Lexes true (indentLF k (printBlockStringW w s false)) [(.blockString, some s)] := by
  apply Lexes.single true _ .blockString (some s) (by decide) (by decide)
  intro pre rest st _
  obtain ⟨X, hX⟩ := indentLF_printBlock_head k w s
  have hloop := indent_printed_roundtrip_loop_paired k w s rest st pre.length
  have hshift := blockLoop_shift pre (indentLF k (printBlockStringW w s false) ++ rest) st pre.length
    ((indentLF k (printBlockStringW w s false) ++ rest).length) 3 3 st.lineStart st.lineStart [] []
    (by omega)
  rw [hloop st.lineStart hsc hrep] at hshift
  simp only [shiftOut] at hshift
  obtain ⟨st', hst⟩ := tokOf_eq_ok hshift
  refine ⟨{ mkToken st .blockString pre.length (indentLF k (printBlockStringW w s false)).length (some s) with
    stop := (indentLF k (printBlockStringW w s false)).length + pre.length }, st', ?_, rfl, rfl, ?_⟩
  · have hget : (pre ++ (indentLF k (printBlockStringW w s false) ++ rest))[pre.length]? = some 34 := by
      rw [getElem?_pre0, hX]; rfl
    obtain ⟨hlen, hidx⟩ := index_of_getElem? hget
    have hs2 : slice (pre ++ (indentLF k (printBlockStringW w s false) ++ rest)) (pre.length + 1) (pre.length + 3) =
        [34, 34] := by
      rw [show pre.length + 3 = pre.length + 1 + 2 by omega]
      apply slice_two
      · rw [getElem?_pre, hX]; rfl
      · rw [show pre.length + 1 + 1 = pre.length + 2 by omega, getElem?_pre, hX]; rfl
    rw [readNextToken]
    simp only [hlen, ↓reduceDIte, hidx, Out.bind_ok]
    simp only [show ¬ ((34 : Nat) = 32 ∨ (34 : Nat) = 9 ∨ (34 : Nat) = 44 ∨ (34 : Nat) = 65279) by decide,
      ↓reduceIte, show ¬ ((34 : Nat) = 10) by decide, show ¬ ((34 : Nat) = 13) by decide,
      show ¬ ((34 : Nat) = 35) by decide, hs2, readBlockString]
    exact hst
  · simp [mkToken, Nat.add_comm]

end Gql.Text

namespace Gql.Text
open Gql.Syntax Gql.Text.Pairs

namespace Val

mutual
  /-- Well-formed = what `parse_value_literal(is_const)` can build: valid names and number
  texts, enum values other than `true`/`false`/`null`, strings of scalar values and verbatim surrogate pairs (`Paired`), block string
  values that a block string literal can denote, no variables in constant values. -/
  def wfP (isConst : Bool) : Val → Prop
    | var n => isConst = false ∧ validName n = true
    | int s => IsNum false s
    | float s => IsNum true s
    | str s b => Paired s ∧ (b = true → BlockRepresentable s)
    | bool _ => True
    | null => True
    | enum n => validName n = true ∧ n ≠ S "true" ∧ n ≠ S "false" ∧ n ≠ S "null"
    | list vs => wfPList isConst vs
    | obj fs => wfPFields isConst fs
  def wfPList (isConst : Bool) : List Val → Prop
    | [] => True
    | v :: vs => wfP isConst v ∧ wfPList isConst vs
  def wfPFields (isConst : Bool) : List (List Nat × Val) → Prop
    | [] => True
    | (n, v) :: fs => validName n = true ∧ wfP isConst v ∧ wfPFields isConst fs
end

end Val

mutual
  theorem Val.wfP_of_wf (c : Bool) : ∀ v : Val, Val.wf c v → Val.wfP c v
    | .var _, h => h
    | .int _, h => h
    | .float _, h => h
    | .str _ _, h => ⟨Paired.of_forall_scalar h.1, h.2⟩
    | .bool _, _ => trivial
    | .null, _ => trivial
    | .enum _, h => h
    | .list vs, h => Val.wfPList_of_wf c vs h
    | .obj fs, h => Val.wfPFields_of_wf c fs h
  theorem Val.wfPList_of_wf (c : Bool) : ∀ vs : List Val, Val.wfList c vs → Val.wfPList c vs
    | [], _ => trivial
    | v :: vs, h => ⟨Val.wfP_of_wf c v h.1, Val.wfPList_of_wf c vs h.2⟩
  theorem Val.wfPFields_of_wf (c : Bool) : ∀ fs : List (List Nat × Val), Val.wfFields c fs → Val.wfPFields c fs
    | [], _ => trivial
    | (_, v) :: fs, h => ⟨h.1, Val.wfP_of_wf c v h.2.1, Val.wfPFields_of_wf c fs h.2.2⟩
end

theorem print_ne_nilP (w : Widths) (hw : 4 ≤ w.object) (c : Bool) (v : Val) (h : Val.wfP c v) :
    Val.print w v ≠ [] := by
  match v, h with
  | .var n, _ => simp [Val.print]
  | .int s, h =>
    obtain ⟨⟨sign, ip, fr, ex⟩, ⟨_, hip, _, _⟩, rfl, _⟩ := h
    cases ip with
    | nil => simp [intPartOK] at hip
    | cons a r => simp [Val.print, NumParts.text]
  | .float s, h =>
    obtain ⟨⟨sign, ip, fr, ex⟩, ⟨_, hip, _, _⟩, rfl, _⟩ := h
    cases ip with
    | nil => simp [intPartOK] at hip
    | cons a r => simp [Val.print, NumParts.text]
  | .str s true, _ => simp [Val.print, printBlockStringW]
  | .str s false, _ => simp [Val.print, printString, printStringWith]
  | .bool true, _ => simp [Val.print]; decide
  | .bool false, _ => simp [Val.print]; decide
  | .null, _ => simp [Val.print]; decide
  | .enum n, h =>
    have := h.1
    cases n with
    | nil => simp [validName] at this
    | cons a r => simp [Val.print]
  | .list vs, _ =>
    simp only [Val.print]
    split <;> simp
  | .obj fs, _ =>
    simp only [Val.print]
    split
    · rename_i hlong
      cases fs with
      | nil =>
        simp [Val.printFields, join, joinWith] at hlong
        omega
      | cons f fs' =>
        obtain ⟨n, v'⟩ := f
        have hne : join (Val.printFields w ((n, v') :: fs')) [10] ≠ [] := by
          have hall := printFields_ne_nil w ((n, v') :: fs')
          rw [join_eq_joinWith _ _ hall]
          exact joinWith_eq_nil hall (by simp [Val.printFields])
        have hind : indent (join (Val.printFields w ((n, v') :: fs')) [10]) ≠ [] := by
          unfold indent wrap
          have : indentNL (join (Val.printFields w ((n, v') :: fs')) [10]) ≠ [] := by
            intro h0
            apply hne
            cases hj : join (Val.printFields w ((n, v') :: fs')) [10] with
            | nil => rfl
            | cons a r => rw [hj] at h0; by_cases ha : a = 10 <;> simp [indentNL, ha] at h0
          cases hx : indentNL (join (Val.printFields w ((n, v') :: fs')) [10]) with
          | nil => exact absurd hx this
          | cons a r => simp
        unfold block wrap
        cases hx : indent (join (Val.printFields w ((n, v') :: fs')) [10]) with
        | nil => exact absurd hx hind
        | cons a r => simp
    · simp

theorem printList_ne_nilP (w : Widths) (hw : 4 ≤ w.object) (c : Bool) (vs : List Val) (h : Val.wfPList c vs) :
    ∀ t ∈ Val.printList w vs, t ≠ [] := by
  induction vs with
  | nil => intro t ht; simp [Val.printList] at ht
  | cons v r ih =>
    intro t ht
    simp only [Val.printList, List.mem_cons] at ht
    rcases ht with rfl | ht
    · exact print_ne_nilP w hw c v h.1
    · exact ih h.2 t ht

section
variable (w : Widths) (hw : 4 ≤ w.object) (c : Bool)
variable (hT : tableOK Generated.escapeTable = true) (hC : tableComplete Generated.escapeTable = true)
include hw hT hC

theorem lexes_of_no10P {text : List Nat} {ks : List KV} (h : Lexes true text ks)
    (hno : ∀ x ∈ text, x ≠ 10) (k : Nat) : Lexes true (indentLF k text) ks := by
  rw [indentLF_no10 k text hno]; exact h

omit hw hT hC in
theorem lexes_dollar_nameP (n : List Nat) (h : validName n = true) :
    Lexes true (36 :: n) [(.dollar, none), (.name, some n)] := by
  have := Lexes.append_l (Lexes.punct 36 .dollar (by decide)) (Lexes.name n h)
  simpa using this

mutual
  theorem lexVP (v : Val) (h : Val.wfP c v) (k : Nat) :
      Lexes true (indentLF k (Val.print w v)) (Val.kvs v) := by
    match v, h with
    | .var n, h =>
      apply lexes_of_no10P w hw hT hC (lexes_dollar_nameP n h.2)
      intro x hx
      simp at hx
      rcases hx with rfl | hx
      · omega
      · exact name_no10 h.2 x hx
    | .int s, h =>
      exact lexes_of_no10P w hw hT hC (Lexes.number false s h) (isNum_no10 h) k
    | .float s, h =>
      exact lexes_of_no10P w hw hT hC (Lexes.number true s h) (isNum_no10 h) k
    | .str s true, h =>
      simp only [Val.print, ↓reduceIte, Val.kvs]
      exact Lexes.blockP k w.block s h.1 (h.2 rfl)
    | .str s false, h =>
      simp only [Val.print, Bool.false_eq_true, ↓reduceIte, Val.kvs]
      exact lexes_of_no10P w hw hT hC (Lexes.stringP s h.1 hT hC) (printString_no10 hT hC s) k
    | .bool true, _ =>
      exact lexes_of_no10P w hw hT hC (Lexes.name _ validName_true.1) (by decide) k
    | .bool false, _ =>
      exact lexes_of_no10P w hw hT hC (Lexes.name _ validName_true.2.1) (by decide) k
    | .null, _ =>
      exact lexes_of_no10P w hw hT hC (Lexes.name _ validName_true.2.2) (by decide) k
    | .enum n, h =>
      exact lexes_of_no10P w hw hT hC (Lexes.name n h.1) (name_no10 h.1) k
    | .list vs, h =>
      have hne := printList_ne_nilP w hw c vs h
      simp only [Val.print, Val.kvs]
      rw [join_eq_joinWith [44, 32] _ hne, join_eq_joinWith [10] _ hne]
      split
      · -- wrapped
        by_cases hvs : Val.printList w vs = []
        · have hJ := lexListP vs h (k + 2) [10] (by intro x hx; simp at hx; simp [hx]) (by simp)
          rw [hvs] at hJ ⊢
          have := lexes_bracket 91 93 .bracketL .bracketR (by decide) (by decide) (by decide)
            (10 :: List.replicate k 32) (10 :: List.replicate k 32) _ _ (ignorable_lf_spaces k)
            (ignorable_lf_spaces k) hJ
          simpa [joinWith, indent_nil, indentLF, List.append_assoc] using this
        · have hJ := lexListP vs h (k + 2) (10 :: List.replicate (k + 2) 32) (ignorable_lf_spaces _) (by simp)
          rw [indentLF_wrapped k 91 93 _ hvs hne (by decide) (by decide)]
          exact lexes_bracket 91 93 .bracketL .bracketR (by decide) (by decide) (by decide) _ _ _ _
            (ignorable_append (ignorable_lf_spaces k) (by intro x hx; simp at hx; simp [hx]))
            (ignorable_lf_spaces k) hJ
      · -- one line
        have hJ := lexListP vs h k [44, 32] (by intro x hx; simp at hx; rcases hx with rfl | rfl <;> simp) (by simp)
        have := lexes_bracket 91 93 .bracketL .bracketR (by decide) (by decide) (by decide) [] [] _ _
          (by intro x hx; simp at hx) (by intro x hx; simp at hx) hJ
        simpa [indentLF_append, indentLF_joinWith, indentLF, List.append_assoc] using this
    | .obj fs, h =>
      have hne := printFields_ne_nil w fs
      simp only [Val.print, Val.kvs]
      rw [join_eq_joinWith [44, 32] _ hne]
      split
      · -- wrapped
        rename_i hlong
        have hfs : Val.printFields w fs ≠ [] := by
          intro h0
          rw [h0] at hlong
          simp [joinWith] at hlong
          omega
        have hJ := lexFieldsP fs h (k + 2) (10 :: List.replicate (k + 2) 32) (ignorable_lf_spaces _) (by simp)
        have hblock : block (Val.printFields w fs) =
            [123] ++ [10] ++ indent (joinWith [10] (Val.printFields w fs)) ++ [10] ++ [125] := by
          unfold block wrap
          rw [join_eq_joinWith [10] _ hne, indent_of_ne (joinWith_eq_nil hne hfs)]
          simp
        rw [hblock, indentLF_wrapped k 123 125 _ hfs hne (by decide) (by decide)]
        exact lexes_bracket 123 125 .braceL .braceR (by decide) (by decide) (by decide) _ _ _ _
          (ignorable_append (ignorable_lf_spaces k) (by intro x hx; simp at hx; simp [hx]))
          (ignorable_lf_spaces k) hJ
      · -- one line
        have hJ := lexFieldsP fs h k [44, 32] (by intro x hx; simp at hx; rcases hx with rfl | rfl <;> simp) (by simp)
        have := lexes_bracket 123 125 .braceL .braceR (by decide) (by decide) (by decide) [32] [32] _ _
          (by intro x hx; simp at hx; simp [hx]) (by intro x hx; simp at hx; simp [hx]) hJ
        simpa [indentLF_append, indentLF_joinWith, indentLF, List.append_assoc] using this
  theorem lexListP (vs : List Val) (h : Val.wfPList c vs) (k : Nat) (sep : List Nat) (hsep : Ignorable sep)
      (hne : sep ≠ []) :
      Lexes true (joinWith sep ((Val.printList w vs).map (indentLF k))) (Val.kvsList vs) := by
    match vs, h with
    | [], _ => exact Lexes.nil.weaken true
    | v :: vs', h =>
      have hv := lexVP v h.1 k
      have ih := lexListP vs' h.2 k sep hsep hne
      cases vs' with
      | nil => simpa [Val.printList, joinWith, Val.kvsList] using hv
      | cons v' rest =>
        simp only [Val.printList, List.map_cons, joinWith, Val.kvsList] at ih ⊢
        have := Lexes.append_l (Lexes.append_ign hv hsep hne) ih
        simpa [List.append_assoc] using this
  theorem lexFieldsP (fs : List (List Nat × Val)) (h : Val.wfPFields c fs) (k : Nat) (sep : List Nat)
      (hsep : Ignorable sep) (hne : sep ≠ []) :
      Lexes true (joinWith sep ((Val.printFields w fs).map (indentLF k))) (Val.kvsFields fs) := by
    match fs, h with
    | [], _ => exact Lexes.nil.weaken true
    | (n, v) :: fs', h =>
      have hv := lexVP v h.2.1 k
      have ih := lexFieldsP fs' h.2.2 k sep hsep hne
      -- one field: `name: value`
      have hfield : Lexes true (indentLF k (n ++ S ": " ++ Val.print w v))
          ((.name, some n) :: (.colon, none) :: Val.kvs v) := by
        have h1 := Lexes.append_punct (Lexes.name n h.1) 58 .colon (by decide) (by decide)
        have h2 := Lexes.append_l h1 (Lexes.ignorable [32] (by intro x hx; simp at hx; simp [hx]))
        have h3 := Lexes.append_l h2 hv
        rw [S_colon, indentLF_append, indentLF_append, indentLF_no10 k n (name_no10 h.1)]
        simpa [indentLF, List.append_assoc] using h3
      cases fs' with
      | nil => simpa [Val.printFields, joinWith, Val.kvsFields] using hfield
      | cons f2 rest =>
        obtain ⟨n2, v2⟩ := f2
        simp only [Val.printFields, List.map_cons, joinWith, Val.kvsFields] at ih ⊢
        have := Lexes.append_l (Lexes.append_ign hfield hsep hne) ih
        simpa [List.append_assoc] using this
end

end

end Gql.Text

namespace Gql.Syntax
open Gql Gql.Text

section
variable (cfg : Cfg) (hm : cfg.maxTokens = none) (c : Bool)
include hm

mutual
  theorem parseVP (v : Val) (h : Val.wfP c v) (n : Nat) (toks : List Token) (r : Stream) (cnt : Nat)
      (hn : v.kvs.length < n) (hkv : toks.map Token.kv = v.kvs) (hne : NonEof toks) (hr : r.Ready) :
      ∃ c', valueLit n cfg c (PSat cnt (feed toks r)) = .ok (v.toAst, PSat c' r) := by
    obtain ⟨n, rfl⟩ : ∃ n', n = n' + 1 := ⟨n - 1, by omega⟩
    match v, h with
    | .var nm, h =>
      rw [show (Val.var nm).kvs = [(.dollar, none), (.name, some nm)] from rfl] at hkv
      simp only [List.map_eq_cons_iff, List.map_eq_nil_iff] at hkv
      obtain ⟨tD, ts, rfl, hkD, tN, ts2, rfl, hkN, rfl⟩ := hkv
      obtain ⟨hDk, _⟩ := tok_of_kv hkD
      obtain ⟨hNk, hNv⟩ := tok_of_kv hkN
      have hc : c = false := h.1
      subst hc
      have hNne : tN.kind ≠ .eof := by rw [hNk]; decide
      obtain ⟨c1, h1⟩ := expectToken_ok cfg hm .dollar tD (.cons tN r) cnt hDk (by rw [hDk]; decide)
        (by simp [Stream.Ready, hNne])
      obtain ⟨c2, h2⟩ := parseName_ok cfg hm tN nm r c1 hNk hNv hr
      refine ⟨c2, ?_⟩
      rw [valueLit_dispatch cfg n false _ "variable_value" (by simp [feed, hDk, vm_dollar]), dv_var]
      simp only [feed, PSat_cons, parseVariableValue, Bool.false_eq_true, ↓reduceIte, parseVariable,
        bind_eq, h1, h2, pure_eq', mk_var, Val.toAst, Val.nameNode]
    | .int s, _ =>
      rw [show (Val.int s).kvs = [(.int, some s)] from rfl] at hkv
      simp only [List.map_eq_cons_iff, List.map_eq_nil_iff] at hkv
      obtain ⟨t, ts, rfl, hk, rfl⟩ := hkv
      obtain ⟨hk1, hv1⟩ := tok_of_kv hk
      obtain ⟨c1, h1⟩ := advance_cur cfg hm t r cnt (by rw [hk1]; decide) hr
        (fun t => mkNode "IntValueNode" [("value", tokValOrEmpty t)])
      refine ⟨c1, ?_⟩
      rw [valueLit_dispatch cfg n c _ "int" (by simp [feed, hk1, vm_int]), dv_int]
      simp only [feed, PSat_cons, parseNumber]
      rw [h1]
      simp [mk_int, tokValOrEmpty, hv1, Val.toAst]
    | .float s, _ =>
      rw [show (Val.float s).kvs = [(.float, some s)] from rfl] at hkv
      simp only [List.map_eq_cons_iff, List.map_eq_nil_iff] at hkv
      obtain ⟨t, ts, rfl, hk, rfl⟩ := hkv
      obtain ⟨hk1, hv1⟩ := tok_of_kv hk
      obtain ⟨c1, h1⟩ := advance_cur cfg hm t r cnt (by rw [hk1]; decide) hr
        (fun t => mkNode "FloatValueNode" [("value", tokValOrEmpty t)])
      refine ⟨c1, ?_⟩
      rw [valueLit_dispatch cfg n c _ "float" (by simp [feed, hk1, vm_float]), dv_float]
      simp only [feed, PSat_cons, parseNumber]
      rw [h1]
      simp [mk_float, tokValOrEmpty, hv1, Val.toAst]
    | .str s b, _ =>
      rw [show (Val.str s b).kvs = [(if b then .blockString else .string, some s)] from rfl] at hkv
      simp only [List.map_eq_cons_iff, List.map_eq_nil_iff] at hkv
      obtain ⟨t, ts, rfl, hk, rfl⟩ := hkv
      obtain ⟨hk1, hv1⟩ := tok_of_kv hk
      have hne' : t.kind ≠ .eof := by rw [hk1]; cases b <;> decide
      obtain ⟨c1, h1⟩ := advance_cur cfg hm t r cnt hne' hr
        (fun t => mkNode "StringValueNode" [("value", tokValOrEmpty t), ("block", .bool (t.kind == .blockString))])
      refine ⟨c1, ?_⟩
      have hvm : valueMethodOf t.kind = some "string_literal" := by
        rw [hk1]; cases b <;> simp [vm_block, vm_string]
      rw [valueLit_dispatch cfg n c _ "string_literal" (by simpa [feed] using hvm), dv_string]
      simp only [feed, PSat_cons, parseStringLiteral]
      rw [h1]
      cases b <;> simp [mk_str, tokValOrEmpty, hv1, Val.toAst, hk1]
    | .bool b, _ =>
      rw [show (Val.bool b).kvs = [(.name, some (if b then S "true" else S "false"))] from rfl] at hkv
      simp only [List.map_eq_cons_iff, List.map_eq_nil_iff] at hkv
      obtain ⟨t, ts, rfl, hk, rfl⟩ := hkv
      obtain ⟨hk1, hv1⟩ := tok_of_kv hk
      obtain ⟨c1, h1⟩ := parseNamedValues_ok cfg hm t _ r cnt hk1 hv1 hr
      refine ⟨c1, ?_⟩
      rw [valueLit_dispatch cfg n c _ "named_values" (by simp [feed, hk1, vm_name]), dv_named]
      simp only [feed, PSat_cons]
      rw [h1]
      cases b <;> simp [Val.toAst, S_ne.1]
    | .null, _ =>
      rw [show Val.null.kvs = [(.name, some (S "null"))] from rfl] at hkv
      simp only [List.map_eq_cons_iff, List.map_eq_nil_iff] at hkv
      obtain ⟨t, ts, rfl, hk, rfl⟩ := hkv
      obtain ⟨hk1, hv1⟩ := tok_of_kv hk
      obtain ⟨c1, h1⟩ := parseNamedValues_ok cfg hm t _ r cnt hk1 hv1 hr
      refine ⟨c1, ?_⟩
      rw [valueLit_dispatch cfg n c _ "named_values" (by simp [feed, hk1, vm_name]), dv_named]
      simp only [feed, PSat_cons]
      rw [h1]
      simp [Val.toAst, S_ne.2.1, S_ne.2.2]
    | .enum nm, h =>
      rw [show (Val.enum nm).kvs = [(.name, some nm)] from rfl] at hkv
      simp only [List.map_eq_cons_iff, List.map_eq_nil_iff] at hkv
      obtain ⟨t, ts, rfl, hk, rfl⟩ := hkv
      obtain ⟨hk1, hv1⟩ := tok_of_kv hk
      obtain ⟨c1, h1⟩ := parseNamedValues_ok cfg hm t _ r cnt hk1 hv1 hr
      refine ⟨c1, ?_⟩
      rw [valueLit_dispatch cfg n c _ "named_values" (by simp [feed, hk1, vm_name]), dv_named]
      simp only [feed, PSat_cons]
      rw [h1]
      simp [Val.toAst, h.2.1, h.2.2.1, h.2.2.2]
    | .list vs, h =>
      rw [show (Val.list vs).kvs = (.bracketL, none) :: (Val.kvsList vs ++ [(.bracketR, none)]) from rfl] at hkv hn
      rw [List.map_eq_cons_iff] at hkv
      obtain ⟨tL, ts, rfl, hkL, hkv⟩ := hkv
      rw [List.map_eq_append_iff] at hkv
      obtain ⟨tsI, tsR, rfl, hkI, hkR⟩ := hkv
      simp only [List.map_eq_cons_iff, List.map_eq_nil_iff] at hkR
      obtain ⟨tR, tsE, rfl, hkR, rfl⟩ := hkR
      obtain ⟨hLk, _⟩ := tok_of_kv hkL
      obtain ⟨hRk, _⟩ := tok_of_kv hkR
      have hneI : NonEof tsI := hne.tail.append_left
      have hRne : tR.kind ≠ .eof := by rw [hRk]; decide
      have hready1 : (feed tsI (.cons tR r)).Ready := feed_ready _ _ hneI (by simp [Stream.Ready, hRne])
      obtain ⟨c1, h1⟩ := expectToken_ok cfg hm .bracketL tL (feed tsI (.cons tR r)) cnt hLk
        (by rw [hLk]; decide) hready1
      have hlen : (Val.kvsList vs).length + 1 < n := by
        simp only [List.length_cons, List.length_append, List.length_nil] at hn; omega
      have hvsl := length_le_kvsList vs
      obtain ⟨c2, h2⟩ := parseLP vs h n n tsI tR r c1 [] (by omega) (by omega) hkI hneI hRk hr
      refine ⟨c2, ?_⟩
      rw [valueLit_dispatch cfg n c _ "list" (by simp [feed, hLk, vm_bracketL]), dv_list]
      simp only [feed, feed_append, PSat_cons, parseAny, bind_eq, h1, h2, pure_eq', List.nil_append,
        mk_list, Val.toAst]
    | .obj fs, h =>
      rw [show (Val.obj fs).kvs = (.braceL, none) :: (Val.kvsFields fs ++ [(.braceR, none)]) from rfl] at hkv hn
      rw [List.map_eq_cons_iff] at hkv
      obtain ⟨tL, ts, rfl, hkL, hkv⟩ := hkv
      rw [List.map_eq_append_iff] at hkv
      obtain ⟨tsI, tsR, rfl, hkI, hkR⟩ := hkv
      simp only [List.map_eq_cons_iff, List.map_eq_nil_iff] at hkR
      obtain ⟨tR, tsE, rfl, hkR, rfl⟩ := hkR
      obtain ⟨hLk, _⟩ := tok_of_kv hkL
      obtain ⟨hRk, _⟩ := tok_of_kv hkR
      have hneI : NonEof tsI := hne.tail.append_left
      have hRne : tR.kind ≠ .eof := by rw [hRk]; decide
      have hready1 : (feed tsI (.cons tR r)).Ready := feed_ready _ _ hneI (by simp [Stream.Ready, hRne])
      obtain ⟨c1, h1⟩ := expectToken_ok cfg hm .braceL tL (feed tsI (.cons tR r)) cnt hLk
        (by rw [hLk]; decide) hready1
      have hlen : (Val.kvsFields fs).length + 1 < n := by
        simp only [List.length_cons, List.length_append, List.length_nil] at hn; omega
      have hfsl := length_le_kvsFields fs
      obtain ⟨c2, h2⟩ := parseFP fs h n n tsI tR r c1 [] (by omega) (by omega) hkI hneI hRk hr
      refine ⟨c2, ?_⟩
      rw [valueLit_dispatch cfg n c _ "object" (by simp [feed, hLk, vm_braceL]), dv_object]
      simp only [feed, feed_append, PSat_cons, parseAny, bind_eq, h1, h2, pure_eq', List.nil_append,
        mk_obj, Val.toAst]
  theorem parseLP (vs : List Val) (h : Val.wfPList c vs) (n m : Nat) (toks : List Token) (tR : Token)
      (r : Stream) (cnt : Nat) (acc : List Ast) (hn : (Val.kvsList vs).length < n) (hmm : vs.length < m)
      (hkv : toks.map Token.kv = Val.kvsList vs) (hne : NonEof toks) (hRk : tR.kind = .bracketR)
      (hr : r.Ready) :
      ∃ c', untilClose cfg .bracketR (valueLit n cfg c) m acc (PSat cnt (feed toks (.cons tR r))) =
        .ok (acc ++ Val.toAstList vs, PSat c' r) := by
    obtain ⟨m, rfl⟩ : ∃ m', m = m' + 1 := ⟨m - 1, by omega⟩
    have hRne : tR.kind ≠ .eof := by rw [hRk]; decide
    match vs, h with
    | [], _ =>
      simp only [Val.kvsList, List.map_eq_nil_iff] at hkv
      subst hkv
      obtain ⟨c1, h1⟩ := expectOptionalToken_yes cfg hm .bracketR tR r cnt hRk hRne hr
      exact ⟨c1, by simp only [untilClose, feed, PSat_cons, bind_eq, h1, ↓reduceIte, pure_eq', Val.toAstList,
        List.append_nil]⟩
    | v :: vs', h =>
      rw [show Val.kvsList (v :: vs') = v.kvs ++ Val.kvsList vs' from rfl] at hkv hn
      rw [List.map_eq_append_iff] at hkv
      obtain ⟨tv, ts', rfl, hkv1, hkv2⟩ := hkv
      obtain ⟨k0, ks0, hk0, hnotR, _⟩ := kvs_head v
      have : ∃ t0 tv', tv = t0 :: tv' ∧ t0.kind ≠ .bracketR := by
        rw [hk0] at hkv1
        rw [List.map_eq_cons_iff] at hkv1
        obtain ⟨t0, tv', rfl, ht0, _⟩ := hkv1
        exact ⟨t0, tv', rfl, by rw [(tok_of_kv ht0).1]; exact hnotR⟩
      obtain ⟨t0, tv', rfl, ht0⟩ := this
      have hready : (feed ts' (.cons tR r)).Ready :=
        feed_ready _ _ hne.append_right (by simp [Stream.Ready, hRne])
      have hno : expectOptionalToken cfg .bracketR (PSat cnt (feed (t0 :: tv' ++ ts') (.cons tR r))) =
          .ok (false, PSat cnt (feed (t0 :: tv' ++ ts') (.cons tR r))) :=
        expectOptionalToken_no cfg .bracketR _ (by simpa [feed] using ht0)
      simp only [List.length_append] at hn
      obtain ⟨c1, h1⟩ := parseVP v h.1 n (t0 :: tv') (feed ts' (.cons tR r)) cnt (by omega) hkv1
        hne.append_left hready
      obtain ⟨c2, h2⟩ := parseLP vs' h.2 n m ts' tR r c1 (acc ++ [v.toAst]) (by omega)
        (by simp at hmm; omega) hkv2 hne.append_right hRk hr
      refine ⟨c2, ?_⟩
      rw [feed_append] at hno ⊢
      simp only [untilClose, bind_eq, hno, Bool.false_eq_true, ↓reduceIte, h1, h2, Val.toAstList]
      simp
  theorem parseFP (fs : List (List Nat × Val)) (h : Val.wfPFields c fs) (n m : Nat) (toks : List Token)
      (tR : Token) (r : Stream) (cnt : Nat) (acc : List Ast) (hn : (Val.kvsFields fs).length < n)
      (hmm : fs.length < m) (hkv : toks.map Token.kv = Val.kvsFields fs) (hne : NonEof toks)
      (hRk : tR.kind = .braceR) (hr : r.Ready) :
      ∃ c', untilClose cfg .braceR (parseObjectField cfg (valueLit n cfg c)) m acc
          (PSat cnt (feed toks (.cons tR r))) = .ok (acc ++ Val.toAstFields fs, PSat c' r) := by
    obtain ⟨m, rfl⟩ : ∃ m', m = m' + 1 := ⟨m - 1, by omega⟩
    have hRne : tR.kind ≠ .eof := by rw [hRk]; decide
    match fs, h with
    | [], _ =>
      simp only [Val.kvsFields, List.map_eq_nil_iff] at hkv
      subst hkv
      obtain ⟨c1, h1⟩ := expectOptionalToken_yes cfg hm .braceR tR r cnt hRk hRne hr
      exact ⟨c1, by simp only [untilClose, feed, PSat_cons, bind_eq, h1, ↓reduceIte, pure_eq', Val.toAstFields,
        List.append_nil]⟩
    | (nm, v) :: fs', h =>
      rw [show Val.kvsFields ((nm, v) :: fs') =
        (.name, some nm) :: (.colon, none) :: (v.kvs ++ Val.kvsFields fs') from rfl] at hkv hn
      simp only [List.map_eq_cons_iff] at hkv
      obtain ⟨tN, ts1, rfl, hkN, tC, ts2, rfl, hkC, hkv⟩ := hkv
      rw [List.map_eq_append_iff] at hkv
      obtain ⟨tv, ts', rfl, hkv1, hkv2⟩ := hkv
      obtain ⟨hNk, hNv⟩ := tok_of_kv hkN
      obtain ⟨hCk, _⟩ := tok_of_kv hkC
      have hne2 : NonEof (tv ++ ts') := hne.tail.tail
      have hready : (feed ts' (.cons tR r)).Ready :=
        feed_ready _ _ hne2.append_right (by simp [Stream.Ready, hRne])
      have hreadyV : (feed (tv ++ ts') (.cons tR r)).Ready :=
        feed_ready _ _ hne2 (by simp [Stream.Ready, hRne])
      have hCne : tC.kind ≠ .eof := by rw [hCk]; decide
      have hno : expectOptionalToken cfg .braceR (PSat cnt (feed (tN :: tC :: (tv ++ ts')) (.cons tR r))) =
          .ok (false, PSat cnt (feed (tN :: tC :: (tv ++ ts')) (.cons tR r))) :=
        expectOptionalToken_no cfg .braceR _ (by simp [feed, hNk])
      obtain ⟨c1, h1⟩ := parseName_ok cfg hm tN nm (.cons tC (feed (tv ++ ts') (.cons tR r))) cnt hNk hNv
        (by simp [Stream.Ready, hCne])
      obtain ⟨c2, h2⟩ := expectToken_ok cfg hm .colon tC (feed (tv ++ ts') (.cons tR r)) c1 hCk hCne hreadyV
      simp only [List.length_cons, List.length_append] at hn
      obtain ⟨c3, h3⟩ := parseVP v h.2.1 n tv (feed ts' (.cons tR r)) c2 (by omega) hkv1
        hne2.append_left hready
      obtain ⟨c4, h4⟩ := parseFP fs' h.2.2 n m ts' tR r c3
        (acc ++ [.node "ObjectFieldNode" [("name", Val.nameNode nm), ("value", v.toAst)]]) (by omega)
        (by simp at hmm; omega) hkv2 hne2.append_right hRk hr
      refine ⟨c4, ?_⟩
      simp only [feed, feed_append, PSat_cons] at hno h1 h2 ⊢
      have hfield : parseObjectField cfg (valueLit n cfg c)
          { cur := tN, rest := Stream.cons tC (feed tv (feed ts' (Stream.cons tR r))), count := cnt } =
          .ok (.node "ObjectFieldNode" [("name", Val.nameNode nm), ("value", v.toAst)],
            PSat c3 (feed ts' (Stream.cons tR r))) := by
        simp only [parseObjectField, bind_eq, h1, PSat_cons, h2, h3, pure_eq', mk_field, Val.nameNode]
      simp only [untilClose, bind_eq, hno, Bool.false_eq_true, ↓reduceIte, hfield, h4, Val.toAstFields]
      simp
end

end


/-- **Round trip for values at the source level**: parsing the printed text of a well-formed value (`Val.wfP`: string values may hold verbatim surrogate pairs)
with `parse_value` (`c = false`) / `parse_const_value` (`c = true`) rebuilds the tree. -/
theorem parseSource_value_printP (cfg : Cfg) (hm : cfg.maxTokens = none) (w : Widths) (hw : 4 ≤ w.object)
    (hT : tableOK Generated.escapeTable = true) (hC : tableComplete Generated.escapeTable = true)
    (c : Bool) (v : Val) (hwf : Val.wfP c v) :
    parseSource (if c then .constValue else .value) cfg (Val.print w v) = .ok v.toAst := by
  have hlex := lexVP w hw c hT hC v hwf 0
  rw [indentLF_zero] at hlex
  obtain ⟨tks, e, hall, hkv, hek, hne⟩ := lexAll_of_lexes hlex
  have hstream : streamOf (Val.print w v) = feed tks (.eof e.start e.line e.column) := by
    rw [streamOf_of_lexAll _ _ hall, toStream_feed tks e hne hek]
  have hlen : tks.length = v.kvs.length := by rw [← hkv]; simp
  have hbody : ∀ cnt, ∃ c', valueLit (parseFuel (feed tks (.eof e.start e.line e.column))) cfg c
      (PSat cnt (feed tks (.eof e.start e.line e.column))) = .ok (v.toAst, PSat c' (.eof e.start e.line e.column)) := by
    intro cnt
    exact parseVP cfg hm c v hwf _ tks _ cnt (by simp only [parseFuel, feed_length]; omega) hkv hne
      (by simp [Stream.Ready])
  obtain ⟨c'', h⟩ := entry_frame cfg hm tks e.start e.line e.column hne _ v.toAst hbody
  unfold parseSource parseStream parseStreamWith
  cases c
  · simp only [Bool.false_eq_true, ↓reduceIte, show (Entry.value = Entry.schemaCoordinate) = False by simp,
      hstream, runEntry]
    rw [h]
  · simp only [↓reduceIte, show (Entry.constValue = Entry.schemaCoordinate) = False by simp,
      hstream, runEntry]
    rw [h]

end Gql.Syntax
