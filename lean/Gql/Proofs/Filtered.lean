import Gql.Async.Plan
/-!
Characterisation of `getFilteredDeferUsageSet` (model of `get_filtered_defer_usage_set`):
the defer usages of the fields that have no proper ancestor among them.
-/
namespace Gql.Async.Plan

variable (parentOf : Nat → Option Nat)

theorem Ancestor.lt (hwf : ∀ d p, parentOf d = some p → p < d) {a d : Nat}
    (h : Ancestor parentOf a d) : a < d := by
  induction h with
  | parent hp => exact hwf _ _ hp
  | step hp _ ih => exact Nat.lt_trans ih (hwf _ _ hp)

theorem Ancestor.trans {a b d : Nat} (h1 : Ancestor parentOf a b) (h2 : Ancestor parentOf b d) :
    Ancestor parentOf a d := by
  induction h2 with
  | parent hp => exact Ancestor.step hp h1
  | step hp _ ih => exact Ancestor.step hp ih

theorem ancestorIn_none (s : DeferUsageSet) (fuel : Nat) : ancestorIn parentOf s fuel none = false := by
  cases fuel <;> rfl

/-- with enough fuel the parent walk finds exactly the proper ancestors (or the start itself) -/
theorem ancestorIn_some (hwf : ∀ d p, parentOf d = some p → p < d) (s : DeferUsageSet) :
    ∀ (fuel p : Nat), p < fuel →
      (ancestorIn parentOf s fuel (some p) = true ↔ p ∈ s ∨ ∃ a ∈ s, Ancestor parentOf a p)
  | 0, p, h => by omega
  | fuel + 1, p, h => by
    by_cases hp : p ∈ s
    · simp [ancestorIn, hp]
    · simp only [ancestorIn, hp, if_false, false_or]
      cases hq : parentOf p with
      | none =>
        rw [ancestorIn_none]
        constructor
        · intro h; cases h
        · rintro ⟨a, _, ha⟩
          cases ha with
          | parent h' => rw [hq] at h'; cases h'
          | step h' _ => rw [hq] at h'; cases h'
      | some q =>
        have hqlt : q < fuel := by have := hwf p q hq; omega
        rw [ancestorIn_some hwf s fuel q hqlt]
        constructor
        · rintro (hqs | ⟨a, has, haq⟩)
          · exact ⟨q, hqs, Ancestor.parent hq⟩
          · exact ⟨a, has, Ancestor.step hq haq⟩
        · rintro ⟨a, has, ha⟩
          cases ha with
          | parent h' => rw [hq] at h'; cases h'; exact Or.inl has
          | step h' hrest => rw [hq] at h'; cases h'; exact Or.inr ⟨a, has, hrest⟩

theorem ancestorIn_parent (hwf : ∀ d p, parentOf d = some p → p < d) (s : DeferUsageSet)
    (fuel d : Nat) (hd : d < fuel) :
    ancestorIn parentOf s fuel (parentOf d) = true ↔ ∃ a ∈ s, Ancestor parentOf a d := by
  cases hq : parentOf d with
  | none =>
    rw [ancestorIn_none]
    constructor
    · intro h; cases h
    · rintro ⟨a, _, ha⟩
      cases ha with
      | parent h' => rw [hq] at h'; cases h'
      | step h' _ => rw [hq] at h'; cases h'
  | some q =>
    have hqlt : q < fuel := by have := hwf d q hq; omega
    rw [ancestorIn_some parentOf hwf s fuel q hqlt]
    constructor
    · rintro (hqs | ⟨a, has, haq⟩)
      · exact ⟨q, hqs, Ancestor.parent hq⟩
      · exact ⟨a, has, Ancestor.step hq haq⟩
    · rintro ⟨a, has, ha⟩
      cases ha with
      | parent h' => rw [hq] at h'; cases h'; exact Or.inl has
      | step h' hrest => rw [hq] at h'; cases h'; exact Or.inr ⟨a, has, hrest⟩

/-- every element of `s` with an ancestor in `s` has a *topmost* ancestor in `s` -/
theorem exists_root (hwf : ∀ d p, parentOf d = some p → p < d) (s : DeferUsageSet) :
    ∀ (n a : Nat), a < n → a ∈ s →
      ∃ r ∈ s, (r = a ∨ Ancestor parentOf r a) ∧ ¬ ∃ b ∈ s, Ancestor parentOf b r
  | 0, a, h, _ => by omega
  | n + 1, a, h, has => by
    by_cases hb : ∃ b ∈ s, Ancestor parentOf b a
    · obtain ⟨b, hbs, hba⟩ := hb
      have hlt : b < n := by have := Ancestor.lt parentOf hwf hba; omega
      obtain ⟨r, hrs, hr, hroot⟩ := exists_root hwf s n b hlt hbs
      refine ⟨r, hrs, Or.inr ?_, hroot⟩
      rcases hr with rfl | hr
      · exact hba
      · exact Ancestor.trans parentOf hr hba
    · exact ⟨a, has, Or.inl rfl, hb⟩

/-- the invariant of the second loop: nothing is removed unless it has an ancestor in `s` -/
structure Good (s live : DeferUsageSet) : Prop where
  sub : ∀ x ∈ live, x ∈ s
  nodup : live.Nodup
  removed : ∀ x ∈ s, x ∉ live → ∃ a ∈ s, Ancestor parentOf a x

theorem prune_spec (hwf : ∀ d p, parentOf d = some p → p < d) (fuel : Nat) (s : DeferUsageSet)
    (hfuel : ∀ d ∈ s, d < fuel) :
    ∀ (todo live : DeferUsageSet), Good parentOf s live → (∀ x ∈ todo, x ∈ s) →
      Good parentOf s (pruneChildren parentOf fuel todo live) ∧
      (∀ x, x ∈ pruneChildren parentOf fuel todo live → x ∈ live) ∧
      (∀ x ∈ todo, x ∈ pruneChildren parentOf fuel todo live → ¬ ∃ a ∈ s, Ancestor parentOf a x) ∧
      (∀ x, x ∈ live → x ∉ todo → x ∈ pruneChildren parentOf fuel todo live)
  | [], live, hg, _ => by simp [pruneChildren, hg]
  | d :: rest, live, hg, htodo => by
    have hds : d ∈ s := htodo d (by simp)
    have hrest : ∀ x ∈ rest, x ∈ s := fun x hx => htodo x (by simp [hx])
    have hiff := ancestorIn_parent parentOf hwf live fuel d (hfuel d hds)
    by_cases hc : ancestorIn parentOf live fuel (parentOf d) = true
    · obtain ⟨a, hal, had⟩ := hiff.mp hc
      have hg' : Good parentOf s (live.erase d) := by
        refine ⟨fun x hx => hg.sub x (List.mem_of_mem_erase hx), hg.nodup.erase d, ?_⟩
        intro x hxs hx
        by_cases hxd : x = d
        · subst hxd; exact ⟨a, hg.sub a hal, had⟩
        · exact hg.removed x hxs (fun hin => hx ((List.mem_erase_of_ne hxd).mpr hin))
      obtain ⟨h1, h2, h3, h4⟩ := prune_spec hwf fuel s hfuel rest (live.erase d) hg' hrest
      simp only [pruneChildren, hc, if_true]
      refine ⟨h1, fun x hx => List.mem_of_mem_erase (h2 x hx), ?_, ?_⟩
      · intro x hx hxR
        rcases List.mem_cons.mp hx with rfl | hin
        · exact absurd (h2 x hxR) (hg.nodup.not_mem_erase)
        · exact h3 x hin hxR
      · intro x hxl hxn
        have hxd : x ≠ d := fun e => hxn (by simp [e])
        exact h4 x ((List.mem_erase_of_ne hxd).mpr hxl) (fun hin => hxn (by simp [hin]))
    · have hno : ¬ ∃ a ∈ s, Ancestor parentOf a d := by
        rintro ⟨a, has, had⟩
        obtain ⟨r, hrs, hr, hroot⟩ := exists_root parentOf hwf s (a + 1) a (by omega) has
        have hrl : r ∈ live := by
          by_cases hrl : r ∈ live
          · exact hrl
          · exact absurd (hg.removed r hrs hrl) hroot
        have hrd : Ancestor parentOf r d := by
          rcases hr with rfl | hr
          · exact had
          · exact Ancestor.trans parentOf hr had
        exact hc (hiff.mpr ⟨r, hrl, hrd⟩)
      obtain ⟨h1, h2, h3, h4⟩ := prune_spec hwf fuel s hfuel rest live hg hrest
      have hcf : ancestorIn parentOf live fuel (parentOf d) = false := by simpa using hc
      simp only [pruneChildren, hcf, Bool.false_eq_true, if_false]
      refine ⟨h1, h2, ?_, ?_⟩
      · intro x hx hxR
        rcases List.mem_cons.mp hx with rfl | hin
        · exact hno
        · exact h3 x hin hxR
      · intro x hxl hxn
        exact h4 x hxl (fun hin => hxn (by simp [hin]))

/-! first loop -/

theorem setAdd_mem (s : DeferUsageSet) (d x : Nat) : x ∈ setAdd s d ↔ x ∈ s ∨ x = d := by
  unfold setAdd
  split
  · constructor
    · exact Or.inl
    · rintro (h | rfl) <;> assumption
  · simp

theorem setAdd_nodup (s : DeferUsageSet) (d : Nat) (h : s.Nodup) : (setAdd s d).Nodup := by
  unfold setAdd
  split
  · exact h
  · rename_i hd
    exact List.nodup_append.mpr ⟨h, by simp, by
      intro a ha b hb
      simp only [List.mem_singleton] at hb
      subst hb
      exact fun e => hd (e ▸ ha)⟩

theorem collectUsages_some (fdl : FieldDetailsList) :
    ∀ acc, (∀ fd ∈ fdl, fd.deferUsage.isSome) → acc.Nodup →
      ∃ s, collectUsages fdl acc = some s ∧ s.Nodup ∧
        ∀ x, x ∈ s ↔ x ∈ acc ∨ x ∈ fdl.filterMap (·.deferUsage) := by
  induction fdl with
  | nil => intro acc _ hnd; exact ⟨acc, rfl, hnd, by simp⟩
  | cons fd rest ih =>
    intro acc hall hnd
    have hfd := hall fd (by simp)
    cases hd : fd.deferUsage with
    | none => simp [hd] at hfd
    | some d =>
      obtain ⟨s, hs, hsnd, hmem⟩ := ih (setAdd acc d) (fun f hf => hall f (by simp [hf])) (setAdd_nodup acc d hnd)
      refine ⟨s, by simp [collectUsages, hd, hs], hsnd, ?_⟩
      intro x
      rw [hmem x, setAdd_mem]
      simp only [List.filterMap_cons, hd, List.mem_cons]
      constructor
      · rintro ((h | h) | h)
        · exact Or.inl h
        · exact Or.inr (Or.inl h)
        · exact Or.inr (Or.inr h)
      · rintro (h | h | h)
        · exact Or.inl (Or.inl h)
        · exact Or.inl (Or.inr h)
        · exact Or.inr h

/-- **`get_filtered_defer_usage_set`, all fields deferred**: exactly the usages of the fields that
have no proper ancestor among the usages of the fields. -/
theorem filtered_spec (hwf : ∀ d p, parentOf d = some p → p < d) (fuel : Nat)
    (fdl : FieldDetailsList) (hall : ∀ fd ∈ fdl, fd.deferUsage.isSome)
    (hfuel : ∀ fd ∈ fdl, ∀ d, fd.deferUsage = some d → d < fuel) (d : Nat) :
    d ∈ getFilteredDeferUsageSet parentOf fuel fdl ↔
      d ∈ fdl.filterMap (·.deferUsage) ∧
        ¬ ∃ a ∈ fdl.filterMap (·.deferUsage), Ancestor parentOf a d := by
  obtain ⟨s, hs, hsnd, hmem⟩ := collectUsages_some fdl [] hall (by simp)
  have hmem' : ∀ x, x ∈ s ↔ x ∈ fdl.filterMap (·.deferUsage) := by simpa using hmem
  have hf : ∀ x ∈ s, x < fuel := by
    intro x hx
    obtain ⟨fd, hfd, he⟩ := List.mem_filterMap.mp ((hmem' x).mp hx)
    exact hfuel fd hfd x he
  have hgood : Good parentOf s s := ⟨fun _ h => h, hsnd, fun x hx hn => absurd hx hn⟩
  obtain ⟨h1, h2, h3, _⟩ := prune_spec parentOf hwf fuel s hf s s hgood (fun _ h => h)
  simp only [getFilteredDeferUsageSet, hs]
  constructor
  · intro hd
    have hds := h2 d hd
    refine ⟨(hmem' d).mp hds, ?_⟩
    rintro ⟨a, ha, had⟩
    exact h3 d hds hd ⟨a, (hmem' a).mpr ha, had⟩
  · rintro ⟨hd, hno⟩
    have hds := (hmem' d).mpr hd
    by_cases hin : d ∈ pruneChildren parentOf fuel s s
    · exact hin
    · obtain ⟨a, has, had⟩ := h1.removed d hds hin
      exact absurd ⟨a, (hmem' a).mp has, had⟩ hno

end Gql.Async.Plan
