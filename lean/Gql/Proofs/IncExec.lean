import Gql.Async.IncExec
import Gql.Proofs.Plan
import Gql.Proofs.Cut
import Gql.Proofs.Bridge
/-!
Lemmas about `Gql.Async.IncExec` (denotational model of the incremental executor): whatever the
schema, document, variables and data, the cut produced is well formed — collection keeps the
response keys of the grouped field set distinct, the execution plan partitions them
(`Plan.build_inv`), and the recursion into field values preserves well-formedness.
-/
namespace Gql.Async.IncExec
open Gql.Exec Gql.Async

/-! ### response keys -/

theorem keyOf_injective : Function.Injective keyOf := by
  intro a b h
  unfold keyOf at h
  have h2 := congrArg (fun l => String.ofList (l.map Char.ofNat)) h
  simpa [List.map_map, Function.comp_def] using h2

theorem addField_keys (g : GFS) (k : Name) (fd : FD) :
    (addField g k fd).map Prod.fst =
      if k ∈ g.map Prod.fst then g.map Prod.fst else g.map Prod.fst ++ [k] := by
  induction g with
  | nil => simp [addField]
  | cons x rest ih =>
    obtain ⟨k', fds⟩ := x
    by_cases h : k' = k
    · subst h; simp [addField]
    · have h' : ¬ k = k' := fun e => h e.symm
      simp only [addField, h, if_false, List.map_cons, ih, List.mem_cons, h', false_or]
      split <;> simp

def Good (st : CState) : Prop := (st.grouped.map Prod.fst).Nodup

theorem addField_nodup (g : GFS) (k : Name) (fd : FD) (h : (g.map Prod.fst).Nodup) :
    ((addField g k fd).map Prod.fst).Nodup := by
  rw [addField_keys]
  split
  · exact h
  · rename_i hk
    rw [List.nodup_append]
    refine ⟨h, by simp, ?_⟩
    intro a ha b hb
    simp only [List.mem_singleton] at hb
    subst hb
    intro e
    subst e
    exact hk ha

/-! ### collection keeps the response keys distinct -/

mutual
theorem collectSels_good (cx : Impl.Ctx) (rt : Name)
    (recur : Option Nat → List Selection → CState → Option CState)
    (hrec : ∀ du sels st st', recur du sels st = some st' → Good st → Good st') :
    ∀ (du : Option Nat) (sels : List Selection) (st st' : CState),
      collectSels cx rt recur du sels st = some st' → Good st → Good st'
  | du, [], st, st', h, hg => by
    simp only [collectSels, Option.some.injEq] at h
    subst h; exact hg
  | du, sel :: rest, st, st', h, hg => by
    rw [collectSels] at h
    cases hs : collectSel cx rt recur du sel st with
    | none => simp [hs] at h
    | some st1 =>
      simp only [hs] at h
      exact collectSels_good cx rt recur hrec du rest st1 st' h
        (collectSel_good cx rt recur hrec du sel st st1 hs hg)

theorem collectSel_good (cx : Impl.Ctx) (rt : Name)
    (recur : Option Nat → List Selection → CState → Option CState)
    (hrec : ∀ du sels st st', recur du sels st = some st' → Good st → Good st') :
    ∀ (du : Option Nat) (sel : Selection) (st st' : CState),
      collectSel cx rt recur du sel st = some st' → Good st → Good st'
  | du, .field alias name args dirs sels, st, st', h, hg => by
    rw [collectSel] at h
    split at h
    · simp only [Option.some.injEq] at h
      subst h
      exact addField_nodup _ _ _ hg
    · simp only [Option.some.injEq] at h
      subst h; exact hg
    · cases h
  | du, .inline cond dirs sels, st, st', h, hg => by
    rw [collectSel] at h
    split at h
    · split at h
      · split at h
        · cases h
        · exact collectSels_good cx rt recur hrec du sels st st' h hg
        · exact collectSels_good cx rt recur hrec _ sels _ st' h hg
      · simp only [Option.some.injEq] at h
        subst h; exact hg
    · simp only [Option.some.injEq] at h
      subst h; exact hg
    · cases h
  | du, .spread name dirs, st, st', h, hg => by
    rw [collectSel] at h
    split at h
    · split at h
      · simp only [Option.some.injEq] at h
        subst h; exact hg
      · split at h
        · simp only [Option.some.injEq] at h
          subst h; exact hg
        · split at h
          · cases h
          · split at h
            · simp only [Option.some.injEq] at h
              subst h; exact hg
            · exact hrec _ _ _ _ h hg
          · split at h
            · simp only [Option.some.injEq] at h
              subst h; exact hg
            · exact hrec _ _ _ _ h hg
    · simp only [Option.some.injEq] at h
      subst h; exact hg
    · cases h
end

theorem collectFuel_good (cx : Impl.Ctx) (rt : Name) :
    ∀ (n : Nat) (du : Option Nat) (sels : List Selection) (st st' : CState),
      collectFuel cx rt n du sels st = some st' → Good st → Good st'
  | 0, _, _, _, _, h, _ => by simp [collectFuel] at h
  | n + 1, du, sels, st, st', h, hg => by
    rw [collectFuel] at h
    exact collectSels_good cx rt _ (collectFuel_good cx rt n) du sels st st' h hg

theorem initC_good (base : Nat) : Good (initC base) := by simp [Good, initC]

theorem collectRoot_good {cx : Impl.Ctx} {rt : Name} {sels : List Selection} {st : CState}
    (h : collectRoot cx rt sels = some st) : Good st :=
  collectFuel_good cx rt _ _ _ _ _ h (initC_good 0)

theorem collectSubLoop_good (cx : Impl.Ctx) (rt : Name) :
    ∀ (fds : List FD) (st st' : CState), collectSubLoop cx rt fds st = some st' → Good st → Good st'
  | [], st, st', h, hg => by
    simp only [collectSubLoop, Option.some.injEq] at h
    subst h; exact hg
  | fd :: rest, st, st', h, hg => by
    rw [collectSubLoop] at h
    cases hs : collectFuel cx rt (fuelOf cx.doc) fd.du fd.node.sels st with
    | none => simp [hs] at h
    | some st1 =>
      simp only [hs] at h
      exact collectSubLoop_good cx rt rest st1 st' h (collectFuel_good cx rt _ _ _ _ _ hs hg)

theorem collectSubfields_good {cx : Impl.Ctx} {rt : Name} {fds : List FD} {base : Nat} {st : CState}
    (h : collectSubfields cx rt fds base = some st) : Good st :=
  collectSubLoop_good cx rt fds _ _ h (initC_good base)

/-! ### the executor keeps cuts well formed -/

theorem leafCut_wf {j : Json} {c : Cut} (h : leafCut j = some c) : c.wf = true := by
  unfold leafCut at h
  split at h
  · split at h
    · simp only [Option.some.injEq] at h
      subst h
      simpa [Cut.wf] using ‹_›
    · cases h
  · cases h

def ChildWf (child : Child) : Prop :=
  ∀ name args t fds us ps c, child name args t fds us ps = some c → c.wf = true

theorem executeField_wf {cx : Impl.Ctx} {parent : Name} {child : Child} (hc : ChildWf child)
    {usages : List DU} {pset : Plan.DeferUsageSet} {fds : List FD} {c : Cut}
    (h : executeField cx parent child usages pset fds = some (some c)) : c.wf = true := by
  unfold executeField at h
  split at h
  · cases h
  · simp only at h
    split at h
    · split at h
      · cases h
      · rename_i j _ _
        cases hl : leafCut j with
        | none => simp [hl] at h
        | some c' =>
          simp only [hl, Option.map_some, Option.some.injEq] at h
          subst h
          exact leafCut_wf hl
      · cases h
    · split at h
      · cases h
      · split at h
        · cases h
        · first
            | exact hc _ _ _ _ _ _ _ h
            | (obtain ⟨c', hk, he⟩ := Option.map_eq_some_iff.mp h
               cases he
               exact hc _ _ _ _ _ _ _ hk)

theorem sublist_cons_of {α : Type} {a : α} {l l' : List α} (h : l.Sublist l') :
    (a :: l).Sublist (a :: l') := h.cons_cons a

theorem executeKeys_wf {cx : Impl.Ctx} {parent : Name} {child : Child} (hc : ChildWf child)
    {usages : List DU} {pset : Plan.DeferUsageSet} {g : GFS} :
    ∀ (keys : List Name) (fs : List (List Nat × Cut)),
      executeKeys cx parent child usages pset g keys = some fs →
      wfCutFields fs = true ∧ (fs.map Prod.fst).Sublist (keys.map keyOf)
  | [], fs, h => by
    simp only [executeKeys, Option.some.injEq] at h
    subst h
    exact ⟨rfl, List.Sublist.refl _⟩
  | k :: rest, fs, h => by
    rw [executeKeys] at h
    split at h
    · cases h
    · rename_i fds _
      split at h
      · rename_i c cs hf hr
        simp only [Option.some.injEq] at h
        subst h
        obtain ⟨h1, h2⟩ := executeKeys_wf hc rest cs hr
        refine ⟨?_, ?_⟩
        · simp only [wfCutFields, executeField_wf hc hf, h1, Bool.and_self]
        · simpa using h2.cons_cons (keyOf k)
      · rename_i cs hf hr
        simp only [Option.some.injEq] at h
        subst h
        obtain ⟨h1, h2⟩ := executeKeys_wf hc rest _ hr
        exact ⟨h1, by simpa using h2.cons (keyOf k)⟩
      · cases h

theorem executeSets_wf {cx : Impl.Ctx} {parent : Name} {child : Child} (hc : ChildWf child)
    {usages : List DU} {g : GFS} :
    ∀ (sets : List (Plan.DeferUsageSet × Plan.GroupedFieldSet Name))
      (gs : List (List (List Nat × Cut))),
      executeSets cx parent child usages g sets = some gs →
      wfCutGroups gs = true ∧
      ((gs.map (fun g => g.map Prod.fst)).flatten).Sublist
        (((sets.map Prod.snd).flatten.map Prod.fst).map keyOf)
  | [], gs, h => by
    simp only [executeSets, Option.some.injEq] at h
    subst h
    exact ⟨rfl, List.Sublist.refl _⟩
  | (s, part) :: rest, gs, h => by
    rw [executeSets] at h
    split at h
    · rename_i fs gs' hf hr
      simp only [Option.some.injEq] at h
      subst h
      obtain ⟨h1, h2⟩ := executeKeys_wf hc _ _ hf
      obtain ⟨h3, h4⟩ := executeSets_wf hc rest gs' hr
      refine ⟨by simp only [wfCutGroups, h1, h3, Bool.and_self], ?_⟩
      simp only [List.map_cons, List.flatten_cons, List.map_append]
      exact h2.append h4
    · cases h

theorem executePlan_wf {cx : Impl.Ctx} {parent : Name} {child : Child} (hc : ChildWf child)
    {usages : List DU} {pset : Plan.DeferUsageSet} {st : CState} (hg : Good st) {c : Cut}
    (h : executePlan cx parent child usages pset st = some c) : c.wf = true := by
  unfold executePlan at h
  simp only at h
  split at h
  · rename_i now later hn hl
    simp only [Option.some.injEq] at h
    subst h
    obtain ⟨h1, h2⟩ := executeKeys_wf hc _ _ hn
    obtain ⟨h3, h4⟩ := executeSets_wf hc _ _ hl
    have hnd : ((toPlan st.grouped).map Prod.fst).Nodup := by
      have : (toPlan st.grouped).map Prod.fst = st.grouped.map Prod.fst := by
        simp [toPlan, List.map_map, Function.comp_def]
      rw [this]; exact hg
    have inv := Plan.build_inv (parentOf (usages ++ st.newUsages)) ((usages ++ st.newUsages).length + 1)
      pset (toPlan st.grouped) hnd
    have hperm := inv.perm.map Prod.fst
    have hnd2 := (hperm.nodup_iff).mp hnd
    have hnd3 : (List.map keyOf (List.map Prod.fst
        ((Plan.buildExecutionPlan (parentOf (usages ++ st.newUsages)) ((usages ++ st.newUsages).length + 1)
            (toPlan st.grouped) pset).groupedFieldSet ++
          (List.map Prod.snd (Plan.buildExecutionPlan (parentOf (usages ++ st.newUsages))
            ((usages ++ st.newUsages).length + 1) (toPlan st.grouped) pset).newGroupedFieldSets).flatten))).Nodup :=
      List.Pairwise.map keyOf (fun a b hab he => hab (keyOf_injective he)) hnd2
    simp only [Cut.wf, Bool.and_eq_true, decide_eq_true_eq]
    refine ⟨⟨?_, h1⟩, h3⟩
    rw [List.map_append, keys_refFields, keys_refGroups]
    refine List.Sublist.nodup ?_ hnd3
    rw [List.map_append, List.map_append]
    exact h2.append h4
  · cases h

theorem completeObject_wf {cx : Impl.Ctx} {rt : Name} {fds : List FD} {usages : List DU}
    {pset : Plan.DeferUsageSet} {child : Child} (hc : ChildWf child) {c : Cut}
    (h : completeObject cx rt fds usages pset child = some c) : c.wf = true := by
  unfold completeObject at h
  split at h
  · cases h
  · rename_i st hs
    exact executePlan_wf hc (collectSubfields_good hs) h

theorem completeNull_wf {t : TypeRef} {c : Cut} (h : completeNull t = some c) : c.wf = true := by
  unfold completeNull at h
  split at h
  · cases h
  · simp only [Option.some.injEq] at h
    subst h; rfl

theorem nullChild_wf : ChildWf nullChild := fun _ _ _ _ _ _ _ h => completeNull_wf h

theorem completeNamed_wf {cx : Impl.Ctx} {t : TypeRef} {fds : List FD} {usages : List DU}
    {pset : Plan.DeferUsageSet} {leaf? : Option PyLeaf} {tn : TN} {child : Child}
    (hc : ChildWf child) {c : Cut}
    (h : completeNamed cx t fds usages pset leaf? tn child = some c) : c.wf = true := by
  unfold completeNamed at h
  split at h
  · cases h
  · split at h
    · split at h
      · split at h
        · cases h
        · exact leafCut_wf h
        · cases h
      · cases h
    · split at h
      · exact completeObject_wf hc h
      · cases h
    · exact completeObject_wf hc h
    · cases h

mutual
theorem completeValue_wf (cx : Impl.Ctx) :
    ∀ (t : TypeRef) (fds : List FD) (usages : List DU) (pset : Plan.DeferUsageSet) (v : RVal)
      (c : Cut), completeValue cx t fds usages pset v = some c → c.wf = true
  | t, fds, usages, pset, .raise _ _, c, h => by simp [completeValue] at h
  | t, fds, usages, pset, .null, c, h => by
    rw [completeValue] at h; exact completeNull_wf h
  | t, fds, usages, pset, .leaf l, c, h => by
    rw [completeValue] at h; exact completeNamed_wf nullChild_wf h
  | t, fds, usages, pset, .list items, c, h => by
    unfold completeValue at h
    split at h
    · rename_i t' _
      split at h
      · rename_i cs hcs
        simp only [Option.some.injEq] at h
        subst h
        simp only [Cut.wf, wfCutBatches, Bool.and_true]
        exact completeItems_wf cx t' fds usages pset items cs hcs
      · cases h
    · exact completeNamed_wf nullChild_wf h
  | t, fds, usages, pset, .obj tn f, c, h => by
    rw [completeValue] at h
    refine completeNamed_wf ?_ h
    intro name args t' fds' us ps c' hc'
    exact completeValue_wf cx t' fds' us ps (f name args) c' hc'

theorem completeItems_wf (cx : Impl.Ctx) :
    ∀ (t : TypeRef) (fds : List FD) (usages : List DU) (pset : Plan.DeferUsageSet)
      (items : List RVal) (cs : List Cut),
      completeItems cx t fds usages pset items = some cs → wfCutItems cs = true
  | t, fds, usages, pset, [], cs, h => by
    simp only [completeItems, Option.some.injEq] at h
    subst h; rfl
  | t, fds, usages, pset, x :: xs, cs, h => by
    rw [completeItems] at h
    split at h
    · rename_i c cs' hx hxs
      simp only [Option.some.injEq] at h
      subst h
      simp only [wfCutItems, completeValue_wf cx t fds usages pset x c hx,
        completeItems_wf cx t fds usages pset xs cs' hxs, Bool.and_self]
    · cases h
end

theorem childOf_wf (cx : Impl.Ctx) (src : RVal) : ChildWf (childOf cx src) :=
  fun _ _ _ _ _ _ _ h => completeValue_wf cx _ _ _ _ _ _ h

/-- The cut produced by the executor model is well formed, for every request. -/
theorem incCut_wf {ops : Ops} {s : Schema} {doc : Doc} {opName : Option Name} {vars : Vars}
    {root : RVal} {c : Cut} (h : incCut ops s doc opName vars root = some c) : c.wf = true := by
  unfold incCut at h
  simp only at h
  split at h
  · cases h
  · split at h
    · cases h
    · split at h
      · cases h
      · rename_i st hs
        exact executePlan_wf (childOf_wf _ root) (collectRoot_good hs) h

end Gql.Async.IncExec
